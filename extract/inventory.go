package main

import (
	"bytes"
	"fmt"
	"go/ast"
	"go/token"
	"go/types"
	"sort"
	"strings"
)

// ---------------------------------------------------------------------------
// Footprints (C19): how every method uses its receiver's fields and the
// package-level variables of the repository.

type use struct{ obj, kind string }

func calleeName(p *pkgT, call *ast.CallExpr) string {
	switch f := call.Fun.(type) {
	case *ast.Ident:
		if o := p.TypesInfo.Uses[f]; o != nil && o.Pkg() != nil {
			return pkgShort(o.Pkg().Path()) + "." + o.Name()
		}
		return f.Name
	case *ast.SelectorExpr:
		if sel := p.TypesInfo.Selections[f]; sel != nil {
			t := sel.Recv()
			return typeShort(t) + "." + f.Sel.Name
		}
		if o := p.TypesInfo.Uses[f.Sel]; o != nil && o.Pkg() != nil {
			return pkgShort(o.Pkg().Path()) + "." + o.Name()
		}
		return src(f)
	case *ast.ParenExpr, *ast.ArrayType, *ast.StarExpr, *ast.InterfaceType, *ast.MapType, *ast.FuncType:
		return "conv:" + src(f)
	case *ast.IndexExpr:
		return src(f.X)
	}
	return src(call.Fun)
}

func pkgShort(path string) string {
	if strings.HasPrefix(path, modPath) {
		s := short(path)
		return strings.ReplaceAll(s, "/", "_")
	}
	return path
}

func typeShort(t types.Type) string {
	s := types.TypeString(t, func(p *types.Package) string { return pkgShort(p.Path()) })
	return s
}

func footprint(p *pkgT, fd *ast.FuncDecl) []use {
	recv := ""
	if fd.Recv != nil && len(fd.Recv.List) == 1 && len(fd.Recv.List[0].Names) == 1 {
		recv = fd.Recv.List[0].Names[0].Name
	}
	var recvObj types.Object
	if recv != "" {
		recvObj = p.TypesInfo.Defs[fd.Recv.List[0].Names[0]]
	}
	seen := map[use]bool{}
	var stack []ast.Node
	paramObjs := map[*types.Var]bool{}
	if fd.Type.Params != nil {
		for _, f := range fd.Type.Params.List {
			for _, n := range f.Names {
				if v, ok := p.TypesInfo.Defs[n].(*types.Var); ok {
					paramObjs[v] = true
				}
			}
		}
	}
	isPkgVar := func(id *ast.Ident) (string, bool) {
		o, ok := p.TypesInfo.Uses[id].(*types.Var)
		if !ok || o.Pkg() == nil || !strings.HasPrefix(o.Pkg().Path(), modPath) {
			return "", false
		}
		if o.Parent() != o.Pkg().Scope() {
			return "", false
		}
		return "var:" + pkgShort(o.Pkg().Path()) + "." + o.Name(), true
	}
	classify := func(obj string, node ast.Expr) {
		// climb while the parent is an index / selector / star / paren / slice whose operand is node
		cur := ast.Node(node)
		i := len(stack) - 2
		for ; i >= 0; i-- {
			par := stack[i]
			switch x := par.(type) {
			case *ast.IndexExpr:
				if x.X == cur {
					cur = par
					continue
				}
			case *ast.SliceExpr:
				if x.X == cur {
					cur = par
					continue
				}
			case *ast.ParenExpr:
				cur = par
				continue
			case *ast.StarExpr:
				cur = par
				continue
			case *ast.SelectorExpr:
				if x.X == cur {
					// method call on the object?
					if i-1 >= 0 {
						if call, ok := stack[i-1].(*ast.CallExpr); ok && call.Fun == par {
							seen[use{obj, "call:" + calleeName(p, call)}] = true
							return
						}
					}
					cur = par
					continue
				}
			}
			break
		}
		if i < 0 {
			seen[use{obj, "read"}] = true
			return
		}
		switch x := stack[i].(type) {
		case *ast.AssignStmt:
			for _, l := range x.Lhs {
				if l == cur {
					seen[use{obj, "assigned"}] = true
					return
				}
			}
			seen[use{obj, "read"}] = true
		case *ast.IncDecStmt:
			seen[use{obj, "assigned"}] = true
		case *ast.UnaryExpr:
			if x.Op == token.AND {
				seen[use{obj, "addr"}] = true
			} else {
				seen[use{obj, "read"}] = true
			}
		case *ast.CallExpr:
			if x.Fun == cur {
				seen[use{obj, "called"}] = true
				return
			}
			name := calleeName(p, x)
			pos := -1
			for k, a := range x.Args {
				if a == cur {
					pos = k
				}
			}
			// copy(dst, src): first argument is written
			if name == "copy" && pos == 0 {
				seen[use{obj, "assigned"}] = true
				return
			}
			if name == "append" && pos == 0 {
				// result may alias; reported as arg, the assignment (if any) is caught separately
				seen[use{obj, "arg:append"}] = true
				return
			}
			if name == "len" || name == "cap" {
				seen[use{obj, "read"}] = true
				return
			}
			seen[use{obj, fmt.Sprintf("arg:%s#%d", name, pos)}] = true
		case *ast.RangeStmt:
			seen[use{obj, "read"}] = true
		default:
			seen[use{obj, "read"}] = true
		}
	}
	ast.Inspect(fd.Body, func(n ast.Node) bool {
		if n == nil {
			stack = stack[:len(stack)-1]
			return true
		}
		stack = append(stack, n)
		switch x := n.(type) {
		case *ast.SelectorExpr:
			if id, ok := x.X.(*ast.Ident); ok && recvObj != nil && p.TypesInfo.Uses[id] == recvObj {
				if sel := p.TypesInfo.Selections[x]; sel != nil && sel.Kind() == types.FieldVal {
					classify("recv."+x.Sel.Name, x)
				} else if sel != nil {
					// method on the receiver itself
					seen[use{"recv", "self:" + x.Sel.Name}] = true
				}
			}
		case *ast.Ident:
			if name, ok := isPkgVar(x); ok {
				// skip the Sel part of qualified identifiers (handled as Ident too, fine)
				classify(name, x)
			}
			if o, ok := p.TypesInfo.Uses[x].(*types.Var); ok && paramObjs[o] && len(stack) >= 2 {
				// a map-typed parameter indexed directly (k[label] = v) or handed to delete
				if _, isMap := o.Type().Underlying().(*types.Map); isMap {
					switch par := stack[len(stack)-2].(type) {
					case *ast.IndexExpr:
						if par.X == x {
							classify("param[]", x)
						}
					case *ast.CallExpr:
						if calleeName(p, par) == "delete" && len(par.Args) > 0 && par.Args[0] == x {
							seen[use{"param[]", "assigned"}] = true
						}
					}
				}
			}
			if recvObj != nil && p.TypesInfo.Uses[x] == recvObj && len(stack) >= 2 {
				switch par := stack[len(stack)-2].(type) {
				case *ast.SelectorExpr:
					_ = par
				case *ast.IndexExpr:
					// receiver of map / slice type indexed directly: k[label] (= v)
					if par.X == x {
						classify("recv[]", x)
					}
				case *ast.CallExpr:
					for k, a := range par.Args {
						if a == x {
							seen[use{"recv", fmt.Sprintf("arg:%s#%d", calleeName(p, par), k)}] = true
						}
					}
				case *ast.StarExpr:
					// *recv = ... ?
					if len(stack) >= 3 {
						if as, ok := stack[len(stack)-3].(*ast.AssignStmt); ok {
							for _, l := range as.Lhs {
								if l == par {
									seen[use{"recv", "assigned"}] = true
								}
							}
						}
					}
				}
			}
		}
		return true
	})
	var out []use
	for u := range seen {
		out = append(out, u)
	}
	sort.Slice(out, func(i, j int) bool {
		if out[i].obj != out[j].obj {
			return out[i].obj < out[j].obj
		}
		return out[i].kind < out[j].kind
	})
	return out
}

func genFootprints(w *bytes.Buffer) {
	w.WriteString("-- GENERATED by /verif/extract from /repo — do not edit.\nnamespace Cose.Gen.Footprints\n\n")
	w.WriteString("/-- per function (qualified name, receiver type or empty): every (object, kind of use) where object is a receiver field `recv.f`,\n    the receiver itself `recv`, or a package-level variable `var:pkg.name` of the repository -/\n")
	w.WriteString("def footprints : List (String × String × List (String × String)) := [\n")
	var rows []string
	for _, p := range sortedPkgs() {
		sp := short(p.PkgPath)
		if sp == "iana" {
			continue
		}
		for _, fd := range funcs(p) {
			us := footprint(p, fd)
			if len(us) == 0 {
				continue
			}
			var q []string
			for _, u := range us {
				q = append(q, fmt.Sprintf("(%s, %s)", lstr(u.obj), lstr(u.kind)))
			}
			rt := ""
			if rn := recvName(fd); rn != "" {
				rt = strings.ReplaceAll(short(p.PkgPath), "/", "_") + "." + rn
			}
			rows = append(rows, fmt.Sprintf("  (%s, %s, [%s])", lstr(qname(p, fd)), lstr(rt), strings.Join(q, ", ")))
		}
	}
	w.WriteString(strings.Join(rows, ",\n") + "\n]\n\n")
	// struct fields of implementation types (so that a new cached field is visible even if unused yet)
	w.WriteString("/-- fields of every struct type declared in key/* and cwt: (pkg.Type, [(field, Go type)]) -/\ndef structFields : List (String × List (String × String)) := [\n")
	rows = nil
	for _, p := range sortedPkgs() {
		sp := short(p.PkgPath)
		if !(strings.HasPrefix(sp, "key") || sp == "cwt") {
			continue
		}
		for _, f := range p.Syntax {
			for _, d := range f.Decls {
				gd, ok := d.(*ast.GenDecl)
				if !ok || gd.Tok != token.TYPE {
					continue
				}
				for _, s := range gd.Specs {
					ts := s.(*ast.TypeSpec)
					st, ok := ts.Type.(*ast.StructType)
					if !ok {
						continue
					}
					var fs []string
					for _, fl := range st.Fields.List {
						for _, n := range fl.Names {
							fs = append(fs, fmt.Sprintf("(%s, %s)", lstr(n.Name), lstr(src(fl.Type))))
						}
					}
					rows = append(rows, fmt.Sprintf("  (%s, [%s])", lstr(strings.ReplaceAll(sp, "/", "_")+"."+ts.Name.Name), strings.Join(fs, ", ")))
				}
			}
		}
	}
	sort.Strings(rows)
	w.WriteString(strings.Join(rows, ",\n") + "\n]\n\n")
	// callees of the random source (C06): every call made by the functions that draw randomness
	w.WriteString("/-- every call made, in source order, by the functions that draw the library's randomness -/\ndef randomCallees : List (String × List String) := [\n")
	rows = nil
	for _, p := range sortedPkgs() {
		if short(p.PkgPath) != "key" {
			continue
		}
		for _, fd := range funcs(p) {
			if fd.Recv != nil || !(fd.Name.Name == "GetRandomBytes" || fd.Name.Name == "GetRandomUint32") {
				continue
			}
			var cs []string
			ast.Inspect(fd.Body, func(n ast.Node) bool {
				if c, ok := n.(*ast.CallExpr); ok {
					cs = append(cs, lstr(calleeName(p, c)))
				}
				return true
			})
			rows = append(rows, fmt.Sprintf("  (%s, [%s])", lstr(qname(p, fd)), strings.Join(cs, ", ")))
		}
	}
	sort.Strings(rows)
	w.WriteString(strings.Join(rows, ",\n") + "\n]\n\nend Cose.Gen.Footprints\n")
}

// ---------------------------------------------------------------------------
// Panic sites (C07)

// external calls with panicking preconditions that the library may reach
var panickyExternals = map[string]bool{
	"crypto/ed25519.NewKeyFromSeed":          true, // len(seed) != 32
	"crypto/ed25519.Sign":                    true, // len(priv) != 64
	"crypto/ed25519.Verify":                  true, // len(pub) != 32
	"crypto/cipher.AEAD.Seal":                true, // nonce length
	"crypto/cipher.AEAD.Open":                true, // nonce length (GCM/chacha panic on wrong nonce size)
	"crypto/cipher.NewCBCEncrypter":          true, // len(iv) != block size
	"crypto/cipher.BlockMode.CryptBlocks":    true, // input not full blocks / dst too short
	"crypto/cipher.Block.Encrypt":            true, // short src/dst
	"crypto/cipher.Stream.XORKeyStream":      true, // dst shorter than src
	"crypto/cipher.NewCTR":                   true, // iv length
	"crypto/elliptic.Curve.IsOnCurve":        true, // nil coordinates
	"crypto/elliptic.Curve.ScalarBaseMult":   true,
	"crypto/elliptic.Curve.ScalarMult":       true,
	"crypto.Hash.New":                        true, // hash not linked
	"reflect.Value.Interface":                true, // zero Value
	"reflect.Value.Bytes":                    true, // not a byte slice
	"reflect.Value.Int":                      true,
	"reflect.Value.Uint":                     true,
	"reflect.Value.Bool":                     true,
	"reflect.Value.String":                   false,
	"reflect.Value.Elem":                     true,
	"reflect.Value.MapRange":                 true,
	"reflect.Value.Len":                      true,
	"math/big.Int.FillBytes":                 true, // buffer too small
	"encoding/binary.bigEndian.PutUint16":    true,
	"encoding/binary.bigEndian.PutUint32":    true,
	"encoding/binary.bigEndian.PutUint64":    true,
	"encoding/binary.bigEndian.Uint32":       true,
	"crypto/ecdh.PrivateKey.ECDH":            false,
	"golang.org/x/crypto/chacha20poly1305.New": false,
}

func extName(p *pkgT, call *ast.CallExpr) string {
	switch f := call.Fun.(type) {
	case *ast.SelectorExpr:
		if sel := p.TypesInfo.Selections[f]; sel != nil {
			t := sel.Recv()
			if pt, ok := t.(*types.Pointer); ok {
				t = pt.Elem()
			}
			if nt, ok := t.(*types.Named); ok && nt.Obj().Pkg() != nil {
				return nt.Obj().Pkg().Path() + "." + nt.Obj().Name() + "." + f.Sel.Name
			}
			return types.TypeString(t, nil) + "." + f.Sel.Name
		}
		if o := p.TypesInfo.Uses[f.Sel]; o != nil && o.Pkg() != nil {
			return o.Pkg().Path() + "." + o.Name()
		}
	case *ast.Ident:
		if o := p.TypesInfo.Uses[f]; o != nil && o.Pkg() != nil {
			return o.Pkg().Path() + "." + o.Name()
		}
		return f.Name
	}
	return ""
}

func panicSites(p *pkgT, fd *ast.FuncDecl) map[string]int {
	m := map[string]int{}
	rangePtrVars := map[types.Object]bool{}
	ast.Inspect(fd.Body, func(n ast.Node) bool {
		switch x := n.(type) {
		case *ast.RangeStmt:
			if id, ok := x.Value.(*ast.Ident); ok {
				if o := p.TypesInfo.Defs[id]; o != nil {
					if _, ok := o.Type().Underlying().(*types.Pointer); ok {
						rangePtrVars[o] = true
					}
				}
			}
		case *ast.IndexExpr:
			t := p.TypesInfo.TypeOf(x.X)
			if t == nil {
				return true
			}
			switch u := t.Underlying().(type) {
			case *types.Slice, *types.Basic:
				m["index"]++
			case *types.Array:
				// constant index into an array is checked at compile time
				if _, ok := isConstInt(p, x.Index); !ok {
					m["index"]++
				}
			case *types.Pointer:
				if _, ok := u.Elem().Underlying().(*types.Array); ok {
					if _, ok := isConstInt(p, x.Index); !ok {
						m["index"]++
					}
				}
			case *types.Map:
				// reading a map never panics; writing to a nil map does, counted under mapwrite
			}
		case *ast.AssignStmt:
			for _, l := range x.Lhs {
				if ie, ok := l.(*ast.IndexExpr); ok {
					if t := p.TypesInfo.TypeOf(ie.X); t != nil {
						if _, ok := t.Underlying().(*types.Map); ok {
							m["mapwrite"]++
						}
					}
				}
			}
		case *ast.SliceExpr:
			m["slice"]++
		case *ast.TypeAssertExpr:
			if x.Type == nil {
				return true // type switch
			}
			// comma-ok?  parent inspection is awkward; recompute below
			m["assert"]++
		case *ast.BinaryExpr:
			if x.Op == token.QUO || x.Op == token.REM {
				if t := p.TypesInfo.TypeOf(x); t != nil {
					if b, ok := t.Underlying().(*types.Basic); ok && b.Info()&types.IsInteger != 0 {
						if _, ok := isConstInt(p, x.Y); !ok {
							m["div"]++
						}
					}
				}
			}
		case *ast.SelectorExpr:
			if id, ok := x.X.(*ast.Ident); ok {
				if o := p.TypesInfo.Uses[id]; o != nil && rangePtrVars[o] {
					if sel := p.TypesInfo.Selections[x]; sel != nil && sel.Kind() == types.FieldVal {
						m["ptrElem"]++
					}
				}
			}
		case *ast.CallExpr:
			if id, ok := x.Fun.(*ast.Ident); ok && id.Name == "panic" {
				if _, isBuiltin := p.TypesInfo.Uses[id].(*types.Builtin); isBuiltin {
					m["panic"]++
				}
			}
			if id, ok := x.Fun.(*ast.Ident); ok && id.Name == "make" {
				if len(x.Args) >= 2 {
					if _, ok := isConstInt(p, x.Args[1]); !ok {
						m["make"]++
					}
				}
			}
			if n := extName(p, x); n != "" && !strings.HasPrefix(n, modPath) {
				if panickyExternals[n] {
					m["ext:"+n]++
				}
			}
		}
		return true
	})
	// subtract comma-ok assertions:  v, ok := x.(T)   /  if v, ok := x.(T); ok
	ast.Inspect(fd.Body, func(n ast.Node) bool {
		if as, ok := n.(*ast.AssignStmt); ok && len(as.Lhs) == 2 && len(as.Rhs) == 1 {
			if ta, ok := as.Rhs[0].(*ast.TypeAssertExpr); ok && ta.Type != nil {
				m["assert"]--
			}
		}
		if vs, ok := n.(*ast.ValueSpec); ok && len(vs.Names) == 2 && len(vs.Values) == 1 {
			if ta, ok := vs.Values[0].(*ast.TypeAssertExpr); ok && ta.Type != nil {
				m["assert"]--
			}
		}
		return true
	})
	if m["assert"] == 0 {
		delete(m, "assert")
	}
	return m
}

func genPanicSites(w *bytes.Buffer) {
	w.WriteString("-- GENERATED by /verif/extract from /repo — do not edit.\nnamespace Cose.Gen.PanicSites\n\n")
	w.WriteString("/-- per function: (kind of panic-capable site, count).  kinds: index slice assert panic div make mapwrite ptrElem ext:<callee> -/\n")
	w.WriteString("def panicSites : List (String × List (String × Nat)) := [\n")
	var rows []string
	for _, p := range sortedPkgs() {
		if short(p.PkgPath) == "iana" {
			continue
		}
		for _, fd := range funcs(p) {
			m := panicSites(p, fd)
			if len(m) == 0 {
				continue
			}
			var ks []string
			for k := range m {
				ks = append(ks, k)
			}
			sort.Strings(ks)
			var q []string
			for _, k := range ks {
				q = append(q, fmt.Sprintf("(%s, %d)", lstr(k), m[k]))
			}
			rows = append(rows, fmt.Sprintf("  (%s, [%s])", lstr(qname(p, fd)), strings.Join(q, ", ")))
		}
	}
	w.WriteString(strings.Join(rows, ",\n") + "\n]\n\nend Cose.Gen.PanicSites\n")
}
