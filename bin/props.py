"""Per-property configuration of bin/check (DESIGN §7)."""

PROPS = {
    "C18": {
        "modules": ["Cose.Props.C18"],
        "families": ["cwt"],
        "spec_ops": ["cwt.spec"],
        "n_quick": 20000, "n_thorough": 2000000,
        "rule": "boundary lattice {0,1,now±skew±1,2^31,2^32,2^62,2^63-62135596800±1,2^63-1,2^63,2^64-1,…}^3 x flags x skews "
                "(half of the stream near-valid) from one PRNG seed; each case run as cwt.validatemap (mirror), "
                "cwt.spec (RFC 8392 rule in plain integers) and cwt.validate (struct path); distinct = distinct op line the model answered",
        "trusted_base": ["Cose.Spec.Rfc8392 (reading of RFC 8392 §3.1.4-3.1.6)",
                         "model of Go time.Time (Cose.Cwt.Time) tied by correspondence only"],
        "assumptions": ["FixedNow is set (non-zero), after the Unix epoch and within 2^62 s of year 1",
                        "Duration.Minutes() float comparison equals the integer comparison (argued in Validator.lean, exercised at 10min, 10min+1ns)",
                        "skew = MinInt64 excluded from the theorem (its negation wraps); the mirror model still covers it"],
    },
    "C20": {
        "modules": ["Cose.Props.C20"],
        "families": [],
        "n_quick": 0, "n_thorough": 0,
        "trusted_base": ["Cose.Spec.IanaSnapshot: hand-transcribed IANA registries (COSE, CWT, CBOR tags)"],
        "assumptions": ["the registry snapshot is correct"],
    },
}
