"""Per-property configuration of bin/check (DESIGN §7)."""

PROPS = {
    "C18": {
        "modules": ["Cose.Props.C18", "Cose.Props.CwtEndToEnd", "Cose.Cwt.View", "Cose.Props.ClaimsForms", "Cose.Props.C18Shape"],
        "families": ["cwt", "claims"],
        "spec_ops": ["cwt.spec", "cwt.wallclock", "claims.enc"],
        "n_quick": 20000, "n_thorough": 2000000,
        "rule": "boundary lattice {0,1,now±skew±1,2^31,2^32,2^62,2^63-62135596800±1,2^63-1,2^63,2^64-1,…}^3 x flags x skews "
                "(half of the stream near-valid) from one PRNG seed; each case run as cwt.validatemap (mirror), "
                "cwt.spec (RFC 8392 rule in plain integers) and cwt.validate (struct path); distinct = distinct op line the model answered; claim values that are arrays / nested arrays / maps; cwt.wallclock: one validator without FixedNow over a token that expires within 3 s, before and after",
        "trusted_base": ["Cose.Spec.Rfc8392 (reading of RFC 8392 §3.1.4-3.1.6)",
                         "model of Go time.Time (Cose.Cwt.Time) tied by correspondence only"],
        "assumptions": ["FixedNow is set (non-zero), after the Unix epoch and within 2^62 s of year 1",
                        "Duration.Minutes() float comparison equals the integer comparison (argued in Validator.lean, exercised at 10min, 10min+1ns)",
                        "skew = MinInt64 excluded from the theorem (its negation wraps); the mirror model still covers it"],
    },
    "C20": {
        "modules": ["Cose.Props.C20"],
        "families": [],
        "model_queries": [["iana.diff", "ok none"]],
        "n_quick": 0, "n_thorough": 0,
        "trusted_base": ["Cose.Spec.IanaSnapshot: hand-transcribed IANA registries (COSE, CWT, CBOR tags)"],
        "assumptions": ["the registry snapshot is correct"],
    },
    "C08": {
        "modules": ["Cose.Props.C08", "Cose.Props.C08Wire"],
        "families": ["cbor", "map", "msg:wrongtype", "msg:gomap", "msg:C08", "claims", "api", "kdf", "dec"],
        "spec_ops": ["cbor.enc", "wire.wrongtype", "wire.badbucket", "wire.badpayload", "cbor.encdup", "wire.msgdup", "map.tagkeep", "map.views"],
        "n_quick": 8000, "n_thorough": 200000,
        "rule": "cbor.enc: random Go values (all integer kinds, nil/empty slices, nested CoseMaps of 0..320 int/text labels) encoded by the "
                "library vs the Lean deterministic encoder; cbor.dec / map.unmarshal: random CBOR trees written by an independent "
                "mini-encoder with non-shortest heads, indefinite lengths, duplicate keys, bad UTF-8, tags, exotic keys, then "
                "truncation / bit-flip / insertion / huge-length mutations; distinct = distinct op line the model answered; msg:C08: foreign non-deterministically encoded messages of the six kinds decoded and re-encoded (the output is the deterministic encoding); round 12: kdf and dec families (PartyInfo members of every wrong type at every position in turn; keys under text labels that print like integer labels)",
        "trusted_base": ["model of fxamacker/cbor v2.7.0's accepted language (Cose.Cbor.Decode) tied by correspondence only",
                         "RFC 8949 section 4.2.1 reading (Cose.Cbor.Encode)"],
        "assumptions": ["floats, tags inside `any` values, negative integers below -2^63 are outside the model (answered `unmodelled`, counted)",
                        "Go maps whose labels collide after encoding (int(1) and int64(1)) are outside the model"],
    },
    "C11": {
        "modules": ["Cose.Props.C11", "Cose.Props.PrimShapeMac"],
        "families": ["prim:mac", "impl"],
        "spec_ops": ["prim.mac", "prim.macverify", "prim.mac2"],
        "extras": [{"name": "race", "pkg": "./race", "build_flags": ["-race"], "args": ["-seed", "{seed}", "-n", "{n}", "-only", "hmac,aesmac,MACer"],
                    "n_quick": 40, "n_thorough": 600, "timeout": 3000}],
        "n_quick": 3000, "n_thorough": 200000,
        "rule": "8 MAC algorithms x random keys (1/12 of wrong size 0..80) x message lengths covering every residue mod 16/64/128, 0, "
                "and 65279..70000; each tag then verified as is / truncated / extended / bit-flipped / for other data / under another key; "
                "library answer compared with the Lean HMAC-SHA2 and AES-CBC-MAC reference; results of earlier calls stay untouched by later ones (prim.mac2); a -race program with shared MACers; message and tag slices sit in larger buffers whose tails are checked afterwards; key objects lacking k; patterned keys (all zero, all ones, 00..01, 80 00.., counting) for every algorithm in turn; prim.macalg: the key's alg member changed after construction",
        "trusted_base": ["Lean SHA-2 and AES reference cores (validated by FIPS/RFC KATs as #guard and by this differential run)",
                         "RFC 9053 tables 3 and 4 as transcribed in Props/C11.lean"],
        "assumptions": ["SHA-2 output lengths are hypotheses of hmac_tag_length", "unforgeability of HMAC/CBC-MAC is not a theorem"],
    },
    "C12": {
        "modules": ["Cose.Props.C12", "Cose.Props.PrimShapeAead"],
        "families": ["prim:aead", "impl", "api"],
        "spec_ops": ["prim.aead.enc", "prim.aead.dec", "prim.aead2"],
        "extras": [{"name": "race", "pkg": "./race", "build_flags": ["-race"], "args": ["-seed", "{seed}", "-n", "{n}", "-only", "aesgcm,aesccm,chacha,Encryptor"],
                    "n_quick": 40, "n_thorough": 600, "timeout": 3000}],
        "n_quick": 2500, "n_thorough": 120000,
        "rule": "12 AEAD algorithms x random keys (wrong sizes 1/15) x nonces (wrong lengths 1/12) x plaintext and additional-data lengths "
                "0..70 / block boundaries / 65279,65280,65281,65535,65536,65537,70000; each ciphertext then decrypted as is or with a "
                "bit flipped in ciphertext / nonce / aad / key, truncated or extended; library vs Lean GCM, RFC 3610 CCM, RFC 8439; results of earlier calls and arguments stay untouched (prim.aead2), the key's alg changed after construction (prim.aeadalg); a -race program with shared Encryptors; patterned keys and nonces for every algorithm in turn",
        "trusted_base": ["Lean AES, GHASH, ChaCha20, Poly1305 reference cores (KATs as #guard + this differential run)",
                         "RFC 3610 / RFC 9053 tables as transcribed in Constructions.lean and Props/C12.lean"],
        "assumptions": ["AEAD security (tag unforgeability) is not a theorem; uniqueness theorems reduce acceptance of a changed ciphertext to a tag collision"],
    },
    "C13": {
        "modules": ["Cose.Props.C13", "Cose.Props.PrimShapeKdf"],
        "families": ["prim:kdf"],
        "spec_ops": ["prim.hkdf256", "prim.hkdf512", "prim.hkdfaes", "prim.hkdfaes.read"],
        "n_quick": 1500, "n_thorough": 60000,
        "rule": "secrets/salts incl. empty, info lengths 0..200 (every residue mod 16), output lengths 0..255*HashLen+1 incl. limits, "
                "random read chunkings of the Go reader; library vs Lean RFC 5869 over HMAC-SHA-256/512 and over AES-CBC-MAC; every chunk buffer is overwritten before the next Read; patterned secrets and salts",
        "trusted_base": ["Lean SHA-2 / AES reference cores", "RFC 5869 as transcribed in Constructions.lean"],
        "assumptions": ["the chunking law of the Go reader is established by correspondence (random chunkings), the prefix and limit laws by theorem"],
    },
    "C01": {
        "modules": ["Cose.Props.C01", "Cose.Props.C01Enc", "Cose.Props.C01Sign", "Cose.Props.C01Mac", "Cose.Props.C01EncR", "Cose.Props.C01Forms", "Cose.Props.C01Prot", "Cose.Props.CwtEndToEnd", "Cose.Props.SignOrder"], "families": ["msg:C01", "msg:C06", "conv"], "spec_ops": ["conv.keyset", "conv.ed25519", "conv.ecdsa", "conv.ecdh", "conv.gen", "msg.huge"],
        "extras": [{"name": "race", "pkg": "./race", "build_flags": ["-race"], "args": ["-seed", "{seed}", "-n", "{n}", "-only", "Mac0/,Sign1/,Encrypt0/"],
                    "n_quick": 30, "n_thorough": 400, "timeout": 3000}],
        "n_quick": 500, "n_thorough": 60000,
        "rule": "6 kinds x 24 algorithms x payload {nil, empty, raw of every CBOR length class, pre-encoded CBOR, typed map} x header maps (int/text labels; int, bstr, tstr, bool, array, nested-map values) "
                "x external data {nil, empty, random} x 1-3 signers / 1-3 recipients incl. one nesting level; each produced message consumed tagged, untagged and CWT-tagged; "
                "byte-exact comparison of the produced message (deterministic algorithms), of the bytes handed to the primitive and of the decoded view; payloads of named byte-slice types (mode named); caller-supplied protected buckets holding IV / Partial IV; at fixed slots for every kind: an unprotected bucket naming a kid of the caller's own, the counterpart key held under another kid; history ops (msg.reuse, seq, msg.produce2) on one message object; round 12: every produce ends with a second encode on the same object (the first bytes must not change), every consume runs on a private copy that is overwritten afterwards (the verified object must not change); msg.huge: 262145..1048577-octet payloads through the one-call helpers both ways",
        "trusted_base": ["model of the six message kinds (Cose.Msg.Model) hand-written, tied by correspondence; to-be-authenticated literals regenerated", "Lean crypto references for predicting verdicts"],
        "assumptions": ["signature correctness (SigCorrect) for ECDSA / Ed25519: assumed in the theorem, cross-checked by the Lean EC reference in the run"],
    },
    "C02": {
        "modules": ["Cose.Props.C02", "Cose.Props.Authd", "Cose.Props.History", "Cose.Props.C01Sign", "Cose.Props.SignOrder"], "families": ["msg:C02", "conv"], "spec_ops": ["conv.keyset", "conv.ed25519", "conv.ecdsa", "conv.ecdh", "conv.gen"],
        "extras": [{"name": "race", "pkg": "./race", "build_flags": ["-race"], "args": ["-seed", "{seed}", "-n", "{n}", "-only", "Mac0/,Sign1/"],
                    "n_quick": 30, "n_thorough": 400, "timeout": 3000}],
        "n_quick": 400, "n_thorough": 50000,
        "rule": "valid Sign1/Sign/Mac0/Mac messages, then per message 4 alterations: bit flip at a random position, truncation, trailing byte, byte replacement, other external data, "
                "other key, splice of one top-level member from an independently produced message, change of kind (tag/prefix swap); model (with Lean HMAC/CBC-MAC/ECDSA/Ed25519) predicts accept/reject exactly; for every message the protected bucket re-encoded with a non-shortest head, for every COSE_Sign the last signature's protected bucket extended with the signature kept (three signers, two of one algorithm, at fixed slots); round 12: consume on a private copy overwritten after verification; each authenticated kind with a 65536 / 66000 / 70000-octet payload at fixed slots",
        "trusted_base": ["model of the six message kinds (Cose.Msg.Model) hand-written, tied by correspondence; to-be-authenticated literals regenerated", "Lean crypto references for predicting verdicts"],
        "assumptions": ["existential unforgeability of the primitives is assumed; the theorems reduce acceptance of a changed authenticated item to a forgery"],
    },
    "C03": {
        "modules": ["Cose.Props.C03", "Cose.Props.Authd", "Cose.Props.History"], "families": ["msg:C03", "prim:aead", "msg:C06"], "spec_ops": [],
        "extras": [{"name": "race", "pkg": "./race", "build_flags": ["-race"], "args": ["-seed", "{seed}", "-n", "{n}", "-only", "Encrypt0/,decrypt-shared-input"],
                    "n_quick": 30, "n_thorough": 400, "timeout": 3000}],
        "n_quick": 400, "n_thorough": 50000,
        "rule": "valid Encrypt0/Encrypt messages over 12 AEADs, then alterations as for C02 (ciphertext, IV, protected bytes, prefix, shape, key, external data); after a failed Decrypt the harness "
                "inspects the message object's Payload (PAYLOAD-LEAKED is reported if it is not the zero value); the protected bucket re-encoded with a non-shortest head (same map, other octets) for every message",
        "trusted_base": ["model of the six message kinds (Cose.Msg.Model) hand-written, tied by correspondence; to-be-authenticated literals regenerated", "Lean crypto references for predicting verdicts"],
        "assumptions": ["AEAD security assumed; uniqueness theorems (C12) reduce an accepted change to a tag forgery"],
    },
    "C04": {
        "modules": ["Cose.Props.C04", "Cose.Props.Authd", "Cose.Props.History", "Cose.Props.KdfRoundtrip"], "families": ["msg:C04", "kdf", "api"], "spec_ops": ["msg.consume", "msg.produce", "kdf.enc", "msg.huge"],
        "extras": [{"name": "race", "pkg": "./race", "build_flags": ["-race"], "args": ["-seed", "{seed}", "-n", "{n}", "-only", "Mac0/,Sign1/,Encrypt0/"],
                    "n_quick": 30, "n_thorough": 400, "timeout": 3000}],
        "n_quick": 400, "n_thorough": 40000,
        "rule": "messages written by an independent mini-encoder with non-canonical protected buckets (non-shortest integers, reversed key order, explicit h'a0'), non-shortest heads, optional tags, "
                "authenticated by the library's primitive over the RFC 9052 structure computed independently; recording Signer/Verifier/MACer/Encryptor wrappers expose the bytes handed to the primitive (tobe= / aad=), "
                "compared with encode(spec structure) on both produce and verify side; round 12: a decoded COSE_Sign whose decoded views are annotated by the caller verifies over the same Sig_structures; msg.huge at fixed slots",
        "trusted_base": ["Cose.Spec.Rfc9052 (reading of RFC 9052 sections 4.4, 5.3, 6.3)", "extractor recogniser for the toSign/toMac/toEnc literals"],
        "assumptions": [],
    },
    "C05": {
        "modules": ["Cose.Props.C05", "Cose.Props.C05Sign", "Cose.Props.C05Shape"], "families": ["msg:C05", "msg:C04", "map"], "spec_ops": ["msg.otherkey"],
        "n_quick": 300, "n_thorough": 40000,
        "rule": "per case: a produce with the protected alg given as int / int64 / key.Alg / other width / another registered alg / text / nil / out-of-range; a produce with nil headers (defaults recorded) and its consume; "
                "a consume with a key of another algorithm sharing the key bytes where the family allows (HMAC 256/64 vs 256/256, AES-MAC, CCM, GCM); round 13 (c'): msg.otherkey — the same decoded object asked under the right key and then under the other one, and the other way round, answered like a fresh object under the second key; a message without protected alg; foreign messages with alg in both buckets and later signatures naming another algorithm; round 12 (e): for every (kind, algorithm) pair in turn a hand-built message labelled with a sibling identifier of the key's algorithm (-53, -19, -9, -47, -51, -52) or an unimplemented one, authenticated by the key: refused",
        "trusted_base": ["model of the six message kinds (Cose.Msg.Model) hand-written, tied by correspondence; to-be-authenticated literals regenerated", "Lean crypto references for predicting verdicts"],
        "assumptions": [],
    },
    "C06": {
        "modules": ["Cose.Props.C06", "Cose.Props.C06Shape"], "families": ["msg:C06", "prim:aead"], "spec_ops": ["wire.msgdup"],
        "n_quick": 500, "n_thorough": 60000,
        "rule": "Encrypt0/Encrypt x 12 AEADs x unprotected {none, IV of length n-1,n,n+1,1,0, Partial IV of length 0..n+2, both, ill-typed} x key Base IV {absent, right length, wrong lengths, ill-typed}; "
                "recording Encryptor exposes the nonce on Encrypt and Decrypt; random nonces must be published in header 5 with the algorithm's length; msg.produce2: the message object has been through one encryption with a library-chosen nonce before; round 12: a failed Decrypt has asked the AEAD once (SEVERAL-NONCES-TRIED); Partial IV under a Base IV shorter than the nonce at fixed slots; msg.noncehistory re-reads the last 1024 message objects when they leave the window (published IV still the sealed nonce, every 64th encoded late and decrypted)",
        "trusted_base": ["model of the six message kinds (Cose.Msg.Model) hand-written, tied by correspondence; to-be-authenticated literals regenerated", "Lean crypto references for predicting verdicts"],
        "assumptions": ["non-repetition of crypto/rand output is not a theorem: proved instead that each encryption consumes its own block of the stream"],
    },
    "C09": {
        "modules": ["Cose.Props.C09", "Cose.Props.C09Sign", "Cose.Props.C09All", "Cose.Props.KdfRoundtrip", "Cose.Props.KeySetRoundtrip", "Cose.Props.ClaimsRoundtrip", "Cose.Props.ClaimsForms"], "families": ["msg:C09", "kdf", "claims", "dec", "map"], "spec_ops": ["kdf.enc", "claims.enc", "dec.bytestr", "dec.keyjson", "map.tagkeep", "map.views"],
        "n_quick": 400, "n_thorough": 40000,
        "rule": "library-produced messages of the 6 kinds re-encoded (tagged and untagged input), RemoveCBORTag on tagged and CWT-tagged input; foreign non-canonical messages re-encoded then consumed again "
                "(decode -> encode -> decode -> verify on the library, predicted by the model); the decoded object is independent of its input buffer and of other objects decoded from the same octets (buffer overwritten, header maps edited), and a Verify / Decrypt leaves its re-encoding unchanged (every kind x every algorithm at fixed slots); round 12: map.tagkeep (values under tags 24, 32, 37, 1000, 65536 decode in all views and encode back octet for octet)",
        "trusted_base": ["model of the six message kinds (Cose.Msg.Model) hand-written, tied by correspondence; to-be-authenticated literals regenerated", "Lean crypto references for predicting verdicts"],
        "assumptions": ["value round trips of Key / Headers / recipients are tied by correspondence ops (map.unmarshal, msg.*), not by a general theorem"],
    },
    "C16": {
        "modules": ["Cose.Props.C16"], "families": ["impl:C16", "key", "sig", "ecdh", "api"], "spec_ops": ["impl.malformed"],
        "model_queries": [["iana.diff", "ok none"]],
        "n_quick": 1000, "n_thorough": 100000,
        "rule": "keys of the 8 families with key_ops subsets of 1..10 in the representations key.Ops / []int / []any of mixed integer kinds, set before construction and changed (same / deleted / new list / malformed) "
                "after construction; per case the implementation is constructed and each operation attempted (create+verify, encrypt+decrypt, sign, verify, derive); malformed key_ops via the spec op impl.malformed; the ten key-operation numbers of iana/ proved equal to RFC 9052 table 5 over the regenerated table, with the model query iana.diff naming a differing constant",
        "trusted_base": ["key layer model (Cose.Key.*) hand-written, tied by correspondence; family whitelists regenerated from the CheckKey skeletons"],
        "assumptions": ["known finding D9 (uninterpretable key_ops lift the restriction) is listed in known_findings.txt and proved as malformed_ops_unusable_cex"],
    },
    "C17": {
        "modules": ["Cose.Props.C17", "Cose.Go.ByteStr", "Cose.Props.KeySetRoundtrip", "Cose.Props.KeyTextForms"], "families": ["key", "impl", "sig", "ecdh", "dec", "map", "conv", "api"], "spec_ops": ["dec.keyjson", "conv.ed25519", "conv.ecdsa", "conv.ecdh", "conv.gen", "conv.keyset", "conv.bigkeyset"],
        "extras": [{"name": "nolink", "pkg": "./nolink", "args": [], "n_quick": 1, "n_thorough": 1}, {"name": "nolinksig", "pkg": "./nolinksig", "args": [], "n_quick": 1, "n_thorough": 1}],
        "n_quick": 1000, "n_thorough": 100000,
        "rule": "symmetric / Ed25519 / ECDSA keys with optional and broken members (kty, alg in every Go kind or absent or foreign, kid, key_ops, Base IV, extra labels, wrong sizes), nil key; "
                "key.info (kty/alg/ops/kid/baseIV), key.factory for the four kinds (registered / not registered / invalid), behaviour of the obtained implementation; round 12: conv.bigkeyset (key sets of 257..65537 keys survive CBOR); dec.keyset with keys under the text labels \"1\", \"3\", \"-1\", both 3 and \"3\", \"01\", \"+3\"; nolinksig (signature packages alone link what they need)",
        "trusted_base": ["key layer model hand-written, tied by correspondence; registry regenerated from register.go"],
        "assumptions": ["JSON / text round trips reduce to the CBOR round trip through ByteStr hex (same bytes); exercised by correspondence only through map.unmarshal"],
    },
    "C15": {
        "modules": ["Cose.Props.C15"], "families": ["sig", "ecdh", "conv"], "spec_ops": ["conv.ed25519", "conv.ecdsa", "conv.ecdh", "conv.gen"],
        "n_quick": 500, "n_thorough": 40000,
        "rule": "generated Ed25519 / P-256 / P-384 / P-521 / X25519 keys (one third with leading-zero coordinates or scalars) in the forms private, private+public, public padded / stripped / over-padded, compressed; "
                "ToPublicKey, ToCompressedKey, the key a verifier reports, mismatching embedded public keys, off-curve x; dumps compared byte for byte with the model; every derivation leaves the source key as it was (members, Go types, order of key_ops), private keys with key.Ops values at fixed slots",
        "trusted_base": ["Lean curve arithmetic (KATs + differential run); key layer model tied by correspondence"],
        "assumptions": ["group law / point derivation correctness of Go and of the Lean reference assumed, compared against each other"],
    },
    "C10": {
        "modules": ["Cose.Props.C10"], "families": ["sig", "conv", "api"], "spec_ops": ["sig.verify", "sig.decode", "sig.encode", "conv.ed25519", "conv.ecdsa", "conv.gen"],
        "extras": [{"name": "race", "pkg": "./race", "build_flags": ["-race"], "args": ["-seed", "{seed}", "-n", "{n}", "-only", "ecdsa,ed25519,Signer"],
                    "n_quick": 40, "n_thorough": 600, "timeout": 3000},
                   {"name": "nolinksig", "pkg": "./nolinksig", "args": [], "n_quick": 1, "n_thorough": 1}],
        "n_quick": 500, "n_thorough": 40000,
        "rule": "ES256/384/512 + EdDSA x keys incl. leading-zero scalars/coordinates x messages 0..70000 bytes; library-made signatures (and r at the codec boundary values 1, 2^k, n-1) verified by the Lean "
                "ECDSA / Ed25519 reference under public keys in derived / exported / compressed form; every signature then mutated (bit flip, truncation, extension, leading zero, random) and the verdicts compared; "
                "Ed25519 signatures byte-identical; the r||s codec alone (sig.decode / sig.encode: lengths around 2n, halves with leading zeros, integers at the size limit); a -race program with shared signers / verifiers; at fixed slots: messages of 4096..32768 octets, the nil message, the ASN.1 DER form of a valid (r, s), OKP keys with an ill-formed d; arguments sit in larger buffers whose tails are checked afterwards; messages that have the length of a digest (32 / 48 / 64 / 20 / 28), every algorithm in turn; round 12: nolinksig — a program importing only key/ecdsa and key/ed25519 signs and verifies with every registered signature algorithm",
        "trusted_base": ["Lean ECDSA / Ed25519 / SHA-2 reference (RFC 6979, RFC 8032 KATs + this run)"],
        "assumptions": ["signature correctness and unforgeability are not theorems"],
    },
    "C14": {
        "modules": ["Cose.Props.C14", "Cose.Props.PrimShapeEcdh"], "families": ["ecdh"], "spec_ops": ["ecdh.symmetric", "ecdh.derive"],
        "extras": [{"name": "race", "pkg": "./race", "build_flags": ["-race"], "args": ["-seed", "{seed}", "-n", "{n}", "-only", "ecdh"],
                    "n_quick": 40, "n_thorough": 600, "timeout": 3000}],
        "n_quick": 300, "n_thorough": 20000,
        "rule": "4 curves x generated key pairs (one third with leading-zero coordinates) x remote key encodings {uncompressed, stripped, compressed, compressed with stripped x} + invalid remotes "
                "(private, other curve, off-curve x, wrong lengths, all-zero, the seven low-order X25519 points); both directions on the library must agree with each other and with the Lean scalar multiplication / X25519 ladder; round 12: d / x / y members as key.ByteStr and another named byte-slice type at fixed slots per member",
        "trusted_base": ["Lean Weierstrass / X25519 reference (RFC 7748 KATs + this run)"],
        "assumptions": ["the group law behind symmetry is assumed, cross-checked"],
    },
    "C19": {
        "modules": ["Cose.Props.C19"], "families": [], "spec_ops": [],
        "n_quick": 0, "n_thorough": 0,
        "extras": [{"name": "race", "pkg": "./race", "build_flags": ["-race"], "args": ["-seed", "{seed}", "-n", "{n}"],
                    "n_quick": 60, "n_thorough": 1500, "timeout": 3000}],
        "rule": "-race build: 16 goroutines x n operations x 32 shared instances (24 algorithm implementations, an ECDHer per curve, the Key.MACer / Encryptor / Signer+Verifier factories on a shared key, "
                "one Validator); every result compared with the sequential one (deterministic operations byte-equal, ECDSA signatures verified); distinct = total operations / goroutines; first look-ups of alg-less keys from all goroutines at once (sequential reference computed afterwards); a caller rewriting its ValidatorOpts while others validate; the concurrent phase runs first on the instances as constructed, the sequential reference afterwards; look-ups in Verifiers / Signers / KeySet of 24 keys; round 12: race task Lookup/unregistered (failing key look-ups of all four kinds, each error held across another failing look-up)",
        "trusted_base": ["extractor footprint classifier (typed AST) and the allow-list of external callees in Props/C19.lean", "Go race detector (search support only)"],
        "assumptions": ["the Go memory model, the scheduler and the thread-safety of crypto/* objects held in fields (cipher.Block) are assumed, not modelled; a theorem cannot exhibit a race"],
    },
    "C07": {
        "modules": ["Cose.Props.C07"],
        "families": ["dec", "kdf", "claims", "msg:C02", "msg:C03", "msg:C04", "msg:C06", "map", "cbor", "key", "impl", "sig", "ecdh", "prim:mac", "prim:aead", "prim:kdf", "cwt"],
        "spec_ops": [],
        "n_quick": 250, "n_thorough": 30000,
        "extras": [{"name": "nolink", "pkg": "./nolink", "args": [], "n_quick": 1, "n_thorough": 1}, {"name": "nolinksig", "pkg": "./nolinksig", "args": [], "n_quick": 1, "n_thorough": 1}],
        "rule": "every op of every family runs under recover in the harness (a panic is an answer the model never gives): mutated messages of all 6 kinds (bit flips, truncation, splices, kind swaps), "
                "malformed CBOR into maps / keys / key sets / recipients / KDF contexts / claims (null and odd-typed members, wrong arity, huge lengths), key factories on arbitrary maps, "
                "compressed off-curve / short points, primitives with empty data, 65536-byte CCM plaintext, wrong-size nonces / tags / signatures, lengths to 70000; plus a program linking no hash package",
        "trusted_base": ["extractor panic-site classifier (typed AST) and its table of externals with panicking preconditions", "all models of the other properties"],
        "assumptions": ["fxamacker/cbor and Go crypto are assumed panic-free and resource-linear on their documented domains; time/memory proportionality is not expressed in the model (wall time of the run is recorded)"],
    },
}
