"""Texts of MANIFEST.json checks: (level text, level note, technique, DESIGN section)."""
T = "machine-checked proof (Lean 4) + regenerated facts + model/implementation correspondence"
TEXT = {
 "C07": ("Lean: the inventory of panic-capable sites regenerated from the source (slices, indexes, unchecked assertions, panic calls, pointer elements of decoded slices, externals with panicking preconditions) equals the accounted table; "
         "panics are explicit outcomes in the model and theorems show no modelled accessor, factory, MAC/AEAD/ECDH operation, nonce selection or verification reaches one for any input (decoders are total, without a panic outcome). "
         "The harness runs every op under recover over the malformed streams of all families; five panics found this way were repaired (D1, D3, D5, D6, D7, D15)",
         "partial: dependencies assumed panic-free; resource proportionality not modelled", T, "7.7"),
 "C19": ("Lean theorems: schedule independence (calls that never write shared state return in every interleaving of any number of goroutines what they return alone) and, as kernel-checked obligations on the footprints regenerated from the source, "
         "its premise for this code: every method of the 12 shared implementation types only reads receiver fields or passes them to allow-listed constructors / concurrency-safe calls, no field or package variable is assigned outside Register*, "
         "the struct field tables hold no cache or scratch state. A -race build exercising one shared instance of every implementation supports the search",
         "partial: Go memory model, scheduler and thread-safety of stored crypto objects assumed; the race run is search support, not proof", T, "7.19"),
 "C10": ("Lean theorems: the r||s codec is exact (decode(encode(r,s)) = (r,s) for all r,s below 256^n), has the registered lengths 64/96/132, refuses any other length and oversize values, and is injective (any changed bit changes (r,s)); "
         "curve and hash tables regenerated from the source = RFC 9053. Library signatures verified by the Lean ECDSA/Ed25519 reference (and vice versa for verdicts on every mutation), Ed25519 byte-identical, keys in derived/exported/compressed form",
         "signature correctness/unforgeability and the group law are not theorems", T, "7.10"),
 "C14": ("Lean theorems on the encoding logic: leading zero octets do not change a coordinate, compressed x handled at curve length, private remote refused, an X25519 remote is taken verbatim iff it has exactly 32 octets (else refused), an off-curve point or a point of another curve is refused, an uncompressed remote depends on its coordinates only as integers, ECDH never panics for any pair of keys; curve table regenerated. "
         "Both directions of the library agree with each other and with the Lean scalar multiplication / X25519 ladder on key pairs incl. leading-zero coordinates, four public-key encodings, and invalid remotes (off-curve, other curve, low order)",
         "group law (symmetry) assumed, cross-checked by the Lean curve arithmetic", T, "7.14"),
 "C15": ("Lean theorems: public keys derived from Ed25519/ECDSA private keys and the key any verifier reports contain no private parameter; embedded coordinates compared as integers (padded forms accepted), mismatch refused; "
         "emitted EC2 coordinates have the curve's byte length. Derivation / compression / verifier-key dumps compared byte for byte with the model over keys with leading-zero coordinates in all forms",
         "that the derived point is the right one is curve arithmetic: Lean reference vs Go, not a theorem", T, "7.15"),
 "C16": ("Lean theorems: per-call gate iff (list empty or contains the operation) for all lists and all seven operations, evaluated on the key_ops held at call time (narrowing takes effect); construction refuses any operation outside the family's whitelist "
         "(whitelists regenerated from the CheckKey skeletons); derived public keys carry only public-side operations; representations Ops/[]int/[]any agree. Malformed key_ops: counter-example proved, replayed, listed as known finding",
         "known finding D9 (uninterpretable key_ops lift the restriction)", T, "7.16"),
 "C17": ("Lean theorems: a key with distinct in-range labels and scalar / list members survives its CBOR form (decoding succeeds; same kty, alg, dispatch triple, registered implementation per kind, key_ops, and octets of every byte-string member); the registry regenerated from register.go is exactly the 28 registrations of 24 algorithms without duplicates; dispatch depends only on (kty, alg, crv); defaults when alg is absent; nil / unregistered fail; "
         "accessors are insensitive to the Go integer kinds and slice types a decoder produces; the implementation obtained has the tag / nonce sizes of the key's algorithm; key-id look-up is exact. Correspondence on key.info / key.factory / impl.* / sig.*",
         "JSON/text forms wrap the same CBOR bytes in hex (codec modelled in Go/ByteStr.lean with round-trip theorems and mirrored on malformed text); that keys use it is by correspondence", T, "7.17"),
 "C01": ("Lean theorems: for all six kinds MarshalCBOR's output is decoded back to the same wire array (tag/prefix stripping proved), and UnmarshalCBOR answers the same on the bare array, the tagged array and the CWT-tagged one for every well-formed wire array (C01Forms: unmarshal_form_independent), so each round trip below holds in all three forms; protected, payload/ciphertext and signature/tag come back byte for byte; "
         "a COSE_Sign1 / COSE_Mac0 produced with default headers verifies under any verifier correct for the signer and yields the original payload, for every payload, external data, key and every unprotected map "
         "with scalar / list values in whatever order Go presents its entries (the decoded unprotected map answers every look-up with the decoded form of the original value); "
         "the same with a caller-supplied protected map of distinct in-range labels and scalar / list values in any order that does not contradict the key (C01Prot: the protected bytes authenticated are the ones decoded, the decoded protected map answers every look-up like the original, the algorithm check sees the same algorithm; also for COSE_Encrypt0 with every nonce choice: enc0_roundtrip_prot), and with payloads of a named byte-slice type, nil included (auth4_roundtrip_named: CBOR byte string / null on the wire, the same octets back); "
         "typed payloads (claims maps, keys) come back answering every look-up as the original, and a CWT produced this way is validated exactly like the original claims for every validator configuration (CwtEndToEnd); "
         "a COSE_Encrypt0 produced with default protected header decrypts to the original payload for every payload, external data, unprotected map and nonce choice (caller IV, Partial IV + Base IV, library-drawn nonce), with no cryptographic hypothesis for the three AEAD models (C12 round-trip theorems); "
         "a COSE_Sign signed by any number of signers (default per-signature headers) decodes to one signature per signer and verifies under every verifier list in which each signer's kid finds a verifier of the same algorithm accepting what the signer signs - "
         "e.g. counterpart keys with pairwise different kids (C01Sign, induction over the signer list); a COSE_Mac carrying any number of three-member recipients passes the decoder's first-octet recipient dispatch, returns its recipients and verifies (C01Mac). "
         "The model is tied to the library by byte-exact produce + consume correspondence over 6 kinds x 24 algorithms x 3 tag forms",
         "signature correctness assumed (cross-checked by Lean ECDSA/Ed25519); caller-supplied protected maps, nested-map header values, nested recipients and COSE_Encrypt with recipients by correspondence only", T, "7.1"),
 "C02": ("Lean theorems: for all six kinds at once (Props/Authd: the bytes handed to the primitive are the encoding of the RFC structure, and equal bytes imply equal kind, body protected bytes, signer protected bytes (COSE_Sign), external data (absent = empty) and payload: tamper_is_forgery, kinds_separate, sign_signer_bucket_is_authenticated); verification soundness (success implies the primitive accepted exactly the RFC 9052 structure of the received protected/payload bytes and caller's external data), injectivity of the structure "
         "(tampering = forgery), kind change changes the bytes, zero signatures / unmatched kid / any failing signature reject, a null or non-array entry in the signatures list makes the message undecodable (one signature object per wire element), and conversely a genuine COSE_Sign of any number of signers verifies (C01Sign); history freedom over regenerated footprints (UnmarshalCBOR overwrites every field Verify reads, Verify recomputes the to-be-signed bytes and writes nothing else). Executable model with Lean primitives predicts the verdict of every mutated message in the run",
         "unforgeability of the primitives assumed", T, "7.2"),
 "C03": ("Lean theorems: for all six kinds at once (Props/Authd: the bytes handed to the primitive are the encoding of the RFC structure, and equal bytes imply equal kind, body protected bytes, signer protected bytes (COSE_Sign), external data (absent = empty) and payload: tamper_is_forgery, kinds_separate, sign_signer_bucket_is_authenticated); decrypt soundness (success implies the AEAD opened the received ciphertext under the nonce derived from the received headers with AAD = RFC 9052 Enc_structure), AAD injectivity, "
         "payload untouched on every failure; Decrypt recomputes the Enc_structure on every call (regenerated footprint); with C12's uniqueness an accepted change is a tag forgery. Mutation run with payload inspection after failed Decrypt, reuse of one message object / encryptor across two messages (msg.reuse), and the AEAD primitives themselves (prim:aead)",
         "AEAD security assumed", T, "7.3"),
 "C04": ("Lean theorems: for all six kinds at once (Props/Authd: the bytes handed to the primitive are the encoding of the RFC structure, and equal bytes imply equal kind, body protected bytes, signer protected bytes (COSE_Sign), external data (absent = empty) and payload: tamper_is_forgery, kinds_separate, sign_signer_bucket_is_authenticated); theorems over the toSign/toMac/toEnc literals extracted from the source on every run: each equals the RFC 9052 Sig_/MAC_/Enc_structure for all protected, payload and external values (nil/empty/any), contexts distinct, "
         "structure injective. Recording wrappers show the library hands exactly these bytes to the primitives on produce and verify, incl. non-canonical peer encodings of protected buckets (verbatim use)",
         "RFC 9052 reading trusted; extractor recogniser trusted", T, "7.4"),
 "C05": ("Lean theorems: a protected alg different from the key's is refused on every entry point whatever the primitive would answer (result independent of the primitive), for any Go integer kind; unreadable values count as 0 "
         "and no accepted key has algorithm 0; nil headers record key alg and kid. Correspondence over ordered algorithm pairs incl. pairs sharing key bytes",
         "message model tied by correspondence", T, "7.5"),
 "C06": ("Lean theorems on the nonce logic: caller IV verbatim; IV+Partial IV, Partial IV >= nonce size, missing Base IV refused; xor = RFC 9052 context IV xor left-padded Partial IV; derived nonce has the nonce length; "
         "never panics (the >= guard keeps the slice in range); random nonce is published in header 5; each encryption consumes its own block of the random stream; GetRandomBytes is make + crypto/rand.Read with no package state (regenerated). Recording Encryptor correspondence, sequences on one key object (seq) and histories of 10^4..10^6 library-chosen nonces per algorithm (msg.noncehistory)",
         "crypto/rand quality not a theorem", T, "7.6"),
 "C09": ("Lean theorems: re-encoding a decoded COSE_Sign1/COSE_Mac0 preserves protected, payload and signature/tag bytes, hence the verdict; COSE_Signature re-encodes its received bucket verbatim, and decode -> encode -> decode is the identity on a decoded COSE_Sign of any number of signatures (body protected bytes, payload, every signature object incl. non-canonical peer buckets), hence the same Verify verdict (C09Sign); the same fixed point for COSE_Encrypt0, COSE_Mac and COSE_Encrypt with any number of recipients (protected bytes as received, unprotected map, payload / ciphertext, tag, every recipient), hence the same Decrypt result (C09All); RemoveCBORTag removes only the tag; "
         "prefix bytes and tag numbers regenerated from the source; label maps (keys, header maps, claim maps with scalar / list values, any entry order) decode from their encoding with every typed accessor answering as before; "
         "a COSE_KDF_Context survives encode -> decode member by member, absent staying absent and present-but-empty staying present, through the decoder's first-octet dispatch (KdfRoundtrip, over the raw-item lemmas skipItem / rawArrayElems of Cbor/RawLemmas). "
         "Chains decode->encode->decode->verify on library-produced and foreign messages by correspondence",
         "value round trips of maps with nested maps, nested recipients, Claims structs by correspondence", T, "7.9"),
 "C08": ("Lean theorems about the CBOR model for values of any size and depth: decode(encode v ++ r) = (v, r) (hence injective, prefix-free, accepted back), "
         "encoding independent of map entry order and of Go integer kind, shortest heads, sorted keys; decoder rejects indefinite lengths, duplicate keys "
         "(by value) at any depth, trailing bytes, out-of-range / ill-typed labels. Encoder/decoder options regenerated from key/cbor.go. "
         "Library encoder = model encoder (spec op) and library decoder = model decoder (mirror) on structured + malformed streams",
         "fxamacker's accepted language is hand-modelled and tied by differential testing; floats/tags-in-any/bignums outside the model",
         T, "7.8"),
 "C11": ("Lean theorems: generated HMAC / AES-MAC tables = RFC 9053 tables 3-4; tag lengths; zero padding only when unaligned (never an extra block); "
         "64-bit tag is a prefix of the 128-bit tag; verification accepts exactly the created tag; empty AES-MAC input is an error. "
         "Library tags and verdicts = Lean HMAC-SHA-2 / AES-CBC-MAC reference on every residue class and every tag mutation (spec op)",
         "SHA-2/AES cores of the reference are validated by KATs and the differential run, not proved; unforgeability assumed",
         T, "7.11"),
 "C12": ("Lean theorems: generated AEAD parameter tables = RFC 9053; the CCM additional-data length prefix written by ccm.tag (constants regenerated) = RFC 3610 §2.2 for all lengths; "
         "round trip, ciphertext length, refusal-not-panic for CCM; round trip, length and uniqueness for the generic stream AEAD instantiated by GCM and ChaCha20/Poly1305. "
         "Library ciphertexts and decrypt verdicts = Lean references incl. AAD 65279..70000 and plaintext 65535/65536 (spec op)",
         "AES/GHASH/ChaCha/Poly1305 cores validated by KATs and the differential run; AEAD security assumed",
         T, "7.12"),
 "C13": ("Lean theorems for RFC 5869 over any PRF: shorter output is a prefix of longer output, 255-block limit, output length; instantiated for HKDF-SHA-256/512 and "
         "HKDF-AES (PRF = the C11 AES-CBC-MAC, padding only when unaligned); the Go reader (uint8 counter, leftover buffer) under every sequence of reads: succeeds iff the total is <= 255 blocks and "
         "hands out exactly the one-shot output (invariant proof). Library output (one-shot and chunkings that cross the limit) = Lean reference (spec op)",
         "SHA-2 / AES output lengths are hypotheses of the theorems; reader model tied to hkdf_aes.go by correspondence",
         T, "7.13"),
 "C18": ("Lean theorems: ValidateMap/Validate = RFC 8392 rule for all uint64 claims, flags, skews (model of Go time arithmetic incl. int64 wrap); toTime guard and skew cap read "
         "from the regenerated tables; struct and map paths agree; acceptance set is an interval; model tied to cwt/validator.go by a boundary-lattice correspondence with the rule as an independent oracle",
         "model of time.Time and of the validator control flow hand-written, tied by differential testing; RFC 8392 reading trusted; FixedNow must be set",
         T, "7.18"),
 "C20": ("Lean theorems by kernel evaluation over the whole regenerated constant table: every exported iana constant equals the registry snapshot value, values pairwise distinct per registry; a driver query names every constant that is wrong, unknown or duplicated when the obligation breaks",
         "registry snapshot transcribed by hand (trusted); extractor reads go/constant values",
         "machine-checked proof (Lean 4, decide over the regenerated finite table)", "7.20"),
}
NOT_APPLICABLE = {}
NOTES = ("D16 960e700 C02, D13 69a7581 C08, D15 69f9a82 C07; D7 13bd68c, D8 78a38ed, D6 0f6756f; " +"fix commits in /repo (see known_findings.txt): b32a1c8 C20, f9d61de C18, e2fa843 C07/C05/C16, bb7f051 C13, 1fd4391 C07/C11, 9daab84 C12, 2768256 C07/C12")
