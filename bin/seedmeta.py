#!/usr/bin/env python3
"""seedmeta.py: copy the confirmed seeded changes from /tmp/seed into /verif/seeded/<id>/ and write meta.json.
   Results of running the checks are read from the log of bin/seedtest runs given as argv[1]."""
import json, os, re, shutil, sys

SEEDS = {
 "C01-1": ("C01", "key/aesccm/ccm.go Open: length bound drops the tag allowance (MaxLength instead of MaxLength+Overhead)",
           "COSE_Encrypt0/Encrypt with AES-CCM-16-* and a payload of 65520..65535 (M=16) or 65528..65535 (M=8) bytes: produced but refused on decrypt"),
 "C01-2": ("C01", "key/cbor.go decOpts gains IntDec: IntDecConvertSigned",
           "a header value or untyped payload field holding an unsigned integer >= 2^63: encoded, then rejected by the library's own decoder"),
 "C02-1": ("C02", "cose/sign.go SignMessage.Verify matches signatures to verifiers through a map keyed by kid",
           "a COSE_Sign with two COSE_Signature entries under one kid: the earlier (forged, zero signature) entry is never checked"),
 "C02-2": ("C02", "key/hmac/hmac.go MACVerify compares expected[:len(mac)] with mac (no lower bound on the tag length)",
           "a Mac0/Mac message (or a direct MACVerify) whose tag is a proper prefix of the right tag, incl. the empty string"),
 "C03-1": ("C03", "cose/encrypt0.go Decrypt builds the Enc_structure only if m.toEnc == nil (cache)",
           "a second Decrypt on the same message object with other external data, or after UnmarshalCBOR of another message into it"),
 "C03-2": ("C03", "key/aesccm/ccm.go tag(): continues the CBC-MAC at adata[14:] also when the 6-octet length prefix applies",
           "AES-CCM with additional data >= 0xff00 octets (external data ~64 KiB): octets 10..13 of the AAD (the protected bucket) are not authenticated"),
 "C04-1": ("C04", "cose/sign1.go UnmarshalCBOR replaces the received protected bytes by h'' when the decoded map is empty",
           "a foreign COSE_Sign1 whose protected bucket is the explicit empty map h'a0'"),
 "C04-2": ("C04", "cose/kdf_context.go SuppPubInfo.MarshalCBOR drops `other` when len(Other)==0 (instead of Other==nil)",
           "a KDF context whose SuppPubInfo.other is present but empty"),
 "C05-1": ("C05", "cose/mac0.go Compute/Verify: `if alg,_ := GetInt(alg); alg != 0` replaces Has+GetInt",
           "a COSE_Mac0 whose protected alg is present but not an int32-range integer (null, text, bignum, float, 2^32+5): alg/key comparison skipped"),
 "C05-2": ("C05", "cose/sign1.go WithSign default header reads key parameter 3 directly instead of Key.Alg()",
           "an EC2/OKP signing key without the optional alg parameter and unset headers: the emitted COSE_Sign1 records no algorithm"),
 "C06-1": ("C06", "key/random.go GetRandomBytes reads from a shared bufio.Reader over crypto/rand with Read (not ReadFull)",
           "a history of >= ~600 library-chosen nonces under one key: every 586th 7-octet / 316th 13-octet nonce is one random byte plus zeros, nonces repeat"),
 "C06-2": ("C06", "cose/encrypt0.go xorIV aliases the key's Base IV when len(BaseIV) >= nonce size and XORs into it",
           "two Partial-IV operations on one key object whose Base IV has the full nonce length: the second nonce is BaseIV^PIV1^PIV2"),
 "C07-1": ("C07", "key/aesccm/aes_ccm.go Encrypt: size guard moved before NewCCM and calls maxlen(nonceSize, tag) (wrong argument)",
           "AES-CCM-16-* Encrypt of a plaintext >= 65536 octets: panic(\"ccm: plaintext too large\")"),
 "C07-2": ("C07", "key/ecdsa/ecdsa.go keyToPublic: nil check after elliptic.UnmarshalCompressed removed",
           "a compressed public EC2 key whose x is not an abscissa of the curve (or >= p): nil-pointer panic in NewVerifier / Key.Verifier"),
 "C08-1": ("C08", "key/cbor.go encoder Sort: SortBytewiseLexical -> SortCanonical (length-first, RFC 7049)",
           "any emitted map mixing labels of different encoded length where the shorter encoding has the larger first byte (-1 with 33, \"a\" with 256)"),
 "C08-2": ("C08", "key/cosemap.go checkKey: range check after int(v) conversion for all kinds",
           "a decoded map with an unsigned label in [2^64-2^31, 2^64-1]: accepted as a negative label, may collide with a genuine one"),
 "C09-1": ("C09", "cose/sign.go Signature.MarshalCBOR emits h'' whenever the decoded per-signer protected map is empty",
           "a foreign COSE_Sign whose per-signer protected bucket is h'a0': decode -> encode changes an authenticated byte string, second verify fails"),
 "C09-2": ("C09", "key/bytestr.go UnmarshalText/UnmarshalJSON decode in place into the destination's buffer without re-slicing",
           "text / JSON decode of a ByteStr into a destination that held a longer value or has spare capacity"),
 "C10-1": ("C10", "key/ecdsa/ecdsa.go DecodeSignature: len(sig)/2 != n, s = sig[n:2n]",
           "a valid ES256/384/512 signature followed by exactly one extra octet verifies"),
 "C10-2": ("C10", "key/ed25519/ed25519.go caches expanded private keys in a sync.Map keyed by kid",
           "two different Ed25519 private keys (without x) under the same custom kid used one after the other in one process"),
 "C11-1": ("C11", "key/aesmac/aes_mac.go create() chains through a 4096-byte scratch buffer whose pad bytes are not cleared",
           "AES-CBC-MAC over a message longer than 4096 octets whose length is not a multiple of 16"),
 "C11-2": ("C11", "key/hmac/hmac.go MACVerify compares mac with sum[:len(mac)] for tagSize <= len(mac) <= len(sum)",
           "HMAC 256/64: the tag extended by the true continuation of the untruncated HMAC-SHA-256 is accepted"),
 "C12-1": ("C12", "key/aesccm/ccm.go tag(): AAD length encoding switches at 0xff00 inclusive instead of 0xfeff",
           "AES-CCM with additional data of exactly 65280 octets: tag differs from RFC 3610"),
 "C12-2": ("C12", "key/aesgcm/aes_gcm.go CheckKey accepts any key aes.NewCipher accepts",
           "an A128GCM / A192GCM / A256GCM key map whose k has another AES size (16/24/32) is accepted and used"),
 "C13-1": ("C13", "key/hkdf/hkdf.go early length checks; HKDF512's copy uses 255*sha256.Size",
           "HKDF512 with a length in 8161..16320"),
 "C13-2": ("C13", "key/hkdf/hkdf_aes.go Read: int(255-f.counter)+1 instead of int(255-f.counter+1)",
           "chunked reads of the NewAES reader: a Read that starts after exactly 255 blocks (4065..4080 octets consumed) succeeds"),
 "C14-1": ("C14", "key/ecdh/ecdh.go keyToPublic builds 0x04||X||Y from bytes; y offset computed with len(x)",
           "an uncompressed remote EC2 key with minimal-length coordinates where exactly one of x, y has a leading zero octet"),
 "C14-2": ("C14", "key/ecdh/ecdh.go ECDHer caches decoded remote public keys by kid",
           "one ECDHer, a successful ECDH(remote1), then ECDH(remote2) with the same / no kid: remote1's secret is returned, bad remote2 not rejected"),
 "C15-1": ("C15", "key/ecdh/ecdh.go keyToPublic (compressed branch) left-aligns a short x",
           "a compressed ECDH public key whose x has a leading zero octet"),
 "C15-2": ("C15", "key/ecdsa/ecdsa.go embedded-coordinate check becomes a suffix comparison",
           "a private ECDSA key whose embedded x or y is a proper tail of the true coordinate, or h'00'"),
 "C16-1": ("C16", "key/hmac/hmac.go MACVerify obtains the expected tag through h.MACCreate",
           "an HMAC key whose key_ops is exactly [10] (verify only): every MACVerify fails on the create gate"),
 "C16-2": ("C16", "key/key.go Ops() loses its `case []int` branch",
           "a key whose key_ops was assigned as a plain Go []int: Ops() is nil, the key is unrestricted"),
 "C17-1": ("C17", "key/cosemap.go CoseMap.UnmarshalCBOR reuses the caller's map when it is non-nil",
           "decoding (CBOR, JSON or text) into a variable that already holds a key: the result is the union of both"),
 "C17-2": ("C17", "key/ecdh/ecdh.go ECDH compares remote and local crv as raw interface values",
           "a Go-constructed key (crv int) against a decoded key (crv uint64) of the same curve: refused"),
 "C18-1": ("C18", "cwt/validator.go NewValidator caps the skew with ClockSkew/time.Minute > 10 (integer minutes)",
           "a ClockSkew strictly between 10 and 11 minutes is accepted"),
 "C18-2": ("C18", "key/cosemap.go CoseMap.Has becomes m[k] != nil",
           "a claims map whose time claim is present with a null value: treated as absent"),
 "C19-1": ("C19", "key/key.go Key.Ops() writes the converted list back into the key map",
           "factories / operations on a shared key decoded from CBOR (key_ops is []any), first uses concurrent"),
 "C19-2": ("C19", "key/aesmac/aes_mac.go pads the last partial block in a buffer held on the MACer",
           "a shared AES-MAC MACer used concurrently on messages whose length is not a multiple of 16"),
 "C20-1": ("C20", "iana/claim.go EAT claims rewritten with iota across the unassigned 261",
           "CWTClaimSecureBoot..Submodules are one less than assigned (values stay pairwise distinct)"),
 "C20-2": ("C20", "iana/tag.go CBORTagCWT = 0x61 (97) instead of 61",
           "CBORTagCWT is wrong and collides with CBORTagCOSEMac"),
}

# round 2 (ids Cxx-3 = /tmp/seed2/Cxx/1, Cxx-4 = /tmp/seed2/Cxx/2): agents were told the obvious one-line slips at the main
# mechanism had been tried and to look at helpers, rarely taken branches, call sequences, unusual representations
SEEDS2 = {
 "C01-3": ("C01", "key/aesccm/aes_ccm.go Decrypt: plaintext bound applied to the ciphertext (same effect as C01-1, other site)",
           "AES-CCM-16-* payloads of 65520..65535 / 65528..65535 octets"),
 "C01-4": ("C01", "key/interface_signing.go Signers/Verifiers.Lookup: an empty kid matches nothing",
           "COSE_Sign with a signer key that has no kid: the produced message has no verifier"),
 "C02-3": ("C02", "key/aesmac/aes_mac.go create(): 512-byte chunks, NewCBCEncrypter re-created inside the loop (chain restarts)",
           "AES-CBC-MAC over more than 512 octets: only the last chunk is authenticated"),
 "C02-4": ("C02", "cose/sign1.go, mac0.go, mac.go: Verify reuses the stored to-be-signed bytes unless nil or other external data",
           "decode + verify message 1, decode message 2 (same signature, other payload) into the same object, verify"),
 "C03-3": ("C03", "key/aesccm/ccm.go tag(): fixed AAD offset 14 (same as C03-2)", "AES-CCM, external data >= ~64 KiB, change confined to the protected bytes"),
 "C03-4": ("C03", "cose/encrypt0.go, encrypt.go UnmarshalCBOR: an empty protected bucket is rewritten to h''",
           "a message encrypted with protected h'' whose bucket is replaced by h'a0' / h'b800' / null still decrypts"),
 "C04-3": ("C04", "hand-written structure encoder; 2-byte length head for n < 0xffff instead of <= 0xffff",
           "a payload / external data / protected bucket of exactly 65535 octets"),
 "C04-4": ("C04", "cose/sign1.go Verify rebuilds the Sig_structure only when nil or external data differs",
           "decode A, Verify, decode B into the same object, Verify with equal external data"),
 "C05-3": ("C05", "key/cosemap.go toInt: unsigned values converted to int64 before the range check",
           "a protected alg of 2^64-7 (uint64) with an ES256 key, 2^64-8 with EdDSA"),
 "C05-4": ("C05", "cose/header.go Headers.Has becomes Get(p) != nil",
           "protected {1: null}: the alg / key comparison is skipped in all six kinds"),
 "C06-3": ("C06", "key/random.go buffered reader with short reads (same as C06-1)", "long histories of library-chosen nonces"),
 "C06-4": ("C06", "cose/encrypt0.go xorIV aliases a full-length Base IV (same as C06-2)", "two Partial-IV operations on one key object"),
 "C07-3": ("C07", "cose/encrypt0.go xorIV loops over the Base IV instead of the nonce",
           "a key whose Base IV is longer than the nonce plus a message with a Partial IV: index out of range"),
 "C07-4": ("C07", "key/ecdsa/ecdsa.go ToCompressedKey uses elliptic.MarshalCompressed on unchecked coordinates",
           "a public EC2 key with off-curve (x, y) byte strings: panic in the conversion"),
 "C08-3": ("C08", "cose/header.go HeadersFromBytes fast path: first byte 0xa0 returns an empty map without decoding",
           "a protected bucket of >= 2 octets starting with a0 (a000, a0a10126, a0ff …) is accepted"),
 "C08-4": ("C08", "cose/mac.go MacMessage.Compute encodes the typed payload with cbor.Marshal (default options)",
           "COSE_Mac with a payload that is a plain Go map of >= 2 entries: unsorted, non-deterministic encoding"),
 "C09-3": ("C09", "key/cosemap.go MarshalCBOR duplicate guard keyed by fmt.Sprint(label)",
           "a map holding an integer label and the text label that prints like it (4 and \"4\"): cannot be (re-)encoded"),
 "C09-4": ("C09", "cose/recipient.go MarshalCBOR: nil Unprotected defaulted only on the flat path",
           "a recipient with a nested recipient and nil Unprotected: encodes null, re-encodes a0"),
 "C10-3": ("C10", "key/ecdsa/ecdsa.go caches d*G in a package map keyed by the scalar octets only",
           "the same scalar octets used as d on two curves in one process"),
 "C10-4": ("C10", "key/ecdsa/ecdsa.go compressed x bound compared in bits (len(x)*8 > bits)",
           "P-521 compressed public keys whose x needs all 521 bits are refused"),
 "C11-3": ("C11", "key/aesmac/aes_mac.go create(): 1024-byte buffer, pad bytes not cleared (as C11-1, other size)",
           "messages longer than 1024 octets, not a multiple of 16"),
 "C11-4": ("C11", "key/hmac/hmac.go caches the keyed hash; freshness test compares the key slice with itself",
           "one MACer, the key octets overwritten in place between two calls: the old key stays in use"),
 "C12-3": ("C12", "aesccm: CCM built once per Encryptor + a sticky flags field set when AAD is present",
           "one Encryptor: a call with additional data, then a call without"),
 "C12-4": ("C12", "key/aesccm/ccm.go cbcData bulk path: guard >= 1024, loop > 1024",
           "a plaintext of exactly 1024 octets or additional data of exactly 1038 octets"),
 "C13-3": ("C13", "key/hkdf/hkdf_aes.go keeps the block counter in append(info, 1) (the caller's backing array)",
           "an info slice with spare capacity shared by two readers, or written behind its end between reads"),
 "C13-4": ("C13", "HKDF512 early limit with sha256.Size (same as C13-1)", "HKDF512 lengths 8161..16320"),
 "C14-3": ("C14", "ECDHer caches remote keys by kid (same as C14-2)", "two agreements on one ECDHer under one kid"),
 "C14-4": ("C14", "key/ecdh/ecdh.go ToPublicKey left-pads public coordinates to the curve size",
           "an X25519 remote key with a 1..31-octet x is padded and accepted instead of refused"),
 "C15-3": ("C15", "key/ecdsa/ecdsa.go KeyToPrivate checks embedded coordinates only when both are byte strings",
           "a private key {d, x: foreign, y: bool}: accepted by NewSigner"),
 "C15-4": ("C15", "key/ecdh/ecdh.go ToCompressedKey reads the sign bit from the y octets only",
           "re-compressing an already compressed key with odd y yields the sign bit false (the point -P)"),
 "C16-3": ("C16", "key/key.go Ops(): type switch on int / uint64 members instead of ToInt",
           "key_ops given as []any of int64: Ops() is nil, key unrestricted"),
 "C16-4": ("C16", "HMAC MACVerify through the gated MACCreate (same as C16-1)", "HMAC key with key_ops [10]"),
 "C17-3": ("C17", "CoseMap.UnmarshalCBOR reuses a non-nil destination (same as C17-1)", "decode into a used variable / KeySet"),
 "C17-4": ("C17", "key/key.go Key.Alg() ignores the GetInt error: unreadable alg treated as absent",
           "an EC2 / OKP key whose alg is out of int32 range or text: inferred from the curve, Signer() succeeds"),
 "C18-3": ("C18", "cwt/validator.go keeps the caller's *ValidatorOpts instead of a copy",
           "the options object changed after NewValidator (skew beyond the cap, other expectations)"),
 "C18-4": ("C18", "CoseMap.Has becomes Get(k) != nil (same as C18-2)", "a time claim present with a null value"),
 "C19-3": ("C19", "Key.Ops() writes back (same as C19-1)", "concurrent first uses of a decoded key"),
 "C19-4": ("C19", "aesccm: CCM built once per Encryptor, MAC accumulator moved into the ccm struct",
           "a shared AES-CCM Encryptor used concurrently"),
 "C20-3": ("C20", "EAT claims as base + iota across the hole at 261 (same as C20-1)", "five EAT claim constants"),
 "C20-4": ("C20", "CBORTagCWT = 0x61 (same as C20-2)", "CBORTagCWT"),
}

# round 3 (ids Cxx-5 = /tmp/seed3/Cxx/1, Cxx-6 = /tmp/seed3/Cxx/2): agents were told to aim at an easily forgotten dimension of
# the property's quantifier (a rare kind / algorithm / representation / flag combination / second list element / error path)
SEEDS3 = {
 "C01-5": ("C01", "all six UnmarshalCBOR / Decrypt: the `case cbor.RawMessage` branch removed, RawMessage payloads go through the strict decoder",
           "a pre-encoded (cbor.RawMessage) payload containing an indefinite-length item"),
 "C01-6": ("C01", "Signers / Verifiers / KeySet.Lookup: empty kid matches nothing (= C01-4)", "COSE_Sign with a signer key that has no kid"),
 "C02-5": ("C02", "cose/sign.go + sign1.go share one sigStructure helper that picks the 4-element \"Signature1\" form when sign_protected is empty",
           "a COSE_Sign1 signature re-framed as COSE_Sign under a signer entry with protected h'' verifies"),
 "C02-6": ("C02", "key/ecdsa/ecdsa.go Verify: `if r, s, err := DecodeSignature(...)` shadows the named result; wrong-length signatures return nil",
           "any ES256/384/512 message with a truncated signature verifies, whatever the payload"),
 "C03-5": ("C03", "empty protected bucket rewritten to h'' on decode (= C03-4)", "bucket h'' replaced by h'a0'"),
 "C03-6": ("C03", "CCM tag(): first AAD block via a switch, continues at adata[14:] (= C03-2)", "AES-CCM, external data >= ~64 KiB"),
 "C04-5": ("C04", "shared sigStructure helper drops sign_protected when it is empty",
           "a COSE_Sign signer whose protected bucket is h'': signed / verified over a 4-element array"),
 "C04-6": ("C04", "cose/kdf_context.go: SuppPrivInfo == nil and Other == nil become len(...) == 0",
           "a present-but-empty SuppPubInfo.other or SuppPrivInfo is dropped from the KDF context"),
 "C05-5": ("C05", "cose/mac.go MacMessage.Verify checks the protected alg only after MACVerify failed",
           "a COSE_Mac whose header names HMAC 256/256 but whose 8-byte tag was made with the 256/64 key over the same octets"),
 "C05-6": ("C05", "cose/encrypt.go Encrypt: protected alg read with a type assertion to int",
           "COSE_Encrypt with the alg header held as int64 / uint64 / key.Alg and a key of another algorithm"),
 "C06-5": ("C06", "buffered random source with short reads (= C06-1)", "long nonce histories"),
 "C06-6": ("C06", "\"base iv is missing\" decided by Key.Has(5) before GetBytes",
           "a Partial IV with a key whose Base IV is present but empty / nil: nonce derived from no Base IV"),
 "C07-5": ("C07", "xorIV loops over the Base IV (= C07-3)", "Base IV longer than the nonce + Partial IV"),
 "C07-6": ("C07", "key/cbor.go decOpts gains MaxNestedLevels: 65535",
           "a COSE_recipient nested thousands of levels deep: Recipient.UnmarshalCBOR re-decodes every level (quadratic time)"),
 "C08-5": ("C08", "cose/mac.go MacMessage.UnmarshalCBOR decodes a typed payload with cbor.Unmarshal (defaults)",
           "COSE_Mac with a struct / plain-map payload type and a payload with duplicate keys or indefinite lengths"),
 "C08-6": ("C08", "CoseMap.MarshalCBOR duplicate guard skips int / string labels and looks the others up in the map itself",
           "one label under two non-int Go integer kinds (int64(4) + uint64(4)), or beyond 32 bits: emitted twice"),
 "C09-5": ("C09", "nested recipient with nil Unprotected encodes null (= C09-4)", "two-layer recipient, parent Unprotected nil"),
 "C09-6": ("C09", "duplicate guard keyed by fmt.Sprint (= C09-3)", "labels 4 and \"4\" in one map"),
 "C10-5": ("C10", "key/ecdsa ToCompressedKey derives the sign bit with a type switch on bool / []byte",
           "a public key whose y is held as key.ByteStr and is odd: the compressed key denotes -Q"),
 "C10-6": ("C10", "compressed-point buffer of 1 + BitSize/8 octets (P-521: 65 instead of 66)", "every compressed ES512 key is refused"),
 "C11-5": ("C11", "AES-CBC-MAC through a 512-byte stack array whose padding is stale (as C11-1)", "messages > 512 octets, not a multiple of 16"),
 "C11-6": ("C11", "key/hmac New: truncation to 8 octets only if k.Get(alg) == AlgorithmHMAC_256_64 (an int comparison)",
           "an HMAC 256/64 key whose alg member is uint64 / int64 / key.Alg: 32-byte tags"),
 "C12-5": ("C12", "CCM B_0 Adata flag set when adata != nil (instead of len > 0)", "an empty but non-nil additional data slice"),
 "C12-6": ("C12", "CCM Decrypt applies the plaintext limit to the ciphertext (= C01-1)", "CCM-16 plaintexts within a tag length of 65535"),
 "C13-5": ("C13", "HKDF512 limit with sha256.Size (= C13-1)", "HKDF512 lengths 8161..16320"),
 "C13-6": ("C13", "AES-HKDF reader keeps an integer offset into the last block; the leftover path assigns it instead of advancing",
           "three or more reads where a later read is served entirely from the buffered block (20,4,40 / 8,0,56 / byte-wise)"),
 "C14-5": ("C14", "keyToPublic left-pads x before the OKP / EC2 split (as C14-4)", "an X25519 remote key with a 1..31-octet x"),
 "C14-6": ("C14", "ECDH decodes the remote point on the local key's curve; the remote crv is never compared",
           "X25519 local with a P-256 remote (32-octet x), NIST local with an X25519 or smaller-curve compressed remote"),
 "C15-5": ("C15", "KeyToPrivate: y check `err != nil || cmp != 0` — a boolean y makes GetBytes fail",
           "a private EC2 key {d, x, y: sign bit}: refused although conformant"),
 "C15-6": ("C15", "key/ecdh ToPublicKey returns the key as is when it has x (instead of when it has no d)",
           "an ECDH private key that also carries x (and y): the \"public\" key still holds d"),
 "C16-5": ("C16", "ECDHer.ECDH gate: && between the two negated tests became ||",
           "an ECDH key whose key_ops is exactly [derive key] or [derive bits]: every agreement refused"),
 "C16-6": ("C16", "Ops.Has binary-searches; Key.Ops() sorts copies but hands a stored key.Ops out as is",
           "k[key_ops] = key.Ops{10, 9} (descending): listed operations refused"),
 "C17-5": ("C17", "key/aesccm/register.go registrations as a slice + loop, alg 33 dropped",
           "Key.Encryptor() for an AES-CCM-64-128-256 key: not registered"),
 "C17-6": ("C17", "key/hmac drops the blank import of crypto/sha512",
           "HMAC 384/384 and 512/512 in a program that links no SHA-512 otherwise: panic at MACCreate"),
 "C18-5": ("C18", "CoseMap.GetInt64 / GetUint64: `v := m.Get(k); if v == nil { return 0, nil }`",
           "a claims map whose nbf / iat is present with a null value: read as 1970 and accepted"),
 "C18-6": ("C18", "skew cap on int(ClockSkew.Minutes()) (= C18-1)", "skew strictly between 10 and 11 minutes"),
 "C19-5": ("C19", "Key.Ops() writes back (= C19-1)", "concurrent first uses of a decoded key"),
 "C19-6": ("C19", "cwt.Validator gets earliest / latest fields written by every Validate when FixedNow is unset",
           "one Validator without FixedNow (the production configuration) shared by goroutines"),
 "C20-5": ("C20", "EAT claims as base + iota across the hole at 261 (= C20-1)", "five EAT claim constants"),
 "C20-6": ("C20", "iana/header.go: HeaderAlgorithmParameterPartyVOther = -23 (assigned -26, duplicate of PartyUOther)", "that constant"),
}

SEEDS4 = {
 "C01-7": ("C01", "key/keyset.go KeySet.Signers / Verifiers skip keys whose own key_ops lack sign / verify",
           "a key set holding a private signing key with key_ops [sign] only: COSE_Sign made with ks.Signers() finds no verifier in ks.Verifiers()"),
 "C01-8": ("C01", "cose/encrypt0.go xorIV builds the nonce inside the key's Base IV when it has the full nonce length",
           "two Partial-IV encryptions / an encryption then a decryption on one key object whose Base IV is nonce-sized"),
 "C02-7": ("C02", "Signers / Verifiers / KeySet.Lookup compare kids with bytes.EqualFold",
           "two keys whose kids differ only in letter case or in bytes that are not UTF-8; a signature is checked against the other key"),
 "C02-8": ("C02", "key/ed25519 KeyFromPrivate keeps the caller's private-key buffer as d (pk[:32] instead of pk.Seed())",
           "the Go private key is overwritten or wiped after the import and before the COSE key is used"),
 "C03-7": ("C03", "cose/encrypt0.go xorIV XORs the Partial IV into the key's own Base IV (= C01-8)",
           "a second Partial-IV operation on the same key object with a nonce-sized Base IV"),
 "C03-8": ("C03", "Encrypt0/Encrypt UnmarshalCBOR rewrite an empty protected bucket to the zero-length string",
           "a foreign COSE_Encrypt0 / COSE_Encrypt whose protected bucket is h'a0': the AAD differs from what the sender authenticated"),
 "C04-7": ("C04", "cose/kdf_context.go PartyInfo.MarshalCBOR shortcut tests len(x)==0 instead of x==nil",
           "a KDF context whose PartyInfo has present-but-empty identity / nonce / other"),
 "C04-8": ("C04", "cose/sign.go Sig_structure cached per algorithm across the signatures of one COSE_Sign",
           "a foreign COSE_Sign with two signatures of one algorithm whose protected buckets differ (other encoding / other members)"),
 "C05-7": ("C05", "key/cosemap.go CoseMap.Set validates the label but stores it un-normalised",
           "Headers.Set / Key.Set with a label of another Go integer kind (int64(1)): the default-header logic does not see it"),
 "C05-8": ("C05", "key/key.go Key.Kid() recognises only ByteStr and []byte",
           "a key whose kid is held in another named byte-slice type: the default kid header is missing"),
 "C06-7": ("C06", "key/aesccm Encrypt / Decrypt use the tag and nonce size captured at construction",
           "the key's alg moved between the CCM-16 and CCM-64 families after the Encryptor was made: nonce length != advertised algorithm's"),
 "C06-8": ("C06", "cose/header.go Headers.MarshalCBOR encodes map[any]any(h) directly (bypasses the label-collision guard)",
           "a caller's IV under uint64(5) / int64(5): the bucket is emitted with label 5 twice"),
 "C07-7": ("C07", "cose/encrypt0.go xorIV loop ranges over the Base IV instead of the nonce",
           "a key whose Base IV is longer than the nonce together with a Partial IV: index out of range"),
 "C07-8": ("C07", "key/ecdh ToPublicKey chooses the point encoding by kty instead of by curve",
           "a private key whose kty and crv disagree (EC2 with X25519, OKP with P-256): slice bounds panic / wrong members"),
 "C08-7": ("C08", "cose/header.go HeadersFromBytes short-circuits on data[0]==0xa0",
           "a protected bucket h'a0' followed by further octets is accepted"),
 "C08-8": ("C08", "cose/mac.go MacMessage.Compute encodes a typed payload with cbor.Marshal (stock options)",
           "a COSE_Mac whose typed payload is a Go map with >= 2 entries: not deterministically encoded"),
 "C09-7": ("C09", "key/cosemap.go duplicate-label guard keyed on fmt.Sprint(label)",
           "a map holding int 1 and text \"1\": refused although both round-trip"),
 "C09-8": ("C09", "key/cbor.go decOpts gains MaxNestedLevels: 6",
           "a header value nested three or more levels inside a recipient: encoded by the library, refused by its decoder"),
 "C10-7": ("C10", "Lookup functions return nil for an empty kid",
           "a COSE_Sign whose signature carries no kid, verified with a kid-less verifier"),
 "C10-8": ("C10", "key/ecdsa keyToPublic checks the compressed x length before trimming leading zeros",
           "a compressed EC2 key whose x carries extra leading zero octets"),
 "C11-7": ("C11", "key/aesmac KeyFrom copies into a key-sized buffer and tests the copy count",
           "aesmac.KeyFrom with an over-long key: silently truncated instead of refused"),
 "C11-8": ("C11", "key/hmac CheckKey returns from inside the parameter loop when it meets key_ops",
           "an HMAC key with key_ops and a wrong-size k / redundant member, depending on map iteration order"),
 "C12-7": ("C12", "key/aesgcm KeyFrom truncates over-long keys", "aesgcm.KeyFrom with a key longer than the algorithm's size"),
 "C12-8": ("C12", "key/key.go Key.Ops() appends to a pre-sized slice in the []any branch (zeros in front)",
           "an AEAD key whose key_ops is a []any (any decoded key): CheckKey refuses operation 0"),
 "C13-7": ("C13", "key/hkdf/hkdf_aes.go Read: remaining capacity computed as (256-int(counter))*16",
           "a Read on a fresh reader asking for more than 255 blocks"),
 "C13-8": ("C13", "CBC-MAC shared as aesmac.Sum through a 128-byte buffer whose tail is not cleared",
           "HKDF-AES / AES-MAC input longer than 128 octets and not a multiple of 16"),
 "C14-7": ("C14", "key/ecdh ToCompressedKey left-aligns a short x in a fixed-length buffer",
           "a public EC2 key with a stripped x (leading zero removed)"),
 "C14-8": ("C14", "key/ecdh CheckKey requires derive-key in a private key's key_ops",
           "a private ECDH key with key_ops [derive bits] only"),
 "C15-7": ("C15", "key/ecdh ToPublicKey reuses the coordinates embedded in the private key",
           "a private EC2 key carrying full-length x / y that do not belong to d"),
 "C15-8": ("C15", "key/ecdsa KeyToPrivate compares an embedded sign-bit y as a coordinate",
           "a private EC2 key carrying x and a boolean y"),
 "C16-7": ("C16", "key/ecdh ECDHer.ECDH converts the remote key with the unchecked keyToPublic",
           "a remote public key with foreign key_ops / invalid members is used"),
 "C16-8": ("C16", "key/ed25519 ToPublicKey copies every member but d when the private key carries x",
           "a private Ed25519 key with x and key_ops [sign]: the derived public key keeps [sign]"),
 "C17-7": ("C17", "key/interface_signing.go Verifiers.Lookup compares with bytes.EqualFold",
           "verifier kids differing in letter case or in non-UTF-8 bytes, or a probe kid of that kind"),
 "C17-8": ("C17", "key/ecdh ToCompressedKey compares and copies the raw kty map value",
           "an OKP key whose kty is held as int64 / uint64 (any decoded key)"),
 "C18-7": ("C18", "cwt/claims_map.go ClaimsMap.Has is Get(...) != nil",
           "a claim present with a null value"),
 "C18-8": ("C18", "key/cbor.go decOpts loses DupMapKeyEnforcedAPF",
           "a claim set carrying exp / nbf twice: struct and map destinations keep different copies"),
 "C19-7": ("C19", "key/key.go Key.Ops() stores the converted key_ops back into the key",
           "a decoded key (key_ops as []any) shared by goroutines: concurrent map write"),
 "C19-8": ("C19", "key/random.go short reads served from a package-level bufio.Reader",
           "concurrent encryptions with library-chosen nonces (7, 12, 13 octets)"),
 "C20-7": ("C20", "iana/claim.go EAT claims as 256 + iota across the registry gap at 261", "EAT claim constants after the gap"),
 "C20-8": ("C20", "iana/algorithm.go SHA-384 / SHA-512 identifiers transposed", "AlgorithmSHA_384 / AlgorithmSHA_512"),
}


def parse(path):
    log = open(path).read() if path else ""
    results = {}
    cur = None
    for line in log.split("\n"):
        m = re.match(r"=== (C\d\d)/(\d) ::", line)
        if m:
            cur = f"{m.group(1)}-{int(m.group(2)) + {'1': 0, '2': 2, '3': 4, '4': 6}[os.environ.get('SEED_ROUND', '1')]}"
            results.setdefault(cur, {})
            continue
        m = re.match(r"(C\d\d) exit=(\d+) (.*)", line)
        if m and cur:
            verdict = "caught" if m.group(2) != "0" and ("VIOLATION" in line or "KNOWN" in line) else "missed"
            results[cur][m.group(1)] = {"exit": int(m.group(2)), "verdict": verdict, "line": m.group(3)[:200]}
    return results


def main():
    # argv[1]: log of the first run of the checks against the changes; argv[2] (optional): log of the run after the
    # checks were strengthened (entries there replace the first ones in "checks_run"; the first verdict is kept apart)
    first = parse(sys.argv[1]) if len(sys.argv) > 1 else {}
    later = parse(sys.argv[2]) if len(sys.argv) > 2 else {}
    results = {k: dict(v) for k, v in first.items()}
    for k, v in later.items():
        results.setdefault(k, {}).update(v)
    root = "/verif/seeded"
    rnd = os.environ.get("SEED_ROUND", "1")
    table, base, wt, off = {"1": (SEEDS, "/tmp/seed", "/tmp/wt", 0), "2": (SEEDS2, "/tmp/seed2", "/tmp/wt2", 2),
                            "3": (SEEDS3, "/tmp/seed3", "/tmp/wt3", 4),
                            "4": (SEEDS4, "/tmp/seed4", "/tmp/wt4", 6)}[rnd]
    for sid, (prop, what, needs) in sorted(table.items()):
        c, i = sid.split("-")
        i = str(int(i) - off)
        src = f"{base}/{c}/{i}"
        if not os.path.exists(os.path.join(src, "patch.diff")):
            continue
        dst = os.path.join(root, sid)
        if os.path.exists(src):
            shutil.rmtree(dst, ignore_errors=True)
            os.makedirs(dst)
            for name in os.listdir(src):
                if name.endswith(".log") or name.startswith("out_"):
                    continue
                p = os.path.join(src, name)
                if os.path.isdir(p):
                    shutil.copytree(p, os.path.join(dst, name))
                else:
                    shutil.copy(p, dst)
        # the demo modules point at the scratch worktree; make that explicit
        meta = {
            "id": sid, "property": prop, "change": what, "needs_to_manifest": needs,
            "confirmed": {
                "how": f"bin/seedverify {c} {i}: patch applied in the scratch worktree {wt}/{c} (git worktree of /repo), "
                       "`go build ./... && go test -vet=off -count=1 ./...` (existing suite), then the demonstration "
                       "(`go test` / `go run .` in the demo module, which `replace`s the library by that worktree); patch reverted, demonstration again",
                "suite_with_patch": "ok", "demo_with_patch": "fail", "demo_without_patch": "pass",
            },
            "checks_run": results.get(sid, {}),
            "checks_first_run": first.get(sid, {}),
            "apply": "git -C /repo apply <this dir>/patch.diff  (undo: git -C /repo checkout -- .)  or bin/seedtest <this dir>/patch.diff <Cxx>…",
            "note": "the demonstration's go.mod replaces github.com/ldclabs/cose by " + wt + "/" + c + "; point it at any checkout of /repo to re-run it",
        }
        json.dump(meta, open(os.path.join(dst, "meta.json"), "w"), indent=1)
    print("seeded:", len(os.listdir(root)))


if __name__ == "__main__":
    main()
