namespace Cose

/-- Byte strings are plain lists of octets. -/
abbrev Bytes := List UInt8

end Cose
