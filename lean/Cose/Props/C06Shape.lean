import Cose.Gen.Tables
/-!
# C06 — regenerated tie: the nonce selection of the four encryption entry points in the current source

Of the condition lists extracted from `/repo` (`Gen.Tables.conds`) only the conditions that speak about the IV, the
Partial IV or the Base IV are pinned, in their order — the rest of these functions (algorithm check, payload encoding)
belongs to other properties and may change without touching this obligation.  The model's `selectNonce`
(`Msg/Model.lean`; `iv_verbatim`, `iv_and_piv_refused`, `piv_too_long_refused`, `missing_base_refused`,
`random_only_without_iv`) mirrors exactly this sequence: Partial IV present? then IV must be absent, the Partial IV
shorter than the nonce, the Base IV present; producing side only: no IV at all → a fresh one.
-/
namespace Cose.Props.C06Shape

def condsOf (f : String) : List String := ((Cose.Gen.Tables.conds.find? (fun r => r.1 == f)).map (·.2)).getD []

def isInfix : List Char → List Char → Bool
  | [], _ => true
  | _ :: _, [] => false
  | p, c :: cs => p.isPrefixOf (c :: cs) || isInfix p cs

/-- conditions mentioning `iv` / `IV` (iv, partialIV, baseIV, ivSize) -/
def aboutIV (c : String) : Bool := isInfix "iv".toList c.toList || isInfix "IV".toList c.toList

def ivConds (f : String) : List String := (condsOf f).filter aboutIV

theorem nonce_selection_conditions :
    ivConds "cose.Encrypt0Message.Encrypt" = ["if len(partialIV) > 0", "if len(iv) > 0", "if len(partialIV) >= ivSize",
      "if len(baseIV) == 0", "if len(iv) == 0"] ∧
    ivConds "cose.EncryptMessage.Encrypt" = ["if len(partialIV) > 0", "if len(iv) > 0", "if len(partialIV) >= ivSize",
      "if len(baseIV) == 0", "if len(iv) == 0"] ∧
    ivConds "cose.Encrypt0Message.Decrypt" = ["if len(partialIV) > 0", "if len(iv) > 0", "if len(partialIV) >= ivSize",
      "if len(baseIV) == 0"] ∧
    ivConds "cose.EncryptMessage.Decrypt" = ["if len(partialIV) > 0", "if len(iv) > 0", "if len(partialIV) >= ivSize",
      "if len(baseIV) == 0"] := by
  decide +kernel

end Cose.Props.C06Shape
