import Cose.Key.Impl
import Cose.Key.Ecdh
/-!
# C16 — key_ops restrictions are enforced for every operation

Model: `Key.ops` (the three representations `key.Ops`, `[]int`, `[]any` of any integer kinds), the family
whitelists **read from the generated CheckKey skeletons**, the construct-time check (`labelsOk`) and the
per-call gate (`opsEmptyOrHas` on the key_ops the key holds *at call time*).

`malformed_ops_unusable` — "a key whose key_ops cannot be interpreted as a list of integers is not usable for
anything" — is **false of the library** (known finding, DESIGN §9 D9): `Ops()` returns nil for such a value and
nil means unrestricted.  The counter-example is proved below and replayed on the real code by the spec op
`impl.malformed`; the theorem proved instead is the one for interpretable lists.
-/
namespace Cose.Props.C16
open Cose.Key Cose.Go Cose.Gen Cose.Gen.Tables

/-- the whitelists of the eight families, as the source has them -/
theorem family_ops_whitelists :
    ck_key_hmac.ops = [9, 10] ∧ ck_key_aesmac.ops = [9, 10] ∧ ck_key_aesgcm.ops = [3, 4] ∧ ck_key_aesccm.ops = [3, 4] ∧
    ck_key_chacha20poly1305.ops = [3, 4] ∧ ck_key_ed25519.ops = [1, 2] ∧ ck_key_ecdsa.ops = [1, 2] ∧
    ck_key_ecdh.ops = [7, 8] ∧
    (checkKeys.all (fun f => f.hasOpsCase && f.rejectsOtherLabels)) = true := by decide +kernel

/-- **the per-call gate**: with key_ops `l` at call time, the operation passes the gate iff the list is empty
    or contains the operation -/
theorem gate_iff (l : List Int) (op : Int) : opsEmptyOrHas (some l) op = true ↔ (l = [] ∨ op ∈ l) := by
  unfold opsEmptyOrHas
  cases l <;> simp

theorem gate_false_iff (l : List Int) (op : Int) : opsEmptyOrHas (some l) op = false ↔ (l ≠ [] ∧ op ∉ l) := by
  unfold opsEmptyOrHas
  cases l <;> simp

/-- every symmetric operation is refused with `key-ops` exactly when the gate fails, before the primitive runs -/
theorem macCreate_gated (m : SymImpl) (cur : Option (List Int)) (data : Bytes)
    (h : opsEmptyOrHas cur opMacCreate = false) : m.macCreate cur data = .err "key-ops" := by
  unfold SymImpl.macCreate; simp [h]
theorem macVerify_gated (m : SymImpl) (cur : Option (List Int)) (data mac : Bytes)
    (h : opsEmptyOrHas cur opMacVerify = false) : m.macVerify cur data mac = .err "key-ops" := by
  unfold SymImpl.macVerify; simp [h]
theorem encrypt_gated (m : SymImpl) (cur : Option (List Int)) (iv pt aad : Bytes)
    (h : opsEmptyOrHas cur opEncrypt = false) : m.encrypt cur iv pt aad = .err "key-ops" := by
  unfold SymImpl.encrypt; simp [h]
theorem decrypt_gated (m : SymImpl) (cur : Option (List Int)) (iv ct aad : Bytes)
    (h : opsEmptyOrHas cur opDecrypt = false) : m.decrypt cur iv ct aad = .err "key-ops" := by
  unfold SymImpl.decrypt; simp [h]
theorem sign_gated (s : SignerImpl) (cur : Option (List Int)) (data : Bytes)
    (h : opsEmptyOrHas cur opSign = false) : s.sign cur data = .err "key-ops" := by
  unfold SignerImpl.sign; simp [h]
theorem verify_gated (v : VerifierImpl) (cur : Option (List Int)) (data sig : Bytes)
    (h : opsEmptyOrHas cur opVerify = false) : v.verify cur data sig = .err "key-ops" := by
  unfold VerifierImpl.verify; simp [h]
theorem ecdh_gated (k remote : Key) (cur : Option (List Int))
    (h : opsEmptyOrHas cur opDeriveKey = false ∧ opsEmptyOrHas cur opDeriveBits = false) :
    (ecdhDerive k cur remote).isOk = false := by
  unfold ecdhDerive
  simp only [h.1, h.2, Bool.not_false, Bool.and_self, if_true]
  repeat' (first | split | rfl)

/-- **narrowing after construction takes effect**: the gate reads the key_ops passed at call time; the object
    made at construction plays no part in it -/
theorem narrowing_takes_effect (m : SymImpl) (l : List Int) (hne : l ≠ []) (hop : opMacCreate ∉ l) (data : Bytes) :
    m.macCreate (some l) data = .err "key-ops" := by
  apply macCreate_gated
  exact (gate_false_iff l opMacCreate).mpr ⟨hne, hop⟩

/-- **construction refuses lists with an operation outside the family** (interpretable lists) -/
theorem foreign_op_refused_at_construction (f : CheckKeyFacts) (ks : Int → Nat) (k : Key) (l : List Int) (o : Int)
    (hf : f.hasOpsCase = true) (hl : ops k = some l) (ho : o ∈ l) (hno : o ∉ f.ops)
    (hp : (lbl Iana.KeyParameterKeyOps, (k.lookup (lbl Iana.KeyParameterKeyOps)).getD .nil) ∈ k)
    (hnp : Iana.KeyParameterKeyOps ∉ f.plainLabels) (hna : f.hasAlgCase = true → Iana.KeyParameterKeyOps ≠ Iana.KeyParameterAlg) :
    checkSymmetric f ks k = false := by
  unfold checkSymmetric
  have : labelsOk f k = false := by
    unfold labelsOk
    rw [List.all_eq_false]
    refine ⟨_, hp, ?_⟩
    have hne : ¬ (Iana.KeyParameterKeyOps == Iana.KeyParameterAlg) = true := by decide
    simp only [lbl, hnp, hf, hl, Bool.true_and, beq_self_eq_true, if_true, if_false, Bool.false_eq_true,
      List.contains_eq_mem, decide_false]
    simp only [hne, Bool.and_false, Bool.false_eq_true, if_false]
    simp only [List.all_eq_true, decide_eq_true_eq, Bool.not_eq_true]
    intro hall
    exact hno (by simpa using hall o ho)
  simp [this]

theorem find_map_set (l : Label) (v : GoVal) : ∀ (m : CMap),
    (m.find? (fun kv => kv.1 == l)).isSome = true →
    ((m.map (fun kv => if kv.1 == l then (l, v) else kv)).find? (fun kv => kv.1 == l)) = some (l, v)
  | [], h => by simp at h
  | x :: r, h => by
    cases hx : (x.1 == l) with
    | true =>
      have e : (if (x.1 == l) = true then (l, v) else x) = (l, v) := by rw [hx]; rfl
      have hl : ((l, v).1 == l) = true := by simp
      rw [List.map_cons, e, List.find?_cons, hl]
    | false =>
      have e : (if (x.1 == l) = true then (l, v) else x) = x := by rw [hx]; rfl
      rw [List.map_cons, e, List.find?_cons, hx]
      rw [List.find?_cons, hx] at h
      exact find_map_set l v r h

/-- what was just set is what is found -/
theorem lookup_set_same (m : CMap) (l : Label) (v : GoVal) : (m.set l v).lookup l = some v := by
  unfold CMap.set CMap.has CMap.lookup
  cases hf : m.find? (fun kv => kv.1 == l) with
  | some x =>
    have hs : (List.find? (fun kv => kv.1 == l) m).isSome = true := by rw [hf]; rfl
    simp only [hf, Option.isSome_some, if_true]
    rw [find_map_set l v m hs]
  | none =>
    simp only [Option.isSome_none, Bool.false_eq_true, if_false]
    rw [List.find?_append, hf]
    have hl : ((l, v).1 == l) = true := by simp
    simp [List.find?, hl]

/-- **public keys derived from private keys carry only public-side operations**: whenever the private key had a
    key_ops entry, the derived key's entry is exactly the public-side list (`[verify]` for signature keys, `[]` for ECDH) -/
theorem derived_public_ops (k base : Key) (newOps : List Int) (h : k.has (lbl Iana.KeyParameterKeyOps) = true) :
    (copyCommon k base newOps).lookup (lbl Iana.KeyParameterKeyOps) = some (.ops newOps) := by
  unfold copyCommon
  simp only [h, if_true]
  exact lookup_set_same _ _ _

/-! ### the known finding: uninterpretable key_ops lift the restriction -/

/-- an HMAC key whose key_ops is the text "sign": accepted, and every operation passes the gate -/
def malformedOpsKey : Key :=
  [(lbl 1, .int .int 4), (lbl 3, .int .int 5), (lbl (-1), .bytes (List.replicate 32 1)), (lbl 4, .str [0x73, 0x69, 0x67, 0x6e])]

theorem malformed_ops_unusable_cex :
    malformedOpsKey.has (lbl Iana.KeyParameterKeyOps) = true ∧ ops malformedOpsKey = none ∧
    checkHmac malformedOpsKey = true ∧ ∀ op, opsEmptyOrHas (ops malformedOpsKey) op = true := by
  refine ⟨by decide +kernel, by decide +kernel, by decide +kernel, ?_⟩
  intro op
  have : ops malformedOpsKey = none := by decide +kernel
  rw [this]; rfl

/-- the partial statement that *is* true: whenever `Ops()` yields a list, the gate enforces it -/
theorem interpretable_ops_enforced_partial (k : Key) (l : List Int) (h : ops k = some l) (op : Int)
    (hne : l ≠ []) (hop : op ∉ l) : opsEmptyOrHas (ops k) op = false := by
  rw [h]
  exact (gate_false_iff l op).mpr ⟨hne, hop⟩

/-- the representations agree: `Ops`, `[]int` and `[]any` of integers of any kind give the same list -/
theorem ops_representation_independent (rest : Key) (xs : List Int)
    (hr : rest.lookup (lbl Iana.KeyParameterKeyOps) = none) :
    ops ((lbl Iana.KeyParameterKeyOps, .ops xs) :: rest) = some xs ∧
    ops ((lbl Iana.KeyParameterKeyOps, .ints xs) :: rest) = some xs := by
  unfold ops CMap.lookup
  simp [List.find?]

example : toIntList [.int .u64 9, .int .i8 10, .int .int 9] = some [9, 10, 9] := by decide +kernel
example : toIntList [.int .u64 9, .str [0x78]] = none := by decide +kernel
example : toIntList [.int .u64 9, .nil] = none := by decide +kernel

/-- **the operation numbers are the ones of RFC 9052 Table 5** (regenerated from `iana/operation.go`): the gates compare
    against these constants, and keys from other implementations carry the numbers — a transposed pair (3 ↔ 4, 9 ↔ 10)
    would keep the library consistent with itself and invert the restriction for everybody else -/
theorem key_operation_numbers_are_rfc9052 :
    Iana.KeyOperationSign = 1 ∧ Iana.KeyOperationVerify = 2 ∧ Iana.KeyOperationEncrypt = 3 ∧ Iana.KeyOperationDecrypt = 4 ∧
    Iana.KeyOperationWrapKey = 5 ∧ Iana.KeyOperationUnwrapKey = 6 ∧ Iana.KeyOperationDeriveKey = 7 ∧
    Iana.KeyOperationDeriveBits = 8 ∧ Iana.KeyOperationMacCreate = 9 ∧ Iana.KeyOperationMacVerify = 10 := by decide +kernel

end Cose.Props.C16
