import Cose.Msg.Model
/-!
# C01 / C02 — COSE_Sign verification does not depend on the order of the verifier list

`verifySign_verifier_order`: `SignMessage.Verify` finds the verifier of each signature by key id (`Verifiers.Lookup`), so
with pairwise different key ids any permutation of the verifier list gives the same result for every message — the same
acceptance, the same refusal.  (With two verifiers under one key id the *first* one is used: `lookup_is_first`.)
-/
namespace Cose.Props.SignOrder
open Cose.Go Cose.Msg

theorem find_perm_of_unique {α} (p : α → Bool) {l l' : List α} (hp : l'.Perm l)
    (hu : l.Pairwise (fun a b => ¬(p a = true ∧ p b = true))) : l'.find? p = l.find? p := by
  induction hp with
  | nil => rfl
  | cons x _ ih =>
    obtain ⟨_, ht⟩ := List.pairwise_cons.mp hu
    simp only [List.find?_cons]
    cases p x
    · exact ih ht
    · rfl
  | swap x y l =>
    obtain ⟨hy, hr⟩ := List.pairwise_cons.mp hu
    simp only [List.find?_cons]
    cases hx : p x <;> cases hy' : p y <;> try rfl
    exact absurd ⟨hx, hy'⟩ (hy y List.mem_cons_self)
  | trans h1 h2 ih1 ih2 =>
    have hmid := (List.Perm.pairwise_iff (R := fun a b => ¬(p a = true ∧ p b = true))
      (fun {a b} h h' => h ⟨h'.2, h'.1⟩) h2).mpr hu
    rw [ih1 hmid, ih2 hu]

def keyId (v : Verifier) : Bytes := v.key.kid.getD []

theorem lookup_perm {vs vs' : List Verifier} (hp : vs'.Perm vs) (hnd : (vs.map keyId).Nodup) (kid : Option Bytes) :
    lookupVerifier vs' kid = lookupVerifier vs kid := by
  unfold lookupVerifier
  refine find_perm_of_unique _ hp ?_
  rw [List.nodup_iff_pairwise_ne, List.pairwise_map] at hnd
  refine hnd.imp ?_
  intro a b hne hboth
  simp only [beq_iff_eq] at hboth
  exact hne (by unfold keyId; rw [hboth.1, hboth.2])

theorem go_perm {vs vs' : List Verifier} (hp : vs'.Perm vs) (hnd : (vs.map keyId).Nodup) (w : Wire) (ext : Option Bytes) :
    ∀ sigs, verifySign.go vs' ext w sigs = verifySign.go vs ext w sigs
  | [] => by simp only [verifySign.go]
  | s :: rest => by
    simp only [verifySign.go, lookup_perm hp hnd, go_perm hp hnd w ext rest]

/-- **the order of the verifier list does not matter** (pairwise different key ids) -/
theorem verifySign_verifier_order (m : Msg) {vs vs' : List Verifier} (hp : vs'.Perm vs) (hnd : (vs.map keyId).Nodup)
    (ext : Option Bytes) : verifySign m vs' ext = verifySign m vs ext := by
  have he : vs'.isEmpty = vs.isEmpty := by
    cases vs with
    | nil => rw [List.Perm.eq_nil hp]
    | cons a r =>
      cases vs' with
      | nil => exact absurd hp.length_eq (by simp)
      | cons b r' => rfl
  unfold verifySign
  rw [he]
  split
  · rfl
  · split
    · rfl
    · split
      · rfl
      · split
        · rfl
        · exact go_perm hp hnd _ ext _

/-- with two verifiers under one key id it is the first in the list that is asked -/
theorem lookup_is_first (v : Verifier) (rest : List Verifier) (kid : Option Bytes) (h : keyId v = kid.getD []) :
    lookupVerifier (v :: rest) kid = some v := by
  unfold lookupVerifier keyId at *
  simp [h]

/-- the premise is satisfiable: two verifiers with different key ids, listed either way round -/
example : ([⟨⟨-7, some [1], .ok none⟩, fun _ _ => .ok ()⟩, ⟨⟨-8, some [2], .ok none⟩, fun _ _ => .ok ()⟩] : List Verifier).Perm
    [⟨⟨-8, some [2], .ok none⟩, fun _ _ => .ok ()⟩, ⟨⟨-7, some [1], .ok none⟩, fun _ _ => .ok ()⟩] ∧
    (([⟨⟨-8, some [2], .ok none⟩, fun _ _ => .ok ()⟩, ⟨⟨-7, some [1], .ok none⟩, fun _ _ => .ok ()⟩] : List Verifier).map keyId).Nodup :=
  ⟨List.Perm.swap _ _ _, by decide⟩

end Cose.Props.SignOrder
