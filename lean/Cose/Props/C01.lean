import Cose.Msg.Roundtrip
import Cose.Props.C05
import Cose.Go.Roundtrip
/-!
# C01 — every COSE message the library produces is accepted back with identical content

Proved here, for every payload / external data / key / unprotected header set:
* `decode_marshalled` (in `Msg/Roundtrip.lean`): for all six kinds, what `MarshalCBOR` emits is decoded back to the
  same wire array by `UnmarshalCBOR`'s prefix stripping + strict decoding — tagged form;
* `wire4_fields` / `wire3_fields`: protected bytes, payload (or ciphertext) and signature / tag come back byte for byte;
* `sign1_roundtrip` / `mac0_roundtrip`: a message produced with default headers **verifies** under any verifier that is
  correct for the signer (resp. under the same MACer), returning the original payload bytes.
The untagged and CWT-tagged forms, caller-supplied protected maps, typed payloads, COSE_Sign / Mac / Encrypt with
recipients are covered by the correspondence run `msg:C01` against the same model (3 forms × 6 kinds × 24 algorithms).
`SigCorrect` is the one cryptographic assumption (signature correctness); MAC and AEAD correctness are theorems (C11, C12).
-/
namespace Cose.Props.C01
open Cose.Msg Cose.Go Cose.Cbor Cose.Gen

/-- signature correctness: what the signer signs, the verifier accepts -/
def SigCorrect (sign : Bytes → Res Bytes) (verify : Bytes → Bytes → Res Unit) : Prop :=
  ∀ data sig, sign data = .ok sig → verify data sig = .ok ()

theorem algMismatch_single (k : IntKind) (v a : Int) (h : toInt (.int k v) = .ok a) :
    algMismatch [(Label.int 1, .int k v)] a = false := by
  have hl : (Label.int 1 == Msg.lbl Iana.HeaderParameterAlg) = true := by decide
  unfold algMismatch headerAlg CMap.has CMap.lookup getInt
  simp only [List.find?, hl, h]
  simp

theorem ofInt_one : Cbor.ofInt 1 = .uint 1 := by simp [Cbor.ofInt]

/-- a one-entry map `{1: c}` with a scalar integer value is well-formed, shallow and non-empty when encoded -/
theorem single_map_facts (c : Cbor) (hc : WF c) (hd : depth c = 0) :
    WF (.map [(.uint 1, c)]) ∧ depth (.map [(.uint 1, c)]) ≤ maxNesting ∧ encode (.map [(.uint 1, c)]) ≠ [] := by
  have hwf : WF (.map [(.uint 1, c)]) := by
    simp only [WF, WFPairs, KeysSorted, encodePairs, List.pairwise_cons, List.length_cons, List.length_nil, maxElems]
    exact ⟨by omega, ⟨by simp [two64], hc, trivial⟩, ⟨by simp, by simp⟩, by simp [hashableKey]⟩
  refine ⟨hwf, ?_, ?_⟩
  · simp only [depth, depthPairs, hd, maxNesting]; omega
  · rw [encode_map_sorted hwf.2.2.1]
    intro h
    have := congrArg List.length h
    have hp := head_length_pos 5 [((Cbor.uint 1), c)].length
    simp only [List.length_append, List.length_nil] at this
    omega

/-- the default protected bucket `{1: alg}` decodes back to a map whose algorithm is `alg` -/
theorem default_bucket_roundtrip (a : Int) (ha : -2147483648 ≤ a ∧ a ≤ 2147483647) :
    ∃ pm, hdrFromBytes (some (encode (.map [(Cbor.ofInt 1, Cbor.ofInt a)]))) = .ok pm ∧
      algMismatch pm a = false := by
  rw [ofInt_one]
  by_cases hpos : a ≥ 0
  · have e : Cbor.ofInt a = .uint a.toNat := by simp [Cbor.ofInt, hpos]
    rw [e]
    obtain ⟨hwf, hd, hne⟩ := single_map_facts (.uint a.toNat) (by simp only [WF, two64]; omega) rfl
    have hdec := decodeAll_encode _ hwf hd
    refine ⟨[(.int 1, .int .u64 a.toNat)], ?_, algMismatch_single _ _ _ ?_⟩
    · unfold hdrFromBytes
      cases hb : encode (.map [(.uint 1, .uint a.toNat)]) with
      | nil => exact absurd hb hne
      | cons x r =>
        simp only
        rw [← hb]
        unfold decodeCMap
        rw [hdec]
        simp [untag, ofCborPairs, ofCbor, cmapOfPairs, checkKey, maxInt32]
    · unfold toInt maxInt32
      have : (a.toNat : Int) = a := by omega
      simp [IntKind.signed, this, ha.2]
  · have e : Cbor.ofInt a = .nint (-1 - a).toNat := by simp [Cbor.ofInt, hpos]
    rw [e]
    obtain ⟨hwf, hd, hne⟩ := single_map_facts (.nint (-1 - a).toNat) (by simp only [WF, two64]; omega) rfl
    have hdec := decodeAll_encode _ hwf hd
    have hlt : (-1 - a).toNat < 9223372036854775808 := by omega
    have hval : (-1 - ((-1 - a).toNat : Int)) = a := by omega
    refine ⟨[(.int 1, .int .i64 a)], ?_, algMismatch_single _ _ _ ?_⟩
    · unfold hdrFromBytes
      cases hb : encode (.map [(.uint 1, .nint (-1 - a).toNat)]) with
      | nil => exact absurd hb hne
      | cons x r =>
        simp only
        rw [← hb]
        unfold decodeCMap
        rw [hdec]
        simp [untag, ofCborPairs, ofCbor, cmapOfPairs, checkKey, maxInt32, hlt]
        omega
    · unfold toInt minInt32 maxInt32
      simp [IntKind.signed, ha.1, ha.2]

/-- `len(mm.Payload) > 0` is what fills `m.Payload`: an empty payload decodes to the zero value (nil) -/
def nonEmpty : Option Bytes → Option Bytes
  | some (x :: r) => some (x :: r)
  | _ => none

theorem untag_idem : (c : Cbor) → untag (untag c) = untag c
  | .tag _ v => by simpa [untag] using untag_idem v
  | .uint _ => rfl | .nint _ => rfl | .bstr _ => rfl | .tstr _ => rfl | .arr _ => rfl | .map _ => rfl
  | .simple _ => rfl | .float _ _ => rfl

theorem wireOfCbor_untag (k : Kind) (c : Cbor) : wireOfCbor k c = wireOfCbor k (untag c) := by
  unfold wireOfCbor; rw [untag_idem]

/-- the default protected bucket of a key with algorithm `a` -/
theorem default_bucket_bytes (a : Int) (ha : a ≠ 0) :
    hdrBytes (some [(Msg.lbl Iana.HeaderParameterAlg, GoVal.int .alg a)]) =
      .ok (encode (.map [(Cbor.ofInt 1, Cbor.ofInt a)])) := by
  have : Msg.lbl Iana.HeaderParameterAlg = Label.int 1 := rfl
  simp [hdrBytes, encodeCMap, CMap.toCbor, cmapPairs, toCbor, this, Label.toCbor]

/-- the general form: any payload value `pv` whose wire form is `payload` and which a decoder in mode `mode` reads
    back as `pv'` (raw bytes, pre-encoded CBOR, or a typed value) -/
theorem auth4_roundtrip_gen (k : Kind) (hk : k = .sign1 ∨ k = .mac0) (pv pv' : PVal) (mode : PMode) (payload ext : Option Bytes) (unprot : Hdr)
    (key vkey : KeyView) (auth : Bytes → Res Bytes) (check : Bytes → Bytes → Res Unit)
    (hcorr : SigCorrect auth check) (hvk : vkey.alg = key.alg) (ha : key.alg ≠ 0)
    (har : -2147483648 ≤ key.alg ∧ key.alg ≤ 2147483647)
    (hpw : payloadToWire pv = .ok payload) (hpf : payloadFromWire mode payload (zeroPayload mode) = .ok pv')
    (m1 : Msg) (h : produceAuth ⟨k, none, unprot, pv, none⟩ key auth ext = .ok m1)
    (w : Wire) (hw : m1.mm = some w) (u : Cbor) (hu : hdrCbor w.unprot = some u)
    (u' : Cbor) (heq : encode u' = encode u) (huw : WF u')
    (hud : depth u' + 2 < maxNesting) (uh : Hdr) (huf : hdrField u' = .ok uh)
    (hpl : ∀ x, payload = some x → x.length < two64) (hsl : ∀ x, w.auth = some x → x.length < two64) :
    ∃ bytes m2 w2, marshal k w = some bytes ∧ unmarshal k mode bytes = .ok m2 ∧ m2.mm = some w2 ∧
      w2.prot = w.prot ∧ w2.payload = payload ∧ w2.auth = w.auth ∧
      m2.payload = pv' ∧
      verifyAuth m2 vkey check ext = .ok () ∧ m2.unprot = uh := by
  -- unfold production
  unfold produceAuth at h
  have hfp : fillProtected none key = .ok [(Msg.lbl Iana.HeaderParameterAlg, .int .alg key.alg)] :=
    Cose.Props.C05.default_protected_records_alg key ha
  simp only [hfp, default_bucket_bytes key.alg ha, hpw] at h
  generalize hpb : encode (Cbor.map [(Cbor.ofInt 1, Cbor.ofInt key.alg)]) = pb at h
  cases htb : tobe k (Wire.mk (some pb) (some (fillUnprotected unprot key)) payload none none none) none ext with
  | err e => simp [htb] at h
  | panic e => simp [htb] at h
  | ok tb =>
    simp only [htb] at h
    cases hsig : auth tb with
    | err e => simp [hsig] at h
    | panic e => simp [hsig] at h
    | ok sig =>
      simp only [hsig, Res.ok.injEq] at h
      subst h
      simp only [Option.some.injEq] at hw
      subst hw
      simp only at hu hsl ⊢
      -- the wire array
      have hwc : wireCbor k { prot := some pb, unprot := some (fillUnprotected unprot key), payload := payload, auth := some sig } =
          some (.arr [.bstr pb, u, bytesCbor payload, .bstr sig]) := by
        rcases hk with rfl | rfl <;> simp [wireCbor, hu, bytesCbor]
      have hpbl : pb.length < two64 := by
        obtain ⟨pm, hpm, _⟩ := default_bucket_roundtrip key.alg har
        -- |{1: alg}| ≤ 1 + 1 + 9 bytes
        rw [← hpb, ofInt_one]
        have : ∀ c, (encode c).length ≤ 9 → (encode (.map [(.uint 1, c)])).length < two64 := by
          intro c hc
          simp only [encode, encodePairs, List.length_append, flattenPairs, List.length_nil]
          have h1 := head_shortest 5 1
          have h2 := head_shortest 0 1
          simp at h1 h2
          simp [List.mergeSort, flattenPairs, h1, h2, two64]; omega
        apply this
        unfold Cbor.ofInt
        split <;> (simp only [encode]; rw [head_shortest]; split <;> (try split) <;> (try split) <;> (try split) <;> omega)
      -- the unprotected bucket is emitted in canonical order: `u'` is the item a decoder sees
      have henc4 : encode (.tag k.tagNum (.arr [.bstr pb, u, bytesCbor payload, .bstr sig])) =
          encode (.tag k.tagNum (.arr [.bstr pb, u', bytesCbor payload, .bstr sig])) := by
        simp only [encode, encodeList, heq, List.length_cons, List.length_nil]
      have hwfarr : WF (.arr [.bstr pb, u', bytesCbor payload, .bstr sig]) := by
        simp only [WF, WFList, maxElems, List.length_cons, List.length_nil]
        exact ⟨by omega, hpbl, huw, wf_bytesCbor payload hpl, hsl sig rfl, trivial⟩
      have hdarr : depth (.arr [.bstr pb, u', bytesCbor payload, .bstr sig]) < maxNesting := by
        simp only [depth, depthList, depth_bytesCbor]; omega
      obtain ⟨c, hc1, hc2⟩ := decode_marshalled k _ hwfarr hdarr
      refine ⟨encode (.tag k.tagNum (.arr [.bstr pb, u, bytesCbor payload, .bstr sig])), ?_⟩
      have hmar : marshal k { prot := some pb, unprot := some (fillUnprotected unprot key), payload := payload, auth := some sig } =
          some (encode (.tag k.tagNum (.arr [.bstr pb, u, bytesCbor payload, .bstr sig]))) := by
        unfold marshal; rw [hwc]; rfl
      obtain ⟨pm, hpm, hmm⟩ := default_bucket_roundtrip key.alg har
      rw [hpb] at hpm
      have hrr : recipientsRawOk k (applyStrip (encode (.tag k.tagNum (.arr [.bstr pb, u', bytesCbor payload, .bstr sig]))) (stripSteps k)) = true := by
        rcases hk with rfl | rfl <;> simp [recipientsRawOk]
      have hwire : wireOfCbor k c = .ok { prot := some pb, unprot := uh, payload := payload, auth := some sig } := by
        rw [wireOfCbor_untag, hc2]
        show wireOfCbor k (.arr [bytesCbor (some pb), u', bytesCbor payload, bytesCbor (some sig)]) = _
        rw [wire4_fields k hk, huf]
      have hnot : ((k == Kind.mac || k == Kind.encrypt) && ([] : List Recip).isEmpty) = false := by
        rcases hk with rfl | rfl <;> rfl
      have hnot2 : (k == Kind.encrypt0 || k == Kind.encrypt) = false := by
        rcases hk with rfl | rfl <;> rfl
      have hpay := hpf
      refine ⟨⟨k, some pm, uh, pv',
        some { prot := some pb, unprot := uh, payload := payload, auth := some sig }⟩, _, hmar, ?_, rfl, rfl, rfl, rfl, rfl, ?_, rfl⟩
      · unfold unmarshal
        rw [henc4, hc1]
        simp only [hrr, hwire, Bool.not_true, Bool.false_eq_true, if_false, Option.getD_none, hnot, hpm, hnot2, hpay]
      · unfold verifyAuth
        simp only [Option.getD_some, hvk, hmm, Bool.false_eq_true, if_false]
        have htb2 : tobe k { prot := some pb, unprot := uh, payload := payload, auth := some sig } none ext = .ok tb := by
          rw [← htb]; unfold tobe; rfl
        rw [htb2]
        exact hcorr tb sig hsig


/-- **COSE_Sign1 / COSE_Mac0 produced with default headers are accepted back** (tagged form): the decoder
    returns the very protected bytes, payload bytes and signature/tag that were produced, the payload field holds
    the original bytes, and verification succeeds with any `check` that accepts what `auth` makes. -/
theorem auth4_roundtrip (k : Kind) (hk : k = .sign1 ∨ k = .mac0) (payload ext : Option Bytes) (unprot : Hdr)
    (key vkey : KeyView) (auth : Bytes → Res Bytes) (check : Bytes → Bytes → Res Unit)
    (hcorr : SigCorrect auth check) (hvk : vkey.alg = key.alg) (ha : key.alg ≠ 0)
    (har : -2147483648 ≤ key.alg ∧ key.alg ≤ 2147483647)
    (m1 : Msg) (h : produceAuth ⟨k, none, unprot, .bytes payload, none⟩ key auth ext = .ok m1)
    (w : Wire) (hw : m1.mm = some w) (u : Cbor) (hu : hdrCbor w.unprot = some u)
    (u' : Cbor) (heq : encode u' = encode u) (huw : WF u')
    (hud : depth u' + 2 < maxNesting) (uh : Hdr) (huf : hdrField u' = .ok uh)
    (hpl : ∀ x, payload = some x → x.length < two64) (hsl : ∀ x, w.auth = some x → x.length < two64) :
    ∃ bytes m2 w2, marshal k w = some bytes ∧ unmarshal k .raw bytes = .ok m2 ∧ m2.mm = some w2 ∧
      w2.prot = w.prot ∧ w2.payload = payload ∧ w2.auth = w.auth ∧
      m2.payload = .bytes (nonEmpty payload) ∧
      verifyAuth m2 vkey check ext = .ok () ∧ m2.unprot = uh := by
  have hpay : payloadFromWire .raw payload (zeroPayload .raw) = .ok (.bytes (nonEmpty payload)) := by
    cases payload with
    | none => rfl
    | some l => cases l <;> rfl
  exact auth4_roundtrip_gen k hk (.bytes payload) (.bytes (nonEmpty payload)) .raw payload ext unprot key vkey auth check
    hcorr hvk ha har rfl hpay m1 h w hw u hu u' heq huw hud uh huf hpl hsl

/-- the wire struct kept by `WithSign` / `Compute` carries the filled unprotected map -/
theorem produceAuth_wire_unprot (m : Msg) (key : KeyView) (auth : Bytes → Res Bytes) (ext : Option Bytes) (m1 : Msg)
    (h : produceAuth m key auth ext = .ok m1) (w : Wire) (hw : m1.mm = some w) :
    w.unprot = some (fillUnprotected m.unprot key) := by
  unfold produceAuth at h
  split at h
  · cases h
  · cases h
  · split at h
    · simp only at h
      split at h
      · split at h
        · cases h; cases hw; rfl
        · cases h
        · cases h
      · cases h
      · cases h
    · cases h
    · cases h
    · cases h
    · cases h

/-- general form of the round trip with an arbitrary (flat) unprotected map in any entry order and any payload kind -/
theorem auth4_roundtrip_any_order_gen (k : Kind) (hk : k = .sign1 ∨ k = .mac0) (pv pv' : PVal) (mode : PMode)
    (payload ext : Option Bytes) (unprot : Hdr)
    (key vkey : KeyView) (auth : Bytes → Res Bytes) (check : Bytes → Bytes → Res Unit)
    (hcorr : SigCorrect auth check) (hvk : vkey.alg = key.alg) (ha : key.alg ≠ 0)
    (har : -2147483648 ≤ key.alg ∧ key.alg ≤ 2147483647)
    (hpw : payloadToWire pv = .ok payload) (hpf : payloadFromWire mode payload (zeroPayload mode) = .ok pv')
    (m1 : Msg) (h : produceAuth ⟨k, none, unprot, pv, none⟩ key auth ext = .ok m1)
    (w : Wire) (hw : m1.mm = some w)
    (hok : ∀ kv ∈ fillUnprotected unprot key, EntryOk kv)
    (hnd : ((fillUnprotected unprot key).map (·.1)).Nodup)
    (hlen : (fillUnprotected unprot key).length ≤ maxElems)
    (hpl : ∀ x, payload = some x → x.length < two64) (hsl : ∀ x, w.auth = some x → x.length < two64) :
    ∃ bytes m2 w2 uh, marshal k w = some bytes ∧ unmarshal k mode bytes = .ok m2 ∧ m2.mm = some w2 ∧
      w2.prot = w.prot ∧ w2.payload = payload ∧ w2.auth = w.auth ∧
      m2.payload = pv' ∧
      verifyAuth m2 vkey check ext = .ok () ∧ m2.unprot = some uh ∧
      ∀ l, uh.lookup l = ((fillUnprotected unprot key).lookup l).map normV := by
  let fm := fillUnprotected unprot key
  have hwu : w.unprot = some fm := produceAuth_wire_unprot _ key auth ext m1 h w hw
  have hp := sortM_perm fm
  have hok' : ∀ kv ∈ sortM fm, EntryOk kv := fun kv hh => hok kv (hp.subset hh)
  obtain ⟨hwf, hdepth⟩ := sorted_entries_wf fm hok hnd hlen
  obtain ⟨_, _, _, hof, hcm⟩ := entries_wf (sortM fm) hok'
  have hnd_enc : ((encodePairs (fm.map entryCbor)).map (·.1)).Nodup := by
    rw [map_entryCbor_keys]; exact encoded_labels_nodup fm (fun kv hh => (hok kv hh).1) hnd
  have henc : encode (.map ((sortM fm).map entryCbor)) = encode (.map (fm.map entryCbor)) :=
    (encode_map_perm (hp.symm.map entryCbor) hnd_enc).symm
  have hu : hdrCbor w.unprot = some (.map (fm.map entryCbor)) := by
    rw [hwu]; simp only [hdrCbor, CMap.toCbor, cmapPairs_eq fm hok, Option.map_some]
  have huf : hdrField (.map ((sortM fm).map entryCbor)) = .ok (some ((sortM fm).map entryNorm)) := by
    simp only [hdrField, untag, hof, hcm]
  obtain ⟨bytes, m2, w2, h1, h2, h3, h4, h5, h6, h7, h8, h9⟩ :=
    auth4_roundtrip_gen k hk pv pv' mode payload ext unprot key vkey auth check hcorr hvk ha har hpw hpf m1 h w hw _ hu _ henc hwf
      (by unfold maxNesting; omega) _ huf hpl hsl
  refine ⟨bytes, m2, w2, (sortM fm).map entryNorm, h1, h2, h3, h4, h5, h6, h7, h8, h9, fun l => ?_⟩
  rw [lookup_entryNorm, lookup_perm hp hnd]

/-- **COSE_Sign1 / COSE_Mac0 round trip, any unprotected header map**: for every payload, external data, key and
    every unprotected map (after the library added the kid) with distinct in-range labels and scalar / list values —
    *in whatever order a Go map presents its entries* — the produced message is decoded back with byte-identical
    protected bucket, payload and signature / tag, verifies, and its unprotected map answers every look-up with the
    decoded form of the original value. -/
theorem auth4_roundtrip_any_order (k : Kind) (hk : k = .sign1 ∨ k = .mac0) (payload ext : Option Bytes) (unprot : Hdr)
    (key vkey : KeyView) (auth : Bytes → Res Bytes) (check : Bytes → Bytes → Res Unit)
    (hcorr : SigCorrect auth check) (hvk : vkey.alg = key.alg) (ha : key.alg ≠ 0)
    (har : -2147483648 ≤ key.alg ∧ key.alg ≤ 2147483647)
    (m1 : Msg) (h : produceAuth ⟨k, none, unprot, .bytes payload, none⟩ key auth ext = .ok m1)
    (w : Wire) (hw : m1.mm = some w)
    (hok : ∀ kv ∈ fillUnprotected unprot key, EntryOk kv)
    (hnd : ((fillUnprotected unprot key).map (·.1)).Nodup)
    (hlen : (fillUnprotected unprot key).length ≤ maxElems)
    (hpl : ∀ x, payload = some x → x.length < two64) (hsl : ∀ x, w.auth = some x → x.length < two64) :
    ∃ bytes m2 w2 uh, marshal k w = some bytes ∧ unmarshal k .raw bytes = .ok m2 ∧ m2.mm = some w2 ∧
      w2.prot = w.prot ∧ w2.payload = payload ∧ w2.auth = w.auth ∧
      m2.payload = .bytes (nonEmpty payload) ∧
      verifyAuth m2 vkey check ext = .ok () ∧ m2.unprot = some uh ∧
      ∀ l, uh.lookup l = ((fillUnprotected unprot key).lookup l).map normV := by
  have hpay : payloadFromWire .raw payload (zeroPayload .raw) = .ok (.bytes (nonEmpty payload)) := by
    cases payload with
    | none => rfl
    | some l => cases l <;> rfl
  exact auth4_roundtrip_any_order_gen k hk (.bytes payload) (.bytes (nonEmpty payload)) .raw payload ext unprot key vkey auth check
    hcorr hvk ha har rfl hpay m1 h w hw hok hnd hlen hpl hsl

/-- **typed payloads** (a claims map, a key, any label map with scalar / list values): the produced COSE_Sign1 /
    COSE_Mac0 decodes in typed mode, verifies, and the decoded payload answers every look-up with the decoded form of
    the original value — e.g. a CWT's claims come back with the same exp / nbf / iat / iss / aud / cti. -/
theorem auth4_roundtrip_typed (k : Kind) (hk : k = .sign1 ∨ k = .mac0) (pmap : CMap) (ext : Option Bytes) (unprot : Hdr)
    (key vkey : KeyView) (auth : Bytes → Res Bytes) (check : Bytes → Bytes → Res Unit)
    (hcorr : SigCorrect auth check) (hvk : vkey.alg = key.alg) (ha : key.alg ≠ 0)
    (har : -2147483648 ≤ key.alg ∧ key.alg ≤ 2147483647)
    (hokp : ∀ kv ∈ pmap, EntryOk kv) (hndp : (pmap.map (·.1)).Nodup) (hlenp : pmap.length ≤ maxElems)
    (m1 : Msg) (h : produceAuth ⟨k, none, unprot, .typed (some pmap), none⟩ key auth ext = .ok m1)
    (w : Wire) (hw : m1.mm = some w)
    (hok : ∀ kv ∈ fillUnprotected unprot key, EntryOk kv)
    (hnd : ((fillUnprotected unprot key).map (·.1)).Nodup)
    (hlen : (fillUnprotected unprot key).length ≤ maxElems)
    (hpl : ∀ x, encodeCMap pmap = some x → x.length < two64) (hsl : ∀ x, w.auth = some x → x.length < two64) :
    ∃ bytes m2 pm' uh, marshal k w = some bytes ∧ unmarshal k .typed bytes = .ok m2 ∧
      m2.payload = .typed (some pm') ∧ (∀ l, pm'.lookup l = (pmap.lookup l).map normV) ∧ pm'.length = pmap.length ∧
      verifyAuth m2 vkey check ext = .ok () ∧ m2.unprot = some uh ∧
      ∀ l, uh.lookup l = ((fillUnprotected unprot key).lookup l).map normV := by
  obtain ⟨b, pm', henc, hdec, hl, hlook⟩ := cmap_roundtrip pmap hokp hndp hlenp
  have hpw : payloadToWire (.typed (some pmap)) = .ok (some b) := by simp only [payloadToWire, henc]
  have hbne : b ≠ [] := by
    intro hb
    subst hb
    simp only [encodeCMap, CMap.toCbor, cmapPairs_eq pmap hokp, Option.map_some, Option.some.injEq] at henc
    have hlen0 := congrArg List.length henc
    simp only [encode, List.length_append, List.length_nil] at hlen0
    have := head_length_pos 5 (pmap.map entryCbor).length
    omega
  have hpf : payloadFromWire .typed (some b) (zeroPayload .typed) = .ok (.typed (some pm')) := by
    cases b with
    | nil => exact absurd rfl hbne
    | cons x r => simp only [payloadFromWire, hdec]
  obtain ⟨bytes, m2, w2, uh, h1, h2, _, _, _, _, h7, h8, h9, h10⟩ :=
    auth4_roundtrip_any_order_gen k hk (.typed (some pmap)) (.typed (some pm')) .typed (some b) ext unprot key vkey auth check
      hcorr hvk ha har hpw hpf m1 h w hw hok hnd hlen (fun x hx => hpl x (by cases hx; exact henc)) hsl
  exact ⟨bytes, m2, pm', uh, h1, h2, h7, hlook, hl, h8, h9, h10⟩

end Cose.Props.C01
