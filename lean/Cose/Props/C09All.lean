import Cose.Props.C09Sign
import Cose.Props.C01Mac
/-!
# C09 — decode ∘ encode is the identity on a decoded message, the remaining kinds

`Props/C09.lean` has COSE_Sign1 / COSE_Mac0 and `Props/C09Sign.lean` COSE_Sign.  Here:

* `enc0_reencode_fixpoint` — COSE_Encrypt0: protected bytes as received, unprotected map, ciphertext;
* `mac_reencode_fixpoint` — COSE_Mac: protected bytes, payload, tag **and the whole recipient list**, any number of
  recipients;
* `encrypt_reencode_fixpoint` — COSE_Encrypt: protected bytes, ciphertext and the recipient list.

What is asked of each recipient (`RecipStable`) is what holds of a decoded one whose protected bucket the sender
encoded deterministically: its own wire form decodes back to itself.  (A recipient's protected bucket is *re-encoded
from the map* by the library — unlike a message's or a signature's, which are kept as received — so a recipient with
a non-canonical bucket is outside the fixed point; recipients are not covered by the authenticated structures.)
`decrypt` looks at the retained wire struct only through fields that are preserved, so the verdict and the plaintext
are the same before and after (`enc_reencoded_same_result`).
-/
namespace Cose.Props.C09All
open Cose.Msg Cose.Go Cose.Cbor Cose.Gen Cose.Props.C01 Cose.Props.C01Mac

/-- a recipient that is a fixed point of encode ∘ decode -/
abbrev RecipStable (r : Recip) (c : Cbor) : Prop := RecipEnc r c r

/-- the recipient list of `All3 RecipEnc rs cs rs`, read as a two-list relation -/
theorem all3_of_stable {rs : List Recip} {cs : List Cbor}
    (h : Cose.Props.C01Sign.All2 RecipStable rs cs) : All3 RecipEnc rs cs rs := by
  induction h with
  | nil => exact .nil
  | cons h _ ih => exact .cons h ih

/-- **COSE_Encrypt0**: re-encoding a decoded message and decoding again gives the same wire struct -/
theorem enc0_reencode_fixpoint (w : Wire)
    (u : Cbor) (hu : hdrCbor w.unprot = some u) (huw : WF u) (hud : depth u + 2 < maxNesting)
    (uh : Hdr) (huf : hdrField u = .ok uh)
    (hp : ∀ x, w.prot = some x → x.length < two64) (hy : ∀ x, w.payload = some x → x.length < two64)
    (pm : CMap) (hpm : hdrFromBytes w.prot = .ok pm) (mode : PMode) :
    ∃ bytes m2 w2, marshal .encrypt0 w = some bytes ∧ unmarshal .encrypt0 mode bytes = .ok m2 ∧ m2.mm = some w2 ∧
      w2.prot = w.prot ∧ w2.unprot = uh ∧ w2.payload = w.payload ∧ m2.prot = some pm := by
  have hwc : wireCbor .encrypt0 w = some (.arr [bytesCbor w.prot, u, bytesCbor w.payload]) := by
    simp [wireCbor, hu]
  have hwfarr : WF (.arr [bytesCbor w.prot, u, bytesCbor w.payload]) := by
    simp only [WF, WFList, maxElems, List.length_cons, List.length_nil]
    exact ⟨by omega, wf_bytesCbor _ hp, huw, wf_bytesCbor _ hy, trivial⟩
  have hdarr : depth (.arr [bytesCbor w.prot, u, bytesCbor w.payload]) < maxNesting := by
    simp only [depth, depthList, depth_bytesCbor]; omega
  obtain ⟨c, hc1, hc2⟩ := decode_marshalled .encrypt0 _ hwfarr hdarr
  have hmar : marshal .encrypt0 w = some (encode (.tag Kind.encrypt0.tagNum (.arr [bytesCbor w.prot, u, bytesCbor w.payload]))) := by
    unfold marshal; rw [hwc]; rfl
  have hrr : ∀ d, recipientsRawOk .encrypt0 d = true := by intro d; simp [recipientsRawOk]
  have hwire : wireOfCbor .encrypt0 c = .ok { prot := w.prot, unprot := uh, payload := w.payload } := by
    rw [wireOfCbor_untag, hc2]
    simp only [wireOfCbor, untag_arr, bytesField_bytesCbor, huf]
  have hnot : ((Kind.encrypt0 == Kind.mac || Kind.encrypt0 == Kind.encrypt) && ([] : List Recip).isEmpty) = false := rfl
  have hyes : (Kind.encrypt0 == Kind.encrypt0 || Kind.encrypt0 == Kind.encrypt) = true := rfl
  refine ⟨_, ⟨.encrypt0, some pm, uh, zeroPayload mode, some { prot := w.prot, unprot := uh, payload := w.payload }⟩, _,
    hmar, ?_, rfl, rfl, rfl, rfl, rfl⟩
  unfold unmarshal
  rw [hc1]
  simp only [hrr, hwire, Bool.not_true, Bool.false_eq_true, if_false, Option.getD_none, hnot, hpm, hyes, if_true]

/-- **COSE_Mac**: protected bytes, payload, tag and every recipient survive encode → decode -/
theorem mac_reencode_fixpoint (w : Wire) (rs : List Recip) (cs : List Cbor) (hr : w.recips = some rs)
    (hst : Cose.Props.C01Sign.All2 RecipStable rs cs) (hne : rs ≠ []) (hn : rs.length ≤ maxElems)
    (u : Cbor) (hu : hdrCbor w.unprot = some u) (huw : WF u) (hud : depth u + 2 < maxNesting)
    (uh : Hdr) (huf : hdrField u = .ok uh)
    (hp : ∀ x, w.prot = some x → x.length < two64) (hy : ∀ x, w.payload = some x → x.length < two64)
    (ha : ∀ x, w.auth = some x → x.length < two64)
    (pm : CMap) (hpm : hdrFromBytes w.prot = .ok pm) :
    ∃ bytes m2 w2, marshal .mac w = some bytes ∧ unmarshal .mac .raw bytes = .ok m2 ∧ m2.mm = some w2 ∧
      w2.prot = w.prot ∧ w2.unprot = uh ∧ w2.payload = w.payload ∧ w2.auth = w.auth ∧ w2.recips = some rs ∧
      m2.prot = some pm := by
  obtain ⟨h1, h2, h3, h4, h5, h6, _⟩ := recips_list rs cs rs (all3_of_stable hst)
  let xs : List Cbor := [bytesCbor w.prot, u, bytesCbor w.payload, bytesCbor w.auth, .arr cs]
  have hwc : wireCbor .mac w = some (.arr xs) := by
    simp [wireCbor, hu, hr, h1, xs]
  have hwfcs : WF (.arr cs) := ⟨by rw [h6]; exact hn, h2⟩
  have hwfarr : WF (.arr xs) := by
    simp only [xs, WF, WFList, maxElems, List.length_cons, List.length_nil]
    exact ⟨by omega, wf_bytesCbor _ hp, huw, wf_bytesCbor _ hy, wf_bytesCbor _ ha, hwfcs, trivial⟩
  have hdarr : depth (.arr xs) < maxNesting := by
    simp only [xs, depth, depthList, depth_bytesCbor, maxNesting] at hud ⊢; omega
  obtain ⟨c, hc1, hc2⟩ := decode_marshalled .mac _ hwfarr hdarr
  have hmar : marshal .mac w = some (encode (.tag Kind.mac.tagNum (.arr xs))) := by
    unfold marshal; rw [hwc]; rfl
  have hrr : recipientsRawOk .mac (applyStrip (encode (.tag Kind.mac.tagNum (.arr xs))) (stripSteps .mac)) = true := by
    unfold recipientsRawOk
    rw [rawArrayElems_marshalled .mac _ hwfarr]
    have hl : (xs.map encode).getLast? = some (encode (.arr cs)) := rfl
    simp only [hl, rawArrayElems_encode_arr cs hwfcs, h5]
    rfl
  have hwire : wireOfCbor .mac c = .ok { prot := w.prot, unprot := uh, payload := w.payload, auth := w.auth, recips := some rs } := by
    rw [wireOfCbor_untag, hc2]
    simp only [xs, wireOfCbor, untag_arr, bytesField_bytesCbor, huf, h4]
  have hrne : rs.isEmpty = false := by
    cases rs with
    | nil => exact absurd rfl hne
    | cons _ _ => rfl
  obtain ⟨pv, hpv⟩ : ∃ pv, payloadFromWire .raw w.payload (zeroPayload .raw) = .ok pv := by
    cases hq : w.payload with
    | none => exact ⟨_, rfl⟩
    | some l => cases l <;> exact ⟨_, rfl⟩
  refine ⟨_, ⟨.mac, some pm, uh, pv,
    some { prot := w.prot, unprot := uh, payload := w.payload, auth := w.auth, recips := some rs }⟩, _, hmar, ?_,
    rfl, rfl, rfl, rfl, rfl, rfl, rfl⟩
  unfold unmarshal
  rw [hc1]
  have hnot2 : (Kind.mac == Kind.encrypt0 || Kind.mac == Kind.encrypt) = false := rfl
  simp only [hrr, hwire, Bool.not_true, Bool.false_eq_true, if_false, Option.getD_some, hrne, Bool.and_false, hpm, hnot2, hpv]

/-- **COSE_Encrypt**: protected bytes, ciphertext and every recipient survive encode → decode -/
theorem encrypt_reencode_fixpoint (w : Wire) (rs : List Recip) (cs : List Cbor) (hr : w.recips = some rs)
    (hst : Cose.Props.C01Sign.All2 RecipStable rs cs) (hne : rs ≠ []) (hn : rs.length ≤ maxElems)
    (u : Cbor) (hu : hdrCbor w.unprot = some u) (huw : WF u) (hud : depth u + 2 < maxNesting)
    (uh : Hdr) (huf : hdrField u = .ok uh)
    (hp : ∀ x, w.prot = some x → x.length < two64) (hy : ∀ x, w.payload = some x → x.length < two64)
    (pm : CMap) (hpm : hdrFromBytes w.prot = .ok pm) (mode : PMode) :
    ∃ bytes m2 w2, marshal .encrypt w = some bytes ∧ unmarshal .encrypt mode bytes = .ok m2 ∧ m2.mm = some w2 ∧
      w2.prot = w.prot ∧ w2.unprot = uh ∧ w2.payload = w.payload ∧ w2.recips = some rs ∧ m2.prot = some pm := by
  obtain ⟨h1, h2, h3, h4, h5, h6, _⟩ := recips_list rs cs rs (all3_of_stable hst)
  let xs : List Cbor := [bytesCbor w.prot, u, bytesCbor w.payload, .arr cs]
  have hwc : wireCbor .encrypt w = some (.arr xs) := by
    simp [wireCbor, hu, hr, h1, xs]
  have hwfcs : WF (.arr cs) := ⟨by rw [h6]; exact hn, h2⟩
  have hwfarr : WF (.arr xs) := by
    simp only [xs, WF, WFList, maxElems, List.length_cons, List.length_nil]
    exact ⟨by omega, wf_bytesCbor _ hp, huw, wf_bytesCbor _ hy, hwfcs, trivial⟩
  have hdarr : depth (.arr xs) < maxNesting := by
    simp only [xs, depth, depthList, depth_bytesCbor, maxNesting] at hud ⊢; omega
  obtain ⟨c, hc1, hc2⟩ := decode_marshalled .encrypt _ hwfarr hdarr
  have hmar : marshal .encrypt w = some (encode (.tag Kind.encrypt.tagNum (.arr xs))) := by
    unfold marshal; rw [hwc]; rfl
  have hrr : recipientsRawOk .encrypt (applyStrip (encode (.tag Kind.encrypt.tagNum (.arr xs))) (stripSteps .encrypt)) = true := by
    unfold recipientsRawOk
    rw [rawArrayElems_marshalled .encrypt _ hwfarr]
    have hl : (xs.map encode).getLast? = some (encode (.arr cs)) := rfl
    simp only [hl, rawArrayElems_encode_arr cs hwfcs, h5]
    rfl
  have hwire : wireOfCbor .encrypt c = .ok { prot := w.prot, unprot := uh, payload := w.payload, recips := some rs } := by
    rw [wireOfCbor_untag, hc2]
    simp only [xs, wireOfCbor, untag_arr, bytesField_bytesCbor, huf, h4]
  have hrne : rs.isEmpty = false := by
    cases rs with
    | nil => exact absurd rfl hne
    | cons _ _ => rfl
  refine ⟨_, ⟨.encrypt, some pm, uh, zeroPayload mode,
    some { prot := w.prot, unprot := uh, payload := w.payload, recips := some rs }⟩, _, hmar, ?_,
    rfl, rfl, rfl, rfl, rfl, rfl⟩
  unfold unmarshal
  rw [hc1]
  have hyes : (Kind.encrypt == Kind.encrypt0 || Kind.encrypt == Kind.encrypt) = true := rfl
  simp only [hrr, hwire, Bool.not_true, Bool.false_eq_true, if_false, Option.getD_some, hrne, Bool.and_false, hpm, hyes, if_true]

/-- `Decrypt` reads the retained wire struct through the protected bytes and the ciphertext, and the message object
    through its kind, its decoded protected map, its unprotected map and (for a typed payload) the payload member it
    decodes into: with those preserved, verdict and plaintext are the same -/
theorem enc_reencoded_same_result (m m2 : Msg) (w w2 : Wire) (hm : m.mm = some w) (hm2 : m2.mm = some w2)
    (hk : m2.kind = m.kind) (hpm : m2.prot = m.prot) (hum : m2.unprot = m.unprot) (hpl : m2.payload = m.payload)
    (h1 : w2.prot = w.prot) (h3 : w2.payload = w.payload)
    (mode : PMode) (e : Encryptor) (ext : Option Bytes) :
    decryptEnc m2 mode e ext = decryptEnc m mode e ext := by
  unfold decryptEnc
  simp only [hm, hm2, hk, hpm, hum, hpl, h3]
  have : tobe m.kind { w2 with payload := none } none ext = tobe m.kind { w with payload := none } none ext := by
    unfold tobe; simp only [h1]
  rw [this]

/-! ### non-vacuity: the "direct" recipient as the decoder returns it is stable -/

theorem direct_recipient_stable (kid : Bytes) (hk : kid.length < two64) :
    RecipStable (directBack kid) (directCbor kid) where
  cbor := by
    simp [directBack, directCbor, recipCbor, hdrBytes, hdrCbor, CMap.toCbor, cmapPairs, toCbor, Label.toCbor, Cbor.ofInt, bytesCbor]
  three := ⟨_, _, _, rfl⟩
  wf := (direct_recipient kid hk).wf
  dep := (direct_recipient kid hk).dep
  field := (direct_recipient kid hk).field

example : Cose.Props.C01Sign.All2 RecipStable [directBack [1], directBack [2, 2]] [directCbor [1], directCbor [2, 2]] :=
  .cons (direct_recipient_stable _ (by simp [two64])) (.cons (direct_recipient_stable _ (by simp [two64])) .nil)

end Cose.Props.C09All
