import Cose.Key.Impl
import Cose.Key.Ec
import Cose.Props.C11
import Cose.Props.C12
import Cose.Go.Roundtrip
import Cose.Msg.Model
/-!
# C17 — keys survive serialisation and always dispatch to their own algorithm

* `key_survives_cbor`: for every key with distinct in-range labels and scalar / list members, in any entry order,
  `UnmarshalCBOR(MarshalCBOR(k))` succeeds and the decoded key has the same kty, alg, (kty, alg, crv) triple —
  hence the same registered implementation for each of the four kinds —, the same key_ops, key id, Base IV and the
  same bytes under every byte-string member (`Cose/Go/Roundtrip.lean`: `cmap_roundtrip`).  JSON and text wrap the
  same CBOR bytes in hex (`ByteStr`), tied by the spec op `dec.keyjson`;
* the round trip changes only the Go *kinds* of integers (`int` ↦ `uint64` / `int64`) and the slice types; every
  accessor the library uses is insensitive to that (`toInt_kind_insensitive`, `getBytes_kind_insensitive`,
  `ops_kind_insensitive`);
* dispatch looks only at the triple (kty, alg, crv) computed from those accessors; the registry — **regenerated
  from the `register.go` files** — is exactly the 24 algorithms in 28 registrations, without duplicates;
* defaults when alg is absent; nil key and unregistered triples fail;
* the implementation obtained realises the key's algorithm (sizes come from the same regenerated tables, C11/C12).
-/
namespace Cose.Props.C17
open Cose.Key Cose.Go Cose.Gen Cose.Gen.Tables

/-- the registrations in the source, all of them -/
def expectedRegistry : List (String × Int × Int × Int × String) :=
  [("Encryptor", 4, 1, 0, "key/aesgcm"), ("Encryptor", 4, 2, 0, "key/aesgcm"), ("Encryptor", 4, 3, 0, "key/aesgcm"),
   ("Encryptor", 4, 10, 0, "key/aesccm"), ("Encryptor", 4, 11, 0, "key/aesccm"), ("Encryptor", 4, 12, 0, "key/aesccm"),
   ("Encryptor", 4, 13, 0, "key/aesccm"), ("Encryptor", 4, 24, 0, "key/chacha20poly1305"),
   ("Encryptor", 4, 30, 0, "key/aesccm"), ("Encryptor", 4, 31, 0, "key/aesccm"), ("Encryptor", 4, 32, 0, "key/aesccm"),
   ("Encryptor", 4, 33, 0, "key/aesccm"),
   ("MACer", 4, 4, 0, "key/hmac"), ("MACer", 4, 5, 0, "key/hmac"), ("MACer", 4, 6, 0, "key/hmac"), ("MACer", 4, 7, 0, "key/hmac"),
   ("MACer", 4, 14, 0, "key/aesmac"), ("MACer", 4, 15, 0, "key/aesmac"), ("MACer", 4, 25, 0, "key/aesmac"), ("MACer", 4, 26, 0, "key/aesmac"),
   ("Signer", 2, -36, 3, "key/ecdsa"), ("Signer", 2, -35, 2, "key/ecdsa"), ("Signer", 1, -8, 6, "key/ed25519"), ("Signer", 2, -7, 1, "key/ecdsa"),
   ("Verifier", 2, -36, 3, "key/ecdsa"), ("Verifier", 2, -35, 2, "key/ecdsa"), ("Verifier", 1, -8, 6, "key/ed25519"), ("Verifier", 2, -7, 1, "key/ecdsa")]

/-- **the registry is exactly the 28 registrations of the 24 algorithms** -/
theorem registry_is_exactly :
    registry.map (fun r => (r.kind, r.kty, r.alg, r.crv, r.pkg)) = expectedRegistry := by decide +kernel

/-- no (kind, kty, alg, crv) is registered twice (a second registration panics at init) -/
theorem registry_no_duplicates : (registry.map (fun r => (r.kind, r.kty, r.alg, r.crv))).Nodup := by decide +kernel

/-- 24 distinct algorithm identifiers -/
theorem registry_24_algorithms : ((registry.map (·.alg)).eraseDups).length = 24 := by decide +kernel

/-- **dispatch depends only on (kty, alg, crv)**: two keys with the same triple reach the same factory -/
theorem dispatch_depends_only_on_triple (kind : String) (k k' : Key) (h : tripleKey k = tripleKey k') :
    registered kind (tripleKey k) = registered kind (tripleKey k') := by rw [h]

/-- a nil key never yields an implementation -/
theorem nil_key_fails (kind : String) :
    newSym kind none = .err "nil-key" ∧ newSigner none = .err "nil-key" ∧ newVerifier none = .err "nil-key" :=
  ⟨rfl, rfl, rfl⟩

/-- an unregistered combination never yields an implementation -/
theorem unregistered_fails (kind : String) (k : Key) (h : registered kind (tripleKey k) = none) :
    newSym kind (some k) = .err "not-registered" := by
  unfold newSym; simp [h]

theorem unregistered_signer_fails (k : Key) (h : registered "Signer" (tripleKey k) = none) :
    newSigner (some k) = .err "not-registered" := by
  unfold newSigner; simp [h]

/-- **documented defaults when the algorithm is absent**: OKP ↦ (EdDSA, Ed25519); EC2 ↦ (ES256, P-256) -/
theorem defaults_when_alg_absent (k : Key) (h0 : alg k = 0) :
    (kty k = Iana.KeyTypeOKP → tripleKey k = (Iana.KeyTypeOKP, Iana.AlgorithmEdDSA, Iana.EllipticCurveEd25519)) ∧
    (kty k = Iana.KeyTypeEC2 → tripleKey k = (Iana.KeyTypeEC2, Iana.AlgorithmES256, Iana.EllipticCurveP_256)) := by
  unfold tripleKey
  simp only [h0, beq_self_eq_true, if_true]
  constructor
  · intro h; simp [h]
  · intro h
    have : (Iana.KeyTypeEC2 == Iana.KeyTypeOKP) = false := by decide
    simp [h, this]

/-- the algorithm of an EC key without alg comes from its curve (table regenerated from `key.CrvAlg`) -/
theorem crvAlg_table :
    sw_key_CrvAlg.irows = [(1, [-7]), (2, [-35]), (3, [-36]), (6, [-8]), (7, [-8]), (8, [-47])] ∧
    sw_key_CrvAlg.idflt = [0] := by decide +kernel

/-! ### accessors are insensitive to the Go kinds a decoder produces -/

/-- integers: `int(v)`, `int64(v)`, `uint64(v)` … read the same -/
theorem toInt_kind_insensitive (k k' : IntKind) (v : Int) (hk : k.signed = false → 0 ≤ v) (hk' : k'.signed = false → 0 ≤ v) :
    toInt (.int k v) = toInt (.int k' v) := by
  have key : ∀ (s : Bool), (s = false → 0 ≤ v) →
      (if s = true then (if -2147483648 ≤ v ∧ v ≤ 2147483647 then Res.ok v else Res.err "range")
       else (if v ≤ 2147483647 then Res.ok v else (Res.err "range" : Res Int))) =
      (if -2147483648 ≤ v ∧ v ≤ 2147483647 then Res.ok v else Res.err "range") := by
    intro s hs
    cases s with
    | true => simp
    | false =>
      have := hs rfl
      by_cases h : v ≤ 2147483647
      · have h2 : -2147483648 ≤ v ∧ v ≤ 2147483647 := ⟨by omega, h⟩
        simp [h, h2]
      · have h2 : ¬ (-2147483648 ≤ v ∧ v ≤ 2147483647) := by omega
        simp [h, h2]
  unfold toInt minInt32 maxInt32
  simp only []
  rw [key k.signed hk, key k'.signed hk']

/-- byte strings: `[]byte` and `key.ByteStr` read the same -/
theorem getBytes_kind_insensitive (b : Bytes) : getBytes (some (.bytes b)) = getBytes (some (.bstr b)) := rfl

/-- key_ops: a decoded `[]any` of `uint64` reads as the same list as `key.Ops` / `[]int` (members in range) -/
theorem ops_kind_insensitive (xs : List Int) (h : ∀ x ∈ xs, 0 ≤ x ∧ x ≤ 2147483647) :
    toIntList (xs.map (fun n => GoVal.int .u64 n)) = some xs := by
  induction xs with
  | nil => rfl
  | cons x r ih =>
    have hx := h x List.mem_cons_self
    have ih' := ih (fun y hy => h y (List.mem_cons_of_mem _ hy))
    simp only [List.map_cons, toIntList, toInt, IntKind.signed, Bool.false_eq_true, if_false, maxInt32, hx.2, if_true, ih']

/-- **the implementation obtained realises the key's algorithm**: for a checked HMAC key the tag has the length the
    registry table gives for *that key's* algorithm (C11), and likewise the AEAD nonce size (C12) -/
theorem macer_realises_alg (m : SymImpl) (hf : m.fam = .hmac) (tag data : Bytes) (cur : Option (List Int))
    (h : m.macCreate cur data = .ok tag)
    (hsha : (∀ x, (Cose.Crypto.sha256 x).length = 32) ∧ (∀ x, (Cose.Crypto.sha384 x).length = 48) ∧ (∀ x, (Cose.Crypto.sha512 x).length = 64))
    (halg : alg m.key ∈ Cose.Props.C11.rfcHmac.map (·.1)) : tag.length = hmacTagSize (alg m.key) := by
  unfold SymImpl.macCreate at h
  split at h
  · cases h
  · simp only [hf] at h
    cases hc : hmacCreate (alg m.key) (symKeyBytes m.key) data with
    | none => simp [hc] at h
    | some t =>
      simp only [hc, Res.ok.injEq] at h
      rw [← h]
      exact Cose.Props.C11.hmac_tag_length _ _ _ _ hc hsha halg

theorem encryptor_nonce_sizes (m : SymImpl) :
    (m.fam = .aesgcm → m.nonceSize = 12) ∧ (m.fam = .chacha → m.nonceSize = 12) ∧
    (m.fam = .aesccm → m.nonceSize = ccmNonceSize (alg m.key)) := by
  have g : gcmNonceSize = 12 := by decide +kernel
  have c : chachaNonceSize = 12 := by decide +kernel
  unfold SymImpl.nonceSize
  refine ⟨fun h => by simp [h, g], fun h => by simp [h, c], fun h => by simp [h]⟩

/-! ## the CBOR round trip of a key -/

theorem lookup_flat {k : Key} (hok : ∀ kv ∈ k, EntryOk kv) (hnd : (k.map (·.1)).Nodup) {l : Label} {v : GoVal}
    (h : k.lookup l = some v) : Flat v :=
  (hok (l, v) ((lookup_eq_some_iff k l v hnd).mp h)).2

theorem toIntList_normS : ∀ (xs : List GoVal), (∀ x ∈ xs, Scalar x) → toIntList (xs.map normS) = toIntList xs
  | [], _ => rfl
  | x :: xs, h => by
    have ih := toIntList_normS xs (fun y hy => h y (List.mem_cons_of_mem _ hy))
    have hx : toInt (normS x) = toInt x := by
      cases h x List.mem_cons_self with
      | int k v _ hk => exact toInt_normInt k v hk
      | bytes b _ => rfl
      | bnil => rfl
      | bstr b _ => rfl
      | str s _ => rfl
      | bool b => rfl
      | nil => rfl
    simp only [List.map_cons, toIntList, hx, ih]

theorem toIntList_normInt : ∀ (xs : List Int), (∀ x ∈ xs, minInt32 ≤ x ∧ x ≤ maxInt32) →
    toIntList (xs.map normInt) = some xs
  | [], _ => rfl
  | x :: xs, h => by
    have ih := toIntList_normInt xs (fun y hy => h y (List.mem_cons_of_mem _ hy))
    have hx := h x List.mem_cons_self
    have : toInt (normInt x) = .ok x := by
      rw [toInt_normInt .int x (fun hh => by cases hh)]
      simp [toInt, IntKind.signed, hx.1, hx.2]
    simp only [List.map_cons, toIntList, this, ih]

/-- `Ops()` as a function of the member found under label 4 -/
def opsOf : Option GoVal → Option (List Int)
  | some (.ops xs) => some xs
  | some (.ints xs) => some xs
  | some (.list xs) => toIntList xs
  | _ => none

theorem ops_eq_opsOf (k : Key) : ops k = opsOf (k.lookup (lbl Iana.KeyParameterKeyOps)) := by
  unfold ops
  generalize k.lookup (lbl Iana.KeyParameterKeyOps) = o
  cases o with
  | none => rfl
  | some v => cases v <;> rfl

theorem opsOf_normInt (v : Int) : opsOf (some (normInt v)) = none := by unfold normInt; split <;> rfl

/-- key_ops lists given as `key.Ops` / `[]int` hold operation numbers (any int32 would do) -/
def OpsInRange (k : Key) : Prop :=
  ∀ xs, (k.lookup (lbl Iana.KeyParameterKeyOps) = some (.ops xs) ∨ k.lookup (lbl Iana.KeyParameterKeyOps) = some (.ints xs)) →
    ∀ x ∈ xs, minInt32 ≤ x ∧ x ≤ maxInt32

theorem opsOf_normV {v : GoVal} (h : Flat v)
    (hr : ∀ xs, (v = .ops xs ∨ v = .ints xs) → ∀ x ∈ xs, minInt32 ≤ x ∧ x ≤ maxInt32) :
    opsOf (some (normV v)) = opsOf (some v) := by
  cases h with
  | scalar v hs =>
    cases hs with
    | int k v _ _ => rw [normV_int, opsOf_normInt]; rfl
    | bytes b _ => rfl
    | bnil => rfl
    | bstr b _ => rfl
    | str s _ => rfl
    | bool b => rfl
    | nil => rfl
  | ints xs hx _ => exact toIntList_normInt xs (hr xs (Or.inr rfl))
  | ops xs hx _ => exact toIntList_normInt xs (hr xs (Or.inl rfl))
  | list xs hx _ => exact toIntList_normS xs hx

/-- **a key survives its CBOR form**: decoding the encoding of a key succeeds and the result is interchangeable with
    the original for everything the library does with a key — same kty, alg, dispatch triple (hence the same
    registered Signer / Verifier / MACer / Encryptor), same key_ops, and the same octets under every byte-string
    parameter (k, d, x, y, kid, Base IV, …). -/
theorem key_survives_cbor (k : Key) (hok : ∀ kv ∈ k, EntryOk kv) (hnd : (k.map (·.1)).Nodup)
    (hlen : k.length ≤ Cose.Cbor.maxElems) (hops : OpsInRange k) :
    ∃ b k', encodeCMap k = some b ∧ decodeCMap b = .ok k' ∧ k'.length = k.length ∧
      (∀ l, getInt (k'.lookup l) = getInt (k.lookup l)) ∧
      (∀ l, k.lookup l ≠ some .bnil → getBytes (k'.lookup l) = getBytes (k.lookup l)) ∧
      kty k' = kty k ∧ alg k' = alg k ∧ tripleKey k' = tripleKey k ∧
      (∀ kind, registered kind (tripleKey k') = registered kind (tripleKey k)) ∧
      ops k' = ops k := by
  obtain ⟨b, k', henc, hdec, hl, hlook⟩ := cmap_roundtrip k hok hnd hlen
  have hint : ∀ l, getInt (k'.lookup l) = getInt (k.lookup l) := by
    intro l
    rw [hlook l]
    cases h : k.lookup l with
    | none => rfl
    | some v => exact getInt_normV (lookup_flat hok hnd h)
  have hbytes : ∀ l, k.lookup l ≠ some .bnil → getBytes (k'.lookup l) = getBytes (k.lookup l) := by
    intro l hn
    rw [hlook l]
    cases h : k.lookup l with
    | none => rfl
    | some v => exact getBytes_normV (lookup_flat hok hnd h) (fun e => hn (by rw [h, e]))
  have hkty : kty k' = kty k := by unfold kty; rw [hint]
  have halg : alg k' = alg k := by unfold alg; rw [hint, hint]
  have htriple : tripleKey k' = tripleKey k := by unfold tripleKey; rw [hkty, halg, hint]
  refine ⟨b, k', henc, hdec, hl, hint, hbytes, hkty, halg, htriple, fun kind => by rw [htriple], ?_⟩
  rw [ops_eq_opsOf, ops_eq_opsOf, hlook]
  cases h : k.lookup (lbl Iana.KeyParameterKeyOps) with
  | none => rfl
  | some v =>
    refine opsOf_normV (lookup_flat hok hnd h) ?_
    intro xs hv x hx
    rcases hv with rfl | rfl
    · exact hops xs (Or.inl h) x hx
    · exact hops xs (Or.inr h) x hx

/-- a sample key: HMAC 256/256 with kid and key_ops -/
def sampleKey : Key :=
  [(lbl 1, .int .int 4), (lbl 3, .int .alg 5), (lbl 2, .bytes [1, 2]), (lbl 4, .ops [9, 10]), (lbl (-1), .bytes (List.replicate 32 7))]

-- non-vacuity: the sample key meets every hypothesis of `key_survives_cbor`
example : (∀ kv ∈ sampleKey, EntryOk kv) ∧ (sampleKey.map (·.1)).Nodup ∧ sampleKey.length ≤ Cose.Cbor.maxElems ∧
    OpsInRange sampleKey ∧ kty sampleKey = 4 := by
  refine ⟨?_, by decide, by decide, ?_, by decide⟩
  · intro kv h
    simp only [sampleKey, List.mem_cons, List.mem_nil_iff, or_false] at h
    rcases h with rfl | rfl | rfl | rfl | rfl
    · exact ⟨by decide, .scalar _ (.int _ _ (by decide) (by intro h; cases h))⟩
    · exact ⟨by decide, .scalar _ (.int _ _ (by decide) (by intro h; cases h))⟩
    · exact ⟨by decide, .scalar _ (.bytes _ (by decide))⟩
    · exact ⟨by decide, .ops _ (by intro x hx; simp at hx; rcases hx with rfl | rfl <;> decide) (by decide)⟩
    · exact ⟨by decide, .scalar _ (.bytes _ (by decide))⟩
  · intro xs h x hx
    have e : sampleKey.lookup (lbl Iana.KeyParameterKeyOps) = some (.ops [9, 10]) := by rfl
    rw [e] at h
    rcases h with h | h
    · cases h; simp at hx; rcases hx with rfl | rfl <;> decide
    · cases h

/-- **look-up by key id returns an entry whose key id is exactly equal, or none** (`KeySet.Lookup`) -/
def keySetLookup (ks : List Key) (kidv : Option Bytes) : Option Key :=
  ks.find? (fun k => (kid k).getD [] == kidv.getD [])

theorem lookup_exact (ks : List Key) (kidv : Option Bytes) (k : Key) (h : keySetLookup ks kidv = some k) :
    (kid k).getD [] = kidv.getD [] ∧ k ∈ ks := by
  unfold keySetLookup at h
  exact ⟨by simpa using List.find?_some h, List.mem_of_find?_eq_some h⟩

/-- … and it is the *first* such entry; none only if no entry has that key id -/
theorem lookup_first (ks : List Key) (kidv : Option Bytes) :
    keySetLookup ks kidv = none ↔ ∀ k ∈ ks, (kid k).getD [] ≠ kidv.getD [] := by
  unfold keySetLookup
  rw [List.find?_eq_none]
  constructor
  · intro h k hk he; exact h k hk (by simpa using he)
  · intro h k hk; simpa using h k hk

/-- the same for the verifier list a COSE_Sign is checked against (`Verifiers.Lookup`): exact match of the key id or
    nothing — never "the only verifier", never a case-folded or prefix match -/
theorem verifier_lookup_exact (vs : List Cose.Msg.Verifier) (kidv : Option Bytes) (v : Cose.Msg.Verifier)
    (h : Cose.Msg.lookupVerifier vs kidv = some v) : v.key.kid.getD [] = kidv.getD [] ∧ v ∈ vs := by
  unfold Cose.Msg.lookupVerifier at h
  exact ⟨by simpa using List.find?_some h, List.mem_of_find?_eq_some h⟩

theorem verifier_lookup_none (vs : List Cose.Msg.Verifier) (kidv : Option Bytes) :
    Cose.Msg.lookupVerifier vs kidv = none ↔ ∀ v ∈ vs, v.key.kid.getD [] ≠ kidv.getD [] := by
  unfold Cose.Msg.lookupVerifier
  rw [List.find?_eq_none]
  constructor
  · intro h v hv he; exact h v hv (by simpa using he)
  · intro h v hv; simpa using h v hv

/-- no registration has key type 0 — so a key whose `kty` member is missing, zero, null or not an integer (all read as 0)
    reaches no implementation, whatever its curve and algorithm say: the key type is never inferred -/
theorem registry_has_no_kty_zero : Tables.registry.all (fun r => r.kty != 0) = true := by decide +kernel

theorem no_kty_no_implementation (kind : String) (k : Key) (h : kty k = 0) : registered kind (tripleKey k) = none := by
  have hall := registry_has_no_kty_zero
  have ht : (tripleKey k).1 = 0 := by
    unfold tripleKey
    simp only [h]
    split
    · split
      · rename_i hh; simp at hh; exact absurd hh (by decide)
      · split
        · rename_i hh; simp at hh; exact absurd hh (by decide)
        · rfl
    · rfl
  unfold registered
  have : Tables.registry.find? (fun r => r.kind == kind && r.kty == (tripleKey k).1 && r.alg == (tripleKey k).2.1 && r.crv == (tripleKey k).2.2) = none := by
    apply List.find?_eq_none.mpr
    intro r hr
    have hk : (r.kty != 0) = true := List.all_eq_true.mp hall r hr
    rw [ht]
    have : (r.kty == 0) = false := by simpa using hk
    simp [this]
  rw [this]

end Cose.Props.C17
