import Cose.Key.Impl
import Cose.Key.Ec
import Cose.Props.C11
import Cose.Props.C12
/-!
# C17 — keys survive serialisation and always dispatch to their own algorithm

* a CBOR (hence JSON / text, which wrap the same CBOR bytes in hex) round trip changes only the Go *kinds* of
  integers (`int` ↦ `uint64` / `int64`) and the slice types; every accessor the library uses is insensitive
  to that (`toInt_kind_insensitive`, `getBytes_kind_insensitive`, `ops_kind_insensitive`);
* dispatch looks only at the triple (kty, alg, crv) computed from those accessors; the registry — **regenerated
  from the `register.go` files** — is exactly the 24 algorithms in 28 registrations, without duplicates;
* defaults when alg is absent; nil key and unregistered triples fail;
* the implementation obtained realises the key's algorithm (sizes come from the same regenerated tables, C11/C12).
-/
namespace Cose.Props.C17
open Cose.Key Cose.Go Cose.Gen Cose.Gen.Tables

/-- the registrations in the source, all of them -/
def expectedRegistry : List (String × Int × Int × Int × String) :=
  [("Encryptor", 4, 1, 0, "key/aesgcm"), ("Encryptor", 4, 2, 0, "key/aesgcm"), ("Encryptor", 4, 3, 0, "key/aesgcm"),
   ("Encryptor", 4, 10, 0, "key/aesccm"), ("Encryptor", 4, 11, 0, "key/aesccm"), ("Encryptor", 4, 12, 0, "key/aesccm"),
   ("Encryptor", 4, 13, 0, "key/aesccm"), ("Encryptor", 4, 24, 0, "key/chacha20poly1305"),
   ("Encryptor", 4, 30, 0, "key/aesccm"), ("Encryptor", 4, 31, 0, "key/aesccm"), ("Encryptor", 4, 32, 0, "key/aesccm"),
   ("Encryptor", 4, 33, 0, "key/aesccm"),
   ("MACer", 4, 4, 0, "key/hmac"), ("MACer", 4, 5, 0, "key/hmac"), ("MACer", 4, 6, 0, "key/hmac"), ("MACer", 4, 7, 0, "key/hmac"),
   ("MACer", 4, 14, 0, "key/aesmac"), ("MACer", 4, 15, 0, "key/aesmac"), ("MACer", 4, 25, 0, "key/aesmac"), ("MACer", 4, 26, 0, "key/aesmac"),
   ("Signer", 2, -36, 3, "key/ecdsa"), ("Signer", 2, -35, 2, "key/ecdsa"), ("Signer", 1, -8, 6, "key/ed25519"), ("Signer", 2, -7, 1, "key/ecdsa"),
   ("Verifier", 2, -36, 3, "key/ecdsa"), ("Verifier", 2, -35, 2, "key/ecdsa"), ("Verifier", 1, -8, 6, "key/ed25519"), ("Verifier", 2, -7, 1, "key/ecdsa")]

/-- **the registry is exactly the 28 registrations of the 24 algorithms** -/
theorem registry_is_exactly :
    registry.map (fun r => (r.kind, r.kty, r.alg, r.crv, r.pkg)) = expectedRegistry := by decide +kernel

/-- no (kind, kty, alg, crv) is registered twice (a second registration panics at init) -/
theorem registry_no_duplicates : (registry.map (fun r => (r.kind, r.kty, r.alg, r.crv))).Nodup := by decide +kernel

/-- 24 distinct algorithm identifiers -/
theorem registry_24_algorithms : ((registry.map (·.alg)).eraseDups).length = 24 := by decide +kernel

/-- **dispatch depends only on (kty, alg, crv)**: two keys with the same triple reach the same factory -/
theorem dispatch_depends_only_on_triple (kind : String) (k k' : Key) (h : tripleKey k = tripleKey k') :
    registered kind (tripleKey k) = registered kind (tripleKey k') := by rw [h]

/-- a nil key never yields an implementation -/
theorem nil_key_fails (kind : String) :
    newSym kind none = .err "nil-key" ∧ newSigner none = .err "nil-key" ∧ newVerifier none = .err "nil-key" :=
  ⟨rfl, rfl, rfl⟩

/-- an unregistered combination never yields an implementation -/
theorem unregistered_fails (kind : String) (k : Key) (h : registered kind (tripleKey k) = none) :
    newSym kind (some k) = .err "not-registered" := by
  unfold newSym; simp [h]

theorem unregistered_signer_fails (k : Key) (h : registered "Signer" (tripleKey k) = none) :
    newSigner (some k) = .err "not-registered" := by
  unfold newSigner; simp [h]

/-- **documented defaults when the algorithm is absent**: OKP ↦ (EdDSA, Ed25519); EC2 ↦ (ES256, P-256) -/
theorem defaults_when_alg_absent (k : Key) (h0 : alg k = 0) :
    (kty k = Iana.KeyTypeOKP → tripleKey k = (Iana.KeyTypeOKP, Iana.AlgorithmEdDSA, Iana.EllipticCurveEd25519)) ∧
    (kty k = Iana.KeyTypeEC2 → tripleKey k = (Iana.KeyTypeEC2, Iana.AlgorithmES256, Iana.EllipticCurveP_256)) := by
  unfold tripleKey
  simp only [h0, beq_self_eq_true, if_true]
  constructor
  · intro h; simp [h]
  · intro h
    have : (Iana.KeyTypeEC2 == Iana.KeyTypeOKP) = false := by decide
    simp [h, this]

/-- the algorithm of an EC key without alg comes from its curve (table regenerated from `key.CrvAlg`) -/
theorem crvAlg_table :
    sw_key_CrvAlg.irows = [(1, [-7]), (2, [-35]), (3, [-36]), (6, [-8]), (7, [-8]), (8, [-47])] ∧
    sw_key_CrvAlg.idflt = [0] := by decide +kernel

/-! ### accessors are insensitive to the Go kinds a decoder produces -/

/-- integers: `int(v)`, `int64(v)`, `uint64(v)` … read the same -/
theorem toInt_kind_insensitive (k k' : IntKind) (v : Int) (hk : k.signed = false → 0 ≤ v) (hk' : k'.signed = false → 0 ≤ v) :
    toInt (.int k v) = toInt (.int k' v) := by
  have key : ∀ (s : Bool), (s = false → 0 ≤ v) →
      (if s = true then (if -2147483648 ≤ v ∧ v ≤ 2147483647 then Res.ok v else Res.err "range")
       else (if v ≤ 2147483647 then Res.ok v else (Res.err "range" : Res Int))) =
      (if -2147483648 ≤ v ∧ v ≤ 2147483647 then Res.ok v else Res.err "range") := by
    intro s hs
    cases s with
    | true => simp
    | false =>
      have := hs rfl
      by_cases h : v ≤ 2147483647
      · have h2 : -2147483648 ≤ v ∧ v ≤ 2147483647 := ⟨by omega, h⟩
        simp [h, h2]
      · have h2 : ¬ (-2147483648 ≤ v ∧ v ≤ 2147483647) := by omega
        simp [h, h2]
  unfold toInt minInt32 maxInt32
  simp only []
  rw [key k.signed hk, key k'.signed hk']

/-- byte strings: `[]byte` and `key.ByteStr` read the same -/
theorem getBytes_kind_insensitive (b : Bytes) : getBytes (some (.bytes b)) = getBytes (some (.bstr b)) := rfl

/-- key_ops: a decoded `[]any` of `uint64` reads as the same list as `key.Ops` / `[]int` (members in range) -/
theorem ops_kind_insensitive (xs : List Int) (h : ∀ x ∈ xs, 0 ≤ x ∧ x ≤ 2147483647) :
    toIntList (xs.map (fun n => GoVal.int .u64 n)) = some xs := by
  induction xs with
  | nil => rfl
  | cons x r ih =>
    have hx := h x List.mem_cons_self
    have ih' := ih (fun y hy => h y (List.mem_cons_of_mem _ hy))
    simp only [List.map_cons, toIntList, toInt, IntKind.signed, Bool.false_eq_true, if_false, maxInt32, hx.2, if_true, ih']

/-- **the implementation obtained realises the key's algorithm**: for a checked HMAC key the tag has the length the
    registry table gives for *that key's* algorithm (C11), and likewise the AEAD nonce size (C12) -/
theorem macer_realises_alg (m : SymImpl) (hf : m.fam = .hmac) (tag data : Bytes) (cur : Option (List Int))
    (h : m.macCreate cur data = .ok tag)
    (hsha : (∀ x, (Cose.Crypto.sha256 x).length = 32) ∧ (∀ x, (Cose.Crypto.sha384 x).length = 48) ∧ (∀ x, (Cose.Crypto.sha512 x).length = 64))
    (halg : alg m.key ∈ Cose.Props.C11.rfcHmac.map (·.1)) : tag.length = hmacTagSize (alg m.key) := by
  unfold SymImpl.macCreate at h
  split at h
  · cases h
  · simp only [hf] at h
    cases hc : hmacCreate (alg m.key) (symKeyBytes m.key) data with
    | none => simp [hc] at h
    | some t =>
      simp only [hc, Res.ok.injEq] at h
      rw [← h]
      exact Cose.Props.C11.hmac_tag_length _ _ _ _ hc hsha halg

theorem encryptor_nonce_sizes (m : SymImpl) :
    (m.fam = .aesgcm → m.nonceSize = 12) ∧ (m.fam = .chacha → m.nonceSize = 12) ∧
    (m.fam = .aesccm → m.nonceSize = ccmNonceSize (alg m.key)) := by
  have g : gcmNonceSize = 12 := by decide +kernel
  have c : chachaNonceSize = 12 := by decide +kernel
  unfold SymImpl.nonceSize
  refine ⟨fun h => by simp [h, g], fun h => by simp [h, c], fun h => by simp [h]⟩

/-- **look-up by key id returns an entry whose key id is exactly equal, or none** (`KeySet.Lookup`) -/
def keySetLookup (ks : List Key) (kidv : Option Bytes) : Option Key :=
  ks.find? (fun k => (kid k).getD [] == kidv.getD [])

theorem lookup_exact (ks : List Key) (kidv : Option Bytes) (k : Key) (h : keySetLookup ks kidv = some k) :
    (kid k).getD [] = kidv.getD [] ∧ k ∈ ks := by
  unfold keySetLookup at h
  exact ⟨by simpa using List.find?_some h, List.mem_of_find?_eq_some h⟩

end Cose.Props.C17
