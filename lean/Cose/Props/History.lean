import Cose.Gen.Footprints
/-!
# History freedom of the message objects (C02, C03, C04; regenerated facts)

The models of verification and decryption are functions of the decoded message, the key and the external data; a Go
message object is mutable.  The facts below are re-extracted from the source on every run (`Gen/Footprints.lean`)
and are what makes the functional model faithful over *histories* of calls on one object: `UnmarshalCBOR` overwrites
every field a later `Verify` / `Decrypt` reads, and `Verify` / `Decrypt` recompute the to-be-signed / MACed /
additional-data bytes from the received bytes on every call — the cached copy (`toSign` / `toMac` / `toEnc`) is only
ever assigned and handed to the primitive, never read back.  The correspondence ops `msg.reuse` and `seq` are the
search that supports these obligations.
-/
namespace Cose.Props.History
open Cose.Gen

def fieldUses (meth field : String) : List String :=
  (Footprints.footprints.filter (fun m => m.1 == meth)).flatMap (fun m => (m.2.2.filter (fun u => u.1 == field)).map (·.2))

/-- `UnmarshalCBOR` of the four authenticated kinds assigns Protected, Unprotected, Payload and the retained wire
    struct (and the recipients of a COSE_Mac): nothing of a previously decoded message survives -/
theorem unmarshal_overwrites_everything_auth :
    ["cose.Sign1Message", "cose.SignMessage", "cose.Mac0Message", "cose.MacMessage"].all (fun t =>
      ["recv.Protected", "recv.Unprotected", "recv.Payload", "recv.mm"].all (fun f =>
        (fieldUses (t ++ ".UnmarshalCBOR") f).contains "assigned")) = true
    ∧ (fieldUses "cose.MacMessage.UnmarshalCBOR" "recv.recipients").contains "assigned" = true := by decide +kernel

/-- `Verify` never reads a cached to-be-signed / to-be-MACed value: it assigns it and passes it to the primitive -/
theorem verify_recomputes_tobe :
    fieldUses "cose.Sign1Message.Verify" "recv.toSign" = ["arg:key.Verifier.Verify#0", "assigned"]
    ∧ fieldUses "cose.Mac0Message.Verify" "recv.toMac" = ["arg:key.MACer.MACVerify#0", "assigned"]
    ∧ fieldUses "cose.MacMessage.Verify" "recv.toMac" = ["arg:key.MACer.MACVerify#0", "assigned"]
    ∧ fieldUses "cose.SignMessage.Verify" "recv.toSign" = [] := by decide +kernel

/-- `Verify` writes nothing else: the decoded fields are read-only for it -/
theorem verify_writes_only_the_cache :
    ["cose.Sign1Message.Verify", "cose.SignMessage.Verify", "cose.Mac0Message.Verify", "cose.MacMessage.Verify"].all (fun m =>
      ["recv.Protected", "recv.Unprotected", "recv.Payload", "recv.mm", "recv.recipients"].all (fun f =>
        !(fieldUses m f).contains "assigned" && !(fieldUses m f).contains "addr")) = true := by decide +kernel


/-- `UnmarshalCBOR` of the encrypted kinds overwrites the headers, the retained wire struct and the recipients -/
theorem unmarshal_overwrites_everything_enc :
    ["cose.Encrypt0Message", "cose.EncryptMessage"].all (fun t =>
      ["recv.Protected", "recv.Unprotected", "recv.mm"].all (fun f =>
        (fieldUses (t ++ ".UnmarshalCBOR") f).contains "assigned")) = true
    ∧ (fieldUses "cose.EncryptMessage.UnmarshalCBOR" "recv.recipients").contains "assigned" = true := by decide +kernel

/-- `Decrypt` recomputes the Enc_structure on every call: the cached `toEnc` is assigned and handed to the AEAD as
    additional data, never read back (a "build it only once" shortcut adds a `read` here) -/
theorem decrypt_recomputes_aad :
    fieldUses "cose.Encrypt0Message.Decrypt" "recv.toEnc" = ["arg:key.Encryptor.Decrypt#2", "assigned"]
    ∧ fieldUses "cose.EncryptMessage.Decrypt" "recv.toEnc" = ["arg:key.Encryptor.Decrypt#2", "assigned"] := by decide +kernel

/-- apart from the payload (the plaintext, after the AEAD accepted) and that cache, `Decrypt` writes nothing -/
theorem decrypt_writes_only_payload_and_cache :
    ["cose.Encrypt0Message.Decrypt", "cose.EncryptMessage.Decrypt"].all (fun m =>
      ["recv.Protected", "recv.Unprotected", "recv.mm", "recv.recipients"].all (fun f =>
        !(fieldUses m f).contains "assigned" && !(fieldUses m f).contains "addr")) = true := by decide +kernel


end Cose.Props.History
