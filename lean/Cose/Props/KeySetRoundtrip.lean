import Cose.Key.KeySet
import Cose.Go.Roundtrip
import Cose.Props.C01Sign
/-!
# C09 / C17 — a key set survives CBOR, key by key, any number of keys

`keyset_roundtrip`: encode a list of keys (each a label map with pairwise distinct in-range labels and scalar / list
values, entries in whatever order Go presents them), decode the bytes: as many keys come back, in the same order, and
each answers every look-up like the key it came from (values in their decoded form).  With `key_survives_cbor`
(`Props/C17.lean`) each of them then denotes the same key: same kty, alg, registered implementation, key_ops, octets.
-/
namespace Cose.Props.KeySetRoundtrip
open Cose.Msg Cose.Go Cose.Cbor Cose.Key Cose.Props.C01Sign

/-- what is asked of each key -/
def KeyOk (k : CMap) : Prop := (∀ kv ∈ k, EntryOk kv) ∧ (k.map (·.1)).Nodup ∧ k.length ≤ maxElems

/-- a key and what it decodes to -/
def Back (k k' : CMap) : Prop := k'.length = k.length ∧ ∀ l, k'.lookup l = (k.lookup l).map normV

theorem keys_list : ∀ (ks : List CMap), (∀ k ∈ ks, KeyOk k) →
    ∃ cs cs' ks', ks.mapM CMap.toCbor = some cs ∧ encodeList cs = encodeList cs' ∧ cs.length = ks.length ∧ cs'.length = ks.length ∧
      WFList cs' ∧ depthList cs' ≤ 2 ∧ decSeq keyItem cs' = .ok ks' ∧ All2 Back ks ks'
  | [], _ => ⟨[], [], [], rfl, rfl, rfl, rfl, trivial, by simp [depthList], rfl, .nil⟩
  | k :: rest, h => by
    obtain ⟨cs, cs', ks', h1, h2, h3a, h3, h4, h5, h6, h7⟩ := keys_list rest (fun k' hk' => h k' (List.mem_cons_of_mem _ hk'))
    obtain ⟨hok, hnd, hlen⟩ := h k List.mem_cons_self
    have hp := sortM_perm k
    have hok' : ∀ kv ∈ sortM k, EntryOk kv := fun kv hh => hok kv (hp.subset hh)
    obtain ⟨hwf, hdepth⟩ := sorted_entries_wf k hok hnd hlen
    obtain ⟨_, _, _, hof, hcm⟩ := entries_wf (sortM k) hok'
    have hnd_enc : ((encodePairs (k.map entryCbor)).map (·.1)).Nodup := by
      rw [map_entryCbor_keys]; exact encoded_labels_nodup k (fun kv hh => (hok kv hh).1) hnd
    have henc : encode (.map (k.map entryCbor)) = encode (.map ((sortM k).map entryCbor)) :=
      encode_map_perm (hp.symm.map entryCbor) hnd_enc
    have htc : CMap.toCbor k = some (.map (k.map entryCbor)) := by
      simp only [CMap.toCbor, cmapPairs_eq k hok, Option.map_some]
    have hitem : keyItem (.map ((sortM k).map entryCbor)) = .ok ((sortM k).map entryNorm) := by
      simp only [keyItem, hdrField, untag, hof, hcm]
    refine ⟨.map (k.map entryCbor) :: cs, .map ((sortM k).map entryCbor) :: cs', (sortM k).map entryNorm :: ks',
      ?_, ?_, by simp [h3a], by simp [h3], ⟨hwf, h4⟩, ?_, ?_, .cons ⟨?_, ?_⟩ h7⟩
    · simp only [List.mapM_cons, htc, h1]; rfl
    · simp only [encodeList, henc, h2]
    · simp only [depthList]; omega
    · simp only [decSeq, hitem, h6]
    · rw [List.length_map, hp.length_eq]
    · intro l; rw [lookup_entryNorm, lookup_perm hp hnd]

/-- **`KeySet` CBOR round trip**, any number of keys -/
theorem keyset_roundtrip (ks : List CMap) (hk : ∀ k ∈ ks, KeyOk k) (hn : ks.length ≤ maxElems) :
    ∃ b ks', keysetEncode ks = some b ∧ keysetDecode b = .ok (some ks') ∧ All2 Back ks ks' := by
  obtain ⟨cs, cs', ks', h1, h2, h3a, h3, h4, h5, h6, h7⟩ := keys_list ks hk
  have hlen : cs.length = cs'.length := by omega
  refine ⟨encode (.arr cs), ks', by simp [keysetEncode, h1], ?_, h7⟩
  have henc : encode (.arr cs) = encode (.arr cs') := by simp only [encode, hlen, h2]
  have hwf : WF (.arr cs') := ⟨by rw [h3]; exact hn, h4⟩
  have hd : depth (.arr cs') ≤ maxNesting := by simp only [depth, maxNesting]; omega
  unfold keysetDecode
  rw [henc, decodeAll_encode _ hwf hd]
  simp only [Option.map_some, untag, h6]

/-- in particular the number of keys and their order are kept -/
theorem keyset_roundtrip_length (ks ks' : List CMap) (h : All2 Back ks ks') : ks'.length = ks.length :=
  All2.length_eq h

end Cose.Props.KeySetRoundtrip
