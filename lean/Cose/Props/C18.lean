import Cose.Props.C18Lemmas
import Cose.Gen.Footprints
import Cose.Gen.Layouts
/-!
# C18 — CWT validation decides exactly per RFC 8392 for every timestamp and option

Model: `Cose.Cwt.validate` / `validateMap` mirror `/repo/cwt/validator.go` with Go's `time.Time`
arithmetic (int64 wrap in `time.Unix`, saturating `Add`).  Spec: `Cose.Spec.Rfc8392.accept`, plain
integers.  The `toTime` guard and the skew cap come from the generated tables.

Hypotheses (each with a non-vacuity example at the end):
* `NowInRange now` — FixedNow within ±2^62 s of year 1 (±146 billion years);
* `now.WF` — nanoseconds normalised (every `time.Time` is);
* `SkewInRange` — the skew is an int64 other than MinInt64 (whose negation wraps) and passed `NewValidator`;
* claims are uint64.
-/
namespace Cose.Props.C18
open Cose.Cwt Cose.Cwt.GoTime Cose.Spec.Rfc8392

/-- **kernel-level obligation on the generated guard**: whatever passes `toTime`'s guard does not wrap -/
theorem totime_guard_prevents_wrap (u : Nat) (hu : u < 18446744073709551616) (hg : toTimeGuard u = false) :
    (u : Int) + 62135596800 < 9223372036854775808 := by
  rw [toTimeGuard_eq] at hg
  have : ¬ ((u : Int) > 9223371974719179007) := by simpa using hg
  omega

/-- and the guard refuses nothing that is representable -/
theorem totime_guard_exact (u : Nat) : toTimeGuard u = decide (u > maxRepresentable) := by
  rw [toTimeGuard_eq]; unfold maxRepresentable
  by_cases h : u > 9223372036854775807 - 62135596800
  · have : (u : Int) > 9223371974719179007 := by omega
    simp [h, this]
  · have : ¬ (u : Int) > 9223371974719179007 := by omega
    simp [h, this]

/-- **C18, map path**: for every uint64 exp/nbf/iat (indeed every natural number), every ill-typed
    claim, every flag combination, every admissible skew and every issuer/audience,
    `ValidateMap` accepts iff RFC 8392's rule does. -/
theorem validateMap_eq_spec (o : VOpts) (c : Claims)
    (hnow : NowSane o.now) (hwf : o.now.WF) (hs : SkewInRange o.skew) :
    (validateMap o c = .ok) ↔ (accept (specOpts o) c = true) := by
  unfold validateMap accept
  rw [firstErr_ok]
  simp only [List.mem_cons, List.not_mem_nil, or_false, forall_eq_or_imp, forall_eq, Bool.and_eq_true]
  rw [stageExp_none o hnow hwf hs, stageNbf_none o hnow hwf hs, stageIat_none o hnow hwf hs,
    stageText_none, stageText_none]
  simp only [specOpts, and_assoc]

/-- **C18, struct path**: `Validate` on a typed `Claims` accepts iff the rule accepts the claim set the
    struct denotes (`omitempty`: a zero field is an absent claim). -/
theorem validate_eq_spec (o : VOpts) (c : SClaims)
    (hnow : NowSane o.now) (hwf : o.now.WF) (hs : SkewInRange o.skew) :
    (validate o c = .ok) ↔ (accept (specOpts o) c.toMap = true) := by
  rw [← validateMap_eq_spec o c.toMap hnow hwf hs]
  unfold validate validateMap SClaims.toMap
  rw [firstErr_ok, firstErr_ok]
  simp only [List.mem_cons, List.not_mem_nil, or_false, forall_eq_or_imp, forall_eq]
  refine and_congr ?_ (and_congr ?_ (and_congr ?_ (and_congr ?_ ?_)))
  · by_cases h : c.exp = 0
    · simp [h, stageExp]
    · have : c.exp > 0 := by omega
      simp [h, this, stageExp]
  · by_cases h : c.nbf = 0
    · simp [h, stageNbf]
    · have : c.nbf > 0 := by omega
      simp [h, this, stageNbf]
  · by_cases h : c.iat = 0
    · simp [h, stageIat]
    · have : c.iat > 0 := by omega
      simp [h, this, stageIat]
  · by_cases h : c.issuer = ""
    · simp [h, stageText]
    · simp [h, stageText]
  · by_cases h : c.audience = ""
    · simp [h, stageText]
    · simp [h, stageText]

/-- **the two paths agree**: same decision for the same claims -/
theorem struct_map_agree (o : VOpts) (c : SClaims) :
    (validate o c = .ok) ↔ (validateMap o c.toMap = .ok) := by
  unfold validate validateMap SClaims.toMap
  rw [firstErr_ok, firstErr_ok]
  simp only [List.mem_cons, List.not_mem_nil, or_false, forall_eq_or_imp, forall_eq]
  refine and_congr ?_ (and_congr ?_ (and_congr ?_ (and_congr ?_ ?_)))
  · by_cases h : c.exp = 0
    · simp [h, stageExp]
    · have : c.exp > 0 := by omega
      simp [h, this, stageExp]
  · by_cases h : c.nbf = 0
    · simp [h, stageNbf]
    · have : c.nbf > 0 := by omega
      simp [h, this, stageNbf]
  · by_cases h : c.iat = 0
    · simp [h, stageIat]
    · have : c.iat > 0 := by omega
      simp [h, this, stageIat]
  · by_cases h : c.issuer = "" <;> simp [h, stageText]
  · by_cases h : c.audience = "" <;> simp [h, stageText]

/-- the exact point where a *map* has no struct counterpart: an explicit `exp: 0` entry.  The map path
    treats it as "expired in 1970", the struct cannot express it (zero means absent).  Stated so that the
    exclusion in `struct_map_agree` (it quantifies over structs, i.e. maps produced by `toMap`) is visible. -/
theorem map_exp_zero_is_expired (o : VOpts) (c : Claims) (hnow : NowSane o.now) (hwf : o.now.WF)
    (hs : SkewInRange o.skew) (h600 : 62135596800 + 600 < o.now.sec) (h : c.exp = .secs 0) :
    validateMap o c ≠ .ok := by
  intro hok
  have := (validateMap_eq_spec o c hnow hwf hs).mp hok
  unfold accept at this
  simp only [Bool.and_eq_true] at this
  have h1 := this.1.1.1.1
  rw [h] at h1
  simp only [expOk, Bool.and_eq_true, decide_eq_true_eq, nsOf, specOpts] at h1
  have h2 : (0 : Int) > o.now.ns - 62135596800000000000 - o.skew := by simpa using h1.2
  obtain ⟨n1, n2⟩ := hnow
  obtain ⟨w1, w2⟩ := hwf
  unfold nsPerSec at w2
  unfold SkewInRange at hs
  have hn : o.now.ns = o.now.sec * 1000000000 + o.now.nsec := rfl
  omega

/-- **monotone in time** (on the rule): the set of instants at which a claim set is accepted is an
    interval — if it is accepted at `t1` and at `t3` it is accepted at every `t2` in between; in
    particular once expired it stays expired and once valid-from it stays so. -/
theorem accept_interval (o : Opts) (c : Claims) (t1 t2 t3 : Int) (h12 : t1 ≤ t2) (h23 : t2 ≤ t3)
    (a1 : accept { o with nowUnixNs := t1 } c = true) (a3 : accept { o with nowUnixNs := t3 } c = true) :
    accept { o with nowUnixNs := t2 } c = true := by
  obtain ⟨exp, nbf, iat, iss, aud⟩ := c
  unfold accept at *
  simp only [Bool.and_eq_true] at *
  obtain ⟨⟨⟨⟨e1, n1⟩, i1⟩, s1⟩, u1⟩ := a1
  obtain ⟨⟨⟨⟨e3, n3⟩, i3⟩, s3⟩, u3⟩ := a3
  refine ⟨⟨⟨⟨?_, ?_⟩, ?_⟩, s1⟩, u1⟩
  · cases exp <;> simp_all [expOk] <;> omega
  · cases nbf <;> simp_all [notAfterNowOk] <;> omega
  · cases iat <;> simp_all [iatOk, notAfterNowOk]
    rcases i1 with h | ⟨ha, hb⟩
    · exact Or.inl h
    · exact Or.inr ⟨ha, by omega⟩

theorem expired_stays_expired (o : Opts) (n : Nat) (t1 t2 : Int) (h : t1 ≤ t2)
    (e : expOk { o with nowUnixNs := t1 } (.secs n) = false) : expOk { o with nowUnixNs := t2 } (.secs n) = false := by
  simp only [expOk, Bool.and_eq_false_iff, decide_eq_false_iff_not] at *
  rcases e with e | e
  · exact Or.inl e
  · exact Or.inr (by omega)

/-- **skew cap**: a validator can be constructed iff the skew is at most ten minutes (incl. 10 min + 1 ns refused) -/
theorem skew_cap (o : VOpts) : newValidatorOk o = skewAllowed o.skew := by
  unfold newValidatorOk skewAllowed
  rw [maxSkewMinutes_eq, Bool.eq_iff_iff]
  simp only [Bool.not_eq_true', decide_eq_false_iff_not, decide_eq_true_eq]
  omega

example : newValidatorOk ⟨"", "", false, false, 600000000001, GoTime.unix 1700000000⟩ = false := by decide +kernel

/-- **the configuration is fixed at construction** (regenerated facts): the validator holds its options *by value*
    (six plain fields, no pointer, slice or map through which the caller's object could be reached), and `Validate` /
    `ValidateMap` only read them — so every decision is the model's function of the options that passed the skew cap. -/
theorem validator_holds_a_copy :
    Cose.Gen.Footprints.structFields.filter (fun s => s.1 == "cwt.Validator" || s.1 == "cwt.ValidatorOpts") =
      [("cwt.Validator", [("opts", "ValidatorOpts")]),
       ("cwt.ValidatorOpts", [("ExpectedIssuer", "string"), ("ExpectedAudience", "string"), ("AllowMissingExpiration", "bool"),
          ("ExpectIssuedInThePast", "bool"), ("ClockSkew", "time.Duration"), ("FixedNow", "time.Time")])]
    ∧ (Cose.Gen.Footprints.footprints.filter (fun m => m.2.1 == "cwt.Validator")).all (fun m =>
        m.2.2.all (fun u => u.2 != "assigned" && u.2 != "addr")) = true := by decide +kernel

/-! ### non-vacuity: the hypotheses are met by an ordinary configuration, on both verdicts -/
def sampleOpts : VOpts :=
  { expectedIssuer := "iss", expectedAudience := "", allowMissingExpiration := false,
    expectIssuedInThePast := true, skew := 60000000000, now := GoTime.unix 1700000000 }

example : NowSane sampleOpts.now ∧ sampleOpts.now.WF ∧ SkewInRange sampleOpts.skew := by
  unfold NowSane GoTime.WF SkewInRange; decide +kernel
example : validateMap sampleOpts ⟨.secs 1800000000, .secs 1600000000, .absent, .text "iss", .absent⟩ = .ok := by
  decide +kernel
example : validateMap sampleOpts ⟨.secs 1800000000, .secs 9223371974719179008, .absent, .text "iss", .absent⟩
    = .err .notYet := by decide +kernel
example : validateMap sampleOpts ⟨.secs 9223371974719179008, .absent, .absent, .text "iss", .absent⟩
    = .err .expired := by decide +kernel
example : validate sampleOpts ⟨"iss", "", 1800000000, 0, 1700000061⟩ = .err .iatFuture := by decide +kernel

/-- **claim sets are decoded strictly**: the shared decoder enforces unique map keys and definite lengths (the options
    literal in `key/cbor.go`, regenerated) — a claim set carrying `exp` twice is refused, never validated on either copy -/
theorem claims_decoder_is_strict :
    Cose.Gen.Layouts.cborOptions.lookup "decOpts" =
      some [("DupMapKey", "cbor.DupMapKeyEnforcedAPF"), ("IndefLength", "cbor.IndefLengthForbidden")] := by decide +kernel

end Cose.Props.C18
