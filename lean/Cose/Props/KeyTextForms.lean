import Cose.Key.TextForms
import Cose.Go.Roundtrip
import Cose.Props.C17
import Cose.Gen.Tables
import Cose.Gen.Footprints
/-!
# C17 / C15 / C09 — the text and JSON forms of a key are its CBOR form, octet for octet

* `text_form_is_cbor_form`, `json_form_is_cbor_form`: for **every** octet string `b` — a well-formed key, a foreign
  non-canonical one, or garbage — `UnmarshalText (hex b)` and `UnmarshalJSON ("\"" ++ hex b ++ "\"")` answer exactly
  what `UnmarshalCBOR b` answers: the same key or the same refusal.  The three encodings of a key are equivalent
  unconditionally (no hypothesis on `b`).
* `key_survives_text`, `key_survives_json`: `key_survives_cbor` carried through the two forms — same kty, alg, dispatch
  triple, registered implementation per kind, key_ops, octets.
* `json_null_is_refused`, `text_odd_length_refused`, `json_unquoted_refused`: the refusals around the codec.
-/
namespace Cose.Props.KeyTextForms
open Cose.Key Cose.Key.TextForms Cose.Go Cose.Go.ByteStr Cose.Cbor

/-- **text = CBOR**, every octet string -/
theorem text_form_is_cbor_form (b : Bytes) : cmapUnmarshalText (marshalText b) = decodeCMap b := by
  simp only [cmapUnmarshalText, text_roundtrip]

/-- **JSON = CBOR**, every octet string -/
theorem json_form_is_cbor_form (b : Bytes) : cmapUnmarshalJSON (marshalJSON b) = decodeCMap b := by
  simp only [cmapUnmarshalJSON, json_roundtrip]

/-- what a map's text form is: the hex of its CBOR form -/
theorem marshalText_eq (m : CMap) (b : Bytes) (h : encodeCMap m = some b) :
    cmapMarshalText m = some (marshalText b) ∧ cmapMarshalJSON m = some (marshalJSON b) := by
  simp only [cmapMarshalText, cmapMarshalJSON, h, Option.map_some, and_self]

/-- a map that cannot be encoded has no text form either (the codec never invents one) -/
theorem no_cbor_no_text (m : CMap) (h : encodeCMap m = none) : cmapMarshalText m = none ∧ cmapMarshalJSON m = none := by
  simp only [cmapMarshalText, cmapMarshalJSON, h, Option.map_none, and_self]

/-- **a key survives its text form** exactly as it survives CBOR -/
theorem key_survives_text (k : Key) (hok : ∀ kv ∈ k, EntryOk kv) (hnd : (k.map (·.1)).Nodup)
    (hlen : k.length ≤ Cose.Cbor.maxElems) (hops : Cose.Props.C17.OpsInRange k) :
    ∃ t k', cmapMarshalText k = some t ∧ cmapUnmarshalText t = .ok k' ∧ k'.length = k.length ∧
      (∀ l, getInt (k'.lookup l) = getInt (k.lookup l)) ∧
      (∀ l, k.lookup l ≠ some .bnil → getBytes (k'.lookup l) = getBytes (k.lookup l)) ∧
      kty k' = kty k ∧ alg k' = alg k ∧ tripleKey k' = tripleKey k ∧
      (∀ kind, registered kind (tripleKey k') = registered kind (tripleKey k)) ∧
      ops k' = ops k := by
  obtain ⟨b, k', henc, hdec, rest⟩ := Cose.Props.C17.key_survives_cbor k hok hnd hlen hops
  exact ⟨marshalText b, k', (marshalText_eq k b henc).1, by rw [text_form_is_cbor_form, hdec], rest⟩

/-- **a key survives its JSON form** exactly as it survives CBOR -/
theorem key_survives_json (k : Key) (hok : ∀ kv ∈ k, EntryOk kv) (hnd : (k.map (·.1)).Nodup)
    (hlen : k.length ≤ Cose.Cbor.maxElems) (hops : Cose.Props.C17.OpsInRange k) :
    ∃ j k', cmapMarshalJSON k = some j ∧ cmapUnmarshalJSON j = .ok k' ∧ k'.length = k.length ∧
      (∀ l, getInt (k'.lookup l) = getInt (k.lookup l)) ∧
      (∀ l, k.lookup l ≠ some .bnil → getBytes (k'.lookup l) = getBytes (k.lookup l)) ∧
      kty k' = kty k ∧ alg k' = alg k ∧ tripleKey k' = tripleKey k ∧
      (∀ kind, registered kind (tripleKey k') = registered kind (tripleKey k)) ∧
      ops k' = ops k := by
  obtain ⟨b, k', henc, hdec, rest⟩ := Cose.Props.C17.key_survives_cbor k hok hnd hlen hops
  exact ⟨marshalJSON b, k', (marshalText_eq k b henc).2, by rw [json_form_is_cbor_form, hdec], rest⟩

/-- the three forms give the same decoded key, for any label map that has a CBOR form at all -/
theorem three_forms_agree (m : CMap) (b : Bytes) (h : encodeCMap m = some b) :
    ∃ t j, cmapMarshalText m = some t ∧ cmapMarshalJSON m = some j ∧
      cmapUnmarshalText t = decodeCMap b ∧ cmapUnmarshalJSON j = decodeCMap b :=
  ⟨_, _, (marshalText_eq m b h).1, (marshalText_eq m b h).2, text_form_is_cbor_form b, json_form_is_cbor_form b⟩

/-- JSON `null` is not a key: the fresh octet string stays nil and no octets are not CBOR -/
theorem json_null_is_refused : cmapUnmarshalJSON [110, 117, 108, 108] = .err := by
  with_unfolding_all rfl

/-- the empty text is the empty octet string, which is not CBOR -/
theorem empty_text_refused : cmapUnmarshalText [] = .err := by
  with_unfolding_all rfl

/-- what is not hex is refused before CBOR is looked at -/
theorem not_hex_refused (t : Bytes) (h : unmarshalText t = none) : cmapUnmarshalText t = .err := by
  simp only [cmapUnmarshalText, h]

theorem json_malformed_refused (d : Bytes) (h : unmarshalJSON d = none) : cmapUnmarshalJSON d = .err := by
  simp only [cmapUnmarshalJSON, h]

/-! ## Regenerated tie: the shape of the twelve text / JSON functions in the current source

`Gen.Tables.conds` lists every `if` / `switch` / `case` condition of every function, in source order, and
`Gen.Footprints.footprints` how each method uses its receiver; both are rewritten from `/repo` on every run.  The model
above mirrors functions with exactly these branches (nil receiver, error of the inner step; `null`, the two quotes) —
a branch added to or removed from any of them makes this obligation fail to build, and the correspondence ops
`map.untext` / `map.unjson` / `dec.bytestrjson` / `dec.bytestrtext` then look for an input. -/

def condsOf (f : String) : Option (List String) := (Cose.Gen.Tables.conds.find? (fun r => r.1 == f)).map (·.2)

def recvUse (f : String) : Option (List (String × String)) :=
  (Cose.Gen.Footprints.footprints.find? (fun r => r.1 == f)).map (·.2.2)

theorem text_functions_conditions :
    condsOf "key.CoseMap.MarshalText" = some ["if err != nil"] ∧
    condsOf "key.CoseMap.MarshalJSON" = some ["if err != nil"] ∧
    condsOf "key.CoseMap.UnmarshalText" = some ["if m == nil", "if err != nil"] ∧
    condsOf "key.CoseMap.UnmarshalJSON" = some ["if m == nil", "if err != nil"] ∧
    condsOf "key.Key.MarshalText" = some [] ∧ condsOf "key.Key.MarshalJSON" = some [] ∧
    condsOf "key.Key.UnmarshalText" = some [] ∧ condsOf "key.Key.UnmarshalJSON" = some [] ∧
    condsOf "key.ByteStr.MarshalText" = some [] ∧ condsOf "key.ByteStr.MarshalJSON" = some [] ∧
    condsOf "key.ByteStr.UnmarshalText" = some ["if bstr == nil", "if err == nil"] ∧
    condsOf "key.ByteStr.UnmarshalJSON" = some ["if bstr == nil", "if s == \"null\"",
      "if len(data) < 2 || data[0] != '\"' || data[len(data)-1] != '\"'", "if err == nil"] := by
  decide +kernel

/-- the label-map methods hand their receiver to their own CBOR method and to nothing else; `Key` forwards to `CoseMap` -/
theorem text_functions_receiver_use :
    recvUse "key.CoseMap.MarshalText" = some [("recv", "self:MarshalCBOR")] ∧
    recvUse "key.CoseMap.MarshalJSON" = some [("recv", "self:MarshalCBOR")] ∧
    recvUse "key.CoseMap.UnmarshalText" = some [("recv", "self:UnmarshalCBOR")] ∧
    recvUse "key.CoseMap.UnmarshalJSON" = some [("recv", "self:UnmarshalCBOR")] ∧
    recvUse "key.Key.MarshalText" = some [("recv", "arg:key.CoseMap#0")] ∧
    recvUse "key.Key.MarshalJSON" = some [("recv", "arg:key.CoseMap#0")] ∧
    recvUse "key.Key.UnmarshalText" = some [("recv", "arg:conv:(*CoseMap)#0")] ∧
    recvUse "key.Key.UnmarshalJSON" = some [("recv", "arg:conv:(*CoseMap)#0")] := by
  decide +kernel


-- non-vacuity (evaluated, a test): a symmetric key `{1: 4, -1: h'0102'}` has the text form "a2010420420102", which decodes
#guard cmapMarshalText [(.int 1, .int .int 4), (.int (-1), .bytes [1, 2])] ==
    some [97, 50, 48, 49, 48, 52, 50, 48, 52, 50, 48, 49, 48, 50]
#guard (match cmapUnmarshalText [97, 50, 48, 49, 48, 52, 50, 48, 52, 50, 48, 49, 48, 50] with | .ok m => m.length == 2 | _ => false)

end Cose.Props.KeyTextForms
