import Cose.Key.Prims
import Cose.Crypto.ConstructionLemmas
/-!
# C12 — AES-GCM, AES-CCM and ChaCha20/Poly1305 match reference AEADs exactly

* parameter tables regenerated from the source and proved equal to RFC 9053 tables 5, 6 and §4.3;
* the additional-data length prefix written by `ccm.tag` (constants read from the source) is proved equal to
  RFC 3610 §2.2 for every length below 2^64;
* round trip, ciphertext length and uniqueness proved for the CCM construction and for the generic stream
  AEAD that GCM and ChaCha20/Poly1305 instantiate (AES block length proved; keystream / tag lengths proved
  in the reference modules);
* refusals (nonce length, key size, over-long plaintext) return an error, never a panic;
* byte equality of the library's output with these definitions is the spec-op correspondence `prim.aead.*`.
-/
namespace Cose.Props.C12
open Cose.Key Cose.Crypto Cose.Go

/-- RFC 9053 table 6: (alg, key bytes, tag bytes, nonce bytes); L = 15 − nonce -/
def rfcCcm : List (Int × Nat × Nat × Nat) :=
  [(10, 16, 8, 13), (11, 32, 8, 13), (12, 16, 8, 7), (13, 32, 8, 7),
   (30, 16, 16, 13), (31, 32, 16, 13), (32, 16, 16, 7), (33, 32, 16, 7)]
/-- RFC 9053 table 5 -/
def rfcGcm : List (Int × Nat) := [(1, 16), (2, 24), (3, 32)]

theorem ccm_params_are_rfc9053 :
    (∀ r ∈ rfcCcm, ccmKeySize r.1 = r.2.1 ∧ ccmTagSize r.1 = r.2.2.1 ∧ ccmNonceSize r.1 = r.2.2.2) ∧
    Cose.Gen.Tables.sw_key_aesccm_getKeySize.irows.map (·.1) = rfcCcm.map (·.1) ∧
    Cose.Gen.Tables.sw_key_aesccm_getKeySize.idflt = [0, 0, 0] := by decide +kernel

theorem gcm_chacha_params_are_rfc9053 :
    (∀ r ∈ rfcGcm, gcmKeySize r.1 = r.2) ∧
    Cose.Gen.Tables.sw_key_aesgcm_getKeySize.irows.map (·.1) = rfcGcm.map (·.1) ∧
    gcmNonceSize = 12 ∧ chachaKeySize = 32 ∧ chachaNonceSize = 12 ∧
    Cose.Gen.Tables.sw_key_chacha20poly1305_getKeySize.irows = [(24, [32])] := by decide +kernel

/-- the constants in `ccm.tag`, as the source has them now -/
theorem ccm_constants :
    ccmShortMax = 65279 ∧ ccmMidLimit = 4294967296 ∧ ccmMarker0 = 255 ∧ ccmMarker1a = 254 ∧ ccmMarker1b = 255 := by
  decide +kernel

/-- **the three additional-data length encodings are exactly RFC 3610 §2.2**, for every length -/
theorem ccm_aad_header_is_rfc3610 (n : Nat) : ccmAadLenCode n = ccmAadLen n := by
  obtain ⟨a, b, c, d, e⟩ := ccm_constants
  unfold ccmAadLenCode ccmAadLen
  rw [a, b, c, d, e]
  by_cases h0 : n = 0
  · simp [h0]
  · by_cases h1 : n ≤ 65279
    · have : n < 65280 := by omega
      simp [h0, h1, this]
    · have : ¬ n < 65280 := by omega
      simp only [h0, h1, this, if_false]
      rfl

/-- AES block function of any key: 16 bytes out -/
theorem aesE_length (key : Bytes) (E : Bytes → Bytes) (h : aesE key = some E) : ∀ b, (E b).length = 16 := by
  unfold aesE at h
  cases hk : aesExpandKey key with
  | none => simp [hk] at h
  | some k =>
    simp only [hk, Option.map_some, Option.some.injEq] at h
    intro b; rw [← h]; exact aesEncryptBlockWith_length k b

theorem ccm_tag_le_16 (alg : Int) (h : alg ∈ rfcCcm.map (·.1)) : ccmTagSize alg ≤ 16 := by
  simp only [rfcCcm, List.map_cons, List.map_nil, List.mem_cons, List.not_mem_nil, or_false] at h
  rcases h with rfl | rfl | rfl | rfl | rfl | rfl | rfl | rfl <;> decide +kernel

/-- **CCM: what `Encrypt` produced, `Decrypt` opens to the same plaintext, and the ciphertext is
    plaintext length + tag length**, for all eight algorithms, every key, nonce, plaintext, additional data -/
theorem ccm_roundtrip (alg : Int) (halg : alg ∈ rfcCcm.map (·.1)) (key nonce pt aad ct : Bytes)
    (h : ccmEncrypt alg key nonce pt aad = .ok ct) :
    ccmDecrypt alg key nonce ct aad = .ok pt ∧ ct.length = pt.length + ccmTagSize alg := by
  have hM := ccm_tag_le_16 alg halg
  unfold ccmEncrypt at h
  cases hk : aesE key with
  | none => simp [hk] at h
  | some E =>
    have hE := aesE_length key E hk
    simp only [hk] at h
    split at h
    · cases h
    · rename_i hn
      split at h
      · cases h
      · rename_i hs
        simp only [Res.ok.injEq] at h
        have hl := ccmSeal_length E hE (ccmTagSize alg) (15 - ccmNonceSize alg) hM nonce pt aad
        rw [h] at hl
        refine ⟨?_, hl⟩
        unfold ccmDecrypt
        simp only [hk, hn, if_false]
        have a : ¬ ct.length < ccmTagSize alg := by omega
        have b : ¬ ct.length > ccmMaxLen (15 - ccmNonceSize alg) (ccmTagSize alg) + ccmTagSize alg := by omega
        simp only [a, b, if_false]
        rw [← h, ccmOpen_seal E hE _ _ hM]

/-- **refusals are errors, not panics**: `Encrypt`/`Decrypt` never produce the `panic` result -/
theorem ccm_never_panics (alg : Int) (key nonce x aad : Bytes) :
    (ccmEncrypt alg key nonce x aad).isPanic = false ∧ (ccmDecrypt alg key nonce x aad).isPanic = false := by
  unfold ccmEncrypt ccmDecrypt
  cases aesE key with
  | none => simp [Res.isPanic]
  | some E =>
    simp only
    constructor
    · split <;> (try split) <;> simp [Res.isPanic]
    · split <;> (try split) <;> (try split) <;> (try split) <;> simp [Res.isPanic]

theorem ccm_wrong_nonce_refused (alg : Int) (key nonce pt aad : Bytes) (h : nonce.length ≠ ccmNonceSize alg) :
    ¬ (ccmEncrypt alg key nonce pt aad).isOk ∧ ¬ (ccmDecrypt alg key nonce pt aad).isOk := by
  unfold ccmEncrypt ccmDecrypt
  cases aesE key <;> simp [h, Res.isOk]

/-- plaintexts beyond 2^(8L) − 1 bytes are refused (CCM-16-*: 65535) -/
theorem ccm_plaintext_limit_refused (alg : Int) (key nonce pt aad : Bytes)
    (h : pt.length > ccmMaxLen (15 - ccmNonceSize alg) (ccmTagSize alg)) :
    ¬ (ccmEncrypt alg key nonce pt aad).isOk := by
  unfold ccmEncrypt
  cases aesE key with
  | none => simp [Res.isOk]
  | some E =>
    simp only
    split
    · simp [Res.isOk]
    · simp [h, Res.isOk]

example : ccmMaxLen (15 - ccmNonceSize 10) (ccmTagSize 10) = 65535 := by decide +kernel

/-! ### GCM and ChaCha20/Poly1305: instances of the generic stream AEAD -/

theorem gcm_ks_length : ∀ k n l, (gcmAead.ks k n l).length = l := by
  intro k n l; unfold gcmAead; simp only
  cases aesExpandKey k with
  | none => exact zeros_length l
  | some ak => exact gcmKeystream_length ak n l

theorem gcm_tag_length : ∀ k n a c, (gcmAead.tag k n a c).length = gcmAead.tagLen := by
  intro k n a c; unfold gcmAead; simp only
  cases aesExpandKey k with
  | none => exact zeros_length 16
  | some ak => exact gcmTag_length ak n a c

theorem chacha_ks_length : ∀ k n l, (chachaAead.ks k n l).length = l :=
  fun k n l => chachaKeystream_length k n l

theorem chacha_tag_length : ∀ k n a c, (chachaAead.tag k n a c).length = chachaAead.tagLen :=
  fun k n a c => chachaPolyTag_length k n a c

/-- **GCM round trip and length** -/
theorem gcm_roundtrip (key nonce pt aad ct : Bytes) (h : gcmEncrypt key nonce pt aad = .ok ct) :
    gcmDecrypt key nonce ct aad = .ok pt ∧ ct.length = pt.length + 16 := by
  unfold gcmEncrypt at h
  split at h
  · cases h
  · rename_i hk
    split at h
    · cases h
    · rename_i hn
      simp only [Res.ok.injEq] at h
      unfold gcmDecrypt
      simp only [hk, hn, if_false]
      rw [← h, StreamAead.open_seal gcmAead gcm_ks_length gcm_tag_length]
      exact ⟨rfl, StreamAead.seal_length gcmAead gcm_ks_length gcm_tag_length key nonce pt aad⟩

/-- **ChaCha20/Poly1305 round trip and length** -/
theorem chacha_roundtrip (key nonce pt aad ct : Bytes) (h : chachaEncrypt key nonce pt aad = .ok ct) :
    chachaDecrypt key nonce ct aad = .ok pt ∧ ct.length = pt.length + 16 := by
  unfold chachaEncrypt at h
  split at h
  · cases h
  · rename_i hk
    split at h
    · cases h
    · rename_i hn
      simp only [Res.ok.injEq] at h
      unfold chachaDecrypt
      simp only [hk, hn, if_false]
      rw [← h, StreamAead.open_seal chachaAead chacha_ks_length chacha_tag_length]
      exact ⟨rfl, StreamAead.seal_length chachaAead chacha_ks_length chacha_tag_length key nonce pt aad⟩

/-- **any accepted ciphertext is the sealing of its plaintext** (GCM): a changed ciphertext or additional
    data that still opened would carry a valid tag for different authenticated content — a forgery of GHASH/AES. -/
theorem gcm_open_unique (key nonce ct aad p : Bytes) (h : gcmDecrypt key nonce ct aad = .ok p) :
    gcmEncrypt key nonce p aad = .ok ct := by
  unfold gcmDecrypt at h
  split at h
  · cases h
  · rename_i hk
    split at h
    · cases h
    · rename_i hn
      cases ho : gcmAead.open key nonce ct aad with
      | none => simp [ho] at h
      | some q =>
        simp only [ho, Res.ok.injEq] at h
        subst h
        unfold gcmEncrypt
        simp only [hk, hn, if_false]
        rw [← StreamAead.open_unique gcmAead gcm_ks_length key nonce ct aad q ho]
        simp

theorem chacha_open_unique (key nonce ct aad p : Bytes) (h : chachaDecrypt key nonce ct aad = .ok p) :
    chachaEncrypt key nonce p aad = .ok ct := by
  unfold chachaDecrypt at h
  split at h
  · cases h
  · rename_i hk
    split at h
    · cases h
    · rename_i hn
      cases ho : chachaAead.open key nonce ct aad with
      | none => simp [ho] at h
      | some q =>
        simp only [ho, Res.ok.injEq] at h
        subst h
        unfold chachaEncrypt
        simp only [hk, hn, if_false]
        rw [← StreamAead.open_unique chachaAead chacha_ks_length key nonce ct aad q ho]

theorem gcm_wrong_nonce_refused (key nonce x aad : Bytes) (h : nonce.length ≠ 12) :
    ¬ (gcmEncrypt key nonce x aad).isOk ∧ ¬ (gcmDecrypt key nonce x aad).isOk := by
  have e : gcmNonceSize = 12 := by decide +kernel
  unfold gcmEncrypt gcmDecrypt
  rw [e]
  constructor <;> (split <;> simp [h, Res.isOk])

/-- ChaCha20/Poly1305 takes nonces of exactly 12 octets: no 64-bit-nonce variant (8), no XChaCha (24) -/
theorem chacha_wrong_nonce_refused (key nonce x aad : Bytes) (h : nonce.length ≠ 12) :
    ¬ (chachaEncrypt key nonce x aad).isOk ∧ ¬ (chachaDecrypt key nonce x aad).isOk := by
  have e : chachaNonceSize = 12 := by decide +kernel
  unfold chachaEncrypt chachaDecrypt
  rw [e]
  constructor <;> (split <;> simp [h, Res.isOk])

-- non-vacuity (tests, labelled as tests)
#guard (ccmEncrypt 10 (zeros 16) (zeros 13) [1, 2, 3] [4]).isOk
#guard (gcmEncrypt (zeros 16) (zeros 12) [1, 2, 3] [4]).isOk
#guard ccmAadLenCode 65280 == [0xff, 0xfe, 0, 0, 0xff, 0]

end Cose.Props.C12
