import Cose.Conc.Sched
import Cose.Gen.Footprints
/-!
# C19 — signers, verifiers, MACers, encryptors, ECDHers, validators are safe to share

What can be a theorem: (1) `Conc.schedule_independent` — calls that never write shared state return, in every
interleaving of any number of goroutines, what they return alone; (2) the premise for *this* code, as a
kernel-checked obligation on the **regenerated footprints**: every method of every shared implementation type
only reads its receiver's fields, calls its own read-only methods, or hands a field to a callee from an explicit
allow-list of constructors / documented concurrency-safe calls; no field is assigned, incremented, appended to,
copied into, or has its address taken; the registry maps are written only by the `Register*` functions (package
init).  A cached `hash.Hash` / `cipher.BlockMode` / scratch buffer, or a stateful method called on a stored
object, changes a footprint or the field list and breaks `shared_methods_footprints` / `impl_struct_fields`.
What cannot be a theorem (stated in DESIGN §8): the Go memory model and the thread-safety of the `crypto/*`
objects held in fields; the `-race` harness (`bin/racecheck`) is the search that supports this check.
-/
namespace Cose.Props.C19
open Cose.Gen.Footprints

/-- the implementation / validator types whose instances are shared between goroutines -/
def sharedTypes : List String :=
  ["key_hmac.hMAC", "key_aesmac.aesMAC", "key_aesgcm.aesGCM", "key_aesccm.aesCCM", "key_aesccm.ccm",
   "key_chacha20poly1305.chacha", "key_ecdsa.ecdsaSigner", "key_ecdsa.ecdsaVerifier",
   "key_ed25519.ed25519Signer", "key_ed25519.ed25519Verifier", "key_ecdh.ECDHer", "cwt.Validator"]

/-- uses a shared method may make of its receiver's fields -/
def allowedKinds : List String :=
  ["read",
   -- own read-only methods
   "self:create", "self:tag", "self:MaxLength", "self:Overhead", "self:NonceSize", "self:cbcData", "self:cbcRound",
   -- the key (a map read through accessors)
   "call:key.Key.Ops", "call:key.Key.Alg", "call:key.Key.GetBytes",
   -- constructors taking the stored cipher.Block / hash constructor (they build fresh per-call state)
   "arg:crypto/cipher.NewGCM#0", "arg:crypto/cipher.NewCBCEncrypter#0", "arg:crypto/cipher.NewCTR#0",
   "arg:key_aesccm.NewCCM#0", "arg:crypto/hmac.New#0",
   -- the all-zero IV (a package variable that is never written) is copied by NewCBCEncrypter
   "arg:crypto/cipher.NewCBCEncrypter#1",
   -- cipher.Block.Encrypt is documented safe for concurrent use (no internal state)
   "call:crypto/cipher.Block.Encrypt",
   -- stateless crypto entry points taking the stored key material by value / read-only
   "arg:crypto/ecdsa.Sign#1", "arg:crypto/ecdsa.Verify#0", "arg:key_ecdsa.EncodeSignature#0",
   "arg:key_ecdsa.DecodeSignature#0", "arg:crypto/ed25519.Sign#0", "arg:crypto/ed25519.Verify#0",
   "call:*crypto/ecdh.PrivateKey.ECDH",
   -- plain value uses
   "arg:int#0", "arg:make#1", "arg:key_aesccm.maxlen#0",
   "arg:fmt.Errorf#1", "arg:time.Time.Add#0", "call:time.Time.IsZero"]

def sharedMethods : List (String × String × List (String × String)) :=
  footprints.filter (fun m => sharedTypes.contains m.2.1)

/-- **no shared method writes, appends to, copies into or takes the address of a receiver field or package
    variable; every other use is on the allow-list** (kernel evaluation over the regenerated inventory) -/
theorem shared_methods_footprints :
    sharedMethods.all (fun m => m.2.2.all (fun u => allowedKinds.contains u.2)) = true := by decide +kernel

/-- every shared type has its methods in the inventory (the filter is not vacuous) -/
theorem shared_methods_present :
    sharedTypes.all (fun t => sharedMethods.any (fun m => m.2.1 == t)) = true ∧ sharedMethods.length ≥ 30 := by
  decide +kernel

/-- the registry maps are assigned only by the four `Register*` functions (called from package `init`) -/
theorem registry_written_only_by_register :
    (footprints.filter (fun m => m.2.2.any (fun u =>
        (u.1 == "var:key.signers" || u.1 == "var:key.verifiers" || u.1 == "var:key.macers" || u.1 == "var:key.encryptors")
        && u.2 != "read"))).map (·.1) =
      ["key.RegisterEncryptor", "key.RegisterMACer", "key.RegisterSigner", "key.RegisterVerifier"] := by decide +kernel

/-- **key lookups do not write the shared key**: the only functions of the library that store into, delete from or
    replace a label map they were handed (as receiver or as parameter) are the setters and the decoders — none of
    the accessors (`Ops`, `Alg`, `Kty`, `Kid`, `Has`, `Get*`, `BaseIV`), `CheckKey`s, factories or conversions.
    (A "normalise once" write-back in an accessor changes this list.) -/
theorem key_maps_written_only_by_setters :
    (footprints.filter (fun m => m.2.2.any (fun u =>
        ((u.1 == "recv[]" || u.1 == "param[]") && u.2 != "read" && !(u.2.startsWith "arg:fmt."))
        || (u.1 == "recv" && (u.2 == "assigned" || u.2 == "arg:delete#0"))))).map (·.1) =
      ["key.ByteStr.UnmarshalJSON", "key.ByteStr.UnmarshalText", "key.CoseMap.Set", "key.CoseMap.UnmarshalCBOR",
       "key.Key.SetKid", "key.Key.SetOps"] := by decide +kernel

/-- the other package-level variables (`fixedIV`, tag prefixes, `encMode`/`decMode`) are never assigned -/
theorem package_vars_never_assigned :
    (footprints.filter (fun m => m.2.2.any (fun u =>
        (u.1 == "var:key_aesmac.fixedIV" || u.1 == "var:key_hkdf.fixedIV" || u.1 == "var:key.encMode" || u.1 == "var:key.decMode"
          || u.1 == "var:cose.cwtPrefix") && (u.2 == "assigned" || u.2 == "addr")))) = [] := by decide +kernel

/-- **the library's shared state is the known one**: the only package-level variables any function of the library touches
    are the four registries, the two codec modes and the constant prefixes / zero IVs.  A pooled or buffered reader, a
    cache or a scratch buffer introduced at package level appears here. -/
theorem package_vars_are_the_known_ones :
    footprints.all (fun m => m.2.2.all (fun u => !(u.1.startsWith "var:") ||
      ["var:cose.cwtPrefix", "var:cose.encrypt0MessagePrefix", "var:cose.encryptMessagePrefix", "var:cose.mac0MessagePrefix",
       "var:cose.macMessagePrefix", "var:cose.sign1MessagePrefix", "var:cose.signMessagePrefix", "var:key.decMode", "var:key.encMode",
       "var:key.encryptors", "var:key.macers", "var:key.signers", "var:key.verifiers", "var:key_aesmac.fixedIV",
       "var:key_hkdf.fixedIV"].contains u.1)) = true := by decide +kernel

/-- … and the random source keeps none: `GetRandomBytes` is `make` + `crypto/rand.Read` (safe for concurrent use) -/
theorem random_source_is_stateless :
    randomCallees =
      [("key.GetRandomBytes", ["make", "crypto/rand.Read"]),
       ("key.GetRandomUint32", ["key.GetRandomBytes", "encoding/binary.bigEndian.Uint32"])] := by decide +kernel

/-- the fields of the implementation types: key reference + immutable material only.  A new field (cache,
    scratch buffer, stored `hash.Hash` / `cipher.BlockMode` / `cipher.AEAD`) changes this table. -/
theorem impl_struct_fields :
    structFields.filter (fun s => sharedTypes.contains s.1) =
      [("cwt.Validator", [("opts", "ValidatorOpts")]),
       ("key_aesccm.aesCCM", [("key", "key.Key"), ("block", "cipher.Block"), ("ivSize", "int")]),
       ("key_aesccm.ccm", [("b", "cipher.Block"), ("M", "uint8"), ("L", "uint8")]),
       ("key_aesgcm.aesGCM", [("key", "key.Key"), ("block", "cipher.Block")]),
       ("key_aesmac.aesMAC", [("key", "key.Key"), ("block", "cipher.Block"), ("tagSize", "int")]),
       ("key_chacha20poly1305.chacha", [("key", "key.Key")]),
       ("key_ecdh.ECDHer", [("key", "key.Key"), ("privKey", "*goecdh.PrivateKey")]),
       ("key_ecdsa.ecdsaSigner", [("key", "key.Key"), ("privKey", "*goecdsa.PrivateKey")]),
       ("key_ecdsa.ecdsaVerifier", [("key", "key.Key"), ("pubKey", "*goecdsa.PublicKey")]),
       ("key_ed25519.ed25519Signer", [("key", "key.Key"), ("privKey", "goed25519.PrivateKey")]),
       ("key_ed25519.ed25519Verifier", [("key", "key.Key"), ("pubKey", "goed25519.PublicKey")]),
       ("key_hmac.hMAC", [("key", "key.Key"), ("tagSize", "int"), ("hash", "func() hash.Hash")])] := by
  decide +kernel

/-- the one stateful object of the library is the per-call `aesHKDF` reader (it *is* written by `Read`); it is
    created inside `HKDFAES` for each call and never stored in a shared object -/
theorem only_stateful_type_is_the_hkdf_reader :
    ((footprints.filter (fun m => m.2.1 != "" && !(m.2.1 == "key_hkdf.aesHKDF") &&
        (m.1 == "key_hkdf.HKDFAES" || m.2.2.any (fun u => u.2 == "assigned") && sharedTypes.contains m.2.1))).map (·.1)) = [] := by
  decide +kernel

/-- putting it together: the model of a shared object is a family of read-only operations, hence
    schedule-independent (for any number of goroutines and calls) -/
theorem shared_calls_schedule_independent {S In Out} (s0 : S) (sched : List (Cose.Conc.Op S In Out × In))
    (h : ∀ p ∈ sched, p.1.ReadOnly) :
    (Cose.Conc.runSchedule s0 sched).1 = sched.map (fun p => (p.1.run s0 p.2).1) := by
  rw [Cose.Conc.schedule_independent s0 sched h]

-- non-vacuity: a read-only operation exists, and a writing one is not read-only
example : (⟨fun (s : Nat) (i : Nat) => (s + i, s)⟩ : Cose.Conc.Op Nat Nat Nat).ReadOnly := fun _ _ => rfl
example : ¬ (⟨fun (s : Nat) (i : Nat) => (s + i, s + 1)⟩ : Cose.Conc.Op Nat Nat Nat).ReadOnly := by
  intro h; have := h 0 0; simp at this

end Cose.Props.C19
