import Cose.Props.C09
import Cose.Props.C01Sign
/-!
# C09 — a decoded COSE_Sign survives re-encoding, signature by signature

`sign_reencode_fixpoint`: take whatever wire struct the COSE_Sign decoder retained — from a library encoding or from a
peer's, with non-canonical or oddly filled per-signature protected buckets — encode it and decode the result: the body
protected bytes, the payload and **the whole list of signature objects** (protected map, protected bytes as received,
unprotected map, signature) come back unchanged, for any number of signatures.  Hence the verdict of `Verify` is the
same before and after (`sign_reencoded_same_verdict`).  What is asked of each signature object (`SigStable`) is what
holds of a decoded one: it carries the received bucket bytes, those bytes decode to its protected map, and its
unprotected map is a fixed point of encode ∘ decode.
-/
namespace Cose.Props.C09Sign
open Cose.Msg Cose.Go Cose.Cbor Cose.Gen Cose.Props.C01 Cose.Props.C01Sign

/-- a signature object as the decoder leaves it -/
structure SigStable (s : SigObj) (c : Cbor) : Prop where
  raw : ∃ raw u sig, s.protRaw = some raw ∧ raw.length < two64 ∧ hdrFromBytes (some raw) = .ok s.prot ∧
    hdrCbor s.unprot = some u ∧ WF u ∧ depth u ≤ 4 ∧ hdrField u = .ok s.unprot ∧
    (∀ x, s.signature = some x → x.length < two64) ∧ sig = bytesCbor s.signature ∧ c = .arr [.bstr raw, u, sig]

theorem stable_list (sigs : List SigObj) (cs : List Cbor) (h : All2 SigStable sigs cs) :
    sigs.mapM sigCbor = some cs ∧ cs.length = sigs.length ∧ WFList cs ∧ depthList cs ≤ 5 ∧
      decSeq sigField cs = .ok sigs := by
  induction h with
  | nil => exact ⟨rfl, rfl, trivial, by simp [depthList], rfl⟩
  | @cons s c rest csr hs _ ih =>
    obtain ⟨h1, h2, h3, h4, h5⟩ := ih
    obtain ⟨raw, u, sig, hraw, hrl, hpm, hu, huw, hud, huf, hsl, hsig, hc⟩ := hs.raw
    subst hc hsig
    have hcb : sigCbor s = some (.arr [.bstr raw, u, bytesCbor s.signature]) :=
      Cose.Props.C09.signature_reencodes_raw_bucket s raw hraw u hu
    refine ⟨?_, by simp [h2], ⟨⟨by simp [maxElems], hrl, huw, wf_bytesCbor _ hsl, trivial⟩, h3⟩, ?_, ?_⟩
    · simp only [List.mapM_cons, hcb, h1]; rfl
    · simp only [depthList, depth, depth_bytesCbor]; omega
    · have : sigField (.arr [.bstr raw, u, bytesCbor s.signature]) = .ok s := by
        simp only [sigField, untag, bytesField, bytesField_bytesCbor, huf, hpm]
        cases s; simp_all
      simp only [decSeq, this, h5]

/-- **decode ∘ encode is the identity on a decoded COSE_Sign**: body protected bytes, payload and every signature object -/
theorem sign_reencode_fixpoint (w : Wire) (sigs : List SigObj) (cs : List Cbor) (hs : w.sigs = some sigs)
    (hst : All2 SigStable sigs cs) (hn : sigs.length ≤ maxElems)
    (u : Cbor) (hu : hdrCbor w.unprot = some u) (huw : WF u) (hud : depth u + 2 < maxNesting)
    (uh : Hdr) (huf : hdrField u = .ok uh)
    (hp : ∀ x, w.prot = some x → x.length < two64) (hy : ∀ x, w.payload = some x → x.length < two64)
    (pm : CMap) (hpm : hdrFromBytes w.prot = .ok pm) :
    ∃ bytes m2 w2, marshal .sign w = some bytes ∧ unmarshal .sign .raw bytes = .ok m2 ∧ m2.mm = some w2 ∧
      w2.prot = w.prot ∧ w2.payload = w.payload ∧ w2.sigs = some sigs ∧ m2.prot = some pm := by
  obtain ⟨h1, h2, h3, h4, h5⟩ := stable_list sigs cs hst
  have hwc : wireCbor .sign w = some (.arr [bytesCbor w.prot, u, bytesCbor w.payload, .arr cs]) := by
    simp [wireCbor, hu, hs, h1]
  have hwfarr : WF (.arr [bytesCbor w.prot, u, bytesCbor w.payload, .arr cs]) := by
    simp only [WF, WFList, maxElems, List.length_cons, List.length_nil]
    refine ⟨by omega, wf_bytesCbor _ hp, huw, wf_bytesCbor _ hy, ⟨?_, h3⟩, trivial⟩
    rw [h2]; exact hn
  have hdarr : depth (.arr [bytesCbor w.prot, u, bytesCbor w.payload, .arr cs]) < maxNesting := by
    simp only [depth, depthList, depth_bytesCbor, maxNesting] at hud ⊢; omega
  obtain ⟨c, hc1, hc2⟩ := decode_marshalled .sign _ hwfarr hdarr
  have hmar : marshal .sign w = some (encode (.tag Kind.sign.tagNum (.arr [bytesCbor w.prot, u, bytesCbor w.payload, .arr cs]))) := by
    unfold marshal; rw [hwc]; rfl
  have hwire : wireOfCbor .sign c = .ok { prot := w.prot, unprot := uh, payload := w.payload, sigs := some sigs } := by
    rw [wireOfCbor_untag, hc2]
    simp only [wireOfCbor, untag_arr, bytesField_bytesCbor, huf, h5]
  obtain ⟨pv, hpv⟩ : ∃ pv, payloadFromWire .raw w.payload (zeroPayload .raw) = .ok pv := by
    cases hq : w.payload with
    | none => exact ⟨_, rfl⟩
    | some l => cases l <;> exact ⟨_, rfl⟩
  refine ⟨_, ⟨.sign, some pm, uh, pv, some { prot := w.prot, unprot := uh, payload := w.payload, sigs := some sigs }⟩, _,
    hmar, ?_, rfl, rfl, rfl, rfl, rfl⟩
  unfold unmarshal
  rw [hc1]
  have hrr : ∀ d, recipientsRawOk .sign d = true := by intro d; simp [recipientsRawOk]
  have hnot : ((Kind.sign == Kind.mac || Kind.sign == Kind.encrypt) && ([] : List Recip).isEmpty) = false := rfl
  have hnot2 : (Kind.sign == Kind.encrypt0 || Kind.sign == Kind.encrypt) = false := rfl
  simp only [hrr, hwire, Bool.not_true, Bool.false_eq_true, if_false, Option.getD_none, hnot, hpm, hnot2, hpv]

/-- `SignMessage.Verify` looks at the retained wire struct only through the body protected bytes, the payload and the
    signature objects: with those preserved the verdict is preserved -/
theorem sign_reencoded_same_verdict (m m2 : Msg) (w w2 : Wire) (hm : m.mm = some w) (hm2 : m2.mm = some w2)
    (h1 : w2.prot = w.prot) (h2 : w2.payload = w.payload) (h3 : w2.sigs = w.sigs)
    (vs : List Verifier) (ext : Option Bytes) :
    verifySign m2 vs ext = verifySign m vs ext := by
  unfold verifySign
  simp only [hm, hm2, h3]
  have hgo : ∀ sigs, verifySign.go vs ext w2 sigs = verifySign.go vs ext w sigs := by
    intro sigs
    induction sigs with
    | nil => simp [verifySign.go]
    | cons s rest ih =>
      unfold verifySign.go
      simp only [tobe_congr w w2 h1 h2, ih]
  cases w.sigs with
  | none => rfl
  | some sigs => simp only [hgo]

/-! ### non-vacuity: a signature object decoded from a peer's non-canonical bucket `a1 01 38 06` ({1: -7}, long head) -/

def foreignSig : SigObj := ⟨[(.int 1, .int .i64 (-7))], some [0xa1, 0x01, 0x38, 0x06], some [(.int 4, .bytes [1])], some [9, 9]⟩

theorem foreignSig_stable :
    SigStable foreignSig (.arr [.bstr [0xa1, 0x01, 0x38, 0x06], .map [(.uint 4, .bstr [1])], .bstr [9, 9]]) where
  raw := by
    refine ⟨[0xa1, 0x01, 0x38, 0x06], .map [(.uint 4, .bstr [1])], .bstr [9, 9], rfl, by decide, by with_unfolding_all rfl, by with_unfolding_all rfl,
      (kid_map_wf [1] (by decide)).1, by simp [depth, depthPairs], by with_unfolding_all rfl, ?_, rfl, rfl⟩
    intro x h; cases h; decide

example : All2 SigStable [foreignSig, foreignSig]
    [.arr [.bstr [0xa1, 0x01, 0x38, 0x06], .map [(.uint 4, .bstr [1])], .bstr [9, 9]],
     .arr [.bstr [0xa1, 0x01, 0x38, 0x06], .map [(.uint 4, .bstr [1])], .bstr [9, 9]]] := .cons foreignSig_stable (.cons foreignSig_stable .nil)

end Cose.Props.C09Sign
