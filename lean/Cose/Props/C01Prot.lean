import Cose.Props.C01
import Cose.Props.C09
import Cose.Props.C05
import Cose.Props.C01Enc
/-!
# C01 — COSE_Sign1 / COSE_Mac0 round trip with a caller-supplied protected header map

`Props/C01.lean` proves the round trip for the default protected bucket `{1: alg}`.  Here the caller hands over its own
protected map — any label map with pairwise distinct in-range labels and scalar / list values, in whatever order a Go
map presents its entries, that does not contradict the key's algorithm:

* `auth4_roundtrip_prot_gen` — the message-level argument over an abstract bucket: if the map encodes to `pb` and
  `pb` decodes to `pm` which does not contradict the verifying key, then the produced message is decoded back with
  protected bytes `pb`, decoded protected map `pm`, the same payload and signature / tag, and verifies;
* `auth4_roundtrip_prot` — the bucket facts discharged by the label-map round trip (`Go/Roundtrip.lean`): the decoded
  protected map answers every look-up like the original (values in their decoded form), so in particular the
  algorithm check sees the same algorithm on both sides.
-/
namespace Cose.Props.C01Prot
open Cose.Msg Cose.Go Cose.Cbor Cose.Gen Cose.Props.C01

theorem head_ne_nil (mt n : Nat) : head mt n ≠ [] := by
  unfold head; split <;> (try split) <;> (try split) <;> (try split) <;> simp

theorem encode_ne_nil (v : Cbor) : encode v ≠ [] := by
  cases v with
  | float ai bits => simp only [encode]; split <;> (try split) <;> simp
  | uint n => simp only [encode]; exact head_ne_nil _ _
  | nint n => simp only [encode]; exact head_ne_nil _ _
  | simple n => simp only [encode]; exact head_ne_nil _ _
  | bstr b => simp only [encode]; intro h; exact head_ne_nil _ _ (List.append_eq_nil_iff.mp h).1
  | tstr b => simp only [encode]; intro h; exact head_ne_nil _ _ (List.append_eq_nil_iff.mp h).1
  | arr xs => simp only [encode]; intro h; exact head_ne_nil _ _ (List.append_eq_nil_iff.mp h).1
  | map kvs => simp only [encode]; intro h; exact head_ne_nil _ _ (List.append_eq_nil_iff.mp h).1
  | tag t w => simp only [encode]; intro h; exact head_ne_nil _ _ (List.append_eq_nil_iff.mp h).1

/-- the message-level argument, over an abstract protected bucket -/
theorem auth4_roundtrip_prot_gen (k : Kind) (hk : k = .sign1 ∨ k = .mac0) (pv pv' : PVal) (mode : PMode)
    (payload ext : Option Bytes) (prot : CMap) (unprot : Hdr)
    (key vkey : KeyView) (auth : Bytes → Res Bytes) (check : Bytes → Bytes → Res Unit)
    (hcorr : SigCorrect auth check)
    (pb : Bytes) (hpbytes : hdrBytes (some prot) = .ok pb) (hpbl : pb.length < two64)
    (pm : CMap) (hpm : hdrFromBytes (some pb) = .ok pm) (hmm : algMismatch pm vkey.alg = false)
    (hpw : payloadToWire pv = .ok payload) (hpf : payloadFromWire mode payload (zeroPayload mode) = .ok pv')
    (m1 : Msg) (h : produceAuth ⟨k, some prot, unprot, pv, none⟩ key auth ext = .ok m1)
    (w : Wire) (hw : m1.mm = some w) (u : Cbor) (hu : hdrCbor w.unprot = some u)
    (u' : Cbor) (heq : encode u' = encode u) (huw : WF u')
    (hud : depth u' + 2 < maxNesting) (uh : Hdr) (huf : hdrField u' = .ok uh)
    (hpl : ∀ x, payload = some x → x.length < two64) (hsl : ∀ x, w.auth = some x → x.length < two64) :
    ∃ bytes m2 w2, marshal k w = some bytes ∧ unmarshal k mode bytes = .ok m2 ∧ m2.mm = some w2 ∧
      w.prot = some pb ∧ w2.prot = some pb ∧ w2.payload = payload ∧ w2.auth = w.auth ∧
      m2.payload = pv' ∧ m2.prot = some pm ∧
      verifyAuth m2 vkey check ext = .ok () ∧ m2.unprot = uh := by
  unfold produceAuth at h
  simp only [fillProtected] at h
  by_cases hmis : algMismatch prot key.alg = true
  · simp [hmis] at h
  simp only [hmis, Bool.false_eq_true, if_false, hpbytes, hpw] at h
  cases htb : tobe k (Wire.mk (some pb) (some (fillUnprotected unprot key)) payload none none none) none ext with
  | err e => simp [htb] at h
  | panic e => simp [htb] at h
  | ok tb =>
    simp only [htb] at h
    cases hsig : auth tb with
    | err e => simp [hsig] at h
    | panic e => simp [hsig] at h
    | ok sig =>
      simp only [hsig, Res.ok.injEq] at h
      subst h
      simp only [Option.some.injEq] at hw
      subst hw
      simp only at hu hsl ⊢
      have hwc : wireCbor k { prot := some pb, unprot := some (fillUnprotected unprot key), payload := payload, auth := some sig } =
          some (.arr [.bstr pb, u, bytesCbor payload, .bstr sig]) := by
        rcases hk with rfl | rfl <;> simp [wireCbor, hu, bytesCbor]
      have henc4 : encode (.tag k.tagNum (.arr [.bstr pb, u, bytesCbor payload, .bstr sig])) =
          encode (.tag k.tagNum (.arr [.bstr pb, u', bytesCbor payload, .bstr sig])) := by
        simp only [encode, encodeList, heq, List.length_cons, List.length_nil]
      have hwfarr : WF (.arr [.bstr pb, u', bytesCbor payload, .bstr sig]) := by
        simp only [WF, WFList, maxElems, List.length_cons, List.length_nil]
        exact ⟨by omega, hpbl, huw, wf_bytesCbor payload hpl, hsl sig rfl, trivial⟩
      have hdarr : depth (.arr [.bstr pb, u', bytesCbor payload, .bstr sig]) < maxNesting := by
        simp only [depth, depthList, depth_bytesCbor]; omega
      obtain ⟨c, hc1, hc2⟩ := decode_marshalled k _ hwfarr hdarr
      refine ⟨encode (.tag k.tagNum (.arr [.bstr pb, u, bytesCbor payload, .bstr sig])), ?_⟩
      have hmar : marshal k { prot := some pb, unprot := some (fillUnprotected unprot key), payload := payload, auth := some sig } =
          some (encode (.tag k.tagNum (.arr [.bstr pb, u, bytesCbor payload, .bstr sig]))) := by
        unfold marshal; rw [hwc]; rfl
      have hrr : recipientsRawOk k (applyStrip (encode (.tag k.tagNum (.arr [.bstr pb, u', bytesCbor payload, .bstr sig]))) (stripSteps k)) = true := by
        rcases hk with rfl | rfl <;> simp [recipientsRawOk]
      have hwire : wireOfCbor k c = .ok { prot := some pb, unprot := uh, payload := payload, auth := some sig } := by
        rw [wireOfCbor_untag, hc2]
        show wireOfCbor k (.arr [bytesCbor (some pb), u', bytesCbor payload, bytesCbor (some sig)]) = _
        rw [wire4_fields k hk, huf]
      have hnot : ((k == Kind.mac || k == Kind.encrypt) && ([] : List Recip).isEmpty) = false := by
        rcases hk with rfl | rfl <;> rfl
      have hnot2 : (k == Kind.encrypt0 || k == Kind.encrypt) = false := by
        rcases hk with rfl | rfl <;> rfl
      refine ⟨⟨k, some pm, uh, pv',
        some { prot := some pb, unprot := uh, payload := payload, auth := some sig }⟩, _, hmar, ?_, rfl, trivial, rfl, rfl, rfl,
        rfl, rfl, ?_, rfl⟩
      · unfold unmarshal
        rw [henc4, hc1]
        simp only [hrr, hwire, Bool.not_true, Bool.false_eq_true, if_false, Option.getD_none, hnot, hpm, hnot2, hpf]
      · unfold verifyAuth
        simp only [Option.getD_some, hmm, Bool.false_eq_true, if_false]
        have htb2 : tobe k { prot := some pb, unprot := uh, payload := payload, auth := some sig } none ext = .ok tb := by
          rw [← htb]; unfold tobe; rfl
        rw [htb2]
        exact hcorr tb sig hsig

/-- the algorithm check reads the protected map only through look-ups that the label-map round trip preserves -/
theorem algMismatch_of_lookup (p p' : CMap) (a : Int) (hok : ∀ kv ∈ p, EntryOk kv) (hnd : (p.map (·.1)).Nodup)
    (hl : ∀ l, p'.lookup l = (p.lookup l).map normV) : algMismatch p' a = algMismatch p a := by
  unfold algMismatch headerAlg CMap.has
  rw [hl]
  cases h : p.lookup (Msg.lbl Iana.HeaderParameterAlg) with
  | none => rfl
  | some v =>
    have hf : Flat v := (hok (_, v) ((lookup_eq_some_iff p _ v hnd).mp h)).2
    simp only [Option.map_some, Option.isSome_some, Bool.true_and, getInt_normV hf]

/-- **COSE_Sign1 / COSE_Mac0 round trip, any caller-supplied protected map**: for every payload, external data, key
    and every non-empty protected map with distinct in-range labels and scalar / list values, in any entry order,
    which `WithSign` / `Compute` accepts (it does not name another algorithm than the key's) — the produced message is
    decoded back with the protected bytes that were authenticated, a protected map that answers every look-up like
    the original, the same payload and signature / tag, and verifies under a key of the signer's algorithm. -/
theorem auth4_roundtrip_prot (k : Kind) (hk : k = .sign1 ∨ k = .mac0) (pv pv' : PVal) (mode : PMode)
    (payload ext : Option Bytes) (prot : CMap) (unprot : Hdr)
    (key vkey : KeyView) (auth : Bytes → Res Bytes) (check : Bytes → Bytes → Res Unit)
    (hcorr : SigCorrect auth check) (hvk : vkey.alg = key.alg)
    (hne : prot ≠ []) (hok : ∀ kv ∈ prot, EntryOk kv) (hnd : (prot.map (·.1)).Nodup) (hlen : prot.length ≤ maxElems)
    (hpbl : ∀ pb, encodeCMap prot = some pb → pb.length < two64)
    (hpw : payloadToWire pv = .ok payload) (hpf : payloadFromWire mode payload (zeroPayload mode) = .ok pv')
    (m1 : Msg) (h : produceAuth ⟨k, some prot, unprot, pv, none⟩ key auth ext = .ok m1)
    (w : Wire) (hw : m1.mm = some w) (u : Cbor) (hu : hdrCbor w.unprot = some u)
    (u' : Cbor) (heq : encode u' = encode u) (huw : WF u')
    (hud : depth u' + 2 < maxNesting) (uh : Hdr) (huf : hdrField u' = .ok uh)
    (hpl : ∀ x, payload = some x → x.length < two64) (hsl : ∀ x, w.auth = some x → x.length < two64) :
    ∃ bytes m2 w2 pm, marshal k w = some bytes ∧ unmarshal k mode bytes = .ok m2 ∧ m2.mm = some w2 ∧
      w2.prot = w.prot ∧ w2.payload = payload ∧ w2.auth = w.auth ∧
      m2.payload = pv' ∧ m2.prot = some pm ∧ (∀ l, pm.lookup l = (prot.lookup l).map normV) ∧
      verifyAuth m2 vkey check ext = .ok () ∧ m2.unprot = uh := by
  obtain ⟨pb, pm, henc, hdec, _, hlook⟩ := cmap_roundtrip prot hok hnd hlen
  have hpbytes : hdrBytes (some prot) = .ok pb := by
    cases prot with
    | nil => exact absurd rfl hne
    | cons a r => simp only [hdrBytes, henc]
  have hpbne : pb ≠ [] := by
    unfold encodeCMap at henc
    cases hc : prot.toCbor with
    | none => simp [hc] at henc
    | some c => simp only [hc, Option.map_some, Option.some.injEq] at henc; rw [← henc]; exact encode_ne_nil c
  have hpm : hdrFromBytes (some pb) = .ok pm := by
    cases pb with
    | nil => exact absurd rfl hpbne
    | cons a r => simpa only [hdrFromBytes] using hdec
  -- production succeeded, so the supplied map does not contradict the key
  have hmis : algMismatch prot key.alg = false := by
    unfold produceAuth at h
    simp only [fillProtected] at h
    cases hq : algMismatch prot key.alg with
    | false => rfl
    | true => simp [hq] at h
  have hmm : algMismatch pm vkey.alg = false := by
    rw [algMismatch_of_lookup prot pm vkey.alg hok hnd hlook, hvk]; exact hmis
  obtain ⟨bytes, m2, w2, h1, h2, h3, h4, h5, h6, h7, h8, h9, h10, h11⟩ :=
    auth4_roundtrip_prot_gen k hk pv pv' mode payload ext prot unprot key vkey auth check hcorr pb hpbytes
      (hpbl pb henc) pm hpm hmm hpw hpf m1 h w hw u hu u' heq huw hud uh huf hpl hsl
  exact ⟨bytes, m2, w2, pm, h1, h2, h3, by rw [h4, h5], h6, h7, h8, h9, hlook, h10, h11⟩

/-- what a non-empty caller-supplied protected map becomes: the bytes `Headers.Bytes()` gives, and the map those bytes
    decode to — which answers every look-up like the original and passes the same algorithm check -/
theorem supplied_bucket (prot : CMap) (alg : Int)
    (hne : prot ≠ []) (hok : ∀ kv ∈ prot, EntryOk kv) (hnd : (prot.map (·.1)).Nodup) (hlen : prot.length ≤ maxElems) :
    ∃ pb pm, encodeCMap prot = some pb ∧ hdrBytes (some prot) = .ok pb ∧ hdrFromBytes (some pb) = .ok pm ∧
      (∀ l, pm.lookup l = (prot.lookup l).map normV) ∧ algMismatch pm alg = algMismatch prot alg := by
  obtain ⟨pb, pm, henc, hdec, _, hlook⟩ := cmap_roundtrip prot hok hnd hlen
  have hpbytes : hdrBytes (some prot) = .ok pb := by
    cases prot with
    | nil => exact absurd rfl hne
    | cons a r => simp only [hdrBytes, henc]
  have hpbne : pb ≠ [] := by
    unfold encodeCMap at henc
    cases hc : prot.toCbor with
    | none => simp [hc] at henc
    | some c => simp only [hc, Option.map_some, Option.some.injEq] at henc; rw [← henc]; exact encode_ne_nil c
  have hpm : hdrFromBytes (some pb) = .ok pm := by
    cases pb with
    | nil => exact absurd rfl hpbne
    | cons a r => simpa only [hdrFromBytes] using hdec
  exact ⟨pb, pm, henc, hpbytes, hpm, hlook, algMismatch_of_lookup prot pm alg hok hnd hlook⟩

/-- **COSE_Encrypt0 round trip with a caller-supplied protected map**: every payload, external data, key, nonce choice,
    unprotected map as in `enc0_roundtrip`, and any non-empty protected map with distinct in-range labels and scalar /
    list values, in any entry order, that `Encrypt` accepts: the decoder returns a protected map answering every
    look-up like the original, the AAD is built over the very protected bytes that were emitted, and `Decrypt` gives
    back the payload. -/
theorem enc0_roundtrip_prot (payload ext : Option Bytes) (prot : CMap) (unprot : Hdr) (e : Encryptor) (rnd : Bytes)
    (hcorr : AeadCorrect e) (hrnd : rnd ≠ [])
    (hne : prot ≠ []) (hokp : ∀ kv ∈ prot, EntryOk kv) (hndp : (prot.map (·.1)).Nodup) (hlenp : prot.length ≤ maxElems)
    (hpbl : ∀ pb, encodeCMap prot = some pb → pb.length < two64)
    (m1 : Msg) (h : produceEnc ⟨.encrypt0, some prot, unprot, .bytes payload, none⟩ e ext rnd = .ok m1)
    (w : Wire) (hw : m1.mm = some w) (fm : CMap) (hfm : w.unprot = some fm)
    (hok : ∀ kv ∈ fm, EntryOk kv) (hnd : (fm.map (·.1)).Nodup) (hlen : fm.length ≤ maxElems)
    (hiv : fm.lookup (Msg.lbl Iana.HeaderParameterIV) ≠ some .bnil)
    (hpiv : fm.lookup (Msg.lbl Iana.HeaderParameterPartialIV) ≠ some .bnil)
    (hcl : ∀ x, w.payload = some x → x.length < two64) :
    ∃ bytes m2 pm, marshal .encrypt0 w = some bytes ∧ unmarshal .encrypt0 .raw bytes = .ok m2 ∧
      m2.prot = some pm ∧ (∀ l, pm.lookup l = (prot.lookup l).map normV) ∧
      decryptEnc m2 .raw e ext = .ok (.bytes (nonEmpty payload)) := by
  obtain ⟨pb, pm, hencp, hpbytes, hpm, hlookp, hmmeq⟩ := supplied_bucket prot e.key.alg hne hokp hndp hlenp
  unfold produceEnc at h
  simp only [fillProtected] at h
  by_cases hmis : algMismatch prot e.key.alg = true
  · simp [hmis] at h
  have hmis' : algMismatch prot e.key.alg = false := by
    cases hq : algMismatch prot e.key.alg with
    | false => rfl
    | true => exact absurd hq hmis
  simp only [hmis, Bool.false_eq_true, if_false] at h
  have key : ∃ iv fm' aad ct, w = { prot := some pb, unprot := some fm', payload := some ct } ∧
      tobe .encrypt0 { prot := some pb, unprot := some fm', payload := none } none ext = .ok aad ∧
      e.encrypt iv (payload.getD []) aad = .ok ct ∧
      selectNonce fm' e.key e.nonceSize = .ok (.given iv) := by
    obtain ⟨u0, hu0⟩ : ∃ u0, u0 = fillUnprotected unprot e.key := ⟨_, rfl⟩
    rw [← hu0] at h
    cases hsel : selectNonce u0 e.key e.nonceSize with
    | err er => simp [hsel] at h
    | panic er => simp [hsel] at h
    | ok choice =>
      simp only [hsel, hpbytes, payloadToWire] at h
      cases choice with
      | given iv =>
        simp only at h
        cases htb : tobe .encrypt0 { prot := some pb, unprot := some u0, payload := none } none ext with
        | err er => simp [htb] at h
        | panic er => simp [htb] at h
        | ok aad =>
          simp only [htb] at h
          cases henc : e.encrypt iv (payload.getD []) aad with
          | err er => simp [henc] at h
          | panic er => simp [henc] at h
          | ok ct =>
            simp only [henc, Res.ok.injEq] at h
            subst h
            simp only [Option.some.injEq] at hw
            exact ⟨iv, u0, aad, ct, hw.symm, htb, henc, hsel⟩
      | random =>
        simp only at h
        obtain ⟨u1, hu1⟩ : ∃ u1, u1 = u0.set (Msg.lbl Iana.HeaderParameterIV) (.bytes rnd) := ⟨_, rfl⟩
        rw [← hu1] at h
        cases htb : tobe .encrypt0 { prot := some pb, unprot := some u1, payload := none } none ext with
        | err er => simp [htb] at h
        | panic er => simp [htb] at h
        | ok aad =>
          simp only [htb] at h
          cases henc : e.encrypt rnd (payload.getD []) aad with
          | err er => simp [henc] at h
          | panic er => simp [henc] at h
          | ok ct =>
            simp only [henc, Res.ok.injEq] at h
            subst h
            simp only [Option.some.injEq] at hw
            exact ⟨rnd, u1, aad, ct, hw.symm, htb, henc, by rw [hu1]; exact selectNonce_after_publish _ _ _ _ hrnd hsel⟩
  obtain ⟨iv, fm', aad, ct, hwe, htb, henc, hsel2⟩ := key
  subst hwe
  simp only [Option.some.injEq] at hfm
  subst hfm
  obtain ⟨bytes, uh, hmar, hun, hlook⟩ := enc0_decode pb ct fm' .raw hok hnd hlen (hpbl pb hencp) (hcl ct rfl) pm hpm
  refine ⟨bytes, _, pm, hmar, hun, rfl, hlookp, ?_⟩
  have hs : selectNonce uh e.key e.nonceSize = .ok (.given iv) := by
    rw [selectNonce_congr fm' uh e.key e.nonceSize
      (getBytes_lookup_norm fm' uh hok hnd hlook _ hiv) (getBytes_lookup_norm fm' uh hok hnd hlook _ hpiv)]
    exact hsel2
  have htb2 : tobe .encrypt0 { prot := some pb, unprot := some uh, payload := none } none ext = .ok aad := by
    rw [← htb]; unfold tobe; rfl
  have hmm : algMismatch pm e.key.alg = false := by rw [hmmeq]; exact hmis'
  unfold decryptEnc
  simp only [Option.getD_some, hmm, Bool.false_eq_true, if_false, htb2, hs, NonceChoice.ivOrEmpty,
    hcorr iv _ aad ct henc]
  cases payload with
  | none => rfl
  | some l => cases l <;> rfl

/-! ## named byte-slice payloads (`key.ByteStr`, `type Blob []byte`)

A payload whose Go type is a *named* byte-slice type is not taken as the raw payload octets: it is CBOR-encoded (a byte
string; nil is `null`) on the way out and CBOR-decoded on the way in.  Both directions must agree, or the value read
back is not the value signed. -/

theorem named_payload_wire (b : Option Bytes) (hb : ∀ x, b = some x → x.length < two64) :
    ∃ y, payloadToWire (.named b) = .ok (some y) ∧ payloadFromWire .named (some y) (zeroPayload .named) = .ok (.named b) ∧
      (b = none → y = [0xf6]) ∧ (∀ x, b = some x → y = encode (.bstr x)) := by
  cases b with
  | none =>
    refine ⟨encode Cbor.null, rfl, ?_, (fun _ => by rfl), (fun x hx => by cases hx)⟩
    with_unfolding_all rfl
  | some x =>
    have hx := hb x rfl
    refine ⟨encode (.bstr x), rfl, ?_, (fun h => by cases h), (fun x' hx' => by cases hx'; rfl)⟩
    have hdec : decodeAll (encode (.bstr x)) = some (.bstr x) :=
      decodeAll_encode (.bstr x) (by simpa [WF] using hx) (by simp [depth])
    have hne := encode_ne_nil (.bstr x)
    cases he : encode (.bstr x) with
    | nil => exact absurd he hne
    | cons a r =>
      rw [he] at hdec
      simp only [payloadFromWire, hdec, Option.map_some, untag]

/-- **COSE_Sign1 / COSE_Mac0 round trip with a named byte-slice payload**, nil included: the payload member on the
    wire is the CBOR encoding of the octets (what is signed), and the decoder in the same mode hands back exactly the
    octets (nil for nil) and the message verifies -/
theorem auth4_roundtrip_named (k : Kind) (hk : k = .sign1 ∨ k = .mac0) (b ext : Option Bytes) (unprot : Hdr)
    (key vkey : KeyView) (auth : Bytes → Res Bytes) (check : Bytes → Bytes → Res Unit)
    (hcorr : SigCorrect auth check) (hvk : vkey.alg = key.alg) (ha : key.alg ≠ 0)
    (har : -2147483648 ≤ key.alg ∧ key.alg ≤ 2147483647)
    (hb : ∀ x, b = some x → x.length + 9 < two64)
    (m1 : Msg) (h : produceAuth ⟨k, none, unprot, .named b, none⟩ key auth ext = .ok m1)
    (w : Wire) (hw : m1.mm = some w)
    (hok : ∀ kv ∈ fillUnprotected unprot key, EntryOk kv)
    (hnd : ((fillUnprotected unprot key).map (·.1)).Nodup)
    (hlen : (fillUnprotected unprot key).length ≤ maxElems)
    (hsl : ∀ x, w.auth = some x → x.length < two64) :
    ∃ bytes m2 w2 uh, marshal k w = some bytes ∧ unmarshal k .named bytes = .ok m2 ∧ m2.mm = some w2 ∧
      w2.prot = w.prot ∧ w2.payload = w.payload ∧ w2.auth = w.auth ∧
      m2.payload = .named b ∧ verifyAuth m2 vkey check ext = .ok () ∧ m2.unprot = some uh ∧
      ∀ l, uh.lookup l = ((fillUnprotected unprot key).lookup l).map normV := by
  obtain ⟨y, hpw, hpf, hn, hs⟩ := named_payload_wire b (fun x hx => by have := hb x hx; omega)
  have hyl : ∀ x, some y = some x → x.length < two64 := by
    intro x hx
    cases hx
    cases b with
    | none => rw [hn rfl]; simp [two64]
    | some x =>
      rw [hs x rfl]
      have h9 := hb x rfl
      have hh : (head 2 x.length).length ≤ 9 := by
        unfold head; split <;> (try split) <;> (try split) <;> (try split) <;> simp
      simp only [encode, List.length_append]; omega
  obtain ⟨bytes, m2, w2, uh, h1, h2, h3, h4, h5, h6, h7, h8, h9, h10⟩ :=
    auth4_roundtrip_any_order_gen k hk (.named b) (.named b) .named (some y) ext unprot key vkey auth check
      hcorr hvk ha har hpw hpf m1 h w hw hok hnd hlen hyl hsl
  have hwy : w.payload = some y := by
    unfold produceAuth at h
    have hfp : fillProtected none key = .ok [(Msg.lbl Iana.HeaderParameterAlg, .int .alg key.alg)] :=
      Cose.Props.C05.default_protected_records_alg key ha
    simp only [hfp, default_bucket_bytes key.alg ha, hpw] at h
    split at h
    · split at h
      · simp only [Res.ok.injEq] at h; subst h; simp only [Option.some.injEq] at hw; subst hw; rfl
      · cases h
      · cases h
    · cases h
    · cases h
  exact ⟨bytes, m2, w2, uh, h1, h2, h3, h4, by rw [h5, hwy], h6, h7, h8, h9, h10⟩

/-! ### non-vacuity: a protected map a caller would supply — `{1: ES256, 3: "application/cwt"-like content type 61, 4: h'0102'}`,
    handed over in non-canonical order — meets every hypothesis on the map, and does not contradict an ES256 key -/

def sampleProt : CMap := [(Msg.lbl 4, .bytes [1, 2]), (Msg.lbl 1, .int .int (-7)), (Msg.lbl 3, .int .int 61)]

example : sampleProt ≠ [] ∧ (∀ kv ∈ sampleProt, EntryOk kv) ∧ (sampleProt.map (·.1)).Nodup ∧
    sampleProt.length ≤ maxElems ∧ algMismatch sampleProt (-7) = false ∧ algMismatch sampleProt (-35) = true := by
  refine ⟨by decide, ?_, by decide, by decide, by decide, by decide⟩
  intro kv h
  simp only [sampleProt, List.mem_cons, List.mem_nil_iff, or_false] at h
  rcases h with rfl | rfl | rfl
  · exact ⟨by decide, .scalar _ (.bytes _ (by decide))⟩
  · exact ⟨by decide, .scalar _ (.int _ _ (by decide) (by intro h; cases h))⟩
  · exact ⟨by decide, .scalar _ (.int _ _ (by decide) (by intro h; cases h))⟩

end Cose.Props.C01Prot
