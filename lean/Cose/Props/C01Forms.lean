import Cose.Msg.RoundtripRaw
import Cose.Props.C01
/-!
# C01 — tagged, untagged and CWT-tagged input are decoded alike

`unmarshal_form_independent`: for each of the six kinds and every well-formed wire array, `UnmarshalCBOR` answers the
same on the bare array, on the array under the kind's tag (what `MarshalCBOR` emits) and on that under the CWT tag 61 —
prefix stripping, strict decoding, the recipients' first-octet dispatch and the field decoding included.  Every round
trip theorem stated for the tagged form (`auth4_roundtrip…`, `enc0_roundtrip`, `sign_roundtrip`, `mac_roundtrip`,
`encrypt_roundtrip`, `sign_reencode_fixpoint`) therefore holds for the other two forms as well.
-/
namespace Cose.Props.C01
open Cose.Msg Cose.Go Cose.Cbor Cose.Gen

/-- `UnmarshalCBOR` sees its input only through the stripped bytes -/
theorem unmarshal_of_strip (k : Kind) (mode : PMode) (d1 d2 : Bytes)
    (h : applyStrip d1 (stripSteps k) = applyStrip d2 (stripSteps k)) : unmarshal k mode d1 = unmarshal k mode d2 := by
  unfold unmarshal; rw [h]

/-- the decoder's view of a stripped input that is still tagged equals its view of the bare array -/
theorem unmarshal_view (k : Kind) (mode : PMode) (xs : List Cbor) (hw : WF (.arr xs)) (hd : depth (.arr xs) < maxNesting)
    (d1 d2 : Bytes)
    (h1 : applyStrip d1 (stripSteps k) = encode (.arr xs))
    (h2 : applyStrip d2 (stripSteps k) = encode (.tag k.tagNum (.arr xs))) :
    unmarshal k mode d1 = unmarshal k mode d2 := by
  have hwt : WF (.tag k.tagNum (.arr xs)) := by
    refine ⟨?_, hw, ?_⟩
    · cases k <;> (simp only [two64]; decide +kernel)
    · have : ∀ t, t ≥ 4 → tagContentOk t (.arr xs) = true := by
        intro t ht; simp [tagContentOk]; omega
      apply this
      cases k <;> decide +kernel
  have hdt : depth (.tag k.tagNum (.arr xs)) ≤ maxNesting := by
    simp only [depth, isTag, Bool.false_eq_true, if_false] at hd ⊢; omega
  have tagged := decodeAll_encode _ hwt hdt
  have plain := decodeAll_encode _ hw (by omega)
  have r1 := rawArrayElems_encode_arr xs hw
  have r2 := rawArrayElems_tagged k.tagNum (by cases k <;> decide +kernel) xs hw
  unfold unmarshal
  rw [h1, h2, tagged, plain]
  have hrr : recipientsRawOk k (encode (.arr xs)) = recipientsRawOk k (encode (.tag k.tagNum (.arr xs))) := by
    unfold recipientsRawOk; rw [r1, r2]
  rw [hrr]
  simp only
  rw [wireOfCbor_untag k (.tag k.tagNum (.arr xs))]
  rfl

/-- a step list none of whose prefixes starts with the first octet of the data leaves the data alone -/
theorem strip_noop (b : UInt8) (rest : Bytes) (steps : List (Bytes × Nat))
    (h : ∀ s ∈ steps, ∃ p ps, s.1 = p :: ps ∧ p ≠ b) : applyStrip (b :: rest) steps = b :: rest := by
  unfold applyStrip
  induction steps with
  | nil => rfl
  | cons s ss ih =>
    obtain ⟨p, ps, hp, hne⟩ := h s (List.mem_cons_self ..)
    have : List.isPrefixOf s.1 (b :: rest) = false := by
      rw [hp]; simp [List.isPrefixOf, hne]
    simp only [List.foldl_cons, this, Bool.false_eq_true, if_false]
    exact ih (fun x hx => h x (List.mem_cons_of_mem _ hx))

/-- the bare array is not touched by the prefix stripping -/
theorem applyStrip_bare (k : Kind) (xs : List Cbor) (hl : xs.length < 24) :
    applyStrip (encode (.arr xs)) (stripSteps k) = encode (.arr xs) := by
  obtain ⟨rest, hr⟩ := encode_arr_first xs hl
  rw [hr]
  have hb : (u8 (4 * 32 + xs.length)).toNat = 128 + xs.length := by rw [u8_toNat (by omega)]
  have hne : ∀ t : UInt8, t.toNat ≥ 0xd0 → t ≠ u8 (4 * 32 + xs.length) := by
    intro t ht he; rw [he, hb] at ht; omega
  apply strip_noop
  have hs : (stripSteps k).all (fun s => match s.1 with | p :: _ => decide (p.toNat ≥ 0xd0) | [] => false) = true := by
    cases k <;> decide +kernel
  intro s hsm
  have := List.all_eq_true.mp hs s hsm
  cases h1 : s.1 with
  | nil => simp [h1] at this
  | cons p ps =>
    simp only [h1, decide_eq_true_eq] at this
    exact ⟨p, ps, rfl, hne p this⟩

/-- under the CWT tag: the first stripping step removes `d8 3d`, the rest goes on as for the tagged form -/
theorem applyStrip_cwt (k : Kind) (xs : List Cbor) :
    applyStrip (0xd8 :: 0x3d :: encode (.tag k.tagNum (.arr xs))) (stripSteps k) =
      applyStrip (encode (.tag k.tagNum (.arr xs))) (stripSteps k) := by
  have henc : encode (.tag k.tagNum (.arr xs)) = head 6 k.tagNum ++ encode (.arr xs) := rfl
  rw [henc]
  cases k
  case sign1 =>
    have hs : stripSteps .sign1 = [([0xd8, 0x3d], 2), ([0xd2, 0x84], 1)] := by decide +kernel
    have hh : head 6 Kind.sign1.tagNum = [0xd2] := by decide +kernel
    rw [hs, hh]; simp [applyStrip]
  case mac0 =>
    have hs : stripSteps .mac0 = [([0xd8, 0x3d], 2), ([0xd1, 0x84], 1)] := by decide +kernel
    have hh : head 6 Kind.mac0.tagNum = [0xd1] := by decide +kernel
    rw [hs, hh]; simp [applyStrip]
  case encrypt0 =>
    have hs : stripSteps .encrypt0 = [([0xd8, 0x3d], 2), ([0xd0, 0x83], 1)] := by decide +kernel
    have hh : head 6 Kind.encrypt0.tagNum = [0xd0] := by decide +kernel
    rw [hs, hh]; simp [applyStrip]
  case sign =>
    have hs : stripSteps .sign = [([0xd8, 0x3d], 2), ([0xd8, 0x62, 0x84], 2)] := by decide +kernel
    have hh : head 6 Kind.sign.tagNum = [0xd8, 0x62] := by decide +kernel
    rw [hs, hh]; simp [applyStrip]
  case mac =>
    have hs : stripSteps .mac = [([0xd8, 0x3d], 2), ([0xd8, 0x61, 0x85], 2)] := by decide +kernel
    have hh : head 6 Kind.mac.tagNum = [0xd8, 0x61] := by decide +kernel
    rw [hs, hh]; simp [applyStrip]
  case encrypt =>
    have hs : stripSteps .encrypt = [([0xd8, 0x3d], 2), ([0xd8, 0x60, 0x84], 2)] := by decide +kernel
    have hh : head 6 Kind.encrypt.tagNum = [0xd8, 0x60] := by decide +kernel
    rw [hs, hh]; simp [applyStrip]

/-- **tagged, untagged and CWT-tagged input are decoded alike** (all six kinds, every well-formed wire array) -/
theorem unmarshal_form_independent (k : Kind) (mode : PMode) (xs : List Cbor) (hw : WF (.arr xs))
    (hd : depth (.arr xs) < maxNesting) (hl : xs.length < 24) :
    unmarshal k mode (encode (.arr xs)) = unmarshal k mode (encode (.tag k.tagNum (.arr xs))) ∧
    unmarshal k mode (0xd8 :: 0x3d :: encode (.tag k.tagNum (.arr xs))) = unmarshal k mode (encode (.tag k.tagNum (.arr xs))) := by
  refine ⟨?_, unmarshal_of_strip k mode _ _ (applyStrip_cwt k xs)⟩
  rcases applyStrip_marshalled k xs with h | h
  · exact unmarshal_of_strip k mode _ _ ((applyStrip_bare k xs hl).trans h.symm)
  · exact unmarshal_view k mode xs hw hd _ _ (applyStrip_bare k xs hl) h

/-- in terms of `MarshalCBOR`: what it emits, the same without the tag, and the same under the CWT tag are decoded alike -/
theorem marshalled_forms (k : Kind) (mode : PMode) (w : Wire) (xs : List Cbor) (bytes : Bytes)
    (hx : wireCbor k w = some (.arr xs)) (hm : marshal k w = some bytes)
    (hw : WF (.arr xs)) (hd : depth (.arr xs) < maxNesting) (hl : xs.length < 24) :
    unmarshal k mode (encode (.arr xs)) = unmarshal k mode bytes ∧
    unmarshal k mode (0xd8 :: 0x3d :: bytes) = unmarshal k mode bytes := by
  have : bytes = encode (.tag k.tagNum (.arr xs)) := by
    unfold marshal at hm; rw [hx] at hm; simpa using hm.symm
  subst this
  exact unmarshal_form_independent k mode xs hw hd hl

/-- the wire struct of every kind is an array of 3 to 5 members -/
theorem wireCbor_is_short_array (k : Kind) (w : Wire) (c : Cbor) (h : wireCbor k w = some c) :
    ∃ xs, c = .arr xs ∧ xs.length < 24 := by
  have map_arr : ∀ {α} (o : Option α) (f : α → List Cbor), (∀ a, (f a).length < 24) →
      o.map (fun a => Cbor.arr (f a)) = some c → ∃ xs, c = .arr xs ∧ xs.length < 24 := by
    intro α o f hf ho
    cases o with
    | none => cases ho
    | some a => cases ho; exact ⟨_, rfl, hf a⟩
  unfold wireCbor at h
  split at h
  · cases h
  · cases k <;> simp only at h
    · cases h; exact ⟨_, rfl, by simp⟩
    · split at h
      · cases h; exact ⟨_, rfl, by simp⟩
      · exact map_arr _ _ (fun a => by simp) h
    · cases h; exact ⟨_, rfl, by simp⟩
    · split at h
      · cases h; exact ⟨_, rfl, by simp⟩
      · exact map_arr _ _ (fun a => by simp) h
    · cases h; exact ⟨_, rfl, by simp⟩
    · split at h
      · cases h; exact ⟨_, rfl, by simp⟩
      · exact map_arr _ _ (fun a => by simp) h

end Cose.Props.C01
