import Cose.Msg.Model
import Cose.Msg.Kdf
/-!
# C08 — the message arrays have a fixed arity

The six kinds are `toarray` structs of 3 (COSE_Encrypt0), 4 (COSE_Sign1, COSE_Sign, COSE_Mac0, COSE_Encrypt) or
5 (COSE_Mac) members; a signature entry has 3 members, a recipient 3 or 4.  An array with one member more or one fewer is
refused whatever its members are — no member is dropped silently and none is invented.
-/
namespace Cose.Props.C08Wire
open Cose.Msg Cose.Go Cose.Cbor

def arity : Kind → Nat
  | .encrypt0 => 3
  | .mac => 5
  | _ => 4

/-- **an array of another length is not a message of that kind** -/
theorem wire_arity_exact (k : Kind) (xs : List Cbor) (h : xs.length ≠ arity k) : wireOfCbor k (.arr xs) = .err := by
  rcases xs with _ | ⟨a, _ | ⟨b, _ | ⟨c, _ | ⟨d, _ | ⟨e, _ | ⟨f, r⟩⟩⟩⟩⟩⟩ <;>
    cases k <;> simp [arity] at h <;> simp [wireOfCbor, untag]

/-- a signature entry is an array of exactly three members -/
theorem signature_arity_exact (xs : List Cbor) (h : xs.length ≠ 3) : sigField (.arr xs) = .err := by
  rcases xs with _ | ⟨a, _ | ⟨b, _ | ⟨c, _ | ⟨d, r⟩⟩⟩⟩ <;> simp at h <;> simp [sigField, untag]

/-- a recipient is an array of three or four members -/
theorem recipient_arity_exact (xs : List Cbor) (h3 : xs.length ≠ 3) (h4 : xs.length ≠ 4) : recipField (.arr xs) = .err := by
  rcases xs with _ | ⟨a, _ | ⟨b, _ | ⟨c, _ | ⟨d, _ | ⟨e, r⟩⟩⟩⟩⟩ <;> simp at h3 h4 <;> simp [recipField]

/-- … and something that is no array at all (a map, a byte string, a number) is no message either -/
theorem wire_needs_array (k : Kind) (c : Cbor) (h : ∀ xs, untag c ≠ .arr xs) : wireOfCbor k c = .err := by
  unfold wireOfCbor
  cases hc : untag c with
  | arr xs => exact absurd hc (h xs)
  | _ => cases k <;> rfl

-- non-vacuity: a five-member COSE_Sign1 array
example : wireOfCbor .sign1 (.arr [.bstr [], .map [], .bstr [1], .bstr [2], Cbor.null]) = .err :=
  wire_arity_exact .sign1 _ (by decide)

/-! ## members of the wrong (non-null) type -/

/-- a member declared `[]byte` holds a byte string or null (possibly tagged); text, integers, maps, booleans, floats and
    the other simple values are refused (arrays are the known finding D12 and stay outside the statement) -/
theorem byte_member_wrong_type_rejected (c : Cbor) (hb : ∀ b, c ≠ .bstr b) (h22 : c ≠ .simple 22) (h23 : c ≠ .simple 23)
    (ht : ∀ t v, c ≠ .tag t v) (ha : ∀ xs, c ≠ .arr xs) : bytesField c = .err := by
  cases c with
  | bstr b => exact absurd rfl (hb b)
  | tag t v => exact absurd rfl (ht t v)
  | arr xs => exact absurd rfl (ha xs)
  | simple n =>
    unfold bytesField
    split <;> first | rfl | (rename_i h; first | exact absurd h h22 | exact absurd h h23 | cases h)
  | _ => rfl

/-- **a COSE_KDF_Context party whose identity, nonce or other member has a wrong type is refused**, whichever member it
    is and whatever the other two hold -/
theorem party_member_wrong_type_rejected (a b d : Cbor)
    (h : bytesField a = .err ∨ bytesField b = .err ∨ bytesField d = .err) : partyInfoField (.arr [a, b, d]) = .err := by
  unfold partyInfoField
  simp only [untag]
  rcases h with h | h | h
  · rw [h]
  · rw [h]; cases bytesField a <;> rfl
  · rw [h]; cases bytesField a <;> cases bytesField b <;> rfl

-- non-vacuity: a text nonce, a map as identity, a boolean as other
example : partyInfoField (.arr [.bstr [1], .tstr [0x6e], Cbor.null]) = .err :=
  party_member_wrong_type_rejected _ _ _ (.inr (.inl (byte_member_wrong_type_rejected _ (by simp) (by simp) (by simp) (by simp) (by simp))))
example : partyInfoField (.arr [.map [], .bstr [], .bstr []]) = .err := party_member_wrong_type_rejected _ _ _ (.inl rfl)
example : partyInfoField (.arr [.bstr [], .bstr [], .simple 21]) = .err := party_member_wrong_type_rejected _ _ _ (.inr (.inr rfl))

end Cose.Props.C08Wire
