import Cose.Msg.Model
import Cose.Key.Prims
import Cose.Gen.Footprints
/-!
# C06 — AEAD nonces are well-formed, derived per RFC 9052, published, and fresh

Model: `Cose.Msg.selectNonce` (the IV / Partial IV / Base IV logic shared by `Encrypt` and `Decrypt`), `xorIV`
(with its slice-bounds panic modelled), `produceEnc`.  What cannot be a theorem — that `crypto/rand` does not
repeat — is replaced by the structural statement that each encryption of a fresh message consumes its own
block of the random stream, whole and unmodified (`fresh_draws_are_consecutive_blocks`).
-/
namespace Cose.Props.C06
open Cose.Msg Cose.Go Cose.Gen

/-- RFC 9052 §3.1: context IV ⊕ left-zero-padded Partial IV -/
def specContextIv (base piv : Bytes) (n : Nat) : Bytes :=
  List.zipWith (· ^^^ ·) (List.replicate (n - piv.length) 0 ++ piv) (base ++ List.replicate (n - base.length) 0)

def ivOf (u : CMap) : Res (Option Bytes) := getBytes (u.lookup (Msg.lbl Iana.HeaderParameterIV))
def pivOf (u : CMap) : Res (Option Bytes) := getBytes (u.lookup (Msg.lbl Iana.HeaderParameterPartialIV))

/-- the caller's IV is used verbatim -/
theorem iv_verbatim (u : CMap) (key : KeyView) (n : Nat) (iv : Bytes) (piv : Option Bytes)
    (hi : ivOf u = .ok (some iv)) (hp : pivOf u = .ok piv) (hpe : (piv.getD []).length = 0) (hne : iv ≠ []) :
    ∃ c, selectNonce u key n = .ok c ∧ c = .given iv := by
  unfold ivOf at hi; unfold pivOf at hp
  unfold selectNonce
  rw [hi, hp]
  have : ¬ ((piv.getD []).length > 0) := by omega
  cases iv with
  | nil => exact absurd rfl hne
  | cons a r => simp [this]

/-- IV together with Partial IV is refused -/
theorem iv_and_piv_refused (u : CMap) (key : KeyView) (n : Nat) (iv piv : Bytes)
    (hi : ivOf u = .ok (some iv)) (hp : pivOf u = .ok (some piv)) (h1 : iv ≠ []) (h2 : piv ≠ []) :
    selectNonce u key n = .err "iv-and-partial-iv" := by
  unfold ivOf at hi; unfold pivOf at hp
  unfold selectNonce
  rw [hi, hp]
  cases iv with
  | nil => exact absurd rfl h1
  | cons a r => cases piv with
    | nil => exact absurd rfl h2
    | cons b s => simp

/-- a Partial IV not shorter than the nonce is refused -/
theorem piv_too_long_refused (u : CMap) (key : KeyView) (n : Nat) (iv : Option Bytes) (piv : Bytes)
    (hi : ivOf u = .ok iv) (hie : (iv.getD []).length = 0) (hp : pivOf u = .ok (some piv))
    (hl : piv.length ≥ n) (hne : piv ≠ []) : selectNonce u key n = .err "partial-iv-too-long" := by
  unfold ivOf at hi; unfold pivOf at hp
  unfold selectNonce
  rw [hi, hp]
  have a : (some piv).getD [] = piv := rfl
  have b : piv.length > 0 := by cases piv with | nil => exact absurd rfl hne | cons x y => simp
  have c : ¬ ((iv.getD []).length > 0) := by omega
  simp only [a, b, c, hl, if_true, if_false]

/-- a missing (or empty) Base IV is refused -/
theorem missing_base_refused (u : CMap) (key : KeyView) (n : Nat) (iv : Option Bytes) (piv : Bytes) (b : Option Bytes)
    (hi : ivOf u = .ok iv) (hie : (iv.getD []).length = 0) (hp : pivOf u = .ok (some piv))
    (hl : piv.length < n) (hne : piv ≠ []) (hb : key.baseIV = .ok b) (hbe : (b.getD []) = []) :
    selectNonce u key n = .err "base-iv-missing" := by
  unfold ivOf at hi; unfold pivOf at hp
  unfold selectNonce
  rw [hi, hp]
  have a : (some piv).getD [] = piv := rfl
  have p : piv.length > 0 := by cases piv with | nil => exact absurd rfl hne | cons x y => simp
  have c : ¬ ((iv.getD []).length > 0) := by omega
  have d : ¬ (piv.length ≥ n) := by omega
  simp only [a, p, c, d, hb, hbe, if_true, if_false, List.isEmpty_nil]

/-- the guard `len(partialIV) >= ivSize` is what keeps `iv[size-len(partialIV):]` in range:
    below it `xorIV` cannot panic -/
theorem xorIV_no_panic (base piv : Bytes) (n : Nat) (h : piv.length ≤ n) : ∃ out, xorIV base piv n = .ok out := by
  unfold xorIV
  have : ¬ piv.length > n := by omega
  simp [this]

/-- and it has exactly the nonce length -/
theorem xorIV_length (base piv out : Bytes) (n : Nat) (h : xorIV base piv n = .ok out) : out.length = n := by
  unfold xorIV at h
  split at h
  · cases h
  · rename_i hl
    simp only [Res.ok.injEq] at h
    rw [← h]; simp; omega

/-- nonce selection never panics, for any header values, lengths and key -/
theorem selectNonce_never_panics (u : CMap) (key : KeyView) (n : Nat) (hk : key.baseIV.isPanic = false) :
    (selectNonce u key n).isPanic = false := by
  unfold selectNonce
  have g : ∀ o, (getBytes o).isPanic = false := by
    intro o; unfold getBytes
    cases o with
    | none => rfl
    | some v => cases v <;> rfl
  cases hi : getBytes (u.lookup (Msg.lbl Iana.HeaderParameterIV)) with
  | panic s => have := g (u.lookup (Msg.lbl Iana.HeaderParameterIV)); simp [hi, Res.isPanic] at this
  | err e => cases hp : getBytes (u.lookup (Msg.lbl Iana.HeaderParameterPartialIV)) <;> simp [Res.isPanic]
  | ok iv =>
    cases hp : getBytes (u.lookup (Msg.lbl Iana.HeaderParameterPartialIV)) with
    | panic s => have := g (u.lookup (Msg.lbl Iana.HeaderParameterPartialIV)); simp [hp, Res.isPanic] at this
    | err e => simp [Res.isPanic]
    | ok piv =>
      simp only
      split
      · split
        · simp [Res.isPanic]
        · split
          · simp [Res.isPanic]
          · rename_i h1 h2 h3
            cases hb : key.baseIV with
            | panic s => simp [hb, Res.isPanic] at hk
            | err e => simp [Res.isPanic]
            | ok b =>
              simp only
              split
              · simp [Res.isPanic]
              · obtain ⟨out, ho⟩ := xorIV_no_panic (b.getD []) (piv.getD []) n (by omega)
                simp [ho, Res.isPanic]
      · split <;> simp [Res.isPanic]

/-- a nonce derived from a Partial IV has exactly the algorithm's nonce length -/
theorem derived_nonce_length (u : CMap) (key : KeyView) (n : Nat) (iv : Bytes)
    (hp : ∃ p, pivOf u = .ok (some p) ∧ p ≠ []) (h : selectNonce u key n = .ok (.given iv)) : iv.length = n := by
  obtain ⟨p, hp1, hp2⟩ := hp
  unfold pivOf at hp1
  unfold selectNonce at h
  rw [hp1] at h
  have pl : p.length > 0 := by cases p with | nil => exact absurd rfl hp2 | cons x y => simp
  cases hi : getBytes (u.lookup (Msg.lbl Iana.HeaderParameterIV)) with
  | panic s => simp [hi] at h
  | err e => simp [hi] at h
  | ok ivv =>
    simp only [hi] at h
    have a : (some p).getD [] = p := rfl
    simp only [a, pl, if_true] at h
    split at h
    · cases h
    · split at h
      · cases h
      · cases hb : key.baseIV with
        | panic s => simp [hb] at h
        | err e => simp [hb] at h
        | ok b =>
          simp only [hb] at h
          split at h
          · cases h
          · cases hx : xorIV (b.getD []) p n with
            | panic s => simp [hx] at h
            | err e => simp [hx] at h
            | ok out =>
              simp only [hx, Res.ok.injEq, NonceChoice.given.injEq] at h
              rw [← h]; exact xorIV_length _ _ _ _ hx

/-- **the xor is RFC 9052's**: for a Base IV of the nonce length, `xorIV` is context IV ⊕ left-padded Partial IV -/
theorem piv_xor_eq_spec (base piv : Bytes) (n : Nat) (hb : base.length = n) (hp : piv.length ≤ n) :
    xorIV base piv n = .ok (specContextIv base piv n) := by
  unfold xorIV specContextIv
  have : ¬ piv.length > n := by omega
  simp only [this, if_false, Res.ok.injEq]
  rw [hb, Nat.sub_self, List.replicate_zero, List.append_nil]
  apply List.ext_getElem
  · simp; omega
  · intro i h1 h2
    simp only [List.length_map, List.length_zipIdx, List.length_append, List.length_replicate] at h1
    have hi : i < base.length := by omega
    simp [List.getElem_zipIdx, List.getElem?_eq_getElem hi]

/-- … and for a Base IV of **any** length: a shorter one counts as zero-extended on the right, of a longer one only the
    first `n` octets count — the Partial IV always lands in the low-order octets *of the nonce*, none of it is cut off -/
theorem piv_xor_eq_spec_any_base (base piv : Bytes) (n : Nat) (hp : piv.length ≤ n) :
    xorIV base piv n = .ok (specContextIv base piv n) := by
  unfold xorIV specContextIv
  have : ¬ piv.length > n := by omega
  simp only [this, if_false, Res.ok.injEq]
  apply List.ext_getElem
  · simp; omega
  · intro i h1 h2
    simp only [List.length_map, List.length_zipIdx, List.length_append, List.length_replicate] at h1
    simp only [List.getElem_map, List.getElem_zipIdx, List.getElem_zipWith, Nat.zero_add]
    by_cases hi : i < base.length
    · simp [List.getElem?_eq_getElem hi, List.getElem_append_left hi]
    · have hge : base.length ≤ i := by omega
      rw [List.getElem?_eq_none hge, List.getElem_append_right hge]
      simp

/-- a Partial IV that differs anywhere gives another nonce, whatever the Base IV's length (no octet of it is dropped) -/
theorem piv_xor_injective (base piv piv' : Bytes) (n : Nat) (hl : piv.length = piv'.length) (hp : piv.length ≤ n)
    (h : xorIV base piv n = xorIV base piv' n) : piv = piv' := by
  rw [piv_xor_eq_spec_any_base base piv n hp, piv_xor_eq_spec_any_base base piv' n (by omega)] at h
  simp only [Res.ok.injEq, specContextIv] at h
  apply List.ext_getElem hl
  intro i h1 h2
  have hlen : (List.zipWith (· ^^^ ·) (List.replicate (n - piv.length) 0 ++ piv) (base ++ List.replicate (n - base.length) 0)).length = n := by
    simp; omega
  have hj : n - piv.length + i < n := by omega
  have e : (List.zipWith (· ^^^ ·) (List.replicate (n - piv.length) 0 ++ piv) (base ++ List.replicate (n - base.length) 0))[n - piv.length + i]? =
      (List.zipWith (· ^^^ ·) (List.replicate (n - piv'.length) 0 ++ piv') (base ++ List.replicate (n - base.length) 0))[n - piv.length + i]? := by rw [h]
  rw [List.getElem?_eq_getElem (by rw [hlen]; exact hj), List.getElem?_eq_getElem (by
    have : (List.zipWith (· ^^^ ·) (List.replicate (n - piv'.length) 0 ++ piv') (base ++ List.replicate (n - base.length) 0)).length = n := by
      simp; omega
    rw [this]; exact hj)] at e
  simp only [Option.some.injEq, List.getElem_zipWith] at e
  have e1 : (List.replicate (n - piv.length) (0 : UInt8) ++ piv)[n - piv.length + i]'(by simp; omega) = piv[i] := by
    rw [List.getElem_append_right (by simp)]; simp
  have e2 : (List.replicate (n - piv'.length) (0 : UInt8) ++ piv')[n - piv.length + i]'(by simp; omega) = piv'[i] := by
    rw [List.getElem_append_right (by simp; omega)]; simp [hl]
  rw [e1, e2] at e
  have key : ∀ a b c : UInt8, a ^^^ c = b ^^^ c → a = b := by
    intro a b c hh
    have := congrArg (· ^^^ c) hh
    simpa [UInt8.xor_assoc] using this
  exact key _ _ _ e

/-- **a random nonce is published**: when the caller gave neither IV nor Partial IV, the nonce handed to the AEAD
    is the drawn block `rnd`, and the unprotected IV header of the produced message holds exactly it -/
theorem random_nonce_published (m : Msg) (e : Encryptor) (ext : Option Bytes) (rnd : Bytes) (m' : Msg)
    (hr : selectNonce (fillUnprotected m.unprot e.key) e.key e.nonceSize = .ok .random)
    (h : produceEnc m e ext rnd = .ok m') :
    m'.unprot = some ((fillUnprotected m.unprot e.key).set (Msg.lbl Iana.HeaderParameterIV) (.bytes rnd)) := by
  unfold produceEnc at h
  cases hf : fillProtected m.prot e.key with
  | err x => simp [hf] at h
  | panic x => simp [hf] at h
  | ok prot =>
    simp only [hf, hr] at h
    cases hb : hdrBytes (some prot) with
    | err x => cases hy : payloadToWire m.payload <;> simp [hb, hy] at h
    | panic x => cases hy : payloadToWire m.payload <;> simp [hb, hy] at h
    | ok pb =>
      cases hy : payloadToWire m.payload with
      | err x => simp [hb, hy] at h
      | panic x => simp [hb, hy] at h
      | ok pt =>
        simp only [hb, hy] at h
        split at h
        · rename_i aad haad
          split at h
          · simp only [Res.ok.injEq] at h
            rw [← h]
          · cases h
          · cases h
        · cases h
        · cases h

/-! ### freshness: each encryption consumes its own block of the random stream -/

/-- `key.GetRandomBytes(n)` against an explicit stream of random bytes -/
def draw (stream : Bytes) (n : Nat) : Bytes × Bytes := (stream.take n, stream.drop n)

/-- the nonces drawn for a sequence of fresh messages under one key of nonce size `n` -/
def drawMany : Bytes → Nat → Nat → List Bytes
  | _, _, 0 => []
  | stream, n, k + 1 => (draw stream n).1 :: drawMany (draw stream n).2 n k

/-- **the model's `draw` is what the source does** (regenerated fact): `GetRandomBytes` allocates the buffer and
    fills it with one `crypto/rand.Read` (whose error the library ignores: assumed not to fail, DESIGN §8) — nothing else:
    no buffering layer, pool, counter or package state (its footprint is empty), so the nonce is a whole,
    unmodified block of the operating system's random stream. -/
theorem random_source_is_crypto_rand :
    Footprints.randomCallees =
      [("key.GetRandomBytes", ["make", "crypto/rand.Read"]),
       ("key.GetRandomUint32", ["key.GetRandomBytes", "encoding/binary.bigEndian.Uint32"])]
    ∧ (Footprints.footprints.filter (fun m => m.1 == "key.GetRandomBytes" || m.1 == "key.GetRandomUint32")) = [] := by
  decide +kernel

/-- the i-th encryption uses exactly bytes [i·n, (i+1)·n) of the stream: no truncation, reuse or mixing,
    so two nonces coincide only if two disjoint blocks of `crypto/rand` output coincide -/
theorem fresh_draws_are_consecutive_blocks (stream : Bytes) (n k i : Nat) (hi : i < k) :
    (drawMany stream n k)[i]? = some ((stream.drop (i * n)).take n) := by
  induction k generalizing stream i with
  | zero => omega
  | succ k ih =>
    cases i with
    | zero => simp [drawMany, draw]
    | succ j =>
      simp only [drawMany, List.getElem?_cons_succ, draw]
      rw [ih (stream.drop n) j (by omega), List.drop_drop]
      congr 2
      rw [Nat.succ_mul, Nat.add_comm]

/-- **a Base IV alone is never a nonce**: with neither an IV nor a Partial IV in the message the library draws a
    fresh nonce — whatever the key holds as Base IV (absent, present, ill-typed) -/
theorem base_iv_alone_is_not_a_nonce (u : CMap) (key : KeyView) (n : Nat) (iv piv : Option Bytes)
    (hi : ivOf u = .ok iv) (hp : pivOf u = .ok piv) (hie : iv.getD [] = []) (hpe : piv.getD [] = []) :
    selectNonce u key n = .ok .random := by
  unfold ivOf at hi; unfold pivOf at hp
  unfold selectNonce
  rw [hi, hp]
  simp [hie, hpe]

/-- … and conversely the library draws a nonce only then: `random` is chosen exactly when both members are absent or
    empty, so a caller's IV or Partial IV is never silently replaced -/
theorem random_only_without_iv (u : CMap) (key : KeyView) (n : Nat) (h : selectNonce u key n = .ok .random) :
    ∃ iv piv, ivOf u = .ok iv ∧ pivOf u = .ok piv ∧ iv.getD [] = [] ∧ piv.getD [] = [] := by
  unfold selectNonce at h
  unfold ivOf pivOf
  cases hi : getBytes (u.lookup (Msg.lbl Iana.HeaderParameterIV)) with
  | err e => simp [hi] at h
  | panic e => cases hp : getBytes (u.lookup (Msg.lbl Iana.HeaderParameterPartialIV)) <;> simp [hi, hp] at h
  | ok iv =>
    cases hp : getBytes (u.lookup (Msg.lbl Iana.HeaderParameterPartialIV)) with
    | err e => simp [hi, hp] at h
    | panic e => simp [hi, hp] at h
    | ok piv =>
      refine ⟨iv, piv, rfl, rfl, ?_⟩
      simp only [hi, hp] at h
      by_cases hpl : (piv.getD []).length > 0
      · simp only [hpl, if_true] at h
        split at h
        · cases h
        · split at h
          · cases h
          · split at h
            · split at h
              · cases h
              · split at h <;> cases h
            · cases h
            · cases h
      · simp only [hpl, if_false] at h
        have hpe : piv.getD [] = [] := List.eq_nil_of_length_eq_zero (by omega)
        by_cases hie : (iv.getD []).isEmpty = true
        · exact ⟨by simpa using hie, hpe⟩
        · simp [hie] at h

example : specContextIv [1, 2, 3, 4] [0xff] 4 = [1, 2, 3, 0xfb] := by decide
example : xorIV [1, 2, 3, 4] [0xff] 4 = .ok [1, 2, 3, 0xfb] := by decide
example : xorIV [1, 2, 3, 4] [1, 2, 3, 4, 5] 4 = .panic "xorIV-slice" := by decide
-- a Base IV longer than the nonce: cut to the nonce size, the Partial IV in the nonce's last octet
example : xorIV [1, 2, 3, 4, 5, 6] [0xff] 4 = .ok [1, 2, 3, 0xfb] := by decide
example : xorIV [1, 2] [0xff] 4 = .ok [1, 2, 0, 0xff] := by decide

end Cose.Props.C06
