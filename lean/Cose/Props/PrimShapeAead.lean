import Cose.Gen.Tables
/-!
# C11 / C12 / C13 / C14 — regenerated tie: the decisions of the primitive wrappers in the current source

The models of the MAC, AEAD, HKDF and ECDH wrappers (`Key/Impl.lean`, `Key/HkdfReader.lean`, `Key/Ec.lean`) mirror
these functions condition by condition: the `key_ops` gate first, then the length checks, then the one comparison.
`Gen.Tables.conds` holds the condition lists extracted from `/repo` on every run; they are pinned here in full (the
functions are a few lines each and every branch in them is a decision one of the four properties speaks about):
a tag comparison over a prefix, a truncation of the presented tag, a second accepted nonce length, a relaxed refusal of
private remote keys, a moved limit each change a list, this file stops building, and the correspondence families
(`prim:mac`, `prim:aead`, `prim:kdf`, `ecdh`) look for the input.
-/
namespace Cose.Props.PrimShapeAead

def condsOf (f : String) : Option (List String) := (Cose.Gen.Tables.conds.find? (fun r => r.1 == f)).map (·.2)

/-- C12: one nonce length per algorithm, the gate before it; CCM alone has a plaintext limit -/
theorem aead_functions_conditions :
    condsOf "key_aesgcm.aesGCM.Encrypt" = some ["if !h.key.Ops().EmptyOrHas(iana.KeyOperationEncrypt)", "if len(iv) != nonceSize"] ∧
    condsOf "key_aesgcm.aesGCM.Decrypt" = some ["if !h.key.Ops().EmptyOrHas(iana.KeyOperationDecrypt)", "if len(iv) != nonceSize"] ∧
    condsOf "key_aesccm.aesCCM.Encrypt" = some ["if !h.key.Ops().EmptyOrHas(iana.KeyOperationEncrypt)", "if len(iv) != nonceSize",
      "if err != nil", "if len(plaintext) > aead.MaxLength()"] ∧
    condsOf "key_aesccm.aesCCM.Decrypt" = some ["if !h.key.Ops().EmptyOrHas(iana.KeyOperationDecrypt)", "if len(iv) != nonceSize",
      "if err != nil"] ∧
    condsOf "key_chacha20poly1305.chacha.Encrypt" = some ["if !h.key.Ops().EmptyOrHas(iana.KeyOperationEncrypt)",
      "if len(iv) != nonceSize", "if err != nil"] ∧
    condsOf "key_chacha20poly1305.chacha.Decrypt" = some ["if !h.key.Ops().EmptyOrHas(iana.KeyOperationDecrypt)",
      "if len(iv) != nonceSize", "if err != nil"] := by
  decide +kernel

end Cose.Props.PrimShapeAead
