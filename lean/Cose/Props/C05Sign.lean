import Cose.Props.C05
import Cose.Props.C02
/-!
# C05 — COSE_Sign: each signature's own protected bucket decides

For the one-authenticator kinds the algorithm check reads the body protected bucket (`Props/C05.lean`).  A COSE_Sign
carries one protected bucket per signature; the check is per signature, against the verifier found under that
signature's kid, and nothing at body level can stand in for it.
-/
namespace Cose.Props.C05Sign
open Cose.Msg Cose.Go Cose.Gen Cose.Props.C02

/-- the verdict of `SignMessage.Verify` reads the message object only through the retained wire struct: the decoded
    body-level protected and unprotected maps (an `alg` in either of them) and the payload member have no say -/
theorem sign_body_headers_have_no_say (k k' : Kind) (p p' u u' : Hdr) (y y' : PVal) (mm : Option Wire)
    (vs : List Verifier) (ext : Option Bytes) :
    verifySign ⟨k, p, u, y, mm⟩ vs ext = verifySign ⟨k', p', u', y', mm⟩ vs ext := by
  unfold verifySign; rfl

/-- **a signature whose own bucket names another algorithm than its verifier's key is refused** — in whatever
    position, whatever the other signatures, the body headers and the primitives say -/
theorem sign_signer_alg_mismatch_refused (m : Msg) (vs : List Verifier) (ext : Option Bytes) (w : Wire)
    (sigs : List SigObj) (s : SigObj) (v : Verifier) (hw : m.mm = some w) (hs : w.sigs = some sigs) (hin : s ∈ sigs)
    (hl : lookupVerifier vs s.kid = some v) (hm : algMismatch s.prot v.key.alg = true) :
    verifySign m vs ext ≠ .ok () := by
  intro h
  obtain ⟨w', sigs', hw', hs', _, hall⟩ := sign_every_signature_checked m vs ext h
  rw [hw] at hw'; cases hw'
  rw [hs] at hs'; cases hs'
  obtain ⟨v', _, _, hl', hm', _⟩ := hall s hin
  rw [hl] at hl'; cases hl'
  rw [hm] at hm'; cases hm'

-- non-vacuity: a two-signature message whose second signature names ES384 (-35) under an ES256 (-7) verifier's kid,
-- while the body protected map (decoded: {1: -7}) names the verifier's algorithm
def es256 : Verifier := ⟨⟨-7, some [1], .ok none⟩, fun _ _ => .ok ()⟩
def sig1 : SigObj := ⟨[(Msg.lbl 1, .int .i64 (-7))], some [0xa1, 0x01, 0x26], some [(Msg.lbl 4, .bytes [1])], some [9]⟩
def sig2 : SigObj := ⟨[(Msg.lbl 1, .int .i64 (-35))], some [0xa1, 0x01, 0x38, 0x22], some [(Msg.lbl 4, .bytes [1])], some [9]⟩
def twoSigs : List SigObj := [sig1, sig2]

example : verifySign ⟨.sign, some [(Msg.lbl 1, .int .i64 (-7))], some [], .bytes none,
    some ⟨some [0xa1, 0x01, 0x26], some [], some [1], none, some twoSigs, none⟩⟩ [es256] none ≠ .ok () :=
  sign_signer_alg_mismatch_refused _ [es256] none _ twoSigs sig2 es256 rfl rfl
    (List.mem_cons_of_mem _ List.mem_cons_self) (by with_unfolding_all rfl) (by decide +kernel)

end Cose.Props.C05Sign
