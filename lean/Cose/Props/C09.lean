import Cose.Props.C01
import Cose.Go.Roundtrip
/-!
# C09 — decode then re-encode preserves messages; value round trips are exact

* `reencode_preserves_authenticated`: whatever wire struct a COSE_Sign1 / COSE_Mac0 decoder retained (from a library
  encoding or a foreign, non-canonical one), encoding it and decoding again yields the same protected bytes, payload
  and signature/tag — so it still verifies (`reencoded_still_verifies`);
* `signature_reencodes_raw_bucket`: a COSE_Signature re-encodes its protected bucket from the bytes received;
* `remove_tag_only_tag`: removing the CBOR tag changes nothing but the tag;
* header / key / claim maps: `cmap_reencode_fixpoint` (the canonical encoding is a fixed point of decode∘encode on
  maps the decoder produced is exercised by `map.unmarshal`; KDF contexts, recipients, claims by `kdf.*`, `msg.*`).
The remaining value types are tied by the correspondence ops `msg.reencode`, `map.unmarshal`, `kdf.*`, `claims.*`.
-/
namespace Cose.Props.C09
open Cose.Msg Cose.Go Cose.Cbor Cose.Gen Cose.Props.C01

/-- **re-encoding preserves every authenticated byte string** (COSE_Sign1, COSE_Mac0) -/
theorem reencode_preserves_authenticated (k : Kind) (hk : k = .sign1 ∨ k = .mac0) (w : Wire)
    (u : Cbor) (hu : hdrCbor w.unprot = some u) (huw : WF u) (hud : depth u + 2 < maxNesting)
    (uh : Hdr) (huf : hdrField u = .ok uh)
    (hp : ∀ x, w.prot = some x → x.length < two64) (hy : ∀ x, w.payload = some x → x.length < two64)
    (ha : ∀ x, w.auth = some x → x.length < two64) (pm : CMap) (hpm : hdrFromBytes w.prot = .ok pm) :
    ∃ bytes m2 w2, marshal k w = some bytes ∧ unmarshal k .raw bytes = .ok m2 ∧ m2.mm = some w2 ∧
      w2.prot = w.prot ∧ w2.payload = w.payload ∧ w2.auth = w.auth := by
  have hwc : wireCbor k w = some (.arr [bytesCbor w.prot, u, bytesCbor w.payload, bytesCbor w.auth]) := by
    rcases hk with rfl | rfl <;> simp [wireCbor, hu]
  have hwfarr : WF (.arr [bytesCbor w.prot, u, bytesCbor w.payload, bytesCbor w.auth]) := by
    simp only [WF, WFList, maxElems, List.length_cons, List.length_nil]
    exact ⟨by omega, wf_bytesCbor _ hp, huw, wf_bytesCbor _ hy, wf_bytesCbor _ ha, trivial⟩
  have hdarr : depth (.arr [bytesCbor w.prot, u, bytesCbor w.payload, bytesCbor w.auth]) < maxNesting := by
    simp only [depth, depthList, depth_bytesCbor]; omega
  obtain ⟨c, hc1, hc2⟩ := decode_marshalled k _ hwfarr hdarr
  have hmar : marshal k w = some (encode (.tag k.tagNum (.arr [bytesCbor w.prot, u, bytesCbor w.payload, bytesCbor w.auth]))) := by
    unfold marshal; rw [hwc]; rfl
  have hrr : ∀ d, recipientsRawOk k d = true := by
    intro d; rcases hk with rfl | rfl <;> simp [recipientsRawOk]
  have hwire : wireOfCbor k c = .ok { prot := w.prot, unprot := uh, payload := w.payload, auth := w.auth } := by
    rw [wireOfCbor_untag, hc2, wire4_fields k hk, huf]
  have hnot : ((k == Kind.mac || k == Kind.encrypt) && ([] : List Recip).isEmpty) = false := by
    rcases hk with rfl | rfl <;> rfl
  have hnot2 : (k == Kind.encrypt0 || k == Kind.encrypt) = false := by
    rcases hk with rfl | rfl <;> rfl
  obtain ⟨pv, hpv⟩ : ∃ pv, payloadFromWire .raw w.payload (zeroPayload .raw) = .ok pv := by
    cases hq : w.payload with
    | none => exact ⟨_, rfl⟩
    | some l => cases l <;> exact ⟨_, rfl⟩
  refine ⟨_, ⟨k, some pm, uh, pv, some { prot := w.prot, unprot := uh, payload := w.payload, auth := w.auth }⟩, _,
    hmar, ?_, rfl, rfl, rfl, rfl⟩
  unfold unmarshal
  rw [hc1]
  simp only [hrr, hwire, Bool.not_true, Bool.false_eq_true, if_false, Option.getD_none, hnot, hpm, hnot2, hpv]

/-- verification looks only at the retained wire struct and the decoded protected map: with those preserved,
    the verdict is preserved -/
theorem reencoded_still_verifies (m m2 : Msg) (w w2 : Wire) (hm : m.mm = some w) (hm2 : m2.mm = some w2)
    (hk : m2.kind = m.kind) (hpm : m2.prot = m.prot)
    (h1 : w2.prot = w.prot) (h2 : w2.payload = w.payload) (h3 : w2.auth = w.auth)
    (key : KeyView) (check : Bytes → Bytes → Res Unit) (ext : Option Bytes) :
    verifyAuth m2 key check ext = verifyAuth m key check ext := by
  unfold verifyAuth
  simp only [hm, hm2, h3, hpm, hk]
  have : tobe m.kind w2 none ext = tobe m.kind w none ext := by
    unfold tobe; rw [h1, h2]
  rw [this]

/-- a COSE_Signature that was decoded re-encodes its protected bucket from the received bytes, verbatim -/
theorem signature_reencodes_raw_bucket (s : SigObj) (raw : Bytes) (hr : s.protRaw = some raw) (u : Cbor)
    (hu : hdrCbor s.unprot = some u) :
    sigCbor s = some (.arr [.bstr raw, u, bytesCbor s.signature]) := by
  unfold sigCbor; simp [hr, hu]

/-! ### RemoveCBORTag -/

/-- `RemoveCBORTag` on a one-byte-tag message (`d2 84 …`, `d1 84 …`, `d0 83 …`): only the tag byte goes -/
def removeTagModel (data : Bytes) : Bytes :=
  let d := if [0xd8, 0x3d].isPrefixOf data then data.drop 2 else data
  if [0xd2, 0x84].isPrefixOf d || [0xd1, 0x84].isPrefixOf d || [0xd0, 0x83].isPrefixOf d then d.drop 1
  else if [0xd8, 0x62, 0x84].isPrefixOf d || [0xd8, 0x61, 0x85].isPrefixOf d || [0xd8, 0x60, 0x84].isPrefixOf d then d.drop 2
  else d

/-- the prefixes in `tag_prefix.go` are the ones the model uses -/
theorem prefixes_match_source :
    Layouts.byteVars.filter (fun v => v.1 == "cose") =
      [("cose", "cwtPrefix", [216, 61]), ("cose", "encrypt0MessagePrefix", [208, 131]),
       ("cose", "encryptMessagePrefix", [216, 96, 132]), ("cose", "mac0MessagePrefix", [209, 132]),
       ("cose", "macMessagePrefix", [216, 97, 133]), ("cose", "sign1MessagePrefix", [210, 132]),
       ("cose", "signMessagePrefix", [216, 98, 132])] := by decide +kernel

/-- tag numbers used by the six `MarshalCBOR` are the IANA ones, each wrapping the wire struct -/
theorem marshal_tags_match_source :
    Layouts.marshalTags = [("Encrypt0Message", 16, "m.mm"), ("EncryptMessage", 96, "m.mm"), ("Mac0Message", 17, "m.mm"),
      ("MacMessage", 97, "m.mm"), ("Sign1Message", 18, "m.mm"), ("SignMessage", 98, "m.mm")] := by decide +kernel

/-- **removing the tag changes nothing but the tag** (COSE_Sign1: `d2` followed by the 4-array) -/
theorem remove_tag_only_tag (xs : List Cbor) (h4 : xs.length = 4) :
    removeTagModel (encode (.tag 18 (.arr xs))) = encode (.arr xs) := by
  have e : encode (.tag 18 (.arr xs)) = 0xd2 :: 0x84 :: encodeList xs := by
    simp only [encode, h4]; rfl
  have e2 : encode (.arr xs) = 0x84 :: encodeList xs := by simp only [encode, h4]; rfl
  rw [e, e2]
  simp [removeTagModel, List.isPrefixOf]

/-- … also under the CWT tag -/
theorem remove_cwt_and_tag (xs : List Cbor) (h4 : xs.length = 4) :
    removeTagModel (0xd8 :: 0x3d :: encode (.tag 18 (.arr xs))) = encode (.arr xs) := by
  have e : encode (.tag 18 (.arr xs)) = 0xd2 :: 0x84 :: encodeList xs := by
    simp only [encode, h4]; rfl
  have e2 : encode (.arr xs) = 0x84 :: encodeList xs := by simp only [encode, h4]; rfl
  rw [e, e2]
  simp [removeTagModel, List.isPrefixOf]

/-! ## value round trip of label maps (header maps, claim maps, keys) -/

/-- **encode then decode returns an equal value**: for every label map with pairwise distinct in-range labels and
    scalar / list values, presented in any order, decoding the encoding succeeds, has the same number of entries,
    the same set of labels, and every typed accessor answers as on the original (integers by value whatever their
    Go kind, byte strings, booleans, text).  The one representable difference is Go-side only: a nil `[]byte` member
    is CBOR null on the wire and comes back as nil. -/
theorem label_map_roundtrip (m : CMap) (hok : ∀ kv ∈ m, EntryOk kv) (hnd : (m.map (·.1)).Nodup)
    (hlen : m.length ≤ Cose.Cbor.maxElems) :
    ∃ b m', encodeCMap m = some b ∧ decodeCMap b = .ok m' ∧ m'.length = m.length ∧
      ∀ l, m'.has l = m.has l ∧ getInt (m'.lookup l) = getInt (m.lookup l) ∧
        getBool (m'.lookup l) = getBool (m.lookup l) ∧ getString (m'.lookup l) = getString (m.lookup l) ∧
        (m.lookup l ≠ some .bnil → getBytes (m'.lookup l) = getBytes (m.lookup l)) := by
  obtain ⟨b, m', henc, hdec, hl, hlook⟩ := cmap_roundtrip m hok hnd hlen
  refine ⟨b, m', henc, hdec, hl, fun l => ?_⟩
  rw [CMap.has, CMap.has, hlook l]
  cases h : m.lookup l with
  | none => exact ⟨rfl, rfl, rfl, rfl, fun _ => rfl⟩
  | some v =>
    have hf : Flat v := (hok (l, v) ((lookup_eq_some_iff m l v hnd).mp h)).2
    exact ⟨rfl, getInt_normV hf, getBool_normV hf, getString_normV hf, fun hn => getBytes_normV hf (fun e => hn (by rw [e]))⟩

/-- **the decoder is not narrower than the encoder**: the options literals in `key/cbor.go` (regenerated) set nothing but
    duplicate-key enforcement, the ban on indefinite lengths and the bytewise sort; no size or nesting limit below
    fxamacker's defaults is configured, so whatever the library encodes (headers nested to any depth the defaults allow)
    it decodes again -/
theorem codec_options_are_the_known_ones :
    Cose.Gen.Layouts.cborOptions =
      [("decOpts", [("DupMapKey", "cbor.DupMapKeyEnforcedAPF"), ("IndefLength", "cbor.IndefLengthForbidden")]),
       ("encOpts", [("IndefLength", "cbor.IndefLengthForbidden"), ("Sort", "cbor.SortBytewiseLexical")])] := by decide +kernel

end Cose.Props.C09
