import Cose.Cwt.Claims
import Cose.Cbor.RawLemmas
import Cose.Cwt.Validator
/-!
# C09 / C18 — the `cwt.Claims` struct survives CBOR

`claims_struct_roundtrip`: encode a `Claims` struct (`keyasint,omitempty`: zero-valued members are left out, the rest
come out under the labels 1..7 in ascending order), decode the bytes into a struct again with the model of
fxamacker's struct decoder (`claimsDecode`, tied by the `claims.*` ops): every member comes back, for issuers /
subjects / audiences of any length that are valid UTF-8, any three uint64 times and any CWT id; members that were
left out come back as their zero value, which is what they were.
-/
namespace Cose.Props.ClaimsRoundtrip
open Cose.Go Cose.Cbor Cose.Msg Cose.Cwt

/-- `omitempty` members: a label and, unless the member is zero, its item -/
def members (es : List (Nat × Option Cbor)) : List (Cbor × Cbor) :=
  es.filterMap (fun e => e.2.map (fun v => (Cbor.uint e.1, v)))

def ctiItem : Option Bytes → Option Cbor
  | some (x :: r) => some (.bstr (x :: r))
  | _ => none

/-- an empty CWT id is left out and comes back absent -/
def ctiNorm : Option Bytes → Option Bytes
  | some (x :: r) => some (x :: r)
  | _ => none

def fieldsOf (c : ClaimsS) : List (Nat × Option Cbor) :=
  [(1, if c.iss.isEmpty then none else some (.tstr c.iss)),
   (2, if c.sub.isEmpty then none else some (.tstr c.sub)),
   (3, if c.aud.isEmpty then none else some (.tstr c.aud)),
   (4, if c.exp == 0 then none else some (.uint c.exp)),
   (5, if c.nbf == 0 then none else some (.uint c.nbf)),
   (6, if c.iat == 0 then none else some (.uint c.iat)),
   (7, ctiItem c.cti)]

theorem members_cons_ite (b : Bool) (k : Nat) (v : Cbor) (es : List (Nat × Option Cbor)) :
    (if b then [] else [(Cbor.uint k, v)]) ++ members es = members ((k, if b then none else some v) :: es) := by
  cases b <;> simp [members]

theorem chain (b1 b2 b3 b4 b5 b6 : Bool) (v1 v2 v3 v4 v5 v6 : Cbor) (o7 : Option Cbor) (l7 : List (Cbor × Cbor))
    (h7 : l7 = members [(7, o7)]) :
    (if b1 then [] else [(Cbor.uint 1, v1)]) ++ ((if b2 then [] else [(Cbor.uint 2, v2)]) ++
      ((if b3 then [] else [(Cbor.uint 3, v3)]) ++ ((if b4 then [] else [(Cbor.uint 4, v4)]) ++
      ((if b5 then [] else [(Cbor.uint 5, v5)]) ++ ((if b6 then [] else [(Cbor.uint 6, v6)]) ++ l7))))) =
    members [(1, if b1 then none else some v1), (2, if b2 then none else some v2), (3, if b3 then none else some v3),
      (4, if b4 then none else some v4), (5, if b5 then none else some v5), (6, if b6 then none else some v6), (7, o7)] := by
  subst h7
  rw [members_cons_ite, members_cons_ite, members_cons_ite, members_cons_ite, members_cons_ite, members_cons_ite]

theorem toCbor_eq (c : ClaimsS) : c.toCbor = .map (members (fieldsOf c)) := by
  rcases c with ⟨iss, sub, aud, exp, nbf, iat, cti⟩
  rcases cti with _ | _ | ⟨x, r⟩ <;>
  · simp only [ClaimsS.toCbor, fieldsOf, List.append_assoc]
    exact congrArg Cbor.map (chain _ _ _ _ _ _ _ _ _ _ _ _ _ _ rfl)

/-- what is asked of the struct: lengths and times fit their CBOR heads (always true of Go values), text members are valid UTF-8 -/
def Ok (c : ClaimsS) : Prop :=
  c.iss.length < Cbor.two64 ∧ validUtf8 c.iss = true ∧ c.sub.length < Cbor.two64 ∧ validUtf8 c.sub = true ∧
  c.aud.length < Cbor.two64 ∧ validUtf8 c.aud = true ∧ c.exp < Cbor.two64 ∧ c.nbf < Cbor.two64 ∧ c.iat < Cbor.two64 ∧
  (∀ b, c.cti = some b → b.length < Cbor.two64)

def norm (c : ClaimsS) : ClaimsS := { c with cti := ctiNorm c.cti }

/-! ## generic facts about `members` -/

def EsOk (es : List (Nat × Option Cbor)) : Prop :=
  (∀ e ∈ es, e.1 < 24) ∧ (∀ e ∈ es, ∀ v, e.2 = some v → WF v ∧ depth v = 0) ∧ es.Pairwise (fun a b => a.1 < b.1)

theorem encodePairs_eq_map (kvs : List (Cbor × Cbor)) : encodePairs kvs = kvs.map (fun kv => (encode kv.1, encode kv.2)) := by
  induction kvs with
  | nil => simp [encodePairs]
  | cons a r ih => obtain ⟨k, v⟩ := a; simp [encodePairs, ih]

theorem encode_small (k : Nat) (h : k < 24) : encode (.uint k) = [u8 k] := by
  simp [encode, head, h]

theorem bytesLt_small {a b : Nat} (hab : a < b) (hb : b < 24) : bytesLt [u8 a] [u8 b] = true := by
  have ha : a < 256 := by omega
  have hb' : b < 256 := by omega
  have h1 : (u8 a).toNat = a := u8_toNat ha
  have h2 : (u8 b).toNat = b := u8_toNat hb'
  have lt : u8 a < u8 b := by rw [UInt8.lt_iff_toNat_lt, h1, h2]; exact hab
  have ne : ¬ (u8 a = u8 b) := by
    intro e
    rw [e] at lt; exact absurd lt (UInt8.lt_irrefl _)
  simp [bytesLt, bytesLe, lt, ne]

theorem members_sorted (es : List (Nat × Option Cbor)) (h : EsOk es) : KeysSorted (members es) := by
  unfold KeysSorted
  rw [encodePairs_eq_map, List.pairwise_map]
  unfold members
  have hp : es.Pairwise (fun a b => a.1 < b.1 ∧ b.1 < 24) :=
    h.2.2.imp_of_mem (fun {a b} _ hb hab => ⟨hab, h.1 b hb⟩)
  refine List.Pairwise.filterMap _ ?_ hp
  intro a a' hlt b hb b' hb'
  cases ha2 : a.2 with
  | none => simp [ha2] at hb
  | some v =>
    cases ha2' : a'.2 with
    | none => simp [ha2'] at hb'
    | some v' =>
      simp only [ha2, ha2', Option.map_some, Option.some.injEq] at hb hb'
      subst hb; subst hb'
      simp only
      rw [encode_small _ (by omega), encode_small _ hlt.2]
      exact bytesLt_small hlt.1 hlt.2

theorem members_wf (es : List (Nat × Option Cbor)) (h : EsOk es) :
    WFPairs (members es) ∧ depthPairs (members es) = 0 ∧ (members es).all (fun kv => hashableKey kv.1) = true ∧
      (members es).length ≤ es.length := by
  induction es with
  | nil => simp [members, WFPairs, depthPairs]
  | cons e r ih =>
    have hr : EsOk r := ⟨fun x hx => h.1 x (List.mem_cons_of_mem _ hx), fun x hx => h.2.1 x (List.mem_cons_of_mem _ hx),
      (List.pairwise_cons.mp h.2.2).2⟩
    obtain ⟨i1, i2, i3, i4⟩ := ih hr
    obtain ⟨k, o⟩ := e
    cases o with
    | none =>
      have : members ((k, none) :: r) = members r := by simp [members]
      rw [this]; exact ⟨i1, i2, i3, by simp only [List.length_cons]; omega⟩
    | some v =>
      have : members ((k, some v) :: r) = (Cbor.uint k, v) :: members r := by simp [members]
      rw [this]
      obtain ⟨w, d⟩ := h.2.1 (k, some v) List.mem_cons_self v rfl
      have hk := h.1 (k, some v) List.mem_cons_self
      refine ⟨⟨?_, w, i1⟩, ?_, ?_, ?_⟩
      · simp only [WF, Cbor.two64]; simp only at hk; omega
      · simp only [depthPairs, depth, d, i2]; simp
      · rw [List.all_cons, i3]; rfl
      · simp only [List.length_cons]; omega

/-! ## cutting the encoded map into raw pairs -/

def flat (kvs : List (Cbor × Cbor)) : List Cbor := kvs.flatMap (fun kv => [kv.1, kv.2])

theorem flat_cons (k v : Cbor) (r : List (Cbor × Cbor)) : flat ((k, v) :: r) = k :: v :: flat r := by
  simp [flat]

theorem flatten_eq (kvs : List (Cbor × Cbor)) : flattenPairs (encodePairs kvs) = encodeList (flat kvs) := by
  induction kvs with
  | nil => simp [encodePairs, flattenPairs, flat, encodeList]
  | cons a r ih => obtain ⟨k, v⟩ := a; rw [flat_cons]; simp [encodePairs, flattenPairs, encodeList, ih]

theorem flat_wf (kvs : List (Cbor × Cbor)) (h : WFPairs kvs) : WFList (flat kvs) := by
  induction kvs with
  | nil => simp [flat, WFList]
  | cons a r ih =>
    obtain ⟨k, v⟩ := a; rw [flat_cons]
    simp only [WFPairs] at h
    exact ⟨h.1, h.2.1, ih h.2.2⟩

theorem flat_length (kvs : List (Cbor × Cbor)) : (flat kvs).length = 2 * kvs.length := by
  induction kvs with
  | nil => rfl
  | cons a r ih => obtain ⟨k, v⟩ := a; rw [flat_cons]; simp only [List.length_cons, ih]; omega

theorem splitPairs_flat (kvs : List (Cbor × Cbor)) :
    splitPairs ((flat kvs).map encode) = some (kvs.map (fun kv => (encode kv.1, encode kv.2))) := by
  induction kvs with
  | nil => rfl
  | cons a r ih => obtain ⟨k, v⟩ := a; rw [flat_cons]; simp [splitPairs, ih]

theorem sum_lengths (xs : List Cbor) (a : Nat) :
    (xs.map encode).foldl (fun acc i => acc + i.length) a = a + (encodeList xs).length := by
  induction xs generalizing a with
  | nil => simp [encodeList]
  | cons x r ih => simp only [List.map_cons, List.foldl_cons, encodeList, List.length_append, ih]; omega

/-! ## the decoder's keyed view of the pairs -/

def keyedEs (es : List (Nat × Option Cbor)) : List (Option ClaimKey × Bytes × Bytes) :=
  es.filterMap (fun e => e.2.map (fun v => (some (ClaimKey.int e.1), encode (.uint e.1), encode v)))

theorem claimKey_small (k : Nat) (h : k < 24) :
    claimKey (encode (.uint k)) = some (some (.int k), encode (.uint k)) := by
  unfold claimKey
  rw [decodeAll_encode (.uint k) (by simp only [WF, Cbor.two64]; omega) (by simp [depth])]
  have : k < 9223372036854775808 := by omega
  simp [this]

theorem mapM_keyed (es : List (Nat × Option Cbor)) (h : ∀ e ∈ es, e.1 < 24) :
    ((members es).map (fun kv => (encode kv.1, encode kv.2))).mapM
      (fun kv => (claimKey kv.1).map (fun ck => (ck.1, ck.2, kv.2))) = some (keyedEs es) := by
  induction es with
  | nil => rfl
  | cons e r ih =>
    have ih' := ih (fun x hx => h x (List.mem_cons_of_mem _ hx))
    obtain ⟨k, o⟩ := e
    cases o with
    | none =>
      have e1 : members ((k, none) :: r) = members r := by simp [members]
      have e2 : keyedEs ((k, none) :: r) = keyedEs r := by simp [keyedEs]
      rw [e1, e2]; exact ih'
    | some v =>
      have e1 : members ((k, some v) :: r) = (Cbor.uint k, v) :: members r := by simp [members]
      have e2 : keyedEs ((k, some v) :: r) = (some (ClaimKey.int k), encode (.uint k), encode v) :: keyedEs r := by simp [keyedEs]
      rw [e1, e2]
      simp only [List.map_cons, List.mapM_cons, claimKey_small k (h (k, some v) List.mem_cons_self), ih']
      rfl

theorem find_none (r : List (Nat × Option Cbor)) (k : Nat) (h : ∀ e ∈ r, e.1 ≠ k) :
    (keyedEs r).find? (keyIs k) = none := by
  induction r with
  | nil => rfl
  | cons e r ih =>
    have ih' := ih (fun x hx => h x (List.mem_cons_of_mem _ hx))
    obtain ⟨k', o⟩ := e
    have hne : k' ≠ k := h (k', o) List.mem_cons_self
    cases o with
    | none =>
      have e2 : keyedEs ((k', none) :: r) = keyedEs r := by simp [keyedEs]
      rw [e2]; exact ih'
    | some v =>
      have e2 : keyedEs ((k', some v) :: r) = (some (ClaimKey.int k'), encode (.uint k'), encode v) :: keyedEs r := by simp [keyedEs]
      rw [e2, List.find?_cons]
      have : keyIs k (some (ClaimKey.int k'), encode (.uint k'), encode v) = false := by
        simp only [keyIs, beq_eq_false_iff_ne, ne_eq]; omega
      rw [this]; exact ih'

theorem get_member (es : List (Nat × Option Cbor)) (hs : es.Pairwise (fun a b => a.1 < b.1)) (k : Nat) (o : Option Cbor)
    (hm : (k, o) ∈ es) : ((keyedEs es).find? (keyIs k)).map (·.2.2) = o.map encode := by
  induction es with
  | nil => cases hm
  | cons e r ih =>
    obtain ⟨hlt, hr⟩ := List.pairwise_cons.mp hs
    rcases List.mem_cons.mp hm with he | hin
    · subst he
      cases o with
      | none =>
        have e2 : keyedEs ((k, none) :: r) = keyedEs r := by simp [keyedEs]
        rw [e2, find_none r k (fun x hx => by have := hlt x hx; simp only at this; omega)]; rfl
      | some v =>
        have e2 : keyedEs ((k, some v) :: r) = (some (ClaimKey.int k), encode (.uint k), encode v) :: keyedEs r := by simp [keyedEs]
        rw [e2, List.find?_cons]
        have : keyIs k (some (ClaimKey.int k), encode (.uint k), encode v) = true := by simp [keyIs]
        rw [this]; rfl
    · obtain ⟨k', o'⟩ := e
      have hne : k' ≠ k := by have := hlt (k, o) hin; simp only at this; omega
      cases o' with
      | none =>
        have e2 : keyedEs ((k', none) :: r) = keyedEs r := by simp [keyedEs]
        rw [e2]; exact ih hr hin
      | some v =>
        have e2 : keyedEs ((k', some v) :: r) = (some (ClaimKey.int k'), encode (.uint k'), encode v) :: keyedEs r := by simp [keyedEs]
        rw [e2, List.find?_cons]
        have : keyIs k (some (ClaimKey.int k'), encode (.uint k'), encode v) = false := by
          simp only [keyIs, beq_eq_false_iff_ne, ne_eq]; omega
        rw [this]; exact ih hr hin

theorem keyed_keys (es : List (Nat × Option Cbor)) :
    (keyedEs es).map (·.2.1) = (members es).map (fun kv => encode kv.1) := by
  induction es with
  | nil => rfl
  | cons e r ih =>
    obtain ⟨k, o⟩ := e
    cases o with
    | none =>
      have e1 : members ((k, none) :: r) = members r := by simp [members]
      have e2 : keyedEs ((k, none) :: r) = keyedEs r := by simp [keyedEs]
      rw [e1, e2]; exact ih
    | some v =>
      have e1 : members ((k, some v) :: r) = (Cbor.uint k, v) :: members r := by simp [members]
      have e2 : keyedEs ((k, some v) :: r) = (some (ClaimKey.int k), encode (.uint k), encode v) :: keyedEs r := by simp [keyedEs]
      rw [e1, e2]; simp only [List.map_cons, ih]

/-! ## typed members -/

theorem fieldOf_some {α} (v : Cbor) (zero : α) (f : Cbor → Dec α) (hw : WF v) (hd : depth v = 0) :
    fieldOf (some (encode v)) zero f = f v := by
  unfold fieldOf
  simp only [decodeAll_encode v hw (by omega)]

theorem str_field (s : Bytes) (h1 : s.length < Cbor.two64) (h2 : validUtf8 s = true) :
    fieldOf (Option.map encode (if s.isEmpty then none else some (Cbor.tstr s))) [] strField = .ok s := by
  cases s with
  | nil => rfl
  | cons x r =>
    simp only [List.isEmpty_cons, Bool.false_eq_true, if_false, Option.map_some]
    rw [fieldOf_some (Cbor.tstr (x :: r)) _ _ (by simp only [WF]; exact ⟨h1, h2⟩) rfl]; rfl

theorem u64_field (n : Nat) (h : n < Cbor.two64) :
    fieldOf (Option.map encode (if n == 0 then none else some (Cbor.uint n))) 0 u64Field = .ok n := by
  by_cases e : n = 0
  · subst e; rfl
  · have : (n == 0) = false := by simp [e]
    simp only [this, Bool.false_eq_true, if_false, Option.map_some]
    rw [fieldOf_some (Cbor.uint n) _ _ (by simp only [WF]; exact h) rfl]; rfl

theorem cti_field (o : Option Bytes) (h : ∀ b, o = some b → b.length < Cbor.two64) :
    fieldOf (Option.map encode (ctiItem o)) none bytesField = .ok (ctiNorm o) := by
  cases o with
  | none => rfl
  | some l =>
    cases l with
    | nil => rfl
    | cons x r =>
      simp only [ctiItem, ctiNorm, Option.map_some]
      rw [fieldOf_some (Cbor.bstr (x :: r)) _ _ (by simp only [WF]; exact h _ rfl) rfl]; rfl

/-! ## the struct -/

theorem fields_ok (c : ClaimsS) (h : Ok c) : EsOk (fieldsOf c) := by
  obtain ⟨h1, u1, h2, u2, h3, u3, h4, h5, h6, h7⟩ := h
  refine ⟨?_, ?_, ?_⟩
  · intro e he; simp only [fieldsOf, List.mem_cons, List.not_mem_nil, or_false] at he
    rcases he with rfl | rfl | rfl | rfl | rfl | rfl | rfl <;> simp
  · intro e he v hv; simp only [fieldsOf, List.mem_cons, List.not_mem_nil, or_false] at he
    rcases he with rfl | rfl | rfl | rfl | rfl | rfl | rfl
    · simp only at hv; split at hv
      · cases hv
      · cases hv; exact ⟨⟨h1, u1⟩, rfl⟩
    · simp only at hv; split at hv
      · cases hv
      · cases hv; exact ⟨⟨h2, u2⟩, rfl⟩
    · simp only at hv; split at hv
      · cases hv
      · cases hv; exact ⟨⟨h3, u3⟩, rfl⟩
    · simp only at hv; split at hv
      · cases hv
      · cases hv; exact ⟨h4, rfl⟩
    · simp only at hv; split at hv
      · cases hv
      · cases hv; exact ⟨h5, rfl⟩
    · simp only at hv; split at hv
      · cases hv
      · cases hv; exact ⟨h6, rfl⟩
    · simp only at hv
      cases hc : c.cti with
      | none => rw [hc] at hv; cases hv
      | some l =>
        cases l with
        | nil => rw [hc] at hv; cases hv
        | cons x r => rw [hc] at hv; simp only [ctiItem, Option.some.injEq] at hv; subst hv; exact ⟨h7 _ hc, rfl⟩
  · simp [fieldsOf]

theorem claims_struct_roundtrip (c : ClaimsS) (h : Ok c) : claimsDecode (encode c.toCbor) = .ok (norm c) := by
  have hes := fields_ok c h
  have hsorted := members_sorted _ hes
  obtain ⟨hwf, hdep, hhash, hlen⟩ := members_wf _ hes
  rw [toCbor_eq, encode_map_sorted hsorted, flatten_eq]
  generalize hkvs : members (fieldsOf c) = kvs at *
  have hn : kvs.length ≤ 7 := by simpa [fieldsOf] using hlen
  have hd : decHead (head 5 kvs.length ++ encodeList (flat kvs)) = some (5, aiOf kvs.length, kvs.length, encodeList (flat kvs)) :=
    decHead_head 5 kvs.length _ (by omega) (by omega)
  have htags : rawTagsOk 64 (head 5 kvs.length ++ encodeList (flat kvs)) = true := by simp only [rawTagsOk, hd]
  have hunt : rawUntag 64 (head 5 kvs.length ++ encodeList (flat kvs)) = head 5 kvs.length ++ encodeList (flat kvs) := by
    simp only [rawUntag, hd]
  unfold claimsDecode
  simp only [htags, hunt, hd]
  have hmax : ¬ kvs.length > maxElems := by unfold maxElems; omega
  have htake : takeItems (3 * List.length (head 5 kvs.length ++ encodeList (flat kvs)) + 3) (2 * kvs.length)
      (encodeList (flat kvs)) = some ((flat kvs).map encode) := by
    have := takeItems_encodeList (flat kvs) (flat_wf kvs hwf) (3 * List.length (head 5 kvs.length ++ encodeList (flat kvs)) + 3) []
      (fun x hx => by
        have := mem_size_le_encodeList (flat kvs) (flat_wf kvs hwf) x hx
        simp only [List.length_append]; omega)
    rw [flat_length] at this
    simpa using this
  have hsum : List.foldl (fun acc i => acc + List.length i) 0 ((flat kvs).map encode) = (encodeList (flat kvs)).length := by
    rw [sum_lengths]; omega
  have hmapm := mapM_keyed (fieldsOf c) hes.1
  rw [hkvs] at hmapm
  have hnd : (List.map (fun x => x.snd.fst) (keyedEs (fieldsOf c))).Nodup := by
    rw [keyed_keys, hkvs]
    have := nodupKeys_of_sorted hsorted
    unfold nodupKeys at this
    simpa using this
  simp only [Bool.not_true, Bool.false_eq_true, if_false, hmax, htake, hsum, bne_self_eq_false, splitPairs_flat, hmapm, hnd,
    decide_true]
  have g : ∀ (k : Nat) (o : Option Cbor) (l : Int), l = (k : Int) → (k, o) ∈ fieldsOf c →
      Option.map (fun x => x.snd.snd) (List.find? (keyIs l) (keyedEs (fieldsOf c))) = o.map encode :=
    fun k o l hl hm => by subst hl; exact get_member (fieldsOf c) hes.2.2 k o hm
  rw [g 1 _ 1 rfl (.head _), g 2 _ 2 rfl (.tail _ (.head _)), g 3 _ 3 rfl (.tail _ (.tail _ (.head _))),
    g 4 _ 4 rfl (.tail _ (.tail _ (.tail _ (.head _)))), g 5 _ 5 rfl (.tail _ (.tail _ (.tail _ (.tail _ (.head _))))),
    g 6 _ 6 rfl (.tail _ (.tail _ (.tail _ (.tail _ (.tail _ (.head _)))))),
    g 7 _ 7 rfl (.tail _ (.tail _ (.tail _ (.tail _ (.tail _ (.tail _ (.head _)))))))]
  obtain ⟨h1, u1, h2, u2, h3, u3, h4, h5, h6, h7⟩ := h
  rw [str_field _ h1 u1, str_field _ h2 u2, str_field _ h3 u3, u64_field _ h4, u64_field _ h5, u64_field _ h6, cti_field _ h7]
  rfl

/-- what `Validator.Validate` reads of a decoded struct -/
def sview (c : ClaimsS) : SClaims :=
  { issuer := String.fromUTF8! (ByteArray.mk c.iss.toArray), audience := String.fromUTF8! (ByteArray.mk c.aud.toArray),
    exp := c.exp, nbf := c.nbf, iat := c.iat }

/-- **a claim set validates after transport as it did before**: the struct that comes out of the bytes gets the verdict
    of the struct that went in, under every validator -/
theorem struct_roundtrip_validates (o : VOpts) (c : ClaimsS) (h : Ok c) :
    ∃ c', claimsDecode (encode c.toCbor) = .ok c' ∧ validate o (sview c') = validate o (sview c) :=
  ⟨norm c, claims_struct_roundtrip c h, rfl⟩

/-- the premise is satisfiable by an ordinary claim set (issuer, audience, expiry, CWT id; no subject, nbf or iat) -/
example : Ok ⟨[0x6c, 0x64, 0x63], [], [0x61], 1444064944, 0, 0, some [1, 2]⟩ ∧
    norm ⟨[0x6c, 0x64, 0x63], [], [0x61], 1444064944, 0, 0, some [1, 2]⟩ = ⟨[0x6c, 0x64, 0x63], [], [0x61], 1444064944, 0, 0, some [1, 2]⟩ := by
  refine ⟨⟨by decide, by decide, by decide, by decide, by decide, by decide, by decide, by decide, by decide, ?_⟩, rfl⟩
  intro b hb; cases hb; decide

/-- an empty CWT id is the one value that does not come back as it went in: it is omitted, hence absent -/
example : norm ⟨[], [], [], 0, 0, 0, some []⟩ = ⟨[], [], [], 0, 0, 0, none⟩ := rfl

end Cose.Props.ClaimsRoundtrip
