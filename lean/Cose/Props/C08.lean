import Cose.Cbor.Corollaries
import Cose.Go.Labels
import Cose.Gen.Layouts
/-!
# C08 — Deterministic CBOR out, strict CBOR in

Model: `Cose.Cbor.encode` (what the library's encoder emits: shortest heads, definite lengths, map entries
sorted bytewise by encoded key) and `Cose.Cbor.decode` (the language fxamacker accepts under the library's
options).  Tie: the encoder/decoder options are regenerated from `key/cbor.go` (`options_are_strict`);
`cbor.enc` is a spec op (library output = `encode`), `cbor.dec` / `map.unmarshal` mirror ops over a
grammar-aware malformed stream.
-/
namespace Cose.Props.C08
open Cose.Cbor Cose.Go

/-- the encoder sorts bytewise and forbids indefinite lengths; the decoder enforces duplicate-key detection
    and forbids indefinite lengths — as configured in the source *now* -/
theorem options_are_strict :
    Cose.Gen.Layouts.cborOptions =
      [("decOpts", [("DupMapKey", "cbor.DupMapKeyEnforcedAPF"), ("IndefLength", "cbor.IndefLengthForbidden")]),
       ("encOpts", [("IndefLength", "cbor.IndefLengthForbidden"), ("Sort", "cbor.SortBytewiseLexical")])] := by
  decide +kernel

/-! ### encoding -/

/-- **equal values encode to identical bytes whatever the Go integer type** -/
theorem encode_kind_independent (k k' : IntKind) (v : Int) : toCbor (.int k v) = toCbor (.int k' v) := rfl

/-- **… and whatever the map iteration order** -/
theorem encode_order_independent {k1 k2 : List (Cbor × Cbor)} (h : k1.Perm k2)
    (nd : ((encodePairs k1).map (·.1)).Nodup) : encode (.map k1) = encode (.map k2) :=
  encode_map_perm h nd

/-- **shortest-form heads** (integers, lengths, tags) -/
theorem heads_shortest (mt n : Nat) :
    (head mt n).length =
      if n < 24 then 1 else if n < 256 then 2 else if n < 65536 then 3 else if n < 4294967296 then 5 else 9 :=
  head_shortest mt n

/-- **map keys leave the encoder in RFC 8949 bytewise lexicographic order** -/
theorem map_keys_sorted (kvs : List (Cbor × Cbor)) :
    ((encodePairs kvs).mergeSort entryLe).Pairwise (fun a b => bytesLe a.1 b.1 = true) :=
  encode_map_entries_sorted kvs

/-- **what is encoded is well-formed definite-length CBOR**: the strict decoder reads it back, whole -/
theorem encoded_is_accepted (v : Cbor) (hw : WF v) (hd : depth v ≤ maxNesting) : decodeAll (encode v) = some v :=
  decodeAll_encode v hw hd

/-- **distinct values have distinct encodings** (no two authenticated structures collide) -/
theorem encode_injective' {v w : Cbor} (hv : WF v) (hw : WF w) (h : encode v = encode w) : v = w :=
  encode_inj hv hw h

/-! ### decoding -/

/-- **indefinite-length items are rejected** (additional information 31 on any major type), as are the
    reserved values 28–30; every nested item passes through the same `decHead`, so this holds at any depth -/
theorem decode_rejects_indefinite (b : UInt8) (r : Bytes) (f d : Nat) (h : b.toNat % 32 ≥ 28) :
    decode f d (b :: r) = none := by
  cases f with
  | zero => simp [decode]
  | succ f =>
    have hh : decHead (b :: r) = none := by
      unfold decHead
      have a : ¬ b.toNat % 32 < 24 := by omega
      have b1 : ¬ b.toNat % 32 = 24 := by omega
      have b2 : ¬ b.toNat % 32 = 25 := by omega
      have b3 : ¬ b.toNat % 32 = 26 := by omega
      have b4 : ¬ b.toNat % 32 = 27 := by omega
      simp [a, b1, b2, b3, b4]
    simp [decode, hh]

/-- **an array element that is rejected makes the array rejected** (rejection propagates upwards) -/
theorem decodeList_rejects_of_head (f d k : Nat) (bs : Bytes) (h : decode f d bs = none) :
    decodeList (f + 1) d (k + 1) bs = none := by
  simp [decodeList, h]

/-- **duplicate map keys are rejected at any depth** (keys are compared as values, so `01` and `1801`
    are the same key) -/
theorem dup_keys_rejected (kvs : List (Cbor × Cbor)) (hw : WFPairs kvs) (hlen : kvs.length < two64)
    (hdup : nodupKeys kvs = false) (f d : Nat) (r : Bytes) (hf : sizePairs kvs < f) (hd : depthPairs kvs < d) :
    decode f d (head 5 kvs.length ++ flattenPairs (encodePairs kvs) ++ r) = none :=
  decode_rejects_dup_keys kvs hw hlen hdup f d r hf hd

example : nodupKeys [(.uint 1, .uint 0), (.uint 1, .uint 5)] = false := by decide +kernel
/-- `a2 01 00 18 01 05`: the second key is the non-shortest encoding of 1 -/
example : decodeAll [0xa2, 0x01, 0x00, 0x18, 0x01, 0x05] = none := by decide +kernel
#guard (decodeAll [0xa2, 0x01, 0x00, 0x02, 0x05]).map encode == some [0xa2, 0x01, 0x00, 0x02, 0x05]

/-- **trailing bytes are rejected** -/
theorem trailing_rejected (v : Cbor) (hw : WF v) (hd : depth v ≤ maxNesting) (b : UInt8) (r : Bytes) :
    decodeAll (encode v ++ b :: r) = none :=
  decodeAll_rejects_trailing v hw hd b r

/-- **labels of a header / key / claim map must be 32-bit-range integers or text** -/
theorem label_out_of_range_rejected (k : IntKind) (v : Int) (hwf : k.signed = false → 0 ≤ v)
    (h : v < -2147483648 ∨ v > 2147483647) : ¬ (checkKey (.int k v)).isOk := by
  unfold checkKey minInt32 maxInt32
  cases k <;> simp only [IntKind.signed, Bool.false_eq_true, forall_const, false_implies] at hwf ⊢
  all_goals first
    | (simp [Res.isOk]; done)
    | (split <;> simp [Res.isOk] <;> omega)

theorem label_wrong_type_rejected (v : GoVal) (hi : ∀ k n, v ≠ .int k n) (hs : ∀ s, v ≠ .str s) :
    ¬ (checkKey v).isOk := by
  unfold checkKey
  cases v <;> simp_all [Res.isOk]

theorem label_ok_iff_int32 (v : Int) : (checkKey (.int .i64 v)).isOk ↔ (-2147483648 ≤ v ∧ v ≤ 2147483647) := by
  unfold checkKey minInt32 maxInt32
  by_cases h : -2147483648 ≤ v ∧ v ≤ 2147483647 <;> simp [h, Res.isOk]

end Cose.Props.C08
