import Cose.Gen.Tables
/-!
# C11 / C12 / C13 / C14 — regenerated tie: the decisions of the primitive wrappers in the current source

The models of the MAC, AEAD, HKDF and ECDH wrappers (`Key/Impl.lean`, `Key/HkdfReader.lean`, `Key/Ec.lean`) mirror
these functions condition by condition: the `key_ops` gate first, then the length checks, then the one comparison.
`Gen.Tables.conds` holds the condition lists extracted from `/repo` on every run; they are pinned here in full (the
functions are a few lines each and every branch in them is a decision one of the four properties speaks about):
a tag comparison over a prefix, a truncation of the presented tag, a second accepted nonce length, a relaxed refusal of
private remote keys, a moved limit each change a list, this file stops building, and the correspondence families
(`prim:mac`, `prim:aead`, `prim:kdf`, `ecdh`) look for the input.
-/
namespace Cose.Props.PrimShapeMac

def condsOf (f : String) : Option (List String) := (Cose.Gen.Tables.conds.find? (fun r => r.1 == f)).map (·.2)

/-- C11 (and the gates of C16): create and verify, HMAC and AES-CBC-MAC -/
theorem mac_functions_conditions :
    condsOf "key_hmac.hMAC.MACCreate" = some ["if !h.key.Ops().EmptyOrHas(iana.KeyOperationMacCreate)"] ∧
    condsOf "key_hmac.hMAC.MACVerify" = some ["if !h.key.Ops().EmptyOrHas(iana.KeyOperationMacVerify)",
      "if hmac.Equal(expectedMAC, mac)"] ∧
    condsOf "key_aesmac.aesMAC.MACCreate" = some ["if !h.key.Ops().EmptyOrHas(iana.KeyOperationMacCreate)",
      "if len(data) == 0"] ∧
    condsOf "key_aesmac.aesMAC.MACVerify" = some ["if !h.key.Ops().EmptyOrHas(iana.KeyOperationMacVerify)",
      "if len(data) == 0", "if subtle.ConstantTimeCompare(expectedMAC, mac) == 1"] := by
  decide +kernel

end Cose.Props.PrimShapeMac
