import Cose.Msg.Kdf
import Cose.Msg.Roundtrip
import Cose.Cbor.RawLemmas
/-!
# C09 / C04 — a COSE_KDF_Context survives encode → decode

`kdf_roundtrip`: for every algorithm identifier (int64), PartyU / PartyV information (each member absent or any byte
string), key data length (uint64), protected bucket, optional `other` and optional SuppPrivInfo, `KDFContext.MarshalCBOR`
followed by `KDFContext.UnmarshalCBOR` yields the same context — "absent" stays absent and "present but empty" stays
present, member by member (the distinction RFC 9053 §5.2 makes and HKDF inputs depend on) — with the protected bucket
as whatever `HeadersFromBytes` reads from the emitted bytes.  The decoder's first-octet dispatch (0x84 / 0x85 for the
context, 0x82 / 0x83 for SuppPubInfo) is part of the model and is discharged here through `rawArrayElems_encode_arr`.
-/
namespace Cose.Props.KdfRoundtrip
open Cose.Msg Cose.Go Cose.Cbor

def PartyOk (p : PartyInfo) : Prop :=
  (∀ x, p.identity = some x → x.length < two64) ∧ (∀ x, p.nonce = some x → x.length < two64) ∧
  (∀ x, p.other = some x → x.length < two64)

theorem party_wf (p : PartyInfo) (h : PartyOk p) : WF (partyInfoSpec p) ∧ depth (partyInfoSpec p) = 1 := by
  obtain ⟨h1, h2, h3⟩ := h
  refine ⟨?_, by simp [partyInfoSpec, depth, depthList, depth_bytesCbor]⟩
  simp only [partyInfoSpec, WF, WFList, maxElems, List.length_cons, List.length_nil]
  exact ⟨by omega, wf_bytesCbor _ h1, wf_bytesCbor _ h2, wf_bytesCbor _ h3, trivial⟩

theorem party_field (p : PartyInfo) : partyInfoField (partyInfoSpec p) = .ok p := by
  simp only [partyInfoField, partyInfoSpec, untag_arr, bytesField_bytesCbor]

theorem intField_ofInt (a : Int) (h : -9223372036854775808 ≤ a ∧ a < 9223372036854775808) :
    intField (Cbor.ofInt a) = .ok a ∧ WF (Cbor.ofInt a) ∧ depth (Cbor.ofInt a) = 0 := by
  unfold Cbor.ofInt
  by_cases hp : a ≥ 0
  · simp only [hp, if_true]
    have : a.toNat < 9223372036854775808 := by omega
    refine ⟨?_, by simp only [WF, two64]; omega, rfl⟩
    simp only [intField, bignumTagged, untag, this, if_true, Bool.false_eq_true, if_false]
    congr 1; omega
  · simp only [hp, if_false]
    have : (-1 - a).toNat < 9223372036854775808 := by omega
    refine ⟨?_, by simp only [WF, two64]; omega, rfl⟩
    simp only [intField, bignumTagged, untag, this, if_true, Bool.false_eq_true, if_false]
    congr 1; omega

/-- the decoded context: everything as it was, the protected bucket as read from its emitted bytes -/
def expected (c : KdfContext) (pm : CMap) : KdfContext :=
  { c with suppPub := { c.suppPub with prot := some pm } }

theorem kdf_roundtrip (c : KdfContext) (pb : Bytes) (pm : CMap)
    (ha : -9223372036854775808 ≤ c.algorithmID ∧ c.algorithmID < 9223372036854775808)
    (hu : PartyOk c.partyU) (hv : PartyOk c.partyV) (hk : c.suppPub.keyDataLength < two64)
    (hpb : hdrBytes c.suppPub.prot = .ok pb) (hpl : pb.length < two64) (hpm : hdrFromBytes (some pb) = .ok pm)
    (ho : ∀ x, c.suppPub.other = some x → x.length < two64) (hp : ∀ x, c.suppPriv = some x → x.length < two64) :
    ∃ b, kdfEncode c = some b ∧ kdfDecode b = .ok (expected c pm) := by
  obtain ⟨hai, haw, had⟩ := intField_ofInt c.algorithmID ha
  obtain ⟨huw, hud⟩ := party_wf c.partyU hu
  obtain ⟨hvw, hvd⟩ := party_wf c.partyV hv
  -- SuppPubInfo: two or three members
  obtain ⟨sp, hsp, hspw, hspd, hspf⟩ : ∃ sp, suppPubSpec c.suppPub = some sp ∧ WF sp ∧ depth sp = 1 ∧
      suppPubField (encode sp) sp = .ok ⟨c.suppPub.keyDataLength, some pm, c.suppPub.other⟩ := by
    unfold suppPubSpec
    rw [hpb]
    cases hoth : c.suppPub.other with
    | none =>
      refine ⟨_, rfl, ?_, by simp [depth, depthList], ?_⟩
      · simp only [WF, WFList, maxElems, List.length_cons, List.length_nil]; exact ⟨by omega, hk, hpl, trivial⟩
      · obtain ⟨rest, hr⟩ := encode_arr_first [.uint c.suppPub.keyDataLength, .bstr pb] (by simp)
        rw [hr]
        have : u8 (4 * 32 + [Cbor.uint c.suppPub.keyDataLength, Cbor.bstr pb].length) = 0x82 := by
          simp only [List.length_cons, List.length_nil]; decide
        rw [this]
        simp only [suppPubField, uintField, bignumTagged, untag, bytesField, hpm, Bool.false_eq_true, if_false]
    | some o =>
      refine ⟨_, rfl, ?_, by simp [depth, depthList], ?_⟩
      · simp only [WF, WFList, maxElems, List.length_cons, List.length_nil]
        exact ⟨by omega, hk, hpl, ho o hoth, trivial⟩
      · obtain ⟨rest, hr⟩ := encode_arr_first [.uint c.suppPub.keyDataLength, .bstr pb, .bstr o] (by simp)
        rw [hr]
        have : u8 (4 * 32 + [Cbor.uint c.suppPub.keyDataLength, Cbor.bstr pb, Cbor.bstr o].length) = 0x83 := by
          simp only [List.length_cons, List.length_nil]; decide
        rw [this]
        simp only [suppPubField, uintField, bignumTagged, untag, bytesField, hpm, Bool.false_eq_true, if_false]
  unfold kdfEncode kdfContextSpec
  rw [hsp]
  cases hpr : c.suppPriv with
  | none =>
    let items := [Cbor.ofInt c.algorithmID, partyInfoSpec c.partyU, partyInfoSpec c.partyV, sp]
    have hwf : WF (.arr items) := by
      simp only [items, WF, WFList, maxElems, List.length_cons, List.length_nil]
      exact ⟨by omega, haw, huw, hvw, hspw, trivial⟩
    have hdep : depth (.arr items) ≤ maxNesting := by
      simp only [items, depth, depthList, had, hud, hvd, hspd, maxNesting]; omega
    refine ⟨encode (.arr items), rfl, ?_⟩
    obtain ⟨rest, hr⟩ := encode_arr_first items (by simp [items])
    have hb0 : u8 (4 * 32 + items.length) = 0x84 := by
      simp only [items, List.length_cons, List.length_nil]; decide
    have hraw := rawArrayElems_encode_arr items hwf
    have hdec := decodeAll_encode _ hwf hdep
    unfold kdfDecode
    split
    · rename_i heq; rw [hr] at heq; cases heq
    · rename_i b0 tail heq
      have hb : b0 = 0x84 := by rw [hr] at heq; cases heq; exact hb0
      subst hb
      rw [hdec, hraw]
      simp only [items, List.map_cons, List.map_nil, hai, party_field, hspf]
      simp [expected, hpr]
  | some pr =>
    let items := [Cbor.ofInt c.algorithmID, partyInfoSpec c.partyU, partyInfoSpec c.partyV, sp, .bstr pr]
    have hwf : WF (.arr items) := by
      simp only [items, WF, WFList, maxElems, List.length_cons, List.length_nil]
      exact ⟨by omega, haw, huw, hvw, hspw, hp pr hpr, trivial⟩
    have hdep : depth (.arr items) ≤ maxNesting := by
      simp only [items, depth, depthList, had, hud, hvd, hspd, maxNesting]; omega
    refine ⟨encode (.arr items), rfl, ?_⟩
    obtain ⟨rest, hr⟩ := encode_arr_first items (by simp [items])
    have hb0 : u8 (4 * 32 + items.length) = 0x85 := by
      simp only [items, List.length_cons, List.length_nil]; decide
    have hraw := rawArrayElems_encode_arr items hwf
    have hdec := decodeAll_encode _ hwf hdep
    unfold kdfDecode
    split
    · rename_i heq; rw [hr] at heq; cases heq
    · rename_i b0 tail heq
      have hb : b0 = 0x85 := by rw [hr] at heq; cases heq; exact hb0
      subst hb
      rw [hdec, hraw]
      simp only [items, List.map_cons, List.map_nil, hai, party_field, hspf, bytesField]
      simp [expected, hpr]

/-- in particular "present but empty" and "absent" are kept apart, member by member -/
theorem kdf_roundtrip_presence (c : KdfContext) (pm : CMap) :
    (expected c pm).partyU = c.partyU ∧ (expected c pm).partyV = c.partyV ∧
    (expected c pm).suppPub.other = c.suppPub.other ∧ (expected c pm).suppPriv = c.suppPriv ∧
    (expected c pm).algorithmID = c.algorithmID ∧ (expected c pm).suppPub.keyDataLength = c.suppPub.keyDataLength :=
  ⟨rfl, rfl, rfl, rfl, rfl, rfl⟩

-- non-vacuity: a context with an empty-but-present identity, an absent nonce, `other` present and empty, SuppPrivInfo present
def sample : KdfContext := ⟨-6, ⟨some [], none, some [1]⟩, ⟨none, some [2, 3], none⟩, ⟨128, none, some []⟩, some [9]⟩

theorem party_small (p : PartyInfo)
    (h : ∀ x, (p.identity = some x ∨ p.nonce = some x ∨ p.other = some x) → x.length < 100) : PartyOk p := by
  refine ⟨fun x hx => ?_, fun x hx => ?_, fun x hx => ?_⟩
  · have := h x (.inl hx); unfold two64; omega
  · have := h x (.inr (.inl hx)); unfold two64; omega
  · have := h x (.inr (.inr hx)); unfold two64; omega

example : ∃ b, kdfEncode sample = some b ∧ kdfDecode b = .ok (expected sample []) := by
  refine kdf_roundtrip sample [] [] (by decide) (party_small _ ?_) (party_small _ ?_) (by decide) rfl (by decide) rfl ?_ ?_
  · intro x h; rcases h with h | h | h <;> cases h <;> decide
  · intro x h; rcases h with h | h | h <;> cases h <;> decide
  · intro x h; cases h; decide
  · intro x h; cases h; decide

end Cose.Props.KdfRoundtrip
