import Cose.Key.EcLemmas
import Cose.Props.C16
/-!
# C15 — derived public keys leak nothing; all encodings of a key are equivalent

Theorems on the key-conversion model (`ed25519ToPublic`, `ecdsaToPublic`, `ecdhToPublic`, `newVerifier`):
derived public keys are built from a fixed label set that excludes the private parameter; embedded public
coordinates are compared **as integers** (RFC 9053 §7.1.1 padded forms accepted) and a mismatch is refused;
emitted EC2 coordinates have exactly the curve's byte length.  That derived keys *denote the matching public key*
is curve arithmetic: established against the Lean reference in the run (`sig.topublic`, `sig.verifierkey`,
`ecdh.topublic`, `*.compress`, with one third of the keys having leading-zero coordinates).
-/
namespace Cose.Props.C15
open Cose.Key Cose.Go Cose.Gen Cose.Crypto Cose.Props.C16

theorem has_eq_any (m : CMap) (l : Label) : m.has l = m.any (fun kv => kv.1 == l) := by
  unfold CMap.has CMap.lookup
  induction m with
  | nil => rfl
  | cons x r ih =>
    rw [List.find?_cons, List.any_cons]
    cases hx : (x.1 == l) with
    | true => rfl
    | false => simpa using ih

theorem has_set_ne (m : CMap) (l l' : Label) (v : GoVal) (h : l' ≠ l) : (m.set l v).has l' = m.has l' := by
  have hlv : ((l, v).1 == l') = false := by
    simp only [beq_eq_false_iff_ne, ne_eq]; exact fun c => h c.symm
  rw [has_eq_any, has_eq_any]
  unfold CMap.set
  split
  · rw [List.any_map]
    apply List.any_congr rfl
    intro kv
    by_cases hk : (kv.1 == l) = true
    · have : kv.1 = l := by simpa using hk
      simp only [Function.comp, hk, if_true, hlv]
      rw [this]; exact hlv.symm
    · simp only [Function.comp, hk, if_false, Bool.false_eq_true]
  · rw [List.any_append]
    simp [hlv]

/-- `copyCommon` adds only kid / alg / key_ops -/
theorem copyCommon_has (k base : Key) (newOps : List Int) (l : Label)
    (h1 : l ≠ lbl Iana.KeyParameterKid) (h2 : l ≠ lbl Iana.KeyParameterAlg) (h3 : l ≠ lbl Iana.KeyParameterKeyOps) :
    (copyCommon k base newOps).has l = base.has l := by
  unfold copyCommon
  simp only []
  split <;> split <;> split <;> simp only [has_set_ne _ _ _ _ h1, has_set_ne _ _ _ _ h2, has_set_ne _ _ _ _ h3]

/-- **an Ed25519 public key derived from a private key holds no private parameter** -/
theorem ed25519_public_has_no_private (k pk : Key) (hd : k.has (lbl Iana.OKPKeyParameterD) = true)
    (h : ed25519ToPublic k = .ok pk) : pk.has (lbl Iana.OKPKeyParameterD) = false := by
  unfold ed25519ToPublic at h
  split at h
  · cases h
  · simp only [hd, Bool.not_true, Bool.false_eq_true, if_false] at h
    split at h
    · cases h
    · simp only [Res.ok.injEq] at h
      rw [← h, has_set_ne _ _ _ _ (by decide), copyCommon_has _ _ _ _ (by decide) (by decide) (by decide)]
      decide

/-- **an ECDSA public key derived from a private key holds no private parameter** -/
theorem ecdsa_public_has_no_private (k pk : Key) (hd : k.has (lbl Iana.EC2KeyParameterD) = true)
    (h : ecdsaToPublic k = .ok pk) : pk.has (lbl Iana.EC2KeyParameterD) = false := by
  unfold ecdsaToPublic at h
  split at h
  · cases h
  · simp only [hd, Bool.not_true, Bool.false_eq_true, if_false] at h
    cases hc : ecdsaCurve (alg k) with
    | none => simp [hc] at h
    | some ci =>
      simp only [hc] at h
      generalize (CMap.has k (lbl Iana.EC2KeyParameterX) && _) = xb at h
      cases xb
      · simp only [Bool.false_eq_true, if_false, Res.ok.injEq] at h
        rw [← h, has_set_ne _ _ _ _ (by decide), has_set_ne _ _ _ _ (by decide),
          copyCommon_has _ _ _ _ (by decide) (by decide) (by decide), has_eq_any]
        simp only [List.any_cons, List.any_nil, Bool.or_false]
        decide
      · simp at h

/-- **the key a verifier reports never contains a private parameter** -/
theorem verifier_key_is_public (k : Key) (v : VerifierImpl) (h : newVerifier (some k) = .ok v) :
    v.key.has (lbl Iana.EC2KeyParameterD) = false := by
  unfold newVerifier at h
  simp only at h
  split at h
  · cases h
  · split at h
    · -- ed25519
      cases hp : ed25519ToPublic k with
      | err e => simp [hp] at h
      | panic s => simp [hp] at h
      | ok pk =>
        simp only [hp, Res.ok.injEq] at h
        rw [← h]
        by_cases hd : k.has (lbl Iana.OKPKeyParameterD) = true
        · exact ed25519_public_has_no_private k pk hd hp
        · unfold ed25519ToPublic at hp
          split at hp
          · cases hp
          · simp only [hd, Bool.not_false, if_true, Res.ok.injEq] at hp
            rw [← hp]
            have e : lbl Iana.EC2KeyParameterD = lbl Iana.OKPKeyParameterD := rfl
            rw [e]; simpa using hd
    · cases hp : ecdsaToPublic k with
      | err e => simp [hp] at h
      | panic s => simp [hp] at h
      | ok pk =>
        simp only [hp] at h
        cases hq : ecdsaPoint pk with
        | err e => simp [hq] at h
        | panic s => simp [hq] at h
        | ok pt =>
          simp only [hq, Res.ok.injEq] at h
          rw [← h]
          by_cases hd : k.has (lbl Iana.EC2KeyParameterD) = true
          · exact ecdsa_public_has_no_private k pk hd hp
          · unfold ecdsaToPublic at hp
            split at hp
            · cases hp
            · simp only [hd, Bool.not_false, if_true, Res.ok.injEq] at hp
              rw [← hp]; simpa using hd
    · cases h

/-- **emitted EC2 coordinates are fixed-length** (RFC 9053 §7.1.1): `fixedLen` always has the curve's byte length -/
theorem emitted_coordinate_length (c : Curve) (v : Nat) : (fixedLen c.byteLen v).length = c.byteLen :=
  fixedLen_length _ _

theorem curve_byte_lengths : p256.byteLen = 32 ∧ p384.byteLen = 48 ∧ p521.byteLen = 66 := by decide

/-- **a conformant zero-padded embedded coordinate compares equal** to the derived one (comparison is on integers) -/
theorem padded_coordinate_accepted (x : Bytes) (n px : Nat) (h : os2ip x = px) :
    os2ip (List.replicate n 0 ++ x) = px := by rw [os2ip_replicate_zero, h]

/-- **a private key whose embedded public coordinate does not match is refused** (signer side) -/
theorem mismatched_embedded_public_refused (k : Key) (x : Bytes) (hx : getB k Iana.EC2KeyParameterX = some x)
    (hd : k.has (lbl Iana.EC2KeyParameterD) = true) (hc : checkEcdsa k = true) (ci : CurveInfo)
    (hcv : ecdsaCurve (alg k) = some ci)
    (hne : os2ip x ≠ (basePoint ci.curve (os2ip ((getB k Iana.EC2KeyParameterD).getD []))).1) :
    (ecdsaPrivate k).isOk = false := by
  unfold ecdsaPrivate
  simp only [hd, hc, hcv, hx, Bool.not_true, Bool.false_eq_true, if_false]
  have : (os2ip x != (basePoint ci.curve (os2ip ((getB k Iana.EC2KeyParameterD).getD []))).1) = true := by
    simpa using hne
  simp [this, Res.isOk]

end Cose.Props.C15
