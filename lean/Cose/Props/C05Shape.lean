import Cose.Gen.Tables
/-!
# C05 — regenerated tie: the algorithm comparison is unconditional in every entry point of the current source

`Gen.Tables.conds` (rewritten from `/repo` on every run) lists the `if` / `switch` / `case` conditions of every function in
source order.  The model's `algMismatch` check (`Props/C05.lean`) is the first thing every consuming entry point does
after the "was it decoded" guard, and the first thing every producing entry point does after the defaults — under no
other condition (no cache flag, no "only when it parses", no "only when the key has an alg").  Only the *leading*
conditions are pinned: what follows (nonce selection, payload decoding) belongs to other properties.
A change that puts the comparison under a new condition, drops it or moves it behind other work makes this fail to
build; the correspondence ops (`msg.consume` with keys of other algorithms, `msg.otherkey`) then look for the input.
-/
namespace Cose.Props.C05Shape

def condsOf (f : String) : Option (List String) := (Cose.Gen.Tables.conds.find? (fun r => r.1 == f)).map (·.2)
def leading (n : Nat) (f : String) : Option (List String) := (condsOf f).map (·.take n)

/-- consuming side, the five single-key kinds: guard, `Has(alg)`, comparison with the key's algorithm -/
theorem alg_check_first_on_consume :
    leading 3 "cose.Sign1Message.Verify" = some ["if m.mm == nil || m.mm.Signature == nil",
      "if m.Protected.Has(iana.HeaderParameterAlg)", "if alg != int(verifier.Key().Alg())"] ∧
    condsOf "cose.Sign1Message.Verify" = leading 3 "cose.Sign1Message.Verify" ∧
    leading 3 "cose.Mac0Message.Verify" = some ["if m.mm == nil || m.mm.Tag == nil",
      "if m.Protected.Has(iana.HeaderParameterAlg)", "if alg != int(macer.Key().Alg())"] ∧
    condsOf "cose.Mac0Message.Verify" = leading 3 "cose.Mac0Message.Verify" ∧
    leading 3 "cose.MacMessage.Verify" = some ["if m.mm == nil || m.mm.Tag == nil",
      "if m.Protected.Has(iana.HeaderParameterAlg)", "if alg != int(macer.Key().Alg())"] ∧
    condsOf "cose.MacMessage.Verify" = leading 3 "cose.MacMessage.Verify" ∧
    leading 3 "cose.Encrypt0Message.Decrypt" = some ["if m.mm == nil || m.mm.Ciphertext == nil",
      "if m.Protected.Has(iana.HeaderParameterAlg)", "if alg != int(encryptor.Key().Alg())"] ∧
    leading 3 "cose.EncryptMessage.Decrypt" = some ["if m.mm == nil || m.mm.Ciphertext == nil",
      "if m.Protected.Has(iana.HeaderParameterAlg)", "if alg != int(encryptor.Key().Alg())"] := by
  decide +kernel

/-- COSE_Sign: per signature, after the verifier look-up: the signature's own bucket, compared with that verifier's key -/
theorem alg_check_per_signature :
    leading 6 "cose.SignMessage.Verify" = some ["if len(verifiers) == 0", "if m.mm == nil || m.mm.Signatures == nil",
      "if len(m.mm.Signatures) == 0", "if verifier == nil", "if sig.Protected.Has(iana.HeaderParameterAlg)",
      "if alg != int(verifier.Key().Alg())"] := by
  decide +kernel

/-- producing side: default headers, then the comparison, before anything is authenticated -/
theorem alg_check_first_on_produce :
    leading 4 "cose.Sign1Message.WithSign" = some ["if m.Protected == nil", "if alg != iana.AlgorithmReserved",
      "if m.Protected.Has(iana.HeaderParameterAlg)", "if alg != int(signer.Key().Alg())"] ∧
    leading 4 "cose.Mac0Message.Compute" = some ["if m.Protected == nil", "if alg != iana.AlgorithmReserved",
      "if m.Protected.Has(iana.HeaderParameterAlg)", "if alg != int(macer.Key().Alg())"] ∧
    leading 4 "cose.MacMessage.Compute" = some ["if m.Protected == nil", "if alg != iana.AlgorithmReserved",
      "if m.Protected.Has(iana.HeaderParameterAlg)", "if alg != int(macer.Key().Alg())"] ∧
    leading 4 "cose.Encrypt0Message.Encrypt" = some ["if m.Protected == nil", "if alg != iana.AlgorithmReserved",
      "if m.Protected.Has(iana.HeaderParameterAlg)", "if alg != int(encryptor.Key().Alg())"] ∧
    leading 4 "cose.EncryptMessage.Encrypt" = some ["if m.Protected == nil", "if alg != iana.AlgorithmReserved",
      "if m.Protected.Has(iana.HeaderParameterAlg)", "if alg != int(encryptor.Key().Alg())"] := by
  decide +kernel

end Cose.Props.C05Shape
