import Cose.Key.Prims
import Cose.Crypto.ConstructionLemmas
/-!
# C11 — HMAC and AES-CBC-MAC tags equal the RFC 9053 definition and verify exactly

* the algorithm tables (`getKeySize`, `Alg.HashFunc`) are **regenerated from the source** and proved equal to
  RFC 9053 tables 3 and 4 (finite tables ⇒ `decide` is a proof);
* the constructions are generic (`Cose.Crypto.hmac`, `cbcMac`) and their laws are proved for every hash /
  block cipher; AES's block function has a proved 16-byte output; SHA-2 output lengths are an explicit hypothesis;
* equality of the library's tags with these definitions is the spec-op correspondence `prim.mac` /
  `prim.macverify` (library vs the Lean reference, every residue mod 16 / 64 / 128, all tag mutations).
-/
namespace Cose.Props.C11
open Cose.Key Cose.Crypto Cose.Go

/-- RFC 9053 table 3: (alg, Go hash id, key bytes, tag bytes) -/
def rfcHmac : List (Int × Nat × Nat × Nat) := [(4, 5, 32, 8), (5, 5, 32, 32), (6, 6, 48, 48), (7, 7, 64, 64)]
/-- RFC 9053 table 4: (alg, key bytes, tag bytes) -/
def rfcAesMac : List (Int × Nat × Nat) := [(14, 16, 8), (15, 32, 8), (25, 16, 16), (26, 32, 16)]

/-- the generated HMAC table is RFC 9053 table 3, and nothing else is an HMAC algorithm -/
theorem hmac_table_is_rfc9053 :
    (∀ r ∈ rfcHmac, nth (swRow Cose.Gen.Tables.sw_key_Alg_HashFunc r.1) 0 = r.2.1 ∧
      hmacKeySize r.1 = r.2.2.1 ∧ hmacTagSize r.1 = r.2.2.2) ∧
    Cose.Gen.Tables.sw_key_hmac_getKeySize.irows.map (·.1) = rfcHmac.map (·.1) ∧
    Cose.Gen.Tables.sw_key_hmac_getKeySize.idflt = [0, 0] := by decide +kernel

theorem aesmac_table_is_rfc9053 :
    (∀ r ∈ rfcAesMac, aesmacKeySize r.1 = r.2.1 ∧ aesmacTagSize r.1 = r.2.2) ∧
    Cose.Gen.Tables.sw_key_aesmac_getKeySize.irows.map (·.1) = rfcAesMac.map (·.1) ∧
    Cose.Gen.Tables.sw_key_aesmac_getKeySize.idflt = [0, 0] := by decide +kernel

/-- AES-MAC tags have exactly the registered length, for every key and every non-empty message -/
theorem aesmac_tag_length (alg : Int) (halg : alg ∈ rfcAesMac.map (·.1)) (key data tag : Bytes)
    (h : aesmacCreate alg key data = .ok tag) :
    tag.length = aesmacTagSize alg ∧ (aesmacTagSize alg = 8 ∨ aesmacTagSize alg = 16) := by
  have ht : aesmacTagSize alg = 8 ∨ aesmacTagSize alg = 16 := by
    simp only [rfcAesMac, List.map_cons, List.map_nil, List.mem_cons, List.not_mem_nil, or_false] at halg
    rcases halg with rfl | rfl | rfl | rfl <;> decide +kernel
  refine ⟨?_, ht⟩
  unfold aesmacCreate at h
  cases hk : aesExpandKey key with
  | none => simp [aesE, hk] at h
  | some k =>
    simp only [aesE, hk, Option.map_some] at h
    split at h
    · cases h
    · simp only [Res.ok.injEq] at h
      rw [← h]
      exact cbcMac_length _ (aesEncryptBlockWith_length k) _ (by omega) _

/-- the empty message is refused with an error, never a panic -/
theorem aesmac_empty_refused (alg : Int) (key : Bytes) : ∃ e, aesmacCreate alg key [] = .err e := by
  unfold aesmacCreate; cases aesE key <;> simp

/-- zero padding only when unaligned: an aligned message is MACed as is (never an extra block) -/
theorem aesmac_no_extra_block (E : Bytes → Bytes) (t : Nat) (m : Bytes) (h : m.length % 16 = 0) :
    cbcMac E t m = (cbcChain E (m.length / 16) (zeros 16) m).take t := by
  unfold cbcMac cbcMacFull; rw [zpad16_aligned m h]

/-- the 64-bit tag is a prefix of the 128-bit tag under the same key (why the protected alg must bind, C05) -/
theorem aesmac_64_prefix_of_128 (E : Bytes → Bytes) (m : Bytes) : cbcMac E 8 m = (cbcMac E 16 m).take 8 :=
  cbcMac_prefix E 8 16 (by omega) m

/-- HMAC tags have the registered length provided the hash has its nominal output length -/
theorem hmac_tag_length (alg : Int) (key data tag : Bytes) (h : hmacCreate alg key data = some tag)
    (hsha : (∀ m, (sha256 m).length = 32) ∧ (∀ m, (sha384 m).length = 48) ∧ (∀ m, (sha512 m).length = 64))
    (halg : alg ∈ rfcHmac.map (·.1)) : tag.length = hmacTagSize alg := by
  simp only [rfcHmac, List.map_cons, List.map_nil, List.mem_cons, List.not_mem_nil, or_false] at halg
  rcases halg with rfl | rfl | rfl | rfl
  · have e : nth (swRow Cose.Gen.Tables.sw_key_Alg_HashFunc 4) 0 = 5 := by decide +kernel
    unfold hmacCreate at h; rw [e] at h
    have e2 : hashById 5 = some (sha256, 64) := rfl
    rw [e2] at h; simp only [Option.some.injEq] at h
    rw [← h]; exact hmac_take_length sha256 32 hsha.1 64 _ (by decide +kernel) key data
  · have e : nth (swRow Cose.Gen.Tables.sw_key_Alg_HashFunc 5) 0 = 5 := by decide +kernel
    unfold hmacCreate at h; rw [e] at h
    have e2 : hashById 5 = some (sha256, 64) := rfl
    rw [e2] at h; simp only [Option.some.injEq] at h
    rw [← h]; exact hmac_take_length sha256 32 hsha.1 64 _ (by decide +kernel) key data
  · have e : nth (swRow Cose.Gen.Tables.sw_key_Alg_HashFunc 6) 0 = 6 := by decide +kernel
    unfold hmacCreate at h; rw [e] at h
    have e2 : hashById 6 = some (sha384, 128) := rfl
    rw [e2] at h; simp only [Option.some.injEq] at h
    rw [← h]; exact hmac_take_length sha384 48 hsha.2.1 128 _ (by decide +kernel) key data
  · have e : nth (swRow Cose.Gen.Tables.sw_key_Alg_HashFunc 7) 0 = 7 := by decide +kernel
    unfold hmacCreate at h; rw [e] at h
    have e2 : hashById 7 = some (sha512, 128) := rfl
    rw [e2] at h; simp only [Option.some.injEq] at h
    rw [← h]; exact hmac_take_length sha512 64 hsha.2.2 128 _ (by decide +kernel) key data

/-- **verification accepts the created tag and nothing else** (not shorter, longer or altered) -/
theorem macVerify_iff (expected mac : Bytes) : macVerify expected mac = true ↔ mac = expected := by
  unfold macVerify
  constructor
  · intro h; exact (beq_iff_eq.mp h).symm
  · intro h; exact beq_iff_eq.mpr h.symm

theorem macVerify_rejects_other_length (expected mac : Bytes) (h : mac.length ≠ expected.length) :
    macVerify expected mac = false := by
  cases hv : macVerify expected mac with
  | false => rfl
  | true => rw [(macVerify_iff _ _).mp hv] at h; exact absurd rfl h

-- non-vacuity (a test, labelled as a test)
#guard (hmacCreate 5 ("Jefe".toUTF8.toList ++ zeros 28) "x".toUTF8.toList).isSome
example : rfcHmac.map (·.1) = [4, 5, 6, 7] := rfl

end Cose.Props.C11
