import Cose.Props.C01
import Cose.Props.C18
import Cose.Cwt.View
/-!
# A CWT end to end (C01 + C18)

A claims map signed as COSE_Sign1 (or MACed as COSE_Mac0) by the library, encoded, decoded in typed mode, verified —
and then validated: the validator decides on the received claims exactly as it decides on the claims that were signed,
for every validator configuration.  This composes `auth4_roundtrip_typed` (message layer over the CBOR round trip of label
maps) with `claimsView_roundtrip` (the validator looks at the claims only through `Has` / `GetUint64` / `GetString`,
which cannot tell a decoded integer or string from the original), and `validateMap_eq_spec` then says what that
decision is in RFC 8392 terms.
-/
namespace Cose.Props.CwtEndToEnd
open Cose.Msg Cose.Go Cose.Cbor Cose.Cwt Cose.Props.C01

theorem cwt_roundtrip_validates (k : Kind) (hk : k = .sign1 ∨ k = .mac0) (claims : CMap) (ext : Option Bytes) (unprot : Hdr)
    (key vkey : KeyView) (auth : Bytes → Res Bytes) (check : Bytes → Bytes → Res Unit)
    (hcorr : SigCorrect auth check) (hvk : vkey.alg = key.alg) (ha : key.alg ≠ 0)
    (har : -2147483648 ≤ key.alg ∧ key.alg ≤ 2147483647)
    (hokp : ∀ kv ∈ claims, EntryOk kv) (hndp : (claims.map (·.1)).Nodup) (hlenp : claims.length ≤ maxElems)
    (m1 : Msg) (h : produceAuth ⟨k, none, unprot, .typed (some claims), none⟩ key auth ext = .ok m1)
    (w : Wire) (hw : m1.mm = some w)
    (hok : ∀ kv ∈ fillUnprotected unprot key, EntryOk kv)
    (hnd : ((fillUnprotected unprot key).map (·.1)).Nodup)
    (hlen : (fillUnprotected unprot key).length ≤ maxElems)
    (hpl : ∀ x, encodeCMap claims = some x → x.length < Cbor.two64) (hsl : ∀ x, w.auth = some x → x.length < Cbor.two64) :
    ∃ bytes m2 received, marshal k w = some bytes ∧ unmarshal k .typed bytes = .ok m2 ∧
      m2.payload = .typed (some received) ∧ verifyAuth m2 vkey check ext = .ok () ∧
      ∀ o : VOpts, validateMap o (claimsView received) = validateMap o (claimsView claims) := by
  obtain ⟨bytes, m2, pm', _, h1, h2, h3, hlook, _, h4, _, _⟩ :=
    auth4_roundtrip_typed k hk claims ext unprot key vkey auth check hcorr hvk ha har hokp hndp hlenp m1 h w hw hok hnd hlen hpl hsl
  exact ⟨bytes, m2, pm', h1, h2, h3, h4, fun o => validateMap_roundtrip o claims pm' hokp hndp hlook⟩

end Cose.Props.CwtEndToEnd
