import Cose.Msg.Model
import Cose.Props.C04
import Cose.Gen.Footprints
/-!
# C02 — tampered, spliced or mis-keyed signed/MACed messages never verify

What a theorem can say here is a **reduction**: if verification succeeds, then the primitive accepted exactly the
RFC 9052 structure built from the *received* protected bytes, payload bytes and the caller's external data,
together with the received signature/tag; and two different (protected, external, payload) triples never give the
same structure (injectivity, from the CBOR round trip).  Hence any accepted alteration of an authenticated item
is a forgery against the primitive.  That forgeries do not exist is the primitives' security assumption
(DESIGN §8); the executable model additionally predicts the verdict of every concrete mutated message in the
correspondence run (`msg:C02`).
-/
namespace Cose.Props.C02
open Cose.Msg Cose.Go Cose.Cbor Cose.Spec.Rfc9052 Cose.Gen

/-- **soundness of Sign1 / Mac0 / Mac verification** -/
theorem verify_sound (m : Msg) (key : KeyView) (check : Bytes → Bytes → Res Unit) (ext : Option Bytes)
    (h : verifyAuth m key check ext = .ok ()) :
    ∃ w a tb, m.mm = some w ∧ w.auth = some a ∧ algMismatch (m.prot.getD []) key.alg = false ∧
      tobe m.kind w none ext = .ok tb ∧ check tb a = .ok () := by
  unfold verifyAuth at h
  cases hw : m.mm with
  | none => simp [hw] at h
  | some w =>
    cases ha : w.auth with
    | none => simp [hw, ha] at h
    | some a =>
      simp only [hw, ha] at h
      split at h
      · cases h
      · rename_i hm
        cases ht : tobe m.kind w none ext with
        | ok tb => simp only [ht] at h; exact ⟨w, a, tb, rfl, ha, by simpa using hm, ht, h⟩
        | err e => simp [ht] at h
        | panic s => simp [ht] at h

/-- the bytes are those of the RFC 9052 structure of the wire fields (COSE_Sign1) -/
theorem tobe_sign1_is_spec (w : Wire) (ext : Option Bytes) :
    tobe .sign1 w none ext = .ok (encode (sigStructure1 w.prot ext w.payload)) := by
  unfold tobe toBeBytes Kind.tb
  have := Cose.Props.C04.tobe_sign1_eq_spec w.prot w.payload ext
  have e : toBe Layouts.tb_sign1Message (fields3 w.prot w.payload) (paramsSign none ext) =
      toBe Layouts.tb_sign1Message (fields3 w.prot w.payload) (paramsExt ext) := by
    cases w.prot <;> cases w.payload <;> cases ext <;> rfl
  rw [e, this]; rfl

theorem tobe_mac0_is_spec (w : Wire) (ext : Option Bytes) :
    tobe .mac0 w none ext = .ok (encode (macStructure0 w.prot ext w.payload)) := by
  unfold tobe toBeBytes Kind.tb
  have := Cose.Props.C04.tobe_mac0_eq_spec w.prot w.payload ext
  have e : toBe Layouts.tb_mac0Message (fields3 w.prot w.payload) (paramsSign none ext) =
      toBe Layouts.tb_mac0Message (fields3 w.prot w.payload) (paramsExt ext) := by
    cases w.prot <;> cases w.payload <;> cases ext <;> rfl
  rw [e, this]; rfl

theorem tobe_mac_is_spec (w : Wire) (ext : Option Bytes) :
    tobe .mac w none ext = .ok (encode (macStructure w.prot ext w.payload)) := by
  unfold tobe toBeBytes Kind.tb
  have := Cose.Props.C04.tobe_mac_eq_spec w.prot w.payload ext
  have e : toBe Layouts.tb_macMessage (fields3 w.prot w.payload) (paramsSign none ext) =
      toBe Layouts.tb_macMessage (fields3 w.prot w.payload) (paramsExt ext) := by
    cases w.prot <;> cases w.payload <;> cases ext <;> rfl
  rw [e, this]; rfl

theorem tobe_sign_is_spec (w : Wire) (sp : Bytes) (ext : Option Bytes) :
    tobe .sign w (some sp) ext = .ok (encode (sigStructure w.prot (some sp) ext w.payload)) := by
  unfold tobe toBeBytes Kind.tb
  rw [Cose.Props.C04.tobe_sign_eq_spec w.prot (some sp) w.payload ext]; rfl

/-- **tampering is forgery** (COSE_Sign1): if a message verifies although its protected bytes, payload or the
    external data differ from those of an honestly signed one, the verifier accepted a signature on bytes that
    differ from everything the signer signed. -/
theorem sign1_tamper_is_forgery (w w' : Wire) (ext ext' : Option Bytes)
    (hw : Cose.Props.C04.WFb w.prot ∧ Cose.Props.C04.WFb w.payload ∧ Cose.Props.C04.WFb ext)
    (hw' : Cose.Props.C04.WFb w'.prot ∧ Cose.Props.C04.WFb w'.payload ∧ Cose.Props.C04.WFb ext')
    (hdiff : w.prot ≠ w'.prot ∨ w.payload ≠ w'.payload ∨ ext.getD [] ≠ ext'.getD []) :
    tobe .sign1 w none ext ≠ tobe .sign1 w' none ext' := by
  rw [tobe_sign1_is_spec, tobe_sign1_is_spec]
  intro h
  simp only [Res.ok.injEq] at h
  obtain ⟨a, b, c⟩ := Cose.Props.C04.sigStructure1_injective w.prot w'.prot ext ext' w.payload w'.payload
    hw.1 hw.2.2 hw.2.1 hw'.1 hw'.2.2 hw'.2.1 h
  rcases hdiff with d | d | d
  · exact d a
  · exact d c
  · exact d b

/-- changing the message kind changes the context string, hence the bytes (Signature1 vs MAC0, same fields) -/
theorem kind_change_changes_bytes (w : Wire) (ext : Option Bytes) : tobe .sign1 w none ext ≠ tobe .mac0 w none ext := by
  rw [tobe_sign1_is_spec, tobe_mac0_is_spec]
  intro h
  simp only [Res.ok.injEq, sigStructure1, macStructure0, encode, encodeList] at h
  -- the two encodings start `84 6a "Signature1"…` and `84 64 "MAC0"…`: they differ at byte 1
  have := congrArg (fun l => l[1]?) h
  simp [head, ctxSignature1, ctxMAC0, u8] at this

/-! ### COSE_Sign -/

/-- a COSE_Sign carrying zero signatures never verifies -/
theorem sign_no_signatures_rejected (m : Msg) (w : Wire) (hw : m.mm = some w) (hs : w.sigs = some [])
    (vs : List Verifier) (ext : Option Bytes) : verifySign m vs ext ≠ .ok () := by
  unfold verifySign
  by_cases hv : vs.isEmpty <;> simp [hv, hw, hs]

/-- with no verifiers nothing verifies -/
theorem sign_no_verifiers_rejected (m : Msg) (ext : Option Bytes) : verifySign m [] ext ≠ .ok () := by
  unfold verifySign; simp

/-- a signature with no matching verifier makes the message fail (first signature shown; `go` is a left-to-right scan) -/
theorem sign_unmatched_kid_rejected (m : Msg) (w : Wire) (s : SigObj) (rest : List SigObj) (hw : m.mm = some w)
    (hs : w.sigs = some (s :: rest)) (vs : List Verifier) (hne : vs ≠ []) (ext : Option Bytes)
    (hl : lookupVerifier vs s.kid = none) : verifySign m vs ext = .err "no-verifier" := by
  unfold verifySign
  have : vs.isEmpty = false := by cases vs <;> simp_all
  simp only [this, hw, hs, Bool.false_eq_true, if_false, List.isEmpty_cons]
  simp [verifySign.go, hl]

/-- the verifier chosen for a signature has a byte-equal key id -/
theorem lookup_exact (vs : List Verifier) (kid : Option Bytes) (v : Verifier) (h : lookupVerifier vs kid = some v) :
    v.key.kid.getD [] = kid.getD [] ∧ v ∈ vs := by
  unfold lookupVerifier at h
  have h1 := List.find?_some h
  have h2 := List.mem_of_find?_eq_some h
  exact ⟨by simpa using h1, h2⟩

/-- **every signature must verify**: if the first signature's verifier rejects, the message is rejected -/
theorem sign_first_signature_must_verify (m : Msg) (w : Wire) (s : SigObj) (rest : List SigObj) (hw : m.mm = some w)
    (hs : w.sigs = some (s :: rest)) (vs : List Verifier) (hne : vs ≠ []) (ext : Option Bytes) (v : Verifier)
    (hl : lookupVerifier vs s.kid = some v) (ha : algMismatch s.prot v.key.alg = false) (raw : Bytes)
    (hr : s.protRaw = some raw) (e : String)
    (hv : ∀ tb, v.verify tb (s.signature.getD []) = .err e) : verifySign m vs ext = .err e := by
  unfold verifySign
  have : vs.isEmpty = false := by cases vs <;> simp_all
  simp only [this, hw, hs, Bool.false_eq_true, if_false, List.isEmpty_cons]
  simp only [verifySign.go, hl, ha, hr, Bool.false_eq_true, if_false]
  rw [tobe_sign_is_spec]
  simp [hv]


/-! ## History freedom (regenerated facts about the message objects)

The model's `verifyAuth` is a function of the decoded message, the key and the external data; a Go message object is
mutable.  The facts below, re-extracted from the source on every run, are what makes the functional model faithful
over *histories* of calls on one object (the correspondence op `msg.reuse` is the search that supports them):
`UnmarshalCBOR` overwrites every field a later `Verify` reads, and `Verify` recomputes the to-be-signed bytes on every
call — the cached copy (`toSign` / `toMac`) is only ever assigned and handed to the primitive, never read back. -/

def fieldUses (meth field : String) : List String :=
  (Footprints.footprints.filter (fun m => m.1 == meth)).flatMap (fun m => (m.2.2.filter (fun u => u.1 == field)).map (·.2))

/-- `UnmarshalCBOR` of the four authenticated kinds assigns Protected, Unprotected, Payload and the retained wire
    struct (and the recipients of a COSE_Mac): nothing of a previously decoded message survives -/
theorem unmarshal_overwrites_everything_auth :
    ["cose.Sign1Message", "cose.SignMessage", "cose.Mac0Message", "cose.MacMessage"].all (fun t =>
      ["recv.Protected", "recv.Unprotected", "recv.Payload", "recv.mm"].all (fun f =>
        (fieldUses (t ++ ".UnmarshalCBOR") f).contains "assigned")) = true
    ∧ (fieldUses "cose.MacMessage.UnmarshalCBOR" "recv.recipients").contains "assigned" = true := by decide +kernel

/-- `Verify` never reads a cached to-be-signed / to-be-MACed value: it assigns it and passes it to the primitive -/
theorem verify_recomputes_tobe :
    fieldUses "cose.Sign1Message.Verify" "recv.toSign" = ["arg:key.Verifier.Verify#0", "assigned"]
    ∧ fieldUses "cose.Mac0Message.Verify" "recv.toMac" = ["arg:key.MACer.MACVerify#0", "assigned"]
    ∧ fieldUses "cose.MacMessage.Verify" "recv.toMac" = ["arg:key.MACer.MACVerify#0", "assigned"]
    ∧ fieldUses "cose.SignMessage.Verify" "recv.toSign" = [] := by decide +kernel

/-- `Verify` writes nothing else: the decoded fields are read-only for it -/
theorem verify_writes_only_the_cache :
    ["cose.Sign1Message.Verify", "cose.SignMessage.Verify", "cose.Mac0Message.Verify", "cose.MacMessage.Verify"].all (fun m =>
      ["recv.Protected", "recv.Unprotected", "recv.Payload", "recv.mm", "recv.recipients"].all (fun f =>
        !(fieldUses m f).contains "assigned" && !(fieldUses m f).contains "addr")) = true := by decide +kernel

end Cose.Props.C02
