import Cose.Msg.Model
import Cose.Props.C04
/-!
# C02 — tampered, spliced or mis-keyed signed/MACed messages never verify

What a theorem can say here is a **reduction**: if verification succeeds, then the primitive accepted exactly the
RFC 9052 structure built from the *received* protected bytes, payload bytes and the caller's external data,
together with the received signature/tag; and two different (protected, external, payload) triples never give the
same structure (injectivity, from the CBOR round trip).  Hence any accepted alteration of an authenticated item
is a forgery against the primitive.  That forgeries do not exist is the primitives' security assumption
(DESIGN §8); the executable model additionally predicts the verdict of every concrete mutated message in the
correspondence run (`msg:C02`).
-/
namespace Cose.Props.C02
open Cose.Msg Cose.Go Cose.Cbor Cose.Spec.Rfc9052 Cose.Gen

/-- **soundness of Sign1 / Mac0 / Mac verification** -/
theorem verify_sound (m : Msg) (key : KeyView) (check : Bytes → Bytes → Res Unit) (ext : Option Bytes)
    (h : verifyAuth m key check ext = .ok ()) :
    ∃ w a tb, m.mm = some w ∧ w.auth = some a ∧ algMismatch (m.prot.getD []) key.alg = false ∧
      tobe m.kind w none ext = .ok tb ∧ check tb a = .ok () := by
  unfold verifyAuth at h
  cases hw : m.mm with
  | none => simp [hw] at h
  | some w =>
    cases ha : w.auth with
    | none => simp [hw, ha] at h
    | some a =>
      simp only [hw, ha] at h
      split at h
      · cases h
      · rename_i hm
        cases ht : tobe m.kind w none ext with
        | ok tb => simp only [ht] at h; exact ⟨w, a, tb, rfl, ha, by simpa using hm, ht, h⟩
        | err e => simp [ht] at h
        | panic s => simp [ht] at h

/-- the bytes are those of the RFC 9052 structure of the wire fields (COSE_Sign1) -/
theorem tobe_sign1_is_spec (w : Wire) (ext : Option Bytes) :
    tobe .sign1 w none ext = .ok (encode (sigStructure1 w.prot ext w.payload)) := by
  unfold tobe toBeBytes Kind.tb
  have := Cose.Props.C04.tobe_sign1_eq_spec w.prot w.payload ext
  have e : toBe Layouts.tb_sign1Message (fields3 w.prot w.payload) (paramsSign none ext) =
      toBe Layouts.tb_sign1Message (fields3 w.prot w.payload) (paramsExt ext) := by
    cases w.prot <;> cases w.payload <;> cases ext <;> rfl
  rw [e, this]; rfl

theorem tobe_mac0_is_spec (w : Wire) (ext : Option Bytes) :
    tobe .mac0 w none ext = .ok (encode (macStructure0 w.prot ext w.payload)) := by
  unfold tobe toBeBytes Kind.tb
  have := Cose.Props.C04.tobe_mac0_eq_spec w.prot w.payload ext
  have e : toBe Layouts.tb_mac0Message (fields3 w.prot w.payload) (paramsSign none ext) =
      toBe Layouts.tb_mac0Message (fields3 w.prot w.payload) (paramsExt ext) := by
    cases w.prot <;> cases w.payload <;> cases ext <;> rfl
  rw [e, this]; rfl

theorem tobe_mac_is_spec (w : Wire) (ext : Option Bytes) :
    tobe .mac w none ext = .ok (encode (macStructure w.prot ext w.payload)) := by
  unfold tobe toBeBytes Kind.tb
  have := Cose.Props.C04.tobe_mac_eq_spec w.prot w.payload ext
  have e : toBe Layouts.tb_macMessage (fields3 w.prot w.payload) (paramsSign none ext) =
      toBe Layouts.tb_macMessage (fields3 w.prot w.payload) (paramsExt ext) := by
    cases w.prot <;> cases w.payload <;> cases ext <;> rfl
  rw [e, this]; rfl

theorem tobe_sign_is_spec (w : Wire) (sp : Bytes) (ext : Option Bytes) :
    tobe .sign w (some sp) ext = .ok (encode (sigStructure w.prot (some sp) ext w.payload)) := by
  unfold tobe toBeBytes Kind.tb
  rw [Cose.Props.C04.tobe_sign_eq_spec w.prot (some sp) w.payload ext]; rfl

/-- **tampering is forgery** (COSE_Sign1): if a message verifies although its protected bytes, payload or the
    external data differ from those of an honestly signed one, the verifier accepted a signature on bytes that
    differ from everything the signer signed. -/
theorem sign1_tamper_is_forgery (w w' : Wire) (ext ext' : Option Bytes)
    (hw : Cose.Props.C04.WFb w.prot ∧ Cose.Props.C04.WFb w.payload ∧ Cose.Props.C04.WFb ext)
    (hw' : Cose.Props.C04.WFb w'.prot ∧ Cose.Props.C04.WFb w'.payload ∧ Cose.Props.C04.WFb ext')
    (hdiff : w.prot ≠ w'.prot ∨ w.payload ≠ w'.payload ∨ ext.getD [] ≠ ext'.getD []) :
    tobe .sign1 w none ext ≠ tobe .sign1 w' none ext' := by
  rw [tobe_sign1_is_spec, tobe_sign1_is_spec]
  intro h
  simp only [Res.ok.injEq] at h
  obtain ⟨a, b, c⟩ := Cose.Props.C04.sigStructure1_injective w.prot w'.prot ext ext' w.payload w'.payload
    hw.1 hw.2.2 hw.2.1 hw'.1 hw'.2.2 hw'.2.1 h
  rcases hdiff with d | d | d
  · exact d a
  · exact d c
  · exact d b

/-- changing the message kind changes the context string, hence the bytes (Signature1 vs MAC0, same fields) -/
theorem kind_change_changes_bytes (w : Wire) (ext : Option Bytes) : tobe .sign1 w none ext ≠ tobe .mac0 w none ext := by
  rw [tobe_sign1_is_spec, tobe_mac0_is_spec]
  intro h
  simp only [Res.ok.injEq, sigStructure1, macStructure0, encode, encodeList] at h
  -- the two encodings start `84 6a "Signature1"…` and `84 64 "MAC0"…`: they differ at byte 1
  have := congrArg (fun l => l[1]?) h
  simp [head, ctxSignature1, ctxMAC0, u8] at this

/-! ### COSE_Sign -/

/-- a COSE_Sign carrying zero signatures never verifies -/
theorem sign_no_signatures_rejected (m : Msg) (w : Wire) (hw : m.mm = some w) (hs : w.sigs = some [])
    (vs : List Verifier) (ext : Option Bytes) : verifySign m vs ext ≠ .ok () := by
  unfold verifySign
  by_cases hv : vs.isEmpty <;> simp [hv, hw, hs]

/-- with no verifiers nothing verifies -/
theorem sign_no_verifiers_rejected (m : Msg) (ext : Option Bytes) : verifySign m [] ext ≠ .ok () := by
  unfold verifySign; simp

/-- a signature with no matching verifier makes the message fail (first signature shown; `go` is a left-to-right scan) -/
theorem sign_unmatched_kid_rejected (m : Msg) (w : Wire) (s : SigObj) (rest : List SigObj) (hw : m.mm = some w)
    (hs : w.sigs = some (s :: rest)) (vs : List Verifier) (hne : vs ≠ []) (ext : Option Bytes)
    (hl : lookupVerifier vs s.kid = none) : verifySign m vs ext = .err "no-verifier" := by
  unfold verifySign
  have : vs.isEmpty = false := by cases vs <;> simp_all
  simp only [this, hw, hs, Bool.false_eq_true, if_false, List.isEmpty_cons]
  simp [verifySign.go, hl]

/-- the verifier chosen for a signature has a byte-equal key id -/
theorem lookup_exact (vs : List Verifier) (kid : Option Bytes) (v : Verifier) (h : lookupVerifier vs kid = some v) :
    v.key.kid.getD [] = kid.getD [] ∧ v ∈ vs := by
  unfold lookupVerifier at h
  have h1 := List.find?_some h
  have h2 := List.mem_of_find?_eq_some h
  exact ⟨by simpa using h1, h2⟩

/-- **every signature must verify**: if the first signature's verifier rejects, the message is rejected -/
theorem sign_first_signature_must_verify (m : Msg) (w : Wire) (s : SigObj) (rest : List SigObj) (hw : m.mm = some w)
    (hs : w.sigs = some (s :: rest)) (vs : List Verifier) (hne : vs ≠ []) (ext : Option Bytes) (v : Verifier)
    (hl : lookupVerifier vs s.kid = some v) (ha : algMismatch s.prot v.key.alg = false) (raw : Bytes)
    (hr : s.protRaw = some raw) (e : String)
    (hv : ∀ tb, v.verify tb (s.signature.getD []) = .err e) : verifySign m vs ext = .err e := by
  unfold verifySign
  have : vs.isEmpty = false := by cases vs <;> simp_all
  simp only [this, hw, hs, Bool.false_eq_true, if_false, List.isEmpty_cons]
  simp only [verifySign.go, hl, ha, hr, Bool.false_eq_true, if_false]
  rw [tobe_sign_is_spec]
  simp [hv]


/-- what it means for one COSE_Signature to have been checked: a verifier was found under its kid, its protected
    algorithm agrees with that verifier's key, and the verifier accepted the signature over the Sig_structure built
    from the signer's *received* protected bytes (or, for a message that was never on the wire, their encoding) -/
def SigChecked (vs : List Verifier) (ext : Option Bytes) (w : Wire) (s : SigObj) : Prop :=
  ∃ v spb tb, lookupVerifier vs s.kid = some v ∧ algMismatch s.prot v.key.alg = false ∧
    (∀ raw, s.protRaw = some raw → spb = raw) ∧
    tobe .sign w (some spb) ext = .ok tb ∧ v.verify tb (s.signature.getD []) = .ok ()

theorem verifySign_go_ok (vs : List Verifier) (ext : Option Bytes) (w : Wire) :
    ∀ sigs, verifySign.go vs ext w sigs = .ok () → ∀ s ∈ sigs, SigChecked vs ext w s
  | [], _, s, hs => by cases hs
  | s0 :: rest, h, s, hs => by
    simp only [verifySign.go] at h
    cases hl : lookupVerifier vs s0.kid with
    | none => simp [hl] at h
    | some v =>
      simp only [hl] at h
      by_cases ha : algMismatch s0.prot v.key.alg = true
      · simp [ha] at h
      · have ha' : algMismatch s0.prot v.key.alg = false := by simpa using ha
        simp only [ha', Bool.false_eq_true, if_false] at h
        -- finish once the signer's protected bytes `spb` are known
        have fin : ∀ spb, (∀ raw, s0.protRaw = some raw → spb = raw) →
            (match tobe .sign w (some spb) ext with
              | .ok tb => (match v.verify tb (s0.signature.getD []) with
                  | .ok _ => verifySign.go vs ext w rest
                  | .err e => .err e
                  | .panic p => .panic p)
              | .err e => .err e
              | .panic p => .panic p) = .ok () → SigChecked vs ext w s := by
          intro spb hraw h
          cases htb : tobe .sign w (some spb) ext with
          | err e => simp [htb] at h
          | panic e => simp [htb] at h
          | ok tb =>
            simp only [htb] at h
            cases hv : v.verify tb (s0.signature.getD []) with
            | err e => simp [hv] at h
            | panic e => simp [hv] at h
            | ok u =>
              simp only [hv] at h
              rcases List.mem_cons.mp hs with rfl | hin
              · exact ⟨v, spb, tb, hl, ha', hraw, htb, by rw [hv]⟩
              · exact verifySign_go_ok vs ext w rest h s hin
        cases hr : s0.protRaw with
        | some b =>
          simp only [hr] at h
          exact fin b (fun raw hh => by rw [hr] at hh; cases hh; rfl) h
        | none =>
          simp only [hr] at h
          cases hb : hdrBytes (some s0.prot) with
          | ok b => simp only [hb] at h; exact fin b (fun raw hh => by rw [hr] at hh; cases hh) h
          | err e => simp only [hb] at h; exact fin [] (fun raw hh => by rw [hr] at hh; cases hh) h
          | panic e => simp only [hb] at h; exact fin [] (fun raw hh => by rw [hr] at hh; cases hh) h

/-- **COSE_Sign: verification succeeds only if every COSE_Signature of the message was checked** — each one against
    the verifier found under *its own* kid, over *its own* received protected bytes.  Two entries sharing a kid are
    two checks; none is skipped, whatever the order or number of entries. -/
theorem sign_every_signature_checked (m : Msg) (vs : List Verifier) (ext : Option Bytes)
    (h : verifySign m vs ext = .ok ()) :
    ∃ w sigs, m.mm = some w ∧ w.sigs = some sigs ∧ sigs ≠ [] ∧ ∀ s ∈ sigs, SigChecked vs ext w s := by
  unfold verifySign at h
  by_cases hv : vs.isEmpty = true
  · simp [hv] at h
  · simp only [hv, Bool.false_eq_true, if_false] at h
    cases hm : m.mm with
    | none => simp [hm] at h
    | some w =>
      simp only [hm] at h
      cases hs : w.sigs with
      | none => simp [hs] at h
      | some sigs =>
        simp only [hs] at h
        by_cases he : sigs.isEmpty = true
        · simp [he] at h
        · simp only [he, Bool.false_eq_true, if_false] at h
          exact ⟨w, sigs, rfl, hs, by intro hnil; subst hnil; simp at he, verifySign_go_ok vs ext w sigs h⟩

/-! ### the signatures array itself: one signature object per wire element, none skipped -/

/-- a signature object comes only out of a three-member array (up to tags): null, undefined, anything else in the
    signatures array makes the whole message undecodable -/
theorem sigField_ok_shape (c : Cbor) (s : SigObj) (h : sigField c = .ok s) : ∃ p u g, untag c = .arr [p, u, g] := by
  unfold sigField at h
  split at h
  · exact ⟨_, _, _, by assumption⟩
  · cases h

/-- decoding the signatures array yields exactly one object per element, each element being a three-member array -/
theorem decSeq_sigField_shape (cs : List Cbor) (l : List SigObj) (h : decSeq sigField cs = .ok l) :
    l.length = cs.length ∧ ∀ c ∈ cs, ∃ p u g, untag c = .arr [p, u, g] := by
  induction cs generalizing l with
  | nil => simp only [decSeq, Dec.ok.injEq] at h; subst h; exact ⟨rfl, fun c hc => by cases hc⟩
  | cons c cs ih =>
    unfold decSeq at h
    cases hc : sigField c with
    | err => simp [hc] at h
    | unmodelled => cases hr : decSeq sigField cs <;> simp [hc, hr] at h
    | ok a =>
      cases hr : decSeq sigField cs with
      | err => simp [hc, hr] at h
      | unmodelled => simp [hc, hr] at h
      | ok r =>
        simp only [hc, hr, Dec.ok.injEq] at h
        subst h
        obtain ⟨hl, hall⟩ := ih r hr
        refine ⟨by simp [hl], fun x hx => ?_⟩
        rcases List.mem_cons.mp hx with rfl | hx'
        · exact sigField_ok_shape _ a hc
        · exact hall x hx'

/-- **a COSE_Sign array with a null (or any non-signature) entry in its signatures list does not decode**; together
    with `sign_every_signature_checked` and `sign_no_signatures_rejected`: a message verifies only if its list is
    non-empty, every wire element is a COSE_Signature, and every one of them was checked -/
theorem sign_null_entry_rejected (p u y : Cbor) (cs : List Cbor) (c : Cbor) (hc : c ∈ cs)
    (hn : untag c = .simple 22 ∨ untag c = .simple 23) (w : Wire) :
    wireOfCbor .sign (.arr [p, u, y, .arr cs]) ≠ .ok w := by
  intro h
  simp only [wireOfCbor, untag] at h
  cases hp : bytesField p <;> cases hu : hdrField u <;> cases hy : bytesField y <;> simp only [hp, hu, hy] at h <;> try cases h
  cases hd : decSeq sigField cs with
  | err => simp [hd] at h
  | unmodelled => simp [hd] at h
  | ok l =>
    obtain ⟨_, hall⟩ := decSeq_sigField_shape cs l hd
    obtain ⟨a, b, g, hshape⟩ := hall c hc
    rcases hn with hn | hn <;> (rw [hn] at hshape; cases hshape)

end Cose.Props.C02
