import Cose.Gen.Tables
/-!
# C18 — regenerated tie: the validator's decisions in the current source are the ones the model mirrors

`Cwt/Validator.lean` mirrors `NewValidator`, `Validate`, `ValidateMap` and `toTime` condition by condition
(`validate_eq_spec`, `validateMap_eq_spec` relate that model to the RFC 8392 rule).  These four functions are the whole
of the decision logic, so their complete condition lists — extracted from `/repo` on every run into `Gen.Tables.conds`
— are pinned: a comparison turned round, a truncated skew (`int(ClockSkew.Minutes())`), a dropped `IsZero` guard, a new
early return all change a list and this file no longer builds; the boundary-lattice correspondence then looks for the
timestamp on which library and rule differ.
-/
namespace Cose.Props.C18Shape

def condsOf (f : String) : Option (List String) := (Cose.Gen.Tables.conds.find? (fun r => r.1 == f)).map (·.2)

theorem new_validator_conditions :
    condsOf "cwt.NewValidator" = some [
      "if opts == nil", "if opts.ClockSkew.Minutes() > cwtMaxClockSkewMinutes"] ∧
    condsOf "cwt.toTime" = some [
      "if u > maxUnixSeconds"] := by
  decide +kernel

theorem validate_conditions :
    condsOf "cwt.Validator.Validate" = some [
      "if claims == nil", "if !v.opts.FixedNow.IsZero()",
      "if claims.Expiration == 0 && !v.opts.AllowMissingExpiration", "if claims.Expiration > 0",
      "if !toTime(claims.Expiration).After(now.Add(-v.opts.ClockSkew))", "if claims.NotBefore > 0",
      "if t.IsZero() || t.After(now.Add(v.opts.ClockSkew))",
      "if claims.IssuedAt > 0 && v.opts.ExpectIssuedInThePast",
      "if t.IsZero() || t.After(now.Add(v.opts.ClockSkew))",
      "if v.opts.ExpectedIssuer != \"\" && v.opts.ExpectedIssuer != claims.Issuer",
      "if v.opts.ExpectedAudience != \"\" && v.opts.ExpectedAudience != claims.Audience"] := by
  decide +kernel

theorem validateMap_conditions :
    condsOf "cwt.Validator.ValidateMap" = some [
      "if claims == nil", "if !v.opts.FixedNow.IsZero()",
      "if !claims.Has(iana.CWTClaimExp) && !v.opts.AllowMissingExpiration", "if claims.Has(iana.CWTClaimExp)",
      "if err != nil", "if !toTime(exp).After(now.Add(-v.opts.ClockSkew))", "if claims.Has(iana.CWTClaimNbf)",
      "if err != nil", "if t.IsZero() || t.After(now.Add(v.opts.ClockSkew))", "if claims.Has(iana.CWTClaimIat)",
      "if err != nil", "if iat > 0 && v.opts.ExpectIssuedInThePast",
      "if t.IsZero() || t.After(now.Add(v.opts.ClockSkew))", "if err != nil",
      "if v.opts.ExpectedIssuer != \"\" && v.opts.ExpectedIssuer != iss", "if err != nil",
      "if v.opts.ExpectedAudience != \"\" && v.opts.ExpectedAudience != aud"] := by
  decide +kernel

end Cose.Props.C18Shape
