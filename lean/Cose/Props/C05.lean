import Cose.Msg.Model
import Cose.Key.Ec
/-!
# C05 — the protected algorithm identifier binds the key that may be used

Model: `Cose.Msg.algMismatch`, `fillProtected`, `fillUnprotected` and the entry points `produceAuth`
(Sign1.WithSign, Mac0.Compute, Mac.Compute), `produceEnc` (Encrypt0/Encrypt.Encrypt), `verifyAuth`,
`decryptEnc`, `verifySign`.  The primitives are *parameters* of these functions, so "refused even if the
cryptographic check would pass" is the statement that the result does not depend on the primitive at all.
-/
namespace Cose.Props.C05
open Cose.Msg Cose.Go Cose.Key Cose.Gen

/-- **produce side**: a protected alg different from the key's is refused, whatever the primitive would do -/
theorem produce_alg_mismatch_refused (m : Msg) (p : CMap) (hp : m.prot = some p) (key : KeyView)
    (h : algMismatch p key.alg = true) (auth : Bytes → Res Bytes) (ext : Option Bytes) :
    produceAuth m key auth ext = .err "alg-mismatch" := by
  unfold produceAuth fillProtected
  simp [hp, h]

theorem encrypt_alg_mismatch_refused (m : Msg) (p : CMap) (hp : m.prot = some p) (e : Encryptor)
    (h : algMismatch p e.key.alg = true) (ext : Option Bytes) (rnd : Bytes) :
    produceEnc m e ext rnd = .err "alg-mismatch" := by
  unfold produceEnc fillProtected
  simp [hp, h]

/-- **consume side**: refused before the primitive is consulted (the result is the same for every `check`) -/
theorem verify_alg_mismatch_refused (m : Msg) (w : Wire) (a : Bytes) (hw : m.mm = some w) (ha : w.auth = some a)
    (key : KeyView) (h : algMismatch (m.prot.getD []) key.alg = true) (check : Bytes → Bytes → Res Unit)
    (ext : Option Bytes) : verifyAuth m key check ext = .err "alg-mismatch" := by
  unfold verifyAuth
  simp [hw, ha, h]

theorem decrypt_alg_mismatch_refused (m : Msg) (mode : PMode) (w : Wire) (ct : Bytes) (hw : m.mm = some w)
    (hc : w.payload = some ct) (e : Encryptor) (h : algMismatch (m.prot.getD []) e.key.alg = true)
    (ext : Option Bytes) : decryptEnc m mode e ext = .err "alg-mismatch" := by
  unfold decryptEnc
  simp [hw, hc, h]

/-- **the unprotected bucket has no say**: verification of a COSE_Sign1 / COSE_Mac0 / COSE_Mac does not look at the
    unprotected map at all — neither the message's nor the retained wire struct's — so an `alg` placed there cannot
    override (or satisfy) the protected one -/
theorem verify_ignores_unprotected (m : Msg) (w : Wire) (hw : m.mm = some w) (u u' : Hdr)
    (key : KeyView) (check : Bytes → Bytes → Res Unit) (ext : Option Bytes) :
    verifyAuth { m with unprot := u, mm := some { w with unprot := u' } } key check ext = verifyAuth m key check ext := by
  unfold verifyAuth tobe
  simp only [hw]

/-- what "different" means: label 1 present and its value, read as an integer (anything unreadable counts as 0),
    differs from the key's algorithm -/
theorem algMismatch_iff (p : CMap) (a : Int) :
    algMismatch p a = true ↔
      p.has (Msg.lbl Iana.HeaderParameterAlg) = true ∧ headerAlg p ≠ a := by
  unfold algMismatch; simp

/-- **whatever Go integer representation the identifier has**: the value alone decides -/
theorem toInt_kind_independent (k k' : IntKind) (v : Int) (hv : 0 ≤ v) : toInt (.int k v) = toInt (.int k' v) := by
  unfold toInt minInt32 maxInt32
  cases k <;> cases k' <;> simp [IntKind.signed] <;> (try (split <;> (try split) <;> (first | rfl | omega)))

theorem toInt_signed_kind_independent (k k' : IntKind) (v : Int) (hk : k.signed = true) (hk' : k'.signed = true) :
    toInt (.int k v) = toInt (.int k' v) := by
  unfold toInt; simp [hk, hk']

/-- text, bytes, bool, null … are not integers: they read as 0 in the check, and 0 is no registered algorithm -/
theorem toInt_non_int_is_error (v : GoVal) (h : ∀ k n, v ≠ .int k n) : ∃ e, toInt v = .err e := by
  cases v <;> simp_all [toInt]

/-- every key a symmetric family accepts has a non-zero algorithm, so "unreadable ↦ 0" can never match it -/
theorem checked_symmetric_alg_ne_zero (f : Tables.CheckKeyFacts) (ks : Int → Nat) (hks : ks 0 = 0) (k : Key)
    (h : checkSymmetric f ks k = true) : alg k ≠ 0 := by
  unfold checkSymmetric at h
  simp only [Bool.and_eq_true] at h
  obtain ⟨⟨_, h2⟩, _⟩ := h
  intro hz
  rw [hz, hks] at h2
  split at h2 <;> simp at h2

theorem keysize_zero_of_alg_zero :
    hmacKeySize 0 = 0 ∧ aesmacKeySize 0 = 0 ∧ gcmKeySize 0 = 0 ∧ ccmKeySize 0 = 0 ∧ chachaKeySizeOf 0 = 0 := by
  decide +kernel

/-- **defaults**: with headers left unset the library records the key's algorithm in the protected header … -/
theorem default_protected_records_alg (key : KeyView) (h : key.alg ≠ 0) :
    fillProtected none key = .ok [(Msg.lbl Iana.HeaderParameterAlg, .int .alg key.alg)] := by
  unfold fillProtected; simp [h]

/-- … and the key's identifier in the unprotected header -/
theorem default_unprotected_records_kid (key : KeyView) (kid : Bytes) (hk : key.kid = some kid) (hne : kid ≠ []) :
    fillUnprotected none key = [(Msg.lbl Iana.HeaderParameterKid, .bstr kid)] := by
  unfold fillUnprotected
  cases kid with
  | nil => exact absurd rfl hne
  | cons a r => simp [hk]

/-- the recorded default never trips the check itself -/
theorem default_protected_consistent (key : KeyView) (hr : -2147483648 ≤ key.alg ∧ key.alg ≤ 2147483647) :
    algMismatch [(Msg.lbl Iana.HeaderParameterAlg, .int .alg key.alg)] key.alg = false := by
  unfold algMismatch headerAlg CMap.has CMap.lookup getInt toInt minInt32 maxInt32
  simp [List.find?, IntKind.signed, hr]

/-- caller-supplied headers are used as they are -/
theorem supplied_headers_kept (p : CMap) (key : KeyView) (h : algMismatch p key.alg = false) :
    fillProtected (some p) key = .ok p ∧ ∀ u, fillUnprotected (some u) key = u := by
  unfold fillProtected fillUnprotected; simp [h]

-- non-vacuity: a pair sharing key material (HMAC 256/64 header, HMAC 256/256 key) trips the check
example : algMismatch [(Msg.lbl 1, .int .u64 4)] 5 = true := by decide +kernel
example : algMismatch [(Msg.lbl 1, .int .i64 5)] 5 = false := by decide +kernel
example : algMismatch [(Msg.lbl 1, .str [0x35])] 5 = true := by decide +kernel
example : algMismatch [(Msg.lbl 1, .nil)] 5 = true := by decide +kernel

end Cose.Props.C05
