import Cose.Gen.Iana
import Cose.Spec.IanaSnapshot
/-!
# C20 — IANA registry constants carry the assigned values

`Cose.Gen.Iana.consts` is regenerated from `/repo/iana/*.go` on every run (go/constant values), so the
theorems below are re-checked by the kernel against what the code says *now*.  The quantifier of the
property is a finite table, so `decide` over the whole table is a proof (not a sample).

Both tables are sorted by constant name, which lets the comparison be a linear merge (`tagSorted`);
its soundness (`tagSorted_sound`) is proved for arbitrary lists, so nothing depends on the sorting
being right: an unsorted table can only make the check fail, never pass wrongly.
-/
namespace Cose.Props.C20
open Cose.Gen.Iana Cose.Spec.Iana

/-- merge the code table against the snapshot: for every code constant found in the snapshot with the
    same name, emit (registry, name, code value, assigned value); `none` if some constant is not found. -/
def tagSorted : List (String × String × Int) → List (String × String × Int) →
    Option (List (String × String × Int × Int))
  | [], _ => some []
  | _ :: _, [] => none
  | (f, n, v) :: cs, (g, m, w) :: ss =>
    if n == m then (tagSorted cs ss).map ((g, n, v, w) :: ·)
    else tagSorted ((f, n, v) :: cs) ss

theorem tagSorted_sound : ∀ (ss cs : List (String × String × Int)) (out),
    tagSorted cs ss = some out →
    ∀ c ∈ cs, ∃ g w, (g, c.2.1, w) ∈ ss ∧ (g, c.2.1, c.2.2, w) ∈ out := by
  intro ss
  induction ss with
  | nil =>
    intro cs out h c hc
    cases cs with
    | nil => cases hc
    | cons a cs => simp [tagSorted] at h
  | cons s ss ih =>
    intro cs out h c hc
    obtain ⟨g, m, w⟩ := s
    cases cs with
    | nil => cases hc
    | cons a cs =>
      obtain ⟨f, n, v⟩ := a
      simp only [tagSorted] at h
      split at h
      · rename_i hnm
        have hnm' : n = m := by simpa using hnm
        cases hrec : tagSorted cs ss with
        | none => simp [hrec] at h
        | some o =>
          simp [hrec] at h
          subst h
          rcases List.mem_cons.mp hc with rfl | hc'
          · exact ⟨g, w, by simp [hnm'], by simp⟩
          · obtain ⟨g', w', h1, h2⟩ := ih cs o hrec c hc'
            exact ⟨g', w', List.mem_cons_of_mem _ h1, List.mem_cons_of_mem _ h2⟩
      · obtain ⟨g', w', h1, h2⟩ := ih _ out h c hc
        exact ⟨g', w', List.mem_cons_of_mem _ h1, h2⟩

/-- the merged table (computed once) -/
def merged : Option (List (String × String × Int × Int)) := tagSorted consts snapshot

def registries : List String :=
  ["alg", "cwt-claim", "curve", "header", "key-common", "key-type", "key-okp", "key-ec2", "key-rsa",
   "key-symmetric", "key-hss-lms", "key-walnut", "key-op", "cbor-tag"]

def codeValuesOf (reg : String) (m : List (String × String × Int × Int)) : List Int :=
  (m.filter (fun r => r.1 == reg)).map (·.2.2.1)

/-- the decidable core: merge succeeds, every code value equals the assigned value, every row's registry
    is enumerated, and within each registry the code values are pairwise distinct -/
def c20Check : Bool :=
  match merged with
  | none => false
  | some m =>
    m.all (fun r => r.2.2.1 == r.2.2.2) &&
    m.all (fun r => registries.contains r.1) &&
    registries.all (fun reg => decide (codeValuesOf reg m).Nodup)

theorem c20Check_true : c20Check = true := by decide +kernel

/-- **C20 (values)**: every exported constant of package `iana` is an entry of the registry snapshot
    and equals the value IANA assigned to that entry. -/
theorem iana_values_match :
    ∀ c ∈ consts, ∃ reg, (reg, c.2.1, c.2.2) ∈ snapshot := by
  intro c hc
  have h := c20Check_true
  unfold c20Check at h
  cases hm : merged with
  | none => simp [hm] at h
  | some m =>
    simp only [hm, Bool.and_eq_true] at h
    obtain ⟨g, w, h1, h2⟩ := tagSorted_sound snapshot consts m hm c hc
    have := List.all_eq_true.mp h.1.1 _ h2
    have hvw : c.2.2 = w := by simpa using this
    exact ⟨g, by rw [hvw]; exact h1⟩

/-- **C20 (distinctness)**: within one registry, the values the code gives to different entries are
    pairwise distinct (`codeValuesOf` lists them in table order, `Nodup` says no two coincide). -/
theorem iana_distinct :
    ∃ m, merged = some m ∧ ∀ reg ∈ registries, (codeValuesOf reg m).Nodup := by
  have h := c20Check_true
  unfold c20Check at h
  cases hm : merged with
  | none => simp [hm] at h
  | some m =>
    simp only [hm, Bool.and_eq_true] at h
    refine ⟨m, rfl, fun reg hr => ?_⟩
    have := List.all_eq_true.mp h.2 reg hr
    simpa using this

/-- every merged row belongs to an enumerated registry, so `iana_distinct` misses no entry -/
theorem registries_complete : ∃ m, merged = some m ∧ ∀ r ∈ m, r.1 ∈ registries := by
  have h := c20Check_true
  unfold c20Check at h
  cases hm : merged with
  | none => simp [hm] at h
  | some m =>
    simp only [hm, Bool.and_eq_true] at h
    refine ⟨m, rfl, fun r hr => ?_⟩
    have := List.all_eq_true.mp h.1.2 r hr
    simpa using this

/-- non-vacuity: the table is not empty and contains the entry that used to be wrong -/
example : consts.length ≥ 190 := by decide +kernel
example : ("header.go", "HeaderParameterCountersignature0V2", (12 : Int)) ∈ consts := by decide +kernel
example : ("header", "HeaderParameterCountersignature0V2", (12 : Int)) ∈ snapshot := by decide +kernel

end Cose.Props.C20
