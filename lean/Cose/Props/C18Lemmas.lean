import Cose.Cwt.Lemmas
/-! Helper lemmas for `Props/C18.lean` (kept apart from the property theorems). -/
namespace Cose.Props.C18
open Cose.Cwt Cose.Cwt.GoTime Cose.Spec.Rfc8392

def SkewInRange (s : Int) : Prop := -9223372036854775808 < s ∧ s ≤ 600000000000

def U64 : TimeClaim → Prop
  | .secs n => n < 18446744073709551616
  | _ => True

/-- the specification's view of the validator options -/
def specOpts (o : VOpts) : Opts :=
  { expectedIssuer := o.expectedIssuer, expectedAudience := o.expectedAudience,
    allowMissingExpiration := o.allowMissingExpiration, expectIssuedInThePast := o.expectIssuedInThePast,
    skewNs := o.skew, nowUnixNs := o.now.ns - 62135596800000000000 }

theorem ns_mk (s n : Int) : GoTime.ns ⟨s, n⟩ = s * 1000000000 + n := rfl
theorem wf_mk0 (s : Int) : GoTime.WF ⟨s, 0⟩ := by unfold GoTime.WF nsPerSec; simp
theorem wf_zero : GoTime.WF GoTime.zero := wf_mk0 0
theorem nsOf_eq (n : Nat) : nsOf n = (n : Int) * 1000000000 := rfl
theorem specNow (o : VOpts) : (specOpts o).nowUnixNs = o.now.ns - 62135596800000000000 := rfl
theorem specSkew (o : VOpts) : (specOpts o).skewNs = o.skew := rfl
theorem maxRep : maxRepresentable = 9223371974719179007 := by decide

theorem neg64_skew (o : VOpts) (hs : SkewInRange o.skew) : neg64 o.skew = -o.skew := by
  unfold neg64; exact wrap64_id (by unfold SkewInRange at hs; omega) (by unfold SkewInRange at hs; omega)

/-- `now` is after the Unix epoch and within 2^62 seconds of year 1 -/
def NowSane (t : GoTime) : Prop := 62135596800 ≤ t.sec ∧ t.sec < 4611686018427387904

theorem NowSane.inRange {t : GoTime} (h : NowSane t) : NowInRange t := by
  unfold NowSane at h; unfold NowInRange; omega

section core
variable (o : VOpts) (hnow : NowSane o.now) (hwf : o.now.WF) (hs : SkewInRange o.skew)
include hnow hwf hs

/-- expiry test of the code = expiry test of the spec -/
theorem exp_test (e : Nat) :
    (toTime e).after (o.now.add (neg64 o.skew)) =
      (decide (e ≤ maxRepresentable) && decide (nsOf e > (specOpts o).nowUnixNs - (specOpts o).skewNs)) := by
  rw [neg64_skew o hs, specNow, specSkew, nsOf_eq, maxRep]
  obtain ⟨h1, h2⟩ := add_exact (t := o.now) (d := -o.skew) hnow.inRange hwf
    (by unfold SkewInRange at hs; omega) (by unfold SkewInRange at hs; omega)
  by_cases he : e ≤ 9223371974719179007
  · rw [toTime_small he, after_iff (wf_mk0 _) h2, h1, ns_mk]
    simp [he]
    constructor <;> intro h <;> omega
  · rw [toTime_large (by omega), after_iff wf_zero h2, h1]
    obtain ⟨n1, n2⟩ := hnow
    obtain ⟨w1, w2⟩ := hwf
    unfold nsPerSec at w2
    unfold SkewInRange at hs
    have hz : GoTime.zero.ns = 0 := rfl
    have hn : o.now.ns = o.now.sec * 1000000000 + o.now.nsec := rfl
    have key : ¬ ((0 : Int) > o.now.ns + -o.skew) := by omega
    simp [he, hz, key]

/-- not-before test of the code = negation of the spec's `notAfterNowOk` -/
theorem nbf_test (n : Nat) :
    ((toTime n).isZero || (toTime n).after (o.now.add o.skew)) = !(notAfterNowOk (specOpts o) (.secs n)) := by
  obtain ⟨h1, h2⟩ := add_exact (t := o.now) (d := o.skew) hnow.inRange hwf
    (by unfold SkewInRange at hs; omega) (by unfold SkewInRange at hs; omega)
  simp only [notAfterNowOk]
  rw [specNow, specSkew, nsOf_eq, maxRep]
  by_cases he : n ≤ 9223371974719179007
  · rw [toTime_small he, after_iff (wf_mk0 _) h2, h1, ns_mk]
    have hz : GoTime.isZero ⟨(n : Int) + 62135596800, 0⟩ = false := by
      unfold GoTime.isZero
      have : ¬ ((n : Int) + 62135596800 = 0) := by omega
      simp [this]
    simp [hz, he]
    constructor <;> intro h <;> omega
  · rw [toTime_large (by omega)]
    simp [he, GoTime.zero, GoTime.isZero]

end core

theorem firstErr_ok (l : List (Option Reject)) : firstErr l = .ok ↔ ∀ x ∈ l, x = none := by
  induction l with
  | nil => simp [firstErr]
  | cons a l ih =>
    cases a with
    | none => simp [firstErr, ih]
    | some v => simp [firstErr]

section stages
variable (o : VOpts) (hnow : NowSane o.now) (hwf : o.now.WF) (hs : SkewInRange o.skew)
include hnow hwf hs

theorem stageExp_none (c : TimeClaim) : stageExp o c = none ↔ expOk (specOpts o) c = true := by
  cases c with
  | absent => simp [stageExp, expOk, specOpts]
  | invalid => simp [stageExp, expOk]
  | secs e =>
    simp only [stageExp, expOk, exp_test o hnow hwf hs e]
    cases (decide (e ≤ maxRepresentable) && decide (nsOf e > (specOpts o).nowUnixNs - (specOpts o).skewNs)) <;> simp

theorem stageNbf_none (c : TimeClaim) : stageNbf o c = none ↔ notAfterNowOk (specOpts o) c = true := by
  cases c with
  | absent => simp [stageNbf, notAfterNowOk]
  | invalid => simp [stageNbf, notAfterNowOk]
  | secs n =>
    simp only [stageNbf, notBeforeFails, nbf_test o hnow hwf hs n]
    cases notAfterNowOk (specOpts o) (.secs n) <;> simp

theorem stageIat_none (c : TimeClaim) : stageIat o c = none ↔ iatOk (specOpts o) c = true := by
  cases c with
  | absent => simp [stageIat, iatOk]
  | invalid => simp [stageIat, iatOk]
  | secs n =>
    simp only [stageIat, notBeforeFails, iatOk, nbf_test o hnow hwf hs n]
    have hsp : (specOpts o).expectIssuedInThePast = o.expectIssuedInThePast := rfl
    rw [hsp]
    cases notAfterNowOk (specOpts o) (.secs n) <;> cases o.expectIssuedInThePast <;>
      by_cases hn : n = 0 <;> simp [hn] <;> omega

end stages

theorem stageText_none (bad mm : Reject) (e : String) (c : TextClaim) :
    stageText bad mm e c = none ↔ textOk e c = true := by
  cases c with
  | absent => by_cases h : e = "" <;> simp [stageText, textOk, h]
  | invalid => simp [stageText, textOk]
  | text s => by_cases h : e = "" <;> by_cases h2 : e = s <;> simp [stageText, textOk, h, h2]

end Cose.Props.C18
