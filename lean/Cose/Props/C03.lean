import Cose.Props.C02
import Cose.Props.C12
/-!
# C03 — encrypted messages bind ciphertext to nonce, protected headers and external data

Reduction, as for C02: a successful `Decrypt` means the AEAD opened the *received* ciphertext under the nonce
derived from the *received* IV / Partial IV (C06) with additional data = the RFC 9052 `Enc_structure` of the
*received* protected bytes and the caller's external data.  For the AEADs of this library the C12 theorems then
say that what opened is the sealing of the returned plaintext under exactly these inputs (`*_open_unique`), so an
accepted change is a tag forgery.  On every failure the message's payload is left as it was.
-/
namespace Cose.Props.C03
open Cose.Msg Cose.Go Cose.Cbor Cose.Spec.Rfc9052 Cose.Gen

theorem tobe_encrypt0_is_spec (w : Wire) (ext : Option Bytes) :
    tobe .encrypt0 { w with payload := none } none ext = .ok (encode (encStructure0 w.prot ext)) := by
  unfold tobe toBeBytes Kind.tb
  have := Cose.Props.C04.tobe_encrypt0_eq_spec w.prot ext
  have e : toBe Layouts.tb_encrypt0Message (fields3 w.prot none) (paramsSign none ext) =
      toBe Layouts.tb_encrypt0Message (fields3 w.prot none) (paramsExt ext) := by
    cases w.prot <;> cases ext <;> rfl
  simp only
  rw [e, this]; rfl

theorem tobe_encrypt_is_spec (w : Wire) (ext : Option Bytes) :
    tobe .encrypt { w with payload := none } none ext = .ok (encode (encStructure w.prot ext)) := by
  unfold tobe toBeBytes Kind.tb
  have := Cose.Props.C04.tobe_encrypt_eq_spec w.prot ext
  have e : toBe Layouts.tb_encryptMessage (fields3 w.prot none) (paramsSign none ext) =
      toBe Layouts.tb_encryptMessage (fields3 w.prot none) (paramsExt ext) := by
    cases w.prot <;> cases ext <;> rfl
  simp only
  rw [e, this]; rfl

/-- **soundness of Decrypt** (both kinds): success implies the AEAD accepted the received ciphertext with the
    nonce selected from the received headers and the additional data computed from the received protected bytes -/
theorem decrypt_sound (m : Msg) (mode : PMode) (e : Encryptor) (ext : Option Bytes) (pv : PVal)
    (h : decryptEnc m mode e ext = .ok pv) :
    ∃ w ct aad choice pt, m.mm = some w ∧ w.payload = some ct ∧ algMismatch (m.prot.getD []) e.key.alg = false ∧
      tobe m.kind { w with payload := none } none ext = .ok aad ∧
      selectNonce (m.unprot.getD []) e.key e.nonceSize = .ok choice ∧
      e.decrypt choice.ivOrEmpty ct aad = .ok pt := by
  unfold decryptEnc at h
  cases hw : m.mm with
  | none => simp [hw] at h
  | some w =>
    cases hc : w.payload with
    | none => simp [hw, hc] at h
    | some ct =>
      simp only [hw, hc] at h
      split at h
      · cases h
      · rename_i hm
        cases ht : tobe m.kind { w with payload := none } none ext with
        | err x => simp [ht] at h
        | panic x => simp [ht] at h
        | ok aad =>
          simp only [ht] at h
          cases hn : selectNonce (m.unprot.getD []) e.key e.nonceSize with
          | err x => simp [hn] at h
          | panic x => simp [hn] at h
          | ok choice =>
            simp only [hn] at h
            cases hd : e.decrypt choice.ivOrEmpty ct aad with
            | err x => simp [hd] at h
            | panic x => simp [hd] at h
            | ok pt => exact ⟨w, ct, aad, choice, pt, rfl, hc, by simpa using hm, ht, rfl, hd⟩

/-- a message without IV and without Partial IV hands the AEAD an empty nonce, which every AEAD of the library
    refuses (its nonce-length gate, C12) -/
theorem missing_iv_gives_empty_nonce : NonceChoice.random.ivOrEmpty = [] := rfl

/-- the object-level `Decrypt`: the message after the call -/
def decryptMsg (m : Msg) (mode : PMode) (e : Encryptor) (ext : Option Bytes) : Msg × Res Unit :=
  match decryptEnc m mode e ext with
  | .ok pv => ({ m with payload := pv }, .ok ())
  | .err x => (m, .err x)
  | .panic s => (m, .panic s)

/-- **on failure no plaintext, partial or complete, is placed in the message's payload** -/
theorem decrypt_failure_preserves_payload (m : Msg) (mode : PMode) (e : Encryptor) (ext : Option Bytes)
    (h : (decryptMsg m mode e ext).2 ≠ .ok ()) : (decryptMsg m mode e ext).1 = m := by
  unfold decryptMsg at *
  cases hd : decryptEnc m mode e ext with
  | ok pv => simp [hd] at h
  | err x => rfl
  | panic s => rfl

/-- different protected bytes or different external data give different additional data (COSE_Encrypt0) -/
theorem enc0_aad_injective (p p' e e' : Option Bytes)
    (hp : Cose.Props.C04.WFb p) (he : Cose.Props.C04.WFb e) (hp' : Cose.Props.C04.WFb p') (he' : Cose.Props.C04.WFb e')
    (h : encode (encStructure0 p e) = encode (encStructure0 p' e')) : p = p' ∧ e.getD [] = e'.getD [] := by
  have wf : ∀ (p e : Option Bytes), Cose.Props.C04.WFb p → Cose.Props.C04.WFb e → WF (encStructure0 p e) := by
    intro p e hp he
    have h1 := Cose.Props.C04.wf_asInMessage p hp
    have h0 := Cose.Props.C04.wf_ctx ctxEncrypt0 (by simp)
    have h2 : WF (externalAad e) := by
      cases e with
      | none => simp [externalAad, WF, two64]
      | some x => simpa [externalAad, WF] using he x rfl
    simp only [encStructure0, WF, WFList, maxElems, List.length_cons, List.length_nil]
    exact ⟨by omega, h0, h1, h2, trivial⟩
  have := encode_inj (wf p e hp he) (wf p' e' hp' he') h
  simp only [encStructure0, Cbor.arr.injEq, List.cons.injEq, and_true, true_and] at this
  exact ⟨Cose.Props.C04.asInMessage_inj this.1, by simpa [externalAad] using this.2⟩


end Cose.Props.C03
