import Cose.Key.EcLemmas
/-!
# C10 — ECDSA/EdDSA signatures are correct, fixed-length and independently verifiable

Theorems: the r‖s codec (RFC 9053 §2.1 / RFC 8152 §8.1) is exact on the whole range and has the registered
lengths 64 / 96 / 132; any other length is refused; the hash per algorithm is the RFC 9053 one (table regenerated).
Independent verifiability and signature correctness are established against the **Lean ECDSA / Ed25519 reference**
in the correspondence run `sig` (library signatures verify in Lean, Ed25519 signatures are byte-identical, every
mutation gets the same verdict, keys with leading-zero scalars and coordinates, public keys in derived / exported /
compressed form); the group laws themselves are assumptions (DESIGN §8).
-/
namespace Cose.Props.C10
open Cose.Key Cose.Crypto Cose.Gen.Tables

/-- curve sizes: signatures are exactly 64, 96 and 132 bytes -/
theorem signature_sizes : 2 * p256.byteLen = 64 ∧ 2 * p384.byteLen = 96 ∧ 2 * p521.byteLen = 132 := by decide

/-- the algorithm → (curve, crv) table in the source is RFC 9053 table 1 -/
theorem ecdsa_curve_table :
    sw_key_ecdsa_getCurve.srows = [((-36), ["elliptic.P521()", "3"]), ((-35), ["elliptic.P384()", "2"]), ((-7), ["elliptic.P256()", "1"])] ∧
    sw_key_ecdsa_getCurve.dflt = ["nil", "0"] := by decide +kernel

/-- ES256 → SHA-256, ES384 → SHA-384, ES512 → SHA-512 (Go crypto.Hash ids 5, 6, 7) -/
theorem hash_table_is_rfc9053 :
    nth (swRow sw_key_Alg_HashFunc (-7)) 0 = 5 ∧ nth (swRow sw_key_Alg_HashFunc (-35)) 0 = 6 ∧
    nth (swRow sw_key_Alg_HashFunc (-36)) 0 = 7 := by decide +kernel

/-- **encode then decode is the identity** for every r, s that fit the curve size (in particular r, s < n) -/
theorem decodeSig_encodeSig (c : Curve) (r s : Nat) (hr : r < 256 ^ c.byteLen) (hs : s < 256 ^ c.byteLen) :
    ∃ sig, encodeSig c r s = some sig ∧ sig.length = 2 * c.byteLen ∧ decodeSig c sig = some (r, s) := by
  have a : ¬ (r ≥ 256 ^ c.byteLen ∨ s ≥ 256 ^ c.byteLen) := by omega
  refine ⟨fixedLen c.byteLen r ++ fixedLen c.byteLen s, ?_, ?_, ?_⟩
  · unfold encodeSig; simp [a]
  · simp [fixedLen_length]; omega
  · unfold decodeSig
    have l : (fixedLen c.byteLen r ++ fixedLen c.byteLen s).length = 2 * c.byteLen := by
      simp [fixedLen_length]; omega
    simp only [l, bne_self_eq_false, Bool.false_eq_true, if_false]
    have t : (fixedLen c.byteLen r ++ fixedLen c.byteLen s).take c.byteLen = fixedLen c.byteLen r :=
      List.take_left' (fixedLen_length _ _)
    have d : (fixedLen c.byteLen r ++ fixedLen c.byteLen s).drop c.byteLen = fixedLen c.byteLen s :=
      List.drop_left' (fixedLen_length _ _)
    rw [t, d, os2ip_fixedLen _ _ hr, os2ip_fixedLen _ _ hs]

/-- values that do not fit are refused (`i2osp`: integer too large) -/
theorem encodeSig_rejects_large (c : Curve) (r s : Nat) (h : r ≥ 256 ^ c.byteLen ∨ s ≥ 256 ^ c.byteLen) :
    encodeSig c r s = none := by
  unfold encodeSig
  rcases h with h | h <;> simp [h]

/-- **signatures of any other length are refused** -/
theorem decodeSig_rejects_other_lengths (c : Curve) (sig : Bytes) (h : sig.length ≠ 2 * c.byteLen) :
    decodeSig c sig = none := by
  unfold decodeSig; simp [h]

/-- **the decoded pair determines the signature bytes**: two accepted strings that decode to the same (r, s) are
    the same string — so changing any bit of a signature changes (r, s) -/
theorem decodeSig_injective (c : Curve) (a b : Bytes) (p : Nat × Nat) (ha : decodeSig c a = some p)
    (hb : decodeSig c b = some p) : a = b := by
  unfold decodeSig at ha hb
  split at ha
  · cases ha
  · rename_i la
    split at hb
    · cases hb
    · rename_i lb
      simp only [bne_iff_ne, ne_eq, Decidable.not_not] at la lb
      simp only [Option.some.injEq] at ha hb
      rw [← hb] at ha
      simp only [Prod.mk.injEq] at ha
      have e1 := os2ip_injective _ _ (by simp [la, lb]) ha.1
      have e2 := os2ip_injective _ _ (by simp [la, lb]) ha.2
      rw [← List.take_append_drop c.byteLen a, ← List.take_append_drop c.byteLen b, e1, e2]

/-- Ed25519 verifier refuses other lengths outright (64-byte signatures, 32-byte keys) – tests, labelled as tests -/
example : ed25519Verify (List.replicate 32 0) [] (List.replicate 63 0) = false := by decide +kernel

-- non-vacuity: boundary values of the codec
#guard decodeSig p256 ((encodeSig p256 1 (p256.n - 1)).getD []) == some (1, p256.n - 1)
#guard (encodeSig p521 (2 ^ 520) 1).map List.length == some 132

end Cose.Props.C10
