import Cose.Props.ClaimsRoundtrip
import Cose.Cwt.View
/-!
# C09 / C18 — the struct form and the map form of a claim set agree

`struct_map_same_bytes`: a `cwt.Claims` struct and the `ClaimsMap` holding the same claims (non-zero members under the
labels 1..7, as Go strings / `uint64` / `[]byte`) encode to *the same octets*.
`struct_token_read_as_map`: the octets a struct encodes to decode as a `ClaimsMap` that answers every look-up like
that map, so `ValidateMap` on the receiving side decides what it would decide on the sender's claims.
-/
namespace Cose.Props.ClaimsForms
open Cose.Go Cose.Cbor Cose.Msg Cose.Cwt Cose.Props.ClaimsRoundtrip

def goMembers (es : List (Nat × Option GoVal)) : CMap :=
  es.filterMap (fun e => e.2.map (fun v => (Label.int e.1, v)))

def ctiGo : Option Bytes → Option GoVal
  | some (x :: r) => some (.bytes (x :: r))
  | _ => none

def goFields (c : ClaimsS) : List (Nat × Option GoVal) :=
  [(1, if c.iss.isEmpty then none else some (.str c.iss)),
   (2, if c.sub.isEmpty then none else some (.str c.sub)),
   (3, if c.aud.isEmpty then none else some (.str c.aud)),
   (4, if c.exp == 0 then none else some (.int .u64 c.exp)),
   (5, if c.nbf == 0 then none else some (.int .u64 c.nbf)),
   (6, if c.iat == 0 then none else some (.int .u64 c.iat)),
   (7, ctiGo c.cti)]

/-- the `ClaimsMap` with the claims of the struct -/
def toClaimsMap (c : ClaimsS) : CMap := goMembers (goFields c)

def cv (v : GoVal) : Cbor := (toCbor v).getD Cbor.null

theorem ofInt_nat (k : Nat) : Cbor.ofInt (k : Int) = .uint k := by
  unfold Cbor.ofInt
  simp

theorem map_entryCbor (es : List (Nat × Option GoVal)) :
    (goMembers es).map entryCbor = members (es.map (fun e => (e.1, e.2.map cv))) := by
  induction es with
  | nil => rfl
  | cons e r ih =>
    obtain ⟨k, o⟩ := e
    cases o with
    | none =>
      have e1 : goMembers ((k, none) :: r) = goMembers r := by simp [goMembers]
      have e2 : members (((k, none) :: r).map (fun e => (e.1, e.2.map cv))) = members (r.map (fun e => (e.1, e.2.map cv))) := by
        simp [members]
      rw [e1, e2]; exact ih
    | some v =>
      have e1 : goMembers ((k, some v) :: r) = (Label.int k, v) :: goMembers r := by simp [goMembers]
      have e2 : members (((k, some v) :: r).map (fun e => (e.1, e.2.map cv))) =
          (Cbor.uint k, cv v) :: members (r.map (fun e => (e.1, e.2.map cv))) := by simp [members]
      rw [e1, e2, List.map_cons, ih]
      simp only [entryCbor, Label.toCbor, ofInt_nat, cv]

theorem ite_str (b : Bool) (s : Bytes) :
    Option.map cv (if b = true then none else some (GoVal.str s)) = if b = true then none else some (Cbor.tstr s) := by
  cases b <;> rfl

theorem ite_u64 (b : Bool) (n : Nat) :
    Option.map cv (if b = true then none else some (GoVal.int IntKind.u64 (n : Int))) = if b = true then none else some (Cbor.uint n) := by
  cases b
  · simp [cv, toCbor, ofInt_nat]
  · rfl

theorem fields_agree (c : ClaimsS) : (goFields c).map (fun e => (e.1, e.2.map cv)) = fieldsOf c := by
  have h7 : (ctiGo c.cti).map cv = ctiItem c.cti := by
    cases c.cti with
    | none => rfl
    | some l => cases l <;> rfl
  simp only [goFields, fieldsOf, List.map_cons, List.map_nil, h7, ite_str, ite_u64]

theorem goMembers_labels_lt (es : List (Nat × Option GoVal)) (hs : es.Pairwise (fun a b => a.1 < b.1)) :
    ((goMembers es).map (·.1)).Nodup := by
  induction es with
  | nil => exact List.nodup_nil
  | cons e r ih =>
    obtain ⟨hlt, hr⟩ := List.pairwise_cons.mp hs
    obtain ⟨k, o⟩ := e
    cases o with
    | none =>
      have e1 : goMembers ((k, none) :: r) = goMembers r := by simp [goMembers]
      rw [e1]; exact ih hr
    | some v =>
      have e1 : goMembers ((k, some v) :: r) = (Label.int k, v) :: goMembers r := by simp [goMembers]
      rw [e1, List.map_cons, List.nodup_cons]
      refine ⟨?_, ih hr⟩
      intro hmem
      obtain ⟨kv, hkv, hk⟩ := List.mem_map.mp hmem
      unfold goMembers at hkv
      obtain ⟨e, he, hev⟩ := List.mem_filterMap.mp hkv
      cases h2 : e.2 with
      | none => simp [h2] at hev
      | some w =>
        simp only [h2, Option.map_some, Option.some.injEq] at hev
        subst hev
        simp only [Label.int.injEq] at hk
        have := hlt e he
        simp only at this
        omega

theorem goMembers_ok (es : List (Nat × Option GoVal)) (hk : ∀ e ∈ es, e.1 < 24) (hv : ∀ e ∈ es, ∀ v, e.2 = some v → Flat v) :
    ∀ kv ∈ goMembers es, EntryOk kv := by
  intro kv hkv
  unfold goMembers at hkv
  obtain ⟨e, he, hev⟩ := List.mem_filterMap.mp hkv
  cases h2 : e.2 with
  | none => simp [h2] at hev
  | some w =>
    simp only [h2, Option.map_some, Option.some.injEq] at hev
    subst hev
    refine ⟨?_, hv e he w h2⟩
    have := hk e he
    simp only [LabelOk, minInt32, maxInt32]
    omega

theorem go_fields_ok (c : ClaimsS) (h : Ok c) :
    (∀ e ∈ goFields c, e.1 < 24) ∧ (∀ e ∈ goFields c, ∀ v, e.2 = some v → Flat v) ∧
      (goFields c).Pairwise (fun a b => a.1 < b.1) := by
  obtain ⟨h1, u1, h2, u2, h3, u3, h4, h5, h6, h7⟩ := h
  have fs : ∀ (b : Bool) (s : Bytes) (v : GoVal), s.length < Cbor.two64 → validUtf8 s = true →
      (if b = true then none else some (GoVal.str s)) = some v → Flat v := by
    intro b s v hl hu hv
    cases b
    · simp only [Bool.false_eq_true, if_false, Option.some.injEq] at hv; subst hv
      exact .scalar _ (.str s ⟨hl, hu⟩)
    · simp at hv
  have fu : ∀ (b : Bool) (n : Nat) (v : GoVal), n < Cbor.two64 →
      (if b = true then none else some (GoVal.int IntKind.u64 (n : Int))) = some v → Flat v := by
    intro b n v hl hv
    cases b
    · simp only [Bool.false_eq_true, if_false, Option.some.injEq] at hv; subst hv
      refine .scalar _ (.int _ _ ?_ (fun _ => by omega))
      unfold IntOk; unfold Cbor.two64 at hl; omega
    · simp at hv
  refine ⟨?_, ?_, ?_⟩
  · intro e he; simp only [goFields, List.mem_cons, List.not_mem_nil, or_false] at he
    rcases he with rfl | rfl | rfl | rfl | rfl | rfl | rfl <;> simp
  · intro e he v hv; simp only [goFields, List.mem_cons, List.not_mem_nil, or_false] at he
    rcases he with rfl | rfl | rfl | rfl | rfl | rfl | rfl
    · exact fs _ _ _ h1 u1 hv
    · exact fs _ _ _ h2 u2 hv
    · exact fs _ _ _ h3 u3 hv
    · exact fu _ _ _ h4 hv
    · exact fu _ _ _ h5 hv
    · exact fu _ _ _ h6 hv
    · simp only at hv
      cases hc : c.cti with
      | none => rw [hc] at hv; cases hv
      | some l =>
        cases l with
        | nil => rw [hc] at hv; cases hv
        | cons x r =>
          rw [hc] at hv; simp only [ctiGo, Option.some.injEq] at hv; subst hv
          exact .scalar _ (.bytes _ (h7 _ hc))
  · simp [goFields]

/-- **struct form and map form are the same octets** -/
theorem struct_map_same_bytes (c : ClaimsS) (h : Ok c) : encodeCMap (toClaimsMap c) = some (encode c.toCbor) := by
  obtain ⟨hk, hv, hs⟩ := go_fields_ok c h
  unfold encodeCMap CMap.toCbor toClaimsMap
  rw [cmapPairs_eq _ (goMembers_ok _ hk hv), map_entryCbor, fields_agree, toCbor_eq]
  rfl

/-- **a token built from the struct and read as a map**: the octets decode as a `ClaimsMap` with as many claims, that
    answers every look-up like the map form of the struct (values in their decoded form), so `ValidateMap` decides on
    it what it decides on the sender's claims -/
theorem struct_token_read_as_map (c : ClaimsS) (h : Ok c) :
    ∃ m', decodeCMap (encode c.toCbor) = .ok m' ∧ m'.length = (toClaimsMap c).length ∧
      (∀ l, m'.lookup l = ((toClaimsMap c).lookup l).map normV) ∧
      ∀ o, validateMap o (claimsView m') = validateMap o (claimsView (toClaimsMap c)) := by
  obtain ⟨hk, hv, hs⟩ := go_fields_ok c h
  have hok := goMembers_ok _ hk hv
  have hnd := goMembers_labels_lt _ hs
  have hlen : (toClaimsMap c).length ≤ maxElems := by
    have : (toClaimsMap c).length ≤ (goFields c).length := by unfold toClaimsMap goMembers; exact List.length_filterMap_le _ _
    have e : (goFields c).length = 7 := rfl
    unfold maxElems; omega
  obtain ⟨b, m', hb, hd, hl, hlook⟩ := cmap_roundtrip (toClaimsMap c) hok hnd hlen
  rw [struct_map_same_bytes c h] at hb
  cases hb
  exact ⟨m', hd, hl, hlook, fun o => validateMap_roundtrip o _ _ hok hnd hlook⟩

example : toClaimsMap ⟨[0x6c, 0x64, 0x63], [], [0x61], 1444064944, 0, 0, some [1, 2]⟩ =
    [(.int 1, .str [0x6c, 0x64, 0x63]), (.int 3, .str [0x61]), (.int 4, .int .u64 1444064944), (.int 7, .bytes [1, 2])] := rfl

end Cose.Props.ClaimsForms
