import Cose.Props.C01
/-!
# C01 / C02 — COSE_Sign with any number of signers is accepted back

`sign_roundtrip`: for every payload, external data and list of signers (any length up to the decoder's element
limit), the message `SignMessage.WithSign` builds with default headers is encoded by `MarshalCBOR`, decoded by
`UnmarshalCBOR` into one signature object per signer — each holding the protected bytes as sent — and accepted by
`SignMessage.Verify` under every verifier list that *serves* the signers: looking up a signer's kid finds a verifier of
the same algorithm that accepts what the signer signs.  `serves_of_distinct_kids` shows that counterpart keys with
pairwise different kids are such a list (`sign_roundtrip_distinct_kids`).  Signature correctness (`SigCorrect`) is the
only cryptographic assumption.  The proof goes signer by signer (`All2`), so nothing is bounded by a sample size.
-/
namespace Cose.Props.C01Sign
open Cose.Msg Cose.Go Cose.Cbor Cose.Gen Cose.Props.C01

/-- the protected bucket `WithSign` gives a signer: `{1: alg}` when the key names an algorithm -/
def sProt (s : Signer) : CMap :=
  if s.key.alg != 0 then [(lbl Iana.HeaderParameterAlg, .int .alg s.key.alg)] else []

/-- … and the unprotected one: `{4: kid}` when the key has a non-empty kid -/
def sUnprot (s : Signer) : CMap :=
  match s.key.kid with
  | some kid => if kid.isEmpty then [] else [(lbl Iana.HeaderParameterKid, .bstr kid)]
  | none => []

/-- what one signer contributes to the message -/
def Made (w : Wire) (ext : Option Bytes) (s : Signer) (so : SigObj) : Prop :=
  ∃ spb tb sig, hdrBytes (some (sProt s)) = .ok spb ∧ tobe .sign w (some spb) ext = .ok tb ∧ s.sign tb = .ok sig ∧
    so = ⟨sProt s, none, some (sUnprot s), some sig⟩

/-- element-wise relation of two lists (core Lean has no `Forall₂`) -/
inductive All2 {α β} (R : α → β → Prop) : List α → List β → Prop
  | nil : All2 R [] []
  | cons {a b l₁ l₂} : R a b → All2 R l₁ l₂ → All2 R (a :: l₁) (b :: l₂)

theorem go_spec (ext : Option Bytes) (w : Wire) (signers : List Signer) :
    ∀ (acc out : List SigObj), produceSign.go ext w signers acc = .ok out →
      ∃ made, out = acc.reverse ++ made ∧ All2 (Made w ext) signers made := by
  induction signers with
  | nil =>
    intro acc out h
    simp only [produceSign.go, Res.ok.injEq] at h
    exact ⟨[], by simp [h], .nil⟩
  | cons s rest ih =>
    intro acc out h
    unfold produceSign.go at h
    simp only at h
    split at h
    · rename_i spb hspb
      split at h
      · rename_i tb htb
        split at h
        · rename_i sig hsig
          obtain ⟨made, hout, hall⟩ := ih _ _ h
          refine ⟨_ :: made, ?_, .cons ⟨spb, tb, sig, hspb, htb, hsig, rfl⟩ hall⟩
          rw [hout, List.reverse_cons, List.append_assoc]; rfl
        · cases h
        · cases h
      · cases h
      · cases h
    · cases h
    · cases h

/-! ### the pieces of one COSE_Signature on the wire -/

/-- the unprotected bucket of a signer as a CBOR item -/
def suCbor (s : Signer) : Cbor :=
  match s.key.kid with
  | some kid => if kid.isEmpty then .map [] else .map [(.uint 4, .bstr kid)]
  | none => .map []

/-- … and as the decoder hands it back (`[]byte` values come back as plain byte slices) -/
def suDecoded (s : Signer) : CMap :=
  match s.key.kid with
  | some kid => if kid.isEmpty then [] else [(.int 4, .bytes kid)]
  | none => []

theorem hdrCbor_sUnprot (s : Signer) : hdrCbor (some (sUnprot s)) = some (suCbor s) := by
  unfold sUnprot suCbor
  cases s.key.kid with
  | none => rfl
  | some kid =>
    by_cases hk : kid.isEmpty = true
    · simp [hk, hdrCbor, CMap.toCbor, cmapPairs]
    · have : Msg.lbl Iana.HeaderParameterKid = Label.int 4 := rfl
      simp [hk, hdrCbor, CMap.toCbor, cmapPairs, toCbor, this, Label.toCbor, Cbor.ofInt]

theorem kid_map_wf (kid : Bytes) (hl : kid.length < two64) :
    WF (.map [(.uint 4, .bstr kid)]) ∧ depth (.map [(.uint 4, .bstr kid)]) = 1 := by
  refine ⟨?_, by simp [depth, depthPairs]⟩
  simp only [WF, WFPairs, KeysSorted, encodePairs, List.pairwise_cons, List.length_cons, List.length_nil, maxElems]
  exact ⟨by omega, ⟨by simp [two64], hl, trivial⟩, ⟨by simp, by simp⟩, by simp [hashableKey]⟩

theorem suCbor_wf (s : Signer) (hl : ∀ kid, s.key.kid = some kid → kid.length < two64) :
    WF (suCbor s) ∧ depth (suCbor s) ≤ 1 := by
  unfold suCbor
  cases hkid : s.key.kid with
  | none => simp [WF, WFPairs, KeysSorted, encodePairs, depth, depthPairs, maxElems]
  | some kid =>
    by_cases hk : kid.isEmpty = true
    · simp [hk, WF, WFPairs, KeysSorted, encodePairs, depth, depthPairs, maxElems]
    · simp only [hk, Bool.false_eq_true, if_false]
      have := kid_map_wf kid (hl kid hkid)
      exact ⟨this.1, by omega⟩

theorem hdrField_suCbor (s : Signer) :
    hdrField (suCbor s) = .ok (some (suDecoded s)) := by
  unfold suCbor suDecoded
  cases hkid : s.key.kid with
  | none => rfl
  | some kid =>
    by_cases hk : kid.isEmpty = true
    · simp [hk, hdrField, untag, ofCborPairs, cmapOfPairs]
    · simp [hk, hdrField, untag, ofCborPairs, ofCbor, cmapOfPairs, checkKey, maxInt32]

/-- the default bucket `{1: alg}` is at most 11 octets -/
theorem default_bucket_short (a : Int) : (encode (.map [(Cbor.ofInt 1, Cbor.ofInt a)])).length < two64 := by
  rw [ofInt_one]
  have : ∀ c, (encode c).length ≤ 9 → (encode (.map [(.uint 1, c)])).length < two64 := by
    intro c hc
    simp only [encode, encodePairs, List.length_append]
    have h1 := head_shortest 5 1
    have h2 := head_shortest 0 1
    simp at h1 h2
    simp [flattenPairs, h1, h2, two64]; omega
  apply this
  unfold Cbor.ofInt
  split <;> (simp only [encode]; rw [head_shortest]; split <;> (try split) <;> (try split) <;> (try split) <;> omega)

/-- a signer's protected bucket: its bytes, their length, and what a decoder reads from them -/
theorem sprot_bytes (s : Signer) (har : -2147483648 ≤ s.key.alg ∧ s.key.alg ≤ 2147483647) :
    ∃ spb pm, hdrBytes (some (sProt s)) = .ok spb ∧ spb.length < two64 ∧
      hdrFromBytes (some spb) = .ok pm ∧ algMismatch pm s.key.alg = false := by
  unfold sProt
  by_cases ha : s.key.alg = 0
  · refine ⟨[], [], ?_, by simp [two64], rfl, ?_⟩
    · simp [ha, hdrBytes]
    · simp [algMismatch, CMap.has, CMap.lookup]
  · have hne : (s.key.alg != 0) = true := by simpa using ha
    obtain ⟨pm, hpm, hmm⟩ := default_bucket_roundtrip s.key.alg har
    refine ⟨_, pm, ?_, default_bucket_short s.key.alg, hpm, hmm⟩
    simp only [hne, if_true]
    exact default_bucket_bytes s.key.alg ha

/-- what the decoder makes of one produced signature -/
def Decoded (w : Wire) (ext : Option Bytes) (s : Signer) (so : SigObj) : Prop :=
  ∃ spb pm tb sig, so = ⟨pm, some spb, some (suDecoded s), some sig⟩ ∧ algMismatch pm s.key.alg = false ∧
    tobe .sign w (some spb) ext = .ok tb ∧ s.sign tb = .ok sig

/-- the hypotheses on one signer: its algorithm identifier fits a COSE integer label value, its kid a byte string -/
def SignerOk (s : Signer) : Prop :=
  (-2147483648 ≤ s.key.alg ∧ s.key.alg ≤ 2147483647) ∧ ∀ kid, s.key.kid = some kid → kid.length < two64

/-- all produced signatures, encoded and decoded again -/
theorem made_list (w : Wire) (ext : Option Bytes) (signers : List Signer) (sigs : List SigObj)
    (h : All2 (Made w ext) signers sigs) (hs : ∀ s ∈ signers, SignerOk s)
    (hsl : ∀ so ∈ sigs, ∀ x, so.signature = some x → x.length < two64) :
    ∃ ss sigs', sigs.mapM sigCbor = some ss ∧ ss.length = signers.length ∧ WFList ss ∧ depthList ss ≤ 2 ∧
      decSeq sigField ss = .ok sigs' ∧ All2 (Decoded w ext) signers sigs' := by
  induction h with
  | nil => exact ⟨[], [], rfl, rfl, trivial, by simp [depthList], rfl, .nil⟩
  | @cons s so rest sigsr hm _ ih =>
    obtain ⟨ss, sigs', h1, h2, h3, h4, h5, h6⟩ := ih (fun x hx => hs x (List.mem_cons_of_mem _ hx))
      (fun x hx => hsl x (List.mem_cons_of_mem _ hx))
    obtain ⟨spb0, tb, sig, hspb0, htb, hsig, hso⟩ := hm
    obtain ⟨har, hkl⟩ := hs s (List.mem_cons_self ..)
    obtain ⟨spb, pm, hspb, hspbl, hpm, hmm⟩ := sprot_bytes s har
    have hEq : spb0 = spb := by rw [hspb0] at hspb; exact Res.ok.inj hspb
    subst hEq
    have hsigl : sig.length < two64 := hsl so (List.mem_cons_self ..) sig (by rw [hso])
    obtain ⟨huw, hud⟩ := suCbor_wf s hkl
    have hc : sigCbor so = some (.arr [.bstr spb0, suCbor s, .bstr sig]) := by
      rw [hso]
      simp only [sigCbor, hspb0, hdrCbor_sUnprot, bytesCbor]
    refine ⟨.arr [.bstr spb0, suCbor s, .bstr sig] :: ss, ⟨pm, some spb0, some (suDecoded s), some sig⟩ :: sigs', ?_, ?_, ?_, ?_, ?_, ?_⟩
    · simp only [List.mapM_cons, hc, h1]; rfl
    · simp [h2]
    · refine ⟨⟨by simp [maxElems], hspbl, huw, hsigl, trivial⟩, h3⟩
    · simp only [depthList, depth]; omega
    · have : sigField (.arr [.bstr spb0, suCbor s, .bstr sig]) = .ok ⟨pm, some spb0, some (suDecoded s), some sig⟩ := by
        simp only [sigField, untag, bytesField, hdrField_suCbor, hpm]
      simp only [decSeq, this, h5]
    · exact .cons ⟨spb0, pm, tb, sig, rfl, hmm, htb, hsig⟩ h6

/-! ### verification of the decoded signatures -/

theorem tobe_congr (w w2 : Wire) (hp : w2.prot = w.prot) (hy : w2.payload = w.payload) (sp ext : Option Bytes) :
    tobe .sign w2 sp ext = tobe .sign w sp ext := by
  unfold tobe; rw [hp, hy]

/-- the kid a decoded signature reports selects the same verifier as the signer's own kid -/
theorem decoded_kid_lookup (vs : List Verifier) (s : Signer) (pm : CMap) (spb sig : Option Bytes) :
    lookupVerifier vs (SigObj.kid ⟨pm, spb, some (suDecoded s), sig⟩) = lookupVerifier vs s.key.kid := by
  have : (SigObj.kid ⟨pm, spb, some (suDecoded s), sig⟩).getD [] = s.key.kid.getD [] := by
    unfold SigObj.kid suDecoded
    cases hk : s.key.kid with
    | none => rfl
    | some kid =>
      by_cases he : kid.isEmpty = true
      · have : kid = [] := by simpa using he
        subst this; rfl
      · have hl : (Label.int 4 == Msg.lbl Iana.HeaderParameterKid) = true := by decide
        simp [he, CMap.lookup, hl, getBytes]
  unfold lookupVerifier
  rw [this]

/-- a verifier set serves a signer when looking up the signer's kid finds a verifier of the same algorithm that
    accepts what the signer signs -/
def Serves (vs : List Verifier) (s : Signer) : Prop :=
  ∃ v, lookupVerifier vs s.key.kid = some v ∧ v.key.alg = s.key.alg ∧ SigCorrect s.sign v.verify

theorem verify_list (vs : List Verifier) (ext : Option Bytes) (w w2 : Wire)
    (hp : w2.prot = w.prot) (hy : w2.payload = w.payload) (signers : List Signer) (sigs' : List SigObj)
    (h : All2 (Decoded w ext) signers sigs') (hv : ∀ s ∈ signers, Serves vs s) :
    verifySign.go vs ext w2 sigs' = .ok () := by
  induction h with
  | nil => simp [verifySign.go]
  | @cons s so rest sigsr hd _ ih =>
    obtain ⟨spb, pm, tb, sig, hso, hmm, htb, hsig⟩ := hd
    obtain ⟨v, hlook, hva, hcorr⟩ := hv s (List.mem_cons_self ..)
    subst hso
    unfold verifySign.go
    simp only [decoded_kid_lookup, hlook, hva, hmm, Bool.false_eq_true, if_false, tobe_congr w w2 hp hy, htb,
      Option.getD_some, hcorr tb sig hsig]
    exact ih (fun x hx => hv x (List.mem_cons_of_mem _ hx))

theorem All2.length_eq {α β} {R : α → β → Prop} {l₁ : List α} {l₂ : List β} (h : All2 R l₁ l₂) : l₂.length = l₁.length := by
  induction h with
  | nil => rfl
  | cons _ _ ih => simp [ih]

/-- **COSE_Sign round trip, any number of signers**: a message signed by `signers` (default headers: each signature
    records the signer's algorithm and kid) is encoded, decoded and verified by every verifier set that serves each
    signer; the decoder returns the very body protected bytes and payload, one signature per signer, and the payload
    field holds the original bytes. -/
theorem sign_roundtrip (payload ext : Option Bytes) (signers : List Signer) (vs : List Verifier)
    (hs : ∀ s ∈ signers, SignerOk s) (hv : ∀ s ∈ signers, Serves vs s) (hn : signers.length ≤ maxElems)
    (m1 : Msg) (h : produceSign ⟨.sign, none, none, .bytes payload, none⟩ signers ext = .ok m1)
    (w : Wire) (hw : m1.mm = some w)
    (hpl : ∀ x, payload = some x → x.length < two64)
    (hsl : ∀ so ∈ w.sigs.getD [], ∀ x, so.signature = some x → x.length < two64) :
    ∃ bytes m2 w2, marshal .sign w = some bytes ∧ unmarshal .sign .raw bytes = .ok m2 ∧ m2.mm = some w2 ∧
      w2.prot = w.prot ∧ w2.payload = payload ∧ (w2.sigs.getD []).length = signers.length ∧
      m2.payload = .bytes (nonEmpty payload) ∧ verifySign m2 vs ext = .ok () := by
  unfold produceSign at h
  by_cases hne : signers.isEmpty = true
  · simp [hne] at h
  simp only [hne, Bool.false_eq_true, if_false, Option.getD_none] at h
  have hb : hdrBytes (some []) = .ok [] := rfl
  have hy : payloadToWire (.bytes payload) = .ok payload := rfl
  simp only [hb, hy] at h
  cases hgo : produceSign.go ext { prot := some [], unprot := some [], payload := payload } signers [] with
  | err e => simp [hgo] at h
  | panic e => simp [hgo] at h
  | ok sigs =>
    simp only [hgo, Res.ok.injEq] at h
    subst h
    simp only [Option.some.injEq] at hw
    subst hw
    simp only [Option.getD_some] at hsl ⊢
    obtain ⟨made, hmade, hall⟩ := go_spec ext _ signers [] sigs hgo
    simp only [List.reverse_nil, List.nil_append] at hmade
    subst hmade
    obtain ⟨ss, sigs', h1, h2, h3, h4, h5, h6⟩ := made_list _ ext signers sigs hall hs hsl
    -- the wire array
    have hwc : wireCbor .sign { prot := some [], unprot := some [], payload := payload, sigs := some sigs } =
        some (.arr [.bstr [], .map [], bytesCbor payload, .arr ss]) := by
      simp [wireCbor, hdrCbor, CMap.toCbor, cmapPairs, h1, bytesCbor]
    have hwfarr : WF (.arr [.bstr [], .map [], bytesCbor payload, .arr ss]) := by
      simp only [WF, WFList, WFPairs, KeysSorted, encodePairs, maxElems, List.length_cons, List.length_nil, List.all_nil,
        List.Pairwise.nil, List.length_nil]
      refine ⟨by omega, by simp [two64], ⟨by omega, trivial, trivial, trivial⟩, wf_bytesCbor payload hpl, ⟨?_, h3⟩, trivial⟩
      rw [h2]; exact hn
    have hdarr : depth (.arr [.bstr [], .map [], bytesCbor payload, .arr ss]) < maxNesting := by
      simp only [depth, depthList, depthPairs, depth_bytesCbor, maxNesting]; omega
    obtain ⟨c, hc1, hc2⟩ := decode_marshalled .sign _ hwfarr hdarr
    have hmar : marshal .sign { prot := some [], unprot := some [], payload := payload, sigs := some sigs } =
        some (encode (.tag Kind.sign.tagNum (.arr [.bstr [], .map [], bytesCbor payload, .arr ss]))) := by
      unfold marshal; rw [hwc]; rfl
    have hwire : wireOfCbor .sign c = .ok { prot := some [], unprot := some [], payload := payload, sigs := some sigs' } := by
      rw [wireOfCbor_untag, hc2]
      show wireOfCbor .sign (.arr [bytesCbor (some []), .map [], bytesCbor payload, .arr ss]) = _
      simp only [wireOfCbor, untag_arr, bytesField_bytesCbor, h5]
      rfl
    have hpay : payloadFromWire .raw payload (zeroPayload .raw) = .ok (.bytes (nonEmpty payload)) := by
      cases payload with
      | none => rfl
      | some l => cases l <;> rfl
    refine ⟨_, ⟨.sign, some [], some [], .bytes (nonEmpty payload),
      some { prot := some [], unprot := some [], payload := payload, sigs := some sigs' }⟩, _, hmar, ?_, rfl, rfl, rfl, ?_, rfl, ?_⟩
    · unfold unmarshal
      rw [hc1]
      have hrr : recipientsRawOk .sign (applyStrip (encode (.tag Kind.sign.tagNum (.arr [.bstr [], .map [], bytesCbor payload, .arr ss]))) (stripSteps .sign)) = true := by
        simp [recipientsRawOk]
      have hnot : ((Kind.sign == Kind.mac || Kind.sign == Kind.encrypt) && ([] : List Recip).isEmpty) = false := rfl
      have hnot2 : (Kind.sign == Kind.encrypt0 || Kind.sign == Kind.encrypt) = false := rfl
      have hpm : hdrFromBytes (some []) = .ok [] := rfl
      simp only [hrr, hwire, Bool.not_true, Bool.false_eq_true, if_false, Option.getD_none, hnot, hpm, hnot2, hpay]
    · simp only [Option.getD_some]; exact h6.length_eq
    · -- verification
      have hsne : signers ≠ [] := by intro he; subst he; simp at hne
      obtain ⟨s0, rest0, hs0⟩ := List.exists_cons_of_ne_nil hsne
      have hvne : vs.isEmpty = false := by
        obtain ⟨v, hl, _, _⟩ := hv s0 (by rw [hs0]; exact List.mem_cons_self ..)
        cases vs with
        | nil => simp [lookupVerifier] at hl
        | cons _ _ => rfl
      have hsigne : sigs'.isEmpty = false := by
        have := h6.length_eq
        cases sigs' with
        | nil => rw [hs0] at this; simp at this
        | cons _ _ => rfl
      unfold verifySign
      simp only [hvne, Bool.false_eq_true, if_false, hsigne]
      exact verify_list vs ext _ _ rfl rfl signers sigs' h6 hv

/-! ### when does a verifier set serve the signers?  Counterpart keys with pairwise different kids -/

theorem serves_of_distinct_kids (pairs : List (Signer × Verifier))
    (hk : ∀ p ∈ pairs, p.2.key.kid.getD [] = p.1.key.kid.getD [] ∧ p.2.key.alg = p.1.key.alg ∧ SigCorrect p.1.sign p.2.verify)
    (hd : (pairs.map (fun p => p.1.key.kid.getD [])).Nodup) :
    ∀ p ∈ pairs, Serves (pairs.map (·.2)) p.1 := by
  induction pairs with
  | nil => intro p hp; cases hp
  | cons q rest ih =>
    intro p hp
    obtain ⟨hq1, hq2, hq3⟩ := hk q (List.mem_cons_self ..)
    rcases List.mem_cons.mp hp with rfl | hin
    · refine ⟨p.2, ?_, hq2, hq3⟩
      simp [lookupVerifier, List.find?, hq1]
    · have hdr : (rest.map (fun p => p.1.key.kid.getD [])).Nodup := (List.nodup_cons.mp hd).2
      obtain ⟨v, hl, ha, hc⟩ := ih (fun x hx => hk x (List.mem_cons_of_mem _ hx)) hdr p hin
      refine ⟨v, ?_, ha, hc⟩
      have hne : (q.2.key.kid.getD [] == p.1.key.kid.getD []) = false := by
        have hnotin := (List.nodup_cons.mp hd).1
        have : q.1.key.kid.getD [] ≠ p.1.key.kid.getD [] := by
          intro he
          apply hnotin
          show q.1.key.kid.getD [] ∈ _
          rw [he]
          exact List.mem_map.mpr ⟨p, hin, rfl⟩
        rw [hq1]; simpa using this
      unfold lookupVerifier at hl ⊢
      simp only [List.map_cons, List.find?_cons, hne]
      exact hl

/-- corollary: signers and their counterpart verifiers with pairwise different kids -/
theorem sign_roundtrip_distinct_kids (payload ext : Option Bytes) (pairs : List (Signer × Verifier))
    (hs : ∀ p ∈ pairs, SignerOk p.1)
    (hk : ∀ p ∈ pairs, p.2.key.kid.getD [] = p.1.key.kid.getD [] ∧ p.2.key.alg = p.1.key.alg ∧ SigCorrect p.1.sign p.2.verify)
    (hd : (pairs.map (fun p => p.1.key.kid.getD [])).Nodup) (hn : pairs.length ≤ maxElems)
    (m1 : Msg) (h : produceSign ⟨.sign, none, none, .bytes payload, none⟩ (pairs.map (·.1)) ext = .ok m1)
    (w : Wire) (hw : m1.mm = some w)
    (hpl : ∀ x, payload = some x → x.length < two64)
    (hsl : ∀ so ∈ w.sigs.getD [], ∀ x, so.signature = some x → x.length < two64) :
    ∃ bytes m2, marshal .sign w = some bytes ∧ unmarshal .sign .raw bytes = .ok m2 ∧
      m2.payload = .bytes (nonEmpty payload) ∧ verifySign m2 (pairs.map (·.2)) ext = .ok () := by
  have hserve := serves_of_distinct_kids pairs hk hd
  obtain ⟨bytes, m2, _, h1, h2, _, _, _, _, h7, h8⟩ :=
    sign_roundtrip payload ext (pairs.map (·.1)) (pairs.map (·.2))
      (fun s hs' => by obtain ⟨p, hp, rfl⟩ := List.mem_map.mp hs'; exact hs p hp)
      (fun s hs' => by obtain ⟨p, hp, rfl⟩ := List.mem_map.mp hs'; exact hserve p hp)
      (by simpa using hn) m1 h w hw hpl hsl
  exact ⟨bytes, m2, h1, h2, h7, h8⟩

/-! ### non-vacuity: two concrete signers (a toy scheme whose "signature" is the data) with their verifiers -/

def toySign (k : UInt8) : Bytes → Res Bytes := fun d => .ok (k :: d)
def toyVerify (k : UInt8) : Bytes → Bytes → Res Unit := fun d s => if s == k :: d then .ok () else .err "bad"
def toyPairs : List (Signer × Verifier) :=
  [(⟨⟨-7, some [1], .ok none⟩, toySign 1⟩, ⟨⟨-7, some [1], .ok none⟩, toyVerify 1⟩),
   (⟨⟨-8, some [2, 2], .ok none⟩, toySign 2⟩, ⟨⟨-8, some [2, 2], .ok none⟩, toyVerify 2⟩)]

theorem toy_correct (k : UInt8) : SigCorrect (toySign k) (toyVerify k) := by
  intro d s h
  simp only [toySign, Res.ok.injEq] at h
  simp [toyVerify, h]

example : (∀ p ∈ toyPairs, SignerOk p.1) ∧
    (∀ p ∈ toyPairs, p.2.key.kid.getD [] = p.1.key.kid.getD [] ∧ p.2.key.alg = p.1.key.alg ∧ SigCorrect p.1.sign p.2.verify) ∧
    (toyPairs.map (fun p => p.1.key.kid.getD [])).Nodup ∧
    (match produceSign ⟨.sign, none, none, .bytes (some [9, 9]), none⟩ (toyPairs.map (·.1)) none with
     | .ok m => (m.mm.bind (·.sigs)).map List.length == some 2 | _ => false) = true := by
  refine ⟨?_, ?_, by decide, by decide +kernel⟩
  · intro p hp
    simp only [toyPairs, List.mem_cons, List.not_mem_nil, or_false] at hp
    rcases hp with rfl | rfl <;> exact ⟨by decide, by intro kid h; cases h; simp [two64]⟩
  · intro p hp
    simp only [toyPairs, List.mem_cons, List.not_mem_nil, or_false] at hp
    rcases hp with rfl | rfl <;> exact ⟨rfl, rfl, toy_correct _⟩

end Cose.Props.C01Sign
