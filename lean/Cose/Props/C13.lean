import Cose.Key.Prims
import Cose.Crypto.ConstructionLemmas
import Cose.Key.HkdfReader
/-!
# C13 — HKDF-SHA and HKDF-AES derive exactly the RFC 5869 / RFC 9053 output

`Cose.Crypto.hkdf*` is RFC 5869 written over an arbitrary PRF; HKDF-SHA-256/512 instantiate it with HMAC,
HKDF-AES-128/256 with the library's own AES-CBC-MAC (zero IV, zero padding only when unaligned — the same
`cbcMacFull` as C11).  The prefix property and the 255-block limit are proved for every PRF.  The Go reader
`aesHKDF` (uint8 counter, leftover buffer) is modelled as `AesHkdf.read`; `reader_chunking_limit` /
`reader_chunking_value` prove, by an invariant over every history of reads (`Cose.Key.HkdfReader`), that any
chunking hands out exactly the one-shot output and stops at 255 blocks.  Equality of the library's bytes with
these definitions (one-shot, and per chunk for generated chunkings incl. those that cross the limit) is the
correspondence `prim.hkdf*`.
-/
namespace Cose.Props.C13
open Cose.Key Cose.Crypto

theorem aesPrf_length (E : Bytes → Bytes) (hE : ∀ b, (E b).length = 16) : ∀ k m, (aesPrf E k m).length = 16 :=
  aesPrf_len E hE

/-- **HKDF-AES: shorter output is a prefix of longer output** (every AES key, info and pair of lengths) -/
theorem hkdfAes_prefix (E : Bytes → Bytes) (hE : ∀ b, (E b).length = 16) (info : Bytes) (l l' : Nat)
    (h : l ≤ l') (hmax : l' ≤ 4080) :
    hkdfAesSpec E info l = (hkdfAesSpec E info l').map (·.take l) :=
  hkdfExpand_prefix (aesPrf E) 16 (by omega) (aesPrf_length E hE) [] info l l' h (by omega)

/-- **HKDF-AES: up to 255 blocks (4080 bytes) succeed, anything longer is an error** -/
theorem hkdfAes_limit (E : Bytes → Bytes) (info : Bytes) (l : Nat) :
    (hkdfAesSpec E info l).isSome = decide (l ≤ 4080) :=
  hkdfExpand_limit (aesPrf E) 16 [] info l

theorem hkdfAes_length (E : Bytes → Bytes) (hE : ∀ b, (E b).length = 16) (info : Bytes) (l : Nat) (out : Bytes)
    (h : hkdfAesSpec E info l = some out) : out.length = l :=
  hkdfExpand_length (aesPrf E) 16 (by omega) (aesPrf_length E hE) [] info l out h

/-- the PRF input is padded only when unaligned: `info` lengths ≡ 15 (mod 16) add no block -/
theorem hkdfAes_block_no_extra_padding (E : Bytes → Bytes) (prev info : Bytes) (c : UInt8)
    (h : (prev ++ info ++ [c]).length % 16 = 0) :
    cbcMacFull E (prev ++ info ++ [c]) =
      cbcChain E ((prev ++ info ++ [c]).length / 16) (zeros 16) (prev ++ info ++ [c]) := by
  unfold cbcMacFull; rw [zpad16_aligned _ h]

/-- **HKDF-SHA-256 / SHA-512 prefix and limit**, given the hashes' nominal output lengths -/
theorem hkdf256_prefix (hsha : ∀ m, (sha256 m).length = 32) (secret salt info : Bytes) (l l' : Nat)
    (h : l ≤ l') (hmax : l' ≤ 255 * 32) :
    hkdf256 secret salt info l = (hkdf256 secret salt info l').map (·.take l) := by
  unfold hkdf256 hkdf
  refine hkdfExpand_prefix _ 32 (by omega) ?_ _ info l l' h hmax
  intro k m; unfold hmac; exact hsha _

theorem hkdf512_prefix (hsha : ∀ m, (sha512 m).length = 64) (secret salt info : Bytes) (l l' : Nat)
    (h : l ≤ l') (hmax : l' ≤ 255 * 64) :
    hkdf512 secret salt info l = (hkdf512 secret salt info l').map (·.take l) := by
  unfold hkdf512 hkdf
  refine hkdfExpand_prefix _ 64 (by omega) ?_ _ info l l' h hmax
  intro k m; unfold hmac; exact hsha _

theorem hkdf256_limit (secret salt info : Bytes) (l : Nat) :
    (hkdf256 secret salt info l).isSome = decide (l ≤ 255 * 32) := by
  unfold hkdf256 hkdf; exact hkdfExpand_limit _ 32 _ info l

theorem hkdf512_limit (secret salt info : Bytes) (l : Nat) :
    (hkdf512 secret salt info l).isSome = decide (l ≤ 255 * 64) := by
  unfold hkdf512 hkdf; exact hkdfExpand_limit _ 64 _ info l

/-- the Go reader refuses a read that would pass 255 blocks from a fresh state -/
theorem reader_limit_fresh (E : Bytes → Bytes) (info : Bytes) (n : Nat) (h : n > 4080) :
    (AesHkdf.init info).read E n = none := by
  unfold AesHkdf.read AesHkdf.init
  have : ((255 : UInt8) - 1 + 1).toNat = 255 := by decide
  simp only [List.length_nil, this]
  have : 0 + 255 * 16 < n := by omega
  simp [this]

/-- **the Go reader under every chunking — limit**: a sequence of reads of sizes `ns` on a fresh reader succeeds
    iff the total is at most 255 blocks (4080 bytes); in particular a read after exactly 255 blocks were handed out
    fails, however the earlier reads were cut -/
theorem reader_chunking_limit (E : Bytes → Bytes) (hE : ∀ b, (E b).length = 16) (info : Bytes) (ns : List Nat) :
    (AesHkdf.reads E (AesHkdf.init info) ns).isSome = decide (ns.sum ≤ 4080) := by
  obtain ⟨hok, hbad⟩ := reads_from E info hE ns _ 0 0 (rinv_init E info)
  by_cases h : ns.sum ≤ 4080
  · obtain ⟨bs, hbs, _, _⟩ := hok (by omega)
    simp [hbs, h]
  · simp [hbad (by omega), h]

/-- **the Go reader under every chunking — value**: whenever a sequence of reads succeeds, each chunk has the
    requested length and their concatenation is the one-shot RFC 9053 HKDF-AES output of the total length -/
theorem reader_chunking_value (E : Bytes → Bytes) (hE : ∀ b, (E b).length = 16) (info : Bytes) (ns : List Nat)
    (bs : List Bytes) (h : AesHkdf.reads E (AesHkdf.init info) ns = some bs) :
    some bs.flatten = hkdfAesSpec E info ns.sum ∧ bs.map List.length = ns := by
  obtain ⟨hok, hbad⟩ := reads_from E info hE ns _ 0 0 (rinv_init E info)
  by_cases ht : ns.sum ≤ 4080
  · obtain ⟨bs', hbs, hflat, hlen⟩ := hok (by omega)
    rw [hbs] at h
    cases h
    rw [hkdfAesSpec_eq_take E info hE _ ht, hflat]
    exact ⟨rfl, hlen⟩
  · rw [hbad (by omega)] at h; cases h

/-- the one-shot entry point is the single-read case -/
theorem reader_single_read (E : Bytes → Bytes) (hE : ∀ b, (E b).length = 16) (info : Bytes) (n : Nat) :
    ((AesHkdf.init info).read E n).map (·.1) = hkdfAesSpec E info n := by
  by_cases h : n ≤ 4080
  · obtain ⟨s', g', hr, _⟩ := read_ok E info hE (rinv_init E info) n (by omega)
    rw [hr, hkdfAesSpec_eq_take E info hE _ h]; simp
  · rw [read_refused E info hE (rinv_init E info) n (by omega)]
    have := hkdfAes_limit E info n
    cases hs : hkdfAesSpec E info n with
    | none => rfl
    | some v => rw [hs] at this; simp at this; omega

-- tests, labelled as tests: RFC 5869 A.1 (HKDF-SHA-256) first bytes, and a chunked read equals a one-shot read
#guard (hkdf256 (List.replicate 22 0x0b) [0,1,2,3,4,5,6,7,8,9,10,11,12] [0xf0,0xf1,0xf2,0xf3,0xf4,0xf5,0xf6,0xf7,0xf8,0xf9] 42).map (·.take 4)
  == some [0x3c, 0xb2, 0x5f, 0x25]
#guard match aesE (zeros 16) with
  | some E => (AesHkdf.reads E (AesHkdf.init [1,2,3]) [5, 16, 0, 30]).map List.flatten == hkdfAesSpec E [1,2,3] 51
  | none => false

end Cose.Props.C13
