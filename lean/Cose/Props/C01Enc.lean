import Cose.Props.C01
import Cose.Props.C12
/-!
# C01, COSE_Encrypt0 — a produced message decrypts to the original payload

`enc0_roundtrip`: for every payload, external data, key, unprotected map (scalar / list values, any entry order) and
whichever way the nonce was chosen (caller's IV, Partial IV with the key's Base IV, or the library's random nonce
published in header 5), the bytes `EncryptAndEncode` emits are decoded by `UnmarshalCBOR` and `Decrypt` returns the
original payload, given only that the AEAD opens what it sealed (`AeadCorrect`; proved for the three AEAD models in C12:
`ccm_roundtrip`, `gcm_roundtrip`, `chacha_roundtrip`).
-/
namespace Cose.Props.C01
open Cose.Msg Cose.Go Cose.Cbor Cose.Gen

/-- the AEAD opens what it sealed -/
def AeadCorrect (e : Encryptor) : Prop :=
  ∀ iv pt aad ct, e.encrypt iv pt aad = .ok ct → e.decrypt iv ct aad = .ok pt

/-- the nonce logic looks at the unprotected map only through `GetBytes` of the IV and Partial IV labels -/
theorem selectNonce_congr (u u' : CMap) (key : KeyView) (n : Nat)
    (h1 : getBytes (u'.lookup (Msg.lbl Iana.HeaderParameterIV)) = getBytes (u.lookup (Msg.lbl Iana.HeaderParameterIV)))
    (h2 : getBytes (u'.lookup (Msg.lbl Iana.HeaderParameterPartialIV)) = getBytes (u.lookup (Msg.lbl Iana.HeaderParameterPartialIV))) :
    selectNonce u' key n = selectNonce u key n := by
  unfold selectNonce; rw [h1, h2]

/-- decoding what `MarshalCBOR` emits for a COSE_Encrypt0 wire struct -/
theorem enc0_decode (pb ct : Bytes) (fm : CMap) (mode : PMode)
    (hok : ∀ kv ∈ fm, EntryOk kv) (hnd : (fm.map (·.1)).Nodup) (hlen : fm.length ≤ maxElems)
    (hpb : pb.length < two64) (hct : ct.length < two64) (pm : CMap) (hpm : hdrFromBytes (some pb) = .ok pm) :
    ∃ bytes uh, marshal .encrypt0 { prot := some pb, unprot := some fm, payload := some ct } = some bytes ∧
      unmarshal .encrypt0 mode bytes =
        .ok ⟨.encrypt0, some pm, some uh, zeroPayload mode, some { prot := some pb, unprot := some uh, payload := some ct }⟩ ∧
      ∀ l, uh.lookup l = (fm.lookup l).map normV := by
  have hp := sortM_perm fm
  have hok' : ∀ kv ∈ sortM fm, EntryOk kv := fun kv hh => hok kv (hp.subset hh)
  obtain ⟨hwf, hdepth⟩ := sorted_entries_wf fm hok hnd hlen
  obtain ⟨_, _, _, hof, hcm⟩ := entries_wf (sortM fm) hok'
  have hnd_enc : ((encodePairs (fm.map entryCbor)).map (·.1)).Nodup := by
    rw [map_entryCbor_keys]; exact encoded_labels_nodup fm (fun kv hh => (hok kv hh).1) hnd
  have henc : encode (.map (fm.map entryCbor)) = encode (.map ((sortM fm).map entryCbor)) :=
    encode_map_perm (hp.symm.map entryCbor) hnd_enc
  have huf : hdrField (.map ((sortM fm).map entryCbor)) = .ok (some ((sortM fm).map entryNorm)) := by
    simp only [hdrField, untag, hof, hcm]
  -- the wire array, as emitted and in canonical entry order
  have hwc : wireCbor .encrypt0 { prot := some pb, unprot := some fm, payload := some ct } =
      some (.arr [.bstr pb, .map (fm.map entryCbor), .bstr ct]) := by
    simp only [wireCbor, hdrCbor, CMap.toCbor, cmapPairs_eq fm hok, Option.map_some, bytesCbor, List.cons_append, List.nil_append]
  have henc3 : encode (.tag Kind.encrypt0.tagNum (.arr [.bstr pb, .map (fm.map entryCbor), .bstr ct])) =
      encode (.tag Kind.encrypt0.tagNum (.arr [.bstr pb, .map ((sortM fm).map entryCbor), .bstr ct])) := by
    have e1 : ∀ u, encode (.tag Kind.encrypt0.tagNum (.arr [.bstr pb, u, .bstr ct])) =
        head 6 Kind.encrypt0.tagNum ++ (head 4 3 ++ (encode (.bstr pb) ++ (encode u ++ (encode (.bstr ct) ++ [])))) := by
      intro u; simp only [encode, encodeList, List.length_cons, List.length_nil]
    rw [e1, e1, henc]
  have hwfarr : WF (.arr [.bstr pb, .map ((sortM fm).map entryCbor), .bstr ct]) := by
    simp only [WF, WFList, maxElems, List.length_cons, List.length_nil]
    exact ⟨by omega, hpb, hwf, hct, trivial⟩
  have hdarr : depth (.arr [.bstr pb, .map ((sortM fm).map entryCbor), .bstr ct]) < maxNesting := by
    have : depth (.arr [.bstr pb, .map ((sortM fm).map entryCbor), .bstr ct]) ≤ 3 := by
      simp only [depth, depthList] at hdepth ⊢; omega
    unfold maxNesting; omega
  obtain ⟨c, hc1, hc2⟩ := decode_marshalled .encrypt0 _ hwfarr hdarr
  refine ⟨encode (.tag Kind.encrypt0.tagNum (.arr [.bstr pb, .map (fm.map entryCbor), .bstr ct])), (sortM fm).map entryNorm,
    by unfold marshal; rw [hwc]; rfl, ?_, fun l => by rw [lookup_entryNorm, lookup_perm hp hnd]⟩
  have hwire : wireOfCbor .encrypt0 c = .ok { prot := some pb, unprot := some ((sortM fm).map entryNorm), payload := some ct } := by
    rw [wireOfCbor_untag, hc2]
    show wireOfCbor .encrypt0 (.arr [bytesCbor (some pb), _, bytesCbor (some ct)]) = _
    rw [wire3_fields, huf]
  unfold unmarshal
  rw [henc3, hc1]
  have hrr : recipientsRawOk .encrypt0 (applyStrip (encode (.tag Kind.encrypt0.tagNum
      (.arr [.bstr pb, .map ((sortM fm).map entryCbor), .bstr ct]))) (stripSteps .encrypt0)) = true := by
    simp [recipientsRawOk]
  simp only [hrr, hwire, Bool.not_true, Bool.false_eq_true, if_false, hpm]
  rfl

/-! ## what `Encrypt` did -/

theorem lookup_append_ne (m : CMap) (l l' : Label) (v : GoVal) (h : l ≠ l') :
    CMap.lookup (m ++ [(l, v)]) l' = CMap.lookup m l' := by
  induction m with
  | nil => rw [List.nil_append, lookup_cons_ne h]
  | cons kv r ih =>
    obtain ⟨k, w⟩ := kv
    by_cases hk : k = l'
    · subst hk; rw [List.cons_append, lookup_cons_self, lookup_cons_self]
    · rw [List.cons_append, lookup_cons_ne hk, lookup_cons_ne hk, ih]

theorem lookup_map_set_ne (m : CMap) (l l' : Label) (v : GoVal) (h : l ≠ l') :
    CMap.lookup (m.map (fun kv => if kv.1 == l then (l, v) else kv)) l' = CMap.lookup m l' := by
  induction m with
  | nil => rfl
  | cons kv r ih =>
    obtain ⟨k, w⟩ := kv
    by_cases hkl : k = l
    · subst hkl
      have : ((k, w).1 == k) = true := by simp
      simp only [List.map_cons, this, if_true]
      rw [lookup_cons_ne h, lookup_cons_ne h, ih]
    · have : ((k, w).1 == l) = false := by simpa using hkl
      simp only [List.map_cons, this, Bool.false_eq_true, if_false]
      by_cases hk : k = l'
      · subst hk; rw [lookup_cons_self, lookup_cons_self]
      · rw [lookup_cons_ne hk, lookup_cons_ne hk, ih]

theorem lookup_set_other (m : CMap) (l l' : Label) (v : GoVal) (h : l ≠ l') : (m.set l v).lookup l' = m.lookup l' := by
  unfold CMap.set
  split
  · exact lookup_map_set_ne m l l' v h
  · exact lookup_append_ne m l l' v h

theorem lookup_set_self (m : CMap) (l : Label) (v : GoVal) : (m.set l v).lookup l = some v := by
  unfold CMap.set
  split
  · rename_i hh
    induction m with
    | nil => simp [CMap.has, CMap.lookup] at hh
    | cons kv r ih =>
      obtain ⟨k, w⟩ := kv
      by_cases hkl : k = l
      · subst hkl
        have : ((k, w).1 == k) = true := by simp
        simp only [List.map_cons, this, if_true]
        exact lookup_cons_self _ _ _
      · have : ((k, w).1 == l) = false := by simpa using hkl
        simp only [List.map_cons, this, Bool.false_eq_true, if_false]
        rw [lookup_cons_ne hkl]
        apply ih
        simpa [CMap.has, lookup_cons_ne hkl] using hh
  · rename_i hh
    induction m with
    | nil => exact lookup_cons_self _ _ _
    | cons kv r ih =>
      obtain ⟨k, w⟩ := kv
      by_cases hkl : k = l
      · subst hkl; simp [CMap.has, lookup_cons_self] at hh
      · rw [List.cons_append, lookup_cons_ne hkl]
        apply ih
        simpa [CMap.has, lookup_cons_ne hkl] using hh

/-- a library-chosen nonce is what `Decrypt` will select from the published header -/
theorem selectNonce_after_publish (u : CMap) (key : KeyView) (n : Nat) (rnd : Bytes) (hr : rnd ≠ [])
    (h : selectNonce u key n = .ok .random) :
    selectNonce (u.set (Msg.lbl Iana.HeaderParameterIV) (.bytes rnd)) key n = .ok (.given rnd) := by
  have hne : Msg.lbl Iana.HeaderParameterIV ≠ Msg.lbl Iana.HeaderParameterPartialIV := by decide
  unfold selectNonce at h ⊢
  rw [lookup_set_self, lookup_set_other _ _ _ _ hne]
  cases hiv : getBytes (u.lookup (Msg.lbl Iana.HeaderParameterIV)) <;>
    cases hpiv : getBytes (u.lookup (Msg.lbl Iana.HeaderParameterPartialIV)) <;>
    simp only [hiv, hpiv] at h <;> try (cases h; done)
  rename_i iv piv
  simp only [getBytes, Option.getD_some]
  by_cases hp : (piv.getD []).length > 0
  · simp only [hp, if_true] at h
    split at h
    · cases h
    · split at h
      · cases h
      · split at h
        · split at h
          · cases h
          · split at h <;> cases h
        · cases h
        · cases h
  · simp only [hp, if_false]
    cases rnd with
    | nil => exact absurd rfl hr
    | cons a r => simp

theorem getBytes_lookup_norm (fm uh : CMap) (hok : ∀ kv ∈ fm, EntryOk kv) (hnd : (fm.map (·.1)).Nodup)
    (hl : ∀ l, uh.lookup l = (fm.lookup l).map normV) (l : Label) (hn : fm.lookup l ≠ some .bnil) :
    getBytes (uh.lookup l) = getBytes (fm.lookup l) := by
  rw [hl l]
  cases h : fm.lookup l with
  | none => rfl
  | some v =>
    have hf : Flat v := (hok (l, v) ((lookup_eq_some_iff fm l v hnd).mp h)).2
    exact getBytes_normV hf (fun e => hn (by rw [h, e]))

/-- **COSE_Encrypt0 round trip**: what `Encrypt` + `MarshalCBOR` produce, `UnmarshalCBOR` + `Decrypt` turn back into the
    original payload — for every payload, external data, key, unprotected map with scalar / list values in any entry
    order, and every way of choosing the nonce (caller's IV, Partial IV, or the library's random nonce `rnd`). -/
theorem enc0_roundtrip (payload ext : Option Bytes) (unprot : Hdr) (e : Encryptor) (rnd : Bytes)
    (hcorr : AeadCorrect e) (hrnd : rnd ≠ []) (ha : e.key.alg ≠ 0)
    (har : -2147483648 ≤ e.key.alg ∧ e.key.alg ≤ 2147483647)
    (m1 : Msg) (h : produceEnc ⟨.encrypt0, none, unprot, .bytes payload, none⟩ e ext rnd = .ok m1)
    (w : Wire) (hw : m1.mm = some w) (fm : CMap) (hfm : w.unprot = some fm)
    (hok : ∀ kv ∈ fm, EntryOk kv) (hnd : (fm.map (·.1)).Nodup) (hlen : fm.length ≤ maxElems)
    (hiv : fm.lookup (Msg.lbl Iana.HeaderParameterIV) ≠ some .bnil)
    (hpiv : fm.lookup (Msg.lbl Iana.HeaderParameterPartialIV) ≠ some .bnil)
    (hcl : ∀ x, w.payload = some x → x.length < two64) :
    ∃ bytes m2, marshal .encrypt0 w = some bytes ∧ unmarshal .encrypt0 .raw bytes = .ok m2 ∧
      decryptEnc m2 .raw e ext = .ok (.bytes (nonEmpty payload)) := by
  unfold produceEnc at h
  have hfp : fillProtected none e.key = .ok [(Msg.lbl Iana.HeaderParameterAlg, .int .alg e.key.alg)] :=
    Cose.Props.C05.default_protected_records_alg e.key ha
  simp only [hfp] at h
  -- the nonce choice; in both cases `Decrypt` will select the same nonce from the final unprotected map
  have key : ∃ iv fm' pb aad ct, w = { prot := some pb, unprot := some fm', payload := some ct } ∧
      pb = encode (.map [(Cbor.ofInt 1, Cbor.ofInt e.key.alg)]) ∧
      tobe .encrypt0 { prot := some pb, unprot := some fm', payload := none } none ext = .ok aad ∧
      e.encrypt iv (payload.getD []) aad = .ok ct ∧
      selectNonce fm' e.key e.nonceSize = .ok (.given iv) := by
    obtain ⟨u0, hu0⟩ : ∃ u0, u0 = fillUnprotected unprot e.key := ⟨_, rfl⟩
    rw [← hu0] at h
    cases hsel : selectNonce u0 e.key e.nonceSize with
    | err er => simp [hsel] at h
    | panic er => simp [hsel] at h
    | ok choice =>
      simp only [hsel, default_bucket_bytes e.key.alg ha, payloadToWire] at h
      obtain ⟨pb0, hpb0⟩ : ∃ pb0, pb0 = encode (Cbor.map [(Cbor.ofInt 1, Cbor.ofInt e.key.alg)]) := ⟨_, rfl⟩
      rw [← hpb0] at h
      cases choice with
      | given iv =>
        simp only at h
        cases htb : tobe .encrypt0 { prot := some pb0, unprot := some u0, payload := none } none ext with
        | err er => simp [htb] at h
        | panic er => simp [htb] at h
        | ok aad =>
          simp only [htb] at h
          cases henc : e.encrypt iv (payload.getD []) aad with
          | err er => simp [henc] at h
          | panic er => simp [henc] at h
          | ok ct =>
            simp only [henc, Res.ok.injEq] at h
            subst h
            simp only [Option.some.injEq] at hw
            exact ⟨iv, u0, pb0, aad, ct, hw.symm, hpb0, htb, henc, hsel⟩
      | random =>
        simp only at h
        obtain ⟨u1, hu1⟩ : ∃ u1, u1 = u0.set (Msg.lbl Iana.HeaderParameterIV) (.bytes rnd) := ⟨_, rfl⟩
        rw [← hu1] at h
        cases htb : tobe .encrypt0 { prot := some pb0, unprot := some u1, payload := none } none ext with
        | err er => simp [htb] at h
        | panic er => simp [htb] at h
        | ok aad =>
          simp only [htb] at h
          cases henc : e.encrypt rnd (payload.getD []) aad with
          | err er => simp [henc] at h
          | panic er => simp [henc] at h
          | ok ct =>
            simp only [henc, Res.ok.injEq] at h
            subst h
            simp only [Option.some.injEq] at hw
            exact ⟨rnd, u1, pb0, aad, ct, hw.symm, hpb0, htb, henc, by rw [hu1]; exact selectNonce_after_publish _ _ _ _ hrnd hsel⟩
  obtain ⟨iv, fm', pb, aad, ct, hwe, hpb, htb, henc, hsel2⟩ := key
  subst hwe
  simp only [Option.some.injEq] at hfm
  subst hfm
  obtain ⟨pm, hpm, hmm⟩ := default_bucket_roundtrip e.key.alg har
  rw [← hpb] at hpm
  have hpbl : pb.length < two64 := by
    rw [hpb, ofInt_one]
    have : ∀ c, (encode c).length ≤ 9 → (encode (.map [(.uint 1, c)])).length < two64 := by
      intro c hc
      simp only [encode, encodePairs, List.length_append, flattenPairs, List.length_nil]
      have h1 := head_shortest 5 1
      have h2 := head_shortest 0 1
      simp at h1 h2
      simp [flattenPairs, h1, h2, two64]; omega
    apply this
    unfold Cbor.ofInt
    split <;> (simp only [encode]; rw [head_shortest]; split <;> (try split) <;> (try split) <;> (try split) <;> omega)
  obtain ⟨bytes, uh, hmar, hun, hlook⟩ := enc0_decode pb ct fm' .raw hok hnd hlen hpbl (hcl ct rfl) pm hpm
  refine ⟨bytes, _, hmar, hun, ?_⟩
  -- decryption
  have hs : selectNonce uh e.key e.nonceSize = .ok (.given iv) := by
    rw [selectNonce_congr fm' uh e.key e.nonceSize
      (getBytes_lookup_norm fm' uh hok hnd hlook _ hiv) (getBytes_lookup_norm fm' uh hok hnd hlook _ hpiv)]
    exact hsel2
  have htb2 : tobe .encrypt0 { prot := some pb, unprot := some uh, payload := none } none ext = .ok aad := by
    rw [← htb]; unfold tobe; rfl
  unfold decryptEnc
  simp only [Option.getD_some, hmm, Bool.false_eq_true, if_false, htb2, hs, NonceChoice.ivOrEmpty,
    hcorr iv _ aad ct henc]
  cases payload with
  | none => rfl
  | some l => cases l <;> rfl


/-! ## the three AEAD models satisfy `AeadCorrect` (C12), so `enc0_roundtrip` has no cryptographic hypothesis left
for them -/

theorem gcm_encryptor_correct (kv : KeyView) (key : Bytes) :
    AeadCorrect ⟨kv, Cose.Key.gcmNonceSize, Cose.Key.gcmEncrypt key, Cose.Key.gcmDecrypt key⟩ :=
  fun iv pt aad ct h => (Cose.Props.C12.gcm_roundtrip key iv pt aad ct h).1

theorem chacha_encryptor_correct (kv : KeyView) (key : Bytes) :
    AeadCorrect ⟨kv, Cose.Key.chachaNonceSize, Cose.Key.chachaEncrypt key, Cose.Key.chachaDecrypt key⟩ :=
  fun iv pt aad ct h => (Cose.Props.C12.chacha_roundtrip key iv pt aad ct h).1

theorem ccm_encryptor_correct (kv : KeyView) (alg : Int) (halg : alg ∈ Cose.Props.C12.rfcCcm.map (·.1)) (key : Bytes) :
    AeadCorrect ⟨kv, Cose.Key.ccmNonceSize alg, Cose.Key.ccmEncrypt alg key, Cose.Key.ccmDecrypt alg key⟩ :=
  fun iv pt aad ct h => (Cose.Props.C12.ccm_roundtrip alg halg key iv pt aad ct h).1

end Cose.Props.C01
