import Cose.Spec.PanicSites
import Cose.Props.C03
import Cose.Props.C06
import Cose.Props.C14
import Cose.Key.Impl
/-!
# C07 — no input makes a decoding, verification, key or crypto entry point panic

Three layers:
1. `panic_sites_accounted` — the inventory of panic-capable sites regenerated from the source equals the accounted
   table (`Spec/PanicSites.lean`, with the reason for each kind): a new slicing expression, unchecked assertion,
   pointer-element dereference, `panic`, or call to an external with a panicking precondition breaks it;
2. the model makes panics explicit (`Res.panic`) wherever library code can panic (slice bounds in `xorIV`, empty
   AES-MAC input, over-long CCM plaintext, invalid reflect value, nil pointer elements) and the theorems below
   show no modelled entry point reaches one, for every input; decoders are total functions into `Dec`
   (ok / err / outside-the-model), they have no panic outcome at all;
3. every correspondence op runs under `recover` in the harness: a panic on the real code is an answer the model
   never gives, hence a reported violation; the C07 run is the malformed stream over all families
   (messages of all kinds, maps, keys, key sets, recipients, KDF contexts, claims, primitives with
   arguments of any length) plus a program that links no hash package (D15).
Partial: fxamacker and Go crypto are assumed panic-free and resource-linear on their documented domains.
-/
namespace Cose.Props.C07
open Cose.Go Cose.Key Cose.Msg

theorem panic_sites_accounted :
    Cose.Gen.PanicSites.panicSites = Cose.Spec.PanicSites.expectedPanicSites := by decide +kernel

/-- **bounded work per input** (the part of "time and memory proportional to the input" that is configuration): the shared
    decoder keeps fxamacker's default limits — the options literal in `key/cbor.go` sets nothing but duplicate-key
    enforcement and the ban on indefinite lengths, so nesting stays at 32 levels and arrays / maps at 131072 entries
    (the model's `maxNesting`, `maxElems`; checked against the library at the limit by the `cbor` family).  Raising
    `MaxNestedLevels` makes `Recipient.UnmarshalCBOR`, which re-decodes each nesting level, quadratic. -/
theorem decoder_limits_are_defaults :
    (Cose.Gen.Layouts.cborOptions.lookup "decOpts").map (fun o => o.map (·.1)) = some ["DupMapKey", "IndefLength"] ∧
    Cose.Cbor.maxNesting = 32 ∧ Cose.Cbor.maxElems = 131072 := by decide +kernel

/-- typed accessors never panic (a nil value is an error since the D5 fix) -/
theorem accessors_never_panic (v : Option GoVal) :
    (getInt v).isPanic = false ∧ (getInt64 v).isPanic = false ∧ (getUint64 v).isPanic = false ∧
    (getBytes v).isPanic = false ∧ (getBool v).isPanic = false ∧ (getString v).isPanic = false := by
  refine ⟨?_, ?_, ?_, ?_, ?_, ?_⟩ <;>
  · cases v with
    | none => rfl
    | some x =>
      cases x <;> (simp only [getInt, toInt, getInt64, getUint64, getBytes, getBool, getString]) <;>
        repeat' (first | split | rfl)

theorem toInt_never_panics (v : GoVal) : (toInt v).isPanic = false := by
  cases v <;> simp only [toInt] <;> repeat' (first | split | rfl)

theorem checkKey_never_panics (v : GoVal) : (checkKey v).isPanic = false := by
  cases v <;> simp only [checkKey] <;> repeat' (first | split | rfl)

/-- obtaining an implementation from any key never panics -/
theorem newSym_never_panics (kind : String) (k : Option Key) : (newSym kind k).isPanic = false := by
  unfold newSym
  repeat' (first | split | rfl)

theorem aesmacCreate_never_panics (alg : Int) (key data : Bytes) : (aesmacCreate alg key data).isPanic = false := by
  unfold aesmacCreate
  repeat' (first | split | rfl)

/-- MAC operations on data of any length (incl. empty) never panic -/
theorem mac_never_panics (m : SymImpl) (cur : Option (List Int)) (data mac : Bytes) :
    (m.macCreate cur data).isPanic = false ∧ (m.macVerify cur data mac).isPanic = false := by
  have h := aesmacCreate_never_panics (alg m.key) (symKeyBytes m.key) data
  constructor
  · unfold SymImpl.macCreate
    repeat' (first | split | rfl | exact h)
  · unfold SymImpl.macVerify
    cases hc : aesmacCreate (alg m.key) (symKeyBytes m.key) data with
    | panic s => rw [hc] at h; simp [Res.isPanic] at h
    | ok t => repeat' (first | split | rfl | (rename_i hq; cases hq))
    | err e => repeat' (first | split | rfl | (rename_i hq; cases hq))

/-- AEAD operations with nonces, plaintexts and ciphertexts of any length never panic -/
theorem aead_never_panics (m : SymImpl) (cur : Option (List Int)) (iv x aad : Bytes) :
    (m.encrypt cur iv x aad).isPanic = false ∧ (m.decrypt cur iv x aad).isPanic = false := by
  have hc := Cose.Props.C12.ccm_never_panics (alg m.key) (symKeyBytes m.key) iv x aad
  constructor
  · unfold SymImpl.encrypt gcmEncrypt chachaEncrypt
    repeat' (first | split | rfl | exact hc.1)
  · unfold SymImpl.decrypt gcmDecrypt chachaDecrypt
    repeat' (first | split | rfl | exact hc.2)

/-- the to-be-authenticated bytes are always defined (the regenerated literals mention only known fields) -/
theorem tobe_never_panics (k : Kind) (w : Wire) (sp ext : Option Bytes) : (tobe k w sp ext).isPanic = false := by
  unfold tobe toBeBytes Kind.tb
  cases k <;> cases hp : w.prot <;> cases hy : w.payload <;> cases sp <;> cases ext <;> rfl

/-- nonce selection never panics (C06) and the ECDH exchange never panics (C14) — restated here -/
theorem nonce_and_ecdh_never_panic (u : CMap) (key : KeyView) (n : Nat) (hk : key.baseIV.isPanic = false)
    (k remote : Key) (cur : Option (List Int)) :
    (selectNonce u key n).isPanic = false ∧ (ecdhDerive k cur remote).isPanic = false :=
  ⟨Cose.Props.C06.selectNonce_never_panics u key n hk, Cose.Props.C14.ecdhDerive_never_panics k remote cur⟩

/-- verification of a single-signer / MAC message never panics when the primitive does not -/
theorem verifyAuth_never_panics (m : Msg) (key : KeyView) (check : Bytes → Bytes → Res Unit) (ext : Option Bytes)
    (hc : ∀ a b, (check a b).isPanic = false) : (verifyAuth m key check ext).isPanic = false := by
  unfold verifyAuth
  cases hw : m.mm with
  | none => rfl
  | some w =>
    simp only
    cases ha : w.auth with
    | none => rfl
    | some a =>
      simp only
      split
      · rfl
      · have ht := tobe_never_panics m.kind w none ext
        cases hh : tobe m.kind w none ext with
        | panic s => rw [hh] at ht; simp [Res.isPanic] at ht
        | err e => rfl
        | ok tb => exact hc tb a

end Cose.Props.C07
