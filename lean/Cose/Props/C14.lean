import Cose.Key.EcLemmas
/-!
# C14 — ECDH agreement is symmetric, encoding-independent and rejects bad points

Theorems (encoding logic): coordinates with or without leading zero octets denote the same point; a compressed
x is handled at the curve's length whatever its octet length; a private remote key, another curve's key, an
off-curve point are *errors*; `ECDH` never panics on any pair of keys.  Symmetry (`a·(b·G) = b·(a·G)`) is the
group law — assumed (DESIGN §8) and cross-checked against the Lean curve arithmetic by the spec op
`ecdh.symmetric` on thousands of pairs per curve incl. leading-zero coordinates and the low-order X25519 points.
-/
namespace Cose.Props.C14
open Cose.Key Cose.Crypto Cose.Go Cose.Gen

/-- the curve table of `ecdh.getCurve` in the source -/
theorem ecdh_curve_table :
    Tables.sw_key_ecdh_getCurve.srows =
      [(1, ["goecdh.P256()"]), (2, ["goecdh.P384()"]), (3, ["goecdh.P521()"]), (4, ["goecdh.X25519()"])] := by
  decide +kernel

/-- **leading zero octets do not matter**: a coordinate and its zero-padded form are the same integer -/
theorem coordinate_padding_irrelevant (n : Nat) (b : Bytes) : os2ip (List.replicate n 0 ++ b) = os2ip b :=
  os2ip_replicate_zero n b

/-- a compressed x is stripped of leading zeros before decompression at the curve length, so stripped and padded
    forms decompress alike -/
theorem compressed_x_padding_irrelevant (b : Bytes) : os2ip (stripZeros b) = os2ip b := os2ip_stripZeros b

/-- **a private remote key is refused** -/
theorem private_remote_refused (k remote : Key) (cur : Option (List Int))
    (h : remote.has (lbl Iana.EC2KeyParameterD) = true) : (ecdhDerive k cur remote).isOk = false := by
  unfold ecdhDerive
  simp only [h, if_true]
  repeat' (first | split | rfl)

/-- **never a panic**, whatever the two keys hold -/
theorem ecdhRemote_never_panics (pk : Key) : (ecdhRemote pk).isPanic = false := by
  unfold ecdhRemote
  simp only []
  repeat' (first | split | rfl)

theorem ecdhDerive_never_panics (k remote : Key) (cur : Option (List Int)) :
    (ecdhDerive k cur remote).isPanic = false := by
  have hr := ecdhRemote_never_panics remote
  unfold ecdhDerive
  simp only []
  cases hrr : ecdhRemote remote with
  | panic s => rw [hrr] at hr; simp [Res.isPanic] at hr
  | err e => repeat' (first | split | rfl | (rename_i hq _ _; cases hq) | (rename_i hq _; cases hq))
  | ok p => repeat' (first | split | rfl | (rename_i hq _ _; cases hq) | (rename_i hq _; cases hq))

-- a key of another curve is refused (test, labelled as a test: NIST local, NIST remote of a different field)
#guard !(ecdhDerive
    [(lbl 1, .int .int 2), (lbl (-1), .int .int 1), (lbl (-4), .bytes (fixedLen 32 7))] none
    [(lbl 1, .int .int 2), (lbl (-1), .int .int 2), (lbl (-2), .bytes (fixedLen 48 p384.gx)), (lbl (-3), .bytes (fixedLen 48 p384.gy))]).isOk

-- tests, labelled as tests: both directions agree on P-256 for two small scalars
#guard (ecdh p256 7 ((match scalarBaseMult p256 11 with | .affine x _ => x | .inf => 0)) ((match scalarBaseMult p256 11 with | .affine _ y => y | .inf => 0)))
    == (ecdh p256 11 ((match scalarBaseMult p256 7 with | .affine x _ => x | .inf => 0)) ((match scalarBaseMult p256 7 with | .affine _ y => y | .inf => 0)))

/-! ### which remote keys are refused, stated outright -/

/-- **an X25519 remote key must be exactly 32 octets**: shorter (truncated, stripped) or longer strings are refused,
    never padded or cut -/
theorem x25519_remote_wrong_length_refused (pk : Key) (crv : Int) (info : Nat) (x : Bytes)
    (hc : getInt (pk.lookup (lbl Iana.EC2KeyParameterCrv)) = .ok crv) (hx25519 : ecdhCurve crv = some (EcdhCurve.x25519, info))
    (hx : getB pk Iana.EC2KeyParameterX = some x) (hl : x.length ≠ 32) :
    ecdhRemote pk = .err "x-size" := by
  unfold ecdhRemote
  simp only [hc, hx25519, hx, Option.getD_some]
  have : (x.length == 32) = false := by simpa using hl
  simp [this]

/-- … and a 32-octet one is taken verbatim -/
theorem x25519_remote_verbatim (pk : Key) (crv : Int) (info : Nat) (x : Bytes)
    (hc : getInt (pk.lookup (lbl Iana.EC2KeyParameterCrv)) = .ok crv) (hx25519 : ecdhCurve crv = some (EcdhCurve.x25519, info))
    (hx : getB pk Iana.EC2KeyParameterX = some x) (hl : x.length = 32) :
    ecdhRemote pk = .ok (.x25519 x) := by
  unfold ecdhRemote
  simp only [hc, hx25519, hx, Option.getD_some, hl, BEq.rfl, if_true]

/-- **an uncompressed remote point off the curve is refused** -/
theorem off_curve_remote_refused (pk : Key) (crv : Int) (cv : Curve) (info : Nat) (x y : Bytes)
    (hc : getInt (pk.lookup (lbl Iana.EC2KeyParameterCrv)) = .ok crv) (hn : ecdhCurve crv = some (EcdhCurve.nist cv, info))
    (hx : getB pk Iana.EC2KeyParameterX = some x) (hy : getB pk Iana.EC2KeyParameterY = some y)
    (hoff : isOnCurve cv (os2ip x) (os2ip y) = false) :
    ecdhRemote pk = .err "not-on-curve" := by
  unfold ecdhRemote
  simp only [hc, hn, hx, hy, Option.getD_some, hoff, Bool.false_eq_true, if_false]

/-- **encoding independence of an uncompressed remote key**: two keys on the same curve whose coordinates are the same
    integers (fixed-length, stripped or over-padded octet strings) are the same remote point -/
theorem uncompressed_remote_encoding_independent (pk pk' : Key) (crv : Int) (cv : Curve) (info : Nat) (x y x' y' : Bytes)
    (hc : getInt (pk.lookup (lbl Iana.EC2KeyParameterCrv)) = .ok crv)
    (hc' : getInt (pk'.lookup (lbl Iana.EC2KeyParameterCrv)) = .ok crv)
    (hn : ecdhCurve crv = some (EcdhCurve.nist cv, info))
    (hx : getB pk Iana.EC2KeyParameterX = some x) (hy : getB pk Iana.EC2KeyParameterY = some y)
    (hx' : getB pk' Iana.EC2KeyParameterX = some x') (hy' : getB pk' Iana.EC2KeyParameterY = some y')
    (ex : os2ip x' = os2ip x) (ey : os2ip y' = os2ip y) :
    ecdhRemote pk' = ecdhRemote pk := by
  unfold ecdhRemote
  simp only [hc, hc', hn, hx, hy, hx', hy', Option.getD_some, ex, ey]

/-- **a remote point on another curve is refused** by a NIST-curve ECDHer, and an X25519 key by a NIST one and vice versa -/
theorem other_curve_remote_refused (k remote : Key) (cur : Option (List Int)) (rp : RemotePoint)
    (hr : ecdhRemote remote = .ok rp) (crv : Int) (c : EcdhCurve) (info : Nat)
    (hk : getInt (k.lookup (lbl Iana.EC2KeyParameterCrv)) = .ok crv) (hcv : ecdhCurve crv = some (c, info))
    (hmis : match rp, c with
      | RemotePoint.x25519 _, EcdhCurve.x25519 => False
      | RemotePoint.nist rc _ _, EcdhCurve.nist cv => rc.p ≠ cv.p
      | _, _ => True) :
    (ecdhDerive k cur remote).isOk = false := by
  unfold ecdhDerive
  simp only [hk, hcv, hr]
  cases rp <;> cases c <;> simp only at hmis <;>
    repeat' (first | split | rfl | (rename_i hq; simp_all) )

end Cose.Props.C14
