import Cose.Key.EcLemmas
/-!
# C14 — ECDH agreement is symmetric, encoding-independent and rejects bad points

Theorems (encoding logic): coordinates with or without leading zero octets denote the same point; a compressed
x is handled at the curve's length whatever its octet length; a private remote key, another curve's key, an
off-curve point are *errors*; `ECDH` never panics on any pair of keys.  Symmetry (`a·(b·G) = b·(a·G)`) is the
group law — assumed (DESIGN §8) and cross-checked against the Lean curve arithmetic by the spec op
`ecdh.symmetric` on thousands of pairs per curve incl. leading-zero coordinates and the low-order X25519 points.
-/
namespace Cose.Props.C14
open Cose.Key Cose.Crypto Cose.Go Cose.Gen

/-- the curve table of `ecdh.getCurve` in the source -/
theorem ecdh_curve_table :
    Tables.sw_key_ecdh_getCurve.srows =
      [(1, ["goecdh.P256()"]), (2, ["goecdh.P384()"]), (3, ["goecdh.P521()"]), (4, ["goecdh.X25519()"])] := by
  decide +kernel

/-- **leading zero octets do not matter**: a coordinate and its zero-padded form are the same integer -/
theorem coordinate_padding_irrelevant (n : Nat) (b : Bytes) : os2ip (List.replicate n 0 ++ b) = os2ip b :=
  os2ip_replicate_zero n b

/-- a compressed x is stripped of leading zeros before decompression at the curve length, so stripped and padded
    forms decompress alike -/
theorem compressed_x_padding_irrelevant (b : Bytes) : os2ip (stripZeros b) = os2ip b := os2ip_stripZeros b

/-- **a private remote key is refused** -/
theorem private_remote_refused (k remote : Key) (cur : Option (List Int))
    (h : remote.has (lbl Iana.EC2KeyParameterD) = true) : (ecdhDerive k cur remote).isOk = false := by
  unfold ecdhDerive
  simp only [h, if_true]
  repeat' (first | split | rfl)

/-- **never a panic**, whatever the two keys hold -/
theorem ecdhRemote_never_panics (pk : Key) : (ecdhRemote pk).isPanic = false := by
  unfold ecdhRemote
  simp only []
  repeat' (first | split | rfl)

theorem ecdhDerive_never_panics (k remote : Key) (cur : Option (List Int)) :
    (ecdhDerive k cur remote).isPanic = false := by
  have hr := ecdhRemote_never_panics remote
  unfold ecdhDerive
  simp only []
  cases hrr : ecdhRemote remote with
  | panic s => rw [hrr] at hr; simp [Res.isPanic] at hr
  | err e => repeat' (first | split | rfl | (rename_i hq _ _; cases hq) | (rename_i hq _; cases hq))
  | ok p => repeat' (first | split | rfl | (rename_i hq _ _; cases hq) | (rename_i hq _; cases hq))

-- a key of another curve is refused (test, labelled as a test: NIST local, NIST remote of a different field)
#guard !(ecdhDerive
    [(lbl 1, .int .int 2), (lbl (-1), .int .int 1), (lbl (-4), .bytes (fixedLen 32 7))] none
    [(lbl 1, .int .int 2), (lbl (-1), .int .int 2), (lbl (-2), .bytes (fixedLen 48 p384.gx)), (lbl (-3), .bytes (fixedLen 48 p384.gy))]).isOk

-- tests, labelled as tests: both directions agree on P-256 for two small scalars
#guard (ecdh p256 7 ((match scalarBaseMult p256 11 with | .affine x _ => x | .inf => 0)) ((match scalarBaseMult p256 11 with | .affine _ y => y | .inf => 0)))
    == (ecdh p256 11 ((match scalarBaseMult p256 7 with | .affine x _ => x | .inf => 0)) ((match scalarBaseMult p256 7 with | .affine _ y => y | .inf => 0)))

end Cose.Props.C14
