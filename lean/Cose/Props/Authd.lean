import Cose.Props.C03
/-!
# C02 / C03 / C04 — the authenticated bytes determine the kind and every authenticated item, all six kinds

`Props/C04.lean` and `Props/C03.lean` prove injectivity for the COSE_Sign1 and COSE_Encrypt0 structures.  Here the
statement is made once for all six: `Authd` is "what is authenticated" (kind, body protected bytes, per-signature
protected bytes for COSE_Sign, external data, payload), `Authd.cbor` its RFC 9052 structure, and

* `authd_injective`: two well-formed `Authd` values with the same encoded structure are the same up to the one
  identification RFC 9052 makes (absent external data = empty external data) — so no change of kind, no move of
  octets between protected / external / payload, no change inside any of them, and (COSE_Sign) no change of the
  signer's own protected bucket leaves the authenticated bytes as they were;
* `tobe_is_authd`: what the library hands to the primitive (`tobe`, tied to the source literals by the regenerated
  layouts) is the encoding of exactly that structure, for every kind;
* `tamper_is_forgery`: hence if the library's to-be-authenticated bytes of two (kind, wire struct, signer bucket,
  external data) coincide, all authenticated items coincide — a verification that succeeds after any such change has
  accepted a signature / tag over bytes nobody produced.
-/
namespace Cose.Props.Authd
open Cose.Msg Cose.Go Cose.Cbor Cose.Spec.Rfc9052 Cose.Gen Cose.Props.C04

/-- what is authenticated, per kind -/
inductive Authd
  | sign1 (prot ext payload : Option Bytes)
  | sign (prot signProt ext payload : Option Bytes)
  | mac0 (prot ext payload : Option Bytes)
  | mac (prot ext payload : Option Bytes)
  | enc0 (prot ext : Option Bytes)
  | enc (prot ext : Option Bytes)
deriving DecidableEq, Repr

/-- the RFC 9052 structure (sections 4.4, 5.3, 6.3) -/
def Authd.cbor : Authd → Cbor
  | .sign1 p e y => sigStructure1 p e y
  | .sign p sp e y => sigStructure p sp e y
  | .mac0 p e y => macStructure0 p e y
  | .mac p e y => macStructure p e y
  | .enc0 p e => encStructure0 p e
  | .enc p e => encStructure p e

/-- absent external data is the empty string: the only identification the structures make -/
def normExt (e : Option Bytes) : Option Bytes := some (e.getD [])

def Authd.norm : Authd → Authd
  | .sign1 p e y => .sign1 p (normExt e) y
  | .sign p sp e y => .sign p sp (normExt e) y
  | .mac0 p e y => .mac0 p (normExt e) y
  | .mac p e y => .mac p (normExt e) y
  | .enc0 p e => .enc0 p (normExt e)
  | .enc p e => .enc p (normExt e)

/-- every byte string is shorter than 2⁶⁴ (true of any Go slice) -/
def Authd.Ok : Authd → Prop
  | .sign1 p e y => WFb p ∧ WFb e ∧ WFb y
  | .sign p sp e y => WFb p ∧ WFb sp ∧ WFb e ∧ WFb y
  | .mac0 p e y => WFb p ∧ WFb e ∧ WFb y
  | .mac p e y => WFb p ∧ WFb e ∧ WFb y
  | .enc0 p e => WFb p ∧ WFb e
  | .enc p e => WFb p ∧ WFb e

theorem wf_ext (e : Option Bytes) (he : WFb e) : WF (externalAad e) := by
  cases e with
  | none => simp [externalAad, WF, two64]
  | some x => simpa [externalAad, WF] using he x rfl

theorem wf_cbor (a : Authd) (h : a.Ok) : WF a.cbor := by
  cases a with
  | sign1 p e y =>
    obtain ⟨hp, he, hy⟩ := h
    simp only [Authd.cbor, sigStructure1, WF, WFList, maxElems, List.length_cons, List.length_nil]
    exact ⟨by omega, wf_ctx ctxSignature1 (by simp), wf_asInMessage p hp, wf_ext e he, wf_asInMessage y hy, trivial⟩
  | sign p sp e y =>
    obtain ⟨hp, hsp, he, hy⟩ := h
    simp only [Authd.cbor, sigStructure, WF, WFList, maxElems, List.length_cons, List.length_nil]
    exact ⟨by omega, wf_ctx ctxSignature (by simp), wf_asInMessage p hp, wf_asInMessage sp hsp, wf_ext e he,
      wf_asInMessage y hy, trivial⟩
  | mac0 p e y =>
    obtain ⟨hp, he, hy⟩ := h
    simp only [Authd.cbor, macStructure0, WF, WFList, maxElems, List.length_cons, List.length_nil]
    exact ⟨by omega, wf_ctx ctxMAC0 (by simp), wf_asInMessage p hp, wf_ext e he, wf_asInMessage y hy, trivial⟩
  | mac p e y =>
    obtain ⟨hp, he, hy⟩ := h
    simp only [Authd.cbor, macStructure, WF, WFList, maxElems, List.length_cons, List.length_nil]
    exact ⟨by omega, wf_ctx ctxMAC (by simp), wf_asInMessage p hp, wf_ext e he, wf_asInMessage y hy, trivial⟩
  | enc0 p e =>
    obtain ⟨hp, he⟩ := h
    simp only [Authd.cbor, encStructure0, WF, WFList, maxElems, List.length_cons, List.length_nil]
    exact ⟨by omega, wf_ctx ctxEncrypt0 (by simp), wf_asInMessage p hp, wf_ext e he, trivial⟩
  | enc p e =>
    obtain ⟨hp, he⟩ := h
    simp only [Authd.cbor, encStructure, WF, WFList, maxElems, List.length_cons, List.length_nil]
    exact ⟨by omega, wf_ctx ctxEncrypt (by simp), wf_asInMessage p hp, wf_ext e he, trivial⟩

theorem ext_inj {e e' : Option Bytes} (h : externalAad e = externalAad e') : normExt e = normExt e' := by
  simp only [externalAad, Cbor.bstr.injEq] at h
  simp [normExt, h]

/-- the structures as CBOR values already determine everything (the context strings are pairwise different, the
    arities differ between signing / MACing and encryption) -/
theorem cbor_injective (a b : Authd) (h : a.cbor = b.cbor) : a.norm = b.norm := by
  cases a <;> cases b <;>
    simp only [Authd.cbor, sigStructure1, sigStructure, macStructure0, macStructure, encStructure0, encStructure,
      Cbor.arr.injEq, List.cons.injEq, Cbor.tstr.injEq, and_true, true_and] at h <;>
    first
    | (exfalso; exact absurd h.1 (by decide))
    | (obtain ⟨hp, hsp, he, hy⟩ := h
       simp only [Authd.norm, asInMessage_inj hp, asInMessage_inj hsp, ext_inj he, asInMessage_inj hy])
    | (obtain ⟨hp, he, hy⟩ := h
       simp only [Authd.norm, asInMessage_inj hp, ext_inj he, asInMessage_inj hy])
    | (obtain ⟨hp, he⟩ := h
       simp only [Authd.norm, asInMessage_inj hp, ext_inj he])
    | (exfalso; simp at h)

/-- **the authenticated bytes determine the kind and every authenticated item** -/
theorem authd_injective (a b : Authd) (ha : a.Ok) (hb : b.Ok) (h : encode a.cbor = encode b.cbor) :
    a.norm = b.norm :=
  cbor_injective a b (encode_inj (wf_cbor a ha) (wf_cbor b hb) h)

/-! ### what the library authenticates -/

/-- the `Authd` of a wire struct of kind `k` (COSE_Sign: under the signer bucket `sp`) -/
def authdOf (k : Kind) (w : Wire) (sp : Bytes) (ext : Option Bytes) : Authd :=
  match k with
  | .sign1 => .sign1 w.prot ext w.payload
  | .sign => .sign w.prot (some sp) ext w.payload
  | .mac0 => .mac0 w.prot ext w.payload
  | .mac => .mac w.prot ext w.payload
  | .encrypt0 => .enc0 w.prot ext
  | .encrypt => .enc w.prot ext

/-- the bytes handed to the primitive, as the library computes them: signature kinds over the wire struct, COSE_Sign
    under the signer's bucket, encryption kinds over the wire struct with the ciphertext left out -/
def libTobe (k : Kind) (w : Wire) (sp : Bytes) (ext : Option Bytes) : Res Bytes :=
  match k with
  | .sign => tobe .sign w (some sp) ext
  | .encrypt0 => tobe .encrypt0 { w with payload := none } none ext
  | .encrypt => tobe .encrypt { w with payload := none } none ext
  | k => tobe k w none ext

/-- **the library authenticates exactly the RFC structure**, every kind -/
theorem tobe_is_authd (k : Kind) (w : Wire) (sp : Bytes) (ext : Option Bytes) :
    libTobe k w sp ext = .ok (encode (authdOf k w sp ext).cbor) := by
  cases k with
  | sign1 => exact Cose.Props.C02.tobe_sign1_is_spec w ext
  | sign => exact Cose.Props.C02.tobe_sign_is_spec w sp ext
  | mac0 => exact Cose.Props.C02.tobe_mac0_is_spec w ext
  | mac => exact Cose.Props.C02.tobe_mac_is_spec w ext
  | encrypt0 => exact Cose.Props.C03.tobe_encrypt0_is_spec w ext
  | encrypt => exact Cose.Props.C03.tobe_encrypt_is_spec w ext

theorem authdOf_ok (k : Kind) (w : Wire) (sp : Bytes) (ext : Option Bytes)
    (hp : WFb w.prot) (hy : WFb w.payload) (he : WFb ext) (hs : sp.length < two64) : (authdOf k w sp ext).Ok := by
  have hsp : WFb (some sp) := by intro x hx; cases hx; exact hs
  cases k <;> simp only [authdOf, Authd.Ok] <;> first | exact ⟨hp, he, hy⟩ | exact ⟨hp, hsp, he, hy⟩ | exact ⟨hp, he⟩

/-- **tampering is forgery, all six kinds**: if the bytes the library hands to the primitive coincide for two
    (kind, message, signer bucket, external data), then the kinds coincide and so does every authenticated item —
    body protected bytes, the signer's protected bytes (COSE_Sign), external data (absent = empty) and, for the
    signing and MAC kinds, the payload.  Contrapositive: whoever gets a changed kind, a changed or moved octet of any
    of these accepted, has a signature / tag / ciphertext valid for bytes that were never authenticated. -/
theorem tamper_is_forgery (k k' : Kind) (w w' : Wire) (sp sp' : Bytes) (ext ext' : Option Bytes)
    (hp : WFb w.prot) (hy : WFb w.payload) (he : WFb ext) (hs : sp.length < two64)
    (hp' : WFb w'.prot) (hy' : WFb w'.payload) (he' : WFb ext') (hs' : sp'.length < two64)
    (h : libTobe k w sp ext = libTobe k' w' sp' ext') :
    (authdOf k w sp ext).norm = (authdOf k' w' sp' ext').norm := by
  rw [tobe_is_authd, tobe_is_authd] at h
  simp only [Res.ok.injEq] at h
  exact authd_injective _ _ (authdOf_ok k w sp ext hp hy he hs) (authdOf_ok k' w' sp' ext' hp' hy' he' hs') h

/-- spelled out for the case the round-8 change C02-16 broke: two signatures of one COSE_Sign whose signer buckets
    differ are over different bytes — the structure of one can never stand in for the other's -/
theorem sign_signer_bucket_is_authenticated (w : Wire) (sp sp' : Bytes) (ext : Option Bytes)
    (hp : WFb w.prot) (hy : WFb w.payload) (he : WFb ext) (hs : sp.length < two64) (hs' : sp'.length < two64)
    (hne : sp ≠ sp') : tobe .sign w (some sp) ext ≠ tobe .sign w (some sp') ext := by
  intro h
  have := tamper_is_forgery .sign .sign w w sp sp' ext ext hp hy he hs hp hy he hs' h
  simp only [authdOf, Authd.norm, Authd.sign.injEq, Option.some.injEq] at this
  exact hne this.2.1

/-- and for the kinds: a COSE_Mac0 is never a COSE_Mac, a COSE_Sign1 never a COSE_Sign, a COSE_Encrypt0 never a
    COSE_Encrypt, whatever the fields -/
theorem kinds_separate (k k' : Kind) (hk : k ≠ k') (w w' : Wire) (sp sp' : Bytes) (ext ext' : Option Bytes)
    (hp : WFb w.prot) (hy : WFb w.payload) (he : WFb ext) (hs : sp.length < two64)
    (hp' : WFb w'.prot) (hy' : WFb w'.payload) (he' : WFb ext') (hs' : sp'.length < two64) :
    libTobe k w sp ext ≠ libTobe k' w' sp' ext' := by
  intro h
  have := tamper_is_forgery k k' w w' sp sp' ext ext' hp hy he hs hp' hy' he' hs' h
  cases k <;> cases k' <;> simp only [authdOf, Authd.norm] at this <;> first | exact hk rfl | cases this

-- non-vacuity: a concrete pair of different signer buckets
example : tobe .sign ⟨some [0xa0], none, some [1, 2, 3], none, none, none⟩ (some [0xa1, 0x01, 0x26]) none ≠
    tobe .sign ⟨some [0xa0], none, some [1, 2, 3], none, none, none⟩ (some [0xa2, 0x01, 0x26, 0x03, 0x00]) none :=
  sign_signer_bucket_is_authenticated _ _ _ none
    (by intro x hx; cases hx; simp [two64]) (by intro x hx; cases hx; simp [two64]) (by intro x hx; cases hx)
    (by simp [two64]) (by simp [two64]) (by decide)

end Cose.Props.Authd
