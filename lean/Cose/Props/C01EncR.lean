import Cose.Props.C01Enc
import Cose.Props.C01Mac
/-!
# C01, COSE_Encrypt with recipients — a produced message decrypts to the original payload

`encrypt_roundtrip`: the statement of `enc0_roundtrip` for the kind with a recipients array: for every payload, external
data, key, unprotected map (scalar / list values, any entry order), nonce choice and every non-empty list of
three-member recipients, what `EncryptMessage.Encrypt` + `MarshalCBOR` emit passes the decoder's first-octet recipient
dispatch, is decoded with one recipient per recipient given, and `Decrypt` returns the original payload.
-/
namespace Cose.Props.C01
open Cose.Msg Cose.Go Cose.Cbor Cose.Gen Cose.Props.C01Mac

/-- decoding what `MarshalCBOR` emits for a COSE_Encrypt wire struct with recipients -/
theorem encR_decode (pb ct : Bytes) (fm : CMap) (mode : PMode)
    (hok : ∀ kv ∈ fm, EntryOk kv) (hnd : (fm.map (·.1)).Nodup) (hlen : fm.length ≤ maxElems)
    (hpb : pb.length < two64) (hct : ct.length < two64) (pm : CMap) (hpm : hdrFromBytes (some pb) = .ok pm)
    (rs : List Recip) (cs : List Cbor) (rs' : List Recip) (hrs : All3 RecipEnc rs cs rs') (hne : rs ≠ [])
    (hrl : rs.length ≤ maxElems) :
    ∃ bytes uh, marshal .encrypt (Wire.mk (some pb) (some fm) (some ct) none none (some rs)) = some bytes ∧
      unmarshal .encrypt mode bytes =
        .ok ⟨.encrypt, some pm, some uh, zeroPayload mode, some (Wire.mk (some pb) (some uh) (some ct) none none (some rs'))⟩ ∧
      ∀ l, uh.lookup l = (fm.lookup l).map normV := by
  obtain ⟨hc1, hc2, hc3, hc4, hc5, hc6, hc7⟩ := recips_list rs cs rs' hrs
  have hp := sortM_perm fm
  have hok' : ∀ kv ∈ sortM fm, EntryOk kv := fun kv hh => hok kv (hp.subset hh)
  obtain ⟨hwf, hdepth⟩ := sorted_entries_wf fm hok hnd hlen
  obtain ⟨_, _, _, hof, hcm⟩ := entries_wf (sortM fm) hok'
  have hnd_enc : ((encodePairs (fm.map entryCbor)).map (·.1)).Nodup := by
    rw [map_entryCbor_keys]; exact encoded_labels_nodup fm (fun kv hh => (hok kv hh).1) hnd
  have henc : encode (.map (fm.map entryCbor)) = encode (.map ((sortM fm).map entryCbor)) :=
    encode_map_perm (hp.symm.map entryCbor) hnd_enc
  have huf : hdrField (.map ((sortM fm).map entryCbor)) = .ok (some ((sortM fm).map entryNorm)) := by
    simp only [hdrField, untag, hof, hcm]
  let xs (uu : Cbor) : List Cbor := [.bstr pb, uu, .bstr ct, .arr cs]
  have hwc : wireCbor .encrypt (Wire.mk (some pb) (some fm) (some ct) none none (some rs)) =
      some (.arr (xs (.map (fm.map entryCbor)))) := by
    simp [wireCbor, hdrCbor, CMap.toCbor, cmapPairs_eq fm hok, bytesCbor, hc1, xs]
  have henc4 : encode (.tag Kind.encrypt.tagNum (.arr (xs (.map (fm.map entryCbor))))) =
      encode (.tag Kind.encrypt.tagNum (.arr (xs (.map ((sortM fm).map entryCbor))))) := by
    have e1 : ∀ u, encode (.tag Kind.encrypt.tagNum (.arr (xs u))) =
        head 6 Kind.encrypt.tagNum ++ (head 4 4 ++ (encode (.bstr pb) ++ (encode u ++ (encode (.bstr ct) ++ (encode (.arr cs) ++ []))))) := by
      intro u; simp only [xs, encode, encodeList, List.length_cons, List.length_nil]
    rw [e1, e1, henc]
  have hwfcs : WF (.arr cs) := ⟨by rw [hc6]; exact hrl, hc2⟩
  have hwfarr : WF (.arr (xs (.map ((sortM fm).map entryCbor)))) := by
    simp only [xs, WF, WFList, maxElems, List.length_cons, List.length_nil]
    exact ⟨by omega, hpb, hwf, hct, hwfcs, trivial⟩
  have hdarr : depth (.arr (xs (.map ((sortM fm).map entryCbor)))) < maxNesting := by
    have : depth (.arr (xs (.map ((sortM fm).map entryCbor)))) ≤ 5 := by
      simp only [xs, depth, depthList] at hdepth ⊢; omega
    unfold maxNesting; omega
  obtain ⟨c, hd1, hd2⟩ := decode_marshalled .encrypt _ hwfarr hdarr
  refine ⟨encode (.tag Kind.encrypt.tagNum (.arr (xs (.map (fm.map entryCbor))))), (sortM fm).map entryNorm,
    by unfold marshal; rw [hwc]; rfl, ?_, fun l => by rw [lookup_entryNorm, lookup_perm hp hnd]⟩
  have hwire : wireOfCbor .encrypt c = .ok (Wire.mk (some pb) (some ((sortM fm).map entryNorm)) (some ct) none none (some rs')) := by
    rw [wireOfCbor_untag, hd2]
    show wireOfCbor .encrypt (.arr [bytesCbor (some pb), _, bytesCbor (some ct), .arr cs]) = _
    simp only [wireOfCbor, untag_arr, bytesField_bytesCbor, huf, hc4]
  have hrr : recipientsRawOk .encrypt (applyStrip (encode (.tag Kind.encrypt.tagNum
      (.arr (xs (.map ((sortM fm).map entryCbor)))))) (stripSteps .encrypt)) = true := by
    unfold recipientsRawOk
    rw [rawArrayElems_marshalled .encrypt _ hwfarr]
    have hl : ((xs (.map ((sortM fm).map entryCbor))).map encode).getLast? = some (encode (.arr cs)) := rfl
    simp only [hl, rawArrayElems_encode_arr cs hwfcs, hc5]
    rfl
  have hrne : rs'.isEmpty = false := by
    cases rs' with
    | nil => simp at hc7; exact absurd (List.eq_nil_of_length_eq_zero hc7.symm) hne
    | cons _ _ => rfl
  unfold unmarshal
  rw [henc4, hd1]
  simp only [hrr, hwire, Bool.not_true, Bool.false_eq_true, if_false, Option.getD_some, hrne, Bool.and_false, hpm]
  rfl

/-- **COSE_Encrypt round trip with recipients**: what `Encrypt` + `MarshalCBOR` produce — with any non-empty list of
    three-member recipients attached — `UnmarshalCBOR` + `Decrypt` turn back into the original payload, for every
    payload, external data, key, unprotected map (scalar / list values, any entry order) and nonce choice; the decoder
    returns one recipient per recipient given. -/
theorem encrypt_roundtrip (payload ext : Option Bytes) (unprot : Hdr) (e : Encryptor) (rnd : Bytes)
    (hcorr : AeadCorrect e) (hrnd : rnd ≠ []) (ha : e.key.alg ≠ 0)
    (har : -2147483648 ≤ e.key.alg ∧ e.key.alg ≤ 2147483647)
    (m1 : Msg) (h : produceEnc ⟨.encrypt, none, unprot, .bytes payload, none⟩ e ext rnd = .ok m1)
    (w : Wire) (hw : m1.mm = some w) (fm : CMap) (hfm : w.unprot = some fm)
    (hok : ∀ kv ∈ fm, EntryOk kv) (hnd : (fm.map (·.1)).Nodup) (hlen : fm.length ≤ maxElems)
    (hiv : fm.lookup (Msg.lbl Iana.HeaderParameterIV) ≠ some .bnil)
    (hpiv : fm.lookup (Msg.lbl Iana.HeaderParameterPartialIV) ≠ some .bnil)
    (hcl : ∀ x, w.payload = some x → x.length < two64)
    (rs : List Recip) (cs : List Cbor) (rs' : List Recip) (hrs : All3 RecipEnc rs cs rs') (hne : rs ≠ [])
    (hrl : rs.length ≤ maxElems) :
    ∃ bytes m2 w2, marshal .encrypt { w with recips := some rs } = some bytes ∧ unmarshal .encrypt .raw bytes = .ok m2 ∧
      m2.mm = some w2 ∧ w2.recips = some rs' ∧ w2.payload = w.payload ∧ w2.prot = w.prot ∧
      decryptEnc m2 .raw e ext = .ok (.bytes (nonEmpty payload)) := by
  unfold produceEnc at h
  have hfp : fillProtected none e.key = .ok [(Msg.lbl Iana.HeaderParameterAlg, .int .alg e.key.alg)] :=
    Cose.Props.C05.default_protected_records_alg e.key ha
  simp only [hfp] at h
  -- the nonce choice; in both cases `Decrypt` will select the same nonce from the final unprotected map
  have key : ∃ iv fm' pb aad ct, w = { prot := some pb, unprot := some fm', payload := some ct } ∧
      pb = encode (.map [(Cbor.ofInt 1, Cbor.ofInt e.key.alg)]) ∧
      tobe .encrypt { prot := some pb, unprot := some fm', payload := none } none ext = .ok aad ∧
      e.encrypt iv (payload.getD []) aad = .ok ct ∧
      selectNonce fm' e.key e.nonceSize = .ok (.given iv) := by
    obtain ⟨u0, hu0⟩ : ∃ u0, u0 = fillUnprotected unprot e.key := ⟨_, rfl⟩
    rw [← hu0] at h
    cases hsel : selectNonce u0 e.key e.nonceSize with
    | err er => simp [hsel] at h
    | panic er => simp [hsel] at h
    | ok choice =>
      simp only [hsel, default_bucket_bytes e.key.alg ha, payloadToWire] at h
      obtain ⟨pb0, hpb0⟩ : ∃ pb0, pb0 = encode (Cbor.map [(Cbor.ofInt 1, Cbor.ofInt e.key.alg)]) := ⟨_, rfl⟩
      rw [← hpb0] at h
      cases choice with
      | given iv =>
        simp only at h
        cases htb : tobe .encrypt { prot := some pb0, unprot := some u0, payload := none } none ext with
        | err er => simp [htb] at h
        | panic er => simp [htb] at h
        | ok aad =>
          simp only [htb] at h
          cases henc : e.encrypt iv (payload.getD []) aad with
          | err er => simp [henc] at h
          | panic er => simp [henc] at h
          | ok ct =>
            simp only [henc, Res.ok.injEq] at h
            subst h
            simp only [Option.some.injEq] at hw
            exact ⟨iv, u0, pb0, aad, ct, hw.symm, hpb0, htb, henc, hsel⟩
      | random =>
        simp only at h
        obtain ⟨u1, hu1⟩ : ∃ u1, u1 = u0.set (Msg.lbl Iana.HeaderParameterIV) (.bytes rnd) := ⟨_, rfl⟩
        rw [← hu1] at h
        cases htb : tobe .encrypt { prot := some pb0, unprot := some u1, payload := none } none ext with
        | err er => simp [htb] at h
        | panic er => simp [htb] at h
        | ok aad =>
          simp only [htb] at h
          cases henc : e.encrypt rnd (payload.getD []) aad with
          | err er => simp [henc] at h
          | panic er => simp [henc] at h
          | ok ct =>
            simp only [henc, Res.ok.injEq] at h
            subst h
            simp only [Option.some.injEq] at hw
            exact ⟨rnd, u1, pb0, aad, ct, hw.symm, hpb0, htb, henc, by rw [hu1]; exact selectNonce_after_publish _ _ _ _ hrnd hsel⟩
  obtain ⟨iv, fm', pb, aad, ct, hwe, hpb, htb, henc, hsel2⟩ := key
  subst hwe
  simp only [Option.some.injEq] at hfm
  subst hfm
  obtain ⟨pm, hpm, hmm⟩ := default_bucket_roundtrip e.key.alg har
  rw [← hpb] at hpm
  have hpbl : pb.length < two64 := by rw [hpb]; exact Cose.Props.C01Sign.default_bucket_short e.key.alg
  obtain ⟨bytes, uh, hmar, hun, hlook⟩ := encR_decode pb ct fm' .raw hok hnd hlen hpbl (hcl ct rfl) pm hpm rs cs rs' hrs hne hrl
  refine ⟨bytes, _, _, hmar, hun, rfl, rfl, rfl, rfl, ?_⟩
  -- decryption
  have hs : selectNonce uh e.key e.nonceSize = .ok (.given iv) := by
    rw [selectNonce_congr fm' uh e.key e.nonceSize
      (getBytes_lookup_norm fm' uh hok hnd hlook _ hiv) (getBytes_lookup_norm fm' uh hok hnd hlook _ hpiv)]
    exact hsel2
  have htb2 : tobe .encrypt (Wire.mk (some pb) (some uh) none none none (some rs')) none ext = .ok aad := by
    rw [← htb]; unfold tobe; rfl
  unfold decryptEnc
  simp only [Option.getD_some, hmm, Bool.false_eq_true, if_false, htb2, hs, NonceChoice.ivOrEmpty,
    hcorr iv _ aad ct henc]
  cases payload with
  | none => rfl
  | some l => cases l <;> rfl



end Cose.Props.C01
