import Cose.Msg.Layout
import Cose.Spec.Rfc9052
import Cose.Cbor.Corollaries
/-!
# C04 — signed, MACed and AAD bytes are the exact RFC 9052 structures of the wire bytes

`Cose.Msg.toBe Gen.Layouts.tb_<kind>` evaluates the `[]any{…}` literal **as extracted from the source on this
run**; each theorem states that, for every protected string, payload and external data (present, empty or
nil), it is the RFC 9052 structure — so dropping `external_aad`, reordering members, editing a context string or
re-encoding a member breaks a theorem at kernel level.  The arguments are the *wire* fields (`mm.Protected`,
`mm.Payload`): the correspondence op `msg.tobe` checks with recording Signer/MACer/Encryptor wrappers that the
library passes exactly these bytes on both the produce and the verify side, including for non-canonical
protected buckets.
-/
namespace Cose.Props.C04
open Cose.Msg Cose.Cbor Cose.Spec.Rfc9052 Cose.Gen.Layouts

theorem tobe_sign1_eq_spec (prot payload ext : Option Bytes) :
    toBe tb_sign1Message (fields3 prot payload) (paramsExt ext) = some (sigStructure1 prot ext payload) := by
  cases prot <;> cases payload <;> cases ext <;> rfl

theorem tobe_sign_eq_spec (prot signProt payload ext : Option Bytes) :
    toBe tb_signMessage (fields3 prot payload) (paramsSign signProt ext) = some (sigStructure prot signProt ext payload) := by
  cases prot <;> cases signProt <;> cases payload <;> cases ext <;> rfl

theorem tobe_mac0_eq_spec (prot payload ext : Option Bytes) :
    toBe tb_mac0Message (fields3 prot payload) (paramsExt ext) = some (macStructure0 prot ext payload) := by
  cases prot <;> cases payload <;> cases ext <;> rfl

theorem tobe_mac_eq_spec (prot payload ext : Option Bytes) :
    toBe tb_macMessage (fields3 prot payload) (paramsExt ext) = some (macStructure prot ext payload) := by
  cases prot <;> cases payload <;> cases ext <;> rfl

theorem tobe_encrypt0_eq_spec (prot ext : Option Bytes) :
    toBe tb_encrypt0Message (fields3 prot none) (paramsExt ext) = some (encStructure0 prot ext) := by
  cases prot <;> cases ext <;> rfl

theorem tobe_encrypt_eq_spec (prot ext : Option Bytes) :
    toBe tb_encryptMessage (fields3 prot none) (paramsExt ext) = some (encStructure prot ext) := by
  cases prot <;> cases ext <;> rfl

/-- absent external data is the empty string -/
theorem external_nil_is_empty (prot payload : Option Bytes) :
    toBe tb_sign1Message (fields3 prot payload) (paramsExt none) =
      toBe tb_sign1Message (fields3 prot payload) (paramsExt (some [])) := by
  rw [tobe_sign1_eq_spec, tobe_sign1_eq_spec]; rfl

/-- the six contexts are pairwise distinct, so a structure of one kind is never a structure of another -/
theorem contexts_distinct :
    [ctxSignature1, ctxSignature, ctxMAC0, ctxMAC, ctxEncrypt0, ctxEncrypt].Nodup := by decide

/-! ### the structures are injective: equal bytes ⇒ equal (context, protected, external, payload) -/

def WFb (b : Option Bytes) : Prop := ∀ x, b = some x → x.length < two64

theorem wf_asInMessage (b : Option Bytes) (h : WFb b) : WF (asInMessage b) := by
  cases b with
  | none => simp [asInMessage, Cbor.null, WF]
  | some x => simpa [asInMessage, WF] using h x rfl

theorem asInMessage_inj {a b : Option Bytes} (h : asInMessage a = asInMessage b) : a = b := by
  cases a <;> cases b <;> simp_all [asInMessage, Cbor.null]

theorem wf_ctx (c : Bytes) (hc : c ∈ [ctxSignature1, ctxSignature, ctxMAC0, ctxMAC, ctxEncrypt0, ctxEncrypt]) :
    WF (.tstr c) := by
  simp only [List.mem_cons, List.not_mem_nil, or_false] at hc
  rcases hc with rfl | rfl | rfl | rfl | rfl | rfl <;> (simp only [WF, two64]; decide)

theorem wf_sigStructure1 (p e y : Option Bytes) (hp : WFb p) (he : WFb e) (hy : WFb y) :
    WF (sigStructure1 p e y) := by
  have h1 := wf_asInMessage p hp
  have h3 := wf_asInMessage y hy
  have h0 := wf_ctx ctxSignature1 (by simp)
  have h2 : WF (externalAad e) := by
    cases e with
    | none => simp [externalAad, WF, two64]
    | some x => simpa [externalAad, WF] using he x rfl
  simp only [sigStructure1, WF, WFList, maxElems, List.length_cons, List.length_nil]
  exact ⟨by omega, h0, h1, h2, h3, trivial⟩

/-- **two COSE_Sign1 to-be-signed values coincide only if every authenticated item coincides**
    (no splice of protected / external / payload bytes yields the same signed bytes) -/
theorem sigStructure1_injective (p p' e e' y y' : Option Bytes)
    (hp : WFb p) (he : WFb e) (hy : WFb y) (hp' : WFb p') (he' : WFb e') (hy' : WFb y')
    (h : encode (sigStructure1 p e y) = encode (sigStructure1 p' e' y')) :
    p = p' ∧ e.getD [] = e'.getD [] ∧ y = y' := by
  have := encode_inj (wf_sigStructure1 p e y hp he hy) (wf_sigStructure1 p' e' y' hp' he' hy') h
  simp only [sigStructure1, Cbor.arr.injEq, List.cons.injEq, and_true, true_and] at this
  obtain ⟨a, b, c⟩ := this
  refine ⟨asInMessage_inj a, ?_, asInMessage_inj c⟩
  simpa [externalAad] using b

end Cose.Props.C04
