import Cose.Props.C01Sign
import Cose.Msg.RoundtripRaw
/-!
# C01 — COSE_Mac with recipients is accepted back
-/
namespace Cose.Props.C01Mac
open Cose.Msg Cose.Go Cose.Cbor Cose.Gen Cose.Props.C01

inductive All3 {α β γ} (R : α → β → γ → Prop) : List α → List β → List γ → Prop
  | nil : All3 R [] [] []
  | cons {a b c l₁ l₂ l₃} : R a b c → All3 R l₁ l₂ l₃ → All3 R (a :: l₁) (b :: l₂) (c :: l₃)

/-- a recipient as it goes on the wire (a three-member array, i.e. no nested recipients) and as it comes back -/
structure RecipEnc (r : Recip) (c : Cbor) (r' : Recip) : Prop where
  cbor : recipCbor r = some c
  three : ∃ p u ct, c = .arr [p, u, ct]
  wf : WF c
  dep : depth c ≤ 3
  field : recipField c = .ok r'

theorem first_byte_three (p u ct : Cbor) : recipFirstBytesOk (encode (.arr [p, u, ct])) = true := by
  obtain ⟨rest, hr⟩ := encode_arr_first [p, u, ct] (by simp)
  have : u8 (4 * 32 + [p, u, ct].length) = 0x83 := by simp only [List.length_cons, List.length_nil]; decide
  rw [hr, this]; rfl

theorem recips_list (rs : List Recip) (cs : List Cbor) (rs' : List Recip) (h : All3 RecipEnc rs cs rs') :
    rs.mapM recipCbor = some cs ∧ WFList cs ∧ depthList cs ≤ 3 ∧ decSeq recipField cs = .ok rs' ∧
      (cs.map encode).all recipFirstBytesOk = true ∧ cs.length = rs.length ∧ rs'.length = rs.length := by
  induction h with
  | nil => exact ⟨rfl, trivial, by simp [depthList], rfl, rfl, rfl, rfl⟩
  | @cons r c r' _ _ _ he _ ih =>
    obtain ⟨h1, h2, h3, h4, h5, h6, h7⟩ := ih
    obtain ⟨p, u, ct, hc⟩ := he.three
    refine ⟨?_, ⟨he.wf, h2⟩, ?_, ?_, ?_, by simp [h6], by simp [h7]⟩
    · simp only [List.mapM_cons, he.cbor, h1]; rfl
    · simp only [depthList]; have := he.dep; omega
    · simp only [decSeq, he.field, h4]
    · simp only [List.map_cons, List.all_cons, h5, Bool.and_true]
      rw [hc]; exact first_byte_three p u ct

/-- **COSE_Mac with recipients, produced with default headers, is accepted back** (tagged form): the decoder returns
    the protected bytes, payload and tag that were produced and one recipient per recipient given (as its own wire
    form decodes), the payload field holds the original value, and verification succeeds with any `check` that
    accepts what `auth` makes. -/
theorem mac_roundtrip (pv pv' : PVal) (mode : PMode) (payload ext : Option Bytes) (unprot : Hdr)
    (key vkey : KeyView) (auth : Bytes → Res Bytes) (check : Bytes → Bytes → Res Unit)
    (hcorr : SigCorrect auth check) (hvk : vkey.alg = key.alg) (ha : key.alg ≠ 0)
    (har : -2147483648 ≤ key.alg ∧ key.alg ≤ 2147483647)
    (hpw : payloadToWire pv = .ok payload) (hpf : payloadFromWire mode payload (zeroPayload mode) = .ok pv')
    (m1 : Msg) (h : produceAuth ⟨.mac, none, unprot, pv, none⟩ key auth ext = .ok m1)
    (w : Wire) (hw : m1.mm = some w) (u : Cbor) (hu : hdrCbor w.unprot = some u)
    (u' : Cbor) (heq : encode u' = encode u) (huw : WF u')
    (hud : depth u' + 2 < maxNesting) (uh : Hdr) (huf : hdrField u' = .ok uh)
    (rs : List Recip) (cs : List Cbor) (rs' : List Recip) (hrs : All3 RecipEnc rs cs rs') (hne : rs ≠ [])
    (hrl : rs.length ≤ maxElems)
    (hpl : ∀ x, payload = some x → x.length < two64) (hsl : ∀ x, w.auth = some x → x.length < two64) :
    ∃ bytes m2 w2, marshal .mac { w with recips := some rs } = some bytes ∧ unmarshal .mac mode bytes = .ok m2 ∧
      m2.mm = some w2 ∧ w2.prot = w.prot ∧ w2.payload = payload ∧ w2.auth = w.auth ∧ w2.recips = some rs' ∧
      m2.payload = pv' ∧ verifyAuth m2 vkey check ext = .ok () ∧ m2.unprot = uh := by
  obtain ⟨hc1, hc2, hc3, hc4, hc5, hc6, hc7⟩ := recips_list rs cs rs' hrs
  unfold produceAuth at h
  have hfp : fillProtected none key = .ok [(Msg.lbl Iana.HeaderParameterAlg, .int .alg key.alg)] :=
    Cose.Props.C05.default_protected_records_alg key ha
  simp only [hfp, default_bucket_bytes key.alg ha, hpw] at h
  generalize hpb : encode (Cbor.map [(Cbor.ofInt 1, Cbor.ofInt key.alg)]) = pb at h
  cases htb : tobe .mac (Wire.mk (some pb) (some (fillUnprotected unprot key)) payload none none none) none ext with
  | err e => simp [htb] at h
  | panic e => simp [htb] at h
  | ok tb =>
    simp only [htb] at h
    cases hsig : auth tb with
    | err e => simp [hsig] at h
    | panic e => simp [hsig] at h
    | ok sig =>
      simp only [hsig, Res.ok.injEq] at h
      subst h
      simp only [Option.some.injEq] at hw
      subst hw
      simp only at hu hsl ⊢
      have hpbl : pb.length < two64 := by rw [← hpb]; exact Cose.Props.C01Sign.default_bucket_short key.alg
      let xs (uu : Cbor) : List Cbor := [.bstr pb, uu, bytesCbor payload, .bstr sig, .arr cs]
      have hwc : wireCbor .mac (Wire.mk (some pb) (some (fillUnprotected unprot key)) payload (some sig) none (some rs)) = some (.arr (xs u)) := by
        simp [wireCbor, hu, bytesCbor, hc1, xs]
      have henc : encode (.tag Kind.mac.tagNum (.arr (xs u))) = encode (.tag Kind.mac.tagNum (.arr (xs u'))) := by
        simp only [xs, encode, encodeList, heq, List.length_cons, List.length_nil]
      have hwfcs : WF (.arr cs) := ⟨by rw [hc6]; exact hrl, hc2⟩
      have hwfarr : WF (.arr (xs u')) := by
        simp only [xs, WF, WFList, maxElems, List.length_cons, List.length_nil]
        exact ⟨by omega, hpbl, huw, wf_bytesCbor payload hpl, hsl sig rfl, hwfcs, trivial⟩
      have hdarr : depth (.arr (xs u')) < maxNesting := by
        simp only [xs, depth, depthList, depth_bytesCbor, maxNesting] at hud ⊢; omega
      obtain ⟨c, hd1, hd2⟩ := decode_marshalled .mac _ hwfarr hdarr
      have hmar : marshal .mac (Wire.mk (some pb) (some (fillUnprotected unprot key)) payload (some sig) none (some rs)) = some (encode (.tag Kind.mac.tagNum (.arr (xs u)))) := by
        unfold marshal; rw [hwc]; rfl
      obtain ⟨pm, hpm, hmm⟩ := default_bucket_roundtrip key.alg har
      rw [hpb] at hpm
      -- the first-octet dispatch of the recipients
      have hrr : recipientsRawOk .mac (applyStrip (encode (.tag Kind.mac.tagNum (.arr (xs u')))) (stripSteps .mac)) = true := by
        unfold recipientsRawOk
        rw [rawArrayElems_marshalled .mac _ hwfarr]
        have hl : ((xs u').map encode).getLast? = some (encode (.arr cs)) := rfl
        simp only [hl, rawArrayElems_encode_arr cs hwfcs, hc5]
        rfl
      have hwire : wireOfCbor .mac c = .ok { prot := some pb, unprot := uh, payload := payload, auth := some sig, recips := some rs' } := by
        rw [wireOfCbor_untag, hd2]
        show wireOfCbor .mac (.arr [bytesCbor (some pb), u', bytesCbor payload, bytesCbor (some sig), .arr cs]) = _
        simp only [wireOfCbor, untag_arr, bytesField_bytesCbor, huf, hc4]
      have hrne : rs'.isEmpty = false := by
        cases rs' with
        | nil => simp at hc7; exact absurd (List.eq_nil_of_length_eq_zero hc7.symm) hne
        | cons _ _ => rfl
      refine ⟨_, ⟨.mac, some pm, uh, pv',
        some { prot := some pb, unprot := uh, payload := payload, auth := some sig, recips := some rs' }⟩, _, hmar, ?_,
        rfl, rfl, rfl, rfl, rfl, rfl, ?_, rfl⟩
      · unfold unmarshal
        rw [henc, hd1]
        have hnot2 : (Kind.mac == Kind.encrypt0 || Kind.mac == Kind.encrypt) = false := rfl
        simp only [hrr, hwire, Bool.not_true, Bool.false_eq_true, if_false, Option.getD_some, hrne, Bool.and_false, hpm, hnot2, hpf]
      · unfold verifyAuth
        simp only [Option.getD_some, hvk, hmm, Bool.false_eq_true, if_false]
        have htb2 : tobe .mac { prot := some pb, unprot := uh, payload := payload, auth := some sig, recips := some rs' } none ext = .ok tb := by
          rw [← htb]; unfold tobe; rfl
        rw [htb2]
        exact hcorr tb sig hsig

/-! ### non-vacuity: the usual "direct" recipient `[h'', {1: -6, 4: kid}, h'']` -/

def directRecip (kid : Bytes) : Recip := ⟨⟨[], some [(.int 1, .int .int (-6)), (.int 4, .bstr kid)], some []⟩, []⟩
def directCbor (kid : Bytes) : Cbor := .arr [.bstr [], .map [(.uint 1, .nint 5), (.uint 4, .bstr kid)], .bstr []]
def directBack (kid : Bytes) : Recip := ⟨⟨[], some [(.int 1, .int .i64 (-6)), (.int 4, .bytes kid)], some []⟩, []⟩

theorem direct_recipient (kid : Bytes) (hk : kid.length < two64) :
    RecipEnc (directRecip kid) (directCbor kid) (directBack kid) where
  cbor := by
    simp [directRecip, directCbor, recipCbor, hdrBytes, hdrCbor, CMap.toCbor, cmapPairs, toCbor, Label.toCbor, Cbor.ofInt, bytesCbor]
  three := ⟨_, _, _, rfl⟩
  wf := by
    simp only [directCbor, WF, WFList, WFPairs, KeysSorted, encodePairs, maxElems, List.length_cons, List.length_nil]
    refine ⟨by omega, by simp [two64], ⟨by omega, ⟨by simp [two64], by simp [two64], by simp [two64], hk, trivial⟩, ?_, by simp [hashableKey]⟩, by simp [two64], trivial⟩
    simp only [List.pairwise_cons, List.mem_cons, List.not_mem_nil, or_false, forall_eq, List.Pairwise.nil, and_true]
    exact ⟨by decide, fun _ h => by cases h⟩
  dep := by simp [directCbor, depth, depthList, depthPairs]
  field := by
    simp [directCbor, directBack, recipField, recip0Field, bytesField, hdrField, untag, ofCborPairs, ofCbor, cmapOfPairs,
      checkKey, maxInt32, hdrFromBytes]

example : All3 RecipEnc [directRecip [1], directRecip [2, 2]] [directCbor [1], directCbor [2, 2]] [directBack [1], directBack [2, 2]] :=
  .cons (direct_recipient _ (by simp [two64])) (.cons (direct_recipient _ (by simp [two64])) .nil)

end Cose.Props.C01Mac
