import Cose.Msg.Model
/-!
# COSE_KDF_Context, SuppPubInfo, PartyInfo (mirror of /repo/cose/kdf_context.go) and the RFC 9053 §5.2 array
-/
namespace Cose.Msg
open Cose.Go Cose.Cbor

structure PartyInfo where
  identity : Option Bytes
  nonce : Option Bytes
  other : Option Bytes
deriving Repr

structure SuppPubInfo where
  keyDataLength : Nat
  prot : Hdr
  other : Option Bytes       -- nil = absent
deriving Repr

structure KdfContext where
  algorithmID : Int
  partyU : PartyInfo
  partyV : PartyInfo
  suppPub : SuppPubInfo
  suppPriv : Option Bytes    -- nil = absent
deriving Repr

/-- RFC 9053 §5.2: `PartyInfo = ( identity : bstr / nil, nonce : bstr / int / nil, other : bstr / nil )` -/
def partyInfoSpec (p : PartyInfo) : Cbor := .arr [bytesCbor p.identity, bytesCbor p.nonce, bytesCbor p.other]

/-- `SuppPubInfo : [ keyDataLength : uint, protected : empty_or_serialized_map, ? other : bstr ]` -/
def suppPubSpec (s : SuppPubInfo) : Option Cbor :=
  match hdrBytes s.prot with
  | .ok pb =>
    (match s.other with
     | none => some (.arr [.uint s.keyDataLength, .bstr pb])
     | some o => some (.arr [.uint s.keyDataLength, .bstr pb, .bstr o]))
  | _ => none

/-- `COSE_KDF_Context = [ AlgorithmID, PartyUInfo, PartyVInfo, SuppPubInfo, ? SuppPrivInfo : bstr ]` -/
def kdfContextSpec (c : KdfContext) : Option Cbor :=
  match suppPubSpec c.suppPub with
  | none => none
  | some sp =>
    let base := [Cbor.ofInt c.algorithmID, partyInfoSpec c.partyU, partyInfoSpec c.partyV, sp]
    match c.suppPriv with
    | none => some (.arr base)
    | some p => some (.arr (base ++ [.bstr p]))

/-- `KDFContext.MarshalCBOR` -/
def kdfEncode (c : KdfContext) : Option Bytes := (kdfContextSpec c).map encode

/-! ### decoding -/

def partyInfoField (c : Cbor) : Dec PartyInfo :=
  match untag c with
  | .arr [a, b, d] =>
    (match bytesField a, bytesField b, bytesField d with
     | .ok x, .ok y, .ok z => .ok ⟨x, y, z⟩
     | .err, _, _ => .err
     | _, .err, _ => .err
     | _, _, .err => .err
     | _, _, _ => .unmodelled)
  | .simple 22 => .ok ⟨none, none, none⟩
  | .simple 23 => .ok ⟨none, none, none⟩
  | _ => .err

/-- a bignum tag (2 / 3) anywhere in the tag prefix: fxamacker converts bignums that fit into integer targets (not modelled) -/
def bignumTagged : Cbor → Bool
  | .tag t v => t == 2 || t == 3 || bignumTagged v
  | _ => false

/-- a Go `uint` member (64-bit) -/
def uintField (c : Cbor) : Dec Nat :=
  if bignumTagged c then .unmodelled else
  match untag c with
  | .uint n => .ok n
  | .simple 22 => .ok 0
  | .simple 23 => .ok 0
  | .simple 20 => .err
  | .simple 21 => .err
  | .simple n => .ok n           -- fxamacker fills integer targets from the other simple values (observed: f0 ↦ 16, f880 ↦ 128)
  | .float _ _ => .unmodelled
  | _ => .err

/-- a Go `int` member (64-bit) -/
def intField (c : Cbor) : Dec Int :=
  if bignumTagged c then .unmodelled else
  match untag c with
  | .uint n => if n < 9223372036854775808 then .ok n else .err
  | .nint n => if n < 9223372036854775808 then .ok (-1 - (n : Int)) else .err
  | .simple 22 => .ok 0
  | .simple 23 => .ok 0
  | .simple 20 => .err
  | .simple 21 => .err
  | .simple n => .ok n
  | .float _ _ => .unmodelled
  | _ => .err

/-- `SuppPubInfo.UnmarshalCBOR`: dispatch on the first byte of the raw item (0x82 / 0x83) -/
def suppPubField (raw : Bytes) (c : Cbor) : Dec SuppPubInfo :=
  match raw, c with
  | 0x82 :: _, .arr [k, p] =>
    (match uintField k, bytesField p with
     | .ok kn, .ok pb => (match hdrFromBytes pb with
        | .ok pm => .ok ⟨kn, some pm, none⟩ | .err => .err | .unmodelled => .unmodelled)
     | .err, _ => .err
     | _, .err => .err
     | _, _ => .unmodelled)
  | 0x83 :: _, .arr [k, p, o] =>
    (match uintField k, bytesField p, bytesField o with
     | .ok kn, .ok pb, .ok ob => (match hdrFromBytes pb with
        | .ok pm => .ok ⟨kn, some pm, ob⟩ | .err => .err | .unmodelled => .unmodelled)
     | .err, _, _ => .err
     | _, .err, _ => .err
     | _, _, .err => .err
     | _, _, _ => .unmodelled)
  | _, _ => .err

/-- `KDFContext.UnmarshalCBOR`: dispatch on the first byte (0x84 / 0x85) -/
def kdfDecode (data : Bytes) : Dec KdfContext :=
  match data with
  | [] => .err
  | b0 :: _ =>
    if b0 != 0x84 && b0 != 0x85 then .err
    else match decodeAll data, rawArrayElems data with
      | some (.arr items), some raws =>
        (match items, raws with
         | [a, u, v, sp], [_, _, _, spRaw] =>
           if b0 != 0x84 then .err else
           (match intField a, partyInfoField u, partyInfoField v, suppPubField spRaw sp with
            | .ok ai, .ok ui, .ok vi, .ok si => .ok ⟨ai, ui, vi, si, none⟩
            | .err, _, _, _ => .err
            | _, .err, _, _ => .err
            | _, _, .err, _ => .err
            | _, _, _, .err => .err
            | _, _, _, _ => .unmodelled)
         | [a, u, v, sp, pr], [_, _, _, spRaw, _] =>
           if b0 != 0x85 then .err else
           (match intField a, partyInfoField u, partyInfoField v, suppPubField spRaw sp, bytesField pr with
            | .ok ai, .ok ui, .ok vi, .ok si, .ok pi => .ok ⟨ai, ui, vi, si, pi⟩
            | .err, _, _, _, _ => .err
            | _, .err, _, _, _ => .err
            | _, _, .err, _, _ => .err
            | _, _, _, .err, _ => .err
            | _, _, _, _, .err => .err
            | _, _, _, _, _ => .unmodelled)
         | _, _ => .err)
      | _, _ => .err

end Cose.Msg
