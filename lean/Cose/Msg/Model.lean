import Cose.Msg.Layout
import Cose.Cbor.Raw
import Cose.Go.Labels
import Cose.Gen.Iana
/-!
# Model of the six COSE message kinds (mirror of /repo/cose/{sign1,sign,mac0,mac,encrypt0,encrypt,recipient,header}.go)

* wire structs (`toarray`) and their CBOR codec, with the tag / prefix handling of each `UnmarshalCBOR`;
* message objects and `WithSign` / `Compute` / `Encrypt` / `Verify` / `Decrypt`, over **abstract**
  `Signer` / `Verifier` / `Macer` / `Encryptor` interfaces (any implementation, incl. user-supplied ones);
* the to-be-authenticated bytes come from the regenerated literals (`Cose.Msg.toBeBytes Gen.Layouts.tb_*`).
-/
namespace Cose.Msg
open Cose.Go Cose.Cbor Cose.Gen

/-- Go `Headers`: nil or a map -/
abbrev Hdr := Option CMap

def lbl (i : Int) : Label := .int i

/-- `Headers.Bytes()`: the zero-length string for a nil or empty map, else the canonical encoding -/
def hdrBytes (h : Hdr) : Res Bytes :=
  match h with
  | none => .ok []
  | some [] => .ok []
  | some m => match encodeCMap m with
    | some b => .ok b
    | none => .err "unencodable"

/-- `HeadersFromBytes(data)`: an empty or nil string is the empty map -/
def hdrFromBytes (b : Option Bytes) : Dec CMap :=
  match b with
  | none => .ok []
  | some [] => .ok []
  | some d => decodeCMap d

/-! ## abstract primitives -/

/-- what the message layer reads from `impl.Key()` -/
structure KeyView where
  alg : Int
  kid : Option Bytes
  baseIV : Res (Option Bytes)

structure Signer where
  key : KeyView
  sign : Bytes → Res Bytes

structure Verifier where
  key : KeyView
  verify : Bytes → Bytes → Res Unit

structure Macer where
  key : KeyView
  create : Bytes → Res Bytes
  verify : Bytes → Bytes → Res Unit

structure Encryptor where
  key : KeyView
  nonceSize : Nat
  encrypt : Bytes → Bytes → Bytes → Res Bytes      -- iv plaintext aad
  decrypt : Bytes → Bytes → Bytes → Res Bytes      -- iv ciphertext aad

/-! ## payloads -/

/-- the type parameter `T`: `[]byte`, `cbor.RawMessage`, or a typed value (modelled: `key.CoseMap`) -/
inductive PMode | raw | rawMsg | typed | named
deriving Repr, DecidableEq

inductive PVal
  | bytes (b : Option Bytes)      -- []byte / RawMessage (nil possible)
  | typed (m : Option CMap)       -- CoseMap (nil possible)
  | named (b : Option Bytes)      -- a named byte-slice type (key.ByteStr, `type Blob []byte`): a CBOR byte string inside the payload
deriving Repr

/-- what goes into the wire payload: raw bytes as they are, typed values through `key.MarshalCBOR` -/
def payloadToWire : PVal → Res (Option Bytes)
  | .bytes b => .ok b
  | .typed none => .ok (some (encode Cbor.null))
  | .typed (some m) => match encodeCMap m with
    | some b => .ok (some b)
    | none => .err "unencodable"
  | .named none => .ok (some (encode Cbor.null))
  | .named (some b) => .ok (some (encode (.bstr b)))

/-- filling `m.Payload` from wire bytes: only when `len > 0` -/
def payloadFromWire (mode : PMode) (b : Option Bytes) (zero : PVal) : Dec PVal :=
  match b with
  | none => .ok zero
  | some [] => .ok zero
  | some d =>
    match mode with
    | .raw => .ok (.bytes (some d))
    | .rawMsg => .ok (.bytes (some d))
    | .typed => match decodeCMap d with
      | .ok m => .ok (.typed (some m))
      | .err => .err
      | .unmodelled => .unmodelled
    | .named => match (decodeAll d).map untag with
      | some (.bstr b) => .ok (.named (some b))
      | some (.simple 22) => .ok (.named none)
      | some (.simple 23) => .ok (.named none)
      | some (.arr _) => .unmodelled      -- fxamacker fills byte slices from arrays of small integers (known finding D12)
      | _ => .err

def zeroPayload : PMode → PVal
  | .typed => .typed none
  | .named => .named none
  | _ => .bytes none

/-! ## wire structures -/

structure SigObj where
  prot : CMap
  protRaw : Option Bytes     -- bytes as received (none for a freshly produced signature)
  unprot : Hdr
  signature : Option Bytes
deriving Repr

structure Recip0 where
  prot : CMap
  unprot : Hdr
  ciphertext : Option Bytes
deriving Repr

structure Recip where
  r : Recip0
  subs : List Recip0
deriving Repr

inductive Kind | sign1 | sign | mac0 | mac | encrypt0 | encrypt
deriving Repr, DecidableEq

/-- the `toarray` wire struct of a message (`mm`) -/
structure Wire where
  prot : Option Bytes
  unprot : Hdr
  payload : Option Bytes          -- payload or ciphertext
  auth : Option Bytes := none     -- signature / tag
  sigs : Option (List SigObj) := none
  recips : Option (List Recip) := none
deriving Repr

def Kind.tagNum : Kind → Nat
  | .sign1 => Iana.CBORTagCOSESign1.toNat | .sign => Iana.CBORTagCOSESign.toNat
  | .mac0 => Iana.CBORTagCOSEMac0.toNat | .mac => Iana.CBORTagCOSEMac.toNat
  | .encrypt0 => Iana.CBORTagCOSEEncrypt0.toNat | .encrypt => Iana.CBORTagCOSEEncrypt.toNat

def Kind.recv : Kind → String
  | .sign1 => "Sign1Message" | .sign => "SignMessage" | .mac0 => "Mac0Message" | .mac => "MacMessage"
  | .encrypt0 => "Encrypt0Message" | .encrypt => "EncryptMessage"

def Kind.tb : Kind → Layouts.ToBe
  | .sign1 => Layouts.tb_sign1Message | .sign => Layouts.tb_signMessage | .mac0 => Layouts.tb_mac0Message
  | .mac => Layouts.tb_macMessage | .encrypt0 => Layouts.tb_encrypt0Message | .encrypt => Layouts.tb_encryptMessage

/-! ### encoding -/

def bytesCbor : Option Bytes → Cbor
  | none => Cbor.null
  | some b => .bstr b

/-- a `Headers` member: its `MarshalCBOR` (nil maps encode as an empty map through `map[any]any(nil)`… checked by correspondence) -/
def hdrCbor (h : Hdr) : Option Cbor :=
  match h with
  | none => some (.map [])
  | some m => m.toCbor

def sigCbor (s : SigObj) : Option Cbor :=
  let prot : Option Bytes := match s.protRaw with
    | some b => some b
    | none => match hdrBytes (some s.prot) with | .ok b => some b | _ => none
  match prot, hdrCbor s.unprot with
  | some p, some u => some (.arr [.bstr p, u, bytesCbor s.signature])
  | _, _ => none

def recip0Cbor (r : Recip0) : Option Cbor :=
  match hdrBytes (some r.prot), hdrCbor (some (r.unprot.getD [])) with
  | .ok p, some u => some (.arr [.bstr p, u, bytesCbor r.ciphertext])
  | _, _ => none

def recipCbor (r : Recip) : Option Cbor :=
  match hdrBytes (some r.r.prot), hdrCbor (some (r.r.unprot.getD [])), r.subs.mapM recip0Cbor with
  | .ok p, some u, some subs =>
    if subs.isEmpty then some (.arr [.bstr p, u, bytesCbor r.r.ciphertext])
    else some (.arr [.bstr p, u, bytesCbor r.r.ciphertext, .arr subs])
  | _, _, _ => none

/-- the wire array of a message kind -/
def wireCbor (k : Kind) (w : Wire) : Option Cbor :=
  match hdrCbor w.unprot with
  | none => none
  | some u =>
    let head := [bytesCbor w.prot, u, bytesCbor w.payload]
    match k with
    | .sign1 | .mac0 => some (.arr (head ++ [bytesCbor w.auth]))
    | .encrypt0 => some (.arr head)
    | .sign => (match w.sigs with
        | none => some (.arr (head ++ [Cbor.null]))
        | some l => (l.mapM sigCbor).map (fun ss => .arr (head ++ [.arr ss])))
    | .mac => (match w.recips with
        | none => some (.arr (head ++ [bytesCbor w.auth, Cbor.null]))
        | some l => (l.mapM recipCbor).map (fun rs => .arr (head ++ [bytesCbor w.auth, .arr rs])))
    | .encrypt => (match w.recips with
        | none => some (.arr (head ++ [Cbor.null]))
        | some l => (l.mapM recipCbor).map (fun rs => .arr (head ++ [.arr rs])))

/-- `MarshalCBOR` of a message: the tagged wire array -/
def marshal (k : Kind) (w : Wire) : Option Bytes :=
  (wireCbor k w).map (fun c => encode (.tag k.tagNum c))

/-! ### decoding -/

/-- the prefix-stripping steps of `UnmarshalCBOR`, from the generated facts -/
def stripSteps (k : Kind) : List (Bytes × Nat) :=
  match Layouts.stripSteps.lookup k.recv with
  | none => []
  | some steps => steps.filterMap (fun (name, n) =>
      match Layouts.byteVars.find? (fun v => v.1 == "cose" && v.2.1 == name) with
      | some v => some (natsToBytes v.2.2, n)
      | none => none)

def applyStrip (data : Bytes) (steps : List (Bytes × Nat)) : Bytes :=
  steps.foldl (fun d (s : Bytes × Nat) => if s.1.isPrefixOf d then d.drop s.2 else d) data

/-- how fxamacker fills a `[]byte` member: byte string; null / undefined ↦ nil; (tags are skipped) -/
def bytesField : Cbor → Dec (Option Bytes)
  | .bstr b => .ok (some b)
  | .simple 22 => .ok none
  | .simple 23 => .ok none
  | .tag _ v => bytesField v
  | .arr _ => .unmodelled        -- arrays of small integers are accepted as bytes by fxamacker (known finding)
  | _ => .err

/-- a `Headers` member goes through `CoseMap.UnmarshalCBOR` on the raw item -/
def hdrField (c : Cbor) : Dec Hdr :=
  match untag c with
  | .simple 22 => .ok (some [])      -- null / undefined reach `CoseMap.UnmarshalCBOR`, which always makes a (possibly empty) map
  | .simple 23 => .ok (some [])
  | .map kvs =>
    (match ofCborPairs kvs with
     | none => .unmodelled
     | some g => match cmapOfPairs g with
       | .ok m => .ok (some m)
       | _ => .err)
  | _ => .err

def decSeq {α β} (f : α → Dec β) : List α → Dec (List β)
  | [] => .ok []
  | x :: xs =>
    match f x, decSeq f xs with
    | .ok a, .ok r => .ok (a :: r)
    | .err, _ => .err
    | _, .err => .err
    | _, _ => .unmodelled

def sigField (c : Cbor) : Dec SigObj :=
  match untag c with
  | .arr [p, u, s] =>
    (match bytesField p, hdrField u, bytesField s with
     | .ok pb, .ok uh, .ok sb =>
       (match hdrFromBytes pb with
        | .ok pm => .ok ⟨pm, pb, uh, sb⟩
        | .err => .err
        | .unmodelled => .unmodelled)
     | .err, _, _ => .err
     | _, .err, _ => .err
     | _, _, .err => .err
     | _, _, _ => .unmodelled)
  | _ => .err

def recip0Field (c : Cbor) : Dec Recip0 :=
  match c with
  | .arr [p, u, ct] =>
    (match bytesField p, hdrField u, bytesField ct with
     | .ok pb, .ok uh, .ok cb =>
       (match hdrFromBytes pb with
        | .ok pm => .ok ⟨pm, uh, cb⟩
        | .err => .err
        | .unmodelled => .unmodelled)
     | .err, _, _ => .err
     | _, .err, _ => .err
     | _, _, .err => .err
     | _, _, _ => .unmodelled)
  | _ => .err

/-- `Recipient.UnmarshalCBOR`: first-byte dispatch on 0x83 / 0x84, one nesting level -/
def recipField (c : Cbor) : Dec Recip :=
  match c with
  | .arr [p, u, ct] => (match recip0Field (.arr [p, u, ct]) with
      | .ok r => .ok ⟨r, []⟩ | .err => .err | .unmodelled => .unmodelled)
  | .arr [p, u, ct, s] =>
    (match untag s with          -- fxamacker skips tags in front of the nested array
     | .arr subs =>
       (match recip0Field (.arr [p, u, ct]), decSeq recip0Field subs with
        | .ok r, .ok ss => if ss.isEmpty then .err else .ok ⟨r, ss⟩
        | .err, _ => .err
        | _, .err => .err
        | _, _ => .unmodelled)
     | _ => .err)
  | _ => .err

/-- decode the wire array of kind `k` -/
def wireOfCbor (k : Kind) (c : Cbor) : Dec Wire :=
  let three (p u y : Cbor) (kont : Option Bytes → Hdr → Option Bytes → Dec Wire) : Dec Wire :=
    match bytesField p, hdrField u, bytesField y with
    | .ok pb, .ok uh, .ok yb => kont pb uh yb
    | .err, _, _ => .err
    | _, .err, _ => .err
    | _, _, .err => .err
    | _, _, _ => .unmodelled
  match k, untag c with
  | .sign1, .arr [p, u, y, a] | .mac0, .arr [p, u, y, a] =>
    three p u y (fun pb uh yb => match bytesField a with
      | .ok ab => .ok { prot := pb, unprot := uh, payload := yb, auth := ab }
      | .err => .err | .unmodelled => .unmodelled)
  | .encrypt0, .arr [p, u, y] =>
    three p u y (fun pb uh yb => .ok { prot := pb, unprot := uh, payload := yb })
  | .sign, .arr [p, u, y, s] =>
    three p u y (fun pb uh yb =>
      match untag s with
      | .arr ss => (match decSeq sigField ss with
          | .ok l => .ok { prot := pb, unprot := uh, payload := yb, sigs := some l }
          | .err => .err | .unmodelled => .unmodelled)
      | .simple 22 => .ok { prot := pb, unprot := uh, payload := yb, sigs := none }
      | .simple 23 => .ok { prot := pb, unprot := uh, payload := yb, sigs := none }
      | _ => .err)
  | .mac, .arr [p, u, y, a, r] =>
    three p u y (fun pb uh yb =>
      match bytesField a, untag r with
      | .ok ab, .arr rs => (match decSeq recipField rs with
          | .ok l => .ok { prot := pb, unprot := uh, payload := yb, auth := ab, recips := some l }
          | .err => .err | .unmodelled => .unmodelled)
      | .ok ab, .simple 22 => .ok { prot := pb, unprot := uh, payload := yb, auth := ab, recips := none }
      | .ok ab, .simple 23 => .ok { prot := pb, unprot := uh, payload := yb, auth := ab, recips := none }
      | .err, _ => .err
      | .unmodelled, _ => .unmodelled
      | _, _ => .err)
  | .encrypt, .arr [p, u, y, r] =>
    three p u y (fun pb uh yb =>
      match untag r with
      | .arr rs => (match decSeq recipField rs with
          | .ok l => .ok { prot := pb, unprot := uh, payload := yb, recips := some l }
          | .err => .err | .unmodelled => .unmodelled)
      | .simple 22 => .ok { prot := pb, unprot := uh, payload := yb, recips := none }
      | .simple 23 => .ok { prot := pb, unprot := uh, payload := yb, recips := none }
      | _ => .err)
  | _, _ => .err

/-- a decoded message object: the public fields plus the retained wire struct -/
structure Msg where
  kind : Kind
  prot : Hdr
  unprot : Hdr
  payload : PVal
  mm : Option Wire
deriving Repr

/-- `Recipient.UnmarshalCBOR` dispatches on the first byte of the raw item: only `0x83` and `0x84`
    (shortest-form array heads, no tag) are recipients; nested ones go through the same function. -/
def recipFirstBytesOk (raw : Bytes) : Bool :=
  match raw with
  | 0x83 :: _ => true
  | 0x84 :: _ =>
    (match rawArrayElems raw with
     | some [_, _, _, subs] =>
       (match rawArrayElems subs with
        | some l => l.all (fun s => match s with | 0x83 :: _ => true | 0x84 :: _ => true | _ => false)
        | none => true)
     | _ => true)
  | _ => false

/-- the recipients member (last element of the wire array of Mac / Encrypt) passes the first-byte dispatch -/
def recipientsRawOk (k : Kind) (data : Bytes) : Bool :=
  if k == .mac || k == .encrypt then
    match rawArrayElems data with
    | some elems =>
      (match elems.getLast? with
       | some last =>
         (match rawArrayElems last with
          | some rs => rs.all recipFirstBytesOk
          | none => true)
       | none => true)
    | none => true
  else true

/-- `UnmarshalCBOR` of a message of kind `k` with payload type `mode` -/
def unmarshal (k : Kind) (mode : PMode) (data : Bytes) : Dec Msg :=
  match decodeAll (applyStrip data (stripSteps k)) with
  | none => .err
  | some c =>
    if !recipientsRawOk k (applyStrip data (stripSteps k)) then .err else
    match wireOfCbor k c with
    | .err => .err
    | .unmodelled => .unmodelled
    | .ok w =>
      -- Mac / Encrypt need at least one recipient
      if (k == .mac || k == .encrypt) && (w.recips.getD []).isEmpty then .err
      else
        match hdrFromBytes w.prot with
        | .err => .err
        | .unmodelled => .unmodelled
        | .ok pm =>
          if k == .encrypt0 || k == .encrypt then
            .ok ⟨k, some pm, w.unprot, zeroPayload mode, some w⟩
          else
            match payloadFromWire mode w.payload (zeroPayload mode) with
            | .err => .err
            | .unmodelled => .unmodelled
            | .ok pv => .ok ⟨k, some pm, w.unprot, pv, some w⟩

/-! ## operations -/

/-- the `alg` check shared by every entry point: present in the prot map and different from the key's -/
def headerAlg (p : CMap) : Int :=
  match getInt (p.lookup (lbl Iana.HeaderParameterAlg)) with | .ok v => v | _ => 0

def algMismatch (p : CMap) (keyAlg : Int) : Bool :=
  p.has (lbl Iana.HeaderParameterAlg) && (headerAlg p != keyAlg)

/-- nil prot ↦ `{1: key alg}` (if the key has one); otherwise the alg check -/
def fillProtected (h : Hdr) (k : KeyView) : Res CMap :=
  match h with
  | none => .ok (if k.alg != 0 then [(lbl Iana.HeaderParameterAlg, .int .alg k.alg)] else [])
  | some p => if algMismatch p k.alg then .err "alg-mismatch" else .ok p

/-- nil unprot ↦ `{4: kid}` when the key has a non-empty kid -/
def fillUnprotected (h : Hdr) (k : KeyView) : CMap :=
  match h with
  | none => (match k.kid with
      | some kid => if kid.isEmpty then [] else [(lbl Iana.HeaderParameterKid, .bstr kid)]
      | none => [])
  | some u => u

def tobe (k : Kind) (w : Wire) (signProt ext : Option Bytes) : Res Bytes :=
  match toBeBytes k.tb (fields3 w.prot w.payload) (paramsSign signProt ext) with
  | some b => .ok b
  | none => .panic "toBe-literal"

/-- `Sign1Message.WithSign` / `Mac0Message.Compute` / `MacMessage.Compute`, `auth` being the primitive -/
def produceAuth (m : Msg) (key : KeyView) (auth : Bytes → Res Bytes) (ext : Option Bytes) : Res Msg :=
  match fillProtected m.prot key with
  | .err e => .err e
  | .panic s => .panic s
  | .ok prot =>
    let unprot := fillUnprotected m.unprot key
    match hdrBytes (some prot), payloadToWire m.payload with
    | .ok pb, .ok yb =>
      let w : Wire := { prot := some pb, unprot := some unprot, payload := yb }
      (match tobe m.kind w none ext with
       | .ok tb =>
         (match auth tb with
          | .ok a => .ok { m with prot := some prot, unprot := some unprot, mm := some { w with auth := some a } }
          | .err e => .err e
          | .panic s => .panic s)
       | .err e => .err e
       | .panic s => .panic s)
    | .err e, _ => .err e
    | _, .err e => .err e
    | .panic s, _ => .panic s
    | _, .panic s => .panic s

/-- `Sign1Message.Verify` / `Mac0Message.Verify` / `MacMessage.Verify` -/
def verifyAuth (m : Msg) (key : KeyView) (check : Bytes → Bytes → Res Unit) (ext : Option Bytes) : Res Unit :=
  match m.mm with
  | none => .err "not-decoded"
  | some w =>
    match w.auth with
    | none => .err "not-decoded"
    | some a =>
      if algMismatch (m.prot.getD []) key.alg then .err "alg-mismatch"
      else match tobe m.kind w none ext with
        | .ok tb => check tb a
        | .err e => .err e
        | .panic s => .panic s

/-- `Signature.Kid()` -/
def SigObj.kid (s : SigObj) : Option Bytes :=
  match getBytes ((s.unprot.getD []).lookup (lbl Iana.HeaderParameterKid)) with
  | .ok b => b
  | _ => none

/-- `Verifiers.Lookup(kid)`: first verifier whose key id is byte-equal (nil and empty are equal) -/
def lookupVerifier (vs : List Verifier) (kid : Option Bytes) : Option Verifier :=
  vs.find? (fun v => (v.key.kid.getD []) == (kid.getD []))

/-- `SignMessage.Verify` -/
def verifySign (m : Msg) (vs : List Verifier) (ext : Option Bytes) : Res Unit :=
  if vs.isEmpty then .err "no-verifiers"
  else match m.mm with
    | none => .err "not-decoded"
    | some w =>
      match w.sigs with
      | none => .err "not-decoded"
      | some sigs =>
        if sigs.isEmpty then .err "no-signatures"
        else
          let rec go : List SigObj → Res Unit
            | [] => .ok ()
            | s :: rest =>
              match lookupVerifier vs s.kid with
              | none => .err "no-verifier"
              | some v =>
                if algMismatch s.prot v.key.alg then .err "alg-mismatch"
                else
                  let sp : Res Bytes := match s.protRaw with
                    | some b => .ok b
                    | none => (match hdrBytes (some s.prot) with | .ok b => .ok b | _ => .ok [])
                  match sp with
                  | .ok spb =>
                    (match tobe .sign w (some spb) ext with
                     | .ok tb =>
                       (match v.verify tb (s.signature.getD []) with
                        | .ok _ => go rest
                        | .err e => .err e
                        | .panic p => .panic p)
                     | .err e => .err e
                     | .panic p => .panic p)
                  | .err e => .err e
                  | .panic p => .panic p
          go sigs

/-- `SignMessage.WithSign` -/
def produceSign (m : Msg) (signers : List Signer) (ext : Option Bytes) : Res Msg :=
  if signers.isEmpty then .err "no-signers"
  else
    let prot := m.prot.getD []
    let unprot := m.unprot.getD []
    match hdrBytes (some prot), payloadToWire m.payload with
    | .ok pb, .ok yb =>
      let w : Wire := { prot := some pb, unprot := some unprot, payload := yb }
      let rec go : List Signer → List SigObj → Res (List SigObj)
        | [], acc => .ok acc.reverse
        | s :: rest, acc =>
          let sp : CMap := if s.key.alg != 0 then [(lbl Iana.HeaderParameterAlg, .int .alg s.key.alg)] else []
          let su : CMap := match s.key.kid with
            | some kid => if kid.isEmpty then [] else [(lbl Iana.HeaderParameterKid, .bstr kid)]
            | none => []
          match hdrBytes (some sp) with
          | .ok spb =>
            (match tobe .sign w (some spb) ext with
             | .ok tb =>
               (match s.sign tb with
                | .ok sig => go rest (⟨sp, none, some su, some sig⟩ :: acc)
                | .err e => .err e
                | .panic p => .panic p)
             | .err e => .err e
             | .panic p => .panic p)
          | .err e => .err e
          | .panic p => .panic p
      (match go signers [] with
       | .ok sigs => .ok { m with prot := some prot, unprot := some unprot, mm := some { w with sigs := some sigs } }
       | .err e => .err e
       | .panic p => .panic p)
    | .err e, _ => .err e
    | _, .err e => .err e
    | .panic s, _ => .panic s
    | _, .panic s => .panic s

/-! ### AEAD kinds: nonce selection (RFC 9052 §3.1 IV / Partial IV) -/

/-- `xorIV(contextIV, partialIV, size)`: left-pad the partial IV to `size`, xor the context IV over it.
    `copy(iv[size-len(partialIV):], partialIV)` panics when the partial IV is longer than `size`. -/
def xorIV (contextIV partialIV : Bytes) (size : Nat) : Res Bytes :=
  if partialIV.length > size then .panic "xorIV-slice"
  else
    let padded := List.replicate (size - partialIV.length) (0 : UInt8) ++ partialIV
    .ok (padded.zipIdx.map (fun (b, i) => match contextIV[i]? with | some c => b ^^^ c | none => b))

inductive NonceChoice
  | given (iv : Bytes)        -- caller's IV, or derived from the Partial IV
  | random                    -- draw `nonceSize` random bytes and publish them in header 5

/-- the nonce `Decrypt` hands to the AEAD: without IV and Partial IV it is empty (and the AEAD refuses it) -/
def NonceChoice.ivOrEmpty : NonceChoice → Bytes
  | .given iv => iv
  | .random => []

/-- the nonce logic shared by `Encrypt` and `Decrypt` -/
def selectNonce (unprot : CMap) (key : KeyView) (ivSize : Nat) : Res NonceChoice :=
  match getBytes (unprot.lookup (lbl Iana.HeaderParameterIV)), getBytes (unprot.lookup (lbl Iana.HeaderParameterPartialIV)) with
  | .ok iv, .ok piv =>
    let ivb := iv.getD []
    let pivb := piv.getD []
    if pivb.length > 0 then
      if ivb.length > 0 then .err "iv-and-partial-iv"
      else if pivb.length ≥ ivSize then .err "partial-iv-too-long"
      else match key.baseIV with
        | .ok b =>
          if (b.getD []).isEmpty then .err "base-iv-missing"
          else (match xorIV (b.getD []) pivb ivSize with
            | .ok n => .ok (.given n)
            | .err e => .err e
            | .panic s => .panic s)
        | .err e => .err e
        | .panic s => .panic s
    else if ivb.isEmpty then .ok .random
    else .ok (.given ivb)
  | .err e, _ => .err e
  | _, .err e => .err e
  | .panic s, _ => .panic s
  | _, .panic s => .panic s

/-- `Encrypt0Message.Encrypt` / `EncryptMessage.Encrypt`; `rnd` is the random nonce that would be drawn -/
def produceEnc (m : Msg) (e : Encryptor) (ext : Option Bytes) (rnd : Bytes) : Res Msg :=
  match fillProtected m.prot e.key with
  | .err er => .err er
  | .panic s => .panic s
  | .ok prot =>
    let unprot0 := fillUnprotected m.unprot e.key
    match selectNonce unprot0 e.key e.nonceSize with
    | .err er => .err er
    | .panic s => .panic s
    | .ok choice =>
      let (iv, unprot) := match choice with
        | .given iv => (iv, unprot0)
        | .random => (rnd, unprot0.set (lbl Iana.HeaderParameterIV) (.bytes rnd))
      match hdrBytes (some prot), payloadToWire m.payload with
      | .ok pb, .ok pt =>
        let w : Wire := { prot := some pb, unprot := some unprot, payload := none }
        (match tobe m.kind w none ext with
         | .ok aad =>
           (match e.encrypt iv (pt.getD []) aad with
            | .ok ct => .ok { m with prot := some prot, unprot := some unprot, mm := some { w with payload := some ct } }
            | .err er => .err er
            | .panic s => .panic s)
         | .err er => .err er
         | .panic s => .panic s)
      | .err er, _ => .err er
      | _, .err er => .err er
      | .panic s, _ => .panic s
      | _, .panic s => .panic s

/-- `Decrypt`: returns the message with its payload filled — on every error the message is returned unchanged
    by the caller (this function yields only the new payload on success) -/
def decryptEnc (m : Msg) (mode : PMode) (e : Encryptor) (ext : Option Bytes) : Res PVal :=
  match m.mm with
  | none => .err "not-decoded"
  | some w =>
    match w.payload with
    | none => .err "not-decoded"
    | some ct =>
      if algMismatch (m.prot.getD []) e.key.alg then .err "alg-mismatch"
      else
        match tobe m.kind { w with payload := none } none ext with
        | .err er => .err er
        | .panic s => .panic s
        | .ok aad =>
          match selectNonce (m.unprot.getD []) e.key e.nonceSize with
          | .err er => .err er
          | .panic s => .panic s
          | .ok choice =>
            match e.decrypt choice.ivOrEmpty ct aad with
            | .err er => .err er
            | .panic s => .panic s
            | .ok pt =>
              match payloadFromWire mode (some pt) m.payload with
              | .ok pv => .ok pv
              | .err => .err "payload-decode"
              | .unmodelled => .err "unmodelled"

end Cose.Msg
