import Cose.Msg.Model
import Cose.Cbor.Corollaries
/-!
# Wire round trip of the message codec (used by C01 and C09)

`marshal` emits `tag(n, array)`; every `UnmarshalCBOR` first strips byte prefixes, then decodes.  Whether or not
the prefix matched, the decoded value is the array up to enclosing tags (`untag`), which is what the field
decoding looks at.
-/
namespace Cose.Msg
open Cose.Cbor Cose.Go

theorem untag_arr (xs : List Cbor) : untag (.arr xs) = .arr xs := rfl

/-- stripping a prefix and then decoding, or decoding the tagged item: same array either way -/
theorem decode_marshalled (k : Kind) (xs : List Cbor) (hwf : WF (.arr xs)) (hd : depth (.arr xs) < maxNesting) :
    ∃ c, decodeAll (applyStrip (encode (.tag k.tagNum (.arr xs))) (stripSteps k)) = some c ∧ untag c = .arr xs := by
  have hwt : WF (.tag k.tagNum (.arr xs)) := by
    refine ⟨?_, hwf, ?_⟩
    · cases k <;> (simp only [two64]; decide +kernel)
    · have : ∀ t, t ≥ 4 → tagContentOk t (.arr xs) = true := by
        intro t ht; simp [tagContentOk]; omega
      apply this
      cases k <;> decide +kernel
  have hdt : depth (.tag k.tagNum (.arr xs)) ≤ maxNesting := by simp only [depth, isTag, Bool.false_eq_true, if_false] at hd ⊢; omega
  have hda : depth (.arr xs) ≤ maxNesting := by omega
  have tagged := decodeAll_encode _ hwt hdt
  have plain := decodeAll_encode _ hwf hda
  have henc : encode (.tag k.tagNum (.arr xs)) = head 6 k.tagNum ++ encode (.arr xs) := rfl
  rw [henc]
  -- one-byte tags
  have one : ∀ (t p1 : UInt8) (rest : Bytes), t ≠ 0xd8 →
      (applyStrip ([t] ++ rest) [([0xd8, 0x3d], 2), ([t, p1], 1)] = rest ∨
       applyStrip ([t] ++ rest) [([0xd8, 0x3d], 2), ([t, p1], 1)] = [t] ++ rest) := by
    intro t p1 rest ht
    unfold applyStrip
    simp only [List.foldl_cons, List.foldl_nil, List.singleton_append]
    have h1 : List.isPrefixOf [(0xd8 : UInt8), 0x3d] (t :: rest) = false := by
      simp [List.isPrefixOf, ht.symm]
    simp only [h1, Bool.false_eq_true, if_false]
    by_cases h2 : List.isPrefixOf [t, p1] (t :: rest) = true
    · left; simp [h2]
    · right; simp [h2]
  -- two-byte tags d8 xx with xx ≠ 3d
  have two : ∀ (x p1 : UInt8) (rest : Bytes), x ≠ 0x3d →
      (applyStrip ([0xd8, x] ++ rest) [([0xd8, 0x3d], 2), ([0xd8, x, p1], 2)] = rest ∨
       applyStrip ([0xd8, x] ++ rest) [([0xd8, 0x3d], 2), ([0xd8, x, p1], 2)] = [0xd8, x] ++ rest) := by
    intro x p1 rest hx
    unfold applyStrip
    simp only [List.foldl_cons, List.foldl_nil, List.cons_append, List.nil_append]
    have h1 : List.isPrefixOf [(0xd8 : UInt8), 0x3d] (0xd8 :: x :: rest) = false := by
      simp [List.isPrefixOf, hx.symm]
    simp only [h1, Bool.false_eq_true, if_false]
    by_cases h2 : List.isPrefixOf [0xd8, x, p1] (0xd8 :: x :: rest) = true
    · left; simp [h2]
    · right; simp [h2]
  cases k
  case sign1 =>
    have hs : stripSteps .sign1 = [([0xd8, 0x3d], 2), ([0xd2, 0x84], 1)] := by decide +kernel
    have hh : head 6 Kind.sign1.tagNum = [0xd2] := by decide +kernel
    rw [hs, hh]
    rcases one 0xd2 0x84 (encode (.arr xs)) (by decide) with h | h
    · rw [h]; exact ⟨_, plain, rfl⟩
    · rw [h, ← hh, ← henc]; exact ⟨_, tagged, rfl⟩
  case mac0 =>
    have hs : stripSteps .mac0 = [([0xd8, 0x3d], 2), ([0xd1, 0x84], 1)] := by decide +kernel
    have hh : head 6 Kind.mac0.tagNum = [0xd1] := by decide +kernel
    rw [hs, hh]
    rcases one 0xd1 0x84 (encode (.arr xs)) (by decide) with h | h
    · rw [h]; exact ⟨_, plain, rfl⟩
    · rw [h, ← hh, ← henc]; exact ⟨_, tagged, rfl⟩
  case encrypt0 =>
    have hs : stripSteps .encrypt0 = [([0xd8, 0x3d], 2), ([0xd0, 0x83], 1)] := by decide +kernel
    have hh : head 6 Kind.encrypt0.tagNum = [0xd0] := by decide +kernel
    rw [hs, hh]
    rcases one 0xd0 0x83 (encode (.arr xs)) (by decide) with h | h
    · rw [h]; exact ⟨_, plain, rfl⟩
    · rw [h, ← hh, ← henc]; exact ⟨_, tagged, rfl⟩
  case sign =>
    have hs : stripSteps .sign = [([0xd8, 0x3d], 2), ([0xd8, 0x62, 0x84], 2)] := by decide +kernel
    have hh : head 6 Kind.sign.tagNum = [0xd8, 0x62] := by decide +kernel
    rw [hs, hh]
    rcases two 0x62 0x84 (encode (.arr xs)) (by decide) with h | h
    · rw [h]; exact ⟨_, plain, rfl⟩
    · rw [h, ← hh, ← henc]; exact ⟨_, tagged, rfl⟩
  case mac =>
    have hs : stripSteps .mac = [([0xd8, 0x3d], 2), ([0xd8, 0x61, 0x85], 2)] := by decide +kernel
    have hh : head 6 Kind.mac.tagNum = [0xd8, 0x61] := by decide +kernel
    rw [hs, hh]
    rcases two 0x61 0x85 (encode (.arr xs)) (by decide) with h | h
    · rw [h]; exact ⟨_, plain, rfl⟩
    · rw [h, ← hh, ← henc]; exact ⟨_, tagged, rfl⟩
  case encrypt =>
    have hs : stripSteps .encrypt = [([0xd8, 0x3d], 2), ([0xd8, 0x60, 0x84], 2)] := by decide +kernel
    have hh : head 6 Kind.encrypt.tagNum = [0xd8, 0x60] := by decide +kernel
    rw [hs, hh]
    rcases two 0x60 0x84 (encode (.arr xs)) (by decide) with h | h
    · rw [h]; exact ⟨_, plain, rfl⟩
    · rw [h, ← hh, ← henc]; exact ⟨_, tagged, rfl⟩

theorem bytesField_bytesCbor (b : Option Bytes) : bytesField (bytesCbor b) = .ok b := by
  cases b <;> rfl

theorem wf_bytesCbor (b : Option Bytes) (h : ∀ x, b = some x → x.length < two64) : WF (bytesCbor b) := by
  cases b with
  | none => simp [bytesCbor, Cbor.null, WF]
  | some x => simpa [bytesCbor, WF] using h x rfl

theorem depth_bytesCbor (b : Option Bytes) : depth (bytesCbor b) = 0 := by cases b <;> rfl

/-- **the four-member kinds (COSE_Sign1, COSE_Mac0)**: decoding the array recovers protected, payload and
    signature / tag byte for byte, and the unprotected member as the decoding of its own encoding -/
theorem wire4_fields (k : Kind) (hk : k = .sign1 ∨ k = .mac0) (p y a : Option Bytes) (u : Cbor) :
    wireOfCbor k (.arr [bytesCbor p, u, bytesCbor y, bytesCbor a]) =
      (match hdrField u with
       | .ok uh => .ok { prot := p, unprot := uh, payload := y, auth := a }
       | .err => .err
       | .unmodelled => .unmodelled) := by
  rcases hk with rfl | rfl <;>
  · simp only [wireOfCbor, untag_arr, bytesField_bytesCbor]
    cases hdrField u <;> rfl

theorem wire3_fields (p y : Option Bytes) (u : Cbor) :
    wireOfCbor .encrypt0 (.arr [bytesCbor p, u, bytesCbor y]) =
      (match hdrField u with
       | .ok uh => .ok { prot := p, unprot := uh, payload := y }
       | .err => .err
       | .unmodelled => .unmodelled) := by
  simp only [wireOfCbor, untag_arr, bytesField_bytesCbor]
  cases hdrField u <;> rfl

end Cose.Msg
