import Cose.Gen.Layouts
import Cose.Cbor.Encode
/-!
# Interpreter of the generated `toSign` / `toMac` / `toEnc` literals

`Gen.Layouts.tb_*` is the `[]any{…}` literal of each function as it stands in the source (context string,
which wire fields, which parameters, which parameters are rewritten nil ↦ empty).  `toBe` evaluates it,
so the bytes the *model* hands to the primitives are regenerated from the code.
-/
namespace Cose.Msg
open Cose.Cbor Cose.Gen.Layouts

def natsToBytes (l : List Nat) : Bytes := l.map UInt8.ofNat

/-- how fxamacker encodes a `[]byte` inside `[]any`: nil ↦ null -/
def bytesElem : Option Bytes → Cbor
  | none => Cbor.null
  | some b => .bstr b

/-- evaluate one element of the literal -/
def tobeElem (tb : ToBe) (field param : String → Option (Option Bytes)) (e : String × String × List Nat) : Option Cbor :=
  if e.1 == "lit" then some (.tstr (natsToBytes e.2.2))
  else if e.1 == "field" then (field e.2.1).map bytesElem
  else if e.1 == "param" then
    (param e.2.1).map (fun v => if tb.nilToEmpty.contains e.2.1 then .bstr (v.getD []) else bytesElem v)
  else none

/-- the CBOR array the function marshals (`none` if the literal mentions something unknown) -/
def toBe (tb : ToBe) (field param : String → Option (Option Bytes)) : Option Cbor :=
  (tb.elems.mapM (tobeElem tb field param)).map .arr

/-- the bytes handed to the signature / MAC / AEAD algorithm -/
def toBeBytes (tb : ToBe) (field param : String → Option (Option Bytes)) : Option Bytes :=
  (toBe tb field param).map encode

/-- wire fields of the four-member messages by name -/
def fields3 (prot payload : Option Bytes) : String → Option (Option Bytes)
  | "Protected" => some prot
  | "Payload" => some payload
  | _ => none

def paramsExt (ext : Option Bytes) : String → Option (Option Bytes)
  | "external_aad" => some ext
  | _ => none

def paramsSign (signProtected ext : Option Bytes) : String → Option (Option Bytes)
  | "external_aad" => some ext
  | "sign_protected" => some signProtected
  | _ => none

end Cose.Msg
