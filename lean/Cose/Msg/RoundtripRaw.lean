import Cose.Msg.Roundtrip
import Cose.Cbor.RawLemmas
/-!
# The stripped input of `UnmarshalCBOR` and its raw members (for the recipients' first-octet dispatch)
-/
namespace Cose.Msg
open Cose.Cbor Cose.Go

/-- after the prefix stripping of `UnmarshalCBOR`, a marshalled message is either the bare array or still the tagged one -/
theorem applyStrip_marshalled (k : Kind) (xs : List Cbor) :
    applyStrip (encode (.tag k.tagNum (.arr xs))) (stripSteps k) = encode (.arr xs) ∨
    applyStrip (encode (.tag k.tagNum (.arr xs))) (stripSteps k) = encode (.tag k.tagNum (.arr xs)) := by
  have henc : encode (.tag k.tagNum (.arr xs)) = head 6 k.tagNum ++ encode (.arr xs) := rfl
  rw [henc]
  have one : ∀ (t p1 : UInt8) (rest : Bytes), t ≠ 0xd8 →
      (applyStrip ([t] ++ rest) [([0xd8, 0x3d], 2), ([t, p1], 1)] = rest ∨
       applyStrip ([t] ++ rest) [([0xd8, 0x3d], 2), ([t, p1], 1)] = [t] ++ rest) := by
    intro t p1 rest ht
    unfold applyStrip
    simp only [List.foldl_cons, List.foldl_nil, List.singleton_append]
    have h1 : List.isPrefixOf [(0xd8 : UInt8), 0x3d] (t :: rest) = false := by
      simp [List.isPrefixOf, ht.symm]
    simp only [h1, Bool.false_eq_true, if_false]
    by_cases h2 : List.isPrefixOf [t, p1] (t :: rest) = true
    · left; simp [h2]
    · right; simp [h2]
  have two : ∀ (x p1 : UInt8) (rest : Bytes), x ≠ 0x3d →
      (applyStrip ([0xd8, x] ++ rest) [([0xd8, 0x3d], 2), ([0xd8, x, p1], 2)] = rest ∨
       applyStrip ([0xd8, x] ++ rest) [([0xd8, 0x3d], 2), ([0xd8, x, p1], 2)] = [0xd8, x] ++ rest) := by
    intro x p1 rest hx
    unfold applyStrip
    simp only [List.foldl_cons, List.foldl_nil, List.cons_append, List.nil_append]
    have h1 : List.isPrefixOf [(0xd8 : UInt8), 0x3d] (0xd8 :: x :: rest) = false := by
      simp [List.isPrefixOf, hx.symm]
    simp only [h1, Bool.false_eq_true, if_false]
    by_cases h2 : List.isPrefixOf [0xd8, x, p1] (0xd8 :: x :: rest) = true
    · left; simp [h2]
    · right; simp [h2]
  cases k
  case sign1 =>
    have hs : stripSteps .sign1 = [([0xd8, 0x3d], 2), ([0xd2, 0x84], 1)] := by decide +kernel
    have hh : head 6 Kind.sign1.tagNum = [0xd2] := by decide +kernel
    rw [hs, hh]; exact one 0xd2 0x84 _ (by decide)
  case mac0 =>
    have hs : stripSteps .mac0 = [([0xd8, 0x3d], 2), ([0xd1, 0x84], 1)] := by decide +kernel
    have hh : head 6 Kind.mac0.tagNum = [0xd1] := by decide +kernel
    rw [hs, hh]; exact one 0xd1 0x84 _ (by decide)
  case encrypt0 =>
    have hs : stripSteps .encrypt0 = [([0xd8, 0x3d], 2), ([0xd0, 0x83], 1)] := by decide +kernel
    have hh : head 6 Kind.encrypt0.tagNum = [0xd0] := by decide +kernel
    rw [hs, hh]; exact one 0xd0 0x83 _ (by decide)
  case sign =>
    have hs : stripSteps .sign = [([0xd8, 0x3d], 2), ([0xd8, 0x62, 0x84], 2)] := by decide +kernel
    have hh : head 6 Kind.sign.tagNum = [0xd8, 0x62] := by decide +kernel
    rw [hs, hh]; exact two 0x62 0x84 _ (by decide)
  case mac =>
    have hs : stripSteps .mac = [([0xd8, 0x3d], 2), ([0xd8, 0x61, 0x85], 2)] := by decide +kernel
    have hh : head 6 Kind.mac.tagNum = [0xd8, 0x61] := by decide +kernel
    rw [hs, hh]; exact two 0x61 0x85 _ (by decide)
  case encrypt =>
    have hs : stripSteps .encrypt = [([0xd8, 0x3d], 2), ([0xd8, 0x60, 0x84], 2)] := by decide +kernel
    have hh : head 6 Kind.encrypt.tagNum = [0xd8, 0x60] := by decide +kernel
    rw [hs, hh]; exact two 0x60 0x84 _ (by decide)

/-- the raw members of a (possibly still tagged) marshalled message are the encodings of the array's members -/
theorem rawArrayElems_tagged (t : Nat) (ht : t < 18446744073709551616) (xs : List Cbor) (hw : WF (.arr xs)) :
    rawArrayElems (encode (.tag t (.arr xs))) = some (xs.map encode) := by
  simp only [WF] at hw
  have hlen : xs.length < 18446744073709551616 := by have := hw.1; unfold maxElems at this; omega
  have hd : decHead (encode (.arr xs)) = some (4, aiOf xs.length, xs.length, encodeList xs) := by
    simp only [encode]; exact decHead_head 4 xs.length _ (by omega) hlen
  have hdt : decHead (encode (.tag t (.arr xs))) = some (6, aiOf t, t, encode (.arr xs)) := by
    simp only [encode]; exact decHead_head 6 t _ (by omega) ht
  have hu : rawUntag 64 (encode (.tag t (.arr xs))) = encode (.arr xs) := by
    simp only [rawUntag, hdt, hd]
  unfold rawArrayElems
  simp only [hu, hd]
  have := takeItems_encodeList xs hw.2 (3 * (encode (.tag t (.arr xs))).length + 3) [] (fun x hx => by
    have := mem_size_le_encodeList xs hw.2 x hx
    simp only [encode, List.length_append]; omega)
  simpa using this

theorem rawArrayElems_marshalled (k : Kind) (xs : List Cbor) (hw : WF (.arr xs)) :
    rawArrayElems (applyStrip (encode (.tag k.tagNum (.arr xs))) (stripSteps k)) = some (xs.map encode) := by
  rcases applyStrip_marshalled k xs with h | h
  · rw [h]; exact rawArrayElems_encode_arr xs hw
  · rw [h]; exact rawArrayElems_tagged _ (by cases k <;> decide +kernel) xs hw

end Cose.Msg
