import Cose.Cbor.Encode
/-!
# RFC 9052 to-be-authenticated structures, written from the CDDL

```
Sig_structure = [ context : "Signature" / "Signature1", body_protected : empty_or_serialized_map,
                  ? sign_protected : empty_or_serialized_map, external_aad : bstr, payload : bstr ]
MAC_structure = [ context : "MAC" / "MAC0", protected : empty_or_serialized_map, external_aad : bstr, payload : bstr ]
Enc_structure = [ context : "Encrypt" / "Encrypt0" / …, protected : empty_or_serialized_map, external_aad : bstr ]
```
Byte strings "as they appear in the message": a member that is `nil` in the message (CBOR null on the wire,
e.g. a detached payload) is carried as null.
-/
namespace Cose.Spec.Rfc9052
open Cose.Cbor

def ctxSignature1 : Bytes := [83, 105, 103, 110, 97, 116, 117, 114, 101, 49]
def ctxSignature : Bytes := [83, 105, 103, 110, 97, 116, 117, 114, 101]
def ctxMAC0 : Bytes := [77, 65, 67, 48]
def ctxMAC : Bytes := [77, 65, 67]
def ctxEncrypt0 : Bytes := [69, 110, 99, 114, 121, 112, 116, 48]
def ctxEncrypt : Bytes := [69, 110, 99, 114, 121, 112, 116]

#guard "Signature1".toUTF8.toList == ctxSignature1 && "Signature".toUTF8.toList == ctxSignature
#guard "MAC0".toUTF8.toList == ctxMAC0 && "MAC".toUTF8.toList == ctxMAC
#guard "Encrypt0".toUTF8.toList == ctxEncrypt0 && "Encrypt".toUTF8.toList == ctxEncrypt

/-- a byte string as it appears in the message (nil ↦ null) -/
def asInMessage : Option Bytes → Cbor
  | none => Cbor.null
  | some b => .bstr b

/-- absent external data means the empty string -/
def externalAad (ext : Option Bytes) : Cbor := .bstr (ext.getD [])

def sigStructure1 (bodyProtected : Option Bytes) (ext : Option Bytes) (payload : Option Bytes) : Cbor :=
  .arr [.tstr ctxSignature1, asInMessage bodyProtected, externalAad ext, asInMessage payload]

def sigStructure (bodyProtected signProtected : Option Bytes) (ext : Option Bytes) (payload : Option Bytes) : Cbor :=
  .arr [.tstr ctxSignature, asInMessage bodyProtected, asInMessage signProtected, externalAad ext, asInMessage payload]

def macStructure0 (bodyProtected : Option Bytes) (ext : Option Bytes) (payload : Option Bytes) : Cbor :=
  .arr [.tstr ctxMAC0, asInMessage bodyProtected, externalAad ext, asInMessage payload]

def macStructure (bodyProtected : Option Bytes) (ext : Option Bytes) (payload : Option Bytes) : Cbor :=
  .arr [.tstr ctxMAC, asInMessage bodyProtected, externalAad ext, asInMessage payload]

def encStructure0 (bodyProtected : Option Bytes) (ext : Option Bytes) : Cbor :=
  .arr [.tstr ctxEncrypt0, asInMessage bodyProtected, externalAad ext]

def encStructure (bodyProtected : Option Bytes) (ext : Option Bytes) : Cbor :=
  .arr [.tstr ctxEncrypt, asInMessage bodyProtected, externalAad ext]

end Cose.Spec.Rfc9052
