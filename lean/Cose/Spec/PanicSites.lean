import Cose.Gen.PanicSites
/-!
# Inventory of panic-capable sites, as accounted for (C07)

Every entry of the typed-AST inventory regenerated from the source (`Gen.PanicSites.panicSites`: slice and index
expressions, unchecked type assertions, `panic` calls, non-constant divisions and `make` sizes, writes into maps,
field access through pointer elements of decoded slices, calls to externals with panicking preconditions) is listed
here with the reason it cannot fire on an exported entry point (or is one of the documented `Must*` / `Unwrap*` /
`Register*` helpers).  A new site in the source makes `Props.C07.panic_sites_accounted` fail at kernel level.

Reasons (by kind):
* `slice` after `bytes.HasPrefix(data, p)` with `len(p)` ≥ the slice bound (all `UnmarshalCBOR`, `RemoveCBORTag`);
  `data[0]` after `len(data) == 0` is refused; `xorIV`: guarded by `len(partialIV) >= ivSize` (theorem `xorIV_no_panic`);
  `ByteStr.UnmarshalJSON`: after `len(data) < 2`; `(*bstr)[0:0]`: always in range; `SumKid`: fixed array;
  ccm.go: fixed 16-byte blocks with `M`, `L` validated by `NewCCM` and `len(ciphertext) >= M` checked;
  `aesMAC.create`: non-empty input (guarded in MACCreate / MACVerify since the D1 fix) makes `len(ciphertext) >= 16`;
  `hMAC.create`: `tagSize <= hash size` by the algorithm table (C11); `aesHKDF.Read`: `fixedIV[:pad]`, `pad < 16`;
  `DecodeSignature`: after the length check; `EncodeSignature`: `sig[:n]`, `sig[n:]` of a `2n` buffer;
  `keyToPublic`: `compressed[1+size-len(x):]` with `len(x) <= size` checked (D6 fix).
* `assert`: `any(x).(T)` inside a type switch on the same `T` (payload handling); `Public().(ed25519.PublicKey)`.
* `mapwrite`: maps created non-nil just before (`Headers{}`, `key.Key{}`); nil receivers are excluded by the property.
* `ptrElem`: `r == nil` checked first (recipients; signatures since the D7 fix); `sig.Kid()` is nil-safe.
* `make`: sizes are `len(...)`, table constants or `uint16` nonce sizes.
* `ext:*`: preconditions discharged by the CheckKey / nonce-length / size gates (C11, C12, C16 theorems) or by
  construction; `reflect.Value.Interface` on the zero Value is guarded (D5 fix); `crypto.Hash.New`: hashes linked
  by the package (D15 fix) or `Available()` checked.
* `CoseMap.MarshalCBOR` (D13 fix): `rv.Int()` / `rv.Uint()` under a `Kind()` switch on exactly the signed / unsigned
  kinds; the `seen` map is made non-nil with `len(m)`; its keys are map keys of `m` already, hence hashable.
* `panic`: `MustMarshalCBOR` / `UnwrapBytes` / `Register*` (documented, excluded) and `ccm.Seal` (length now
  checked by the caller, D3 fix).
-/
namespace Cose.Spec.PanicSites

def expectedPanicSites : List (String × List (String × Nat)) := [
  ("cose.Encrypt0Message.Decrypt", [("assert", 2)]),
  ("cose.Encrypt0Message.Encrypt", [("mapwrite", 3)]),
  ("cose.Encrypt0Message.UnmarshalCBOR", [("slice", 2)]),
  ("cose.EncryptMessage.Decrypt", [("assert", 2)]),
  ("cose.EncryptMessage.Encrypt", [("mapwrite", 3)]),
  ("cose.EncryptMessage.UnmarshalCBOR", [("slice", 2)]),
  ("cose.KDFContext.UnmarshalCBOR", [("index", 1)]),
  ("cose.Mac0Message.Compute", [("mapwrite", 2)]),
  ("cose.Mac0Message.UnmarshalCBOR", [("assert", 2), ("slice", 2)]),
  ("cose.MacMessage.Compute", [("mapwrite", 2)]),
  ("cose.MacMessage.UnmarshalCBOR", [("assert", 2), ("slice", 2)]),
  ("cose.Recipient.UnmarshalCBOR", [("index", 1), ("ptrElem", 1)]),
  ("cose.RemoveCBORTag", [("slice", 3)]),
  ("cose.Sign1Message.UnmarshalCBOR", [("assert", 2), ("slice", 2)]),
  ("cose.Sign1Message.WithSign", [("mapwrite", 2)]),
  ("cose.SignMessage.UnmarshalCBOR", [("assert", 2), ("slice", 2)]),
  ("cose.SignMessage.Verify", [("ptrElem", 7)]),
  ("cose.SignMessage.WithSign", [("mapwrite", 2)]),
  ("cose.SuppPubInfo.UnmarshalCBOR", [("index", 1)]),
  ("cose.xorIV", [("index", 2), ("make", 1), ("slice", 1)]),
  ("key.ByteStr.UnmarshalJSON", [("index", 2), ("slice", 2)]),
  ("key.ByteStr.UnmarshalText", [("slice", 1)]),
  ("key.ComputeHash", [("ext:crypto.Hash.New", 1)]),
  ("key.CoseMap.GetBool", [("ext:reflect.Value.Bool", 1)]),
  ("key.CoseMap.GetBytes", [("ext:reflect.Value.Bytes", 1)]),
  ("key.CoseMap.GetInt64", [("ext:reflect.Value.Int", 1), ("ext:reflect.Value.Uint", 1)]),
  ("key.CoseMap.GetMap", [("ext:reflect.Value.Interface", 1), ("ext:reflect.Value.Len", 1), ("ext:reflect.Value.MapRange", 1), ("make", 1), ("mapwrite", 1)]),
  ("key.CoseMap.GetUint64", [("ext:reflect.Value.Int", 1), ("ext:reflect.Value.Uint", 1)]),
  ("key.CoseMap.MarshalCBOR", [("ext:reflect.Value.Int", 1), ("ext:reflect.Value.Uint", 1), ("make", 1), ("mapwrite", 1)]),
  ("key.CoseMap.Set", [("mapwrite", 1)]),
  ("key.CoseMap.UnmarshalCBOR", [("make", 1), ("mapwrite", 1)]),
  ("key.GetRandomBytes", [("make", 1)]),
  ("key.GetRandomUint32", [("ext:encoding/binary.bigEndian.Uint32", 1)]),
  ("key.Key.Ops", [("index", 1), ("make", 2)]),
  ("key.Key.SetKid", [("mapwrite", 1)]),
  ("key.Key.SetOps", [("mapwrite", 1)]),
  ("key.MustMarshalCBOR", [("panic", 1)]),
  ("key.RegisterEncryptor", [("mapwrite", 1), ("panic", 1)]),
  ("key.RegisterMACer", [("mapwrite", 1), ("panic", 1)]),
  ("key.RegisterSigner", [("mapwrite", 1), ("panic", 1)]),
  ("key.RegisterVerifier", [("mapwrite", 1), ("panic", 1)]),
  ("key.Signers.KeySet", [("index", 1), ("make", 1)]),
  ("key.SumKid", [("slice", 1)]),
  ("key.UnwrapBytes", [("panic", 1)]),
  ("key.Verifiers.KeySet", [("index", 1), ("make", 1)]),
  ("key.toInt", [("ext:reflect.Value.Elem", 1), ("ext:reflect.Value.Int", 1), ("ext:reflect.Value.Interface", 3), ("ext:reflect.Value.Uint", 1)]),
  ("key.toKey", [("ext:reflect.Value.Elem", 1), ("ext:reflect.Value.Int", 1), ("ext:reflect.Value.Interface", 3), ("ext:reflect.Value.Uint", 1)]),
  ("key_aesccm.ccm.Open", [("ext:crypto/cipher.Block.Encrypt", 1), ("ext:crypto/cipher.NewCTR", 1), ("ext:crypto/cipher.Stream.XORKeyStream", 1), ("index", 2), ("make", 2), ("slice", 6)]),
  ("key_aesccm.ccm.Seal", [("ext:crypto/cipher.Block.Encrypt", 1), ("ext:crypto/cipher.NewCTR", 1), ("ext:crypto/cipher.Stream.XORKeyStream", 1), ("index", 2), ("panic", 1), ("slice", 5)]),
  ("key_aesccm.ccm.cbcData", [("slice", 4)]),
  ("key_aesccm.ccm.cbcRound", [("ext:crypto/cipher.Block.Encrypt", 1), ("index", 2)]),
  ("key_aesccm.ccm.tag", [("ext:crypto/cipher.Block.Encrypt", 1), ("ext:encoding/binary.bigEndian.PutUint16", 1), ("ext:encoding/binary.bigEndian.PutUint32", 1), ("ext:encoding/binary.bigEndian.PutUint64", 2), ("slice", 14)]),
  ("key_aesccm.sliceForAppend", [("make", 1), ("slice", 2)]),
  ("key_aesgcm.aesGCM.Decrypt", [("ext:crypto/cipher.AEAD.Open", 1)]),
  ("key_aesgcm.aesGCM.Encrypt", [("ext:crypto/cipher.AEAD.Seal", 1)]),
  ("key_aesmac.aesMAC.create", [("ext:crypto/cipher.BlockMode.CryptBlocks", 1), ("ext:crypto/cipher.NewCBCEncrypter", 1), ("make", 2), ("slice", 1)]),
  ("key_chacha20poly1305.chacha.Decrypt", [("ext:crypto/cipher.AEAD.Open", 1)]),
  ("key_chacha20poly1305.chacha.Encrypt", [("ext:crypto/cipher.AEAD.Seal", 1)]),
  ("key_ecdh.KeyFromPublic", [("slice", 2)]),
  ("key_ecdh.ToCompressedKey", [("mapwrite", 4)]),
  ("key_ecdh.ToPublicKey", [("mapwrite", 7), ("slice", 2)]),
  ("key_ecdh.keyToPublic", [("index", 2), ("make", 1), ("slice", 1)]),
  ("key_ecdsa.DecodeSignature", [("slice", 2)]),
  ("key_ecdsa.EncodeSignature", [("make", 1), ("slice", 2)]),
  ("key_ecdsa.KeyToPrivate", [("ext:crypto/elliptic.Curve.ScalarBaseMult", 1)]),
  ("key_ecdsa.ToCompressedKey", [("mapwrite", 4)]),
  ("key_ecdsa.ToPublicKey", [("ext:crypto/elliptic.Curve.ScalarBaseMult", 1), ("mapwrite", 5)]),
  ("key_ecdsa.coordBytes", [("ext:math/big.Int.FillBytes", 1), ("make", 1)]),
  ("key_ecdsa.i2osp", [("ext:math/big.Int.FillBytes", 1)]),
  ("key_ecdsa.keyToPublic", [("ext:crypto/elliptic.Curve.IsOnCurve", 1), ("index", 2), ("make", 1), ("slice", 1)]),
  ("key_ed25519.KeyFromPrivate", [("assert", 1)]),
  ("key_ed25519.KeyFromSeed", [("ext:crypto/ed25519.NewKeyFromSeed", 1)]),
  ("key_ed25519.KeyToPrivate", [("assert", 1), ("ext:crypto/ed25519.NewKeyFromSeed", 1)]),
  ("key_ed25519.ToPublicKey", [("assert", 1), ("ext:crypto/ed25519.NewKeyFromSeed", 1), ("mapwrite", 4)]),
  ("key_ed25519.ed25519Signer.Sign", [("ext:crypto/ed25519.Sign", 1)]),
  ("key_ed25519.ed25519Verifier.Verify", [("ext:crypto/ed25519.Verify", 1)]),
  ("key_hkdf.HKDF256", [("make", 1)]),
  ("key_hkdf.HKDF512", [("make", 1)]),
  ("key_hkdf.HKDFAES", [("make", 1)]),
  ("key_hkdf.aesHKDF.Read", [("ext:crypto/cipher.BlockMode.CryptBlocks", 1), ("ext:crypto/cipher.NewCBCEncrypter", 1), ("slice", 7)]),
  ("key_hmac.hMAC.create", [("slice", 1)])
]

end Cose.Spec.PanicSites
