/-!
# RFC 8392 §3.1.4–3.1.6 / §7.2 validation rule, in plain integers (no machine arithmetic)

All instants are exact nanoseconds on one time line; claims are NumericDate seconds since the Unix epoch.
This file is the *specification* side of C18: it mentions no Go type and no wrap-around.
-/
namespace Cose.Spec.Rfc8392

/-- what a time claim can look like on the wire / in a Go map -/
inductive TimeClaim
  | absent
  | secs (n : Nat)      -- a non-negative integer number of seconds
  | invalid             -- negative, non-integer, text, null, …
deriving Repr, DecidableEq

inductive TextClaim
  | absent
  | text (s : String)
  | invalid
deriving Repr, DecidableEq

structure Claims where
  exp : TimeClaim
  nbf : TimeClaim
  iat : TimeClaim
  iss : TextClaim
  aud : TextClaim
deriving Repr, DecidableEq

structure Opts where
  expectedIssuer : String
  expectedAudience : String
  allowMissingExpiration : Bool
  expectIssuedInThePast : Bool
  skewNs : Int          -- clock skew, nanoseconds (may be negative)
  nowUnixNs : Int       -- "now", nanoseconds since the Unix epoch
deriving Repr

/-- the largest NumericDate the implementation language can represent as an instant
    (int64 seconds counted from year 1): anything above is "too large to represent". -/
def maxRepresentable : Nat := 9223372036854775807 - 62135596800

def nsOf (secs : Nat) : Int := (secs : Int) * 1000000000

/-- expiration check: present & representable & strictly after now − skew -/
def expOk (o : Opts) : TimeClaim → Bool
  | .absent => o.allowMissingExpiration
  | .invalid => false
  | .secs n => decide (n ≤ maxRepresentable) && decide (nsOf n > o.nowUnixNs - o.skewNs)

/-- not-before / issued-at check: representable & not after now + skew -/
def notAfterNowOk (o : Opts) : TimeClaim → Bool
  | .absent => true
  | .invalid => false
  | .secs n => decide (n ≤ maxRepresentable) && !decide (nsOf n > o.nowUnixNs + o.skewNs)

/-- issued-at is only compared when requested (a zero value carries no information), but must be well-typed -/
def iatOk (o : Opts) : TimeClaim → Bool
  | .absent => true
  | .invalid => false
  | .secs n => if o.expectIssuedInThePast && n != 0 then notAfterNowOk o (.secs n) else true

def textOk (expected : String) : TextClaim → Bool
  | .absent => expected == ""
  | .invalid => false
  | .text s => expected == "" || expected == s

/-- **the rule**: accept iff all five hold -/
def accept (o : Opts) (c : Claims) : Bool :=
  expOk o c.exp && notAfterNowOk o c.nbf && iatOk o c.iat && textOk o.expectedIssuer c.iss &&
    textOk o.expectedAudience c.aud

/-- a validator may be constructed iff the skew is at most ten minutes -/
def skewAllowed (skewNs : Int) : Bool := decide (skewNs ≤ 10 * 60 * 1000000000)

end Cose.Spec.Rfc8392
