/-
Short-Weierstrass prime curves (NIST P-256 / P-384 / P-521): group law, SEC1
decompression, ECDSA verify / sign-with-given-nonce, ECDH.  Executable reference
implementation on `Nat` (GMP-backed when compiled); Jacobian coordinates internally.
Core Lean only.
-/
import Cose.Bytes
import Cose.Crypto.Sha2

namespace Cose.Crypto

/-! ### Integer helpers -/

/-- `b ^ e mod m` by right-to-left square-and-multiply. -/
def powMod (b e m : Nat) : Nat :=
  if m ≤ 1 then 0 else
  let nbits := if e == 0 then 0 else e.log2 + 1
  let rec go (fuel i : Nat) (r base : Nat) : Nat :=
    match fuel with
    | 0 => r
    | fuel + 1 =>
      let r := if e.testBit i then r * base % m else r
      go fuel (i + 1) r (base * base % m)
  go nbits 0 1 (b % m)

/-- Inverse modulo a prime `p` (Fermat); `invMod 0 p = 0`. -/
def invMod (a p : Nat) : Nat := powMod a (p - 2) p

/-- Big-endian octet string to integer. -/
def os2ip (b : Bytes) : Nat := b.foldl (fun acc x => acc * 256 + x.toNat) 0

/-- Integer to big-endian octet string of exactly `len` bytes (low-order bytes kept). -/
def i2osp (n len : Nat) : Bytes :=
  (List.range len).map (fun i => UInt8.ofNat ((n >>> (8 * (len - 1 - i))) % 256))

/-- Bit length of `n` (0 for 0). -/
def bitLen (n : Nat) : Nat := if n == 0 then 0 else n.log2 + 1

/-! ### Curves -/

/-- y² = x³ + a·x + b over GF(p), base point (gx, gy) of prime order n. -/
structure Curve where
  p : Nat
  a : Nat
  b : Nat
  gx : Nat
  gy : Nat
  n : Nat
  byteLen : Nat

def p256 : Curve where
  p  := 0xffffffff00000001000000000000000000000000ffffffffffffffffffffffff
  a  := 0xffffffff00000001000000000000000000000000fffffffffffffffffffffffc
  b  := 0x5ac635d8aa3a93e7b3ebbd55769886bc651d06b0cc53b0f63bce3c3e27d2604b
  gx := 0x6b17d1f2e12c4247f8bce6e563a440f277037d812deb33a0f4a13945d898c296
  gy := 0x4fe342e2fe1a7f9b8ee7eb4a7c0f9e162bce33576b315ececbb6406837bf51f5
  n  := 0xffffffff00000000ffffffffffffffffbce6faada7179e84f3b9cac2fc632551
  byteLen := 32

def p384 : Curve where
  p  := 0xfffffffffffffffffffffffffffffffffffffffffffffffffffffffffffffffeffffffff0000000000000000ffffffff
  a  := 0xfffffffffffffffffffffffffffffffffffffffffffffffffffffffffffffffeffffffff0000000000000000fffffffc
  b  := 0xb3312fa7e23ee7e4988e056be3f82d19181d9c6efe8141120314088f5013875ac656398d8a2ed19d2a85c8edd3ec2aef
  gx := 0xaa87ca22be8b05378eb1c71ef320ad746e1d3b628ba79b9859f741e082542a385502f25dbf55296c3a545e3872760ab7
  gy := 0x3617de4a96262c6f5d9e98bf9292dc29f8f41dbd289a147ce9da3113b5f0b8c00a60b1ce1d7e819d7a431d7c90ea0e5f
  n  := 0xffffffffffffffffffffffffffffffffffffffffffffffffc7634d81f4372ddf581a0db248b0a77aecec196accc52973
  byteLen := 48

def p521 : Curve where
  p  := 0x1ffffffffffffffffffffffffffffffffffffffffffffffffffffffffffffffffffffffffffffffffffffffffffffffffffffffffffffffffffffffffffffffffff
  a  := 0x1fffffffffffffffffffffffffffffffffffffffffffffffffffffffffffffffffffffffffffffffffffffffffffffffffffffffffffffffffffffffffffffffffc
  b  := 0x51953eb9618e1c9a1f929a21a0b68540eea2da725b99b315f3b8b489918ef109e156193951ec7e937b1652c0bd3bb1bf073573df883d2c34f1ef451fd46b503f00
  gx := 0xc6858e06b70404e9cd9e3ecb662395b4429c648139053fb521f828af606b4d3dbaa14b5e77efe75928fe1dc127a2ffa8de3348b3c1856a429bf97e7e31c2e5bd66
  gy := 0x11839296a789a3bc0045c8a5fb42c7d1bd998f54449579b446817afbd17273e662c97ee72995ef42640c550b9013fad0761353c7086a272c24088be94769fd16650
  n  := 0x1fffffffffffffffffffffffffffffffffffffffffffffffffffffffffffffffffa51868783bf2f966b7fcc0148f709a5d03bb5c9b8899c47aebb6fb71e91386409
  byteLen := 66

inductive Point where
  | inf
  | affine (x y : Nat)
  deriving BEq, DecidableEq, Repr, Inhabited

/-- Curve equation check; also requires canonical coordinates `x, y < p`. -/
def isOnCurve (c : Curve) (x y : Nat) : Bool :=
  x < c.p && y < c.p && (y * y) % c.p == (x * x * x + c.a * x + c.b) % c.p

def Curve.base (c : Curve) : Point := .affine c.gx c.gy

/-! ### Jacobian arithmetic: (X, Y, Z) ↦ (X/Z², Y/Z³); Z = 0 is the point at infinity.
All coordinates are kept reduced mod p. -/

structure JPoint where
  x : Nat
  y : Nat
  z : Nat

namespace JPoint

def infinity : JPoint := ⟨1, 1, 0⟩

def ofPoint (c : Curve) : Point → JPoint
  | .inf => infinity
  | .affine x y => ⟨x % c.p, y % c.p, 1⟩

def toPoint (c : Curve) (P : JPoint) : Point :=
  if P.z == 0 then .inf else
  let zi := invMod P.z c.p
  let zi2 := zi * zi % c.p
  .affine (P.x * zi2 % c.p) (P.y * (zi2 * zi % c.p) % c.p)

@[inline] def subMod (p a b : Nat) : Nat := (a + p - b) % p

def double (c : Curve) (P : JPoint) : JPoint :=
  let p := c.p
  if P.z == 0 || P.y == 0 then infinity else
  let yy := P.y * P.y % p
  let s := 4 * P.x * yy % p
  let zz := P.z * P.z % p
  let m := (3 * P.x * P.x + c.a * (zz * zz % p)) % p
  let x3 := subMod p (m * m % p) (2 * s % p)
  let y3 := subMod p (m * subMod p s x3 % p) (8 * (yy * yy % p) % p)
  let z3 := 2 * P.y * P.z % p
  ⟨x3, y3, z3⟩

def add (c : Curve) (P Q : JPoint) : JPoint :=
  let p := c.p
  if P.z == 0 then Q else
  if Q.z == 0 then P else
  let z1z1 := P.z * P.z % p
  let z2z2 := Q.z * Q.z % p
  let u1 := P.x * z2z2 % p
  let u2 := Q.x * z1z1 % p
  let s1 := P.y * (z2z2 * Q.z % p) % p
  let s2 := Q.y * (z1z1 * P.z % p) % p
  if u1 == u2 then
    if s1 == s2 then double c P else infinity
  else
  let h := subMod p u2 u1
  let r := subMod p s2 s1
  let hh := h * h % p
  let hhh := hh * h % p
  let v := u1 * hh % p
  let x3 := subMod p (subMod p (r * r % p) hhh) (2 * v % p)
  let y3 := subMod p (r * subMod p v x3 % p) (s1 * hhh % p)
  let z3 := h * (P.z * Q.z % p) % p
  ⟨x3, y3, z3⟩

/-- Left-to-right double-and-add over the bits of `k`. -/
def scalarMult (c : Curve) (k : Nat) (P : JPoint) : JPoint :=
  let rec go (fuel : Nat) (acc : JPoint) : JPoint :=
    match fuel with
    | 0 => acc
    | i + 1 =>
      let acc := double c acc
      go i (if k.testBit i then add c acc P else acc)
  go (bitLen k) infinity

/-- `k1·P + k2·Q` by interleaved double-and-add (Shamir's trick). -/
def doubleScalarMult (c : Curve) (k1 : Nat) (P : JPoint) (k2 : Nat) (Q : JPoint) : JPoint :=
  let pq := add c P Q
  let rec go (fuel : Nat) (acc : JPoint) : JPoint :=
    match fuel with
    | 0 => acc
    | i + 1 =>
      let acc := double c acc
      let acc :=
        match k1.testBit i, k2.testBit i with
        | true, true => add c acc pq
        | true, false => add c acc P
        | false, true => add c acc Q
        | false, false => acc
      go i acc
  go (max (bitLen k1) (bitLen k2)) infinity

end JPoint

/-! ### Affine-level API -/

def double (c : Curve) (P : Point) : Point :=
  (JPoint.double c (JPoint.ofPoint c P)).toPoint c

def add (c : Curve) (P Q : Point) : Point :=
  (JPoint.add c (JPoint.ofPoint c P) (JPoint.ofPoint c Q)).toPoint c

def scalarMult (c : Curve) (k : Nat) (P : Point) : Point :=
  (JPoint.scalarMult c k (JPoint.ofPoint c P)).toPoint c

def scalarBaseMult (c : Curve) (k : Nat) : Point := scalarMult c k c.base

/-- SEC1 §2.3.4 point decompression for p ≡ 3 (mod 4): returns `(x, y)` with `y`'s parity
as requested; `none` if `x ≥ p` or `x³ + ax + b` is not a square. -/
def decompress (c : Curve) (x : Nat) (yOdd : Bool) : Option (Nat × Nat) :=
  if x ≥ c.p then none else
  let rhs := (x * x * x + c.a * x + c.b) % c.p
  let y := powMod rhs ((c.p + 1) / 4) c.p
  if y * y % c.p != rhs then none else
  let y := if (y % 2 == 1) == yOdd then y else (c.p - y) % c.p
  some (x, y)

/-- Hash-to-integer exactly as Go `crypto/ecdsa.hashToNat`: if the hash is at least as many
bytes as `n`, keep the leftmost `⌈bitlen n / 8⌉` bytes and shift right by the excess bits;
then reduce mod `n`.  Equivalently: leftmost `min (8·|hash|) (bitlen n)` bits, mod `n`. -/
def hashToInt (c : Curve) (hash : Bytes) : Nat :=
  let nbits := bitLen c.n
  let size := (nbits + 7) / 8
  let e :=
    if hash.length ≥ size then os2ip (hash.take size) >>> (size * 8 - nbits)
    else os2ip hash
  e % c.n

/-- ECDSA verification (FIPS 186-4 §6.4 / Go `crypto/ecdsa.Verify`). -/
def ecdsaVerify (c : Curve) (qx qy : Nat) (hash : Bytes) (r s : Nat) : Bool :=
  if !(isOnCurve c qx qy) then false else
  if r == 0 || s == 0 || r ≥ c.n || s ≥ c.n then false else
  let e := hashToInt c hash
  let w := invMod s c.n
  let u1 := e * w % c.n
  let u2 := r * w % c.n
  let R := JPoint.doubleScalarMult c u1 (JPoint.ofPoint c c.base) u2 ⟨qx, qy, 1⟩
  match R.toPoint c with
  | .inf => false
  | .affine x _ => x % c.n == r

/-- ECDSA signing with a caller-supplied nonce `k` (deterministic).  `none` if `k ∉ [1, n−1]`,
`d ∉ [1, n−1]`, `r = 0` or `s = 0`. -/
def ecdsaSignWithK (c : Curve) (d k : Nat) (hash : Bytes) : Option (Nat × Nat) :=
  if k == 0 || k ≥ c.n || d == 0 || d ≥ c.n then none else
  match scalarBaseMult c k with
  | .inf => none
  | .affine x _ =>
    let r := x % c.n
    if r == 0 then none else
    let e := hashToInt c hash
    let s := invMod k c.n * ((e + r * d) % c.n) % c.n
    if s == 0 then none else some (r, s)

/-- ECDH: x-coordinate of `d·Q`; `none` if `Q` is not on the curve or the result is infinity. -/
def ecdh (c : Curve) (d : Nat) (qx qy : Nat) : Option Nat :=
  if !(isOnCurve c qx qy) then none else
  match scalarMult c d (.affine qx qy) with
  | .inf => none
  | .affine x _ => some x

/-! ### Parameter sanity checks -/

#guard [p256, p384, p521].all fun c => c.p % 4 == 3 && c.a == c.p - 3
#guard [p256, p384, p521].all fun c => isOnCurve c c.gx c.gy
#guard [p256, p384, p521].all fun c => scalarBaseMult c c.n == .inf
#guard [p256, p384, p521].all fun c => scalarBaseMult c (c.n - 1) == .affine c.gx (c.p - c.gy)
#guard [p256, p384, p521].all fun c => c.byteLen == (bitLen c.p + 7) / 8
#guard [p256, p384, p521].all fun c => add c c.base c.base == double c c.base
  && add c (double c c.base) c.base == scalarBaseMult c 3
  && add c c.base (.affine c.gx (c.p - c.gy)) == .inf
  && add c .inf c.base == c.base && add c c.base .inf == c.base
#guard [p256, p384, p521].all fun c =>
  decompress c c.gx (c.gy % 2 == 1) == some (c.gx, c.gy)
  && decompress c c.gx (c.gy % 2 == 0) == some (c.gx, c.p - c.gy)
  && decompress c c.p false == none
#guard os2ip [1, 2, 3] == 0x010203 && i2osp 0x010203 5 == [0, 0, 1, 2, 3] && i2osp 0x010203 2 == [2, 3]
#guard powMod 3 0 7 == 1 && powMod 3 6 7 == 1 && powMod 2 10 1000 == 24 && powMod 5 3 1 == 0

/-! ### RFC 6979 Appendix A.2.5–A.2.7 (message "sample") -/

private structure EcdsaKat where
  c : Curve
  d : Nat
  ux : Nat
  uy : Nat
  hash : Bytes
  k : Nat
  r : Nat
  s : Nat

private def EcdsaKat.check (t : EcdsaKat) : Bool :=
  scalarBaseMult t.c t.d == .affine t.ux t.uy
  && ecdsaVerify t.c t.ux t.uy t.hash t.r t.s
  && ecdsaSignWithK t.c t.d t.k t.hash == some (t.r, t.s)
  && !ecdsaVerify t.c t.ux t.uy t.hash t.r (t.s + 1)
  && !ecdsaVerify t.c t.ux t.uy (sha256 t.hash) t.r t.s
  && !ecdsaVerify t.c t.ux (t.uy + 1) t.hash t.r t.s
  && !ecdsaVerify t.c t.ux t.uy t.hash 0 t.s
  && !ecdsaVerify t.c t.ux t.uy t.hash t.r t.c.n

private def sampleMsg : Bytes := "sample".toUTF8.toList

-- A.2.5  P-256 / SHA-256
#guard EcdsaKat.check {
  c := p256
  d := 0xC9AFA9D845BA75166B5C215767B1D6934E50C3DB36E89B127B8A622B120F6721
  ux := 0x60FED4BA255A9D31C961EB74C6356D68C049B8923B61FA6CE669622E60F29FB6
  uy := 0x7903FE1008B8BC99A41AE9E95628BC64F2F1B20C2D7E9F5177A3C294D4462299
  hash := sha256 sampleMsg
  k := 0xA6E3C57DD01ABE90086538398355DD4C3B17AA873382B0F24D6129493D8AAD60
  r := 0xEFD48B2AACB6A8FD1140DD9CD45E81D69D2C877B56AAF991C34D0EA84EAF3716
  s := 0xF7CB1C942D657C41D436C7A1B6E29F65F3E900DBB9AFF4064DC4AB2F843ACDA8 }

-- A.2.6  P-384 / SHA-384
#guard EcdsaKat.check {
  c := p384
  d := 0x6B9D3DAD2E1B8C1C05B19875B6659F4DE23C3B667BF297BA9AA47740787137D896D5724E4C70A825F872C9EA60D2EDF5
  ux := 0xEC3A4E415B4E19A4568618029F427FA5DA9A8BC4AE92E02E06AAE5286B300C64DEF8F0EA9055866064A254515480BC13
  uy := 0x8015D9B72D7D57244EA8EF9AC0C621896708A59367F9DFB9F54CA84B3F1C9DB1288B231C3AE0D4FE7344FD2533264720
  hash := sha384 sampleMsg
  k := 0x94ED910D1A099DAD3254E9242AE85ABDE4BA15168EAF0CA87A555FD56D10FBCA2907E3E83BA95368623B8C4686915CF9
  r := 0x94EDBB92A5ECB8AAD4736E56C691916B3F88140666CE9FA73D64C4EA95AD133C81A648152E44ACF96E36DD1E80FABE46
  s := 0x99EF4AEB15F178CEA1FE40DB2603138F130E740A19624526203B6351D0A3A94FA329C145786E679E7B82C71A38628AC8 }

-- A.2.7  P-521 / SHA-512
#guard EcdsaKat.check {
  c := p521
  d := 0x0FAD06DAA62BA3B25D2FB40133DA757205DE67F5BB0018FEE8C86E1B68C7E75CAA896EB32F1F47C70855836A6D16FCC1466F6D8FBEC67DB89EC0C08B0E996B83538
  ux := 0x1894550D0785932E00EAA23B694F213F8C3121F86DC97A04E5A7167DB4E5BCD371123D46E45DB6B5D5370A7F20FB633155D38FFA16D2BD761DCAC474B9A2F5023A4
  uy := 0x0493101C962CD4D2FDDF782285E64584139C2F91B47F87FF82354D6630F746A28A0DB25741B5B34A828008B22ACC23F924FAAFBD4D33F81EA66956DFEAA2BFDFCF5
  hash := sha512 sampleMsg
  k := 0x1DAE2EA071F8110DC26882D4D5EAE0621A3256FC8847FB9022E2B7D28E6F10198B1574FDD03A9053C08A1854A168AA5A57470EC97DD5CE090124EF52A2F7ECBFFD3
  r := 0x0C328FAFCBD79DD77850370C46325D987CB525569FB63C5D3BC53950E6D4C5F174E25A1EE9017B5D450606ADD152B534931D7D4E8455CC91F9B15BF05EC36E377FA
  s := 0x0617CCE7CF5064806C467F678D3B4080D6F1CC50AF26CA209417308281B68AF282623EAA63E5B5C0723D8B8C37FF0777B1A20F8CCB1DCCC43997F1EE0E44DA4A67A }

-- Generic truncation rule: a 66-byte hash on P-521 is shifted right by 7 bits; a long hash on
-- P-256 keeps its leftmost 32 bytes.
#guard hashToInt p521 (List.replicate 66 0xff) == (2 ^ 521 - 1) % p521.n
#guard hashToInt p256 (sha512 sampleMsg) == os2ip ((sha512 sampleMsg).take 32) % p256.n
#guard hashToInt p521 (sha512 sampleMsg) == os2ip (sha512 sampleMsg)

end Cose.Crypto
