import Cose.Bytes
/-!
# Generic constructions (specifications): HMAC (RFC 2104), CBC-MAC (RFC 9053 §3.2), CCM (RFC 3610),
# a generic stream AEAD, HKDF (RFC 5869)

Every construction is parametric in the hash / block cipher / keystream, so the theorems proved about
them (in `ConstructionLemmas.lean`) hold for every instantiation and the AES / SHA cores stay opaque.
-/
namespace Cose.Crypto

def xorBytes' (a b : Bytes) : Bytes := List.zipWith (· ^^^ ·) a b

def zeros (n : Nat) : Bytes := List.replicate n 0

/-- big-endian encoding of `n` on exactly `len` bytes (low-order bytes kept) -/
def beBytes : Nat → Nat → Bytes
  | 0, _ => []
  | len + 1, n => beBytes len (n / 256) ++ [UInt8.ofNat (n % 256)]

/-! ## HMAC -/

/-- `hmac H B key msg` with hash `H` of block size `B` -/
def hmac (H : Bytes → Bytes) (B : Nat) (key msg : Bytes) : Bytes :=
  let k0 := if key.length > B then H key else key
  let k := k0 ++ zeros (B - k0.length)
  H (k.map (· ^^^ 0x5c) ++ H (k.map (· ^^^ 0x36) ++ msg))

/-! ## CBC-MAC with zero IV and zero padding to a block multiple -/

/-- zero padding up to the next multiple of 16 (nothing when already aligned) -/
def zpad16 (m : Bytes) : Bytes := m ++ zeros ((16 - m.length % 16) % 16)

/-- CBC chaining over a byte string whose length is a multiple of 16: `x ← E (x ⊕ block)` -/
def cbcChain (E : Bytes → Bytes) : Nat → Bytes → Bytes → Bytes
  | 0, x, _ => x
  | n + 1, x, data => cbcChain E n (E (xorBytes' x (data.take 16))) (data.drop 16)

/-- last CBC block of the zero-padded message under a zero IV -/
def cbcMacFull (E : Bytes → Bytes) (m : Bytes) : Bytes :=
  cbcChain E ((zpad16 m).length / 16) (zeros 16) (zpad16 m)

/-- RFC 9053 AES-MAC: the first `t` bytes of the CBC-MAC -/
def cbcMac (E : Bytes → Bytes) (t : Nat) (m : Bytes) : Bytes := (cbcMacFull E m).take t

/-! ## CCM (RFC 3610) with tag length `M` and length-field size `L` (nonce length 15 − L) -/

/-- RFC 3610 §2.2: encoding of l(a) -/
def ccmAadLen (n : Nat) : Bytes :=
  if n = 0 then []
  else if n < 65280 then beBytes 2 n
  else if n < 4294967296 then [0xff, 0xfe] ++ beBytes 4 n
  else [0xff, 0xff] ++ beBytes 8 n

def ccmB0 (M L : Nat) (nonce : Bytes) (alen plen : Nat) : Bytes :=
  [UInt8.ofNat ((if alen > 0 then 64 else 0) + 8 * ((M - 2) / 2) + (L - 1))] ++ nonce ++ beBytes L plen

/-- the authentication field T: CBC-MAC over B0 ‖ pad(l(a) ‖ a) ‖ pad(m), truncated to M bytes -/
def ccmT (E : Bytes → Bytes) (M L : Nat) (nonce aad pt : Bytes) : Bytes :=
  let blocks := ccmB0 M L nonce aad.length pt.length ++ zpad16 (ccmAadLen aad.length ++ aad) ++ zpad16 pt
  (cbcChain E (blocks.length / 16) (zeros 16) blocks).take M

def ccmA (L : Nat) (nonce : Bytes) (i : Nat) : Bytes := [UInt8.ofNat (L - 1)] ++ nonce ++ beBytes L i

/-- key stream S_1 ‖ S_2 ‖ … truncated to `n` bytes -/
def ccmStream (E : Bytes → Bytes) (L : Nat) (nonce : Bytes) (n : Nat) : Bytes :=
  (((List.range ((n + 15) / 16)).map (fun i => E (ccmA L nonce (i + 1)))).flatten ++ zeros n).take n

def ccmSeal (E : Bytes → Bytes) (M L : Nat) (nonce pt aad : Bytes) : Bytes :=
  xorBytes' pt (ccmStream E L nonce pt.length) ++ xorBytes' (ccmT E M L nonce aad pt) ((E (ccmA L nonce 0)).take M)

def ccmOpen (E : Bytes → Bytes) (M L : Nat) (nonce ct aad : Bytes) : Option Bytes :=
  if ct.length < M then none else
  let c := ct.take (ct.length - M)
  let u := ct.drop (ct.length - M)
  let pt := xorBytes' c (ccmStream E L nonce c.length)
  if xorBytes' (ccmT E M L nonce aad pt) ((E (ccmA L nonce 0)).take M) = u then some pt else none

/-! ## Generic stream AEAD: ciphertext = plaintext ⊕ keystream, tag over (aad, ciphertext) -/

structure StreamAead where
  /-- `ks key nonce n`: n bytes of key stream -/
  ks : Bytes → Bytes → Nat → Bytes
  tag : Bytes → Bytes → Bytes → Bytes → Bytes      -- key nonce aad ct
  tagLen : Nat

def StreamAead.seal (A : StreamAead) (key nonce pt aad : Bytes) : Bytes :=
  let c := xorBytes' pt (A.ks key nonce pt.length)
  c ++ A.tag key nonce aad c

def StreamAead.open (A : StreamAead) (key nonce ct aad : Bytes) : Option Bytes :=
  if ct.length < A.tagLen then none else
  let c := ct.take (ct.length - A.tagLen)
  let t := ct.drop (ct.length - A.tagLen)
  if A.tag key nonce aad c = t then some (xorBytes' c (A.ks key nonce c.length)) else none

/-! ## HKDF (RFC 5869) over an arbitrary PRF `P key msg` with output length `hl` -/

/-- T(1) ‖ … ‖ T(n) and T(n) -/
def hkdfBlocks (P : Bytes → Bytes → Bytes) (prk info : Bytes) : Nat → Bytes × Bytes
  | 0 => ([], [])
  | n + 1 =>
    let (acc, prev) := hkdfBlocks P prk info n
    let t := P prk (prev ++ info ++ [UInt8.ofNat (n + 1)])
    (acc ++ t, t)

/-- expand: `none` beyond 255 blocks -/
def hkdfExpand (P : Bytes → Bytes → Bytes) (hl : Nat) (prk info : Bytes) (len : Nat) : Option Bytes :=
  if len > 255 * hl then none
  else some (((hkdfBlocks P prk info ((len + hl - 1) / hl)).1).take len)

def hkdfExtract (P : Bytes → Bytes → Bytes) (hl : Nat) (salt ikm : Bytes) : Bytes :=
  P (if salt.isEmpty then zeros hl else salt) ikm

def hkdf (P : Bytes → Bytes → Bytes) (hl : Nat) (secret salt info : Bytes) (len : Nat) : Option Bytes :=
  hkdfExpand P hl (hkdfExtract P hl salt secret) info len

end Cose.Crypto
