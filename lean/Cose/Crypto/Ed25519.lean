/-
Pure Ed25519 (RFC 8032 §5.1), executable reference implementation on `Nat`.
Verification mirrors Go's `crypto/ed25519.Verify` bit-for-bit (cofactorless equation,
non-canonical `y` accepted for the public key, canonical `S` required, `R` compared as bytes).
Core Lean only.
-/
import Cose.Bytes
import Cose.Crypto.Sha2
import Cose.Crypto.Weierstrass

namespace Cose.Crypto

namespace Ed25519

/-- Field prime 2²⁵⁵ − 19. -/
def p : Nat := 2 ^ 255 - 19

/-- Group order of the base point. -/
def L : Nat := 2 ^ 252 + 27742317777372353535851937790883648493

/-- Curve constant d = −121665/121666. -/
def d : Nat := 37095705934669439343138083508754565189542113879843219016388785533085940283555

/-- √−1 = 2^((p−1)/4). -/
def sqrtM1 : Nat := 19681161376707505956807079304988542015446066515923890162744021073123829784752

def baseX : Nat := 15112221349535400772501151409588531511454012693041857206046113283949847762202
def baseY : Nat := 46316835694926478169428394003475163141307993866256225615783033603165251855960

#guard d == (p - 121665) * invMod 121666 p % p
#guard sqrtM1 == powMod 2 ((p - 1) / 4) p && sqrtM1 * sqrtM1 % p == p - 1
#guard baseY == 4 * invMod 5 p % p
#guard (baseY * baseY + p - baseX * baseX % p) % p == (1 + d * (baseX * baseX % p) % p * (baseY * baseY % p)) % p
#guard baseX % 2 == 0

/-- Little-endian octet string to integer. -/
def leToNat (b : Bytes) : Nat := b.foldr (fun x acc => acc * 256 + x.toNat) 0

/-- Integer to little-endian octet string of exactly `len` bytes. -/
def natToLe (n len : Nat) : Bytes :=
  (List.range len).map (fun i => UInt8.ofNat ((n >>> (8 * i)) % 256))

/-- Extended homogeneous coordinates: x = X/Z, y = Y/Z, T = XY/Z. -/
structure EPoint where
  x : Nat
  y : Nat
  z : Nat
  t : Nat

def EPoint.zero : EPoint := ⟨0, 1, 1, 0⟩

def EPoint.ofAffine (x y : Nat) : EPoint := ⟨x, y, 1, x * y % p⟩

def basePoint : EPoint := EPoint.ofAffine baseX baseY

@[inline] def subP (a b : Nat) : Nat := (a + p - b) % p

/-- Unified (complete) addition, RFC 8032 §5.1.4. -/
def EPoint.add (P Q : EPoint) : EPoint :=
  let a := subP P.y P.x * subP Q.y Q.x % p
  let b := (P.y + P.x) * (Q.y + Q.x) % p
  let c := P.t * 2 * d % p * Q.t % p
  let dd := P.z * 2 * Q.z % p
  let e := subP b a
  let f := subP dd c
  let g := (dd + c) % p
  let h := (b + a) % p
  ⟨e * f % p, g * h % p, f * g % p, e * h % p⟩

def EPoint.neg (P : EPoint) : EPoint := ⟨(p - P.x) % p, P.y, P.z, (p - P.t) % p⟩

def EPoint.scalarMult (k : Nat) (P : EPoint) : EPoint :=
  let rec go (fuel : Nat) (acc : EPoint) : EPoint :=
    match fuel with
    | 0 => acc
    | i + 1 =>
      let acc := acc.add acc
      go i (if k.testBit i then acc.add P else acc)
  go (bitLen k) EPoint.zero

/-- `k1·P + k2·Q`, interleaved. -/
def EPoint.doubleScalarMult (k1 : Nat) (P : EPoint) (k2 : Nat) (Q : EPoint) : EPoint :=
  let pq := P.add Q
  let rec go (fuel : Nat) (acc : EPoint) : EPoint :=
    match fuel with
    | 0 => acc
    | i + 1 =>
      let acc := acc.add acc
      let acc :=
        match k1.testBit i, k2.testBit i with
        | true, true => acc.add pq
        | true, false => acc.add P
        | false, true => acc.add Q
        | false, false => acc
      go i acc
  go (max (bitLen k1) (bitLen k2)) EPoint.zero

/-- Canonical 32-byte encoding: little-endian `y` with the parity of `x` in the top bit. -/
def EPoint.encode (P : EPoint) : Bytes :=
  let zi := invMod P.z p
  let x := P.x * zi % p
  let y := P.y * zi % p
  natToLe (y + (x % 2) * 2 ^ 255) 32

/-- Point decoding following Go's `edwards25519.Point.SetBytes`: the low 255 bits are taken
mod p (non-canonical `y` accepted); `x = |√(u/v)|` (the even root), negated when the sign bit
is set (so `x = 0` with sign bit 1 yields `x = 0`, not a rejection); `none` iff `u/v` is
not a square or the length is not 32. -/
def decodePoint (b : Bytes) : Option EPoint :=
  if b.length != 32 then none else
  let n := leToNat b
  let sign := n.testBit 255
  let y := (n % 2 ^ 255) % p
  let yy := y * y % p
  let u := subP yy 1
  let v := (d * yy + 1) % p
  -- candidate root r = u·v³·(u·v⁷)^((p−5)/8)
  let v3 := v * v % p * v % p
  let v7 := v3 * v3 % p * v % p
  let r := u * v3 % p * powMod (u * v7 % p) ((p - 5) / 8) p % p
  let check := v * (r * r % p) % p
  let root? : Option Nat :=
    if check == u then some r
    else if check == (p - u) % p then some (r * sqrtM1 % p)
    else none
  match root? with
  | none => none
  | some r =>
    let x := if r % 2 == 1 then p - r else r       -- absolute value (even representative)
    let x := if sign then (p - x) % p else x
    some (EPoint.ofAffine x y)

/-- RFC 8032 §5.1.5 secret scalar clamping of the first 32 bytes of SHA-512(seed). -/
def clamp (h : Bytes) : Nat :=
  let a := leToNat (h.take 32)
  (a % 2 ^ 254) / 8 * 8 + 2 ^ 254

end Ed25519

open Ed25519

/-- Public key for a 32-byte seed (RFC 8032 §5.1.5). -/
def ed25519PublicKey (seed : Bytes) : Bytes :=
  let h := sha512 seed
  (EPoint.scalarMult (clamp h) basePoint).encode

/-- Deterministic Ed25519 signature (RFC 8032 §5.1.6); 64 bytes. -/
def ed25519Sign (seed msg : Bytes) : Bytes :=
  let h := sha512 seed
  let s := clamp h
  let pfx := h.drop 32
  let A := (EPoint.scalarMult s basePoint).encode
  let r := leToNat (sha512 (pfx ++ msg)) % L
  let R := (EPoint.scalarMult r basePoint).encode
  let k := leToNat (sha512 (R ++ A ++ msg)) % L
  let S := (r + k * s) % L
  R ++ natToLe S 32

/-- Ed25519 verification, mirroring Go `crypto/ed25519.Verify`:
`|pub| = 32`, `|sig| = 64`, `A` decodable, `S < L`, and `enc([S]B − [k]A) = sig[0:32]`. -/
def ed25519Verify (pub msg sig : Bytes) : Bool :=
  if pub.length != 32 || sig.length != 64 then false else
  match decodePoint pub with
  | none => false
  | some A =>
    let Rb := sig.take 32
    let S := leToNat (sig.drop 32)
    if S ≥ L then false else
    let k := leToNat (sha512 (Rb ++ pub ++ msg)) % L
    let R' := EPoint.doubleScalarMult S basePoint k A.neg
    R'.encode == Rb

/-! ### RFC 8032 §7.1 test vectors -/

private def katOk (seed pub msg sig : String) : Bool :=
  let seed := ofHex seed; let pub := ofHex pub; let msg := ofHex msg; let sig := ofHex sig
  ed25519PublicKey seed == pub && ed25519Sign seed msg == sig && ed25519Verify pub msg sig
  && !ed25519Verify pub (msg ++ [0]) sig

-- TEST 1
#guard katOk "9d61b19deffd5a60ba844af492ec2cc44449c5697b326919703bac031cae7f60"
  "d75a980182b10ab7d54bfed3c964073a0ee172f3daa62325af021a68f707511a" ""
  "e5564300c360ac729086e2cc806e828a84877f1eb8e5d974d873e065224901555fb8821590a33bacc61e39701cf9b46bd25bf5f0595bbe24655141438e7a100b"
-- TEST 2
#guard katOk "4ccd089b28ff96da9db6c346ec114e0f5b8a319f35aba624da8cf6ed4fb8a6fb"
  "3d4017c3e843895a92b70aa74d1b7ebc9c982ccf2ec4968cc0cd55f12af4660c" "72"
  "92a009a9f0d4cab8720e820b5f642540a2b27b5416503f8fb3762223ebdb69da085ac1e43e15996e458f3613d0f11d8c387b2eaeb4302aeeb00d291612bb0c00"
-- TEST 3
#guard katOk "c5aa8df43f9f837bedb7442f31dcb7b166d38535076f094b85ce3a2e0b4458f7"
  "fc51cd8e6218a1a38da47ed00230f0580816ed13ba3303ac5deb911548908025" "af82"
  "6291d657deec24024827e69c3abe01a30ce548a284743a445e3680d7db5ac3ac18ff9b538d16f290ae67f760984dc6594a7c15e9716ed28dc027beceea1ec40a"

-- TEST 1024 (1023-byte message)
private def msg1024 : String :=
  "08b8b2b733424243760fe426a4b54908632110a66c2f6591eabd3345e3e4eb98fa6e264bf09efe12ee50f8f54e9f77b1" ++
  "e355f6c50544e23fb1433ddf73be84d879de7c0046dc4996d9e773f4bc9efe5738829adb26c81b37c93a1b270b20329d" ++
  "658675fc6ea534e0810a4432826bf58c941efb65d57a338bbd2e26640f89ffbc1a858efcb8550ee3a5e1998bd177e93a" ++
  "7363c344fe6b199ee5d02e82d522c4feba15452f80288a821a579116ec6dad2b3b310da903401aa62100ab5d1a36553e" ++
  "06203b33890cc9b832f79ef80560ccb9a39ce767967ed628c6ad573cb116dbefefd75499da96bd68a8a97b928a8bbc10" ++
  "3b6621fcde2beca1231d206be6cd9ec7aff6f6c94fcd7204ed3455c68c83f4a41da4af2b74ef5c53f1d8ac70bdcb7ed1" ++
  "85ce81bd84359d44254d95629e9855a94a7c1958d1f8ada5d0532ed8a5aa3fb2d17ba70eb6248e594e1a2297acbbb39d" ++
  "502f1a8c6eb6f1ce22b3de1a1f40cc24554119a831a9aad6079cad88425de6bde1a9187ebb6092cf67bf2b13fd65f270" ++
  "88d78b7e883c8759d2c4f5c65adb7553878ad575f9fad878e80a0c9ba63bcbcc2732e69485bbc9c90bfbd62481d9089b" ++
  "eccf80cfe2df16a2cf65bd92dd597b0707e0917af48bbb75fed413d238f5555a7a569d80c3414a8d0859dc65a46128ba" ++
  "b27af87a71314f318c782b23ebfe808b82b0ce26401d2e22f04d83d1255dc51addd3b75a2b1ae0784504df543af8969b" ++
  "e3ea7082ff7fc9888c144da2af58429ec96031dbcad3dad9af0dcbaaaf268cb8fcffead94f3c7ca495e056a9b47acdb7" ++
  "51fb73e666c6c655ade8297297d07ad1ba5e43f1bca32301651339e22904cc8c42f58c30c04aafdb038dda0847dd988d" ++
  "cda6f3bfd15c4b4c4525004aa06eeff8ca61783aacec57fb3d1f92b0fe2fd1a85f6724517b65e614ad6808d6f6ee34df" ++
  "f7310fdc82aebfd904b01e1dc54b2927094b2db68d6f903b68401adebf5a7e08d78ff4ef5d63653a65040cf9bfd4aca7" ++
  "984a74d37145986780fc0b16ac451649de6188a7dbdf191f64b5fc5e2ab47b57f7f7276cd419c17a3ca8e1b939ae49e4" ++
  "88acba6b965610b5480109c8b17b80e1b7b750dfc7598d5d5011fd2dcc5600a32ef5b52a1ecc820e308aa342721aac09" ++
  "43bf6686b64b2579376504ccc493d97e6aed3fb0f9cd71a43dd497f01f17c0e2cb3797aa2a2f256656168e6c496afc5f" ++
  "b93246f6b1116398a346f1a641f3b041e989f7914f90cc2c7fff357876e506b50d334ba77c225bc307ba537152f3f161" ++
  "0e4eafe595f6d9d90d11faa933a15ef1369546868a7f3a45a96768d40fd9d03412c091c6315cf4fde7cb68606937380d" ++
  "b2eaaa707b4c4185c32eddcdd306705e4dc1ffc872eeee475a64dfac86aba41c0618983f8741c5ef68d3a101e8a3b8ca" ++
  "c60c905c15fc910840b94c00a0b9d0"

#guard (ofHex msg1024).length == 1023
#guard katOk "f5e5767cf153319517630f226876b86c8160cc583bc013744c6bf255f5cc0ee5"
  "278117fc144c72340f67d0f2316e8386ceffbf2b2428c9c51fef7c597f1d426e" msg1024
  "0aab4c900501b3e24d7cdf4663326a3a87df5e4843b2cbdb67cbf6e460fec350aa5371b1508f9f4528ecea23c436d94b5e8fcd4f681e30a6ac00a9704a188a03"
-- TEST SHA(abc): the message is SHA-512("abc")
#guard katOk "833fe62409237b9d62ec77587520911e9a759cec1d19755b7da901b96dca3d42"
  "ec172b93ad5e563bf4932c70e1245034c35467ef2efd4d64ebf819683467e2bf"
  (toHex (sha512 "abc".toUTF8.toList))
  "dc2a4459e7369633a52b1bf277839a00201009a3efbf3ecb69bea2186c26b58909351fc9ac90b3ecfdfbc7c66431e0303dca179c138ac17ad9bef1177331a704"

/-! ### Go-compatibility edge cases -/

-- wrong lengths are rejected (Go panics on a bad public-key length; we return false)
#guard !ed25519Verify [] [] (List.replicate 64 0) && !ed25519Verify (List.replicate 32 0) [] []
-- x = 0 with the sign bit set (y = 1, i.e. the identity, encoded 0100..0080) decodes to x = 0
#guard (Ed25519.decodePoint (1 :: List.replicate 30 0 ++ [0x80])).map (fun P => (P.x, P.y)) == some (0, 1)
-- non-canonical y = p + 1 (≡ 1) is accepted and reduced
#guard (Ed25519.decodePoint (Ed25519.natToLe (Ed25519.p + 1) 32)).map (fun P => (P.x, P.y)) == some (0, 1)
-- y = 2 is not on the curve
#guard (Ed25519.decodePoint (Ed25519.natToLe 2 32)).isNone
-- S + L (non-canonical scalar) is rejected although the group equation would hold
#guard
  let pub := ofHex "d75a980182b10ab7d54bfed3c964073a0ee172f3daa62325af021a68f707511a"
  let sig := ofHex "e5564300c360ac729086e2cc806e828a84877f1eb8e5d974d873e065224901555fb8821590a33bacc61e39701cf9b46bd25bf5f0595bbe24655141438e7a100b"
  let S := Ed25519.leToNat (sig.drop 32)
  ed25519Verify pub [] sig && !ed25519Verify pub [] (sig.take 32 ++ Ed25519.natToLe (S + Ed25519.L) 32)
-- L·B is the identity
#guard (Ed25519.EPoint.scalarMult Ed25519.L Ed25519.basePoint).encode == 1 :: List.replicate 31 0

end Cose.Crypto
