import Cose.Bytes
import Cose.Crypto.Aes

/-!
# AES-GCM (NIST SP 800-38D), 96-bit nonce, 128-bit tag

Executable reference implementation used as an independent oracle.
Core-only; every function is total.

A 128-bit GHASH element is a pair `(hi, lo)` of `UInt64`: `hi` holds bytes 0..7 of the
block big-endian, `lo` bytes 8..15. In SP 800-38D bit numbering, bit 0 is the most
significant bit of `hi`.
-/

namespace Cose.Crypto

/-- Byte `i` of `b`, or `0` past the end. -/
@[inline] def byteAtD (b : ByteArray) (i : Nat) : UInt8 :=
  if h : i < b.size then b[i] else 0

/-- Big-endian 64-bit load at offset `i`, zero-padded past the end. -/
@[inline] def be64AtD (b : ByteArray) (i : Nat) : UInt64 :=
  ((byteAtD b i).toUInt64 <<< 56) ||| ((byteAtD b (i+1)).toUInt64 <<< 48) |||
  ((byteAtD b (i+2)).toUInt64 <<< 40) ||| ((byteAtD b (i+3)).toUInt64 <<< 32) |||
  ((byteAtD b (i+4)).toUInt64 <<< 24) ||| ((byteAtD b (i+5)).toUInt64 <<< 16) |||
  ((byteAtD b (i+6)).toUInt64 <<< 8) ||| (byteAtD b (i+7)).toUInt64

/-- Big-endian serialisation of a 128-bit value `(hi, lo)`: always exactly 16 bytes. -/
def be128Bytes (hi lo : UInt64) : Bytes :=
  [(hi >>> 56).toUInt8, (hi >>> 48).toUInt8, (hi >>> 40).toUInt8, (hi >>> 32).toUInt8,
   (hi >>> 24).toUInt8, (hi >>> 16).toUInt8, (hi >>> 8).toUInt8, hi.toUInt8,
   (lo >>> 56).toUInt8, (lo >>> 48).toUInt8, (lo >>> 40).toUInt8, (lo >>> 32).toUInt8,
   (lo >>> 24).toUInt8, (lo >>> 16).toUInt8, (lo >>> 8).toUInt8, lo.toUInt8]

theorem be128Bytes_length (hi lo : UInt64) : (be128Bytes hi lo).length = 16 := rfl

/-! ## GF(2^128) multiplication (SP 800-38D §6.3, Algorithm 1) -/

/-- `gfMulLoop n X V Z`: `n` remaining steps of Algorithm 1. At each step the current top
bit of `X` selects whether `V` is added to `Z`; then `V := V·x` (right shift with reduction
by `R = 11100001 ‖ 0^120`) and `X` is shifted left. -/
def gfMulLoop : Nat → UInt64 → UInt64 → UInt64 → UInt64 → UInt64 → UInt64 → UInt64 × UInt64
  | 0, _, _, _, _, zh, zl => (zh, zl)
  | n + 1, xh, xl, vh, vl, zh, zl =>
    let m : UInt64 := (0 : UInt64) - (xh >>> 63)          -- all-ones iff current bit of X is 1
    let r : UInt64 := (0 : UInt64) - (vl &&& 1)           -- all-ones iff LSB of V is 1
    gfMulLoop n ((xh <<< 1) ||| (xl >>> 63)) (xl <<< 1)
      ((vh >>> 1) ^^^ (r &&& 0xe100000000000000)) ((vl >>> 1) ||| (vh <<< 63))
      (zh ^^^ (vh &&& m)) (zl ^^^ (vl &&& m))

/-- Product `X • Y` in GF(2^128) with the GCM bit ordering. -/
def gfMul (xh xl yh yl : UInt64) : UInt64 × UInt64 :=
  gfMulLoop 128 xh xl yh yl 0 0

/-- Absorb `data` (zero-padded to a multiple of 16 bytes) into the GHASH accumulator `y`
under hash subkey `H = (hh, hl)`: `y := (y ⊕ block) • H` for each block. -/
def ghashUpdate (hh hl : UInt64) (y : UInt64 × UInt64) (data : ByteArray) : UInt64 × UInt64 := Id.run do
  let mut yh := y.1
  let mut yl := y.2
  for j in [0:(data.size + 15) / 16] do
    let z := gfMul (yh ^^^ be64AtD data (16 * j)) (yl ^^^ be64AtD data (16 * j + 8)) hh hl
    yh := z.1
    yl := z.2
  return (yh, yl)

/-! ## GCTR / tag -/

/-- First `n` bytes of the CTR keystream that is XORed with the plaintext, i.e. the
encryptions of counter blocks `inc32(J0), inc32^2(J0), …` where `J0 = nonce ‖ 0x00000001`
(the 32-bit counter starts at 2 and wraps mod 2^32).
The nonce is zero-padded / truncated to 12 bytes; `gcmSeal`/`gcmOpen` reject other lengths. -/
def gcmKeystream (k : AesKey) (nonce : Bytes) (n : Nat) : Bytes :=
  let na := nonce.toArray
  let n0 := be32At na 0
  let n1 := be32At na 4
  let n2 := (be32At na 8)
  let nblocks := (n + 15) / 16
  let ks : ByteArray := Id.run do
    let mut out := ByteArray.emptyWithCapacity (16 * nblocks)
    let mut ctr : UInt32 := 2
    for _ in [0:nblocks] do
      let b := aesEncryptWords k n0 n1 n2 ctr
      for w in [b.w0, b.w1, b.w2, b.w3] do
        out := out.push (w >>> 24).toUInt8
        out := out.push (w >>> 16).toUInt8
        out := out.push (w >>> 8).toUInt8
        out := out.push w.toUInt8
      ctr := ctr + 1
    return out
  -- `ks` already has ≥ n bytes; the padding only makes the length lemma immediate.
  (ks.toList ++ List.replicate n 0).take n

theorem gcmKeystream_length (k : AesKey) (nonce : Bytes) (n : Nat) :
    (gcmKeystream k nonce n).length = n := by
  simp [gcmKeystream]

/-- The 16-byte GCM tag over `(aad, ct)`:
`E_K(J0) ⊕ GHASH_H(aad ‖ pad ‖ ct ‖ pad ‖ [8·|aad|]_64 ‖ [8·|ct|]_64)`, `H = E_K(0^128)`. -/
def gcmTag (k : AesKey) (nonce aad ct : Bytes) : Bytes :=
  let h := aesEncryptWords k 0 0 0 0
  let hh := (h.w0.toUInt64 <<< 32) ||| h.w1.toUInt64
  let hl := (h.w2.toUInt64 <<< 32) ||| h.w3.toUInt64
  let y := ghashUpdate hh hl (0, 0) aad.toByteArray
  let y := ghashUpdate hh hl y ct.toByteArray
  let s := gfMul (y.1 ^^^ (8 * aad.length).toUInt64) (y.2 ^^^ (8 * ct.length).toUInt64) hh hl
  let na := nonce.toArray
  let e := aesEncryptWords k (be32At na 0) (be32At na 4) (be32At na 8) 1
  be128Bytes (s.1 ^^^ ((e.w0.toUInt64 <<< 32) ||| e.w1.toUInt64))
             (s.2 ^^^ ((e.w2.toUInt64 <<< 32) ||| e.w3.toUInt64))

theorem gcmTag_length (k : AesKey) (nonce aad ct : Bytes) :
    (gcmTag k nonce aad ct).length = 16 := rfl

/-- Byte-wise XOR (result has the length of the shorter argument). -/
def xorBytes (a b : Bytes) : Bytes := List.zipWith (· ^^^ ·) a b

/-! ## AEAD -/

/-- AES-GCM encryption: `ciphertext ‖ tag`. `none` if the key is not 16/24/32 bytes or the
nonce is not 12 bytes. -/
def gcmSeal (key nonce pt aad : Bytes) : Option Bytes :=
  match aesExpandKey key with
  | none => none
  | some k =>
    if nonce.length = 12 then
      let ct := xorBytes pt (gcmKeystream k nonce pt.length)
      some (ct ++ gcmTag k nonce aad ct)
    else none

/-- AES-GCM decryption of `ciphertext ‖ tag`. `none` on bad key/nonce size, input shorter
than a tag, or tag mismatch. -/
def gcmOpen (key nonce ctAndTag aad : Bytes) : Option Bytes :=
  match aesExpandKey key with
  | none => none
  | some k =>
    if nonce.length = 12 ∧ 16 ≤ ctAndTag.length then
      let n := ctAndTag.length - 16
      let ct := ctAndTag.take n
      let tag := ctAndTag.drop n
      if gcmTag k nonce aad ct == tag then
        some (xorBytes ct (gcmKeystream k nonce n))
      else none
    else none

/-! ## Known-answer tests (McGrew & Viega, "The Galois/Counter Mode of Operation", App. B) -/

section KAT

private def kat (key iv pt aad ct tag : String) : Bool :=
  let key := hexToBytes key
  let iv := hexToBytes iv
  let pt := hexToBytes pt
  let aad := hexToBytes aad
  let out := hexToBytes ct ++ hexToBytes tag
  gcmSeal key iv pt aad == some out && gcmOpen key iv out aad == some pt

private def k128 := "feffe9928665731c6d6a8f9467308308"
private def k192 := "feffe9928665731c6d6a8f9467308308feffe9928665731c"
private def k256 := "feffe9928665731c6d6a8f9467308308feffe9928665731c6d6a8f9467308308"
private def iv96 := "cafebabefacedbaddecaf888"
private def z96 := "000000000000000000000000"
private def z128 := "00000000000000000000000000000000"
private def p64 :=
  "d9313225f88406e5a55909c5aff5269a86a7a9531534f7da2e4c303d8a318a72" ++
  "1c3c0c95956809532fcf0e2449a6b525b16aedf5aa0de657ba637b391aafd255"
private def p60 :=
  "d9313225f88406e5a55909c5aff5269a86a7a9531534f7da2e4c303d8a318a72" ++
  "1c3c0c95956809532fcf0e2449a6b525b16aedf5aa0de657ba637b39"
private def a20 := "feedfacedeadbeeffeedfacedeadbeefabaddad2"

-- Test cases 1-4 (AES-128)
#guard kat z128 z96 "" "" "" "58e2fccefa7e3061367f1d57a4e7455a"
#guard kat z128 z96 z128 "" "0388dace60b6a392f328c2b971b2fe78" "ab6e47d42cec13bdf53a67b21257bddf"
#guard kat k128 iv96 p64 ""
  ("42831ec2217774244b7221b784d0d49ce3aa212f2c02a4e035c17e2329aca12e" ++
   "21d514b25466931c7d8f6a5aac84aa051ba30b396a0aac973d58e091473f5985")
  "4d5c2af327cd64a62cf35abd2ba6fab4"
#guard kat k128 iv96 p60 a20
  ("42831ec2217774244b7221b784d0d49ce3aa212f2c02a4e035c17e2329aca12e" ++
   "21d514b25466931c7d8f6a5aac84aa051ba30b396a0aac973d58e091")
  "5bc94fbc3221a5db94fae95ae7121a47"
-- Test cases 7-10 (AES-192)
#guard kat (z128 ++ "0000000000000000") z96 "" "" "" "cd33b28ac773f74ba00ed1f312572435"
#guard kat (z128 ++ "0000000000000000") z96 z128 ""
  "98e7247c07f0fe411c267e4384b0f600" "2ff58d80033927ab8ef4d4587514f0fb"
#guard kat k192 iv96 p64 ""
  ("3980ca0b3c00e841eb06fac4872a2757859e1ceaa6efd984628593b40ca1e19c" ++
   "7d773d00c144c525ac619d18c84a3f4718e2448b2fe324d9ccda2710acade256")
  "9924a7c8587336bfb118024db8674a14"
#guard kat k192 iv96 p60 a20
  ("3980ca0b3c00e841eb06fac4872a2757859e1ceaa6efd984628593b40ca1e19c" ++
   "7d773d00c144c525ac619d18c84a3f4718e2448b2fe324d9ccda2710")
  "2519498e80f1478f37ba55bd6d27618c"
-- Test cases 13-16 (AES-256)
#guard kat (z128 ++ z128) z96 "" "" "" "530f8afbc74536b9a963b4f1c4cb738b"
#guard kat (z128 ++ z128) z96 z128 ""
  "cea7403d4d606b6e074ec5d3baf39d18" "d0d1c8a799996bf0265b98b5d48ab919"
#guard kat k256 iv96 p64 ""
  ("522dc1f099567d07f47f37a32a84427d643a8cdcbfe5c0c97598a2bd2555d1aa" ++
   "8cb08e48590dbb3da7b08b1056828838c5f61e6393ba7a0abcc9f662898015ad")
  "b094dac5d93471bdec1a502270e3cc6c"
#guard kat k256 iv96 p60 a20
  ("522dc1f099567d07f47f37a32a84427d643a8cdcbfe5c0c97598a2bd2555d1aa" ++
   "8cb08e48590dbb3da7b08b1056828838c5f61e6393ba7a0abcc9f662")
  "76fc6ece0f4e1768cddf8853bb2d551b"

-- Keystream / tag are consistent with the block cipher: H, E(J0), first keystream block.
#guard (aesExpandKey (hexToBytes z128)).map (fun k => gcmKeystream k (hexToBytes z96) 16)
        == aesEncryptBlock (hexToBytes z128) (hexToBytes (z96 ++ "00000002"))
#guard (aesExpandKey (hexToBytes k128)).map (fun k => gcmKeystream k (hexToBytes iv96) 37)
        == (do
          let b1 ← aesEncryptBlock (hexToBytes k128) (hexToBytes (iv96 ++ "00000002"))
          let b2 ← aesEncryptBlock (hexToBytes k128) (hexToBytes (iv96 ++ "00000003"))
          let b3 ← aesEncryptBlock (hexToBytes k128) (hexToBytes (iv96 ++ "00000004"))
          pure ((b1 ++ b2 ++ b3).take 37))
#guard (aesExpandKey (hexToBytes k128)).map (fun k => (gcmKeystream k (hexToBytes iv96) 0).length) == some 0

-- Rejections: wrong nonce length, wrong key length, short input, corrupted tag / ct / aad.
#guard gcmSeal (hexToBytes k128) (hexToBytes "cafebabefacedbad") [] [] == none
#guard gcmSeal (hexToBytes k128) (hexToBytes (iv96 ++ "00")) [] [] == none
#guard gcmSeal (hexToBytes "00") (hexToBytes iv96) [] [] == none
#guard gcmOpen (hexToBytes k128) (hexToBytes iv96) (List.replicate 15 0) [] == none
#guard gcmOpen (hexToBytes z128) (hexToBytes z96) (hexToBytes "58e2fccefa7e3061367f1d57a4e7455a") [] == some []
#guard gcmOpen (hexToBytes z128) (hexToBytes z96) (hexToBytes "58e2fccefa7e3061367f1d57a4e7455b") [] == none
#guard gcmOpen (hexToBytes z128) (hexToBytes z96) (hexToBytes "58e2fccefa7e3061367f1d57a4e7455a") [0] == none
#guard gcmOpen (hexToBytes z128) (hexToBytes z96)
        (hexToBytes "0388dace60b6a392f328c2b971b2fe79ab6e47d42cec13bdf53a67b21257bddf") [] == none

end KAT

end Cose.Crypto
