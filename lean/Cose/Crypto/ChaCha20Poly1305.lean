import Cose.Bytes

/-!
# ChaCha20, Poly1305 and AEAD_CHACHA20_POLY1305 (RFC 8439)

Executable reference implementation used as an independent oracle.
Core-only; every function is total. Poly1305 is done with plain `Nat` arithmetic
modulo `2^130 - 5`, exactly as in RFC 8439 §2.5.1.
-/

namespace Cose.Crypto

/-! ## Little-endian helpers -/

/-- Little-endian 32-bit load at offset `i`; missing bytes read as zero. -/
@[inline] def le32At (a : Array UInt8) (i : Nat) : UInt32 :=
  (a.getD i 0).toUInt32 ||| ((a.getD (i+1) 0).toUInt32 <<< 8) |||
  ((a.getD (i+2) 0).toUInt32 <<< 16) ||| ((a.getD (i+3) 0).toUInt32 <<< 24)

/-- Byte `i` of `b` or `0` past the end. -/
@[inline] def leByteAtD (b : ByteArray) (i : Nat) : UInt8 :=
  if h : i < b.size then b[i] else 0

/-- Little-endian 64-bit load at offset `i`, zero-padded past the end. -/
@[inline] def le64AtD (b : ByteArray) (i : Nat) : UInt64 :=
  (leByteAtD b i).toUInt64 ||| ((leByteAtD b (i+1)).toUInt64 <<< 8) |||
  ((leByteAtD b (i+2)).toUInt64 <<< 16) ||| ((leByteAtD b (i+3)).toUInt64 <<< 24) |||
  ((leByteAtD b (i+4)).toUInt64 <<< 32) ||| ((leByteAtD b (i+5)).toUInt64 <<< 40) |||
  ((leByteAtD b (i+6)).toUInt64 <<< 48) ||| ((leByteAtD b (i+7)).toUInt64 <<< 56)

/-- Little-endian 128-bit load at offset `i` as a `Nat`, zero-padded past the end. -/
@[inline] def le128AtD (b : ByteArray) (i : Nat) : Nat :=
  (le64AtD b i).toNat + ((le64AtD b (i + 8)).toNat <<< 64)

/-- Little-endian serialisation of a 64-bit value: exactly 8 bytes. -/
def le64Bytes (x : UInt64) : Bytes :=
  [x.toUInt8, (x >>> 8).toUInt8, (x >>> 16).toUInt8, (x >>> 24).toUInt8,
   (x >>> 32).toUInt8, (x >>> 40).toUInt8, (x >>> 48).toUInt8, (x >>> 56).toUInt8]

/-- Little-endian serialisation of `lo + 2^64·hi`: exactly 16 bytes. -/
def le128Bytes (lo hi : UInt64) : Bytes := le64Bytes lo ++ le64Bytes hi

theorem le128Bytes_length (lo hi : UInt64) : (le128Bytes lo hi).length = 16 := rfl

/-! ## ChaCha20 block function (RFC 8439 §2.1-2.3) -/

@[inline] def rotl32 (x : UInt32) (n : UInt32) : UInt32 := (x <<< n) ||| (x >>> (32 - n))

/-- Quarter round on state words `a b c d` (§2.1). -/
def quarterRound (s : Array UInt32) (a b c d : Nat) : Array UInt32 :=
  let sa := s[a]!
  let sb := s[b]!
  let sc := s[c]!
  let sd := s[d]!
  let sa := sa + sb
  let sd := rotl32 (sd ^^^ sa) 16
  let sc := sc + sd
  let sb := rotl32 (sb ^^^ sc) 12
  let sa := sa + sb
  let sd := rotl32 (sd ^^^ sa) 8
  let sc := sc + sd
  let sb := rotl32 (sb ^^^ sc) 7
  (((s.set! a sa).set! b sb).set! c sc).set! d sd

/-- One column round followed by one diagonal round (§2.3). -/
def doubleRound (s : Array UInt32) : Array UInt32 :=
  let s := quarterRound s 0 4 8 12
  let s := quarterRound s 1 5 9 13
  let s := quarterRound s 2 6 10 14
  let s := quarterRound s 3 7 11 15
  let s := quarterRound s 0 5 10 15
  let s := quarterRound s 1 6 11 12
  let s := quarterRound s 2 7 8 13
  quarterRound s 3 4 9 14

/-- Initial state: constants, 8 key words, block counter, 3 nonce words (§2.3).
Key / nonce are zero-padded or truncated to 32 / 12 bytes. -/
def chachaInit (key nonce : Array UInt8) (counter : UInt32) : Array UInt32 :=
  #[0x61707865, 0x3320646e, 0x79622d32, 0x6b206574,
    le32At key 0, le32At key 4, le32At key 8, le32At key 12,
    le32At key 16, le32At key 20, le32At key 24, le32At key 28,
    counter, le32At nonce 0, le32At nonce 4, le32At nonce 8]

/-- 20 rounds, then add the initial state word-wise. -/
def chachaCore (init : Array UInt32) : Array UInt32 := Id.run do
  let mut s := init
  for _ in [0:10] do
    s := doubleRound s
  let mut out : Array UInt32 := Array.mkEmpty 16
  for i in [0:16] do
    out := out.push (s[i]! + init[i]!)
  return out

/-- Append the 16 words of a block little-endian to `out`. -/
def pushWordsLE (out : ByteArray) (ws : Array UInt32) : ByteArray := Id.run do
  let mut out := out
  for i in [0:16] do
    let w := ws[i]!
    out := out.push w.toUInt8
    out := out.push (w >>> 8).toUInt8
    out := out.push (w >>> 16).toUInt8
    out := out.push (w >>> 24).toUInt8
  return out

/-- The ChaCha20 block function: 64 bytes of keystream for the given block counter.
`key` is zero-padded / truncated to 32 bytes and `nonce` to 12 bytes (callers are
expected to pass exactly those lengths). -/
def chacha20Block (key nonce : Bytes) (counter : UInt32) : Bytes :=
  let ws := chachaCore (chachaInit key.toArray nonce.toArray counter)
  ((pushWordsLE (ByteArray.emptyWithCapacity 64) ws).toList ++ List.replicate 64 0).take 64

theorem chacha20Block_length (key nonce : Bytes) (counter : UInt32) :
    (chacha20Block key nonce counter).length = 64 := by
  simp [chacha20Block]

/-- First `n` bytes of ChaCha20 keystream starting at block counter 1 (the stream that the
AEAD XORs with the plaintext, §2.8). The counter wraps mod 2^32. -/
def chachaKeystream (key nonce : Bytes) (n : Nat) : Bytes :=
  let init := chachaInit key.toArray nonce.toArray 1
  let nblocks := (n + 63) / 64
  let ks : ByteArray := Id.run do
    let mut out := ByteArray.emptyWithCapacity (64 * nblocks)
    let mut ctr : UInt32 := 1
    for _ in [0:nblocks] do
      out := pushWordsLE out (chachaCore (init.set! 12 ctr))
      ctr := ctr + 1
    return out
  -- `ks` already has ≥ n bytes; the padding only makes the length lemma immediate.
  (ks.toList ++ List.replicate n 0).take n

theorem chachaKeystream_length (key nonce : Bytes) (n : Nat) :
    (chachaKeystream key nonce n).length = n := by
  simp [chachaKeystream]

/-! ## Poly1305 (RFC 8439 §2.5) -/

/-- The prime `2^130 - 5`. -/
def poly1305P : Nat := 2 ^ 130 - 5

/-- Clamp mask for `r` (§2.5.1). -/
def poly1305Clamp : Nat := 0x0ffffffc0ffffffc0ffffffc0fffffff

/-- Poly1305 one-time authenticator. `key32` = `r ‖ s` (zero-padded / truncated to 32
bytes; callers are expected to pass exactly 32). Returns the 16-byte tag. -/
def poly1305 (key32 msg : Bytes) : Bytes :=
  let k := key32.toByteArray
  let r := le128AtD k 0 &&& poly1305Clamp
  let s := (le64AtD k 16).toNat + ((le64AtD k 24).toNat <<< 64)
  let m := msg.toByteArray
  let acc : Nat := Id.run do
    let mut acc : Nat := 0
    for j in [0:(m.size + 15) / 16] do
      let len := min 16 (m.size - 16 * j)
      -- little-endian value of the chunk with the extra high bit 2^(8·len)
      let n := le128AtD m (16 * j) + (1 <<< (8 * len))
      acc := ((acc + n) * r) % poly1305P
    return acc
  let t := acc + s
  le128Bytes t.toUInt64 (t >>> 64).toUInt64

theorem poly1305_length (key32 msg : Bytes) : (poly1305 key32 msg).length = 16 := rfl

/-! ## AEAD_CHACHA20_POLY1305 (RFC 8439 §2.8) -/

/-- Zero padding up to the next multiple of 16. -/
def pad16 (n : Nat) : Bytes := List.replicate ((16 - n % 16) % 16) 0

/-- The AEAD tag: Poly1305 under the one-time key (first 32 bytes of block 0) of
`aad ‖ pad16 ‖ ct ‖ pad16 ‖ le64(|aad|) ‖ le64(|ct|)`. -/
def chachaPolyTag (key nonce aad ct : Bytes) : Bytes :=
  let otk := (chacha20Block key nonce 0).take 32
  poly1305 otk
    (aad ++ pad16 aad.length ++ ct ++ pad16 ct.length ++
      le64Bytes aad.length.toUInt64 ++ le64Bytes ct.length.toUInt64)

theorem chachaPolyTag_length (key nonce aad ct : Bytes) :
    (chachaPolyTag key nonce aad ct).length = 16 := rfl

/-- AEAD encryption: `ciphertext ‖ tag`. `none` unless `key` is 32 and `nonce` 12 bytes. -/
def chachaPolySeal (key nonce pt aad : Bytes) : Option Bytes :=
  if key.length = 32 ∧ nonce.length = 12 then
    let ct := List.zipWith (· ^^^ ·) pt (chachaKeystream key nonce pt.length)
    some (ct ++ chachaPolyTag key nonce aad ct)
  else none

/-- AEAD decryption of `ciphertext ‖ tag`. `none` on bad key/nonce size, input shorter
than a tag, or tag mismatch. -/
def chachaPolyOpen (key nonce ctAndTag aad : Bytes) : Option Bytes :=
  if key.length = 32 ∧ nonce.length = 12 ∧ 16 ≤ ctAndTag.length then
    let n := ctAndTag.length - 16
    let ct := ctAndTag.take n
    let tag := ctAndTag.drop n
    if chachaPolyTag key nonce aad ct == tag then
      some (List.zipWith (· ^^^ ·) ct (chachaKeystream key nonce n))
    else none
  else none

/-! ## Known-answer tests (RFC 8439) -/

section KAT

private def hv (c : Char) : UInt8 :=
  if '0' ≤ c ∧ c ≤ '9' then (c.toNat - 48).toUInt8
  else if 'a' ≤ c ∧ c ≤ 'f' then (c.toNat - 87).toUInt8
  else 0

private def hxAux : List Char → Array UInt8 → Array UInt8
  | a :: b :: rest, acc => hxAux rest (acc.push ((hv a <<< 4) ||| hv b))
  | _, acc => acc

/-- Lower-case hex string to bytes (local to the KATs). -/
private def hx (s : String) : Bytes := (hxAux s.toList #[]).toList

private def key0to31 := hx "000102030405060708090a0b0c0d0e0f101112131415161718191a1b1c1d1e1f"

private def sunscreen : Bytes :=
  ("Ladies and Gentlemen of the class of '99: If I could offer you only one tip for " ++
   "the future, sunscreen would be it.").toUTF8.toList

-- §2.1.1 quarter round on (a,b,c,d) = (0,1,2,3)
#guard quarterRound #[0x11111111, 0x01020304, 0x9b8d6f43, 0x01234567] 0 1 2 3
        == #[0xea2a92f4, 0xcb1cf8ce, 0x4581472e, 0x5881c4bb]

-- §2.3.2 block function
#guard chacha20Block key0to31 (hx "000000090000004a00000000") 1 == hx
  ("10f1e7e4d13b5915500fdd1fa32071c4c7d1f4c733c068030422aa9ac3d46c4e" ++
   "d2826446079faa0914c2d705d98b02a2b5129cd1de164eb9cbd083e8a2503c4e")

-- §2.4.2 encryption (initial counter 1)
#guard sunscreen.length == 114
#guard List.zipWith (· ^^^ ·) sunscreen (chachaKeystream key0to31 (hx "000000000000004a00000000") 114) == hx
  ("6e2e359a2568f98041ba0728dd0d6981e97e7aec1d4360c20a27afccfd9fae0b" ++
   "f91b65c5524733ab8f593dabcd62b3571639d624e65152ab8f530c359f0861d8" ++
   "07ca0dbf500d6a6156a38e088a22b65e52bc514d16ccf806818ce91ab7793736" ++
   "5af90bbf74a35be6b40b8eedf2785e42874d")
-- keystream = blocks 1, 2, … concatenated
#guard chachaKeystream key0to31 (hx "000000000000004a00000000") 100 ==
  (chacha20Block key0to31 (hx "000000000000004a00000000") 1 ++
   chacha20Block key0to31 (hx "000000000000004a00000000") 2).take 100
#guard chachaKeystream key0to31 (hx "000000000000004a00000000") 0 == []

-- §2.5.2 Poly1305
#guard poly1305 (hx "85d6be7857556d337f4452fe42d506a80103808afb0db2fd4abff6af4149f51b")
        "Cryptographic Forum Research Group".toUTF8.toList
        == hx "a8061dc1305136c6c22b8baf0c0127a9"
-- A.3 #1 (all zero) and A.3 #5 / #6 (carry edge cases: 2^130-5 wrap, s + acc overflow)
#guard poly1305 (List.replicate 32 0) (List.replicate 64 0) == List.replicate 16 0
#guard poly1305 (hx "0200000000000000000000000000000000000000000000000000000000000000")
        (hx "ffffffffffffffffffffffffffffffff") == hx "03000000000000000000000000000000"
#guard poly1305 (hx "02000000000000000000000000000000ffffffffffffffffffffffffffffffff")
        (hx "02000000000000000000000000000000") == hx "03000000000000000000000000000000"

-- §2.6.2 one-time key generation
#guard (chacha20Block (hx "808182838485868788898a8b8c8d8e8f909192939495969798999a9b9c9d9e9f")
          (hx "000000000001020304050607") 0).take 32
        == hx "8ad5a08b905f81cc815040274ab29471a833b637e3fd0da508dbb8e2fdd1a646"

-- §2.8.2 AEAD
private def k28 := hx "808182838485868788898a8b8c8d8e8f909192939495969798999a9b9c9d9e9f"
private def n28 := hx "070000004041424344454647"
private def a28 := hx "50515253c0c1c2c3c4c5c6c7"
private def c28 := hx
  ("d31a8d34648e60db7b86afbc53ef7ec2a4aded51296e08fea9e2b5a736ee62d6" ++
   "3dbea45e8ca9671282fafb69da92728b1a71de0a9e060b2905d6a5b67ecd3b36" ++
   "92ddbd7f2d778b8c9803aee328091b58fab324e4fad675945585808b4831d7bc" ++
   "3ff4def08e4b7a9de576d26586cec64b6116")
private def t28 := hx "1ae10b594f09e26a7e902ecbd0600691"

#guard chachaPolyTag k28 n28 a28 c28 == t28
#guard chachaPolySeal k28 n28 sunscreen a28 == some (c28 ++ t28)
#guard chachaPolyOpen k28 n28 (c28 ++ t28) a28 == some sunscreen

-- A.5 decryption
private def kA5 := hx "1c9240a5eb55d38af333888604f6b5f0473917c1402b80099dca5cbc207075c0"
private def nA5 := hx "000000000102030405060708"
private def aA5 := hx "f33388860000000000004e91"
private def cA5 := hx
  ("64a0861575861af460f062c79be643bd5e805cfd345cf389f108670ac76c8cb2" ++
   "4c6cfc18755d43eea09ee94e382d26b0bdb7b73c321b0100d4f03b7f355894cf" ++
   "332f830e710b97ce98c8a84abd0b948114ad176e008d33bd60f982b1ff37c855" ++
   "9797a06ef4f0ef61c186324e2b3506383606907b6a7c02b0f9f6157b53c867e4" ++
   "b9166c767b804d46a59b5216cde7a4e99040c5a40433225ee282a1b0a06c523e" ++
   "af4534d7f83fa1155b0047718cbc546a0d072b04b3564eea1b422273f548271a" ++
   "0bb2316053fa76991955ebd63159434ecebb4e466dae5a1073a6727627097a10" ++
   "49e617d91d361094fa68f0ff77987130305beaba2eda04df997b714d6c6f2c29" ++
   "a6ad5cb4022b02709b")
private def tA5 := hx "eead9d67890cbb22392336fea1851f38"
private def pA5 : Bytes :=
  ("Internet-Drafts are draft documents valid for a maximum of six months and may be " ++
   "updated, replaced, or obsoleted by other documents at any time. It is inappropriate " ++
   "to use Internet-Drafts as reference material or to cite them other than as " ++
   "/“work in progress./”").toUTF8.toList

#guard cA5.length == 265 && pA5.length == 265
#guard chachaPolyOpen kA5 nA5 (cA5 ++ tA5) aA5 == some pA5
#guard chachaPolySeal kA5 nA5 pA5 aA5 == some (cA5 ++ tA5)

-- Rejections
#guard chachaPolyOpen kA5 nA5 (cA5 ++ tA5) (aA5 ++ [0]) == none
#guard chachaPolyOpen kA5 nA5 ((cA5.set 3 0) ++ tA5) aA5 == none
#guard chachaPolyOpen kA5 nA5 (cA5 ++ tA5.set 15 0) aA5 == none
#guard chachaPolyOpen kA5 nA5 (tA5.take 15) aA5 == none
#guard chachaPolySeal (kA5.take 31) nA5 [] [] == none
#guard chachaPolySeal kA5 (nA5 ++ [0]) [] [] == none
#guard chachaPolyOpen kA5 (nA5.take 8) (cA5 ++ tA5) aA5 == none

end KAT

end Cose.Crypto
