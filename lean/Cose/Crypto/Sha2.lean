/-
SHA-256 / SHA-384 / SHA-512 (FIPS 180-4), executable reference implementation.
Core Lean only.  Public API works on `Bytes = List UInt8`; internally `ByteArray`,
`Array UInt32` / `Array UInt64` and fuel-driven tail-recursive round loops.
-/
import Cose.Bytes

namespace Cose.Crypto

def sha256BlockSize : Nat := 64
def sha256HashLen : Nat := 32
def sha384BlockSize : Nat := 128
def sha384HashLen : Nat := 48
def sha512BlockSize : Nat := 128
def sha512HashLen : Nat := 64

namespace Sha2

/-! ### SHA-256 -/

def k256 : Array UInt32 := #[
  0x428a2f98, 0x71374491, 0xb5c0fbcf, 0xe9b5dba5, 0x3956c25b, 0x59f111f1, 0x923f82a4, 0xab1c5ed5,
  0xd807aa98, 0x12835b01, 0x243185be, 0x550c7dc3, 0x72be5d74, 0x80deb1fe, 0x9bdc06a7, 0xc19bf174,
  0xe49b69c1, 0xefbe4786, 0x0fc19dc6, 0x240ca1cc, 0x2de92c6f, 0x4a7484aa, 0x5cb0a9dc, 0x76f988da,
  0x983e5152, 0xa831c66d, 0xb00327c8, 0xbf597fc7, 0xc6e00bf3, 0xd5a79147, 0x06ca6351, 0x14292967,
  0x27b70a85, 0x2e1b2138, 0x4d2c6dfc, 0x53380d13, 0x650a7354, 0x766a0abb, 0x81c2c92e, 0x92722c85,
  0xa2bfe8a1, 0xa81a664b, 0xc24b8b70, 0xc76c51a3, 0xd192e819, 0xd6990624, 0xf40e3585, 0x106aa070,
  0x19a4c116, 0x1e376c08, 0x2748774c, 0x34b0bcb5, 0x391c0cb3, 0x4ed8aa4a, 0x5b9cca4f, 0x682e6ff3,
  0x748f82ee, 0x78a5636f, 0x84c87814, 0x8cc70208, 0x90befffa, 0xa4506ceb, 0xbef9a3f7, 0xc67178f2]

def iv256 : Array UInt32 := #[
  0x6a09e667, 0xbb67ae85, 0x3c6ef372, 0xa54ff53a, 0x510e527f, 0x9b05688c, 0x1f83d9ab, 0x5be0cd19]

@[inline] def rotr32 (x : UInt32) (n : UInt32) : UInt32 := (x >>> n) ||| (x <<< (32 - n))

/-- Message schedule extension: fills `w[i]` for `i = 16 .. 63`. -/
def sched256 (w : Array UInt32) (i fuel : Nat) : Array UInt32 :=
  match fuel with
  | 0 => w
  | fuel + 1 =>
    let w15 := w[i - 15]!
    let w2 := w[i - 2]!
    let s0 := rotr32 w15 7 ^^^ rotr32 w15 18 ^^^ (w15 >>> 3)
    let s1 := rotr32 w2 17 ^^^ rotr32 w2 19 ^^^ (w2 >>> 10)
    sched256 (w.set! i (w[i - 16]! + s0 + w[i - 7]! + s1)) (i + 1) fuel

/-- The 64 rounds; returns the working variables `a..h`. -/
def rounds256 (w : Array UInt32) (i fuel : Nat) (a b c d e f g h : UInt32) : Array UInt32 :=
  match fuel with
  | 0 => #[a, b, c, d, e, f, g, h]
  | fuel + 1 =>
    let s1 := rotr32 e 6 ^^^ rotr32 e 11 ^^^ rotr32 e 25
    let ch := (e &&& f) ^^^ (~~~e &&& g)
    let t1 := h + s1 + ch + k256[i]! + w[i]!
    let s0 := rotr32 a 2 ^^^ rotr32 a 13 ^^^ rotr32 a 22
    let maj := (a &&& b) ^^^ (a &&& c) ^^^ (b &&& c)
    let t2 := s0 + maj
    rounds256 w (i + 1) fuel (t1 + t2) a b c (d + t1) e f g

/-- Load 16 big-endian words starting at `off`. -/
def load256 (data : ByteArray) (off : Nat) (w : Array UInt32) (i fuel : Nat) : Array UInt32 :=
  match fuel with
  | 0 => w
  | fuel + 1 =>
    let j := off + 4 * i
    let x : UInt32 :=
      (data[j]!.toUInt32 <<< 24) ||| (data[j + 1]!.toUInt32 <<< 16) |||
      (data[j + 2]!.toUInt32 <<< 8) ||| data[j + 3]!.toUInt32
    load256 data off (w.set! i x) (i + 1) fuel

def block256 (h : Array UInt32) (data : ByteArray) (off : Nat) : Array UInt32 :=
  let w := load256 data off (Array.replicate 64 0) 0 16
  let w := sched256 w 16 48
  let v := rounds256 w 0 64 h[0]! h[1]! h[2]! h[3]! h[4]! h[5]! h[6]! h[7]!
  #[h[0]! + v[0]!, h[1]! + v[1]!, h[2]! + v[2]!, h[3]! + v[3]!,
    h[4]! + v[4]!, h[5]! + v[5]!, h[6]! + v[6]!, h[7]! + v[7]!]

def pushZeros (b : ByteArray) : Nat → ByteArray
  | 0 => b
  | n + 1 => pushZeros (b.push 0) n

/-- Append `len` big-endian bytes of `n` (low-order bytes kept). -/
def pushBE (b : ByteArray) (n : Nat) : Nat → ByteArray
  | 0 => b
  | len + 1 => pushBE (b.push (n >>> (8 * len)).toUInt8) n len

/-- FIPS 180-4 padding: 0x80, zeros, then the bit length on `lenBytes` bytes. -/
def pad (m : ByteArray) (blockSize lenBytes : Nat) : ByteArray :=
  let l := m.size
  let used := (l + 1 + lenBytes) % blockSize
  let z := if used == 0 then 0 else blockSize - used
  pushBE (pushZeros (m.push 0x80) z) (8 * l) lenBytes

def blocks256 (data : ByteArray) (h : Array UInt32) (i fuel : Nat) : Array UInt32 :=
  match fuel with
  | 0 => h
  | fuel + 1 => blocks256 data (block256 h data (64 * i)) (i + 1) fuel

def wordsToBytes32 (h : Array UInt32) : Bytes :=
  h.foldr (fun (x : UInt32) (acc : Bytes) =>
    (x >>> 24).toUInt8 :: (x >>> 16).toUInt8 :: (x >>> 8).toUInt8 :: x.toUInt8 :: acc) []

/-! ### SHA-512 / SHA-384 -/

def k512 : Array UInt64 := #[
  0x428a2f98d728ae22, 0x7137449123ef65cd, 0xb5c0fbcfec4d3b2f, 0xe9b5dba58189dbbc,
  0x3956c25bf348b538, 0x59f111f1b605d019, 0x923f82a4af194f9b, 0xab1c5ed5da6d8118,
  0xd807aa98a3030242, 0x12835b0145706fbe, 0x243185be4ee4b28c, 0x550c7dc3d5ffb4e2,
  0x72be5d74f27b896f, 0x80deb1fe3b1696b1, 0x9bdc06a725c71235, 0xc19bf174cf692694,
  0xe49b69c19ef14ad2, 0xefbe4786384f25e3, 0x0fc19dc68b8cd5b5, 0x240ca1cc77ac9c65,
  0x2de92c6f592b0275, 0x4a7484aa6ea6e483, 0x5cb0a9dcbd41fbd4, 0x76f988da831153b5,
  0x983e5152ee66dfab, 0xa831c66d2db43210, 0xb00327c898fb213f, 0xbf597fc7beef0ee4,
  0xc6e00bf33da88fc2, 0xd5a79147930aa725, 0x06ca6351e003826f, 0x142929670a0e6e70,
  0x27b70a8546d22ffc, 0x2e1b21385c26c926, 0x4d2c6dfc5ac42aed, 0x53380d139d95b3df,
  0x650a73548baf63de, 0x766a0abb3c77b2a8, 0x81c2c92e47edaee6, 0x92722c851482353b,
  0xa2bfe8a14cf10364, 0xa81a664bbc423001, 0xc24b8b70d0f89791, 0xc76c51a30654be30,
  0xd192e819d6ef5218, 0xd69906245565a910, 0xf40e35855771202a, 0x106aa07032bbd1b8,
  0x19a4c116b8d2d0c8, 0x1e376c085141ab53, 0x2748774cdf8eeb99, 0x34b0bcb5e19b48a8,
  0x391c0cb3c5c95a63, 0x4ed8aa4ae3418acb, 0x5b9cca4f7763e373, 0x682e6ff3d6b2b8a3,
  0x748f82ee5defb2fc, 0x78a5636f43172f60, 0x84c87814a1f0ab72, 0x8cc702081a6439ec,
  0x90befffa23631e28, 0xa4506cebde82bde9, 0xbef9a3f7b2c67915, 0xc67178f2e372532b,
  0xca273eceea26619c, 0xd186b8c721c0c207, 0xeada7dd6cde0eb1e, 0xf57d4f7fee6ed178,
  0x06f067aa72176fba, 0x0a637dc5a2c898a6, 0x113f9804bef90dae, 0x1b710b35131c471b,
  0x28db77f523047d84, 0x32caab7b40c72493, 0x3c9ebe0a15c9bebc, 0x431d67c49c100d4c,
  0x4cc5d4becb3e42b6, 0x597f299cfc657e2a, 0x5fcb6fab3ad6faec, 0x6c44198c4a475817]

def iv512 : Array UInt64 := #[
  0x6a09e667f3bcc908, 0xbb67ae8584caa73b, 0x3c6ef372fe94f82b, 0xa54ff53a5f1d36f1,
  0x510e527fade682d1, 0x9b05688c2b3e6c1f, 0x1f83d9abfb41bd6b, 0x5be0cd19137e2179]

def iv384 : Array UInt64 := #[
  0xcbbb9d5dc1059ed8, 0x629a292a367cd507, 0x9159015a3070dd17, 0x152fecd8f70e5939,
  0x67332667ffc00b31, 0x8eb44a8768581511, 0xdb0c2e0d64f98fa7, 0x47b5481dbefa4fa4]

@[inline] def rotr64 (x : UInt64) (n : UInt64) : UInt64 := (x >>> n) ||| (x <<< (64 - n))

def sched512 (w : Array UInt64) (i fuel : Nat) : Array UInt64 :=
  match fuel with
  | 0 => w
  | fuel + 1 =>
    let w15 := w[i - 15]!
    let w2 := w[i - 2]!
    let s0 := rotr64 w15 1 ^^^ rotr64 w15 8 ^^^ (w15 >>> 7)
    let s1 := rotr64 w2 19 ^^^ rotr64 w2 61 ^^^ (w2 >>> 6)
    sched512 (w.set! i (w[i - 16]! + s0 + w[i - 7]! + s1)) (i + 1) fuel

def rounds512 (w : Array UInt64) (i fuel : Nat) (a b c d e f g h : UInt64) : Array UInt64 :=
  match fuel with
  | 0 => #[a, b, c, d, e, f, g, h]
  | fuel + 1 =>
    let s1 := rotr64 e 14 ^^^ rotr64 e 18 ^^^ rotr64 e 41
    let ch := (e &&& f) ^^^ (~~~e &&& g)
    let t1 := h + s1 + ch + k512[i]! + w[i]!
    let s0 := rotr64 a 28 ^^^ rotr64 a 34 ^^^ rotr64 a 39
    let maj := (a &&& b) ^^^ (a &&& c) ^^^ (b &&& c)
    let t2 := s0 + maj
    rounds512 w (i + 1) fuel (t1 + t2) a b c (d + t1) e f g

def load512 (data : ByteArray) (off : Nat) (w : Array UInt64) (i fuel : Nat) : Array UInt64 :=
  match fuel with
  | 0 => w
  | fuel + 1 =>
    let j := off + 8 * i
    let x : UInt64 :=
      (data[j]!.toUInt64 <<< 56) ||| (data[j + 1]!.toUInt64 <<< 48) |||
      (data[j + 2]!.toUInt64 <<< 40) ||| (data[j + 3]!.toUInt64 <<< 32) |||
      (data[j + 4]!.toUInt64 <<< 24) ||| (data[j + 5]!.toUInt64 <<< 16) |||
      (data[j + 6]!.toUInt64 <<< 8) ||| data[j + 7]!.toUInt64
    load512 data off (w.set! i x) (i + 1) fuel

def block512 (h : Array UInt64) (data : ByteArray) (off : Nat) : Array UInt64 :=
  let w := load512 data off (Array.replicate 80 0) 0 16
  let w := sched512 w 16 64
  let v := rounds512 w 0 80 h[0]! h[1]! h[2]! h[3]! h[4]! h[5]! h[6]! h[7]!
  #[h[0]! + v[0]!, h[1]! + v[1]!, h[2]! + v[2]!, h[3]! + v[3]!,
    h[4]! + v[4]!, h[5]! + v[5]!, h[6]! + v[6]!, h[7]! + v[7]!]

def blocks512 (data : ByteArray) (h : Array UInt64) (i fuel : Nat) : Array UInt64 :=
  match fuel with
  | 0 => h
  | fuel + 1 => blocks512 data (block512 h data (128 * i)) (i + 1) fuel

def wordsToBytes64 (h : Array UInt64) : Bytes :=
  h.foldr (fun (x : UInt64) (acc : Bytes) =>
    (x >>> 56).toUInt8 :: (x >>> 48).toUInt8 :: (x >>> 40).toUInt8 :: (x >>> 32).toUInt8 ::
    (x >>> 24).toUInt8 :: (x >>> 16).toUInt8 :: (x >>> 8).toUInt8 :: x.toUInt8 :: acc) []

def sha512Core (iv : Array UInt64) (m : Bytes) : Bytes :=
  let data := pad m.toByteArray 128 16
  wordsToBytes64 (blocks512 data iv 0 (data.size / 128))

end Sha2

open Sha2

/-- SHA-256 (FIPS 180-4 §6.2). -/
def sha256 (m : Bytes) : Bytes :=
  let data := pad m.toByteArray 64 8
  wordsToBytes32 (blocks256 data iv256 0 (data.size / 64))

/-- SHA-512 (FIPS 180-4 §6.4). -/
def sha512 (m : Bytes) : Bytes := sha512Core iv512 m

/-- SHA-384 (FIPS 180-4 §6.5): SHA-512 with a different IV, truncated to 48 bytes. -/
def sha384 (m : Bytes) : Bytes := (sha512Core iv384 m).take 48

/-! ### Hex helpers (used by KATs in this and sibling modules) -/

def hexDigit (n : Nat) : Char :=
  if n < 10 then Char.ofNat (48 + n) else Char.ofNat (87 + n)

def toHex (b : Bytes) : String :=
  String.ofList (b.foldr (fun x acc => hexDigit (x.toNat / 16) :: hexDigit (x.toNat % 16) :: acc) [])

def hexVal (c : Char) : Nat :=
  let n := c.toNat
  if 48 ≤ n && n ≤ 57 then n - 48
  else if 97 ≤ n && n ≤ 102 then n - 87
  else if 65 ≤ n && n ≤ 70 then n - 55
  else 0

def hexPairs : List Char → Bytes
  | a :: b :: rest => UInt8.ofNat (hexVal a * 16 + hexVal b) :: hexPairs rest
  | _ => []

/-- Parse an even-length hex string (no validation; non-hex characters read as 0). -/
def ofHex (s : String) : Bytes := hexPairs s.toList

/-! ### Known-answer tests (FIPS 180-4 / NIST example vectors) -/

private def m448 : Bytes := "abcdbcdecdefdefgefghfghighijhijkijkljklmklmnlmnomnopnopq".toUTF8.toList
private def m896 : Bytes :=
  "abcdefghbcdefghicdefghijdefghijkefghijklfghijklmghijklmnhijklmnoijklmnopjklmnopqklmnopqrlmnopqrsmnopqrstnopqrstu".toUTF8.toList

#guard toHex (sha256 "abc".toUTF8.toList) == "ba7816bf8f01cfea414140de5dae2223b00361a396177a9cb410ff61f20015ad"
#guard toHex (sha256 []) == "e3b0c44298fc1c149afbf4c8996fb92427ae41e4649b934ca495991b7852b855"
#guard toHex (sha256 m448) == "248d6a61d20638b8e5c026930c3e6039a33ce45964ff2167f6ecedd419db06c1"
#guard toHex (sha256 m896) == "cf5b16a778af8380036ce59e7b0492370b249b11e8f07a51afac45037afee9d1"

#guard toHex (sha384 "abc".toUTF8.toList) == "cb00753f45a35e8bb5a03d699ac65007272c32ab0eded1631a8b605a43ff5bed8086072ba1e7cc2358baeca134c825a7"
#guard toHex (sha384 []) == "38b060a751ac96384cd9327eb1b1e36a21fdb71114be07434c0cc7bf63f6e1da274edebfe76f65fbd51ad2f14898b95b"
#guard toHex (sha384 m448) == "3391fdddfc8dc7393707a65b1b4709397cf8b1d162af05abfe8f450de5f36bc6b0455a8520bc4e6f5fe95b1fe3c8452b"
#guard toHex (sha384 m896) == "09330c33f71147e83d192fc782cd1b4753111b173b3b05d22fa08086e3b0f712fcc7c71a557e2db966c3e9fa91746039"

#guard toHex (sha512 "abc".toUTF8.toList) == "ddaf35a193617abacc417349ae20413112e6fa4e89a97ea20a9eeee64b55d39a2192992a274fc1a836ba3c23a3feebbd454d4423643ce80e2a9ac94fa54ca49f"
#guard toHex (sha512 []) == "cf83e1357eefb8bdf1542850d66d8007d620e4050b5715dc83f4a921d36ce9ce47d0d13c5d85f2b0ff8318d2877eec2f63b931bd47417a81a538327af927da3e"
#guard toHex (sha512 m448) == "204a8fc6dda82f0a0ced7beb8e08a41657c16ef468b228a8279be331a703c33596fd15c13b1b07f9aa1d3bea57789ca031ad85c7a71dd70354ec631238ca3445"
#guard toHex (sha512 m896) == "8e959b75dae313da8cf4f72814fc143f8f7779c6eb9f7fa17299aeadb6889018501d289e4900f7e4331b99dec4b5433ac7d329eeb6dd26545e96e55b874be909"

#guard sha256HashLen == (sha256 []).length && sha384HashLen == (sha384 []).length
  && sha512HashLen == (sha512 []).length

end Cose.Crypto
