import Cose.Bytes

/-!
# AES block cipher (FIPS 197), encryption direction only

Executable reference implementation used as an independent oracle.
Core-only (no Mathlib / Batteries); every function is total.

State representation: four big-endian column words `UInt32`
(word `c` = bytes `4c .. 4c+3` of the block, first byte in the top 8 bits).
-/

namespace Cose.Crypto

/-! ## Hex helpers (used by the KATs and by test drivers) -/

/-- Value of one hex digit (`0` for a non-hex character). -/
def hexDigitVal (c : Char) : UInt8 :=
  if '0' ≤ c ∧ c ≤ '9' then (c.toNat - 48).toUInt8
  else if 'a' ≤ c ∧ c ≤ 'f' then (c.toNat - 87).toUInt8
  else if 'A' ≤ c ∧ c ≤ 'F' then (c.toNat - 55).toUInt8
  else 0

/-- Tail-recursive worker for `hexToBytes`. A trailing odd digit is dropped. -/
def hexToBytesAux : List Char → Array UInt8 → Array UInt8
  | a :: b :: rest, acc => hexToBytesAux rest (acc.push ((hexDigitVal a <<< 4) ||| hexDigitVal b))
  | _, acc => acc

/-- Parse a hex string (no separators) into bytes. -/
def hexToBytes (s : String) : Bytes := (hexToBytesAux s.toList #[]).toList

/-- Lower-case hex digit for a nibble. -/
def hexDigitChar (n : UInt8) : Char :=
  if n < 10 then Char.ofNat (48 + n.toNat) else Char.ofNat (87 + n.toNat)

/-- Render bytes as lower-case hex. -/
def bytesToHex (b : Bytes) : String :=
  String.ofList (b.foldl (fun acc x => (acc.push (hexDigitChar (x >>> 4))).push (hexDigitChar (x &&& 0x0f)))
    (#[] : Array Char)).toList

/-! ## S-box -/

/-- The AES S-box (FIPS 197 Figure 7). -/
def sboxTable : ByteArray := ⟨#[
  0x63, 0x7c, 0x77, 0x7b, 0xf2, 0x6b, 0x6f, 0xc5, 0x30, 0x01, 0x67, 0x2b, 0xfe, 0xd7, 0xab, 0x76,
  0xca, 0x82, 0xc9, 0x7d, 0xfa, 0x59, 0x47, 0xf0, 0xad, 0xd4, 0xa2, 0xaf, 0x9c, 0xa4, 0x72, 0xc0,
  0xb7, 0xfd, 0x93, 0x26, 0x36, 0x3f, 0xf7, 0xcc, 0x34, 0xa5, 0xe5, 0xf1, 0x71, 0xd8, 0x31, 0x15,
  0x04, 0xc7, 0x23, 0xc3, 0x18, 0x96, 0x05, 0x9a, 0x07, 0x12, 0x80, 0xe2, 0xeb, 0x27, 0xb2, 0x75,
  0x09, 0x83, 0x2c, 0x1a, 0x1b, 0x6e, 0x5a, 0xa0, 0x52, 0x3b, 0xd6, 0xb3, 0x29, 0xe3, 0x2f, 0x84,
  0x53, 0xd1, 0x00, 0xed, 0x20, 0xfc, 0xb1, 0x5b, 0x6a, 0xcb, 0xbe, 0x39, 0x4a, 0x4c, 0x58, 0xcf,
  0xd0, 0xef, 0xaa, 0xfb, 0x43, 0x4d, 0x33, 0x85, 0x45, 0xf9, 0x02, 0x7f, 0x50, 0x3c, 0x9f, 0xa8,
  0x51, 0xa3, 0x40, 0x8f, 0x92, 0x9d, 0x38, 0xf5, 0xbc, 0xb6, 0xda, 0x21, 0x10, 0xff, 0xf3, 0xd2,
  0xcd, 0x0c, 0x13, 0xec, 0x5f, 0x97, 0x44, 0x17, 0xc4, 0xa7, 0x7e, 0x3d, 0x64, 0x5d, 0x19, 0x73,
  0x60, 0x81, 0x4f, 0xdc, 0x22, 0x2a, 0x90, 0x88, 0x46, 0xee, 0xb8, 0x14, 0xde, 0x5e, 0x0b, 0xdb,
  0xe0, 0x32, 0x3a, 0x0a, 0x49, 0x06, 0x24, 0x5c, 0xc2, 0xd3, 0xac, 0x62, 0x91, 0x95, 0xe4, 0x79,
  0xe7, 0xc8, 0x37, 0x6d, 0x8d, 0xd5, 0x4e, 0xa9, 0x6c, 0x56, 0xf4, 0xea, 0x65, 0x7a, 0xae, 0x08,
  0xba, 0x78, 0x25, 0x2e, 0x1c, 0xa6, 0xb4, 0xc6, 0xe8, 0xdd, 0x74, 0x1f, 0x4b, 0xbd, 0x8b, 0x8a,
  0x70, 0x3e, 0xb5, 0x66, 0x48, 0x03, 0xf6, 0x0e, 0x61, 0x35, 0x57, 0xb9, 0x86, 0xc1, 0x1d, 0x9e,
  0xe1, 0xf8, 0x98, 0x11, 0x69, 0xd9, 0x8e, 0x94, 0x9b, 0x1e, 0x87, 0xe9, 0xce, 0x55, 0x28, 0xdf,
  0x8c, 0xa1, 0x89, 0x0d, 0xbf, 0xe6, 0x42, 0x68, 0x41, 0x99, 0x2d, 0x0f, 0xb0, 0x54, 0xbb, 0x16]⟩

/-- S-box applied to the low byte of `x`; result in the low byte. -/
@[inline] def sbox32 (x : UInt32) : UInt32 :=
  (sboxTable.get! (x &&& 0xff).toNat).toUInt32

/-- `SubWord` of FIPS 197 §5.2: S-box on each of the four bytes. -/
def subWord (w : UInt32) : UInt32 :=
  (sbox32 (w >>> 24) <<< 24) ||| (sbox32 (w >>> 16) <<< 16) |||
  (sbox32 (w >>> 8) <<< 8) ||| sbox32 w

/-- Multiplication by `x` in GF(2^8) mod `x^8+x^4+x^3+x+1`, on a byte held in a `UInt32`. -/
@[inline] def xtime32 (a : UInt32) : UInt32 :=
  ((a <<< 1) ^^^ (if a &&& 0x80 != 0 then 0x1b else 0)) &&& 0xff

/-! ## Key schedule -/

/-- Expanded AES key: `rounds` ∈ {10,12,14} and `4*(rounds+1)` big-endian round-key words. -/
structure AesKey where
  rounds : Nat
  rk : Array UInt32

/-- Big-endian 32-bit load at byte offset `i`; missing bytes read as zero. -/
@[inline] def be32At (a : Array UInt8) (i : Nat) : UInt32 :=
  ((a.getD i 0).toUInt32 <<< 24) ||| ((a.getD (i+1) 0).toUInt32 <<< 16) |||
  ((a.getD (i+2) 0).toUInt32 <<< 8) ||| (a.getD (i+3) 0).toUInt32

/-- FIPS 197 §5.2 `KeyExpansion`. `none` unless the key is 16, 24 or 32 bytes long. -/
def aesExpandKey (key : Bytes) : Option AesKey :=
  if key.length = 16 ∨ key.length = 24 ∨ key.length = 32 then
    let kb := key.toArray
    let nk := key.length / 4
    let nr := nk + 6
    let total := 4 * (nr + 1)
    some ⟨nr, Id.run do
      let mut w : Array UInt32 := Array.mkEmpty total
      for i in [0:nk] do
        w := w.push (be32At kb (4 * i))
      let mut rcon : UInt32 := 0x01
      for i in [nk:total] do
        let mut t := w[i - 1]!
        if i % nk == 0 then
          -- RotWord, SubWord, Rcon
          t := subWord ((t <<< 8) ||| (t >>> 24)) ^^^ (rcon <<< 24)
          rcon := xtime32 rcon
        else if nk > 6 && i % nk == 4 then
          t := subWord t
        w := w.push (w[i - nk]! ^^^ t)
      return w⟩
  else none

/-! ## Cipher -/

/-- A 128-bit block as four big-endian column words. -/
structure Block4 where
  w0 : UInt32
  w1 : UInt32
  w2 : UInt32
  w3 : UInt32

/-- One output column of SubBytes ∘ ShiftRows ∘ MixColumns.
The arguments are the state columns `c, c+1, c+2, c+3` (mod 4). -/
@[inline] def roundCol (s0 s1 s2 s3 : UInt32) : UInt32 :=
  let a0 := sbox32 (s0 >>> 24)
  let a1 := sbox32 (s1 >>> 16)
  let a2 := sbox32 (s2 >>> 8)
  let a3 := sbox32 s3
  let x0 := xtime32 a0
  let x1 := xtime32 a1
  let x2 := xtime32 a2
  let x3 := xtime32 a3
  let r0 := x0 ^^^ (x1 ^^^ a1) ^^^ a2 ^^^ a3          -- 2 3 1 1
  let r1 := a0 ^^^ x1 ^^^ (x2 ^^^ a2) ^^^ a3          -- 1 2 3 1
  let r2 := a0 ^^^ a1 ^^^ x2 ^^^ (x3 ^^^ a3)          -- 1 1 2 3
  let r3 := (x0 ^^^ a0) ^^^ a1 ^^^ a2 ^^^ x3          -- 3 1 1 2
  (r0 <<< 24) ||| (r1 <<< 16) ||| (r2 <<< 8) ||| r3

/-- One output column of SubBytes ∘ ShiftRows (final round, no MixColumns). -/
@[inline] def finalCol (s0 s1 s2 s3 : UInt32) : UInt32 :=
  (sbox32 (s0 >>> 24) <<< 24) ||| (sbox32 (s1 >>> 16) <<< 16) |||
  (sbox32 (s2 >>> 8) <<< 8) ||| sbox32 s3

/-- `aesRounds rk n r s` performs `n` full rounds starting with round number `r`
(round keys `rk[4r ..]`), followed by the final round. -/
def aesRounds (rk : Array UInt32) : Nat → Nat → UInt32 → UInt32 → UInt32 → UInt32 → Block4
  | 0, r, s0, s1, s2, s3 =>
    ⟨finalCol s0 s1 s2 s3 ^^^ rk[4 * r]!,
     finalCol s1 s2 s3 s0 ^^^ rk[4 * r + 1]!,
     finalCol s2 s3 s0 s1 ^^^ rk[4 * r + 2]!,
     finalCol s3 s0 s1 s2 ^^^ rk[4 * r + 3]!⟩
  | n + 1, r, s0, s1, s2, s3 =>
    aesRounds rk n (r + 1)
      (roundCol s0 s1 s2 s3 ^^^ rk[4 * r]!)
      (roundCol s1 s2 s3 s0 ^^^ rk[4 * r + 1]!)
      (roundCol s2 s3 s0 s1 ^^^ rk[4 * r + 2]!)
      (roundCol s3 s0 s1 s2 ^^^ rk[4 * r + 3]!)

/-- FIPS 197 §5.1 `Cipher` on a block given as four big-endian words. -/
def aesEncryptWords (k : AesKey) (s0 s1 s2 s3 : UInt32) : Block4 :=
  aesRounds k.rk (k.rounds - 1) 1
    (s0 ^^^ k.rk[0]!) (s1 ^^^ k.rk[1]!) (s2 ^^^ k.rk[2]!) (s3 ^^^ k.rk[3]!)

/-- Big-endian serialisation of four words: always exactly 16 bytes. -/
def Block4.toBytes (b : Block4) : Bytes :=
  [(b.w0 >>> 24).toUInt8, (b.w0 >>> 16).toUInt8, (b.w0 >>> 8).toUInt8, b.w0.toUInt8,
   (b.w1 >>> 24).toUInt8, (b.w1 >>> 16).toUInt8, (b.w1 >>> 8).toUInt8, b.w1.toUInt8,
   (b.w2 >>> 24).toUInt8, (b.w2 >>> 16).toUInt8, (b.w2 >>> 8).toUInt8, b.w2.toUInt8,
   (b.w3 >>> 24).toUInt8, (b.w3 >>> 16).toUInt8, (b.w3 >>> 8).toUInt8, b.w3.toUInt8]

theorem Block4.toBytes_length (b : Block4) : b.toBytes.length = 16 := rfl

/-- Encrypt one block. The input is zero-padded / truncated to 16 bytes if its length
is not 16 (callers are expected to pass exactly 16 bytes); the output is always 16 bytes. -/
def aesEncryptBlockWith (k : AesKey) (block : Bytes) : Bytes :=
  let a := block.toArray
  (aesEncryptWords k (be32At a 0) (be32At a 4) (be32At a 8) (be32At a 12)).toBytes

theorem aesEncryptBlockWith_length (k : AesKey) (b : Bytes) :
    (aesEncryptBlockWith k b).length = 16 := rfl

/-- Encrypt one block under a raw key; `none` if the key length is not 16/24/32
or the block length is not 16. -/
def aesEncryptBlock (key block : Bytes) : Option Bytes :=
  match aesExpandKey key with
  | none => none
  | some k => if block.length = 16 then some (aesEncryptBlockWith k block) else none

/-! ## Known-answer tests -/

section KAT

/-- GF(2^8) product, used only to re-derive the S-box below. -/
private def gmul (a b : UInt8) : UInt8 := Id.run do
  let mut r : UInt8 := 0
  let mut a := a
  for i in [0:8] do
    if (b >>> i.toUInt8) &&& 1 == 1 then r := r ^^^ a
    a := (a <<< 1) ^^^ (if a &&& 0x80 != 0 then 0x1b else 0)
  return r

private def rotl8 (x : UInt8) (n : UInt8) : UInt8 := (x <<< n) ||| (x >>> (8 - n))

/-- Algebraic definition of the S-box: inverse in GF(2^8) followed by the affine map. -/
private def sboxSpec (a : UInt8) : UInt8 :=
  let inv := ((List.range 256).map Nat.toUInt8).foldl (fun acc b => if gmul a b == 1 then b else acc) 0
  inv ^^^ rotl8 inv 1 ^^^ rotl8 inv 2 ^^^ rotl8 inv 3 ^^^ rotl8 inv 4 ^^^ 0x63

#guard sboxTable.size == 256
#guard (List.range 256).all fun i => sboxTable.get! i == sboxSpec i.toUInt8

#guard hexToBytes "00ff1aB2" == [0x00, 0xff, 0x1a, 0xb2]
#guard bytesToHex [0x00, 0xff, 0x1a, 0xb2] == "00ff1ab2"

private def kat (key pt ct : String) : Bool :=
  aesEncryptBlock (hexToBytes key) (hexToBytes pt) == some (hexToBytes ct)

-- FIPS 197 Appendix C.1 / C.2 / C.3
#guard kat "000102030405060708090a0b0c0d0e0f"
           "00112233445566778899aabbccddeeff" "69c4e0d86a7b0430d8cdb78070b4c55a"
#guard kat "000102030405060708090a0b0c0d0e0f1011121314151617"
           "00112233445566778899aabbccddeeff" "dda97ca4864cdfe06eaf70a0ec0d7191"
#guard kat "000102030405060708090a0b0c0d0e0f101112131415161718191a1b1c1d1e1f"
           "00112233445566778899aabbccddeeff" "8ea2b7ca516745bfeafc49904b496089"
-- FIPS 197 Appendix B
#guard kat "2b7e151628aed2a6abf7158809cf4f3c"
           "3243f6a8885a308d313198a2e0370734" "3925841d02dc09fbdc118597196a0b32"
-- NIST SP 800-38A F.1.1 / F.1.3 / F.1.5 (ECB-AES128/192/256, block #1)
#guard kat "2b7e151628aed2a6abf7158809cf4f3c"
           "6bc1bee22e409f96e93d7e117393172a" "3ad77bb40d7a3660a89ecaf32466ef97"
#guard kat "8e73b0f7da0e6452c810f32b809079e562f8ead2522c6b7b"
           "6bc1bee22e409f96e93d7e117393172a" "bd334f1d6e45f25ff712a214571fa5cc"
#guard kat "603deb1015ca71be2b73aef0857d77811f352c073b6108d72d9810a30914dff4"
           "6bc1bee22e409f96e93d7e117393172a" "f3eed1bdb5d2a03c064b5a7e3db181f8"
-- All-zero key and block (AES-128): the GCM hash subkey of NIST GCM test case 1
#guard kat "00000000000000000000000000000000"
           "00000000000000000000000000000000" "66e94bd4ef8a2c3b884cfa59ca342b2e"
-- FIPS 197 Appendix A.1: last word of the AES-128 key expansion
#guard ((aesExpandKey (hexToBytes "2b7e151628aed2a6abf7158809cf4f3c")).map
          fun k => (k.rounds, k.rk.size, k.rk[43]!)) == some (10, 44, 0xb6630ca6)
-- FIPS 197 Appendix A.2 / A.3: last words of the AES-192 / AES-256 expansions
#guard ((aesExpandKey (hexToBytes "8e73b0f7da0e6452c810f32b809079e562f8ead2522c6b7b")).map
          fun k => (k.rounds, k.rk.size, k.rk[51]!)) == some (12, 52, 0x01002202)
#guard ((aesExpandKey (hexToBytes
          "603deb1015ca71be2b73aef0857d77811f352c073b6108d72d9810a30914dff4")).map
          fun k => (k.rounds, k.rk.size, k.rk[59]!)) == some (14, 60, 0x706c631e)
-- Bad lengths
#guard (aesExpandKey (List.replicate 17 0)).isNone
#guard (aesExpandKey []).isNone
#guard aesEncryptBlock (List.replicate 16 0) (List.replicate 15 0) == none
#guard (aesEncryptBlock (List.replicate 20 0) (List.replicate 16 0)).isNone

end KAT

end Cose.Crypto
