import Cose.Crypto.Constructions
/-! Theorems about the generic constructions, for every hash / block cipher / keystream. -/
namespace Cose.Crypto

theorem xorBytes'_length (a b : Bytes) : (xorBytes' a b).length = min a.length b.length := by
  unfold xorBytes'; simp

theorem xor_cancel (x y : UInt8) : (x ^^^ y) ^^^ y = x := by
  rw [UInt8.xor_assoc, UInt8.xor_self, UInt8.xor_zero]

/-- xor with the same key stream twice is the identity (on the common length) -/
theorem xorBytes'_involutive : ∀ (p k : Bytes), p.length ≤ k.length → xorBytes' (xorBytes' p k) k = p
  | [], _, _ => by simp [xorBytes']
  | _ :: _, [], h => by simp at h
  | a :: p, b :: k, h => by
    have ih := xorBytes'_involutive p k (by simpa using h)
    unfold xorBytes' at *
    simp only [List.zipWith_cons_cons, xor_cancel, ih]

theorem take_app {α} (a b : List α) (n : Nat) (h : a.length = n) : (a ++ b).take n = a := by subst h; simp
theorem drop_app {α} (a b : List α) (n : Nat) (h : a.length = n) : (a ++ b).drop n = b := by subst h; simp

theorem zeros_length (n : Nat) : (zeros n).length = n := by unfold zeros; simp

/-! ### zero padding / CBC-MAC -/

theorem zpad16_length_mod (m : Bytes) : (zpad16 m).length % 16 = 0 := by
  unfold zpad16; simp only [List.length_append, zeros_length]; omega

/-- **no padding when aligned**: in particular never a whole extra block -/
theorem zpad16_aligned (m : Bytes) (h : m.length % 16 = 0) : zpad16 m = m := by
  unfold zpad16; simp [h, zeros]

theorem zpad16_length_lt (m : Bytes) : (zpad16 m).length < m.length + 16 := by
  unfold zpad16; simp only [List.length_append, zeros_length]; omega

theorem zpad16_prefix (m : Bytes) : (zpad16 m).take m.length = m := by unfold zpad16; simp

theorem cbcChain_length (E : Bytes → Bytes) (hE : ∀ b, (E b).length = 16) :
    ∀ (n : Nat) (x data : Bytes), x.length = 16 → (cbcChain E n x data).length = 16
  | 0, x, _, hx => by simpa [cbcChain] using hx
  | n + 1, x, data, _ => by
    simp only [cbcChain]
    exact cbcChain_length E hE n _ _ (hE _)

/-- **AES-MAC tag length**: exactly the registered tag length `t ≤ 16`, for every message -/
theorem cbcMac_length (E : Bytes → Bytes) (hE : ∀ b, (E b).length = 16) (t : Nat) (ht : t ≤ 16) (m : Bytes) :
    (cbcMac E t m).length = t := by
  unfold cbcMac cbcMacFull
  rw [List.length_take, cbcChain_length E hE _ _ _ (zeros_length 16)]
  omega

/-- **truncation is a prefix**: the 64-bit tag is the first half of the 128-bit tag -/
theorem cbcMac_prefix (E : Bytes → Bytes) (t t' : Nat) (h : t ≤ t') (m : Bytes) :
    cbcMac E t m = (cbcMac E t' m).take t := by
  unfold cbcMac; rw [List.take_take]; congr 1; omega

/-- **HMAC tag length** -/
theorem hmac_take_length (H : Bytes → Bytes) (hl : Nat) (hH : ∀ m, (H m).length = hl) (B t : Nat) (ht : t ≤ hl)
    (key msg : Bytes) : ((hmac H B key msg).take t).length = t := by
  unfold hmac; simp only [List.length_take, hH]; omega

/-! ### stream AEAD -/

theorem StreamAead.seal_length (A : StreamAead) (hks : ∀ k n l, (A.ks k n l).length = l)
    (htag : ∀ k n a c, (A.tag k n a c).length = A.tagLen) (key nonce pt aad : Bytes) :
    (A.seal key nonce pt aad).length = pt.length + A.tagLen := by
  unfold StreamAead.seal
  simp [xorBytes'_length, hks, htag]

/-- **round trip**: decrypting what was encrypted returns the plaintext -/
theorem StreamAead.open_seal (A : StreamAead) (hks : ∀ k n l, (A.ks k n l).length = l)
    (htag : ∀ k n a c, (A.tag k n a c).length = A.tagLen) (key nonce pt aad : Bytes) :
    A.open key nonce (A.seal key nonce pt aad) aad = some pt := by
  unfold StreamAead.open StreamAead.seal
  have hc : (xorBytes' pt (A.ks key nonce pt.length)).length = pt.length := by simp [xorBytes'_length, hks]
  simp only [List.length_append, htag, hc]
  have h1 : ¬ (pt.length + A.tagLen < A.tagLen) := by omega
  simp only [h1, if_false, Nat.add_sub_cancel]
  rw [take_app _ _ _ hc, drop_app _ _ _ hc]
  simp only [if_true, hc]
  rw [xorBytes'_involutive pt _ (by simp [hks])]

/-- **uniqueness**: whatever opens to `p` under (key, nonce, aad) *is* the sealing of `p`:
    any other accepted ciphertext would need a different tag for different (aad, ciphertext), i.e. a forgery. -/
theorem StreamAead.open_unique (A : StreamAead) (hks : ∀ k n l, (A.ks k n l).length = l)
    (key nonce ct aad p : Bytes) (h : A.open key nonce ct aad = some p) : ct = A.seal key nonce p aad := by
  unfold StreamAead.open at h
  split at h
  · cases h
  · rename_i hlen
    simp only at h
    split at h
    · rename_i htag
      simp only [Option.some.injEq] at h
      generalize hcdef : List.take (ct.length - A.tagLen) ct = c at h htag
      have hp : p.length = c.length := by rw [← h, xorBytes'_length, hks]; simp
      have hc : xorBytes' p (A.ks key nonce p.length) = c := by
        rw [hp, ← h, xorBytes'_involutive c _ (by simp [hks])]
      unfold StreamAead.seal
      simp only
      rw [hc, htag, ← hcdef, List.take_append_drop]
    · cases h

/-! ### CCM -/

theorem ccmStream_length (E : Bytes → Bytes) (L : Nat) (nonce : Bytes) (n : Nat) :
    (ccmStream E L nonce n).length = n := by
  unfold ccmStream; simp [zeros_length]

theorem ccmT_length (E : Bytes → Bytes) (hE : ∀ b, (E b).length = 16) (M L : Nat) (hM : M ≤ 16)
    (nonce aad pt : Bytes) : (ccmT E M L nonce aad pt).length = M := by
  unfold ccmT
  simp only [List.length_take]
  by_cases h : (ccmB0 M L nonce aad.length pt.length ++ zpad16 (ccmAadLen aad.length ++ aad) ++ zpad16 pt).length / 16 = 0
  · rw [h]; simp [cbcChain, zeros_length]; omega
  · obtain ⟨k, hk⟩ := Nat.exists_eq_succ_of_ne_zero h
    rw [hk]
    simp only [cbcChain]
    rw [cbcChain_length E hE k _ _ (hE _)]; omega

/-- **CCM ciphertext length**: plaintext length plus tag length -/
theorem ccmSeal_length (E : Bytes → Bytes) (hE : ∀ b, (E b).length = 16) (M L : Nat) (hM : M ≤ 16)
    (nonce pt aad : Bytes) : (ccmSeal E M L nonce pt aad).length = pt.length + M := by
  unfold ccmSeal
  simp only [List.length_append, xorBytes'_length, ccmStream_length, ccmT_length E hE M L hM, List.length_take, hE]
  omega

/-- **CCM round trip** -/
theorem ccmOpen_seal (E : Bytes → Bytes) (hE : ∀ b, (E b).length = 16) (M L : Nat) (hM : M ≤ 16)
    (nonce pt aad : Bytes) : ccmOpen E M L nonce (ccmSeal E M L nonce pt aad) aad = some pt := by
  have hlen := ccmSeal_length E hE M L hM nonce pt aad
  unfold ccmOpen
  have h1 : ¬ ((ccmSeal E M L nonce pt aad).length < M) := by omega
  simp only [h1, if_false, hlen, Nat.add_sub_cancel]
  have hc : (xorBytes' pt (ccmStream E L nonce pt.length)).length = pt.length := by
    simp [xorBytes'_length, ccmStream_length]
  have e1 : (ccmSeal E M L nonce pt aad).take pt.length = xorBytes' pt (ccmStream E L nonce pt.length) := by
    unfold ccmSeal; exact take_app _ _ _ hc
  have e2 : (ccmSeal E M L nonce pt aad).drop pt.length =
      xorBytes' (ccmT E M L nonce aad pt) ((E (ccmA L nonce 0)).take M) := by
    unfold ccmSeal; exact drop_app _ _ _ hc
  rw [e1, e2, hc, xorBytes'_involutive pt _ (by simp [ccmStream_length])]
  simp

/-! ### HKDF -/

theorem hkdfBlocks_length (P : Bytes → Bytes → Bytes) (hl : Nat) (hP : ∀ k m, (P k m).length = hl)
    (prk info : Bytes) : ∀ n, (hkdfBlocks P prk info n).1.length = n * hl
  | 0 => by simp [hkdfBlocks]
  | n + 1 => by
    have ih := hkdfBlocks_length P hl hP prk info n
    simp only [hkdfBlocks, List.length_append, ih, hP]
    rw [Nat.succ_mul]

/-- the blocks for `n` are a prefix of the blocks for any `n + k` -/
theorem hkdfBlocks_prefix (P : Bytes → Bytes → Bytes) (prk info : Bytes) (n : Nat) :
    ∀ k, ∃ rest, (hkdfBlocks P prk info (n + k)).1 = (hkdfBlocks P prk info n).1 ++ rest
  | 0 => ⟨[], by simp⟩
  | k + 1 => by
    obtain ⟨rest, h⟩ := hkdfBlocks_prefix P prk info n k
    refine ⟨rest ++ P prk ((hkdfBlocks P prk info (n + k)).2 ++ info ++ [UInt8.ofNat (n + k + 1)]), ?_⟩
    show (hkdfBlocks P prk info (n + k + 1)).1 = _
    simp only [hkdfBlocks]
    rw [h, List.append_assoc]

/-- **prefix property**: the output for a shorter length is a prefix of the output for a longer one -/
theorem hkdfExpand_prefix (P : Bytes → Bytes → Bytes) (hl : Nat) (hpos : 0 < hl) (hP : ∀ k m, (P k m).length = hl)
    (prk info : Bytes) (l l' : Nat) (h : l ≤ l') (hmax : l' ≤ 255 * hl) :
    hkdfExpand P hl prk info l = (hkdfExpand P hl prk info l').map (·.take l) := by
  unfold hkdfExpand
  have a : ¬ l > 255 * hl := by omega
  have b : ¬ l' > 255 * hl := by omega
  simp only [a, b, if_false, Option.map_some, List.take_take, Nat.min_eq_left h]
  have hn : (l + hl - 1) / hl ≤ (l' + hl - 1) / hl := Nat.div_le_div_right (by omega)
  obtain ⟨k, hk⟩ := Nat.exists_eq_add_of_le hn
  obtain ⟨rest, hr⟩ := hkdfBlocks_prefix P prk info ((l + hl - 1) / hl) k
  rw [hk, hr]
  have hlen := hkdfBlocks_length P hl hP prk info ((l + hl - 1) / hl)
  have hcov : l ≤ (l + hl - 1) / hl * hl := by
    have := Nat.div_add_mod (l + hl - 1) hl
    have := Nat.mod_lt (l + hl - 1) hpos
    have e : hl * ((l + hl - 1) / hl) = (l + hl - 1) / hl * hl := Nat.mul_comm _ _
    omega
  rw [List.take_append_of_le_length (by omega)]

/-- **length limit**: up to 255 blocks succeed, anything longer is refused -/
theorem hkdfExpand_limit (P : Bytes → Bytes → Bytes) (hl : Nat) (prk info : Bytes) (l : Nat) :
    (hkdfExpand P hl prk info l).isSome = decide (l ≤ 255 * hl) := by
  unfold hkdfExpand
  by_cases h : l > 255 * hl
  · have : ¬ l ≤ 255 * hl := by omega
    simp [h, this]
  · have : l ≤ 255 * hl := by omega
    simp [h, this]

theorem hkdfExpand_length (P : Bytes → Bytes → Bytes) (hl : Nat) (hpos : 0 < hl) (hP : ∀ k m, (P k m).length = hl)
    (prk info : Bytes) (l : Nat) (out : Bytes) (h : hkdfExpand P hl prk info l = some out) : out.length = l := by
  unfold hkdfExpand at h
  split at h
  · cases h
  · simp only [Option.some.injEq] at h
    rw [← h, List.length_take, hkdfBlocks_length P hl hP]
    have := Nat.div_add_mod (l + hl - 1) hl
    have := Nat.mod_lt (l + hl - 1) hpos
    have e : hl * ((l + hl - 1) / hl) = (l + hl - 1) / hl * hl := Nat.mul_comm _ _
    omega

end Cose.Crypto
