/-
X25519 (RFC 7748 §5), executable reference implementation on `Nat`.  Core Lean only.
-/
import Cose.Bytes
import Cose.Crypto.Sha2
import Cose.Crypto.Weierstrass
import Cose.Crypto.Ed25519

namespace Cose.Crypto

namespace X25519

def p : Nat := 2 ^ 255 - 19
def a24 : Nat := 121665

@[inline] def subP (a b : Nat) : Nat := (a + p - b) % p

/-- RFC 7748 §5 `decodeScalar25519`. -/
def clampScalar (k : Bytes) : Nat :=
  let n := Ed25519.leToNat (k.take 32)
  (n % 2 ^ 254) / 8 * 8 + 2 ^ 254

/-- RFC 7748 §5 `decodeUCoordinate`: the top bit is masked; non-canonical values are reduced. -/
def decodeU (u : Bytes) : Nat := (Ed25519.leToNat (u.take 32) % 2 ^ 255) % p

structure Ladder where
  x2 : Nat
  z2 : Nat
  x3 : Nat
  z3 : Nat
  swap : Bool

/-- One Montgomery-ladder step for bit `kt` (conditional swap done by branching). -/
def ladderStep (x1 : Nat) (s : Ladder) (kt : Bool) : Ladder :=
  let sw := s.swap != kt
  let x2 := if sw then s.x3 else s.x2
  let x3 := if sw then s.x2 else s.x3
  let z2 := if sw then s.z3 else s.z2
  let z3 := if sw then s.z2 else s.z3
  let a := (x2 + z2) % p
  let aa := a * a % p
  let b := subP x2 z2
  let bb := b * b % p
  let e := subP aa bb
  let c := (x3 + z3) % p
  let d := subP x3 z3
  let da := d * a % p
  let cb := c * b % p
  let t1 := (da + cb) % p
  let t2 := subP da cb
  { x3 := t1 * t1 % p
    z3 := x1 * (t2 * t2 % p) % p
    x2 := aa * bb % p
    z2 := e * ((aa + a24 * e) % p) % p
    swap := kt }

/-- Ladder over bits 254 … 0 of the (already clamped) scalar. -/
def ladder (k x1 : Nat) : Nat :=
  let rec go (fuel : Nat) (s : Ladder) : Ladder :=
    match fuel with
    | 0 => s
    | t + 1 => go t (ladderStep x1 s (k.testBit t))
  let s := go 255 { x2 := 1, z2 := 0, x3 := x1, z3 := 1, swap := false }
  let x2 := if s.swap then s.x3 else s.x2
  let z2 := if s.swap then s.z3 else s.z2
  x2 * powMod z2 (p - 2) p % p

end X25519

/-- X25519(scalar, u): both inputs 32 bytes little-endian (shorter inputs are zero-extended,
longer ones truncated); 32 bytes out. -/
def x25519 (scalar u : Bytes) : Bytes :=
  Ed25519.natToLe (X25519.ladder (X25519.clampScalar scalar) (X25519.decodeU u)) 32

/-- True iff every byte is zero (RFC 7748 §6.1 all-zero shared-secret check; Go's
`crypto/ecdh` rejects such outputs). -/
def x25519IsAllZero (out : Bytes) : Bool := out.all (· == 0)

/-- The base point u = 9. -/
def x25519BasePoint : Bytes := 9 :: List.replicate 31 0

/-! ### RFC 7748 §5.2 and §6.1 vectors -/

#guard toHex (x25519 (ofHex "a546e36bf0527c9d3b16154b82465edd62144c0ac1fc5a18506a2244ba449ac4")
    (ofHex "e6db6867583030db3594c1a424b15f7c726624ec26b3353b10a903a6d0ab1c4c"))
  == "c3da55379de9c6908e94ea4df28d084f32eccf03491c71f754b4075577a28552"
#guard toHex (x25519 (ofHex "4b66e9d4d1b4673c5ad22691957d6af5c11b6421e0ea01d42ca4169e7918ba0d")
    (ofHex "e5210f12786811d3f4b7959d0538ae2c31dbe7106fc03c3efc4cd549c715a493"))
  == "95cbde9476e8907d7aade45cb4b873f88b595a68799fa152e6f8f7647aac7957"

/-- §5.2 iteration test: `(k, u) ↦ (X25519(k, u), k)` starting from `k = u = 9`. -/
def x25519Iterate : Nat → Bytes × Bytes → Bytes × Bytes
  | 0, ku => ku
  | n + 1, (k, u) => x25519Iterate n (x25519 k u, k)

#guard toHex (x25519Iterate 1 (x25519BasePoint, x25519BasePoint)).1
  == "422c8e7a6227d7bca1350b3e2bb7279f7897b87bb6854b783c60e80311ae3079"
#guard toHex (x25519Iterate 1000 (x25519BasePoint, x25519BasePoint)).1
  == "684cf59ba83309552800ef566f2f4d3c1c3887c49360e3875f2eb94d99532c51"

-- §6.1 Alice / Bob
private def alicePriv := ofHex "77076d0a7318a57d3c16c17251b26645df4c2f87ebc0992ab177fba51db92c2a"
private def alicePub := ofHex "8520f0098930a754748b7ddcb43ef75a0dbf3a0d26381af4eba4a98eaa9b4e6a"
private def bobPriv := ofHex "5dab087e624a8a4b79e17f8b83800ee66f3bb1292618b6fd1c2f8b27ff88e0eb"
private def bobPub := ofHex "de9edb7d7b7dc1b4d35b61c2ece435373f8343c85b78674dadfc7e146f882b4f"
private def abShared := ofHex "4a5d9d5ba4ce2de1728e3bf480350f25e07e21c947d19e3376f09b3c1e161742"

#guard x25519 alicePriv x25519BasePoint == alicePub
#guard x25519 bobPriv x25519BasePoint == bobPub
#guard x25519 alicePriv bobPub == abShared && x25519 bobPriv alicePub == abShared
#guard !x25519IsAllZero abShared

-- low-order inputs give the all-zero output
#guard x25519IsAllZero (x25519 alicePriv (List.replicate 32 0))
#guard x25519IsAllZero (x25519 alicePriv (1 :: List.replicate 31 0))

end Cose.Crypto
