/-!
# Interleaving semantics over a shared store

Each call of a shared object is an operation `run : S → In → Out × S` on the shared state `S` (the fields of
the implementation object, the key it references, the registry).  A *schedule* is any interleaving of the calls
made by any number of goroutines, i.e. any list of (operation, input) executed one after the other on the shared
state (operations are atomic at this level: what happens *inside* one call when another goroutine runs is exactly
what the footprint obligation excludes — no shared writes, so no other call can observe an intermediate state).
-/
namespace Cose.Conc

structure Op (S In Out : Type) where
  run : S → In → Out × S

/-- an operation that never changes the shared state -/
def Op.ReadOnly {S In Out} (o : Op S In Out) : Prop := ∀ s i, (o.run s i).2 = s

/-- run a schedule: results in schedule order, and the final shared state -/
def runSchedule {S In Out} : S → List (Op S In Out × In) → List Out × S
  | s, [] => ([], s)
  | s, (o, i) :: rest =>
    let (r, s') := o.run s i
    let (rs, sf) := runSchedule s' rest
    (r :: rs, sf)

/-- **schedule independence**: if no operation writes the shared state, then in every interleaving each call
    returns exactly what it returns when run alone on the initial state, and the shared state never changes -/
theorem schedule_independent {S In Out} (s0 : S) (sched : List (Op S In Out × In))
    (h : ∀ p ∈ sched, p.1.ReadOnly) :
    runSchedule s0 sched = (sched.map (fun p => (p.1.run s0 p.2).1), s0) := by
  induction sched with
  | nil => rfl
  | cons p rest ih =>
    obtain ⟨o, i⟩ := p
    have ho : o.ReadOnly := h (o, i) List.mem_cons_self
    have ih' := ih (fun q hq => h q (List.mem_cons_of_mem _ hq))
    have e : (o.run s0 i).2 = s0 := ho s0 i
    show ((o.run s0 i).1 :: (runSchedule (o.run s0 i).2 rest).1, (runSchedule (o.run s0 i).2 rest).2) = _
    rw [e, ih']
    rfl

/-- hence any two interleavings of the same calls give each call the same result -/
theorem interleavings_agree {S In Out} (s0 : S) (a b : List (Op S In Out × In))
    (ha : ∀ p ∈ a, p.1.ReadOnly) (hb : ∀ p ∈ b, p.1.ReadOnly) (p : Op S In Out × In) (hpa : p ∈ a) (hpb : p ∈ b) :
    (p.1.run s0 p.2).1 ∈ (runSchedule s0 a).1 ∧ (p.1.run s0 p.2).1 ∈ (runSchedule s0 b).1 := by
  rw [schedule_independent s0 a ha, schedule_independent s0 b hb]
  exact ⟨List.mem_map.mpr ⟨p, hpa, rfl⟩, List.mem_map.mpr ⟨p, hpb, rfl⟩⟩

/-- no two conflicting accesses: a write/read or write/write pair on the same object needs a write -/
def conflicts (w1 w2 : Bool) : Bool := w1 || w2

theorem no_conflict_without_writes : conflicts false false = false := rfl

end Cose.Conc
