import Cose.Go.Val
import Cose.Go.Res
/-!
# Model of `key.CoseMap` typed accessors (mirror of /repo/key/cosemap.go)

Each accessor is given on the *value found under the key* (`none` = key absent).
-/
namespace Cose.Go
open Res

def minInt32 : Int := -2147483648
def maxInt32 : Int := 2147483647
def maxInt64 : Int := 9223372036854775807

/-- `key.ToInt` / `toInt(reflect.ValueOf(v))`.
    `reflect.ValueOf(nil)` is the zero Value (Kind Invalid): the default branch formats
    `rv.Interface()`.  Whether that panics is decided by the code; the model follows the code as fixed:
    an invalid Value is reported as an error. -/
def toInt : GoVal → Res Int
  | .int k v =>
    if k.signed then (if minInt32 ≤ v ∧ v ≤ maxInt32 then .ok v else .err "range")
    else (if v ≤ maxInt32 then .ok v else .err "range")
  | _ => .err "type"

/-- `CoseMap.GetInt` -/
def getInt : Option GoVal → Res Int
  | none => .ok 0
  | some v => toInt v

/-- `CoseMap.GetInt64` -/
def getInt64 : Option GoVal → Res Int
  | none => .ok 0
  | some (.int k v) => if k.signed then .ok v else (if v ≤ maxInt64 then .ok v else .err "range")
  | some _ => .err "type"

/-- `CoseMap.GetUint64` -/
def getUint64 : Option GoVal → Res Int
  | none => .ok 0
  | some (.int k v) => if k.signed then (if v ≥ 0 then .ok v else .err "range") else .ok v
  | some _ => .err "type"

/-- `CoseMap.GetBytes`: `[]byte` directly, otherwise `reflect.Value.Bytes()` under `recover`.
    The `Option Bytes` is Go's possibly-nil slice. -/
def getBytes : Option GoVal → Res (Option Bytes)
  | none => .ok none
  | some (.bytes b) => .ok (some b)
  | some .bnil => .ok none
  | some (.bstr b) => .ok (some b)
  | some _ => .err "type"

/-- `CoseMap.GetBool` -/
def getBool : Option GoVal → Res Bool
  | none => .ok false
  | some (.bool b) => .ok b
  | some _ => .err "type"

/-- `CoseMap.GetString` -/
def getString : Option GoVal → Res Bytes
  | none => .ok []
  | some (.str s) => .ok s
  | some _ => .err "type"

end Cose.Go
