/-! Results of modelled Go functions: a value, an error, or a panic (DESIGN §3.1). -/
namespace Cose.Go

inductive Res (α : Type) where
  | ok (a : α)
  | err (why : String)
  | panic (site : String)
deriving Repr, DecidableEq

namespace Res
def isOk {α} : Res α → Bool | .ok _ => true | _ => false
def isPanic {α} : Res α → Bool | .panic _ => true | _ => false
def bind {α β} (r : Res α) (f : α → Res β) : Res β :=
  match r with
  | .ok a => f a
  | .err w => .err w
  | .panic s => .panic s
instance : Monad Res where
  pure := .ok
  bind := bind
/-- Go's `v, _ := f()` : the zero value on error; a panic still propagates -/
def orZero {α} (z : α) : Res α → Res α
  | .ok a => .ok a
  | .err _ => .ok z
  | .panic s => .panic s
end Res
end Cose.Go
