import Cose.Bytes
/-!
# Dynamic Go values (`any`) as the library sees them

The *kind* of every integer and the nil-ness / named type of every byte slice is kept, because the
library's accessors branch on `reflect.Kind` and on concrete types (DESIGN §3.1).
-/
namespace Cose.Go

inductive IntKind
  | int | i8 | i16 | i32 | i64 | u | u8 | u16 | u32 | u64 | alg
deriving Repr, DecidableEq

def IntKind.signed : IntKind → Bool
  | .int | .i8 | .i16 | .i32 | .i64 | .alg => true
  | _ => false

inductive GoVal
  | int (k : IntKind) (v : Int)
  | bytes (b : Bytes)          -- non-nil []byte
  | bnil                       -- nil []byte
  | bstr (b : Bytes)           -- key.ByteStr
  | str (s : Bytes)            -- string (UTF-8 bytes)
  | bool (b : Bool)
  | nil
  | float (repr : String)
  | list (xs : List GoVal)     -- []any
  | ints (xs : List Int)       -- []int
  | ops (xs : List Int)        -- key.Ops
  | map (kvs : List (GoVal × GoVal))   -- key.CoseMap / map[any]any (entries in protocol order)
deriving Repr

end Cose.Go
