import Cose.Bytes
/-!
# `key.ByteStr` text and JSON forms (mirror of /repo/key/bytestr.go)

`MarshalText` is lower-case hex; `MarshalJSON` the same between quotes.  `UnmarshalText` is `hex.DecodeString` (either
case, even length); `UnmarshalJSON` accepts `null` (leaves the value alone) or a quoted hex string of at least the two
quotes.  Keys, header maps and claim maps use these forms around their CBOR encoding.
-/
namespace Cose.Go.ByteStr
open Cose

def hexDigit (n : UInt8) : UInt8 := if n < 10 then 48 + n else 87 + n     -- '0'.. / 'a'..

def hexEncode : Bytes → Bytes
  | [] => []
  | x :: r => hexDigit (x / 16) :: hexDigit (x % 16) :: hexEncode r

def hexVal (c : UInt8) : Option UInt8 :=
  if 48 ≤ c ∧ c ≤ 57 then some (c - 48)
  else if 97 ≤ c ∧ c ≤ 102 then some (c - 87)
  else if 65 ≤ c ∧ c ≤ 70 then some (c - 55)
  else none

def hexDecode : Bytes → Option Bytes
  | [] => some []
  | [_] => none
  | a :: b :: r =>
    match hexVal a, hexVal b, hexDecode r with
    | some x, some y, some rest => some ((x * 16 + y) :: rest)
    | _, _, _ => none

def marshalText (b : Bytes) : Bytes := hexEncode b
def unmarshalText (t : Bytes) : Option Bytes := hexDecode t

def quote : UInt8 := 34
def marshalJSON (b : Bytes) : Bytes := quote :: (hexEncode b ++ [quote])

/-- `none`: error; `some none`: `null`, the destination is left alone; `some (some b)`: the decoded octets -/
def unmarshalJSON (d : Bytes) : Option (Option Bytes) :=
  if d = [110, 117, 108, 108] then some none            -- "null"
  else if d.length < 2 then none
  else if d.head? ≠ some quote ∨ d.getLast? ≠ some quote then none
  else (hexDecode ((d.drop 1).take (d.length - 2))).map some

/-- a Boolean fact about every octet, by checking the 256 of them -/
theorem forall_octets (p : UInt8 → Bool) (h : (List.range 256).all (fun i => p (UInt8.ofNat i)) = true) (n : UInt8) :
    p n = true := by
  have := List.all_eq_true.mp h n.toNat (List.mem_range.mpr n.toNat_lt)
  simpa using this

theorem hexVal_hexDigits (x : UInt8) :
    hexVal (hexDigit (x / 16)) = some (x / 16) ∧ hexVal (hexDigit (x % 16)) = some (x % 16) ∧ x / 16 * 16 + x % 16 = x := by
  have := forall_octets (fun x => hexVal (hexDigit (x / 16)) == some (x / 16) && hexVal (hexDigit (x % 16)) == some (x % 16)
    && x / 16 * 16 + x % 16 == x) (by decide +kernel) x
  simp only [Bool.and_eq_true, beq_iff_eq] at this
  exact ⟨this.1.1, this.1.2, this.2⟩

theorem hexDecode_hexEncode (b : Bytes) : hexDecode (hexEncode b) = some b := by
  induction b with
  | nil => rfl
  | cons x r ih =>
    obtain ⟨h1, h2, h3⟩ := hexVal_hexDigits x
    simp only [hexEncode, hexDecode, h1, h2, ih, h3]

/-- **the text form round-trips** -/
theorem text_roundtrip (b : Bytes) : unmarshalText (marshalText b) = some b := hexDecode_hexEncode b

theorem hexEncode_no_quote_head (b : Bytes) : (hexEncode b ++ [quote]).getLast? = some quote := by simp

/-- **the JSON form round-trips** (a value is never emitted as `null`) -/
theorem json_roundtrip (b : Bytes) : unmarshalJSON (marshalJSON b) = some (some b) := by
  unfold unmarshalJSON marshalJSON
  have hne : (quote :: (hexEncode b ++ [quote])) ≠ [110, 117, 108, 108] := by
    intro h; simp [quote] at h
  have hlen : ¬ (quote :: (hexEncode b ++ [quote])).length < 2 := by simp
  have hlast : (quote :: (hexEncode b ++ [quote])).getLast? = some quote := by
    rw [← List.cons_append, List.getLast?_append]; rfl
  simp only [hne, if_false, hlen, List.head?_cons, hlast, ne_eq, not_true_eq_false, or_self]
  have : ((quote :: (hexEncode b ++ [quote])).drop 1).take ((quote :: (hexEncode b ++ [quote])).length - 2) = hexEncode b := by
    simp
  rw [this, hexDecode_hexEncode]; rfl

end Cose.Go.ByteStr
