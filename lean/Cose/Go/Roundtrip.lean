import Cose.Go.Labels
import Cose.Cbor.Corollaries
/-!
# `CoseMap` CBOR round trip (keys, header maps, claim maps with scalar / list values)

`encodeCMap` is `CoseMap.MarshalCBOR` (deterministic encoder), `decodeCMap` is `CoseMap.UnmarshalCBOR` (strict decoder +
`checkKey`).  For every map with pairwise distinct labels in the int32 / text range whose values are scalars or lists
of scalars — which covers every COSE_Key the library handles and the header / claim maps without nested maps —
decoding the encoding succeeds and yields a map that answers every label look-up with the *decoded form* (`normV`) of
what the original answered: integers keep their value (the Go kind becomes uint64 / int64), byte strings their bytes,
text its bytes, booleans their value, lists their elements.  Entry order (Go map iteration order) is irrelevant.
-/
namespace Cose.Go
open Cose.Cbor

/-- the form a decoded value takes -/
def normInt (v : Int) : GoVal := if v ≥ 0 then .int .u64 v else .int .i64 v

/-- decoded form of a scalar -/
def normS : GoVal → GoVal
  | .int _ v => normInt v
  | .bstr b => .bytes b
  | .bnil => .nil
  | v => v

def normV : GoVal → GoVal
  | .ints xs => .list (xs.map normInt)
  | .ops xs => .list (xs.map normInt)
  | .list xs => .list (xs.map normS)
  | v => normS v

def IntOk (v : Int) : Prop := -9223372036854775808 ≤ v ∧ v < 18446744073709551616

instance (v : Int) : Decidable (IntOk v) := by unfold IntOk; infer_instance

/-- scalar values -/
inductive Scalar : GoVal → Prop
  | int (k : IntKind) (v : Int) (h : IntOk v) (hk : k.signed = false → 0 ≤ v) : Scalar (.int k v)
  | bytes (b : Bytes) (h : b.length < two64) : Scalar (.bytes b)
  | bnil : Scalar .bnil
  | bstr (b : Bytes) (h : b.length < two64) : Scalar (.bstr b)
  | str (s : Bytes) (h : s.length < two64 ∧ validUtf8 s = true) : Scalar (.str s)
  | bool (b : Bool) : Scalar (.bool b)
  | nil : Scalar .nil

/-- scalars and lists of scalars (`[]any`, `[]int`, `key.Ops`) -/
inductive Flat : GoVal → Prop
  | scalar (v : GoVal) (h : Scalar v) : Flat v
  | ints (xs : List Int) (h : ∀ x ∈ xs, IntOk x) (hl : xs.length ≤ maxElems) : Flat (.ints xs)
  | ops (xs : List Int) (h : ∀ x ∈ xs, IntOk x) (hl : xs.length ≤ maxElems) : Flat (.ops xs)
  | list (xs : List GoVal) (h : ∀ x ∈ xs, Scalar x) (hl : xs.length ≤ maxElems) : Flat (.list xs)

/-! ## integers -/

theorem wf_ofInt (v : Int) (h : IntOk v) : WF (Cbor.ofInt v) := by
  unfold Cbor.ofInt IntOk at *
  split <;> simp only [WF, two64] <;> omega

theorem depth_ofInt (v : Int) : depth (Cbor.ofInt v) = 0 := by
  unfold Cbor.ofInt; split <;> rfl

theorem ofCbor_ofInt (v : Int) (h : IntOk v) : ofCbor (Cbor.ofInt v) = some (normInt v) := by
  unfold Cbor.ofInt normInt IntOk at *
  by_cases hv : v ≥ 0
  · simp only [hv, if_true, ofCbor]
    congr 2; omega
  · simp only [hv, if_false, ofCbor]
    have : (-1 - v).toNat < 9223372036854775808 := by omega
    simp only [this, if_true]
    congr 2; omega

theorem hashable_ofInt (v : Int) : hashableKey (Cbor.ofInt v) = true := by
  unfold Cbor.ofInt; split <;> rfl

/-! ## scalars -/

theorem scalar_toCbor {v : GoVal} (h : Scalar v) :
    ∃ c, toCbor v = some c ∧ WF c ∧ depth c = 0 ∧ ofCbor c = some (normS v) := by
  cases h with
  | int k v h _ => exact ⟨Cbor.ofInt v, rfl, wf_ofInt v h, depth_ofInt v, ofCbor_ofInt v h⟩
  | bytes b h => exact ⟨.bstr b, rfl, h, rfl, rfl⟩
  | bnil => exact ⟨Cbor.null, rfl, Or.inl (by decide), rfl, rfl⟩
  | bstr b h => exact ⟨.bstr b, rfl, h, rfl, rfl⟩
  | str s h => exact ⟨.tstr s, rfl, h, rfl, rfl⟩
  | bool b => cases b <;> exact ⟨_, rfl, Or.inl (by decide), rfl, rfl⟩
  | nil => exact ⟨Cbor.null, rfl, Or.inl (by decide), rfl, rfl⟩

theorem normV_scalar {v : GoVal} (h : Scalar v) : normV v = normS v := by cases h <;> rfl

/-! ## lists -/

theorem scalars_toCborList : ∀ (xs : List GoVal), (∀ x ∈ xs, Scalar x) →
    ∃ cs, toCborList xs = some cs ∧ WFList cs ∧ depthList cs = 0 ∧ ofCborList cs = some (xs.map normS) ∧
      cs.length = xs.length
  | [], _ => ⟨[], rfl, trivial, rfl, rfl, rfl⟩
  | x :: xs, h => by
    obtain ⟨c, hc, hw, hd, ho⟩ := scalar_toCbor (h x (List.mem_cons_self))
    obtain ⟨cs, hcs, hws, hds, hos, hl⟩ := scalars_toCborList xs (fun y hy => h y (List.mem_cons_of_mem _ hy))
    refine ⟨c :: cs, ?_, ⟨hw, hws⟩, ?_, ?_, by simp [hl]⟩
    · simp only [toCborList, hc, hcs]
    · simp only [depthList, hd, hds]; rfl
    · simp only [ofCborList, ho, hos, List.map_cons]

theorem ints_list : ∀ (xs : List Int), (∀ x ∈ xs, IntOk x) →
    WFList (xs.map Cbor.ofInt) ∧ depthList (xs.map Cbor.ofInt) = 0 ∧
      ofCborList (xs.map Cbor.ofInt) = some (xs.map normInt)
  | [], _ => ⟨trivial, rfl, rfl⟩
  | x :: xs, h => by
    obtain ⟨hw, hd, ho⟩ := ints_list xs (fun y hy => h y (List.mem_cons_of_mem _ hy))
    have hx := h x (List.mem_cons_self)
    refine ⟨⟨wf_ofInt x hx, hw⟩, ?_, ?_⟩
    · simp only [List.map_cons, depthList, depth_ofInt, hd]; rfl
    · simp only [List.map_cons, ofCborList, ofCbor_ofInt x hx, ho]

/-- every flat value is encodable, its encoding is well-formed and shallow, and decodes to its `normV` -/
theorem flat_toCbor {v : GoVal} (h : Flat v) :
    ∃ c, toCbor v = some c ∧ WF c ∧ depth c ≤ 1 ∧ ofCbor c = some (normV v) := by
  cases h with
  | scalar v h =>
    obtain ⟨c, hc, hw, hd, ho⟩ := scalar_toCbor h
    exact ⟨c, hc, hw, by omega, by rw [normV_scalar h]; exact ho⟩
  | ints xs h hl =>
    obtain ⟨hw, hd, ho⟩ := ints_list xs h
    refine ⟨.arr (xs.map Cbor.ofInt), rfl, ⟨by simpa using hl, hw⟩, by simp only [depth, hd]; omega, ?_⟩
    simp only [ofCbor, ho, Option.map_some, normV]
  | ops xs h hl =>
    obtain ⟨hw, hd, ho⟩ := ints_list xs h
    refine ⟨.arr (xs.map Cbor.ofInt), rfl, ⟨by simpa using hl, hw⟩, by simp only [depth, hd]; omega, ?_⟩
    simp only [ofCbor, ho, Option.map_some, normV]
  | list xs h hl =>
    obtain ⟨cs, hcs, hws, hds, hos, hlen⟩ := scalars_toCborList xs h
    refine ⟨.arr cs, by simp only [toCbor, hcs, Option.map_some], ⟨by omega, hws⟩, by simp only [depth, hds]; omega, ?_⟩
    simp only [ofCbor, hos, Option.map_some, normV]

/-! ## labels -/

def LabelOk : Label → Prop
  | .int i => minInt32 ≤ i ∧ i ≤ maxInt32
  | .text s => s.length < two64 ∧ validUtf8 s = true

instance (l : Label) : Decidable (LabelOk l) := by cases l <;> unfold LabelOk <;> infer_instance

/-- the Go value a decoded label is -/
def labelGo : Label → GoVal
  | .int i => normInt i
  | .text s => .str s

theorem label_facts {l : Label} (h : LabelOk l) :
    WF l.toCbor ∧ depth l.toCbor = 0 ∧ hashableKey l.toCbor = true ∧ ofCbor l.toCbor = some (labelGo l) ∧
      checkKey (labelGo l) = .ok l := by
  cases l with
  | int i =>
    have hi : IntOk i := by unfold LabelOk minInt32 maxInt32 at h; unfold IntOk; omega
    refine ⟨wf_ofInt i hi, depth_ofInt i, hashable_ofInt i, ofCbor_ofInt i hi, ?_⟩
    unfold LabelOk at h
    unfold labelGo normInt
    by_cases hv : i ≥ 0
    · simp only [hv, if_true, checkKey, h.2]
    · simp only [hv, if_false, checkKey, h.1, h.2, and_self, if_true]
  | text s => exact ⟨h, rfl, rfl, rfl, rfl⟩

theorem ofInt_injective {a b : Int} (h : Cbor.ofInt a = Cbor.ofInt b) : a = b := by
  unfold Cbor.ofInt at h
  by_cases ha : a ≥ 0 <;> by_cases hb : b ≥ 0 <;> simp only [ha, hb, if_true, if_false] at h
  · have := Cbor.uint.inj h; omega
  · cases h
  · cases h
  · have := Cbor.nint.inj h; omega

theorem label_toCbor_injective {a b : Label} (h : a.toCbor = b.toCbor) : a = b := by
  cases a <;> cases b <;> simp only [Label.toCbor] at h
  · rw [ofInt_injective h]
  · unfold Cbor.ofInt at h; split at h <;> cases h
  · unfold Cbor.ofInt at h; split at h <;> cases h
  · cases h; rfl

/-! ## entries -/

/-- the CBOR entry of a map entry (total version of what `cmapPairs` computes) -/
def entryCbor (kv : Label × GoVal) : Cbor × Cbor := (kv.1.toCbor, (toCbor kv.2).getD Cbor.null)

/-- the decoded entry, before and after `checkKey` -/
def entryGo (kv : Label × GoVal) : GoVal × GoVal := (labelGo kv.1, normV kv.2)
def entryNorm (kv : Label × GoVal) : Label × GoVal := (kv.1, normV kv.2)

def EntryOk (kv : Label × GoVal) : Prop := LabelOk kv.1 ∧ Flat kv.2

theorem cmapPairs_eq : ∀ (m : CMap), (∀ kv ∈ m, EntryOk kv) → cmapPairs m = some (m.map entryCbor)
  | [], _ => rfl
  | (l, v) :: r, h => by
    obtain ⟨c, hc, _⟩ := flat_toCbor (h (l, v) (List.mem_cons_self)).2
    have ih := cmapPairs_eq r (fun kv hkv => h kv (List.mem_cons_of_mem _ hkv))
    simp only [cmapPairs, hc, ih, List.map_cons, entryCbor, Option.getD_some]

theorem entries_wf : ∀ (m : CMap), (∀ kv ∈ m, EntryOk kv) →
    WFPairs (m.map entryCbor) ∧ depthPairs (m.map entryCbor) ≤ 1 ∧
      (m.map entryCbor).all (fun kv => hashableKey kv.1) = true ∧
      ofCborPairs (m.map entryCbor) = some (m.map entryGo) ∧ cmapOfPairs (m.map entryGo) = .ok (m.map entryNorm)
  | [], _ => ⟨trivial, by simp [depthPairs], rfl, rfl, rfl⟩
  | (l, v) :: r, h => by
    obtain ⟨hl, hf⟩ := h (l, v) (List.mem_cons_self)
    obtain ⟨c, hc, hw, hd, ho⟩ := flat_toCbor hf
    obtain ⟨lw, ld, lh, lo, lc⟩ := label_facts hl
    obtain ⟨iw, idp, ih, io, ic⟩ := entries_wf r (fun kv hkv => h kv (List.mem_cons_of_mem _ hkv))
    have e : entryCbor (l, v) = (l.toCbor, c) := by simp only [entryCbor, hc, Option.getD_some]
    simp only [List.map_cons, e]
    refine ⟨⟨lw, hw, iw⟩, ?_, ?_, ?_, ?_⟩
    · simp only [depthPairs, ld]; omega
    · simp only [List.all_cons, lh, ih, Bool.and_self]
    · simp only [ofCborPairs, lo, ho, io, entryGo]
    · simp only [entryGo, cmapOfPairs, lc, ic, entryNorm]

/-! ## look-ups under permutation -/

theorem lookup_cons_self (k : Label) (w : GoVal) (r : CMap) : CMap.lookup ((k, w) :: r) k = some w := by
  simp [CMap.lookup, List.find?]

theorem lookup_cons_ne {k l : Label} (hk : k ≠ l) (w : GoVal) (r : CMap) :
    CMap.lookup ((k, w) :: r) l = CMap.lookup r l := by
  have hb : (k == l) = false := by simpa using hk
  simp only [CMap.lookup, List.find?, hb]

theorem lookup_eq_some_iff : ∀ (m : CMap) (l : Label) (v : GoVal), (m.map (·.1)).Nodup →
    (m.lookup l = some v ↔ (l, v) ∈ m)
  | [], l, v, _ => by simp [CMap.lookup]
  | (k, w) :: r, l, v, hnd => by
    simp only [List.map_cons, List.nodup_cons] at hnd
    have ih := lookup_eq_some_iff r l v hnd.2
    by_cases hk : k = l
    · subst hk
      rw [lookup_cons_self]
      constructor
      · intro h; cases h; exact List.mem_cons_self
      · intro h
        rcases List.mem_cons.mp h with h | h
        · cases h; rfl
        · exact absurd (List.mem_map.mpr ⟨(k, v), h, rfl⟩) hnd.1
    · rw [lookup_cons_ne hk, ih]
      constructor
      · intro h; exact List.mem_cons_of_mem _ h
      · intro h
        rcases List.mem_cons.mp h with h | h
        · cases h; exact absurd rfl hk
        · exact h

theorem lookup_perm {m m' : CMap} (hp : m'.Perm m) (hnd : (m.map (·.1)).Nodup) (l : Label) :
    m'.lookup l = m.lookup l := by
  have hnd' : (m'.map (·.1)).Nodup := ((hp.map (·.1)).nodup_iff).mpr hnd
  cases h : m.lookup l with
  | some v =>
    have := (lookup_eq_some_iff m l v hnd).mp h
    exact (lookup_eq_some_iff m' l v hnd').mpr (hp.symm.subset this)
  | none =>
    cases h' : m'.lookup l with
    | none => rfl
    | some v' =>
      have := (lookup_eq_some_iff m' l v' hnd').mp h'
      have := (lookup_eq_some_iff m l v' hnd).mpr (hp.subset this)
      rw [h] at this; cases this

theorem lookup_entryNorm : ∀ (m : CMap) (l : Label), CMap.lookup (m.map entryNorm) l = (m.lookup l).map normV
  | [], _ => rfl
  | (k, w) :: r, l => by
    have ih := lookup_entryNorm r l
    by_cases hk : k = l
    · subst hk
      show CMap.lookup ((k, normV w) :: r.map entryNorm) k = _
      rw [lookup_cons_self, lookup_cons_self]; rfl
    · show CMap.lookup ((k, normV w) :: r.map entryNorm) l = _
      rw [lookup_cons_ne hk, lookup_cons_ne hk, ih]

/-! ## sorting by encoded label -/

def entryKeyLe (a b : Label × GoVal) : Bool := bytesLe (encode a.1.toCbor) (encode b.1.toCbor)

def sortM (m : CMap) : CMap := m.mergeSort entryKeyLe

theorem sortM_perm (m : CMap) : (sortM m).Perm m := List.mergeSort_perm m _

theorem encoded_labels_nodup : ∀ (m : CMap), (∀ kv ∈ m, LabelOk kv.1) → (m.map (·.1)).Nodup →
    (m.map (fun kv => encode kv.1.toCbor)).Nodup
  | [], _, _ => List.nodup_nil
  | (k, w) :: r, hok, hnd => by
    simp only [List.map_cons, List.nodup_cons] at hnd ⊢
    refine ⟨?_, encoded_labels_nodup r (fun kv h => hok kv (List.mem_cons_of_mem _ h)) hnd.2⟩
    intro hmem
    obtain ⟨kv, hkv, he⟩ := List.mem_map.mp hmem
    have w1 := (label_facts (hok kv (List.mem_cons_of_mem _ hkv))).1
    have w2 := (label_facts (hok (k, w) List.mem_cons_self)).1
    have := label_toCbor_injective (encode_inj w1 w2 he)
    exact hnd.1 (List.mem_map.mpr ⟨kv, hkv, this⟩)

theorem strict_of_sorted_nodup {l : List Bytes} (h1 : l.Pairwise (fun a b => bytesLe a b = true)) (h2 : l.Nodup) :
    l.Pairwise (fun a b => bytesLt a b = true) := by
  have := h1.and h2
  refine this.imp ?_
  intro a b hab
  unfold bytesLt
  simp only [hab.1, Bool.true_and, Bool.not_eq_true', beq_eq_false_iff_ne, ne_eq]
  exact hab.2

theorem entryKeyLe_trans : ∀ a b c : Label × GoVal, entryKeyLe a b = true → entryKeyLe b c = true → entryKeyLe a c = true :=
  fun a b c h1 h2 => bytesLe_trans _ _ _ h1 h2

theorem entryKeyLe_total : ∀ a b : Label × GoVal, (entryKeyLe a b || entryKeyLe b a) = true :=
  fun a b => bytesLe_total _ _

theorem map_entryCbor_keys (m : CMap) :
    (encodePairs (m.map entryCbor)).map (·.1) = m.map (fun kv => encode kv.1.toCbor) := by
  rw [encodePairs_map_fst]
  simp only [List.map_map]
  rfl

/-- the entries sorted by encoded label form a canonical CBOR map -/
theorem sorted_entries_wf (m : CMap) (hok : ∀ kv ∈ m, EntryOk kv) (hnd : (m.map (·.1)).Nodup)
    (hlen : m.length ≤ maxElems) :
    WF (.map ((sortM m).map entryCbor)) ∧ depth (.map ((sortM m).map entryCbor)) ≤ 2 := by
  have hp := sortM_perm m
  have hok' : ∀ kv ∈ sortM m, EntryOk kv := fun kv h => hok kv (hp.subset h)
  have hnd' : ((sortM m).map (·.1)).Nodup := ((hp.map (·.1)).nodup_iff).mpr hnd
  obtain ⟨hw, hd, hh, _, _⟩ := entries_wf (sortM m) hok'
  refine ⟨⟨by rw [List.length_map, hp.length_eq]; exact hlen, hw, ?_, hh⟩, by simp only [depth]; omega⟩
  -- strictly increasing encoded keys
  unfold KeysSorted
  have hsorted : (sortM m).Pairwise (fun a b => entryKeyLe a b = true) :=
    List.pairwise_mergeSort entryKeyLe_trans entryKeyLe_total m
  have hkeys : ((sortM m).map (fun kv => encode kv.1.toCbor)).Pairwise (fun a b => bytesLe a b = true) :=
    List.pairwise_map.mpr hsorted
  have hnodup := encoded_labels_nodup (sortM m) (fun kv h => (hok' kv h).1) hnd'
  have hstrict := strict_of_sorted_nodup hkeys hnodup
  rw [← map_entryCbor_keys] at hstrict
  exact List.pairwise_map.mp hstrict

/-- **`CoseMap` CBOR round trip**: for a map with pairwise distinct, in-range labels and scalar / list values,
    `UnmarshalCBOR(MarshalCBOR(m))` succeeds and answers every look-up with the decoded form of the original answer;
    nothing is added or lost, whatever the order the entries were presented in. -/
theorem cmap_roundtrip (m : CMap) (hok : ∀ kv ∈ m, EntryOk kv) (hnd : (m.map (·.1)).Nodup)
    (hlen : m.length ≤ maxElems) :
    ∃ b m', encodeCMap m = some b ∧ decodeCMap b = .ok m' ∧ m'.length = m.length ∧
      ∀ l, m'.lookup l = (m.lookup l).map normV := by
  have hp := sortM_perm m
  have hok' : ∀ kv ∈ sortM m, EntryOk kv := fun kv h => hok kv (hp.subset h)
  obtain ⟨hwf, hdepth⟩ := sorted_entries_wf m hok hnd hlen
  obtain ⟨_, _, _, hof, hcm⟩ := entries_wf (sortM m) hok'
  -- the encoding does not depend on the entry order
  have hnd_enc : ((encodePairs (m.map entryCbor)).map (·.1)).Nodup := by
    rw [map_entryCbor_keys]; exact encoded_labels_nodup m (fun kv h => (hok kv h).1) hnd
  have henc : encode (.map (m.map entryCbor)) = encode (.map ((sortM m).map entryCbor)) :=
    encode_map_perm (hp.symm.map entryCbor) hnd_enc
  refine ⟨encode (.map (m.map entryCbor)), (sortM m).map entryNorm, ?_, ?_, ?_, ?_⟩
  · simp only [encodeCMap, CMap.toCbor, cmapPairs_eq m hok, Option.map_some]
  · unfold decodeCMap
    rw [henc, decodeAll_encode _ hwf (by unfold maxNesting; omega)]
    simp only [Option.map_some, untag, hof, hcm]
  · rw [List.length_map, hp.length_eq]
  · intro l
    rw [lookup_entryNorm, lookup_perm hp hnd]

/-! ## what the typed accessors see after a round trip -/

theorem toInt_normInt (k : IntKind) (v : Int) (hk : k.signed = false → 0 ≤ v) : toInt (normInt v) = toInt (.int k v) := by
  unfold normInt
  by_cases hv : v ≥ 0
  · simp only [hv, if_true]
    have hmin : minInt32 ≤ v := by unfold minInt32; omega
    cases k <;> simp [toInt, IntKind.signed, hmin]
  · simp only [hv, if_false]
    cases k <;> first | rfl | (exact absurd (hk rfl) hv)

theorem normV_int (k : IntKind) (v : Int) : normV (.int k v) = normInt v := rfl

theorem getBytes_normInt (v : Int) : getBytes (some (normInt v)) = .err "type" := by unfold normInt; split <;> rfl
theorem getBool_normInt (v : Int) : getBool (some (normInt v)) = .err "type" := by unfold normInt; split <;> rfl
theorem getString_normInt (v : Int) : getString (some (normInt v)) = .err "type" := by unfold normInt; split <;> rfl

/-- `GetInt` (kty, alg, crv, …) answers the same before and after -/
theorem getInt_normV {v : GoVal} (h : Flat v) : getInt (some (normV v)) = getInt (some v) := by
  cases h with
  | scalar v hs =>
    cases hs with
    | int k v h hk => rw [normV_int]; exact toInt_normInt k v hk
    | bytes b h => rfl
    | bnil => rfl
    | bstr b h => rfl
    | str s h => rfl
    | bool b => rfl
    | nil => rfl
  | ints xs h hl => rfl
  | ops xs h hl => rfl
  | list xs h hl => rfl

/-- `GetBytes` (k, d, x, y, kid, Base IV, …) answers the same, except that a nil `[]byte` member comes back as CBOR
    null (a present-but-nil member is not a byte string any more: `GetBytes` reports a type error) -/
theorem getBytes_normV {v : GoVal} (h : Flat v) (hn : v ≠ .bnil) : getBytes (some (normV v)) = getBytes (some v) := by
  cases h with
  | scalar v hs =>
    cases hs with
    | int k v h hk => rw [normV_int, getBytes_normInt]; rfl
    | bytes b h => rfl
    | bnil => exact absurd rfl hn
    | bstr b h => rfl
    | str s h => rfl
    | bool b => rfl
    | nil => rfl
  | ints xs h hl => rfl
  | ops xs h hl => rfl
  | list xs h hl => rfl

theorem getBool_normV {v : GoVal} (h : Flat v) : getBool (some (normV v)) = getBool (some v) := by
  cases h with
  | scalar v hs =>
    cases hs with
    | int k v h hk => rw [normV_int, getBool_normInt]; rfl
    | bytes b h => rfl
    | bnil => rfl
    | bstr b h => rfl
    | str s h => rfl
    | bool b => rfl
    | nil => rfl
  | ints xs h hl => rfl
  | ops xs h hl => rfl
  | list xs h hl => rfl

theorem getString_normV {v : GoVal} (h : Flat v) : getString (some (normV v)) = getString (some v) := by
  cases h with
  | scalar v hs =>
    cases hs with
    | int k v h hk => rw [normV_int, getString_normInt]; rfl
    | bytes b h => rfl
    | bnil => rfl
    | bstr b h => rfl
    | str s h => rfl
    | bool b => rfl
    | nil => rfl
  | ints xs h hl => rfl
  | ops xs h hl => rfl
  | list xs h hl => rfl

end Cose.Go
