import Cose.Go.Val
import Cose.Cbor.Decode
/-!
# Go values ⇄ CBOR, as fxamacker maps them under the library's options

`toCbor`  : what `key.MarshalCBOR(v)` emits for a dynamic value (integers by value whatever their Go
            kind; nil slices as `null`; nested `CoseMap`s as maps).
`ofCbor`  : what decoding into `any` yields (uint64 / int64 / []byte / string / []any / map[any]any / bool / nil).
`none` marks values outside the modelled universe (floats, tags, big negative integers).
-/
namespace Cose.Go
open Cose.Cbor

mutual
  def toCbor : GoVal → Option Cbor
    | .int _ v => some (Cbor.ofInt v)
    | .bytes b => some (.bstr b)
    | .bnil => some Cbor.null
    | .bstr b => some (.bstr b)
    | .str s => some (.tstr s)
    | .bool b => some (Cbor.bool b)
    | .nil => some Cbor.null
    | .float _ => none
    | .list xs => (toCborList xs).map .arr
    | .ints xs => some (.arr (xs.map Cbor.ofInt))
    | .ops xs => some (.arr (xs.map Cbor.ofInt))
    | .map kvs => (toCborPairs kvs).map .map
  def toCborList : List GoVal → Option (List Cbor)
    | [] => some []
    | x :: xs =>
      match toCbor x, toCborList xs with
      | some a, some r => some (a :: r)
      | _, _ => none
  def toCborPairs : List (GoVal × GoVal) → Option (List (Cbor × Cbor))
    | [] => some []
    | (k, v) :: r =>
      match toCbor k, toCbor v, toCborPairs r with
      | some a, some b, some c => some ((a, b) :: c)
      | _, _, _ => none
end

mutual
  def ofCbor : Cbor → Option GoVal
    | .uint n => some (.int .u64 n)
    | .nint n => if n < 9223372036854775808 then some (.int .i64 (-1 - (n : Int))) else none
    | .bstr b => some (.bytes b)
    | .tstr b => some (.str b)
    | .arr xs => (ofCborList xs).map .list
    | .map kvs => (ofCborPairs kvs).map .map
    | .tag _ _ => none
    | .simple 20 => some (.bool false)
    | .simple 21 => some (.bool true)
    | .simple 22 => some .nil
    | .simple 23 => some .nil
    | .simple _ => none
    | .float _ _ => none
  def ofCborList : List Cbor → Option (List GoVal)
    | [] => some []
    | x :: xs =>
      match ofCbor x, ofCborList xs with
      | some a, some r => some (a :: r)
      | _, _ => none
  def ofCborPairs : List (Cbor × Cbor) → Option (List (GoVal × GoVal))
    | [] => some []
    | (k, v) :: r =>
      match ofCbor k, ofCbor v, ofCborPairs r with
      | some a, some b, some c => some ((a, b) :: c)
      | _, _, _ => none
end

end Cose.Go
