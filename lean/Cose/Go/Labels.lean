import Cose.Go.Convert
import Cose.Go.CoseMap
/-!
# `key.CoseMap` as a label-normalised association list, and its CBOR codec
(mirror of `checkKey`, `CoseMap.UnmarshalCBOR`, `CoseMap.MarshalCBOR` in /repo/key/cosemap.go)
-/
namespace Cose.Go
open Cose.Cbor

inductive Label
  | int (i : Int)
  | text (s : Bytes)
deriving Repr, DecidableEq

abbrev CMap := List (Label × GoVal)

/-- `checkKey`: only `int`, `int64`, `uint`, `uint64` within the int32 range, or `string` -/
def checkKey : GoVal → Res Label
  | .int k v =>
    match k with
    | .int | .i64 => if minInt32 ≤ v ∧ v ≤ maxInt32 then .ok (.int v) else .err "label"
    | .u | .u64 => if v ≤ maxInt32 then .ok (.int v) else .err "label"
    | _ => .err "label"
  | .str s => .ok (.text s)
  | _ => .err "label"

/-- `toKey` (reflection over the keys of a plain Go map handed to `GetMap`): every integer kind, range-checked; strings -/
def toKey : GoVal → Res Label
  | .int k v =>
    if k.signed then (if minInt32 ≤ v ∧ v ≤ maxInt32 then .ok (.int v) else .err "label")
    else (if v ≤ maxInt32 then .ok (.int v) else .err "label")
  | .str s => .ok (.text s)
  | _ => .err "label"

def toKeys : List (GoVal × GoVal) → Res (List Label)
  | [] => .ok []
  | (k, _) :: r =>
    match toKey k, toKeys r with
    | .ok l, .ok ls => .ok (l :: ls)
    | .err e, _ => .err e
    | _, .err e => .err e
    | .panic p, _ => .panic p
    | _, .panic p => .panic p

/-- `CoseMap.GetMap` on a plain Go map value: the labels of the returned map (absent ↦ nil map) -/
def getMap : Option GoVal → Res (Option (List Label))
  | none => .ok none
  | some (.map kvs) => (match toKeys kvs with | .ok ls => .ok (some ls) | .err e => .err e | .panic p => .panic p)
  | some _ => .err "type"

def Label.toCbor : Label → Cbor
  | .int i => Cbor.ofInt i
  | .text s => .tstr s

def CMap.lookup (m : CMap) (l : Label) : Option GoVal :=
  match m.find? (fun kv => kv.1 == l) with
  | some kv => some kv.2
  | none => none

def CMap.has (m : CMap) (l : Label) : Bool := (m.lookup l).isSome

/-- `m[l] = v` -/
def CMap.set (m : CMap) (l : Label) (v : GoVal) : CMap :=
  if m.has l then m.map (fun kv => if kv.1 == l then (l, v) else kv) else m ++ [(l, v)]

def CMap.erase (m : CMap) (l : Label) : CMap := m.filter (fun kv => !(kv.1 == l))

def cmapOfPairs : List (GoVal × GoVal) → Res CMap
  | [] => .ok []
  | (k, v) :: r =>
    match checkKey k, cmapOfPairs r with
    | .ok l, .ok m => .ok ((l, v) :: m)
    | .err e, _ => .err e
    | _, .err e => .err e
    | .panic s, _ => .panic s
    | _, .panic s => .panic s

inductive Dec (α : Type)
  | ok (a : α)
  | err
  | unmodelled
deriving Repr

/-- fxamacker skips any enclosing tags when the destination is not `any` / `cbor.Tag` -/
def untag : Cbor → Cbor
  | .tag _ v => untag v
  | v => v

/-- `CoseMap.UnmarshalCBOR` -/
def decodeCMap (bs : Bytes) : Dec CMap :=
  match (decodeAll bs).map untag with
  | none => .err
  | some (.map kvs) =>
    match ofCborPairs kvs with
    | none => .unmodelled
    | some gkvs =>
      match cmapOfPairs gkvs with
      | .ok m => .ok m
      | _ => .err
  | some (.simple 22) => .ok []      -- CBOR null into a map: empty map
  | some (.simple 23) => .ok []
  | some _ => .err

def cmapPairs : CMap → Option (List (Cbor × Cbor))
  | [] => some []
  | (l, v) :: r =>
    match toCbor v, cmapPairs r with
    | some c, some rest => some ((l.toCbor, c) :: rest)
    | _, _ => none

/-- `CoseMap.MarshalCBOR` -/
def CMap.toCbor (m : CMap) : Option Cbor := (cmapPairs m).map .map

def encodeCMap (m : CMap) : Option Bytes := m.toCbor.map encode

end Cose.Go
