import Cose.Cbor.Decode
/-! Round trip of CBOR heads: `decHead (head mt n ++ r) = some (mt, ai, n, r)`. -/
namespace Cose.Cbor

theorem u8_toNat {n : Nat} (h : n < 256) : (u8 n).toNat = n := by
  unfold u8
  simp [UInt8.toNat_ofNat', Nat.mod_eq_of_lt h]

/-- additional information chosen by the shortest-form head -/
def aiOf (n : Nat) : Nat :=
  if n < 24 then n else if n < 256 then 24 else if n < 65536 then 25 else if n < 4294967296 then 26 else 27

theorem decHead_head (mt n : Nat) (r : Bytes) (hmt : mt < 8) (hn : n < 18446744073709551616) :
    decHead (head mt n ++ r) = some (mt, aiOf n, n, r) := by
  unfold head aiOf
  by_cases h1 : n < 24
  · simp only [h1, if_true, List.cons_append, List.nil_append, decHead]
    rw [u8_toNat (by omega)]
    have e1 : (mt * 32 + n) / 32 = mt := by omega
    have e2 : (mt * 32 + n) % 32 = n := by omega
    simp [e1, e2, h1]
  · by_cases h2 : n < 256
    · simp only [h1, h2, if_true, if_false, List.cons_append, List.nil_append, decHead]
      rw [u8_toNat (by omega), u8_toNat h2]
      have e1 : (mt * 32 + 24) / 32 = mt := by omega
      have e2 : (mt * 32 + 24) % 32 = 24 := by omega
      simp [e1, e2]
    · by_cases h3 : n < 65536
      · simp only [h1, h2, h3, if_true, if_false, List.cons_append, List.nil_append, decHead]
        rw [u8_toNat (by omega), u8_toNat (by omega), u8_toNat (by omega)]
        have e1 : (mt * 32 + 25) / 32 = mt := by omega
        have e2 : (mt * 32 + 25) % 32 = 25 := by omega
        have e3 : n / 256 * 256 + n % 256 = n := by omega
        simp [e1, e2, e3]
      · by_cases h4 : n < 4294967296
        · simp only [h1, h2, h3, h4, if_true, if_false, List.cons_append, List.nil_append, decHead]
          rw [u8_toNat (by omega), u8_toNat (by omega), u8_toNat (by omega), u8_toNat (by omega), u8_toNat (by omega)]
          have e1 : (mt * 32 + 26) / 32 = mt := by omega
          have e2 : (mt * 32 + 26) % 32 = 26 := by omega
          have e3 : n / 16777216 * 16777216 + n / 65536 % 256 * 65536 + n / 256 % 256 * 256 + n % 256 = n := by omega
          simp [e1, e2, e3]
        · simp only [h1, h2, h3, h4, if_true, if_false, List.cons_append, List.nil_append, decHead]
          rw [u8_toNat (by omega), u8_toNat (by omega), u8_toNat (by omega), u8_toNat (by omega), u8_toNat (by omega),
            u8_toNat (by omega), u8_toNat (by omega), u8_toNat (by omega), u8_toNat (by omega)]
          have e1 : (mt * 32 + 27) / 32 = mt := by omega
          have e2 : (mt * 32 + 27) % 32 = 27 := by omega
          have e3 : n / 72057594037927936 * 72057594037927936 + n / 281474976710656 % 256 * 281474976710656
              + n / 1099511627776 % 256 * 1099511627776 + n / 4294967296 % 256 * 4294967296
              + n / 16777216 % 256 * 16777216 + n / 65536 % 256 * 65536 + n / 256 % 256 * 256 + n % 256 = n := by omega
          simp [e1, e2, e3]

theorem head_length_pos (mt n : Nat) : 0 < (head mt n).length := by
  unfold head; split <;> (try split) <;> (try split) <;> (try split) <;> simp

theorem head_ne_nil (mt n : Nat) : head mt n ≠ [] := by
  intro h; have := head_length_pos mt n; rw [h] at this; simp at this

end Cose.Cbor
