import Cose.Cbor.Encode
import Cose.Cbor.Utf8
/-!
# Strict decoder: the language fxamacker/cbor v2.7.0 accepts under the library's options

`DecOptions{DupMapKey: EnforcedAPF, IndefLength: Forbidden}` and defaults otherwise:
definite lengths only; *non-shortest heads are accepted*; duplicate map keys rejected at every depth
(keys compared after decoding, i.e. by value); text must be valid UTF-8; nesting ≤ 32;
≤ 131072 array elements / map pairs; reserved additional-information values rejected.
Floats are outside the model (`none` + the driver's `unmodelled`).
-/
namespace Cose.Cbor

def maxNesting : Nat := 32
def maxElems : Nat := 131072

/-- decoded head: (major type, additional information, argument, rest) -/
def decHead : Bytes → Option (Nat × Nat × Nat × Bytes)
  | [] => none
  | b :: r =>
    let mt := b.toNat / 32
    let ai := b.toNat % 32
    if ai < 24 then some (mt, ai, ai, r)
    else if ai = 24 then
      match r with
      | x :: r' => some (mt, ai, x.toNat, r')
      | _ => none
    else if ai = 25 then
      match r with
      | x1 :: x0 :: r' => some (mt, ai, x1.toNat * 256 + x0.toNat, r')
      | _ => none
    else if ai = 26 then
      match r with
      | x3 :: x2 :: x1 :: x0 :: r' =>
        some (mt, ai, x3.toNat * 16777216 + x2.toNat * 65536 + x1.toNat * 256 + x0.toNat, r')
      | _ => none
    else if ai = 27 then
      match r with
      | x7 :: x6 :: x5 :: x4 :: x3 :: x2 :: x1 :: x0 :: r' =>
        some (mt, ai, x7.toNat * 72057594037927936 + x6.toNat * 281474976710656 + x5.toNat * 1099511627776
          + x4.toNat * 4294967296 + x3.toNat * 16777216 + x2.toNat * 65536 + x1.toNat * 256 + x0.toNat, r')
      | _ => none
    else none

/-- what fxamacker can use as a key of a Go `map[any]any`: arrays and maps are refused
    (byte strings become `cbor.ByteString` keys) -/
def hashableKey : Cbor → Bool
  | .arr _ => false
  | .map _ => false
  | _ => true

/-- fxamacker validates the content type of the built-in tags: 0 (text date/time), 1 (epoch number),
    2 and 3 (bignum byte string) -/
def tagContentOk (t : Nat) : Cbor → Bool
  | .tstr _ => t ≠ 1 && t ≠ 2 && t ≠ 3
  | .uint _ => t ≠ 0 && t ≠ 2 && t ≠ 3
  | .nint _ => t ≠ 0 && t ≠ 2 && t ≠ 3
  | .float _ _ => t ≠ 0 && t ≠ 2 && t ≠ 3
  | .bstr _ => t ≠ 0 && t ≠ 1
  | _ => t ≥ 4

/-- keys are compared by value; two keys have the same value iff their canonical encodings coincide -/
def nodupKeys (kvs : List (Cbor × Cbor)) : Bool :=
  decide ((kvs.map (fun kv => encode kv.1)).Nodup)

/-- does the next item start with a tag head? (fxamacker scans a run of consecutive tags without recursion: the
    first tag of a run costs no nesting level, each further one does) -/
def isTagHead (bs : Bytes) : Bool :=
  match decHead bs with
  | some (mt, _, _, _) => mt == 6
  | none => false

mutual
  /-- `decode fuel depth bytes`: one data item and the remaining bytes -/
  def decode : Nat → Nat → Bytes → Option (Cbor × Bytes)
    | 0, _, _ => none
    | f + 1, d, bs =>
      match decHead bs with
      | none => none
      | some (mt, ai, n, r) =>
        if mt = 0 then some (.uint n, r)
        else if mt = 1 then some (.nint n, r)
        else if mt = 2 then (if n ≤ r.length then some (.bstr (r.take n), r.drop n) else none)
        else if mt = 3 then
          (if n ≤ r.length then (if validUtf8 (r.take n) then some (.tstr (r.take n), r.drop n) else none) else none)
        else if mt = 4 then
          (if d = 0 ∨ n > maxElems then none else
            match decodeList f (d - 1) n r with
            | some (xs, r') => some (.arr xs, r')
            | none => none)
        else if mt = 5 then
          (if d = 0 ∨ n > maxElems then none else
            match decodePairs f (d - 1) n r with
            | some (kvs, r') =>
              if nodupKeys kvs && kvs.all (fun kv => hashableKey kv.1) then some (.map kvs, r') else none
            | none => none)
        else if mt = 6 then
          (if isTagHead r ∧ d = 0 then none else
            match decode f (if isTagHead r then d - 1 else d) r with
            | some (v, r') => if tagContentOk n v then some (.tag n v, r') else none
            | none => none)
        else
          (if ai < 24 then some (.simple n, r)
           else if ai = 24 then (if n ≥ 32 then some (.simple n, r) else none)
           else some (.float ai n, r))
  def decodeList : Nat → Nat → Nat → Bytes → Option (List Cbor × Bytes)
    | 0, _, _, _ => none
    | _ + 1, _, 0, bs => some ([], bs)
    | f + 1, d, k + 1, bs =>
      match decode f d bs with
      | none => none
      | some (x, r) =>
        match decodeList f d k r with
        | none => none
        | some (xs, r') => some (x :: xs, r')
  def decodePairs : Nat → Nat → Nat → Bytes → Option (List (Cbor × Cbor) × Bytes)
    | 0, _, _, _ => none
    | _ + 1, _, 0, bs => some ([], bs)
    | f + 1, d, k + 1, bs =>
      match decode f d bs with
      | none => none
      | some (key, r) =>
        match decode f d r with
        | none => none
        | some (v, r') =>
          match decodePairs f d k r' with
          | none => none
          | some (kvs, r'') => some ((key, v) :: kvs, r'')
end

/-- whole-input decoding: exactly one item, no trailing bytes -/
def decodeAll (bs : Bytes) : Option Cbor :=
  match decode (3 * bs.length + 3) maxNesting bs with
  | some (v, []) => some v
  | _ => none

end Cose.Cbor
