import Cose.Bytes
/-! UTF-8 validation as Go's `utf8.Valid` (RFC 3629: no overlongs, no surrogates, ≤ U+10FFFF). -/
namespace Cose.Cbor

def isCont (b : UInt8) : Bool := 0x80 ≤ b && b ≤ 0xBF

def validUtf8 : Bytes → Bool
  | [] => true
  | b0 :: r =>
    if b0 < 0x80 then validUtf8 r
    else if 0xC2 ≤ b0 && b0 ≤ 0xDF then
      match r with
      | b1 :: r' => isCont b1 && validUtf8 r'
      | _ => false
    else if 0xE0 ≤ b0 && b0 ≤ 0xEF then
      match r with
      | b1 :: b2 :: r' =>
        let lo : UInt8 := if b0 == 0xE0 then 0xA0 else 0x80
        let hi : UInt8 := if b0 == 0xED then 0x9F else 0xBF
        (lo ≤ b1 && b1 ≤ hi) && isCont b2 && validUtf8 r'
      | _ => false
    else if 0xF0 ≤ b0 && b0 ≤ 0xF4 then
      match r with
      | b1 :: b2 :: b3 :: r' =>
        let lo : UInt8 := if b0 == 0xF0 then 0x90 else 0x80
        let hi : UInt8 := if b0 == 0xF4 then 0x8F else 0xBF
        (lo ≤ b1 && b1 ≤ hi) && isCont b2 && isCont b3 && validUtf8 r'
      | _ => false
    else false

end Cose.Cbor
