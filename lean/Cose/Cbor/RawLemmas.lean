import Cose.Cbor.Raw
import Cose.Cbor.Lemmas
import Cose.Cbor.Corollaries
/-!
# Raw item boundaries of an encoding

`skipItem` walks over exactly one encoded item, `takeItems` cuts an encoded sequence into the encodings of its
members, and `rawArrayElems` of an encoded array is the list of its members' encodings — the facts the first-byte
dispatch of `Recipient` / `SuppPubInfo` / `KDFContext` decoding is stated over.
-/
namespace Cose.Cbor

theorem size_pos (v : Cbor) : 1 ≤ size v := by cases v <;> simp [size] <;> omega
theorem sizePairs_pos (kvs : List (Cbor × Cbor)) : 1 ≤ sizePairs kvs := by
  cases kvs with
  | nil => simp [sizePairs]
  | cons a r => obtain ⟨k, v⟩ := a; simp [sizePairs]; omega

mutual
  theorem skipItem_encode (v : Cbor) (hw : WF v) (f : Nat) (r : Bytes) (hf : size v ≤ f) :
      skipItem f (encode v ++ r) = some r := by
    match v, f with
    | .uint n, f + 1 =>
      simp only [WF, two64] at hw
      simp only [encode, skipItem, decHead_head 0 n r (by omega) hw]
      simp
    | .nint n, f + 1 =>
      simp only [WF, two64] at hw
      simp only [encode, skipItem, decHead_head 1 n r (by omega) hw]
      simp
    | .bstr b, f + 1 =>
      simp only [WF, two64] at hw
      simp only [encode, skipItem, List.append_assoc, decHead_head 2 b.length (b ++ r) (by omega) hw]
      simp
    | .tstr b, f + 1 =>
      simp only [WF, two64] at hw
      simp only [encode, skipItem, List.append_assoc, decHead_head 3 b.length (b ++ r) (by omega) hw.1]
      simp
    | .arr xs, f + 1 =>
      simp only [WF] at hw
      simp only [size] at hf
      have hlen : xs.length < 18446744073709551616 := by have := hw.1; unfold maxElems at this; omega
      simp only [encode, skipItem, List.append_assoc, decHead_head 4 xs.length _ (by omega) hlen]
      simp only [show ¬ (4 = 0 ∨ 4 = 1) by omega, show ¬ (4 = 7) by omega, show ¬ (4 = 2 ∨ 4 = 3) by omega, if_false, if_true]
      exact skipItems_encodeList xs hw.2 f r (by omega)
    | .map kvs, f + 1 =>
      simp only [WF] at hw
      simp only [size] at hf
      obtain ⟨hl, hwp, hs, _⟩ := hw
      have hlen : kvs.length < 18446744073709551616 := by unfold maxElems at hl; omega
      rw [encode_map_sorted hs]
      simp only [skipItem, List.append_assoc, decHead_head 5 kvs.length _ (by omega) hlen]
      simp only [show ¬ (5 = 0 ∨ 5 = 1) by omega, show ¬ (5 = 7) by omega, show ¬ (5 = 2 ∨ 5 = 3) by omega,
        show ¬ (5 = 4) by omega, if_false, if_true]
      exact skipItems_encodePairs kvs hwp f r (by omega)
    | .tag t w, f + 1 =>
      simp only [WF, two64] at hw
      simp only [size] at hf
      simp only [encode, skipItem, List.append_assoc, decHead_head 6 t _ (by omega) hw.1]
      simp only [show ¬ (6 = 0 ∨ 6 = 1) by omega, show ¬ (6 = 7) by omega, show ¬ (6 = 2 ∨ 6 = 3) by omega,
        show ¬ (6 = 4) by omega, show ¬ (6 = 5) by omega, if_false]
      exact skipItem_encode w hw.2.1 f r (by omega)
    | .simple n, f + 1 =>
      simp only [WF] at hw
      have hn : n < 18446744073709551616 := by omega
      simp only [encode, skipItem, decHead_head 7 n r (by omega) hn, aiOf]
      rcases hw with h | ⟨h1, h2⟩
      · simp [h]; omega
      · have a : ¬ n < 24 := by omega
        simp [a, h2]; omega
    | .float _ _, _ => simp [WF] at hw
    | .uint _, 0 => simp [size] at hf
    | .nint _, 0 => simp [size] at hf
    | .bstr _, 0 => simp [size] at hf
    | .tstr _, 0 => simp [size] at hf
    | .arr _, 0 => simp [size] at hf
    | .map _, 0 => simp [size] at hf
    | .tag _ _, 0 => simp [size] at hf
    | .simple _, 0 => simp [size] at hf
  theorem skipItems_encodeList (xs : List Cbor) (hw : WFList xs) (f : Nat) (r : Bytes) (hf : sizeList xs ≤ f) :
      skipItems f xs.length (encodeList xs ++ r) = some r := by
    match xs, f with
    | [], f + 1 => simp [skipItems, encodeList]
    | x :: xs, f + 1 =>
      simp only [WFList] at hw
      simp only [sizeList] at hf
      simp only [encodeList, List.length_cons, skipItems, List.append_assoc]
      rw [skipItem_encode x hw.1 f _ (by omega)]
      simp only
      exact skipItems_encodeList xs hw.2 f r (by omega)
    | [], 0 => simp [sizeList] at hf
    | _ :: _, 0 => simp [sizeList] at hf
  theorem skipItems_encodePairs (kvs : List (Cbor × Cbor)) (hw : WFPairs kvs) (f : Nat) (r : Bytes) (hf : sizePairs kvs ≤ f) :
      skipItems f (2 * kvs.length) (flattenPairs (encodePairs kvs) ++ r) = some r := by
    match kvs, f with
    | [], f + 1 => simp [skipItems, encodePairs, flattenPairs]
    | (k, v) :: kvs, f + 2 =>
      simp only [WFPairs] at hw
      simp only [sizePairs] at hf
      have e : 2 * ((k, v) :: kvs).length = (2 * kvs.length + 1) + 1 := by simp [List.length_cons]; omega
      have := size_pos k
      have := size_pos v
      have := sizePairs_pos kvs
      rw [e]
      simp only [encodePairs, flattenPairs, skipItems, List.append_assoc]
      rw [skipItem_encode k hw.1 (f + 1) _ (by omega)]
      simp only
      rw [skipItem_encode v hw.2.1 f _ (by omega)]
      simp only
      exact skipItems_encodePairs kvs hw.2.2 f r (by omega)
    | (k, v) :: kvs, 1 =>
      have := size_pos k
      have := size_pos v
      have := sizePairs_pos kvs
      simp only [sizePairs] at hf; omega
    | [], 0 => simp [sizePairs] at hf
    | _ :: _, 0 => simp [sizePairs] at hf
end

/-- cutting an encoded sequence into its members' encodings -/
theorem takeItems_encodeList (xs : List Cbor) (hw : WFList xs) (f : Nat) (r : Bytes) (hf : ∀ x ∈ xs, size x ≤ f) :
    takeItems f xs.length (encodeList xs ++ r) = some (xs.map encode) := by
  induction xs with
  | nil => simp [takeItems]
  | cons x xs ih =>
    simp only [WFList] at hw
    simp only [List.length_cons, takeItems, encodeList, List.append_assoc]
    rw [skipItem_encode x hw.1 f _ (hf x (List.mem_cons_self ..))]
    simp only
    rw [ih hw.2 (fun y hy => hf y (List.mem_cons_of_mem _ hy))]
    simp only [List.map_cons, Option.some.injEq, List.cons.injEq, and_true]
    have : (encode x ++ (encodeList xs ++ r)).length - (encodeList xs ++ r).length = (encode x).length := by
      simp only [List.length_append]; omega
    rw [this]
    simp

theorem mem_size_le_encodeList (xs : List Cbor) (hw : WFList xs) : ∀ x ∈ xs, size x ≤ 3 * (encodeList xs).length := by
  induction xs with
  | nil => intro x hx; cases hx
  | cons y ys ih =>
    simp only [WFList] at hw
    intro x hx
    simp only [encodeList, List.length_append]
    rcases List.mem_cons.mp hx with rfl | h
    · have := size_le x hw.1; omega
    · have := ih hw.2 x h; omega

/-- **the raw members of an encoded array are the encodings of its members** -/
theorem rawArrayElems_encode_arr (xs : List Cbor) (hw : WF (.arr xs)) :
    rawArrayElems (encode (.arr xs)) = some (xs.map encode) := by
  simp only [WF] at hw
  have hlen : xs.length < 18446744073709551616 := by have := hw.1; unfold maxElems at this; omega
  have hd : decHead (encode (.arr xs)) = some (4, aiOf xs.length, xs.length, encodeList xs) := by
    simp only [encode]; exact decHead_head 4 xs.length _ (by omega) hlen
  have hu : rawUntag 64 (encode (.arr xs)) = encode (.arr xs) := by
    simp only [rawUntag, hd]
  unfold rawArrayElems
  simp only [hu, hd]
  have := takeItems_encodeList xs hw.2 (3 * (encode (.arr xs)).length + 3) [] (fun x hx => by
    have := mem_size_le_encodeList xs hw.2 x hx
    simp only [encode, List.length_append]; omega)
  simpa using this

/-- the first octet of an encoded array of fewer than 24 members is `0x80 + n` -/
theorem encode_arr_first (xs : List Cbor) (h : xs.length < 24) :
    ∃ rest, encode (.arr xs) = u8 (4 * 32 + xs.length) :: rest := by
  simp only [encode, head, h, if_true]
  exact ⟨_, rfl⟩

end Cose.Cbor
