import Cose.Cbor.Encode
/-! `bytesLe` is a total order (reflexive, transitive, antisymmetric, total). -/
namespace Cose.Cbor

theorem bytesLe_refl : ∀ a : Bytes, bytesLe a a = true
  | [] => rfl
  | x :: xs => by simp [bytesLe, bytesLe_refl xs]

theorem bytesLe_total : ∀ a b : Bytes, (bytesLe a b || bytesLe b a) = true
  | [], _ => by simp [bytesLe]
  | _ :: _, [] => by simp [bytesLe]
  | x :: xs, y :: ys => by
    unfold bytesLe
    by_cases h1 : x < y
    · simp [h1]
    · by_cases h2 : y < x
      · simp [h1, h2]
      · simp only [h1, h2, if_false]
        exact bytesLe_total xs ys

theorem bytesLe_antisymm : ∀ a b : Bytes, bytesLe a b = true → bytesLe b a = true → a = b
  | [], [], _, _ => rfl
  | [], _ :: _, _, h => by simp [bytesLe] at h
  | _ :: _, [], h, _ => by simp [bytesLe] at h
  | x :: xs, y :: ys, h1, h2 => by
    unfold bytesLe at h1 h2
    by_cases a : x < y
    · have na : ¬ y < x := by
        intro c; exact absurd (UInt8.lt_trans a c) (UInt8.lt_irrefl x)
      simp [a, na] at h2
    · by_cases b : y < x
      · simp [a, b] at h1
      · simp only [a, b, if_false] at h1 h2
        have : x = y := by
          have := UInt8.le_antisymm (UInt8.not_lt.mp b) (UInt8.not_lt.mp a)
          exact this
        rw [this, bytesLe_antisymm xs ys h1 h2]

theorem bytesLe_trans : ∀ a b c : Bytes, bytesLe a b = true → bytesLe b c = true → bytesLe a c = true
  | [], _, _, _, _ => by simp [bytesLe]
  | _ :: _, [], _, h, _ => by simp [bytesLe] at h
  | _ :: _, _ :: _, [], _, h => by simp [bytesLe] at h
  | x :: xs, y :: ys, z :: zs, h1, h2 => by
    unfold bytesLe at h1 h2 ⊢
    by_cases xy : x < y
    · by_cases yz : y < z
      · simp [UInt8.lt_trans xy yz]
      · by_cases zy : z < y
        · simp [yz, zy] at h2
        · have : y = z := UInt8.le_antisymm (UInt8.not_lt.mp zy) (UInt8.not_lt.mp yz)
          subst this; simp [xy]
    · by_cases yx : y < x
      · simp [xy, yx] at h1
      · have e : x = y := UInt8.le_antisymm (UInt8.not_lt.mp yx) (UInt8.not_lt.mp xy)
        subst e
        simp only [xy, if_false] at h1
        by_cases yz : x < z
        · simp [yz]
        · by_cases zy : z < x
          · simp [yz, zy] at h2
          · simp only [yz, zy, if_false] at h2 ⊢
            exact bytesLe_trans xs ys zs h1 h2

end Cose.Cbor
