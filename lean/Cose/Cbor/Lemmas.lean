import Cose.Cbor.HeadLemmas
/-!
# Round trip, injectivity and order-independence of the deterministic encoding

`decode_encode` : for every well-formed canonical value `v` (any size, any depth ≤ 32) and any
following bytes `r`, `decode fuel depth (encode v ++ r) = some (v, r)`.
Corollaries: `encode_injective` (prefix-free), used by every to-be-authenticated-structure theorem.
-/
namespace Cose.Cbor

def two64 : Nat := 18446744073709551616

mutual
  /-- fuel needed to decode -/
  def size : Cbor → Nat
    | .arr xs => 1 + sizeList xs
    | .map kvs => 1 + sizePairs kvs
    | .tag _ v => 1 + size v
    | _ => 1
  def sizeList : List Cbor → Nat
    | [] => 1
    | x :: xs => 1 + size x + sizeList xs
  def sizePairs : List (Cbor × Cbor) → Nat
    | [] => 1
    | (k, v) :: r => 1 + size k + size v + sizePairs r
end

def isTag : Cbor → Bool
  | .tag _ _ => true
  | _ => false

mutual
  /-- nesting depth as fxamacker counts it: arrays and maps one level each; of a run of consecutive tags every tag
      but the first -/
  def depth : Cbor → Nat
    | .arr xs => 1 + depthList xs
    | .map kvs => 1 + depthPairs kvs
    | .tag _ v => (if isTag v then 1 else 0) + depth v
    | _ => 0
  def depthList : List Cbor → Nat
    | [] => 0
    | x :: xs => max (depth x) (depthList xs)
  def depthPairs : List (Cbor × Cbor) → Nat
    | [] => 0
    | (k, v) :: r => max (max (depth k) (depth v)) (depthPairs r)
end

/-- strictly increasing encoded keys (RFC 8949 §4.2.1 bytewise lexicographic order, no duplicates) -/
def KeysSorted (kvs : List (Cbor × Cbor)) : Prop :=
  (encodePairs kvs).Pairwise (fun a b => bytesLt a.1 b.1 = true)

mutual
  /-- well-formed, canonical, inside the modelled universe -/
  def WF : Cbor → Prop
    | .uint n => n < two64
    | .nint n => n < two64
    | .bstr b => b.length < two64
    | .tstr b => b.length < two64 ∧ validUtf8 b = true
    | .arr xs => xs.length ≤ maxElems ∧ WFList xs
    | .map kvs => kvs.length ≤ maxElems ∧ WFPairs kvs ∧ KeysSorted kvs ∧ kvs.all (fun kv => hashableKey kv.1) = true
    | .tag t v => t < two64 ∧ WF v ∧ tagContentOk t v = true
    | .simple n => n < 24 ∨ (32 ≤ n ∧ n < 256)
    | .float _ _ => False
  def WFList : List Cbor → Prop
    | [] => True
    | x :: xs => WF x ∧ WFList xs
  def WFPairs : List (Cbor × Cbor) → Prop
    | [] => True
    | (k, v) :: r => WF k ∧ WF v ∧ WFPairs r
end

theorem take_append_len {α} (a b : List α) : (a ++ b).take a.length = a := by simp
theorem drop_append_len {α} (a b : List α) : (a ++ b).drop a.length = b := by simp

theorem bytesLt_le {a b : Bytes} (h : bytesLt a b = true) : bytesLe a b = true := by
  unfold bytesLt at h; simp at h; exact h.1
theorem bytesLt_ne {a b : Bytes} (h : bytesLt a b = true) : a ≠ b := by
  unfold bytesLt at h; simp at h; exact h.2

theorem encodePairs_map_fst (kvs : List (Cbor × Cbor)) :
    (encodePairs kvs).map (·.1) = kvs.map (fun kv => encode kv.1) := by
  induction kvs with
  | nil => simp [encodePairs]
  | cons a r ih => obtain ⟨k, v⟩ := a; simp [encodePairs, ih]

theorem nodupKeys_of_sorted {kvs : List (Cbor × Cbor)} (h : KeysSorted kvs) : nodupKeys kvs = true := by
  unfold nodupKeys KeysSorted at *
  rw [← encodePairs_map_fst]
  simp only [decide_eq_true_eq]
  rw [List.nodup_iff_pairwise_ne, List.pairwise_map]
  exact h.imp (fun hab => bytesLt_ne hab)

theorem sorted_entryLe {kvs : List (Cbor × Cbor)} (h : KeysSorted kvs) :
    (encodePairs kvs).Pairwise (fun a b => entryLe a b = true) := by
  unfold KeysSorted at h
  exact h.imp (fun hab => by unfold entryLe; exact bytesLt_le hab)

theorem encode_map_sorted {kvs : List (Cbor × Cbor)} (h : KeysSorted kvs) :
    encode (.map kvs) = head 5 kvs.length ++ flattenPairs (encodePairs kvs) := by
  simp only [encode]
  rw [List.mergeSort_of_pairwise (sorted_entryLe h)]

theorem keysSorted_tail {a : Cbor × Cbor} {r : List (Cbor × Cbor)} (h : KeysSorted (a :: r)) : KeysSorted r := by
  obtain ⟨k, v⟩ := a
  unfold KeysSorted at *
  simp only [encodePairs] at h
  exact (List.pairwise_cons.mp h).2

/-- the first head of an encoding tells whether the item is a tag -/
theorem isTagHead_encode (w : Cbor) (hw : WF w) (r : Bytes) : isTagHead (encode w ++ r) = isTag w := by
  unfold isTagHead
  cases w with
  | uint n => simp only [WF, two64] at hw; simp only [encode, decHead_head 0 n r (by omega) hw]; rfl
  | nint n => simp only [WF, two64] at hw; simp only [encode, decHead_head 1 n r (by omega) hw]; rfl
  | bstr b => simp only [WF, two64] at hw; simp only [encode, List.append_assoc, decHead_head 2 b.length _ (by omega) hw]; rfl
  | tstr b => simp only [WF, two64] at hw; simp only [encode, List.append_assoc, decHead_head 3 b.length _ (by omega) hw.1]; rfl
  | arr xs =>
    simp only [WF] at hw
    have hlen : xs.length < 18446744073709551616 := by have := hw.1; unfold maxElems at this; omega
    simp only [encode, List.append_assoc, decHead_head 4 xs.length _ (by omega) hlen]; rfl
  | map kvs =>
    simp only [WF] at hw
    have hlen : kvs.length < 18446744073709551616 := by have := hw.1; unfold maxElems at this; omega
    simp only [encode, List.append_assoc, decHead_head 5 kvs.length _ (by omega) hlen]; rfl
  | tag t v => simp only [WF, two64] at hw; simp only [encode, List.append_assoc, decHead_head 6 t _ (by omega) hw.1]; rfl
  | simple n =>
    simp only [WF] at hw
    have hn : n < 18446744073709551616 := by omega
    simp only [encode, decHead_head 7 n r (by omega) hn]; rfl
  | float _ _ => simp [WF] at hw

mutual
  theorem decode_encode (v : Cbor) (hw : WF v) (f d : Nat) (r : Bytes)
      (hf : size v ≤ f) (hd : depth v ≤ d) : decode f d (encode v ++ r) = some (v, r) := by
    match v, f with
    | .uint n, f + 1 =>
      simp only [WF, two64] at hw
      simp only [encode, decode, decHead_head 0 n r (by omega) hw]
      simp
    | .nint n, f + 1 =>
      simp only [WF, two64] at hw
      simp only [encode, decode, decHead_head 1 n r (by omega) hw]
      simp
    | .bstr b, f + 1 =>
      simp only [WF, two64] at hw
      simp only [encode, decode, List.append_assoc, decHead_head 2 b.length (b ++ r) (by omega) hw]
      simp
    | .tstr b, f + 1 =>
      simp only [WF, two64] at hw
      simp only [encode, decode, List.append_assoc, decHead_head 3 b.length (b ++ r) (by omega) hw.1]
      simp [hw.2]
    | .arr xs, f + 1 =>
      simp only [WF] at hw
      simp only [size] at hf
      simp only [depth] at hd
      have hlen : xs.length < 18446744073709551616 := by have := hw.1; unfold maxElems at this; omega
      simp only [encode, decode, List.append_assoc, decHead_head 4 xs.length _ (by omega) hlen]
      have hd0 : ¬ d = 0 := by omega
      have hn : ¬ xs.length > maxElems := by have := hw.1; omega
      rw [decodeList_encodeList xs hw.2 f (d - 1) r (by omega) (by omega)]
      simp [hd0, hn]
    | .map kvs, f + 1 =>
      simp only [WF] at hw
      simp only [size] at hf
      simp only [depth] at hd
      obtain ⟨hl, hwp, hs, hh⟩ := hw
      have hlen : kvs.length < 18446744073709551616 := by unfold maxElems at hl; omega
      rw [encode_map_sorted hs]
      simp only [decode, List.append_assoc, decHead_head 5 kvs.length _ (by omega) hlen]
      have hd0 : ¬ d = 0 := by omega
      have hn : ¬ kvs.length > maxElems := by omega
      rw [decodePairs_encodePairs kvs hwp f (d - 1) r (by omega) (by omega)]
      simp [hd0, hn, nodupKeys_of_sorted hs, hh]
    | .tag t w, f + 1 =>
      simp only [WF, two64] at hw
      simp only [size] at hf
      simp only [depth] at hd
      simp only [encode, decode, List.append_assoc, decHead_head 6 t _ (by omega) hw.1, isTagHead_encode w hw.2.1 r]
      cases hit : isTag w with
      | true =>
        simp only [hit, if_true] at hd
        have hd0 : ¬ d = 0 := by omega
        simp only [if_true, true_and]
        rw [decode_encode w hw.2.1 f (d - 1) r (by omega) (by omega)]
        simp [hd0, hw.2.2]
      | false =>
        simp only [hit, Bool.false_eq_true, if_false, Nat.zero_add] at hd
        simp only [Bool.false_eq_true, if_false, false_and]
        rw [decode_encode w hw.2.1 f d r (by omega) hd]
        simp [hw.2.2]
    | .simple n, f + 1 =>
      simp only [WF] at hw
      have hn : n < 18446744073709551616 := by omega
      simp only [encode, decode, decHead_head 7 n r (by omega) hn, aiOf]
      rcases hw with h | ⟨h1, h2⟩
      · simp [h]
      · have a : ¬ n < 24 := by omega
        simp [a, h2, h1]
    | .float _ _, _ => simp [WF] at hw
    | .uint _, 0 => simp [size] at hf
    | .nint _, 0 => simp [size] at hf
    | .bstr _, 0 => simp [size] at hf
    | .tstr _, 0 => simp [size] at hf
    | .arr _, 0 => simp [size] at hf
    | .map _, 0 => simp [size] at hf
    | .tag _ _, 0 => simp [size] at hf
    | .simple _, 0 => simp [size] at hf
  theorem decodeList_encodeList (xs : List Cbor) (hw : WFList xs) (f d : Nat) (r : Bytes)
      (hf : sizeList xs ≤ f) (hd : depthList xs ≤ d) :
      decodeList f d xs.length (encodeList xs ++ r) = some (xs, r) := by
    match xs, f with
    | [], f + 1 => simp [decodeList, encodeList]
    | x :: xs, f + 1 =>
      simp only [WFList] at hw
      simp only [sizeList] at hf
      simp only [depthList] at hd
      simp only [encodeList, List.length_cons, decodeList, List.append_assoc]
      rw [decode_encode x hw.1 f d _ (by omega) (by omega)]
      simp only
      rw [decodeList_encodeList xs hw.2 f d r (by omega) (by omega)]
    | [], 0 => simp [sizeList] at hf
    | _ :: _, 0 => simp [sizeList] at hf
  theorem decodePairs_encodePairs (kvs : List (Cbor × Cbor)) (hw : WFPairs kvs) (f d : Nat) (r : Bytes)
      (hf : sizePairs kvs ≤ f) (hd : depthPairs kvs ≤ d) :
      decodePairs f d kvs.length (flattenPairs (encodePairs kvs) ++ r) = some (kvs, r) := by
    match kvs, f with
    | [], f + 1 => simp [decodePairs, encodePairs, flattenPairs]
    | (k, v) :: kvs, f + 1 =>
      simp only [WFPairs] at hw
      simp only [sizePairs] at hf
      simp only [depthPairs] at hd
      simp only [encodePairs, flattenPairs, List.length_cons, decodePairs, List.append_assoc]
      rw [decode_encode k hw.1 f d _ (by omega) (by omega)]
      simp only
      rw [decode_encode v hw.2.1 f d _ (by omega) (by omega)]
      simp only
      rw [decodePairs_encodePairs kvs hw.2.2 f d r (by omega) (by omega)]
    | [], 0 => simp [sizePairs] at hf
    | _ :: _, 0 => simp [sizePairs] at hf
end

end Cose.Cbor
