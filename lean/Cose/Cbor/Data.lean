import Cose.Bytes
/-!
# CBOR data items (RFC 8949), the fragment the library exchanges

Floats are outside the modelled universe (the decoder answers `none`, the driver reports `unmodelled`).
-/
namespace Cose.Cbor

inductive Cbor
  | uint (n : Nat)                    -- major type 0
  | nint (n : Nat)                    -- major type 1, denotes -1 - n
  | bstr (b : Bytes)                  -- major type 2
  | tstr (b : Bytes)                  -- major type 3 (UTF-8 bytes)
  | arr (xs : List Cbor)              -- major type 4
  | map (kvs : List (Cbor × Cbor))    -- major type 5
  | tag (t : Nat) (v : Cbor)          -- major type 6
  | simple (n : Nat)                  -- major type 7: 20 false, 21 true, 22 null, 23 undefined
  | float (ai : Nat) (bits : Nat)     -- major type 7, ai 25/26/27: raw bits (kept only so that the decoder's
                                      -- accepted language is right; values with floats are outside the theorems)
deriving Repr, Inhabited

def Cbor.null : Cbor := .simple 22
def Cbor.undefined : Cbor := .simple 23
def Cbor.bool (b : Bool) : Cbor := .simple (if b then 21 else 20)
/-- integers as CBOR -/
def Cbor.ofInt (i : Int) : Cbor := if i ≥ 0 then .uint i.toNat else .nint (-1 - i).toNat

end Cose.Cbor
