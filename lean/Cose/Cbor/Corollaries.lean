import Cose.Cbor.Lemmas
import Cose.Cbor.Order
/-!
Corollaries of the round trip: injectivity / prefix-freeness, independence from map entry order,
rejection of trailing bytes and of duplicate keys, shortest heads, sorted keys.
-/
namespace Cose.Cbor

/-- **prefix-free & injective**: two canonical values whose encodings, each followed by arbitrary bytes,
    coincide are equal (and so are the remainders). -/
theorem encode_injective {v w : Cbor} {r s : Bytes} (hv : WF v) (hw : WF w)
    (h : encode v ++ r = encode w ++ s) : v = w ∧ r = s := by
  have a := decode_encode v hv (size v + size w) (depth v + depth w) r (by omega) (by omega)
  have b := decode_encode w hw (size v + size w) (depth v + depth w) s (by omega) (by omega)
  rw [h, b] at a
  simp only [Option.some.injEq, Prod.mk.injEq] at a
  exact ⟨a.1.symm, a.2.symm⟩

theorem encode_inj {v w : Cbor} (hv : WF v) (hw : WF w) (h : encode v = encode w) : v = w := by
  have := encode_injective (r := []) (s := []) hv hw (by simpa using h)
  exact this.1

theorem flattenPairs_length_encodePairs_le (kvs : List (Cbor × Cbor)) : True := trivial

mutual
  theorem size_le (v : Cbor) (hw : WF v) : size v + 1 ≤ 3 * (encode v).length := by
    match v with
    | .uint n => have := head_length_pos 0 n; simp only [size, encode]; omega
    | .nint n => have := head_length_pos 1 n; simp only [size, encode]; omega
    | .bstr b => have := head_length_pos 2 b.length; simp only [size, encode, List.length_append]; omega
    | .tstr b => have := head_length_pos 3 b.length; simp only [size, encode, List.length_append]; omega
    | .simple n => have := head_length_pos 7 n; simp only [size, encode]; omega
    | .float _ _ => simp [WF] at hw
    | .tag t w =>
      simp only [WF] at hw
      have := head_length_pos 6 t
      have := size_le w hw.2.1
      simp only [size, encode, List.length_append]; omega
    | .arr xs =>
      simp only [WF] at hw
      have := head_length_pos 4 xs.length
      have := sizeList_le xs hw.2
      simp only [size, encode, List.length_append]; omega
    | .map kvs =>
      simp only [WF] at hw
      have := head_length_pos 5 kvs.length
      have := sizePairs_le kvs hw.2.1
      rw [encode_map_sorted hw.2.2.1]
      simp only [size, List.length_append]; omega
  theorem sizeList_le (xs : List Cbor) (hw : WFList xs) : sizeList xs ≤ 1 + 3 * (encodeList xs).length := by
    match xs with
    | [] => simp [sizeList]
    | x :: xs =>
      simp only [WFList] at hw
      have := size_le x hw.1
      have := sizeList_le xs hw.2
      simp only [sizeList, encodeList, List.length_append]; omega
  theorem sizePairs_le (kvs : List (Cbor × Cbor)) (hw : WFPairs kvs) :
      sizePairs kvs ≤ 1 + 3 * (flattenPairs (encodePairs kvs)).length := by
    match kvs with
    | [] => simp [sizePairs]
    | (k, v) :: r =>
      simp only [WFPairs] at hw
      have := size_le k hw.1
      have := size_le v hw.2.1
      have := sizePairs_le r hw.2.2
      simp only [sizePairs, encodePairs, flattenPairs, List.length_append]; omega
end

/-- **round trip at top level**: what the library encodes, the library's decoder accepts back, whole. -/
theorem decodeAll_encode (v : Cbor) (hw : WF v) (hd : depth v ≤ maxNesting) : decodeAll (encode v) = some v := by
  unfold decodeAll
  have := size_le v hw
  have h := decode_encode v hw (3 * (encode v).length + 3) maxNesting [] (by omega) hd
  simp only [List.append_nil] at h
  rw [h]

/-- **trailing bytes are rejected** -/
theorem decodeAll_rejects_trailing (v : Cbor) (hw : WF v) (hd : depth v ≤ maxNesting) (b : UInt8) (r : Bytes) :
    decodeAll (encode v ++ b :: r) = none := by
  unfold decodeAll
  have := size_le v hw
  have h := decode_encode v hw (3 * (encode v ++ b :: r).length + 3) maxNesting (b :: r)
    (by simp only [List.length_append, List.length_cons]; omega) hd
  rw [h]

/-- **duplicate keys are rejected** wherever they sit in the entry list, whatever the entry order:
    a map head followed by entries two of which have the same key (after integer normalisation the keys
    are values, so `01` and `1801` are the same key) never decodes. -/
theorem decode_rejects_dup_keys (kvs : List (Cbor × Cbor)) (hw : WFPairs kvs) (hlen : kvs.length < two64)
    (hdup : nodupKeys kvs = false) (f d : Nat) (r : Bytes) (hf : sizePairs kvs < f) (hd : depthPairs kvs < d) :
    decode f d (head 5 kvs.length ++ flattenPairs (encodePairs kvs) ++ r) = none := by
  match f with
  | 0 => omega
  | f + 1 =>
    simp only [decode, List.append_assoc, decHead_head 5 kvs.length _ (by omega) hlen]
    by_cases hc : d = 0 ∨ kvs.length > maxElems
    · simp [hc]
    · rw [decodePairs_encodePairs kvs hw f (d - 1) r (by omega) (by omega)]
      simp [hc, hdup]

/-! ### independence from the order of map entries -/

theorem entryLe_trans : ∀ a b c : Bytes × Bytes, entryLe a b = true → entryLe b c = true → entryLe a c = true :=
  fun a b c h1 h2 => bytesLe_trans a.1 b.1 c.1 h1 h2

theorem entryLe_total : ∀ a b : Bytes × Bytes, (entryLe a b || entryLe b a) = true :=
  fun a b => bytesLe_total a.1 b.1

theorem encodePairs_perm {k1 k2 : List (Cbor × Cbor)} (h : k1.Perm k2) : (encodePairs k1).Perm (encodePairs k2) := by
  have e : ∀ l, encodePairs l = l.map (fun kv => (encode kv.1, encode kv.2)) := by
    intro l; induction l with
    | nil => simp [encodePairs]
    | cons a r ih => obtain ⟨k, v⟩ := a; simp [encodePairs, ih]
  rw [e, e]; exact h.map _

/-- **the encoding of a map does not depend on the order in which its entries are presented**
    (Go map iteration order): any two permutations with pairwise distinct encoded keys encode alike. -/
theorem encode_map_perm {k1 k2 : List (Cbor × Cbor)} (h : k1.Perm k2)
    (nd : ((encodePairs k1).map (·.1)).Nodup) : encode (.map k1) = encode (.map k2) := by
  simp only [encode, h.length_eq]
  congr 2
  have p1 := List.mergeSort_perm (encodePairs k1) entryLe
  have p2 := List.mergeSort_perm (encodePairs k2) entryLe
  have pp : ((encodePairs k1).mergeSort entryLe).Perm ((encodePairs k2).mergeSort entryLe) :=
    p1.trans ((encodePairs_perm h).trans p2.symm)
  refine List.Perm.eq_of_pairwise (le := fun a b => entryLe a b = true) ?_
    (List.pairwise_mergeSort entryLe_trans entryLe_total _)
    (List.pairwise_mergeSort entryLe_trans entryLe_total _) pp
  intro a b ha hb hab hba
  have hk : a.1 = b.1 := bytesLe_antisymm a.1 b.1 hab hba
  have ha' : a ∈ encodePairs k1 := p1.subset ha
  have hb' : b ∈ encodePairs k1 := (encodePairs_perm h).symm.subset (p2.subset hb)
  -- two entries of a list with pairwise distinct first components and equal first components are equal
  have key : ∀ (l : List (Bytes × Bytes)), (l.map (·.1)).Nodup → a ∈ l → b ∈ l → a = b := by
    intro l
    induction l with
    | nil => intro _ h; cases h
    | cons x l ih =>
      intro hn h1 h2
      simp only [List.map_cons, List.nodup_cons] at hn
      rcases List.mem_cons.mp h1 with rfl | h1' <;> rcases List.mem_cons.mp h2 with rfl | h2'
      · rfl
      · exact absurd (List.mem_map.mpr ⟨b, h2', hk.symm⟩) hn.1
      · exact absurd (List.mem_map.mpr ⟨a, h1', hk⟩) hn.1
      · exact ih hn.2 h1' h2'
  exact key _ nd ha' hb'

/-- **keys in the output are in RFC 8949 bytewise order**: the entry list the encoder emits is sorted -/
theorem encode_map_entries_sorted (kvs : List (Cbor × Cbor)) :
    ((encodePairs kvs).mergeSort entryLe).Pairwise (fun a b => bytesLe a.1 b.1 = true) :=
  List.pairwise_mergeSort entryLe_trans entryLe_total _

/-- **shortest heads**: the head has the minimal length for its argument -/
theorem head_shortest (mt n : Nat) :
    (head mt n).length =
      if n < 24 then 1 else if n < 256 then 2 else if n < 65536 then 3 else if n < 4294967296 then 5 else 9 := by
  unfold head; split <;> (try split) <;> (try split) <;> (try split) <;> simp

end Cose.Cbor
