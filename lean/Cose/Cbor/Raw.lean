import Cose.Cbor.Decode
/-!
# Raw item boundaries (for code that inspects the first byte of a nested item, e.g. `Recipient.UnmarshalCBOR`)
-/
namespace Cose.Cbor

/-- fxamacker's `validBuiltinTag`, on the head that follows a tag number: tag 0 needs a text string, tag 1 an integer or
    float, tags 2 and 3 a byte string (the raw counterpart of `tagContentOk`) -/
def rawTagContentOk (t : Nat) (r : Bytes) : Bool :=
  match decHead r with
  | none => false
  | some (mt, ai, _, _) =>
    if t = 0 then mt == 3
    else if t = 1 then mt == 0 || mt == 1 || (mt == 7 && (ai == 25 || ai == 26 || ai == 27))
    else if t = 2 ∨ t = 3 then mt == 2
    else true

mutual
  /-- skip one well-formed definite-length item: the remaining bytes -/
  def skipItem : Nat → Bytes → Option Bytes
    | 0, _ => none
    | f + 1, bs =>
      match decHead bs with
      | none => none
      | some (mt, ai, n, r) =>
        if mt = 0 ∨ mt = 1 then some r
        else if mt = 7 then (if ai = 24 ∧ n < 32 then none else some r)
        else if mt = 2 ∨ mt = 3 then (if n ≤ r.length then some (r.drop n) else none)
        else if mt = 4 then skipItems f n r
        else if mt = 5 then skipItems f (2 * n) r
        else skipItem f r     -- skipped members are only checked for well-formedness: built-in tags inside are not validated
  def skipItems : Nat → Nat → Bytes → Option Bytes
    | 0, _, _ => none
    | _ + 1, 0, bs => some bs
    | f + 1, k + 1, bs =>
      match skipItem f bs with
      | none => none
      | some r => skipItems f k r
end

/-- split `k` consecutive items off the front of `bs`: their raw encodings -/
def takeItems : Nat → Nat → Bytes → Option (List Bytes)
  | _, 0, _ => some []
  | f, k + 1, bs =>
    match skipItem f bs with
    | none => none
    | some r =>
      match takeItems f k r with
      | none => none
      | some rest => some (bs.take (bs.length - r.length) :: rest)

/-- strip any enclosing tags from a raw item -/
def rawUntag : Nat → Bytes → Bytes
  | 0, bs => bs
  | f + 1, bs =>
    match decHead bs with
    | some (6, _, _, r) => rawUntag f r
    | _ => bs

/-- the built-in tags among the enclosing tags carry admissible content -/
def rawTagsOk : Nat → Bytes → Bool
  | 0, _ => true
  | f + 1, bs =>
    match decHead bs with
    | some (6, _, t, r) => rawTagContentOk t r && rawTagsOk f r
    | _ => true

/-- the raw encodings of the elements of a (possibly tagged) array item; `none` if it is not an array -/
def rawArrayElems (bs : Bytes) : Option (List Bytes) :=
  let b := rawUntag 64 bs
  match decHead b with
  | some (4, _, n, r) => takeItems (3 * bs.length + 3) n r
  | _ => none

end Cose.Cbor
