import Cose.Cbor.Data
/-!
# Deterministic CBOR encoding (RFC 8949 §4.2.1): shortest heads, definite lengths,
# map entries ordered by the bytewise lexicographic order of their encoded keys.
This is what `cbor.EncOptions{Sort: SortBytewiseLexical, IndefLength: Forbidden}` produces.
-/
namespace Cose.Cbor

def u8 (n : Nat) : UInt8 := UInt8.ofNat n

/-- head: major type `mt` (0..7) and argument `n` (< 2^64), shortest form -/
def head (mt n : Nat) : Bytes :=
  if n < 24 then [u8 (mt * 32 + n)]
  else if n < 256 then [u8 (mt * 32 + 24), u8 n]
  else if n < 65536 then [u8 (mt * 32 + 25), u8 (n / 256), u8 (n % 256)]
  else if n < 4294967296 then
    [u8 (mt * 32 + 26), u8 (n / 16777216), u8 (n / 65536 % 256), u8 (n / 256 % 256), u8 (n % 256)]
  else
    [u8 (mt * 32 + 27), u8 (n / 72057594037927936), u8 (n / 281474976710656 % 256),
     u8 (n / 1099511627776 % 256), u8 (n / 4294967296 % 256), u8 (n / 16777216 % 256),
     u8 (n / 65536 % 256), u8 (n / 256 % 256), u8 (n % 256)]

/-- bytewise lexicographic order on byte strings (a proper prefix sorts first) -/
def bytesLe : Bytes → Bytes → Bool
  | [], _ => true
  | _ :: _, [] => false
  | a :: as, b :: bs => if a < b then true else if b < a then false else bytesLe as bs

def bytesLt (a b : Bytes) : Bool := bytesLe a b && !(a == b)

/-- order of encoded map entries: by encoded key -/
def entryLe (x y : Bytes × Bytes) : Bool := bytesLe x.1 y.1

def flattenPairs : List (Bytes × Bytes) → Bytes
  | [] => []
  | (k, v) :: r => k ++ v ++ flattenPairs r

mutual
  def encode : Cbor → Bytes
    | .uint n => head 0 n
    | .nint n => head 1 n
    | .bstr b => head 2 b.length ++ b
    | .tstr b => head 3 b.length ++ b
    | .arr xs => head 4 xs.length ++ encodeList xs
    | .map kvs => head 5 kvs.length ++ flattenPairs ((encodePairs kvs).mergeSort entryLe)
    | .tag t v => head 6 t ++ encode v
    | .simple n => head 7 n
    | .float ai bits =>
      if ai = 25 then [u8 (7 * 32 + 25), u8 (bits / 256), u8 (bits % 256)]
      else if ai = 26 then [u8 (7 * 32 + 26), u8 (bits / 16777216), u8 (bits / 65536 % 256), u8 (bits / 256 % 256), u8 (bits % 256)]
      else [u8 (7 * 32 + 27), u8 (bits / 72057594037927936), u8 (bits / 281474976710656 % 256),
            u8 (bits / 1099511627776 % 256), u8 (bits / 4294967296 % 256), u8 (bits / 16777216 % 256),
            u8 (bits / 65536 % 256), u8 (bits / 256 % 256), u8 (bits % 256)]
  def encodeList : List Cbor → Bytes
    | [] => []
    | x :: xs => encode x ++ encodeList xs
  def encodePairs : List (Cbor × Cbor) → List (Bytes × Bytes)
    | [] => []
    | (k, v) :: r => (encode k, encode v) :: encodePairs r
end

end Cose.Cbor
