/-!
# The fragment of Go's `time.Time` used by `cwt.Validator`

A `time.Time` without monotonic reading is (ext seconds since year 1 as int64, nanoseconds in [0,1e9)).
`time.Unix(sec, 0)` stores `sec + 62135596800` **wrapped to int64**; `Add` saturates; `After` compares
seconds then nanoseconds; `IsZero` is `sec = 0 ∧ nsec = 0`.  (Go 1.23 `time/time.go`.)
-/
namespace Cose.Cwt

def two63 : Int := 9223372036854775808
def two64 : Int := 18446744073709551616

/-- two's-complement wrap of an integer into int64 -/
def wrap64 (x : Int) : Int := (x + two63) % two64 - two63

def unixToInternal : Int := 62135596800
def nsPerSec : Int := 1000000000

structure GoTime where
  sec : Int
  nsec : Int
deriving Repr, DecidableEq

namespace GoTime

def zero : GoTime := ⟨0, 0⟩

/-- `time.Unix(s, 0)` for an int64 `s` -/
def unix (s : Int) : GoTime := ⟨wrap64 (s + unixToInternal), 0⟩

def isZero (t : GoTime) : Bool := t.sec == 0 && t.nsec == 0

/-- `t.After(u)` (no monotonic readings) -/
def after (t u : GoTime) : Bool := decide (t.sec > u.sec) || (t.sec == u.sec && decide (t.nsec > u.nsec))

/-- Go's truncated integer division and remainder by a positive constant -/
def goDiv (d k : Int) : Int := if d ≥ 0 then d / k else -((-d) / k)
def goMod (d k : Int) : Int := d - k * goDiv d k

/-- `Time.addSec` for a Time without monotonic reading: saturating -/
def addSec (ext d : Int) : Int :=
  let sum := wrap64 (ext + d)
  if (decide (sum > ext)) == (decide (d > 0)) then sum
  else if d > 0 then two63 - 1 else -(two63 - 1)

/-- `t.Add(d)` for an int64 duration `d` in nanoseconds -/
def add (t : GoTime) (d : Int) : GoTime :=
  let dsec := goDiv d nsPerSec
  let nsec := t.nsec + goMod d nsPerSec
  if nsec ≥ nsPerSec then ⟨addSec t.sec (dsec + 1), nsec - nsPerSec⟩
  else if nsec < 0 then ⟨addSec t.sec (dsec - 1), nsec + nsPerSec⟩
  else ⟨addSec t.sec dsec, nsec⟩

/-- the instant as an exact number of nanoseconds since year 1 -/
def ns (t : GoTime) : Int := t.sec * nsPerSec + t.nsec

/-- well-formed: nanoseconds normalised -/
def WF (t : GoTime) : Prop := 0 ≤ t.nsec ∧ t.nsec < nsPerSec

end GoTime
end Cose.Cwt
