import Cose.Go.Roundtrip
import Cose.Cwt.Validator
import Cose.Gen.Iana
/-!
# What `ValidateMap` sees of a claims map, and its invariance under the CBOR round trip
-/
namespace Cose.Cwt
open Cose.Go Cose.Spec.Rfc8392

/-- `Has` + `GetUint64` on a time claim -/
def timeView : Option GoVal → TimeClaim
  | none => .absent
  | some v => match getUint64 (some v) with
    | .ok n => .secs n.toNat
    | _ => .invalid

/-- `Has` + `GetString` on a text claim -/
def textView : Option GoVal → TextClaim
  | none => .absent
  | some v => match getString (some v) with
    | .ok s => .text (String.fromUTF8! (ByteArray.mk s.toArray))
    | _ => .invalid

def lblC (i : Int) : Label := .int i

/-- the claims `ValidateMap` looks at -/
def claimsView (m : CMap) : Claims :=
  { exp := timeView (m.lookup (lblC Cose.Gen.Iana.CWTClaimExp))
    nbf := timeView (m.lookup (lblC Cose.Gen.Iana.CWTClaimNbf))
    iat := timeView (m.lookup (lblC Cose.Gen.Iana.CWTClaimIat))
    iss := textView (m.lookup (lblC Cose.Gen.Iana.CWTClaimIss))
    aud := textView (m.lookup (lblC Cose.Gen.Iana.CWTClaimAud)) }

theorem getUint64_normInt (k : IntKind) (v : Int) (hk : k.signed = false → 0 ≤ v) :
    getUint64 (some (normInt v)) = getUint64 (some (.int k v)) := by
  unfold normInt
  by_cases hv : v ≥ 0
  · simp only [hv, if_true]
    cases k <;> simp [getUint64, IntKind.signed, hv]
  · simp only [hv, if_false]
    cases k <;> first | (exact absurd (hk rfl) hv) | (simp [getUint64, IntKind.signed, hv])

theorem getUint64_normV {v : GoVal} (h : Flat v) : getUint64 (some (normV v)) = getUint64 (some v) := by
  cases h with
  | scalar v hs =>
    cases hs with
    | int k v h hk => rw [normV_int]; exact getUint64_normInt k v hk
    | bytes b h => rfl
    | bnil => rfl
    | bstr b h => rfl
    | str s h => rfl
    | bool b => rfl
    | nil => rfl
  | ints xs h hl => rfl
  | ops xs h hl => rfl
  | list xs h hl => rfl

theorem timeView_normV {v : GoVal} (h : Flat v) : timeView (some (normV v)) = timeView (some v) := by
  show (match getUint64 (some (normV v)) with | .ok n => TimeClaim.secs n.toNat | _ => .invalid) = _
  rw [getUint64_normV h]; rfl

theorem textView_normV {v : GoVal} (h : Flat v) : textView (some (normV v)) = textView (some v) := by
  show (match getString (some (normV v)) with
    | .ok s => TextClaim.text (String.fromUTF8! (ByteArray.mk s.toArray)) | _ => .invalid) = _
  rw [getString_normV h]; rfl

/-- **the validator cannot tell a decoded claims map from the original**: if every look-up in `m'` is the decoded form of
    the look-up in `m` (what `cmap_roundtrip` provides), `ValidateMap` sees the same claims, hence decides the same -/
theorem claimsView_roundtrip (m m' : CMap) (hok : ∀ kv ∈ m, EntryOk kv) (hnd : (m.map (·.1)).Nodup)
    (hl : ∀ l, m'.lookup l = (m.lookup l).map normV) : claimsView m' = claimsView m := by
  have flat : ∀ l v, m.lookup l = some v → Flat v := fun l v h => (hok (l, v) ((lookup_eq_some_iff m l v hnd).mp h)).2
  have tv : ∀ l, timeView (m'.lookup l) = timeView (m.lookup l) := by
    intro l; rw [hl l]
    cases h : m.lookup l with
    | none => rfl
    | some v => exact timeView_normV (flat l v h)
  have xv : ∀ l, textView (m'.lookup l) = textView (m.lookup l) := by
    intro l; rw [hl l]
    cases h : m.lookup l with
    | none => rfl
    | some v => exact textView_normV (flat l v h)
  unfold claimsView
  rw [tv, tv, tv, xv, xv]

theorem validateMap_roundtrip (o : VOpts) (m m' : CMap) (hok : ∀ kv ∈ m, EntryOk kv) (hnd : (m.map (·.1)).Nodup)
    (hl : ∀ l, m'.lookup l = (m.lookup l).map normV) :
    validateMap o (claimsView m') = validateMap o (claimsView m) := by
  rw [claimsView_roundtrip m m' hok hnd hl]

/-- **the verdict does not depend on the order in which the map presents its claims**, nor on what else it holds:
    two maps with pairwise distinct labels that answer the five registered look-ups alike are validated alike — in
    particular any permutation of one map (Go's map iteration order), with any number of application claims under
    text or other integer labels in between -/
theorem validateMap_order_independent (o : VOpts) (m m' : CMap) (hp : m'.Perm m) (hnd : (m.map (·.1)).Nodup) :
    validateMap o (claimsView m') = validateMap o (claimsView m) := by
  have hl : ∀ l, m'.lookup l = m.lookup l := fun l => lookup_perm hp hnd l
  unfold claimsView
  simp only [hl]

theorem validateMap_ignores_other_claims (o : VOpts) (m : CMap) (l : Label) (v : GoVal)
    (hl : l ≠ lblC Cose.Gen.Iana.CWTClaimExp ∧ l ≠ lblC Cose.Gen.Iana.CWTClaimNbf ∧ l ≠ lblC Cose.Gen.Iana.CWTClaimIat ∧
      l ≠ lblC Cose.Gen.Iana.CWTClaimIss ∧ l ≠ lblC Cose.Gen.Iana.CWTClaimAud) :
    validateMap o (claimsView (m ++ [(l, v)])) = validateMap o (claimsView m) := by
  have key : ∀ l', l' ≠ l → (m ++ [(l, v)]).lookup l' = m.lookup l' := by
    intro l' hne
    unfold CMap.lookup
    rw [List.find?_append]
    cases hf : m.find? (fun kv => kv.1 == l') with
    | some kv => rfl
    | none =>
      have : ((l, v).1 == l') = false := by
        simp only [beq_eq_false_iff_ne, ne_eq]; exact fun e => hne e.symm
      simp [this]
  unfold claimsView
  rw [key _ (Ne.symm hl.1), key _ (Ne.symm hl.2.1), key _ (Ne.symm hl.2.2.1), key _ (Ne.symm hl.2.2.2.1), key _ (Ne.symm hl.2.2.2.2)]

end Cose.Cwt
