import Cose.Msg.Model
import Cose.Cbor.Raw
/-! # `cwt.Claims` (struct with `keyasint,omitempty` members) and its CBOR codec -/
namespace Cose.Cwt
open Cose.Go Cose.Cbor Cose.Msg

structure ClaimsS where
  iss : Bytes
  sub : Bytes
  aud : Bytes
  exp : Nat
  nbf : Nat
  iat : Nat
  cti : Option Bytes
deriving Repr

/-- the map a Claims struct encodes to: zero-valued members are omitted -/
def ClaimsS.toCbor (c : ClaimsS) : Cbor :=
  .map ((if c.iss.isEmpty then [] else [(Cbor.uint 1, Cbor.tstr c.iss)]) ++
        (if c.sub.isEmpty then [] else [(Cbor.uint 2, Cbor.tstr c.sub)]) ++
        (if c.aud.isEmpty then [] else [(Cbor.uint 3, Cbor.tstr c.aud)]) ++
        (if c.exp == 0 then [] else [(Cbor.uint 4, Cbor.uint c.exp)]) ++
        (if c.nbf == 0 then [] else [(Cbor.uint 5, Cbor.uint c.nbf)]) ++
        (if c.iat == 0 then [] else [(Cbor.uint 6, Cbor.uint c.iat)]) ++
        (match c.cti with | some (x :: r) => [(Cbor.uint 7, Cbor.bstr (x :: r))] | _ => []))

def strField (c : Cbor) : Dec Bytes :=
  match untag c with
  | .tstr s => .ok s
  | .simple 22 => .ok []
  | .simple 23 => .ok []
  | _ => .err

/-- bignum tags (2, 3) are converted by fxamacker when the destination is an integer: outside the model -/
def hasBignumTag : Cbor → Bool
  | .tag t v => t == 2 || t == 3 || hasBignumTag v
  | _ => false

def u64Field (c : Cbor) : Dec Nat :=
  if hasBignumTag c then .unmodelled else
  match untag c with
  | .uint n => .ok n
  | .simple 22 => .ok 0
  | .simple 23 => .ok 0
  | .simple 20 => .err
  | .simple 21 => .err
  | .simple n => .ok n           -- fxamacker fills integer targets from the other simple values (f0 ↦ 16, f880 ↦ 128)
  | .float _ _ => .unmodelled
  | _ => .err

inductive ClaimKey
  | int (i : Int)
  | text (s : Bytes)

/-- struct decoding looks at map keys that are integers (within int64) or text; any other key type is an error -/
def claimKey (raw : Bytes) : Option (Option ClaimKey × Bytes) :=
  match decodeAll raw with
  | some (.uint n) => some (if n < 9223372036854775808 then some (.int n) else none, encode (.uint n))
  | some (.nint n) => if n < 9223372036854775808 then some (some (.int (-1 - (n : Int))), encode (.nint n)) else none
  | some (.tstr s) => some (some (.text s), encode (.tstr s))
  | _ => none

/-- the decoded key of a member is the integer label `l` -/
def keyIs (l : Int) (t : Option ClaimKey × Bytes × Bytes) : Bool :=
  match t.1 with | some (.int i) => i == l | _ => false

/-- one typed member: absent ↦ the zero value, present ↦ decoded strictly -/
def fieldOf {α} (raw : Option Bytes) (zero : α) (f : Cbor → Dec α) : Dec α :=
  match raw with
  | none => .ok zero
  | some raw => (match decodeAll raw with | some c => f c | none => .err)

def splitPairs : List Bytes → Option (List (Bytes × Bytes))
  | [] => some []
  | [_] => none
  | k :: v :: r => (splitPairs r).map ((k, v) :: ·)

/-- decoding into the struct: the input must be a well-formed map whose keys are integers or text, without
    duplicate keys; members 1..7 are decoded (strictly) into their typed fields, every other member is skipped
    (only its well-formedness matters) -/
def claimsDecode (data : Bytes) : Dec ClaimsS :=
  if !rawTagsOk 64 data then .err else
  let b := rawUntag 64 data
  match decHead b with
  | some (7, _, 22, []) => .ok ⟨[], [], [], 0, 0, 0, none⟩
  | some (7, _, 23, []) => .ok ⟨[], [], [], 0, 0, 0, none⟩
  | some (5, _, n, r) =>
    if n > maxElems then .err else
    (match takeItems (3 * data.length + 3) (2 * n) r with
     | none => .err
     | some items =>
       -- nothing may follow the map
       if (items.foldl (fun acc i => acc + i.length) 0) != r.length then .err else
       match splitPairs items with
       | none => .err
       | some pairs =>
         (match pairs.mapM (fun kv => (claimKey kv.1).map (fun ck => (ck.1, ck.2, kv.2))) with
          | none => .err
          | some keyed =>
            if !decide ((keyed.map (·.2.1)).Nodup) then .err else
            let get (l : Int) : Option Bytes :=
              (keyed.find? (keyIs l)).map (·.2.2)
            let field {α} (l : Int) (zero : α) (f : Cbor → Dec α) : Dec α := fieldOf (get l) zero f
            (match field 1 [] strField, field 2 [] strField, field 3 [] strField,
                   field 4 0 u64Field, field 5 0 u64Field, field 6 0 u64Field, field 7 none bytesField with
             | .ok a, .ok b', .ok c, .ok d, .ok e, .ok f, .ok g => .ok ⟨a, b', c, d, e, f, g⟩
             | .err, _, _, _, _, _, _ => .err
             | _, .err, _, _, _, _, _ => .err
             | _, _, .err, _, _, _, _ => .err
             | _, _, _, .err, _, _, _ => .err
             | _, _, _, _, .err, _, _ => .err
             | _, _, _, _, _, .err, _ => .err
             | _, _, _, _, _, _, .err => .err
             | _, _, _, _, _, _, _ => .unmodelled)))
  | _ => .err

end Cose.Cwt
