import Cose.Cwt.Validator
namespace Cose.Cwt
open GoTime

theorem wrap64_id {x : Int} (h1 : -9223372036854775808 ≤ x) (h2 : x < 9223372036854775808) : wrap64 x = x := by
  unfold wrap64 two63 two64; omega

/-- the generated guard, resolved -/
theorem cmpOf_toTime : cmpOf "cwt.toTime" "u" = some (">", 9223371974719179007) := by decide +kernel

theorem toTimeGuard_eq (u : Nat) : toTimeGuard u = decide ((u : Int) > 9223371974719179007) := by
  unfold toTimeGuard; rw [cmpOf_toTime]; simp [evalCmp]

theorem maxSkewMinutes_eq : maxSkewMinutes = 10 := by decide +kernel

/-- NumericDates up to the guard are converted without wrap-around -/
theorem toTime_small {u : Nat} (h : u ≤ 9223371974719179007) :
    toTime u = ⟨(u : Int) + 62135596800, 0⟩ := by
  unfold toTime
  rw [toTimeGuard_eq]
  have : ¬ ((u : Int) > 9223371974719179007) := by omega
  simp only [this, decide_false, Bool.false_eq_true, if_false]
  unfold GoTime.unix unixToInternal
  rw [wrap64_id (x := (u : Int)) (by omega) (by omega), wrap64_id (by omega) (by omega)]

theorem toTime_large {u : Nat} (h : u > 9223371974719179007) : toTime u = GoTime.zero := by
  unfold toTime
  rw [toTimeGuard_eq]
  have : ((u : Int) > 9223371974719179007) := by omega
  simp [this]

/-- `now` within ±2^62 seconds of year 1, so that adding any skew of at most ±2^33 s cannot saturate -/
def NowInRange (t : GoTime) : Prop := -4611686018427387904 < t.sec ∧ t.sec < 4611686018427387904

theorem addSec_exact {ext d : Int} (h1 : -4611686018427387904 < ext) (h2 : ext < 4611686018427387904)
    (h3 : -9223372038 < d) (h4 : d < 9223372038) : addSec ext d = ext + d := by
  unfold addSec
  simp only
  rw [wrap64_id (by omega) (by omega)]
  by_cases hd : d > 0
  · have : ext + d > ext := by omega
    simp [hd, this]
  · have : ¬ (ext + d > ext) := by omega
    simp [hd, this]

/-- `Add` is exact on the nanosecond time line, and keeps the time well-formed -/
theorem add_exact {t : GoTime} {d : Int} (hr : NowInRange t) (hwf : t.WF)
    (hd1 : -9223372036854775808 ≤ d) (hd2 : d < 9223372036854775808) :
    (t.add d).ns = t.ns + d ∧ (t.add d).WF := by
  obtain ⟨hr1, hr2⟩ := hr
  obtain ⟨hw1, hw2⟩ := hwf
  unfold nsPerSec at hw2
  unfold GoTime.add GoTime.ns GoTime.WF nsPerSec goMod goDiv
  by_cases hd : d ≥ 0
  · simp only [hd, if_true]
    split
    · rename_i h
      simp only
      rw [addSec_exact hr1 hr2 (by omega) (by omega)]
      constructor <;> omega
    · split
      · rename_i h h'
        simp only
        rw [addSec_exact hr1 hr2 (by omega) (by omega)]
        constructor <;> omega
      · rename_i h h'
        simp only
        rw [addSec_exact hr1 hr2 (by omega) (by omega)]
        constructor <;> omega
  · simp only [hd, if_false]
    split
    · rename_i h
      simp only
      rw [addSec_exact hr1 hr2 (by omega) (by omega)]
      constructor <;> omega
    · split
      · rename_i h h'
        simp only
        rw [addSec_exact hr1 hr2 (by omega) (by omega)]
        constructor <;> omega
      · rename_i h h'
        simp only
        rw [addSec_exact hr1 hr2 (by omega) (by omega)]
        constructor <;> omega

/-- `After` is comparison on the nanosecond time line for well-formed times -/
theorem after_iff {t u : GoTime} (ht : t.WF) (hu : u.WF) : t.after u = decide (t.ns > u.ns) := by
  obtain ⟨a1, a2⟩ := ht
  obtain ⟨b1, b2⟩ := hu
  unfold nsPerSec at a2 b2
  unfold GoTime.after GoTime.ns nsPerSec
  by_cases h1 : t.sec > u.sec
  · have : t.sec * 1000000000 + t.nsec > u.sec * 1000000000 + u.nsec := by omega
    simp [h1, this]
  · by_cases h2 : t.sec = u.sec
    · simp [h2]
    · have h3 : t.sec < u.sec := by omega
      have : ¬ (t.sec * 1000000000 + t.nsec > u.sec * 1000000000 + u.nsec) := by omega
      simp [h1, h2, this]

end Cose.Cwt
