import Cose.Cwt.Time
import Cose.Gen.Tables
import Cose.Spec.Rfc8392
/-!
# Model of `cwt.Validator` (mirror of /repo/cwt/validator.go)

`toTime`'s guard and the skew cap are **read from the generated tables** (`Gen.Tables.cmpConsts`,
`Gen.Tables.pkgConsts`), so the theorems in `Props/C18.lean` are re-checked against the constants
the code holds now.
-/
namespace Cose.Cwt
open Cose.Spec.Rfc8392 (TimeClaim TextClaim Claims)

/-- look up a (lhs, op, value) comparison of a function in the generated inventory -/
def cmpOf (fn lhs : String) : Option (String × Int) :=
  match Cose.Gen.Tables.cmpConsts.lookup fn with
  | none => none
  | some l => (l.find? (fun t => t.1 == lhs)).map (fun t => (t.2.1, t.2.2))

def evalCmp (op : String) (x c : Int) : Bool :=
  if op == ">" then decide (x > c) else if op == ">=" then decide (x ≥ c)
  else if op == "<" then decide (x < c) else if op == "<=" then decide (x ≤ c)
  else if op == "==" then decide (x = c) else if op == "!=" then decide (x ≠ c) else false

/-- the guard of `toTime`, as the code has it now:  `if u <op> <const> { return time.Time{} }` -/
def toTimeGuard (u : Nat) : Bool :=
  match cmpOf "cwt.toTime" "u" with
  | some (op, c) => evalCmp op u c
  | none => false

/-- `func toTime(u uint64) time.Time` -/
def toTime (u : Nat) : GoTime :=
  if toTimeGuard u then GoTime.zero else GoTime.unix (wrap64 u)

/-- `cwtMaxClockSkewMinutes` -/
def maxSkewMinutes : Int :=
  match (Cose.Gen.Tables.pkgConsts.find? (fun t => t.1 == "cwt" && t.2.1 == "cwtMaxClockSkewMinutes")) with
  | some t => t.2.2
  | none => 0

/-- validator options; `now` is `FixedNow` (must be non-zero, otherwise the code reads the wall clock) -/
structure VOpts where
  expectedIssuer : String
  expectedAudience : String
  allowMissingExpiration : Bool
  expectIssuedInThePast : Bool
  skew : Int
  now : GoTime
deriving Repr

/-- `NewValidator`: `opts.ClockSkew.Minutes() > cwtMaxClockSkewMinutes` refuses.
    `Duration.Minutes()` is `float64(d/Minute) + float64(d%Minute)/6e10`; for int64 `d` this exceeds an
    integer bound `m` exactly when `d > m` minutes (float rounding cannot cross the integer: the
    fractional part is at least 1.6e-11 away from it, far above float64 spacing near 10). -/
def newValidatorOk (o : VOpts) : Bool := !decide (o.skew > maxSkewMinutes * 60000000000)

inductive Reject
  | noExp | badExp | expired | badNbf | notYet | badIat | iatFuture | badIss | issMismatch | badAud | audMismatch
deriving Repr, DecidableEq

inductive Verdict
  | ok
  | err (r : Reject)
deriving Repr, DecidableEq

/-- the typed struct `cwt.Claims` (only the validated fields) -/
structure SClaims where
  issuer : String
  audience : String
  exp : Nat
  nbf : Nat
  iat : Nat
deriving Repr

/-- int64 negation (wraps at MinInt64) -/
def neg64 (d : Int) : Int := wrap64 (-d)

/-- first failing stage, in source order -/
def firstErr : List (Option Reject) → Verdict
  | [] => .ok
  | none :: r => firstErr r
  | some v :: _ => .err v

def notBeforeFails (o : VOpts) (n : Nat) : Bool :=
  (toTime n).isZero || (toTime n).after (o.now.add o.skew)

/-- `(*Validator).Validate`: the five checks in source order -/
def validate (o : VOpts) (c : SClaims) : Verdict :=
  firstErr [
    if c.exp == 0 && !o.allowMissingExpiration then some .noExp
    else if c.exp > 0 && !(toTime c.exp).after (o.now.add (neg64 o.skew)) then some .expired else none,
    if c.nbf > 0 && notBeforeFails o c.nbf then some .notYet else none,
    if c.iat > 0 && o.expectIssuedInThePast && notBeforeFails o c.iat then some .iatFuture else none,
    if o.expectedIssuer != "" && o.expectedIssuer != c.issuer then some .issMismatch else none,
    if o.expectedAudience != "" && o.expectedAudience != c.audience then some .audMismatch else none ]

def stageExp (o : VOpts) : TimeClaim → Option Reject
  | .absent => if !o.allowMissingExpiration then some .noExp else none
  | .invalid => some .badExp
  | .secs e => if !(toTime e).after (o.now.add (neg64 o.skew)) then some .expired else none

def stageNbf (o : VOpts) : TimeClaim → Option Reject
  | .absent => none
  | .invalid => some .badNbf
  | .secs n => if notBeforeFails o n then some .notYet else none

def stageIat (o : VOpts) : TimeClaim → Option Reject
  | .absent => none
  | .invalid => some .badIat
  | .secs i => if i > 0 && o.expectIssuedInThePast && notBeforeFails o i then some .iatFuture else none

/-- `GetString` gives "" for a missing key -/
def stageText (bad mismatch : Reject) (expected : String) : TextClaim → Option Reject
  | .invalid => some bad
  | .absent => if expected != "" && expected != "" then some mismatch else none
  | .text s => if expected != "" && expected != s then some mismatch else none

/-- `(*Validator).ValidateMap` over the abstract view of a `ClaimsMap`
    (`GetUint64` ok ↦ `secs`, error ↦ `invalid`, key missing ↦ `absent`; same for `GetString`). -/
def validateMap (o : VOpts) (c : Claims) : Verdict :=
  firstErr [stageExp o c.exp, stageNbf o c.nbf, stageIat o c.iat,
    stageText .badIss .issMismatch o.expectedIssuer c.iss,
    stageText .badAud .audMismatch o.expectedAudience c.aud]

/-- the map a typed `Claims` struct encodes to (`omitempty`: zero values are left out) -/
def SClaims.toMap (c : SClaims) : Claims :=
  { exp := if c.exp == 0 then .absent else .secs c.exp
    nbf := if c.nbf == 0 then .absent else .secs c.nbf
    iat := if c.iat == 0 then .absent else .secs c.iat
    iss := if c.issuer == "" then .absent else .text c.issuer
    aud := if c.audience == "" then .absent else .text c.audience }

end Cose.Cwt
