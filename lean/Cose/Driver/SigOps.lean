import Cose.Driver.KeyOps
import Cose.Key.Ec
/-! Line-protocol ops for signature keys (C10, C15, C16, C17). -/
namespace Cose.Driver.SigOps
open Cose.Driver Cose.Driver.KeyOps Cose.Go Cose.Key

def keyDump (r : Res Key) : String :=
  match r with
  | .ok k => (match encodeCMap k with | some b => "ok " ++ hex b | none => "unmodelled")
  | .err _ => "err"
  | .panic s => "panic " ++ s

def opTopublic (a : List String) : String :=
  match a with
  | fam :: toks =>
    match parseKey toks with
    | some (some k) => if fam == "ed25519" then keyDump (ed25519ToPublic k) else keyDump (ecdsaToPublic k)
    | some none => "bad-op"
    | none => "unmodelled"
  | _ => "bad-op"

def opCompress (toks : List String) : String :=
  match parseKey toks with
  | some (some k) => keyDump (ecdsaCompress k)
  | some none => "bad-op"
  | none => "unmodelled"

def opVerifierKey (toks : List String) : String :=
  match parseKey toks with
  | some k => (match newVerifier k with | .ok v => keyDump (.ok v.key) | .err _ => "err" | .panic s => "panic " ++ s)
  | none => "unmodelled"

def opSign (a : List String) : String :=
  match a with
  | d :: rest =>
    let (kt, after) := splitBar rest
    match (unhexOpt d).map (·.getD []), parseKey kt with     -- `~`: the empty message as a nil slice
    | some data, some (some k) =>
      (match newSigner (some k) with
       | .ok s =>
         (match opsAfter k after with
          | none => "bad-op"
          | some cur =>
            match s.sign cur data with
            | .ok (some sig) => "new:ok sign:ok:" ++ hex sig
            | .ok none => (match ecdsaCurve (alg k) with
                | some ci => s!"new:ok sign:ok len={2 * ci.curve.byteLen}"
                | none => "new:ok sign:err")
            | _ => "new:ok sign:err")
       | .panic s => "panic " ++ s
       | _ => "new:err")
    | _, none => "unmodelled"
    | _, _ => "bad-op"
  | _ => "bad-op"

def opVerify (a : List String) : String :=
  match a with
  | d :: sg :: rest =>
    let (kt, after) := splitBar rest
    match (unhexOpt d).map (·.getD []), unhex sg, parseKey kt with
    | some data, some sig, some (some k) =>
      (match newVerifier (some k) with
       | .ok v =>
         -- the verifier consults the key it holds: the caller's map if that was public, a fresh derived map otherwise
         let cur := if k.has (lbl Cose.Gen.Iana.EC2KeyParameterD) then some (ops v.key) else opsAfter k after
         (match cur with
          | none => "bad-op"
          | some cur => (match v.verify cur data sig with | .ok _ => "new:ok verify:ok" | _ => "new:ok verify:err"))
       | .panic s => "panic " ++ s
       | _ => "new:err")
    | _, _, none => "unmodelled"
    | _, _, _ => "bad-op"
  | _ => "bad-op"

/-- `sig.decode <alg> <hex>`: `ecdsa.DecodeSignature` on the algorithm's curve -/
def opDecode (a : List String) : String :=
  match a with
  | [alg, sg] =>
    (match alg.toInt?, unhex sg with
     | some al, some sig =>
       (match ecdsaCurve al with
        | some ci => (match decodeSig ci.curve sig with
            | some (r, s) => s!"ok {r} {s}"
            | none => "err")
        | none => "bad-op")
     | _, _ => "bad-op")
  | _ => "bad-op"

/-- `sig.encode <alg> <r> <s>` (decimal): `ecdsa.EncodeSignature` -/
def opEncode (a : List String) : String :=
  match a with
  | [alg, r, s] =>
    (match alg.toInt?, r.toNat?, s.toNat? with
     | some al, some rn, some sn =>
       (match ecdsaCurve al with
        | some ci => (match encodeSig ci.curve rn sn with
            | some b => "ok " ++ hex b
            | none => "err")
        | none => "bad-op")
     | _, _, _ => "bad-op")
  | _ => "bad-op"

def dispatch (op : String) (args : List String) : Option String :=
  match op with
  | "sig.decode" => some (opDecode args)
  | "sig.encode" => some (opEncode args)
  | "sig.topublic" => some (opTopublic args)
  | "sig.compress" => some (opCompress args)
  | "sig.verifierkey" => some (opVerifierKey args)
  | "sig.sign" => some (opSign args)
  | "sig.verify" => some (opVerify args)
  | _ => none

end Cose.Driver.SigOps
