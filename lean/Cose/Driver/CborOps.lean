import Cose.Driver.ParseVal
import Cose.Go.Convert
/-! Line-protocol ops for raw CBOR (C08). -/
namespace Cose.Driver.CborOps
open Cose.Driver Cose.Cbor

mutual
  /-- values whose Go `any` image re-encodes differently or is not modelled: tags (time / bignum /
      cbor.Tag), floats, negative integers below -2^63, simple values other than false/true/null/undefined -/
  def exotic : Cbor → Bool
    | .uint _ => false
    | .nint n => n ≥ 9223372036854775808
    | .bstr _ => false
    | .tstr _ => false
    | .arr xs => exoticList xs
    | .map kvs => exoticPairs kvs
    | .tag _ _ => true
    | .simple n => !(20 ≤ n && n ≤ 23)
    | .float _ _ => true
  def exoticList : List Cbor → Bool
    | [] => false
    | x :: xs => exotic x || exoticList xs
  def exoticPairs : List (Cbor × Cbor) → Bool
    | [] => false
    | (k, v) :: r => exotic k || exotic v || exoticPairs r
end

mutual
  /-- `undefined` decodes to Go `nil`, which re-encodes as `null` -/
  def normalize : Cbor → Cbor
    | .simple 23 => .simple 22
    | .arr xs => .arr (normalizeList xs)
    | .map kvs => .map (normalizePairs kvs)
    | v => v
  def normalizeList : List Cbor → List Cbor
    | [] => []
    | x :: xs => normalize x :: normalizeList xs
  def normalizePairs : List (Cbor × Cbor) → List (Cbor × Cbor)
    | [] => []
    | (k, v) :: r => (normalize k, normalize v) :: normalizePairs r
end

def opDec (args : List String) : String :=
  match args with
  | [h] =>
    match unhex h with
    | none => "bad-op"
    | some b =>
      match decodeAll b with
      | none => "err"
      | some v => if exotic v then "unmodelled" else "ok " ++ hex (encode (normalize v))
  | _ => "bad-op"

mutual
  /-- a Go map whose labels collide after CBOR encoding (e.g. int(1) and int64(1)) has no defined encoding -/
  def dupFree : Cbor → Bool
    | .arr xs => dupFreeList xs
    | .map kvs => nodupKeys kvs && dupFreePairs kvs
    | .tag _ v => dupFree v
    | _ => true
  def dupFreeList : List Cbor → Bool
    | [] => true
    | x :: xs => dupFree x && dupFreeList xs
  def dupFreePairs : List (Cbor × Cbor) → Bool
    | [] => true
    | (k, v) :: r => dupFree k && dupFree v && dupFreePairs r
end

/-- spec op: the deterministic encoding of a Go value -/
def opEnc (args : List String) : String :=
  match parseWhole args with
  | none => "bad-op"
  | some v =>
    match Cose.Go.toCbor v with
    | none => "unmodelled"
    | some c => if dupFree c then "ok " ++ hex (encode c) else "err"   -- colliding labels: CoseMap.MarshalCBOR refuses

def dispatch (op : String) (args : List String) : Option String :=
  match op with
  | "cbor.enc" => some (opEnc args)
  | "cbor.dec" => some (opDec args)
  -- spec ops (C08): a byte-string member of another non-null type is rejected; no encoding with duplicate keys
  | "wire.wrongtype" => some "rejected"
  -- strictness at depth: a protected bucket that is not exactly one well-formed, definite-length, duplicate-free map
  -- (trailing octets, indefinite lengths, duplicate labels, a non-map item, bad labels) is rejected
  | "wire.badbucket" => some "rejected"
  | "wire.badarity" => some "rejected"
  -- … and a payload that is not strict CBOR is refused when the payload destination is a typed value
  | "wire.badpayload" => some "rejected"
  | "cbor.encdup" => some "no-dup"
  -- … nor a message whose header bucket holds one label twice (the caller's, under another Go integer kind, and the library's)
  | "wire.msgdup" => some "no-dup"
  | _ => none

end Cose.Driver.CborOps
