import Cose.Gen.Iana
import Cose.Spec.IanaSnapshot
/-! Search op for C20: name the constants of `/repo/iana` whose value is not the assigned one (or is unknown to the
snapshot, or collides with another entry of the same registry).  Used by `bin/check` to turn a broken `c20Check_true`
into a concrete failing input. -/
namespace Cose.Driver.IanaOps
open Cose.Gen.Iana Cose.Spec.Iana

def diffs : List String :=
  let tagged := consts.map (fun c => (c, snapshot.find? (fun s => s.2.1 == c.2.1)))
  let wrong := tagged.filterMap (fun (c, s) =>
    match s with
    | none => some s!"{c.2.1}={c.2.2}:not-in-registry-snapshot({c.1})"
    | some (reg, _, w) => if w == c.2.2 then none else some s!"{c.2.1}={c.2.2}:assigned={w}:registry={reg}")
  let rows := tagged.filterMap (fun (c, s) => s.map (fun s => (s.1, c.2.1, c.2.2)))
  let dups := rows.filterMap (fun (reg, n, v) =>
    match rows.find? (fun r => r.1 == reg && r.2.2 == v && r.2.1 != n) with
    | some (_, n2, _) => if n < n2 then some s!"{n}={n2}={v}:duplicate-in-registry={reg}" else none
    | none => none)
  wrong ++ dups

/-- family `conv` (key generation, conversions from / to the Go key types, key-set look-ups): specification ops whose
    invariants the harness checks against the Go standard library; every well-formed request is answered `ok` -/
def convOk (op : String) (args : List String) : Option String :=
  match op, args with
  | "conv.ed25519", [seed] => some (if seed.length == 64 then "ok" else "err")
  | "conv.ecdsa", [_, _] => some "ok"
  | "conv.ecdh", [_, _, _] => some "ok"
  | "conv.gen", [_, _] => some "ok"
  | "conv.recipients", [_] => some "ok"
  | "conv.keyset", [_] => some "ok"
  | "conv.bigkeyset", [_] => some "ok"
  | "conv.keyset", [_, _, _] => some "ok"
  | _, _ => none

def dispatch (op : String) (args : List String) : Option String :=
  match op with
  | "iana.diff" => some (if diffs.isEmpty then "ok none" else "WRONG " ++ String.intercalate ";" diffs)
  | _ => convOk op args

end Cose.Driver.IanaOps
