import Cose.Driver.ParseVal
import Cose.Key.Impl
import Cose.Key.Ec
/-! Line-protocol ops for keys and implementation objects (C16, C17). -/
namespace Cose.Driver.KeyOps
open Cose.Driver Cose.Go Cose.Key

/-- a Go map literal whose keys are plain `int`s or strings, as a label-normalised map -/
def cmapOfGoMap : GoVal → Option CMap
  | .map kvs => kvs.mapM (fun kv =>
      match kv.1 with
      | .int .int v => some (Label.int v, kv.2)
      | .str s => some (Label.text s, kv.2)
      | _ => none)
  | _ => none

/-- the same for maps the library only encodes or looks up at labels 1, 4, 5, 6: a label of another Go
    integer kind is invisible to the library's `m[iana.X]` look-ups, which is harmless (and modelled) as long
    as it is none of those labels -/
def cmapOfGoMapLoose : GoVal → Option CMap
  | .map kvs => kvs.mapM (fun kv =>
      match kv.1 with
      | .int .int v => some (Label.int v, kv.2)
      | .int _ v => if v ∈ [1, 4, 5, 6] then none else some (Label.int v, kv.2)
      | .str s => some (Label.text s, kv.2)
      | _ => none)
  | _ => none

def splitBar (a : List String) : List String × List String :=
  (a.takeWhile (· ≠ "|"), (a.dropWhile (· ≠ "|")).drop 1)

def parseKey (toks : List String) : Option (Option Key) :=
  if toks == ["nilkey"] then some none
  else match parseWhole toks with
    | some v => (cmapOfGoMap v).map some
    | none => none

def opsStr : Option (List Int) → String
  | none => "nil"
  | some l => "[" ++ String.intercalate "," (l.map toString) ++ "]"

def baseIvStr (k : Key) : String :=
  match baseIV k with
  | .ok b => hexOpt b
  | _ => "err"

def opInfo (toks : List String) : String :=
  match parseKey toks with
  | some (some k) => s!"ok kty={kty k} alg={alg k} ops={opsStr (ops k)} kid={hexOpt (kid k)} baseiv={baseIvStr k}"
  | some none => "bad-op"
  | none => "unmodelled"

def kindOfFactory (s : String) : String := s

def opFactory (a : List String) : String :=
  match a with
  | kind :: toks =>
    match parseKey toks with
    | none => "unmodelled"
    | some k =>
      if kind == "MACer" || kind == "Encryptor" then
        match newSym kind k with
        | .ok _ => "ok"
        | .err e => "err " ++ e
        | .panic s => "panic " ++ s
      else if kind == "Signer" then
        match newSigner k with
        | .ok _ => "ok"
        | .err e => "err " ++ e
        | .panic s => "panic " ++ s
      else
        match newVerifier k with
        | .ok _ => "ok"
        | .err e => "err " ++ e
        | .panic s => "panic " ++ s
  | _ => "bad-op"

/-- the key_ops the key holds at call time -/
def opsAfter (k : Key) (after : List String) : Option (Option (List Int)) :=
  match after with
  | [] => some (ops k)
  | ["same"] => some (ops k)
  | ["del"] => some none
  | toks => (parseWhole toks).map (fun v => ops [(lbl 4, v)])

def resB (r : Res Bytes) : String := match r with | .ok b => "ok:" ++ hex b | _ => "err"

def opMac (a : List String) : String :=
  match a with
  | d :: rest =>
    let (kt, after) := splitBar rest
    match unhex d, parseKey kt with
    | some data, some (some k) =>
      (match newSym "MACer" (some k) with
       | .ok m =>
         (match opsAfter k after with
          | none => "bad-op"
          | some cur =>
            let c := resB (m.macCreate cur data)
            let v := match m.macCreate none data with
              | .ok t => (match m.macVerify cur data t with | .ok _ => "ok" | _ => "err")
              | _ => "err"
            s!"new:ok create:{c} verify:{v}")
       | _ => "new:err")
    | _, none => "unmodelled"
    | _, _ => "bad-op"
  | _ => "bad-op"

def opAead (a : List String) : String :=
  match a with
  | iv :: pt :: aad :: rest =>
    let (kt, after) := splitBar rest
    match unhex iv, unhex pt, unhex aad, parseKey kt with
    | some iv, some pt, some aad, some (some k) =>
      (match newSym "Encryptor" (some k) with
       | .ok m =>
         (match opsAfter k after with
          | none => "bad-op"
          | some cur =>
            let c := resB (m.encrypt cur iv pt aad)
            let d := match m.encrypt none iv pt aad with
              | .ok ct => resB (m.decrypt cur iv ct aad)
              | _ => "err"
            s!"new:ok noncesize:{m.nonceSize} enc:{c} dec:{d}")
       | _ => "new:err")
    | _, _, _, none => "unmodelled"
    | _, _, _, _ => "bad-op"
  | _ => "bad-op"

def dispatch (op : String) (args : List String) : Option String :=
  match op with
  | "key.info" => some (opInfo args)
  | "key.factory" => some (opFactory args)
  | "impl.mac" => some (opMac args)
  | "impl.aead" => some (opAead args)
  | "impl.malformed" => some "unusable"   -- spec (C16): such a key is not usable for anything
  | _ => none

end Cose.Driver.KeyOps
