import Cose.Driver.SigOps
import Cose.Msg.Model
/-!
Driver operations `api.*`: the exported helpers called directly (`HeadersFromBytes`, `Alg.HashFunc` + `ComputeHash`,
`CrvAlg`, `Ops.EmptyOrHas`, `aesccm.NewCCM` / `MaxNonceLength`).  The answers come from the same definitions the
message and key models use (`hdrFromBytes`, `hashOfAlg`, `crvAlg`); the CCM parameter ranges are RFC 3610's
(M ∈ {4, 6, …, 16}, L = 15 − nonce length ∈ 2 … 8).
-/
namespace Cose.Driver.ApiOps
open Cose.Driver Cose.Go Cose.Key Cose.Msg Cose.Cbor

/-- `maxlen(L, tagsize)` on a 64-bit platform -/
def ccmMaxLen (L : Int) (tag : Int) : Int :=
  let m64 : Int := 9223372036854775807 - tag
  let mx : Int := (2 : Int) ^ (8 * L.toNat) - 1
  if L > 8 || mx > m64 then m64 else mx

def dispatch (op : String) (args : List String) : Option String :=
  match op, args with
  | "api.hdrfrombytes", [h] => some (match unhexOpt h with
      | some b => (match hdrFromBytes b with
          | .ok m => (match encodeCMap m with | some e => "ok " ++ hex e | none => "unmodelled")
          | .err => "err"
          | .unmodelled => "unmodelled")
      | none => "bad-op")
  -- specification (C08): a label wrapped in a tag is neither an integer nor a text string
  | "api.taglabel", [_] => some "rejected"
  | "api.hash", [alg, d] => some (match alg.toInt?, unhex d with
      | some a, some b => (match hashOfAlg a with | some f => "ok " ++ hex (f b) | none => "none")
      | _, _ => "bad-op")
  | "api.crvalg", [c] => some (match c.toInt? with | some n => s!"ok {crvAlg n}" | none => "bad-op")
  | "api.emptyorhas", o :: ops => some (match o.toInt?, ops.mapM String.toInt? with
      | some x, some l => s!"ok {l.isEmpty || l.contains x} {l.contains x}"
      | _, _ => "bad-op")
  | "api.newccm", [ts, ns] => some (match ts.toInt?, ns.toInt? with
      | some t, some n =>
        if t < 4 || t > 16 || t % 2 != 0 then "err"
        else if 15 - n < 2 || 15 - n > 8 then "err"
        else s!"ok nonce={n} overhead={t} maxlen={ccmMaxLen (15 - n) t}"
      | _, _ => "bad-op")
  | "api.maxnonce", [l] => some (match l.toInt? with
      | some n =>
        (match ([2, 3, 4, 5, 6, 7, 8] : List Int).find? (fun L => ccmMaxLen L 16 ≥ n) with
         | some L => s!"ok {15 - L}"
         | none => "ok 0")
      | none => "bad-op")
  | _, _ => none

end Cose.Driver.ApiOps
