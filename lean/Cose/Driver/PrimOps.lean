import Cose.Driver.Util
import Cose.Key.Prims
/-! Line-protocol spec ops for the symmetric primitives (C11, C12, C13). -/
namespace Cose.Driver.PrimOps
open Cose.Driver Cose.Key Cose.Go Cose.Crypto

def res (r : Res Bytes) : String :=
  match r with
  | .ok b => "ok " ++ hex b
  | .err _ => "err"
  | .panic s => "panic " ++ s

def opt (r : Option Bytes) : String :=
  match r with
  | some b => "ok " ++ hex b
  | none => "err"

/-- per-read results of a sequence of reads on one reader; a failing read ends the sequence -/
def readsOut (E : Bytes → Bytes) : AesHkdf → List Nat → List String
  | _, [] => []
  | s, n :: ns =>
    match s.read E n with
    | none => "err" :: readsOut E s ns      -- a refused read leaves the reader where it was
    | some (b, s') => hex b :: readsOut E s' ns

def isHmac (alg : Int) : Bool := hmacKeySize alg != 0
def isAesmac (alg : Int) : Bool := aesmacKeySize alg != 0
def isCcm (alg : Int) : Bool := ccmKeySize alg != 0
def isGcm (alg : Int) : Bool := gcmKeySize alg != 0

/-- mac create: `KeyFrom(alg, key)` then `New` then `MACCreate(data)` -/
def macCreate (alg : Int) (key data : Bytes) : Res Bytes :=
  if isHmac alg then
    (if key.length ≠ hmacKeySize alg then .err "keysize" else
      match hmacCreate alg key data with | some t => .ok t | none => .err "hash")
  else if isAesmac alg then
    (if key.length ≠ aesmacKeySize alg then .err "keysize" else aesmacCreate alg key data)
  else .err "alg"

def macVerifyOp (alg : Int) (key data tag : Bytes) : String :=
  match macCreate alg key data with
  | .ok t => if macVerify t tag then "ok" else "err"
  | .err _ => "err"
  | .panic s => "panic " ++ s

def aeadEnc (alg : Int) (key nonce pt aad : Bytes) : Res Bytes :=
  if isGcm alg then (if key.length ≠ gcmKeySize alg then .err "keysize" else gcmEncrypt key nonce pt aad)
  else if isCcm alg then (if key.length ≠ ccmKeySize alg then .err "keysize" else ccmEncrypt alg key nonce pt aad)
  else if alg = 24 then chachaEncrypt key nonce pt aad
  else .err "alg"

def aeadDec (alg : Int) (key nonce ct aad : Bytes) : Res Bytes :=
  if isGcm alg then (if key.length ≠ gcmKeySize alg then .err "keysize" else gcmDecrypt key nonce ct aad)
  else if isCcm alg then (if key.length ≠ ccmKeySize alg then .err "keysize" else ccmDecrypt alg key nonce ct aad)
  else if alg = 24 then chachaDecrypt key nonce ct aad
  else .err "alg"

/-- an Encryptor made for `alg` whose key's alg member became `alg2`: AES-CCM reads tag and nonce size from the key at every
    call (a value that is no CCM algorithm leaves no admissible size), the cipher block stays the one made at construction;
    AES-GCM and ChaCha20/Poly1305 do not look at the algorithm again -/
def aeadAlgAfter (alg : Int) (key : Bytes) (alg2 : Int) (nonce pt aad : Bytes) : Res Bytes :=
  if isGcm alg then (if key.length ≠ gcmKeySize alg then .err "keysize" else gcmEncrypt key nonce pt aad)
  else if isCcm alg then
    (if key.length ≠ ccmKeySize alg then .err "keysize"
     else if ccmTagSize alg2 = 0 then .err "alg"
     else ccmEncrypt alg2 key nonce pt aad)
  else if alg = 24 then chachaEncrypt key nonce pt aad
  else .err "alg"

def parseNats (s : String) : Option (List Nat) :=
  (s.splitOn ",").mapM (fun t => t.toNat?)

def dispatch (op : String) (args : List String) : Option String :=
  match op, args with
  | "prim.mac", [alg, key, data] => some (match alg.toInt?, unhex key, unhex data with
      | some a, some k, some d => res (macCreate a k d) | _, _, _ => "bad-op")
  | "prim.macverify", [alg, key, data, tag] => some (match alg.toInt?, unhex key, unhex data, unhex tag with
      | some a, some k, some d, some t => macVerifyOp a k d t | _, _, _, _ => "bad-op")
  -- history freedom: the second use of one MACer / Encryptor answers like the only use of a fresh one
  | "prim.mac2", [alg, key, _d1, d2] => some (match alg.toInt?, unhex key, unhex d2 with
      | some a, some k, some d => res (macCreate a k d) | _, _, _ => "bad-op")
  -- the key's alg member changed after construction: refused or the tag of the algorithm the MACer was made for, never a panic
  | "prim.macalg", [alg, key, _alg2, data] => some (match alg.toInt?, unhex key, unhex data with
      | some a, some k, some d => (match macCreate a k d with | .ok _ => "ok" | _ => "err") | _, _, _ => "bad-op")
  | "prim.macrekey", [alg, _k1, k2, data] => some (match alg.toInt?, unhex k2, unhex data with
      | some a, some k, some d => res (macCreate a k d) | _, _, _ => "bad-op")
  | "prim.aead2", [alg, key, _n1, _p1, _a1, n2, p2, a2] => some (match alg.toInt?, unhex key, unhex n2, unhex p2, unhex a2 with
      | some a, some k, some n, some p, some ad => res (aeadEnc a k n p ad) | _, _, _, _, _ => "bad-op")
  | "prim.aeadalg", [alg, key, alg2, nonce, pt, aad] => some (match alg.toInt?, unhex key, alg2.toInt?, unhex nonce, unhex pt, unhex aad with
      | some a, some k, some a2, some n, some p, some ad => res (aeadAlgAfter a k a2 n p ad) | _, _, _, _, _, _ => "bad-op")
  | "prim.aead.enc", [alg, key, nonce, pt, aad] => some (match alg.toInt?, unhex key, unhex nonce, unhex pt, unhex aad with
      | some a, some k, some n, some p, some ad => res (aeadEnc a k n p ad) | _, _, _, _, _ => "bad-op")
  | "prim.aead.dec", [alg, key, nonce, ct, aad] => some (match alg.toInt?, unhex key, unhex nonce, unhex ct, unhex aad with
      | some a, some k, some n, some c, some ad => res (aeadDec a k n c ad) | _, _, _, _, _ => "bad-op")
  | "prim.hkdf256", [secret, salt, info, len] => some (match unhex secret, unhex salt, unhex info, len.toNat? with
      | some s, some sa, some i, some l => opt (hkdf256 s sa i l) | _, _, _, _ => "bad-op")
  | "prim.hkdf512", [secret, salt, info, len] => some (match unhex secret, unhex salt, unhex info, len.toNat? with
      | some s, some sa, some i, some l => opt (hkdf512 s sa i l) | _, _, _, _ => "bad-op")
  | "prim.hkdfaes", [secret, info, len] => some (match unhex secret, unhex info, len.toNat? with
      | some s, some i, some l =>
        (match aesE s with
         | some E => opt (hkdfAesSpec E i l)
         | none => "err")
      | _, _, _ => "bad-op")
  | "prim.hkdfaes.read", [secret, info, sizes] => some (match unhex secret, unhex info, parseNats sizes with
      | some s, some i, some ns =>
        (match aesE s with
         | some E =>
           "ok " ++ String.intercalate "," (readsOut E (AesHkdf.init i) ns)
         | none => "err")
      | _, _, _ => "bad-op")
  | _, _ => none

end Cose.Driver.PrimOps
