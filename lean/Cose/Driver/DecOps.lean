import Cose.Go.ByteStr
import Cose.Driver.MsgOps
import Cose.Msg.Kdf
import Cose.Cwt.Claims
import Cose.Key.KeySet
/-! Line-protocol ops for KDF contexts, claims, key sets, recipients, ByteStr codecs (C04, C07, C09). -/
namespace Cose.Driver.DecOps
open Cose.Driver Cose.Driver.KeyOps Cose.Driver.MsgOps Cose.Go Cose.Msg Cose.Cbor Cose.Cwt

def opKdfEnc (a : List String) : String :=
  let (f, protT) := splitBar a
  match f, parseHdr protT with
  | [alg, uid, un, uo, vid, vn, vo, kdl, other, priv], some prot =>
    (match alg.toInt?, unhexOpt uid, unhexOpt un, unhexOpt uo, unhexOpt vid, unhexOpt vn, unhexOpt vo, kdl.toNat?, unhexOpt other, unhexOpt priv with
     | some alg, some uid, some un, some uo, some vid, some vn, some vo, some kdl, some other, some priv =>
       (match kdfEncode ⟨alg, ⟨uid, un, uo⟩, ⟨vid, vn, vo⟩, ⟨kdl, prot, other⟩, priv⟩ with
        | some b => "ok " ++ hex b
        | none => "err")
     | _, _, _, _, _, _, _, _, _, _ => "bad-op")
  | _, none => "unmodelled"
  | _, _ => "bad-op"

def opKdfDec (a : List String) : String :=
  match a with
  | [h] => (match unhex h with
    | some b => (match kdfDecode b with
      | .ok c => (match kdfEncode c with | some e => "ok " ++ hex e | none => "unmodelled")
      | .err => "err"
      | .unmodelled => "unmodelled")
    | none => "bad-op")
  | _ => "bad-op"

def opClaimsEnc (a : List String) : String :=
  match a with
  | [iss, sub, aud, exp, nbf, iat, cti] =>
    (match unhex iss, unhex sub, unhex aud, exp.toNat?, nbf.toNat?, iat.toNat?, unhexOpt cti with
     | some i, some s, some au, some e, some n, some ia, some c => "ok " ++ hex (encode (ClaimsS.toCbor ⟨i, s, au, e, n, ia, c⟩))
     | _, _, _, _, _, _, _ => "bad-op")
  | _ => "bad-op"

def opClaimsDec (a : List String) : String :=
  match a with
  | [h] => (match unhex h with
    | some b => (match claimsDecode b with
      | .ok c => "ok " ++ hex (encode c.toCbor)
      | .err => "err"
      | .unmodelled => "unmodelled")
    | none => "bad-op")
  | _ => "bad-op"

/-- `[]Key`: an array of key maps, each through `CoseMap.UnmarshalCBOR` (`Key/KeySet.lean`, the model
    `keyset_roundtrip` is stated over) -/
def opKeyset (a : List String) : String :=
  match a with
  | [h] => (match unhex h with
    | some b =>
      (match Cose.Key.keysetDecode b with
       | .ok none => "ok " ++ hex (encode Cbor.null)
       | .ok (some ms) => (match ms.mapM CMap.toCbor with
           | some cs => "ok " ++ hex (encode (.arr cs))
           | none => "unmodelled")
       | .err => "err"
       | .unmodelled => "unmodelled")
    | none => "bad-op")
  | _ => "bad-op"

def opRecipient (a : List String) : String :=
  match a with
  | [h] => (match unhex h with
    | some b =>
      if b.isEmpty then "err"
      else if !recipFirstBytesOk b then "err"
      else (match decodeAll b with
        | none => "err"
        | some c => (match recipField c with
          | .ok r => (match recipCbor r with | some e => "ok " ++ hex (encode e) | none => "unmodelled")
          | .err => "err"
          | .unmodelled => "unmodelled"))
    | none => "bad-op")
  | _ => "bad-op"

def hexPlain (b : Bytes) : String := if b.isEmpty then "" else hex b

def dispatch (op : String) (args : List String) : Option String :=
  match op with
  | "kdf.enc" => some (opKdfEnc args)
  | "kdf.dec" => some (opKdfDec args)
  | "claims.enc" => some (opClaimsEnc args)
  | "claims.dec" => some (opClaimsDec args)
  | "dec.keyset" => some (opKeyset args)
  | "dec.recipient" => some (opRecipient args)
  | "dec.bytestr" => some (match args with
      | [h] => (match unhexOpt h with | some b => "ok " ++ hexPlain (b.getD []) | none => "bad-op")
      | _ => "bad-op")
  | "dec.bytestrjson" => some (match args with
      | [h] => (match unhex h with
          | some d => (match Cose.Go.ByteStr.unmarshalJSON d with
              | none => "err" | some none => "ok null" | some (some b) => "ok " ++ hex b)
          | none => "bad-op")
      | _ => "bad-op")
  | "dec.bytestrtext" => some (match args with
      | [h] => (match unhex h with
          | some d => (match Cose.Go.ByteStr.unmarshalText d with | none => "err" | some b => "ok " ++ hex b)
          | none => "bad-op")
      | _ => "bad-op")
  | "dec.keyjson" => some (match parseKey args with
      | some (some k) => (match encodeCMap k with | some b => "ok " ++ hex b | none => "unmodelled")
      | some none => "bad-op"
      | none => "unmodelled")
  | _ => none

end Cose.Driver.DecOps
