import Cose.Driver.EcdhOps
import Cose.Msg.Model
/-! Line-protocol ops for the six message kinds (C01–C06, C09). -/
namespace Cose.Driver.MsgOps
open Cose.Driver Cose.Driver.KeyOps Cose.Go Cose.Key Cose.Msg Cose.Cbor

def splitAll (a : List String) : List (List String) :=
  let rec go : List String → List String → List (List String) → List (List String)
    | [], cur, acc => (cur.reverse :: acc).reverse
    | "|" :: r, cur, acc => go r [] (cur.reverse :: acc)
    | t :: r, cur, acc => go r (t :: cur) acc
  go a [] []

def parseKind : String → Option Kind
  | "sign1" => some .sign1 | "sign" => some .sign | "mac0" => some .mac0 | "mac" => some .mac
  | "encrypt0" => some .encrypt0 | "encrypt" => some .encrypt | _ => none

def parseMode : String → Option PMode
  | "raw" => some .raw | "rawmsg" => some .rawMsg | "typed" => some .typed | "named" => some .named
  | "gomap" => some .typed     -- a plain Go map payload: same bytes as the CoseMap with these entries (sorted, shortest)
  | _ => none

def keyView (k : Key) : KeyView := ⟨alg k, kid k, baseIV k⟩

def isEcdsa (k : Key) : Bool := alg k == -7 || alg k == -35 || alg k == -36

/-- a Signer built through the registry; ECDSA signatures are not predictable: a placeholder is returned -/
def mkSigner (k : Key) : Option Msg.Signer :=
  match newSigner (some k) with
  | .ok s => some ⟨keyView k, fun data =>
      match s.sign (ops k) data with
      | .ok (some sig) => .ok sig
      | .ok none => .ok []
      | .err e => .err e
      | .panic p => .panic p⟩
  | _ => none

def mkVerifier (k : Key) : Option Msg.Verifier :=
  match newVerifier (some k) with
  | .ok v => some ⟨keyView v.key, fun data sig => v.verify (ops v.key) data sig⟩
  | _ => none

def mkMacer (k : Key) : Option Msg.Macer :=
  match newSym "MACer" (some k) with
  | .ok m => some ⟨keyView k, fun d => m.macCreate (ops k) d, fun d t => m.macVerify (ops k) d t⟩
  | _ => none

def mkEncryptor (k : Key) : Option Msg.Encryptor :=
  match newSym "Encryptor" (some k) with
  | .ok m => some ⟨keyView k, m.nonceSize, fun iv p a => m.encrypt (ops k) iv p a, fun iv c a => m.decrypt (ops k) iv c a⟩
  | _ => none

def parseHdr (t : List String) : Option Hdr :=
  if t == ["nil"] then some none
  else match parseWhole t with
    | some v => (cmapOfGoMapLoose v).map some
    | none => none

def hdrDump (h : Hdr) : String :=
  match h with
  | none => "nil"
  | some m => match encodeCMap m with | some b => hex b | none => "unencodable"

def parsePayload (mode : PMode) (t : List String) : Option PVal :=
  match mode with
  | .typed =>
    if t == ["nil"] then some (.typed none)
    else match parseWhole t with
      | some v => (cmapOfGoMapLoose v).map (fun m => .typed (some m))
      | none => none
  | .named => match t with
    | [h] => (unhexOpt h).map .named
    | _ => none
  | _ => match t with
    | [h] => (unhexOpt h).map .bytes
    | _ => none

def payloadDump : PVal → String
  | .bytes b => hexOpt b
  | .named b => hexOpt b
  | .typed none => "nil"
  | .typed (some m) => match encodeCMap m with | some b => hex b | none => "unencodable"

def joinHex (l : List Bytes) : String := if l.isEmpty then "none" else String.intercalate "," (l.map hex)

/-- the harness's deterministic recipients (see `mkRecipients` in ops_msg.go) -/
def mkRecipients (spec0 : String) : List Recip :=
  -- "r2k:<hex>": the last recipient carries the kid <hex>
  let (spec, lastKid) : String × Option Bytes := match spec0.splitOn "k:" with
    | [a, h] => (a, unhex h)
    | _ => (spec0, none)
  let n := (spec.toList.getD 1 '0').toNat - '0'.toNat
  let nilU := spec.endsWith "n"
  let nested := spec.endsWith "s" || nilU
  (List.range n).map (fun i =>
    let prot : CMap := if i == 1 then [] else [(Msg.lbl 1, .int .int (-6))]
    let ct : Bytes := if i == 1 then [1, 2, 3] else []
    let kid : Bytes := match lastKid with
      | some k => if i + 1 == n then k else [UInt8.ofNat (0x30 + i)]
      | none => [UInt8.ofNat (0x30 + i)]
    let r0 : Recip0 := ⟨prot, if nilU then none else some [(Msg.lbl 4, .bytes kid)], some ct⟩
    let subs : List Recip0 := if i == 0 && nested then
      [⟨[(Msg.lbl 1, .int .int (-3))], if nilU then none else some [(Label.text [0x78], .str [0x79])], some [9]⟩] else []
    ⟨r0, subs⟩)

def recipsDump (rs : List Recip) : String :=
  if rs.isEmpty then "none"
  else String.intercalate "," (rs.map (fun r => match recipCbor r with | some c => hex (encode c) | none => "err"))

def resErr {α} (r : Res α) : String :=
  match r with
  | .err "alg-mismatch" => "err alg-mismatch"
  | .panic s => "panic " ++ s
  | _ => "err"

/-- record what a primitive was given -/
def opProduce (a : List String) : String :=
  match splitAll a with
  | [kindS, modeS, extS, recipS] :: payloadT :: protT :: unprotT :: keyTs =>
    (match parseKind kindS, parseMode modeS, unhexOpt extS with
     | some kind, some mode, some ext =>
       (match parsePayload mode payloadT, parseHdr protT, parseHdr unprotT, keyTs.mapM parseKey with
        | some payload, some prot, some unprot, some keys =>
          let keys := keys.filterMap id
          let m0 : Msg := ⟨kind, prot, unprot, payload, none⟩
          (match kind with
           | .sign1 =>
             (match keys.head?.bind mkSigner with
              | none => "err key"
              | some s =>
                let k := keys.head!
                match produceAuth m0 s.key s.sign ext with
                | .ok m =>
                  (match m.mm with
                   | some w =>
                     let tb := match tobe kind w none ext with | .ok b => hex b | _ => "?"
                     let msg := if isEcdsa k then "nondet" else (match marshal kind w with | some b => hex b | none => "unencodable")
                     if msg == "unencodable" then "err" else
                     s!"ok msg={msg} tobe={tb} prot={hdrDump m.prot} unprot={hdrDump m.unprot}"
                   | none => "err")
                | r => resErr r)
           | .sign =>
             (match keys.mapM mkSigner with
              | none => "err key"
              | some ss0 =>
                -- `noalg`: the signers report a key without algorithm (only the kid)
                let ss := if recipS == "noalg" then ss0.map (fun s => { s with key := { s.key with alg := 0 } }) else ss0
                match produceSign m0 ss ext with
                | .ok m =>
                  (match m.mm with
                   | some w =>
                     let tbs := (w.sigs.getD []).map (fun s =>
                       match tobe kind w (match hdrBytes (some s.prot) with | .ok b => some b | _ => none) ext with
                       | .ok b => b | _ => [])
                     let msg := if keys.any isEcdsa then "nondet" else (match marshal kind w with | some b => hex b | none => "unencodable")
                     if msg == "unencodable" then "err" else
                     s!"ok msg={msg} tobe={joinHex tbs}"
                   | none => "err")
                | r => resErr r)
           | .mac0 | .mac =>
             (match keys.head?.bind mkMacer with
              | none => "err key"
              | some mc =>
                match produceAuth m0 mc.key mc.create ext with
                | .ok m =>
                  (match m.mm with
                   | some w0 =>
                     let w := if kind == .mac then { w0 with recips := some (mkRecipients recipS) } else w0
                     let tb := match tobe kind w none ext with | .ok b => hex b | _ => "?"
                     (match marshal kind w with
                      | some b =>
                        if kind == .mac0 then s!"ok msg={hex b} tobe={tb} prot={hdrDump m.prot} unprot={hdrDump m.unprot}"
                        else s!"ok msg={hex b} tobe={tb}"
                      | none => "err")
                   | none => "err")
                | r => resErr r)
           | .encrypt0 | .encrypt =>
             (match keys.head?.bind mkEncryptor with
              | none => "err key"
              | some e =>
                let rnd := List.replicate e.nonceSize (0 : UInt8)
                match produceEnc m0 e ext rnd with
                | .ok m =>
                  (match m.mm with
                   | some w0 =>
                     let w := if kind == .encrypt then { w0 with recips := some (mkRecipients recipS) } else w0
                     let aad := match tobe kind { w with payload := none } none ext with | .ok b => hex b | _ => "?"
                     let random := match selectNonce (fillUnprotected unprot e.key) e.key e.nonceSize with
                       | .ok .random => true | _ => false
                     if random then s!"ok msg=nondet aad={aad} nonce=random:published"
                     else
                       let nonce := match selectNonce (fillUnprotected unprot e.key) e.key e.nonceSize with
                         | .ok (.given iv) => hex iv | _ => "?"
                       (match marshal kind w with
                        | some b => s!"ok msg={hex b} aad={aad} nonce={nonce}"
                        | none => "err")
                   | none => "err")
                | r => resErr r))
        | _, _, _, _ => "unmodelled")
     | _, _, _ => "bad-op")
  | _ => "bad-op"

def opConsume (a : List String) : String :=
  match splitAll a with
  | [kindS, modeS, extS, dataS] :: keyTs =>
    (match parseKind kindS, parseMode modeS, unhexOpt extS, unhex dataS, keyTs.mapM parseKey with
     | some kind, some mode, some ext, some data, some keys =>
       let keys := keys.filterMap id
       -- the key objects are obtained first, as the harness does
       let keyOk : Bool := match kind with
         | .sign1 => (keys.head?.bind mkVerifier).isSome
         | .sign => (keys.mapM mkVerifier).isSome
         | .mac0 | .mac => (keys.head?.bind mkMacer).isSome
         | _ => (keys.head?.bind mkEncryptor).isSome
       if !keyOk then "err key" else
       (match unmarshal kind mode data with
        | .err => "err"
        | .unmodelled => "unmodelled"
        | .ok m =>
          let w := m.mm.getD { prot := none, unprot := none, payload := none }
          (match kind with
           | .sign1 =>
             (match keys.head?.bind mkVerifier with
              | none => "err key"
              | some v =>
                match verifyAuth m v.key v.verify ext with
                | .ok _ =>
                  let tb := match tobe kind w none ext with | .ok b => hex b | _ => "?"
                  s!"ok payload={payloadDump m.payload} prot={hdrDump m.prot} unprot={hdrDump m.unprot} tobe={tb}"
                | r => resErr r)
           | .sign =>
             (match keys.mapM mkVerifier with
              | none => "err key"
              | some vs =>
                match verifySign m vs ext with
                | .ok _ =>
                  let tbs := (w.sigs.getD []).map (fun s =>
                    let sp := match s.protRaw with | some b => some b | none => (match hdrBytes (some s.prot) with | .ok b => some b | _ => none)
                    match tobe kind w sp ext with | .ok b => b | _ => [])
                  s!"ok payload={payloadDump m.payload} prot={hdrDump m.prot} unprot={hdrDump m.unprot} tobe={joinHex tbs}"
                | r => resErr r)
           | .mac0 | .mac =>
             (match keys.head?.bind mkMacer with
              | none => "err key"
              | some mc =>
                match verifyAuth m mc.key mc.verify ext with
                | .ok _ =>
                  let tb := match tobe kind w none ext with | .ok b => hex b | _ => "?"
                  let base := s!"ok payload={payloadDump m.payload} prot={hdrDump m.prot} unprot={hdrDump m.unprot} tobe={tb}"
                  if kind == .mac then base ++ s!" recips={recipsDump (w.recips.getD [])}" else base
                | r => resErr r)
           | _ =>
             (match keys.head?.bind mkEncryptor with
              | none => "err key"
              | some e =>
                match decryptEnc m mode e ext with
                | .ok pv =>
                  let aad := match tobe kind { w with payload := none } none ext with | .ok b => hex b | _ => "?"
                  let nonce := match selectNonce (m.unprot.getD []) e.key e.nonceSize with
                    | .ok (.given iv) => hex iv | _ => hex []
                  let base := s!"ok payload={payloadDump pv} prot={hdrDump m.prot} unprot={hdrDump m.unprot} aad={aad} nonce={nonce}"
                  if kind == .encrypt then base ++ s!" recips={recipsDump (w.recips.getD [])}" else base
                | r => resErr r)))
     | _, _, _, _, none => "unmodelled"
     | _, _, _, _, _ => "bad-op")
  | _ => "bad-op"

def opReencode (a : List String) : String :=
  match a with
  | [kindS, dataS] =>
    (match parseKind kindS, unhex dataS with
     | some kind, some data =>
       (match unmarshal kind .raw data with
        | .err => "err"
        | .unmodelled => "unmodelled"
        | .ok m =>
          match m.mm.bind (marshal kind) with
          | some b => "ok " ++ hex b
          | none => "err")
     | _, _ => "bad-op")
  | _ => "bad-op"

/-- `RemoveCBORTag`: from the generated prefix facts -/
def removeTag (data : Bytes) : Bytes :=
  let pre (n : String) : Bytes :=
    match Cose.Gen.Layouts.byteVars.find? (fun v => v.1 == "cose" && v.2.1 == n) with
    | some v => natsToBytes v.2.2 | none => [0xff, 0xff, 0xff, 0xff]
  let d := if (pre "cwtPrefix").isPrefixOf data then data.drop 2 else data
  if (pre "sign1MessagePrefix").isPrefixOf d || (pre "mac0MessagePrefix").isPrefixOf d || (pre "encrypt0MessagePrefix").isPrefixOf d then d.drop 1
  else if (pre "signMessagePrefix").isPrefixOf d || (pre "macMessagePrefix").isPrefixOf d || (pre "encryptMessagePrefix").isPrefixOf d then d.drop 2
  else d

/-- tokens of `msg.otherkey`: `… | k1 | k2 …` ↦ `… | k2 …` -/
def dropFirstGroup : List String → List String
  | [] => []
  | t :: rest => if t == "|" then "|" :: (rest.dropWhile (· != "|")).drop 1 else t :: dropFirstGroup rest

def dispatch (op : String) (args : List String) : Option String :=
  match op with
  | "msg.produce" => some (opProduce args)
  | "msg.produce2" => some (opProduce args)
  -- a decoded COSE_Sign signed again: the harness checks the C04 statement itself (what the signers were handed is the
  -- structure of what goes on the wire); the model only says whether the message decodes
  -- a failing primitive leaves no unauthenticated message behind (checked by the harness; generated with valid keys only)
  | "msg.failsign" => some "ok"
  -- a message of several hundred KiB produced by the library is accepted back by the library with the payload intact
  -- (checked by the harness; generated with valid keys only)
  | "msg.huge" => some "ok"
  | "msg.resign" => some (match args with
      | _ :: h :: _ => (match unhex h with
          | some b => (match unmarshal .sign .raw b with | .ok _ => "ok" | .err => "err" | .unmodelled => "unmodelled")
          | none => "bad-op")
      | _ => "bad-op")   -- history freedom: a message object used before answers like a fresh one
  | "msg.consume" => some (opConsume args)
  | "msg.reencode" => some (opReencode args)
  -- a history of library-chosen nonces: consecutive whole blocks of the random stream (`fresh_draws_are_consecutive_blocks`),
  -- distinct under the assumption that `crypto/rand` does not repeat a block
  | "msg.noncehistory" => some (match args with
      | [alg, _count] => if (alg.toInt?.map (fun a => ccmKeySize a != 0 || gcmKeySize a != 0 || a == Cose.Gen.Iana.AlgorithmChaCha20Poly1305)).getD false then "ok distinct" else "err key"
      | _ => "bad-op")
  -- history freedom: a reused message object / verifier answers like fresh ones on the last message and external data
  | "msg.reuse" => some (match args with
      | kind :: mode :: _ext1 :: msg1 :: ext2 :: msg2 :: rest =>
        opConsume (kind :: mode :: ext2 :: (if msg2 == "=" then msg1 else msg2) :: rest)
      | _ => "bad-op")
  -- one decoded object asked under a first key, then under the op's keys: answered like a fresh object under the latter
  | "msg.otherkey" => some (opConsume (dropFirstGroup args))
  | "msg.untag" => some (match args with | [h] => (match unhex h with | some b => "ok " ++ hex (removeTag b) | none => "bad-op") | _ => "bad-op")
  | _ => none

end Cose.Driver.MsgOps
