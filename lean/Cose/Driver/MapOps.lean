import Cose.Driver.ParseVal
import Cose.Go.Labels
import Cose.Key.TextForms
/-! Line-protocol ops for `key.CoseMap` (C08, C05, C17). -/
namespace Cose.Driver.MapOps
open Cose.Driver Cose.Go Cose.Cbor

def resStr {α} (show_ : α → String) : Res α → String
  | .ok a => "ok " ++ show_ a
  | .err _ => "err"
  | .panic s => "panic " ++ s

def present (args : List String) : Option (Option GoVal) :=
  match args with
  | ["a"] => some none
  | _ => (parseWhole args).map some

def opUnmarshal (args : List String) : String :=
  match args with
  | [h] =>
    match unhex h with
    | none => "bad-op"
    | some b =>
      match decodeCMap b with
      | .err => "err"
      | .unmodelled => "unmodelled"
      | .ok m =>
        match encodeCMap m with
        | some e => "ok " ++ hex e
        | none => "unmodelled"
  | _ => "bad-op"

/-- `map.untext <hex>` / `map.unjson <hex>`: arbitrary octets given to `CoseMap.UnmarshalText` / `UnmarshalJSON`
    (`Key/TextForms.lean`, the model `text_form_is_cbor_form` / `json_form_is_cbor_form` are stated over); answered
    like `map.unmarshal`: the re-encoded map -/
def opUnText (json : Bool) (args : List String) : String :=
  match args with
  | [h] =>
    match unhex h with
    | none => "bad-op"
    | some t =>
      match (if json then Cose.Key.TextForms.cmapUnmarshalJSON t else Cose.Key.TextForms.cmapUnmarshalText t) with
      | .err => "err"
      | .unmodelled => "unmodelled"
      | .ok m =>
        match encodeCMap m with
        | some e => "ok " ++ hex e
        | none => "unmodelled"
  | _ => "bad-op"

def labelStr : Label → String
  | .int i => "int:" ++ toString i
  | .text s => "t:" ++ hex s

def getMapOp (v : Option GoVal) : String :=
  match getMap v with
  | .ok none => "ok nil"
  | .ok (some ls) =>
    let ks := (ls.map labelStr).mergeSort (fun a b => decide (a < b) || a == b)
    if ks.isEmpty then "ok empty" else "ok " ++ String.intercalate "," ks
  | .err _ => "err"
  | .panic s => "panic " ++ s

def dispatch (op : String) (args : List String) : Option String :=
  match op with
  | "map.unmarshal" => some (opUnmarshal args)
  | "map.untext" => some (opUnText false args)
  | "map.unjson" => some (opUnText true args)
  -- the typed views (Headers, ClaimsMap, Key) are the same map as CoseMap: a specification the harness checks itself
  | "map.views" => some "same"
  | "map.tagkeep" => some "same"
  | "map.toint" => some (match parseWhole args with | some v => resStr toString (toInt v) | none => "bad-op")
  | "map.getint" => some (match present args with | some v => resStr toString (getInt v) | none => "bad-op")
  | "map.getint64" => some (match present args with | some v => resStr toString (getInt64 v) | none => "bad-op")
  | "map.getuint64" => some (match present args with | some v => resStr toString (getUint64 v) | none => "bad-op")
  | "map.getbytes" => some (match present args with | some v => resStr hexOpt (getBytes v) | none => "bad-op")
  | "map.getbool" => some (match present args with | some v => resStr toString (getBool v) | none => "bad-op")
  | "map.getstring" => some (match present args with | some v => resStr hex (getString v) | none => "bad-op")
  | "map.getmap" => some (match present args with | some v => getMapOp v | none => "bad-op")
  | "map.set" => some (match parseWhole args with | some v => resStr labelStr (checkKey v) | none => "bad-op")
  | _ => none

end Cose.Driver.MapOps
