import Cose.Driver.SigOps
import Cose.Key.Ecdh
/-! Line-protocol ops for ECDH (C14, C15). -/
namespace Cose.Driver.EcdhOps
open Cose.Driver Cose.Driver.KeyOps Cose.Driver.SigOps Cose.Go Cose.Key

def opDerive (a : List String) : String :=
  let (lt, rest) := splitBar a
  let (rt, after) := splitBar rest
  match parseKey lt, parseKey rt with
  | some (some l), some (some r) =>
    (match opsAfter l after with
     | none => "bad-op"
     | some cur =>
       match ecdhDerive l cur r with
       | .ok s => "ok " ++ hex s
       | .err "new" => "err new"
       | .err _ => "err"
       | .panic s => "panic " ++ s)
  | none, _ => "unmodelled"
  | _, none => "unmodelled"
  | _, _ => "bad-op"

/-- spec op: both directions agree (and equal the Lean computation) -/
def opSymmetric (a : List String) : String :=
  let (at', bt) := splitBar a
  match parseKey at', parseKey bt with
  | some (some ka), some (some kb) =>
    (match ecdhToPublic ka, ecdhToPublic kb with
     | .ok pa, .ok pb =>
       (match ecdhDerive ka (ops ka) pb, ecdhDerive kb (ops kb) pa with
        | .ok s1, .ok s2 => if s1 == s2 then "ok " ++ hex s1 else "MODEL-ASYMMETRIC"
        | .err "new", _ => "err new"
        | _, .err "new" => "err new"
        | _, _ => "err derive")
     | _, _ => if (ecdhDerive ka none []).isOk then "err pub" else
         (match ecdhDerive ka none [], ecdhDerive kb none [] with
          | .err "new", _ => "err new"
          | _, .err "new" => "err new"
          | _, _ => "err pub"))
  | none, _ => "unmodelled"
  | _, none => "unmodelled"
  | _, _ => "bad-op"

def opTopublic (toks : List String) : String :=
  match parseKey toks with
  | some (some k) => keyDump (ecdhToPublic k)
  | some none => "bad-op"
  | none => "unmodelled"

def opCompress (toks : List String) : String :=
  match parseKey toks with
  | some (some k) => keyDump (ecdhCompress k)
  | some none => "bad-op"
  | none => "unmodelled"

def dispatch (op : String) (args : List String) : Option String :=
  match op with
  | "ecdh.derive" => some (opDerive args)
  | "ecdh.symmetric" => some (opSymmetric args)
  -- history freedom: the second agreement of one ECDHer answers like the only agreement of a fresh one
  | "ecdh.derive2" => some (
      let (l, rest) := splitBar args
      let (_r1, r2) := splitBar rest
      opDerive (l ++ ["|"] ++ r2 ++ ["|", "same"]))
  | "ecdh.topublic" => some (opTopublic args)
  | "ecdh.compress" => some (opCompress args)
  | _ => none

end Cose.Driver.EcdhOps
