import Cose.Bytes
/-! Parsing helpers for the line protocol (trusted, DESIGN §8 item 4). -/
namespace Cose.Driver

def hexVal (c : Char) : Option UInt8 :=
  if '0' ≤ c ∧ c ≤ '9' then some (c.toNat - '0'.toNat).toUInt8
  else if 'a' ≤ c ∧ c ≤ 'f' then some (c.toNat - 'a'.toNat + 10).toUInt8
  else if 'A' ≤ c ∧ c ≤ 'F' then some (c.toNat - 'A'.toNat + 10).toUInt8
  else none

def unhexAux : List Char → Array UInt8 → Option (Array UInt8)
  | [], acc => some acc
  | [_], _ => none
  | a :: b :: r, acc =>
    match hexVal a, hexVal b with
    | some x, some y => unhexAux r (acc.push (x * 16 + y))
    | _, _ => none

/-- `-` is the empty string, otherwise hex -/
def unhex (s : String) : Option Bytes :=
  if s == "-" then some [] else (unhexAux s.toList #[]).map (·.toList)

def hexDigit (n : UInt8) : Char :=
  if n < 10 then Char.ofNat (n.toNat + '0'.toNat) else Char.ofNat (n.toNat - 10 + 'a'.toNat)

def hex (b : Bytes) : String :=
  if b.isEmpty then "-" else String.ofList (b.foldr (fun x acc => hexDigit (x / 16) :: hexDigit (x % 16) :: acc) [])

/-- optional bytes: `~` is nil -/
def unhexOpt (s : String) : Option (Option Bytes) :=
  if s == "~" then some none else (unhex s).map some

def hexOpt : Option Bytes → String
  | none => "~"
  | some b => hex b

def strOfBytes (b : Bytes) : String := String.fromUTF8! (ByteArray.mk b.toArray)

def tokens (line : String) : List String :=
  (line.splitOn " ").filter (· ≠ "")

end Cose.Driver
