import Cose.Driver.ParseVal
import Cose.Go.CoseMap
import Cose.Cwt.Validator
import Cose.Cwt.View
/-! Line-protocol ops for the CWT validator (C18). -/
namespace Cose.Driver.Cwt
open Cose.Driver Cose.Cwt Cose.Spec.Rfc8392

/-- one token per claim value; compound values in a compact form: `L:a+b` an array, `LL:a+b` an array holding one array,
    `M:k+v` a one-entry map -/
def parseClaimVal (t : String) : Option Cose.Go.GoVal :=
  let items (body : String) : Option (List Cose.Go.GoVal) := (body.splitOn "+").mapM parseScalar
  if t.startsWith "LL:" then (items (t.drop 3).toString).map (fun l => .list [.list l])
  else if t.startsWith "L:" then (items (t.drop 2).toString).map .list
  else if t.startsWith "M:" then
    (match items (t.drop 2).toString with
     | some [k, v] => some (.map [(k, v)])
     | _ => none)
  else parseScalar t

/-- what `ValidateMap` sees through `Has` + `GetUint64` -/
def parseTime (t : String) : Option TimeClaim :=
  if t == "a" then some .absent
  else match parseClaimVal t with
    | none => none
    | some v => some (timeView (some v))

/-- what `ValidateMap` sees through `GetString` -/
def parseText (t : String) : Option TextClaim :=
  if t == "a" then some .absent
  else match parseClaimVal t with
    | none => none
    | some v => some (textView (some v))

def rejectName : Reject → String
  | .noExp => "noExp" | .badExp => "badExp" | .expired => "expired" | .badNbf => "badNbf"
  | .notYet => "notYet" | .badIat => "badIat" | .iatFuture => "iatFuture" | .badIss => "badIss"
  | .issMismatch => "issMismatch" | .badAud => "badAud" | .audMismatch => "audMismatch"

def verdictStr : Verdict → String
  | .ok => "ok"
  | .err r => "err " ++ rejectName r

/-- `time.Unix(sec, nsec)` with 0 ≤ nsec < 1e9 -/
def mkNow (sec nsec : Int) : GoTime := ⟨wrap64 (sec + unixToInternal), nsec⟩

structure Parsed where
  o : VOpts
  c : Claims

def parse (args : List String) : Option Parsed :=
  match args with
  | [nowS, nowN, skew, am, ip, ei, ea, exp, nbf, iat, iss, aud] => do
    let nowS ← nowS.toInt?
    let nowN ← nowN.toInt?
    let skew ← skew.toInt?
    let ei ← unhex ei
    let ea ← unhex ea
    let exp ← parseTime exp
    let nbf ← parseTime nbf
    let iat ← parseTime iat
    let iss ← parseText iss
    let aud ← parseText aud
    some { o := { expectedIssuer := strOfBytes ei, expectedAudience := strOfBytes ea,
                  allowMissingExpiration := am == "1", expectIssuedInThePast := ip == "1",
                  skew := skew, now := mkNow nowS nowN },
           c := ⟨exp, nbf, iat, iss, aud⟩ }
  | _ => none

/-- struct path needs plain values -/
def toStruct (c : Claims) : Option SClaims :=
  let t : TimeClaim → Option Nat := fun | .absent => some 0 | .secs n => some n | .invalid => none
  let s : TextClaim → Option String := fun | .absent => some "" | .text s => some s | .invalid => none
  do some { exp := ← t c.exp, nbf := ← t c.nbf, iat := ← t c.iat, issuer := ← s c.iss, audience := ← s c.aud }

/-- mirror op: the model of ValidateMap -/
def opValidateMap (args : List String) : String :=
  match parse args with
  | none => "bad-op"
  | some p => if !newValidatorOk p.o then "err skew" else verdictStr (validateMap p.o p.c)

/-- mirror op: the model of Validate (typed struct) -/
def opValidate (args : List String) : String :=
  match parse args with
  | none => "bad-op"
  | some p =>
    match toStruct p.c with
    | none => "bad-op"
    | some sc => if !newValidatorOk p.o then "err skew" else verdictStr (validate p.o sc)

/-- spec op: RFC 8392 rule in plain integers (no model of Go time involved) -/
def opSpec (args : List String) : String :=
  match parse args with
  | none => "bad-op"
  | some p =>
    match args with
    | nowS :: nowN :: _ =>
      let nowNs : Int := (nowS.toInt?.getD 0) * 1000000000 + (nowN.toInt?.getD 0)
      let so : Opts := ⟨p.o.expectedIssuer, p.o.expectedAudience, p.o.allowMissingExpiration,
        p.o.expectIssuedInThePast, p.o.skew, nowNs⟩
      if !skewAllowed p.o.skew then "refused" else if accept so p.c then "accept" else "reject"
    | _ => "bad-op"

def dispatch (op : String) (args : List String) : Option String :=
  match op with
  | "cwt.validatemap" => some (opValidateMap args)
  | "cwt.validate" => some (opValidate args)
  | "cwt.spec" => some (opSpec args)
  -- specification op: a validator without FixedNow follows the clock from call to call (the harness waits two seconds)
  | "cwt.wallclock" => some "ok"
  | _ => none

end Cose.Driver.Cwt
