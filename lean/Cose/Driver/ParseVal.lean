import Cose.Driver.Util
import Cose.Go.Val
/-! Parser for the value-token syntax of the line protocol (see harness/goval.go). -/
namespace Cose.Driver
open Cose.Go

def parseKind : String → Option IntKind
  | "int" => some .int | "i8" => some .i8 | "i16" => some .i16 | "i32" => some .i32 | "i64" => some .i64
  | "u" => some .u | "u8" => some .u8 | "u16" => some .u16 | "u32" => some .u32 | "u64" => some .u64
  | "alg" => some .alg
  | _ => none

def parseScalar (t : String) : Option GoVal :=
  if t == "T" then some (.bool true) else if t == "F" then some (.bool false)
  else if t == "nil" then some .nil else if t == "bnil" then some .bnil
  else match t.splitOn ":" with
    | [k, body] =>
      if k == "b" then (unhex body).map .bytes
      else if k == "bs" then (unhex body).map .bstr
      else if k == "bx" then (unhex body).map .bstr     -- any other named byte-slice type: same paths as key.ByteStr
      else if k == "t" then (unhex body).map .str
      else if k == "f" then some (.float body)
      else match parseKind k, body.toInt? with
        | some kd, some n => some (.int kd n)
        | _, _ => none
    | _ => none

def parseIntsUntilClose : List String → List Int → Option (List Int × List String)
  | [], _ => none
  | "]" :: r, acc => some (acc.reverse, r)
  | t :: r, acc => match t.toInt? with
    | some n => parseIntsUntilClose r (n :: acc)
    | none => none

mutual
  /-- parse one value; fuel bounds nesting -/
  def parseVal : Nat → List String → Option (GoVal × List String)
    | 0, _ => none
    | _, [] => none
    | f + 1, t :: r =>
      if t == "[" then (parseList f r []).map (fun (xs, r') => (.list xs, r'))
      else if t == "ints[" then (parseIntsUntilClose r []).map (fun (xs, r') => (.ints xs, r'))
      else if t == "ops[" then (parseIntsUntilClose r []).map (fun (xs, r') => (.ops xs, r'))
      else if t == "{" then (parseMap f r []).map (fun (kvs, r') => (.map kvs, r'))
      else (parseScalar t).map (fun v => (v, r))
  def parseList : Nat → List String → List GoVal → Option (List GoVal × List String)
    | 0, _, _ => none
    | _, [], _ => none
    | f + 1, t :: r, acc =>
      if t == "]" then some (acc.reverse, r)
      else match parseVal f (t :: r) with
        | some (v, r') => parseList f r' (v :: acc)
        | none => none
  def parseMap : Nat → List String → List (GoVal × GoVal) → Option (List (GoVal × GoVal) × List String)
    | 0, _, _ => none
    | _, [], _ => none
    | f + 1, t :: r, acc =>
      if t == "}" then some (acc.reverse, r)
      else match parseVal f (t :: r) with
        | some (k, r') => match parseVal f r' with
          | some (v, r'') => parseMap f r'' ((k, v) :: acc)
          | none => none
        | none => none
end

/-- parse exactly one value from all the tokens -/
def parseWhole (toks : List String) : Option GoVal :=
  match parseVal (toks.length + 2) toks with
  | some (v, []) => some v
  | _ => none

end Cose.Driver
