import Cose.Key.Ecdh
/-! Lemmas on the octet-string / integer conversions used for coordinates and signatures. -/
namespace Cose.Key
open Cose.Crypto

theorem os2ip_append_single (l : Bytes) (x : UInt8) : os2ip (l ++ [x]) = os2ip l * 256 + x.toNat := by
  unfold os2ip; rw [List.foldl_append]; rfl

theorem os2ip_foldl_zero (acc : Nat) (b : Bytes) :
    List.foldl (fun acc (x : UInt8) => acc * 256 + x.toNat) acc b =
      acc * 256 ^ b.length + List.foldl (fun acc (x : UInt8) => acc * 256 + x.toNat) 0 b := by
  induction b generalizing acc with
  | nil => simp
  | cons x r ih =>
    simp only [List.foldl_cons, List.length_cons]
    rw [ih (acc * 256 + x.toNat), ih (0 * 256 + x.toNat)]
    rw [Nat.pow_succ]
    simp only [Nat.zero_mul, Nat.zero_add, Nat.add_mul, Nat.mul_assoc, Nat.add_assoc]
    congr 1
    rw [Nat.mul_comm 256 (256 ^ r.length)]

/-- **leading zero octets do not change the integer** -/
theorem os2ip_leading_zero (b : Bytes) : os2ip (0 :: b) = os2ip b := by
  unfold os2ip; simp

theorem os2ip_replicate_zero (n : Nat) (b : Bytes) : os2ip (List.replicate n 0 ++ b) = os2ip b := by
  induction n with
  | zero => simp
  | succ n ih => rw [List.replicate_succ, List.cons_append, os2ip_leading_zero, ih]

theorem os2ip_stripZeros (b : Bytes) : os2ip (stripZeros b) = os2ip b := by
  induction b with
  | nil => rfl
  | cons x r ih =>
    by_cases h : x = 0
    · subst h; rw [os2ip_leading_zero]; simpa [stripZeros] using ih
    · have : stripZeros (x :: r) = x :: r := by
        unfold stripZeros
        split
        · rename_i heq; simp at heq; exact absurd heq.1 h
        · rfl
      rw [this]

theorem fixedLen_length (len n : Nat) : (fixedLen len n).length = len := by
  unfold fixedLen
  induction len generalizing n with
  | zero => rfl
  | succ l ih => simp [beBytes, ih]

/-- **fixed-length encoding then decoding is the identity** below 256^len -/
theorem os2ip_fixedLen (len n : Nat) (h : n < 256 ^ len) : os2ip (fixedLen len n) = n := by
  unfold fixedLen
  induction len generalizing n with
  | zero => simp at h; subst h; rfl
  | succ l ih =>
    simp only [beBytes]
    rw [os2ip_append_single, ih (n / 256) (by rw [Nat.pow_succ] at h; omega)]
    have : (UInt8.ofNat (n % 256)).toNat = n % 256 := by
      simp [UInt8.toNat_ofNat', Nat.mod_eq_of_lt (Nat.mod_lt n (by omega : 256 > 0))]
    rw [this]; omega

end Cose.Key

namespace Cose.Key
open Cose.Crypto

theorem os2ip_cons (x : UInt8) (r : Bytes) : os2ip (x :: r) = x.toNat * 256 ^ r.length + os2ip r := by
  unfold os2ip
  simp only [List.foldl_cons, Nat.zero_mul, Nat.zero_add]
  exact os2ip_foldl_zero x.toNat r

theorem os2ip_lt (b : Bytes) : os2ip b < 256 ^ b.length := by
  induction b with
  | nil => simp [os2ip]
  | cons x r ih =>
    rw [os2ip_cons, List.length_cons, Nat.pow_succ]
    have hx : x.toNat < 256 := x.toNat_lt
    have : x.toNat * 256 ^ r.length + 256 ^ r.length ≤ 256 ^ r.length * 256 := by
      have := Nat.mul_le_mul_right (256 ^ r.length) (show x.toNat + 1 ≤ 256 by omega)
      rw [Nat.add_mul, Nat.one_mul, Nat.mul_comm 256] at this; exact this
    omega

/-- on strings of one length the integer determines the string: changing any bit changes the integer -/
theorem os2ip_injective : ∀ (a b : Bytes), a.length = b.length → os2ip a = os2ip b → a = b
  | [], [], _, _ => rfl
  | [], _ :: _, h, _ => by simp at h
  | _ :: _, [], h, _ => by simp at h
  | x :: r, y :: s, hl, h => by
    have hl' : r.length = s.length := by simpa using hl
    rw [os2ip_cons, os2ip_cons, hl'] at h
    have h1 := os2ip_lt r
    have h2 := os2ip_lt s
    rw [hl'] at h1
    have hp : 0 < 256 ^ s.length := Nat.pow_pos (by omega)
    have hxy : x.toNat = y.toNat := by
      have e1 : (x.toNat * 256 ^ s.length + os2ip r) / 256 ^ s.length = x.toNat := by
        rw [Nat.mul_comm, Nat.mul_add_div hp, Nat.div_eq_of_lt h1]; omega
      have e2 : (y.toNat * 256 ^ s.length + os2ip s) / 256 ^ s.length = y.toNat := by
        rw [Nat.mul_comm, Nat.mul_add_div hp, Nat.div_eq_of_lt h2]; omega
      rw [← e1, ← e2, h]
    have hrs : os2ip r = os2ip s := by rw [hxy] at h; omega
    have : x = y := UInt8.toNat_inj.mp hxy
    rw [this, os2ip_injective r s hl' hrs]

end Cose.Key
