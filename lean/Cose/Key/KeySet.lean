import Cose.Msg.Model
/-!
# `key.KeySet` on the wire: an array of key maps

`KeySet` is `[]Key`; fxamacker encodes it as a CBOR array whose members go through `CoseMap.MarshalCBOR`, and decodes
an array member by member through `CoseMap.UnmarshalCBOR` (null / undefined for the whole set gives a nil set).  The
driver's `dec.keyset` op answers with `keysetDecode`, so this model is tied by correspondence.
-/
namespace Cose.Key
open Cose.Msg Cose.Go Cose.Cbor

/-- one member: `CoseMap.UnmarshalCBOR` (null / undefined make an empty map) -/
def keyItem (c : Cbor) : Dec CMap :=
  match hdrField c with
  | .ok (some m) => .ok m
  | .ok none => .ok []
  | .err => .err
  | .unmodelled => .unmodelled

def keysetEncode (ks : List CMap) : Option Bytes := (ks.mapM CMap.toCbor).map (fun cs => encode (.arr cs))

def keysetDecode (b : Bytes) : Dec (Option (List CMap)) :=
  match (decodeAll b).map untag with
  | none => .err
  | some (.simple 22) => .ok none
  | some (.simple 23) => .ok none
  | some (.arr items) =>
    (match decSeq keyItem items with
     | .ok ms => .ok (some ms)
     | .err => .err
     | .unmodelled => .unmodelled)
  | some _ => .err

end Cose.Key
