import Cose.Key.Families
import Cose.Crypto.Weierstrass
import Cose.Crypto.Ed25519
import Cose.Crypto.X25519
/-!
# Ed25519, ECDSA and ECDH keys (mirror of key/ed25519, key/ecdsa, key/ecdh)
CheckKey, ToPublicKey, ToCompressedKey, KeyToPrivate/keyToPublic, signer / verifier / ECDH objects.
Curve arithmetic comes from the Lean reference (`Cose.Crypto.Weierstrass`, `Ed25519`, `X25519`).
-/
namespace Cose.Key
open Cose.Go Cose.Gen Cose.Gen.Tables Cose.Crypto

/-- a non-negative integer as a fixed-length big-endian octet string (`big.Int.FillBytes`), low-order bytes kept -/
def fixedLen (len n : Nat) : Bytes := beBytes len n

def getB (k : Key) (l : Int) : Option Bytes :=
  match getBytes (k.lookup (lbl l)) with
  | .ok b => b
  | _ => none

def lenOf (b : Option Bytes) : Nat := (b.getD []).length

def opSign : Int := Iana.KeyOperationSign
def opVerify : Int := Iana.KeyOperationVerify

/-- the shared tail: needs d or x; private keys need `sign` (if restricted), public ones `verify` -/
def sigRoleOk (k : Key) (hasD hasX : Bool) : Bool :=
  if !hasD && !hasX then false
  else if hasD && !opsEmptyOrHas (ops k) opSign then false
  else if !hasD && !opsEmptyOrHas (ops k) opVerify then false
  else true

/-! ## Ed25519 -/

def checkEd25519 (k : Key) : Bool :=
  let hasD := k.has (lbl Iana.OKPKeyParameterD)
  let hasX := k.has (lbl Iana.OKPKeyParameterX)
  ck_key_ed25519.kty.contains (kty k) && labelsOk ck_key_ed25519 k &&
  (match getInt (k.lookup (lbl Iana.OKPKeyParameterCrv)) with
   | .ok c => c == Iana.EllipticCurveEd25519
   | _ => false) &&
  (!hasD || lenOf (getB k Iana.OKPKeyParameterD) == 32) &&
  (!hasX || lenOf (getB k Iana.OKPKeyParameterX) == 32) &&
  sigRoleOk k hasD hasX && kidOk k

/-- copy kid / alg, narrow key_ops to `newOps` when the source had a key_ops entry -/
def copyCommon (k : Key) (base : Key) (newOps : List Int) : Key :=
  let b1 := match k.lookup (lbl Iana.KeyParameterKid) with | some v => base.set (lbl Iana.KeyParameterKid) v | none => base
  let b2 := match k.lookup (lbl Iana.KeyParameterAlg) with | some v => b1.set (lbl Iana.KeyParameterAlg) v | none => b1
  if k.has (lbl Iana.KeyParameterKeyOps) then b2.set (lbl Iana.KeyParameterKeyOps) (.ops newOps) else b2

/-- `ed25519.ToPublicKey` -/
def ed25519ToPublic (k : Key) : Res Key :=
  if !checkEd25519 k then .err "key-invalid"
  else if !k.has (lbl Iana.OKPKeyParameterD) then .ok k
  else
    let d := (getB k Iana.OKPKeyParameterD).getD []
    let pub := ed25519PublicKey d
    if k.has (lbl Iana.OKPKeyParameterX) && (getB k Iana.OKPKeyParameterX).getD [] != pub then .err "x-mismatch"
    else
      let base : Key := [(lbl Iana.KeyParameterKty, .int .int Iana.KeyTypeOKP),
                         (lbl Iana.OKPKeyParameterCrv, .int .int Iana.EllipticCurveEd25519)]
      .ok ((copyCommon k base [opVerify]).set (lbl Iana.OKPKeyParameterX) (.bytes pub))

/-! ## ECDSA -/

structure CurveInfo where
  curve : Curve
  crv : Int

def curveByName (s : String) : Option Curve :=
  if s == "elliptic.P256()" || s == "goecdh.P256()" then some p256
  else if s == "elliptic.P384()" || s == "goecdh.P384()" then some p384
  else if s == "elliptic.P521()" || s == "goecdh.P521()" then some p521
  else none

/-- `ecdsa.getCurve(alg)` from the generated table -/
def ecdsaCurve (a : Int) : Option CurveInfo :=
  match sw_key_ecdsa_getCurve.srows.lookup a with
  | some [name, crv] => (curveByName name).map (fun c => ⟨c, crv.toInt?.getD 0⟩)
  | _ => none

def yIsBool (k : Key) : Option Bool :=
  match getBool (k.lookup (lbl Iana.EC2KeyParameterY)) with
  | .ok b => if k.has (lbl Iana.EC2KeyParameterY) then some b else none
  | _ => none

def checkEcdsa (k : Key) : Bool :=
  let hasD := k.has (lbl Iana.EC2KeyParameterD)
  let hasX := k.has (lbl Iana.EC2KeyParameterX)
  let hasY := k.has (lbl Iana.EC2KeyParameterY)
  let d := getB k Iana.EC2KeyParameterD
  let x := getB k Iana.EC2KeyParameterX
  ck_key_ecdsa.kty.contains (kty k) && labelsOk ck_key_ecdsa k &&
  (match getInt (k.lookup (lbl Iana.EC2KeyParameterCrv)), ecdsaCurve (alg k) with
   | .ok c, some ci => c == ci.crv
   | _, _ => false) &&
  (!hasD || (lenOf d != 0 && lenOf d ≤ 66)) &&
  (if hasX || hasY then
     (lenOf x != 0 && lenOf x ≤ 66) && hasY &&
     (match getBool (k.lookup (lbl Iana.EC2KeyParameterY)) with
      | .ok _ => true
      | _ => match getBytes (k.lookup (lbl Iana.EC2KeyParameterY)) with
        | .ok y => lenOf y != 0 && lenOf y ≤ 66
        | _ => false)
   else true) &&
  sigRoleOk k hasD hasX && kidOk k

/-- `curve.ScalarBaseMult(d)` as Go returns it: the point at infinity comes back as (0, 0) -/
def basePoint (c : Curve) (d : Nat) : Nat × Nat :=
  match scalarBaseMult c d with
  | .inf => (0, 0)
  | .affine a b => (a, b)

/-- `ecdsa.ToPublicKey` (coordinates emitted fixed-length, embedded ones compared as integers) -/
def ecdsaToPublic (k : Key) : Res Key :=
  if !checkEcdsa k then .err "key-invalid"
  else if !k.has (lbl Iana.EC2KeyParameterD) then .ok k
  else
    match ecdsaCurve (alg k) with
    | none => .err "key-invalid"
    | some ci =>
      let d := os2ip ((getB k Iana.EC2KeyParameterD).getD [])
      let px := (basePoint ci.curve d).1
      let py := (basePoint ci.curve d).2
      (
        let xbad := k.has (lbl Iana.EC2KeyParameterX) &&
          (os2ip ((getB k Iana.EC2KeyParameterX).getD []) != px ||
           (match getBytes (k.lookup (lbl Iana.EC2KeyParameterY)) with
            | .ok y => os2ip (y.getD []) != py
            | _ => false))
        if xbad then .err "xy-mismatch"
        else
          let base : Key := [(lbl Iana.KeyParameterKty, .int .int Iana.KeyTypeEC2),
                             (lbl Iana.EC2KeyParameterCrv, (k.lookup (lbl Iana.EC2KeyParameterCrv)).getD .nil)]
          .ok (((copyCommon k base [opVerify]).set (lbl Iana.EC2KeyParameterX) (.bytes (fixedLen ci.curve.byteLen px))).set
                (lbl Iana.EC2KeyParameterY) (.bytes (fixedLen ci.curve.byteLen py))))

def stripZeros : Bytes → Bytes
  | 0 :: r => stripZeros r
  | l => l

/-- `ecdsa.keyToPublic`: the public point of a (checked) public key, compressed or not -/
def ecdsaPoint (pk : Key) : Res (Curve × Nat × Nat) :=
  match ecdsaCurve (alg pk) with
  | none => .err "key-invalid"
  | some ci =>
    let x := getB pk Iana.EC2KeyParameterX
    match getB pk Iana.EC2KeyParameterY with
    | some y =>
      let ix := os2ip (x.getD [])
      let iy := os2ip y
      if isOnCurve ci.curve ix iy then .ok (ci.curve, ix, iy) else .err "not-on-curve"
    | none =>
      match getBool (pk.lookup (lbl Iana.EC2KeyParameterY)) with
      | .ok b =>
        let xs := stripZeros (x.getD [])
        if xs.length > ci.curve.byteLen then .err "x-too-long"
        else match decompress ci.curve (os2ip xs) b with
          | some (px, py) => .ok (ci.curve, px, py)
          | none => .err "not-on-curve"
      | _ => .err "y-type"

/-- `ecdsa.KeyToPrivate`: scalar and public point -/
def ecdsaPrivate (k : Key) : Res (Curve × Nat) :=
  if !k.has (lbl Iana.EC2KeyParameterD) then .err "not-private"
  else if !checkEcdsa k then .err "key-invalid"
  else match ecdsaCurve (alg k) with
    | none => .err "key-invalid"
    | some ci =>
      let d := os2ip ((getB k Iana.EC2KeyParameterD).getD [])
      let px := (basePoint ci.curve d).1
      let py := (basePoint ci.curve d).2
      (
        let xbad := match getB k Iana.EC2KeyParameterX with | some x => os2ip x != px | none => false
        let ybad := match getB k Iana.EC2KeyParameterY with | some y => os2ip y != py | none => false
        if xbad || ybad then .err "xy-mismatch" else .ok (ci.curve, d))

/-- hash prescribed by the algorithm (`Alg.HashFunc`) -/
def hashOfAlg (a : Int) : Option (Bytes → Bytes) :=
  (hashById (nth (swRow sw_key_Alg_HashFunc a) 0)).map (·.1)

/-- `DecodeSignature`: exactly 2n bytes, r ‖ s big-endian -/
def decodeSig (c : Curve) (sig : Bytes) : Option (Nat × Nat) :=
  if sig.length != 2 * c.byteLen then none
  else some (os2ip (sig.take c.byteLen), os2ip (sig.drop c.byteLen))

/-- `EncodeSignature`: each of r, s left-padded to the curve size; refused if it does not fit -/
def encodeSig (c : Curve) (r s : Nat) : Option Bytes :=
  if r ≥ 256 ^ c.byteLen || s ≥ 256 ^ c.byteLen then none
  else some (fixedLen c.byteLen r ++ fixedLen c.byteLen s)

/-! ## signature implementation objects -/

inductive SigFamily | ed25519 | ecdsa
deriving Repr, DecidableEq

/-- a verifier holds the *public* key object (a fresh map when derived from a private key) -/
structure VerifierImpl where
  fam : SigFamily
  key : Key          -- the key reported by `Key()`; its key_ops are what `Verify` consults
deriving Repr

structure SignerImpl where
  fam : SigFamily
  key : Key
deriving Repr

def sigFamOfPkg : String → Option SigFamily
  | "key/ed25519" => some .ed25519
  | "key/ecdsa" => some .ecdsa
  | _ => none

def newVerifier (k : Option Key) : Res VerifierImpl :=
  match k with
  | none => .err "nil-key"
  | some k =>
    match registered "Verifier" (tripleKey k) with
    | none => .err "not-registered"
    | some pkg =>
      match sigFamOfPkg pkg with
      | some .ed25519 => (match ed25519ToPublic k with
          | .ok pk => .ok ⟨.ed25519, pk⟩ | .err _ => .err "key-invalid" | .panic s => .panic s)
      | some .ecdsa => (match ecdsaToPublic k with
          | .ok pk => (match ecdsaPoint pk with
              | .ok _ => .ok ⟨.ecdsa, pk⟩ | .err _ => .err "key-invalid" | .panic s => .panic s)
          | .err _ => .err "key-invalid" | .panic s => .panic s)
      | none => .err "not-registered"

def newSigner (k : Option Key) : Res SignerImpl :=
  match k with
  | none => .err "nil-key"
  | some k =>
    match registered "Signer" (tripleKey k) with
    | none => .err "not-registered"
    | some pkg =>
      match sigFamOfPkg pkg with
      | some .ed25519 =>
        if !k.has (lbl Iana.OKPKeyParameterD) then .err "key-invalid"
        else (match ed25519ToPublic k with   -- CheckKey + embedded x must match
          | .ok _ => .ok ⟨.ed25519, k⟩ | .err _ => .err "key-invalid" | .panic s => .panic s)
      | some .ecdsa => (match ecdsaPrivate k with
          | .ok _ => .ok ⟨.ecdsa, k⟩ | .err _ => .err "key-invalid" | .panic s => .panic s)
      | none => .err "not-registered"

/-- `Verify(data, sig)` with the verifier key's current key_ops `cur` -/
def VerifierImpl.verify (v : VerifierImpl) (cur : Option (List Int)) (data sig : Bytes) : Res Unit :=
  if !opsEmptyOrHas cur opVerify then .err "key-ops"
  else match v.fam with
    | .ed25519 =>
      if ed25519Verify ((getB v.key Iana.OKPKeyParameterX).getD []) data sig then .ok () else .err "auth"
    | .ecdsa =>
      match ecdsaPoint v.key, hashOfAlg (alg v.key) with
      | .ok (c, qx, qy), some H =>
        (match decodeSig c sig with
         | none => .err "sig-size"
         | some (r, s) => if ecdsaVerify c qx qy (H data) r s then .ok () else .err "auth")
      | _, _ => .err "key-invalid"

/-- Ed25519 signing is deterministic; ECDSA signing is randomised (`none`: not predictable) -/
def SignerImpl.sign (s : SignerImpl) (cur : Option (List Int)) (data : Bytes) : Res (Option Bytes) :=
  if !opsEmptyOrHas cur opSign then .err "key-ops"
  else match s.fam with
    | .ed25519 => .ok (some (ed25519Sign ((getB s.key Iana.OKPKeyParameterD).getD []) data))
    | .ecdsa =>
      match ecdsaPrivate s.key with
      | .ok (c, d) => if d == 0 || d ≥ c.n then .err "scalar" else .ok none
      | _ => .err "key-invalid"

end Cose.Key

namespace Cose.Key
open Cose.Go Cose.Gen Cose.Crypto

/-- `ecdsa.ToCompressedKey` -/
def ecdsaCompress (k : Key) : Res Key :=
  if !checkEcdsa k then .err "key-invalid"
  else
    let base : Key := [(lbl Iana.KeyParameterKty, .int .int Iana.KeyTypeEC2),
                       (lbl Iana.EC2KeyParameterCrv, (k.lookup (lbl Iana.EC2KeyParameterCrv)).getD .nil)]
    if k.has (lbl Iana.EC2KeyParameterD) then
      .ok (base.set (lbl Iana.EC2KeyParameterD) ((k.lookup (lbl Iana.EC2KeyParameterD)).getD .nil))
    else
      let b1 := base.set (lbl Iana.EC2KeyParameterX) ((k.lookup (lbl Iana.EC2KeyParameterX)).getD .nil)
      match getBool (k.lookup (lbl Iana.EC2KeyParameterY)) with
      | .ok b => .ok (b1.set (lbl Iana.EC2KeyParameterY) (.bool b))
      | _ =>
        let y := (getB k Iana.EC2KeyParameterY).getD []
        .ok (b1.set (lbl Iana.EC2KeyParameterY) (.bool (os2ip y % 2 == 1)))

end Cose.Key
