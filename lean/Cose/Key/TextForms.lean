import Cose.Go.ByteStr
import Cose.Go.Labels
/-!
# The text and JSON forms of a label map (`key.CoseMap`, `key.Key`, `cose.Headers`, `cwt.ClaimsMap`)

`CoseMap.MarshalText` / `MarshalJSON` are `MarshalCBOR` followed by `ByteStr.MarshalText` / `MarshalJSON` (lower-case
hex, between quotes for JSON); `UnmarshalText` / `UnmarshalJSON` decode the hex into a fresh `ByteStr` and hand the
octets to `UnmarshalCBOR` (`key/cosemap.go:255-296`; `Key` forwards to `CoseMap`, `key/key.go:164-182`).  A JSON
`null` leaves the fresh `ByteStr` nil, and `UnmarshalCBOR` of no octets is an error.

The driver's `map.untext` / `map.unjson` ops answer with `cmapUnmarshalText` / `cmapUnmarshalJSON`, so this model is
tied by correspondence (arbitrary octets, well-formed and malformed hex around well-formed and malformed CBOR).
-/
namespace Cose.Key.TextForms
open Cose.Go Cose.Cbor

def cmapMarshalText (m : CMap) : Option Bytes := (encodeCMap m).map ByteStr.marshalText
def cmapMarshalJSON (m : CMap) : Option Bytes := (encodeCMap m).map ByteStr.marshalJSON

def cmapUnmarshalText (t : Bytes) : Dec CMap :=
  match ByteStr.unmarshalText t with
  | none => .err
  | some b => decodeCMap b

def cmapUnmarshalJSON (d : Bytes) : Dec CMap :=
  match ByteStr.unmarshalJSON d with
  | none => .err
  | some none => decodeCMap []          -- `null`: the fresh ByteStr stays nil
  | some (some b) => decodeCMap b

end Cose.Key.TextForms
