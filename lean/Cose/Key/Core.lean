import Cose.Go.Labels
import Cose.Gen.Tables
import Cose.Gen.Iana
/-!
# `key.Key`: accessors, algorithm fallback, registry dispatch (mirror of /repo/key/key.go, registry.go)
-/
namespace Cose.Key
open Cose.Go Cose.Gen

abbrev Key := CMap

def lbl (i : Int) : Label := .int i

/-- `Kty()`: `v, _ := k.GetInt(1)` -/
def kty (k : Key) : Int :=
  match getInt (k.lookup (lbl Iana.KeyParameterKty)) with
  | .ok v => v
  | _ => 0

/-- `key.CrvAlg` from the generated switch table -/
def crvAlg (c : Int) : Int :=
  (((Tables.sw_key_CrvAlg.irows.lookup c).getD Tables.sw_key_CrvAlg.idflt).getD 0 0)

/-- `Alg()`: explicit alg, or the algorithm matching the curve when alg is absent (or zero) -/
def alg (k : Key) : Int :=
  match getInt (k.lookup (lbl Iana.KeyParameterAlg)) with
  | .ok v =>
    if v == 0 then
      match getInt (k.lookup (lbl Iana.OKPKeyParameterCrv)) with
      | .ok c => crvAlg c
      | _ => v
    else v
  | _ => 0

def toIntList : List GoVal → Option (List Int)
  | [] => some []
  | x :: xs =>
    match toInt x, toIntList xs with
    | .ok v, some r => some (v :: r)
    | _, _ => none

/-- `Ops()`: `none` is Go's nil `Ops` (absent **or uninterpretable**) -/
def ops (k : Key) : Option (List Int) :=
  match k.lookup (lbl Iana.KeyParameterKeyOps) with
  | some (.ops xs) => some xs
  | some (.ints xs) => some xs
  | some (.list xs) => toIntList xs
  | _ => none

/-- `Ops.EmptyOrHas` on the result of `Ops()` -/
def opsEmptyOrHas (o : Option (List Int)) (op : Int) : Bool :=
  match o with
  | none => true
  | some l => l.isEmpty || l.contains op

/-- `Kid()`: `v, _ := k.GetBytes(2)` -/
def kid (k : Key) : Option Bytes :=
  match getBytes (k.lookup (lbl Iana.KeyParameterKid)) with
  | .ok b => b
  | _ => none

def baseIV (k : Key) : Res (Option Bytes) := getBytes (k.lookup (lbl Iana.KeyParameterBaseIV))

/-- `tripleKey()` -/
def tripleKey (k : Key) : Int × Int × Int :=
  let kt := kty k
  let a := alg k
  let crv := match getInt (k.lookup (lbl Iana.OKPKeyParameterCrv)) with | .ok c => c | _ => 0
  if a == 0 then
    if kt == Iana.KeyTypeOKP then (kt, Iana.AlgorithmEdDSA, Iana.EllipticCurveEd25519)
    else if kt == Iana.KeyTypeEC2 then (kt, Iana.AlgorithmES256, Iana.EllipticCurveP_256)
    else (kt, a, crv)
  else (kt, a, crv)

/-- registry lookup: the package whose factory is registered for (kind, kty, alg, crv) -/
def registered (kind : String) (t : Int × Int × Int) : Option String :=
  match Tables.registry.find? (fun r => r.kind == kind && r.kty == t.1 && r.alg == t.2.1 && r.crv == t.2.2) with
  | some r => some r.pkg
  | none => none

end Cose.Key
