import Cose.Crypto.Constructions
import Cose.Crypto.Sha2
import Cose.Crypto.Aes
import Cose.Crypto.Gcm
import Cose.Crypto.ChaCha20Poly1305
import Cose.Gen.Tables
import Cose.Go.Res
/-!
# The library's MAC / AEAD / KDF primitives (mirrors of key/hmac, key/aesmac, key/aesgcm, key/aesccm,
# key/chacha20poly1305, key/hkdf), parameterised by the **generated** algorithm tables
-/
namespace Cose.Key
open Cose.Crypto Cose.Go Cose.Gen.Tables

/-- row of a generated switch table as natural numbers (`dflt` when the case is absent) -/
def swRow (t : SwitchTable) (alg : Int) : List Nat :=
  ((t.irows.lookup alg).getD t.idflt).map Int.toNat

def nth (l : List Nat) (i : Nat) : Nat := l.getD i 0

/-- Go's `crypto.Hash` numbering: 5 SHA-256, 6 SHA-384, 7 SHA-512 -/
def hashById (id : Nat) : Option ((Bytes → Bytes) × Nat) :=
  if id = 5 then some (sha256, 64) else if id = 6 then some (sha384, 128) else if id = 7 then some (sha512, 128) else none

/-! ## HMAC -/
def hmacKeySize (alg : Int) : Nat := nth (swRow sw_key_hmac_getKeySize alg) 0
def hmacTagSize (alg : Int) : Nat := nth (swRow sw_key_hmac_getKeySize alg) 1

/-- `hMAC.create`: full HMAC truncated to the tag size of the key's algorithm -/
def hmacCreate (alg : Int) (key data : Bytes) : Option Bytes :=
  match hashById (nth (swRow sw_key_Alg_HashFunc alg) 0) with
  | some (H, B) => some ((hmac H B key data).take (hmacTagSize alg))
  | none => none

/-! ## AES-CBC-MAC -/
def aesmacKeySize (alg : Int) : Nat := nth (swRow sw_key_aesmac_getKeySize alg) 0
def aesmacTagSize (alg : Int) : Nat := nth (swRow sw_key_aesmac_getKeySize alg) 1

def aesE (key : Bytes) : Option (Bytes → Bytes) := (aesExpandKey key).map (fun k => aesEncryptBlockWith k)

/-- `aesMAC.MACCreate` (data must be non-empty) -/
def aesmacCreate (alg : Int) (key data : Bytes) : Res Bytes :=
  match aesE key with
  | none => .err "key"
  | some E => if data.isEmpty then .err "empty" else .ok (cbcMac E (aesmacTagSize alg) data)

/-- MAC verification as the library does it: recompute, then constant-time compare (equal length and bytes) -/
def macVerify (expected : Bytes) (mac : Bytes) : Bool := expected == mac

/-! ## AES-CCM -/
def ccmKeySize (alg : Int) : Nat := nth (swRow sw_key_aesccm_getKeySize alg) 0
def ccmTagSize (alg : Int) : Nat := nth (swRow sw_key_aesccm_getKeySize alg) 1
def ccmNonceSize (alg : Int) : Nat := nth (swRow sw_key_aesccm_getKeySize alg) 2

def assignsOf (fn lhs : String) : List Int :=
  match constAssigns.lookup fn with
  | none => []
  | some l => (l.filter (fun t => t.1 == lhs)).map (·.2.2)

def cmpsOf (fn lhs : String) : List (String × Int) :=
  match cmpConsts.lookup fn with
  | none => []
  | some l => (l.filter (fun t => t.1 == lhs)).map (·.2)

def ccmMarker0 : Nat := ((assignsOf "key_aesccm.ccm.tag" "block[0]").getD 0 0).toNat
def ccmMarker1a : Nat := ((assignsOf "key_aesccm.ccm.tag" "block[1]").getD 0 0).toNat
def ccmMarker1b : Nat := ((assignsOf "key_aesccm.ccm.tag" "block[1]").getD 1 0).toNat
/-- `n <= 0xfeff` -/
def ccmShortMax : Nat := (((cmpsOf "key_aesccm.ccm.tag" "n").filter (·.1 == "<=")).map (·.2.toNat)).getD 0 0
/-- `n < 1<<32` -/
def ccmMidLimit : Nat := (((cmpsOf "key_aesccm.ccm.tag" "n").filter (·.1 == "<")).map (·.2.toNat)).getD 0 0

/-- the additional-data length prefix as `ccm.tag` writes it (constants read from the source) -/
def ccmAadLenCode (n : Nat) : Bytes :=
  if n = 0 then []
  else if n ≤ ccmShortMax then beBytes 2 n
  else if n < ccmMidLimit then [UInt8.ofNat ccmMarker0, UInt8.ofNat ccmMarker1a] ++ beBytes 4 n
  else [UInt8.ofNat ccmMarker0, UInt8.ofNat ccmMarker1b] ++ beBytes 8 n

/-- `maxlen(L, tagsize)` for the L values COSE uses (2 and 8) -/
def ccmMaxLen (L M : Nat) : Nat := if L ≥ 8 then 9223372036854775807 - M else 2 ^ (8 * L) - 1

/-- `aesCCM.Encrypt` -/
def ccmEncrypt (alg : Int) (key nonce pt aad : Bytes) : Res Bytes :=
  match aesE key with
  | none => .err "key"
  | some E =>
    let M := ccmTagSize alg
    let L := 15 - ccmNonceSize alg
    if nonce.length ≠ ccmNonceSize alg then .err "nonce"
    else if pt.length > ccmMaxLen L M then .err "size"
    else .ok (ccmSeal E M L nonce pt aad)

/-- `aesCCM.Decrypt` -/
def ccmDecrypt (alg : Int) (key nonce ct aad : Bytes) : Res Bytes :=
  match aesE key with
  | none => .err "key"
  | some E =>
    let M := ccmTagSize alg
    let L := 15 - ccmNonceSize alg
    if nonce.length ≠ ccmNonceSize alg then .err "nonce"
    else if ct.length < M then .err "short"
    else if ct.length > ccmMaxLen L M + M then .err "size"
    else match ccmOpen E M L nonce ct aad with
      | some p => .ok p
      | none => .err "auth"

/-! ## AES-GCM and ChaCha20/Poly1305 as stream AEADs -/
def gcmKeySize (alg : Int) : Nat := nth (swRow sw_key_aesgcm_getKeySize alg) 0
def pkgConst (pkg name : String) : Nat :=
  match pkgConsts.find? (fun t => t.1 == pkg && t.2.1 == name) with
  | some t => t.2.2.toNat
  | none => 0
def gcmNonceSize : Nat := pkgConst "key/aesgcm" "nonceSize"
def chachaKeySize : Nat := pkgConst "key/chacha20poly1305" "keySize"
def chachaNonceSize : Nat := pkgConst "key/chacha20poly1305" "nonceSize"

def gcmAead : StreamAead :=
  { ks := fun key nonce n => match aesExpandKey key with | some k => gcmKeystream k nonce n | none => zeros n
    tag := fun key nonce aad ct => match aesExpandKey key with | some k => gcmTag k nonce aad ct | none => zeros 16
    tagLen := 16 }

def chachaAead : StreamAead :=
  { ks := chachaKeystream, tag := chachaPolyTag, tagLen := 16 }

def gcmEncrypt (key nonce pt aad : Bytes) : Res Bytes :=
  if (aesExpandKey key).isNone then .err "key" else if nonce.length ≠ gcmNonceSize then .err "nonce"
  else .ok (gcmAead.seal key nonce pt aad)
def gcmDecrypt (key nonce ct aad : Bytes) : Res Bytes :=
  if (aesExpandKey key).isNone then .err "key" else if nonce.length ≠ gcmNonceSize then .err "nonce"
  else match gcmAead.open key nonce ct aad with | some p => .ok p | none => .err "auth"
def chachaEncrypt (key nonce pt aad : Bytes) : Res Bytes :=
  if key.length ≠ chachaKeySize then .err "key" else if nonce.length ≠ chachaNonceSize then .err "nonce"
  else .ok (chachaAead.seal key nonce pt aad)
def chachaDecrypt (key nonce ct aad : Bytes) : Res Bytes :=
  if key.length ≠ chachaKeySize then .err "key" else if nonce.length ≠ chachaNonceSize then .err "nonce"
  else match chachaAead.open key nonce ct aad with | some p => .ok p | none => .err "auth"

/-! ## HKDF -/
def hkdf256 (secret salt info : Bytes) (len : Nat) : Option Bytes := hkdf (hmac sha256 64) 32 secret salt info len
def hkdf512 (secret salt info : Bytes) (len : Nat) : Option Bytes := hkdf (hmac sha512 128) 64 secret salt info len

/-- the PRF of HKDF-AES: full AES-CBC-MAC (zero IV, zero padding to a block multiple) -/
def aesPrf (E : Bytes → Bytes) : Bytes → Bytes → Bytes := fun _ msg => cbcMacFull E msg

/-- RFC 9053 §5.1 HKDF-AES: the expand step only -/
def hkdfAesSpec (E : Bytes → Bytes) (info : Bytes) (len : Nat) : Option Bytes := hkdfExpand (aesPrf E) 16 [] info len

/-- state of the Go reader `aesHKDF` -/
structure AesHkdf where
  info : Bytes
  counter : UInt8
  prev : Bytes
  output : Bytes      -- leftover of the last block
deriving Repr

def AesHkdf.init (info : Bytes) : AesHkdf := ⟨info, 1, [], []⟩

/-- generate `n` more blocks: (concatenation, last block, counter after) -/
def aesHkdfGen (E : Bytes → Bytes) (info : Bytes) : Nat → Bytes → UInt8 → Bytes × Bytes × UInt8
  | 0, prev, c => ([], prev, c)
  | n + 1, prev, c =>
    let t := cbcMacFull E (prev ++ info ++ [c])
    let (rest, last, c') := aesHkdfGen E info n t (c + 1)
    (t ++ rest, last, c')

/-- `(*aesHKDF).Read(p)` with `len(p) = need`: the bytes read and the new state, `none` = "entropy limit reached" -/
def AesHkdf.read (E : Bytes → Bytes) (s : AesHkdf) (need : Nat) : Option (Bytes × AesHkdf) :=
  let remains := s.output.length + ((255 : UInt8) - s.counter + 1).toNat * 16
  if remains < need then none
  else if need ≤ s.output.length then some (s.output.take need, { s with output := s.output.drop need })
  else
    let rest := need - s.output.length
    let nblocks := (rest + 15) / 16
    let (stream, last, c') := aesHkdfGen E s.info nblocks s.prev s.counter
    some (s.output ++ stream.take rest, { s with prev := last, counter := c', output := last.drop (rest - 16 * (nblocks - 1)) })

/-- a sequence of reads -/
def AesHkdf.reads (E : Bytes → Bytes) : AesHkdf → List Nat → Option (List Bytes)
  | _, [] => some []
  | s, n :: ns =>
    match s.read E n with
    | none => none
    | some (b, s') => (AesHkdf.reads E s' ns).map (b :: ·)

end Cose.Key
