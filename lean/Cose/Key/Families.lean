import Cose.Key.Core
import Cose.Key.Prims
/-!
# `CheckKey` of the five symmetric families, driven by the generated skeletons
(`Gen.Tables.ck_key_*`: key type, accepted labels, accepted algorithms, accepted key_ops)
-/
namespace Cose.Key
open Cose.Go Cose.Gen Cose.Gen.Tables

/-- the label loop `for p := range k { switch p { … } }` of a CheckKey, from its generated skeleton -/
def labelsOk (f : CheckKeyFacts) (k : Key) : Bool :=
  k.all (fun kv =>
    match kv.1 with
    | .text _ => !f.rejectsOtherLabels
    | .int p =>
      if f.plainLabels.contains p then true
      else if f.hasAlgCase && p == Iana.KeyParameterAlg then f.algs.contains (alg k)
      else if f.hasOpsCase && p == Iana.KeyParameterKeyOps then
        (match ops k with
         | none => true
         | some l => l.all (fun o => f.ops.contains o))
      else !f.rejectsOtherLabels)

/-- RECOMMENDED kid: if present it must be a non-empty byte string -/
def kidOk (k : Key) : Bool :=
  if k.has (lbl Iana.KeyParameterKid) then
    match getBytes (k.lookup (lbl Iana.KeyParameterKid)) with
    | .ok (some b) => !b.isEmpty
    | _ => false
  else true

/-- CheckKey of a symmetric family (hmac, aesmac, aesgcm, aesccm, chacha20poly1305) -/
def checkSymmetric (f : CheckKeyFacts) (keySize : Int → Nat) (k : Key) : Bool :=
  f.kty.contains (kty k) && labelsOk f k &&
  (match getBytes (k.lookup (lbl Iana.SymmetricKeyParameterK)) with
   | .ok kb => keySize (alg k) != 0 && (kb.getD []).length == keySize (alg k)
   | _ => false) && kidOk k

def chachaKeySizeOf (a : Int) : Nat := nth (swRow sw_key_chacha20poly1305_getKeySize a) 0

def checkHmac (k : Key) : Bool := checkSymmetric ck_key_hmac hmacKeySize k
def checkAesmac (k : Key) : Bool := checkSymmetric ck_key_aesmac aesmacKeySize k
def checkAesgcm (k : Key) : Bool := checkSymmetric ck_key_aesgcm gcmKeySize k
def checkAesccm (k : Key) : Bool := checkSymmetric ck_key_aesccm ccmKeySize k
def checkChacha (k : Key) : Bool := checkSymmetric ck_key_chacha20poly1305 chachaKeySizeOf k

/-- the secret `k` bytes of a checked symmetric key -/
def symKeyBytes (k : Key) : Bytes :=
  match getBytes (k.lookup (lbl Iana.SymmetricKeyParameterK)) with
  | .ok (some b) => b
  | _ => []

end Cose.Key
