import Cose.Key.Ec
/-! # ECDH keys and the `ECDHer` object (mirror of /repo/key/ecdh/ecdh.go) -/
namespace Cose.Key
open Cose.Go Cose.Gen Cose.Gen.Tables Cose.Crypto

inductive EcdhCurve
  | nist (c : Curve)
  | x25519

/-- `ecdh.getCurve(crv)` + `getKeySize` from the generated tables -/
def ecdhCurve (crv : Int) : Option (EcdhCurve × Nat) :=
  match sw_key_ecdh_getCurve.srows.lookup crv with
  | some [name] =>
    if name == "goecdh.X25519()" then some (.x25519, 32)
    else (curveByName name).map (fun c => (.nist c, c.byteLen))
  | _ => none

def opDeriveKey : Int := Iana.KeyOperationDeriveKey
def opDeriveBits : Int := Iana.KeyOperationDeriveBits

def checkEcdh (k : Key) : Bool :=
  let kt := kty k
  let hasD := k.has (lbl Iana.EC2KeyParameterD)
  let hasX := k.has (lbl Iana.EC2KeyParameterX)
  let hasY := k.has (lbl Iana.EC2KeyParameterY)
  ck_key_ecdh.kty.contains kt && labelsOk ck_key_ecdh k &&
  -- the key_ops case has a body: derive operations are only allowed on a private key
  (match ops k with
   | some l => l.isEmpty || hasD || !k.has (lbl Iana.KeyParameterKeyOps)
   | none => true) &&
  (match getInt (k.lookup (lbl Iana.EC2KeyParameterCrv)) with
   | .ok c =>
     (match ecdhCurve c with
      | none => false
      | some (_, ks) =>
        (!hasD || lenOf (getB k Iana.EC2KeyParameterD) == ks) &&
        (if hasX || hasY then
           (lenOf (getB k Iana.EC2KeyParameterX) != 0 && lenOf (getB k Iana.EC2KeyParameterX) ≤ ks) &&
           (if hasY then
              kt != Iana.KeyTypeOKP &&
              (match getBool (k.lookup (lbl Iana.EC2KeyParameterY)) with
               | .ok _ => true
               | _ => match getBytes (k.lookup (lbl Iana.EC2KeyParameterY)) with
                 | .ok y => lenOf y != 0 && lenOf y ≤ ks
                 | _ => false)
            else kt != Iana.KeyTypeEC2)
         else true))
   | _ => false) &&
  (hasD || hasX) && kidOk k

/-- `curve.NewPrivateKey(d)`: NIST scalars must lie in [1, n−1] -/
def ecdhScalarOk (c : EcdhCurve) (d : Bytes) : Bool :=
  match c with
  | .x25519 => d.length == 32
  | .nist cv => d.length == cv.byteLen && os2ip d != 0 && os2ip d < cv.n

/-- `ecdh.ToPublicKey` (the kid must be present: the default kid is a SHA-3 digest, outside the model) -/
def ecdhToPublic (k : Key) : Res Key :=
  if !checkEcdh k then .err "key-invalid"
  else if !k.has (lbl Iana.EC2KeyParameterD) then .ok k
  else
    match getInt (k.lookup (lbl Iana.EC2KeyParameterCrv)) with
    | .ok crv =>
      (match ecdhCurve crv with
       | none => .err "key-invalid"
       | some (c, _) =>
         let d := (getB k Iana.EC2KeyParameterD).getD []
         if !ecdhScalarOk c d then .err "scalar"
         else
           let base : Key := [(lbl Iana.KeyParameterKty, (k.lookup (lbl Iana.KeyParameterKty)).getD .nil),
                              (lbl Iana.EC2KeyParameterCrv, (k.lookup (lbl Iana.EC2KeyParameterCrv)).getD .nil)]
           let b := copyCommon k base []
           match c with
           | .x25519 => .ok (b.set (lbl Iana.OKPKeyParameterX) (.bytes (x25519 d x25519BasePoint)))
           | .nist cv =>
             match scalarBaseMult cv (os2ip d) with
             | .affine px py => .ok ((b.set (lbl Iana.EC2KeyParameterX) (.bytes (fixedLen cv.byteLen px))).set
                                      (lbl Iana.EC2KeyParameterY) (.bytes (fixedLen cv.byteLen py)))
             | .inf => .err "scalar")
    | _ => .err "key-invalid"

/-- `ecdh.keyToPublic` of a checked public key: the remote point -/
inductive RemotePoint
  | nist (c : Curve) (x y : Nat)
  | x25519 (u : Bytes)

def ecdhRemote (pk : Key) : Res RemotePoint :=
  match getInt (pk.lookup (lbl Iana.EC2KeyParameterCrv)) with
  | .ok crv =>
    (match ecdhCurve crv with
     | none => .err "crv"
     | some (.x25519, _) =>
       let x := (getB pk Iana.EC2KeyParameterX).getD []
       if x.length == 32 then .ok (.x25519 x) else .err "x-size"
     | some (.nist cv, _) =>
       let x := (getB pk Iana.EC2KeyParameterX).getD []
       match getB pk Iana.EC2KeyParameterY with
       | some y =>
         if isOnCurve cv (os2ip x) (os2ip y) then .ok (.nist cv (os2ip x) (os2ip y)) else .err "not-on-curve"
       | none =>
         match getBool (pk.lookup (lbl Iana.EC2KeyParameterY)) with
         | .ok b =>
           let xs := stripZeros x
           if xs.length > cv.byteLen then .err "x-too-long"
           else (match decompress cv (os2ip xs) b with
             | some (px, py) => .ok (.nist cv px py)
             | none => .err "not-on-curve")
         | _ => .err "y-type")
  | _ => .err "crv"

/-- `NewECDHer(k)` then `ECDH(remote)` with the local key's current key_ops `cur` -/
def ecdhDerive (k : Key) (cur : Option (List Int)) (remote : Key) : Res Bytes :=
  if !k.has (lbl Iana.EC2KeyParameterD) || !checkEcdh k then .err "new"
  else
    match getInt (k.lookup (lbl Iana.EC2KeyParameterCrv)) with
    | .ok crv =>
      (match ecdhCurve crv with
       | none => .err "new"
       | some (c, _) =>
         let d := (getB k Iana.EC2KeyParameterD).getD []
         if !ecdhScalarOk c d then .err "new"
         else if !opsEmptyOrHas cur opDeriveKey && !opsEmptyOrHas cur opDeriveBits then .err "key-ops"
         else if remote.has (lbl Iana.EC2KeyParameterD) then .err "remote-private"
         else if !checkEcdh remote then .err "remote-invalid"
         else
           match ecdhRemote remote, c with
           | .ok (.x25519 u), .x25519 =>
             let out := x25519 d u
             if x25519IsAllZero out then .err "low-order" else .ok out
           | .ok (.nist rc rx ry), .nist cv =>
             if rc.p != cv.p then .err "curve-mismatch"
             else (match ecdh cv (os2ip d) rx ry with
               | some sx => .ok (fixedLen cv.byteLen sx)
               | none => .err "not-on-curve")
           | .ok _, _ => .err "curve-mismatch"
           | .err e, _ => .err e
           | .panic s, _ => .panic s)
    | _ => .err "new"

/-- `ecdh.ToCompressedKey` -/
def ecdhCompress (k : Key) : Res Key :=
  if !checkEcdh k then .err "key-invalid"
  else if kty k == Iana.KeyTypeOKP then .ok k
  else
    let base : Key := [(lbl Iana.KeyParameterKty, .int .int Iana.KeyTypeEC2),
                       (lbl Iana.EC2KeyParameterCrv, (k.lookup (lbl Iana.EC2KeyParameterCrv)).getD .nil)]
    if k.has (lbl Iana.EC2KeyParameterD) then
      .ok (base.set (lbl Iana.EC2KeyParameterD) ((k.lookup (lbl Iana.EC2KeyParameterD)).getD .nil))
    else
      let b1 := base.set (lbl Iana.EC2KeyParameterX) ((k.lookup (lbl Iana.EC2KeyParameterX)).getD .nil)
      match getBool (k.lookup (lbl Iana.EC2KeyParameterY)) with
      | .ok b => .ok (b1.set (lbl Iana.EC2KeyParameterY) (.bool b))
      | _ =>
        let y := (getB k Iana.EC2KeyParameterY).getD []
        .ok (b1.set (lbl Iana.EC2KeyParameterY) (.bool (os2ip y % 2 == 1)))

end Cose.Key
