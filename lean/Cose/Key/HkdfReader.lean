import Cose.Key.Prims
import Cose.Crypto.ConstructionLemmas
/-!
# The Go `aesHKDF` reader, over every sequence of reads

`AesHkdf.read` mirrors `(*aesHKDF).Read` (counter in a `uint8`, leftover of the last block kept in `output`).
Here: an invariant that ties the reader's state after any history of reads to the RFC 5869 block sequence
`hkdfBlocks`, and from it — for *every* chunking — (1) a sequence of reads succeeds iff its total is ≤ 255 blocks,
(2) the concatenation of what was read is the one-shot HKDF-AES output of the total length.
-/
namespace Cose.Key
open Cose.Crypto

variable (E : Bytes → Bytes) (info : Bytes)

/-- T(1) ‖ … ‖ T(n) and T(n) for HKDF-AES -/
abbrev hb (n : Nat) : Bytes × Bytes := hkdfBlocks (aesPrf E) [] info n

theorem aesPrf_len (hE : ∀ b, (E b).length = 16) : ∀ k m, (aesPrf E k m).length = 16 := by
  intro k m
  unfold aesPrf cbcMacFull
  exact cbcChain_length E hE _ _ _ (zeros_length 16)

theorem hb_length (hE : ∀ b, (E b).length = 16) (n : Nat) : (hb E info n).1.length = n * 16 :=
  hkdfBlocks_length (aesPrf E) 16 (aesPrf_len E hE) [] info n

theorem hb_snd_length (hE : ∀ b, (E b).length = 16) (n : Nat) : (hb E info (n + 1)).2.length = 16 := by
  show (aesPrf E [] _).length = 16
  exact aesPrf_len E hE _ _

/-- the full 255-block stream -/
abbrev full : Bytes := (hb E info 255).1

theorem hb_eq_take (hE : ∀ b, (E b).length = 16) (n : Nat) (h : n ≤ 255) :
    (hb E info n).1 = (full E info).take (n * 16) := by
  obtain ⟨k, hk⟩ := Nat.exists_eq_add_of_le h
  obtain ⟨rest, hr⟩ := hkdfBlocks_prefix (aesPrf E) [] info n k
  unfold full hb
  rw [hk, hr, List.take_append_of_le_length (by rw [hkdfBlocks_length (aesPrf E) 16 (aesPrf_len E hE)]; omega)]
  rw [List.take_of_length_le (by rw [hkdfBlocks_length (aesPrf E) 16 (aesPrf_len E hE)]; omega)]

theorem full_length (hE : ∀ b, (E b).length = 16) : (full E info).length = 4080 := by
  have := hb_length E info hE 255
  simpa using this

theorem hb_succ (n : Nat) : (hb E info (n + 1)).1 = (hb E info n).1 ++ (hb E info (n + 1)).2 := rfl

theorem hb_succ_snd (n : Nat) :
    (hb E info (n + 1)).2 = cbcMacFull E ((hb E info n).2 ++ info ++ [UInt8.ofNat (n + 1)]) := rfl

theorem u8_succ (g : Nat) : UInt8.ofNat (g + 1) + 1 = UInt8.ofNat (g + 1 + 1) := by
  have := UInt8.ofNat_add (g + 1) 1
  simpa using this.symm

/-- generating `k` more blocks from the state after `g` blocks yields blocks g+1 … g+k -/
theorem aesHkdfGen_eq (hE : ∀ b, (E b).length = 16) : ∀ (k g : Nat),
    aesHkdfGen E info k (hb E info g).2 (UInt8.ofNat (g + 1)) =
      ((hb E info (g + k)).1.drop (g * 16), (hb E info (g + k)).2, UInt8.ofNat (g + k + 1))
  | 0, g => by
    simp only [aesHkdfGen, Nat.add_zero]
    rw [List.drop_of_length_le (by rw [hb_length E info hE]; omega)]
  | k + 1, g => by
    simp only [aesHkdfGen]
    rw [← hb_succ_snd E info g, u8_succ, aesHkdfGen_eq hE k (g + 1)]
    have e : g + 1 + k = g + (k + 1) := by omega
    rw [e]
    refine Prod.ext ?_ (Prod.ext rfl rfl)
    show (hb E info (g + 1)).2 ++ List.drop ((g + 1) * 16) (hb E info (g + (k + 1))).1 = _
    obtain ⟨rest, hr⟩ := hkdfBlocks_prefix (aesPrf E) [] info (g + 1) k
    have hr' : (hb E info (g + (k + 1))).1 = (hb E info (g + 1)).1 ++ rest := by rw [← e]; exact hr
    rw [hr', hb_succ]
    have l1 := hb_length E info hE g
    have l2 := hb_snd_length E info hE g
    have d1 : List.drop (g * 16) (((hb E info g).1 ++ (hb E info (g + 1)).2) ++ rest) = (hb E info (g + 1)).2 ++ rest := by
      rw [List.append_assoc]; exact List.drop_left' l1
    have d2 : List.drop ((g + 1) * 16) (((hb E info g).1 ++ (hb E info (g + 1)).2) ++ rest) = rest :=
      List.drop_left' (by rw [List.length_append, l1, l2, Nat.succ_mul])
    rw [d1, d2]

/-! ## list bookkeeping -/

theorem take_drop_take {α} (l : List α) (a c n : Nat) (h : c + n ≤ a) :
    ((l.take a).drop c).take n = (l.drop c).take n := by
  rw [List.drop_take, List.take_take, Nat.min_eq_left (by omega)]

theorem take_split {α} (l : List α) (c m r : Nat) :
    (l.drop c).take (m + r) = (l.drop c).take m ++ (l.drop (c + m)).take r := by
  rw [List.take_add, List.drop_drop]

theorem u8_remaining : ∀ g, g < 256 → ((255 : UInt8) - UInt8.ofNat (g + 1) + 1).toNat = 255 - g := by
  decide +kernel

/-- reader invariant: `g` blocks generated, `c` bytes handed out -/
structure RInv (s : AesHkdf) (g c : Nat) : Prop where
  hinfo : s.info = info
  hprev : s.prev = (hb E info g).2
  hctr : s.counter = UInt8.ofNat (g + 1)
  hout : s.output = ((full E info).take (g * 16)).drop c
  hc : c ≤ g * 16
  hg : g ≤ 255

theorem rinv_init : RInv E info (AesHkdf.init info) 0 0 :=
  ⟨rfl, rfl, rfl, by simp [AesHkdf.init], by omega, by omega⟩

theorem rinv_out_length (hE : ∀ b, (E b).length = 16) {s : AesHkdf} {g c : Nat} (h : RInv E info s g c) :
    s.output.length = g * 16 - c := by
  rw [h.hout, List.length_drop, List.length_take, full_length E info hE]
  have := h.hg
  omega

/-- a read that would pass 255 blocks in total is refused, whatever the history -/
theorem read_refused (hE : ∀ b, (E b).length = 16) {s : AesHkdf} {g c : Nat} (h : RInv E info s g c) (n : Nat)
    (hn : c + n > 4080) : s.read E n = none := by
  have hl := rinv_out_length E info hE h
  have hr := u8_remaining g (by have := h.hg; omega)
  unfold AesHkdf.read
  simp only [h.hctr, hr, hl]
  have := h.hc; have := h.hg
  have : g * 16 - c + (255 - g) * 16 < n := by omega
  simp [this]

/-- a read within the limit returns the next `n` bytes of the stream and re-establishes the invariant -/
theorem read_ok (hE : ∀ b, (E b).length = 16) {s : AesHkdf} {g c : Nat} (h : RInv E info s g c) (n : Nat)
    (hn : c + n ≤ 4080) :
    ∃ s' g', s.read E n = some (((full E info).drop c).take n, s') ∧ RInv E info s' g' (c + n) := by
  have hl := rinv_out_length E info hE h
  have hr := u8_remaining g (by have := h.hg; omega)
  have hc := h.hc; have hg := h.hg
  unfold AesHkdf.read
  simp only [h.hctr, hr, hl]
  have h1 : ¬ (g * 16 - c + (255 - g) * 16 < n) := by omega
  simp only [h1, if_false]
  by_cases hsmall : n ≤ g * 16 - c
  · simp only [hsmall, if_true]
    refine ⟨{ s with output := s.output.drop n }, g, ?_, ?_⟩
    · rw [h.hout, take_drop_take _ _ _ _ (by omega)]; simp only [h.hctr]
    · exact ⟨h.hinfo, h.hprev, h.hctr, by simp only [h.hout, List.drop_drop], by omega, hg⟩
  · simp only [hsmall, if_false]
    obtain ⟨rest, hrestdef⟩ : ∃ rest, rest = n - (g * 16 - c) := ⟨_, rfl⟩
    obtain ⟨nb, hnbdef⟩ : ∃ nb, nb = (rest + 15) / 16 := ⟨_, rfl⟩
    rw [← hrestdef, ← hnbdef]
    have hgen := aesHkdfGen_eq E info hE nb g
    rw [h.hinfo, h.hprev, hgen]
    simp only []
    have hrest : c + n = g * 16 + rest := by omega
    have hrpos : 1 ≤ rest := by omega
    have hnb : rest ≤ nb * 16 := by omega
    have hnb' : (nb - 1) * 16 < rest := by omega
    have hnpos : 1 ≤ nb := by omega
    have hg' : g + nb ≤ 255 := by omega
    refine ⟨{ info := info, counter := UInt8.ofNat (g + nb + 1), prev := (hb E info (g + nb)).2,
              output := List.drop (rest - 16 * (nb - 1)) (hb E info (g + nb)).2 }, g + nb, ?_, ?_⟩
    · congr 1
      refine Prod.ext ?_ rfl
      show s.output ++ _ = _
      rw [h.hout, hb_eq_take E info hE _ hg']
      have e : n = (g * 16 - c) + rest := by omega
      conv => rhs; rw [e, take_split]
      congr 1
      · rw [List.drop_take]
      · rw [show c + (g * 16 - c) = g * 16 by omega, List.drop_take, List.take_take, Nat.min_eq_left (by
          rw [Nat.add_mul]; omega)]
    · refine ⟨rfl, rfl, rfl, ?_, by omega, hg'⟩
      show List.drop _ (hb E info (g + nb)).2 = _
      obtain ⟨m, hm⟩ : ∃ m, nb = m + 1 := ⟨nb - 1, by omega⟩
      subst hm
      rw [← hb_eq_take E info hE _ hg', ← Nat.add_assoc, hb_succ]
      have la := hb_length E info hE (g + m)
      rw [show c + n = (hb E info (g + m)).1.length + (rest - 16 * (m + 1 - 1)) by
        rw [la, Nat.add_mul]; simp only [Nat.add_sub_cancel] at hnb' ⊢; omega]
      rw [List.drop_append]
      have z : List.drop (List.length (hb E info (g + m)).1 + (rest - 16 * (m + 1 - 1))) (hb E info (g + m)).1 = [] :=
        List.drop_of_length_le (by omega)
      rw [z, Nat.add_sub_cancel_left, List.nil_append]

/-- any sequence of reads from a state satisfying the invariant: it succeeds iff the total stays within 255 blocks,
    and then hands out the next bytes of the stream, chunk by chunk -/
theorem reads_from (hE : ∀ b, (E b).length = 16) : ∀ (ns : List Nat) (s : AesHkdf) (g c : Nat), RInv E info s g c →
    (c + ns.sum ≤ 4080 → ∃ bs, AesHkdf.reads E s ns = some bs ∧ bs.flatten = ((full E info).drop c).take ns.sum
        ∧ bs.map List.length = ns)
    ∧ (c + ns.sum > 4080 → AesHkdf.reads E s ns = none)
  | [], s, g, c, h => ⟨fun _ => ⟨[], rfl, by simp, rfl⟩, fun hh => by
      have := h.hc; have := h.hg; simp at hh; omega⟩
  | n :: ns, s, g, c, h => by
    simp only [List.sum_cons]
    by_cases hn : c + n ≤ 4080
    · obtain ⟨s', g', hread, hinv⟩ := read_ok E info hE h n hn
      obtain ⟨ihok, ihbad⟩ := reads_from hE ns s' g' (c + n) hinv
      constructor
      · intro htot
        obtain ⟨bs, hbs, hflat, hlen⟩ := ihok (by omega)
        refine ⟨((full E info).drop c).take n :: bs, ?_, ?_, ?_⟩
        · simp only [AesHkdf.reads, hread, hbs, Option.map_some]
        · rw [List.flatten_cons, hflat, take_split]
        · have hfl := full_length E info hE
          show (List.take n (List.drop c (full E info))).length :: bs.map List.length = n :: ns
          rw [hlen, List.length_take, List.length_drop, hfl, Nat.min_eq_left (by omega)]
      · intro htot
        simp only [AesHkdf.reads, hread, ihbad (by omega), Option.map_none]
    · constructor
      · intro htot; omega
      · intro _
        simp only [AesHkdf.reads, read_refused E info hE h n (by omega)]

/-- the one-shot output is the prefix of the stream -/
theorem hkdfAesSpec_eq_take (hE : ∀ b, (E b).length = 16) (l : Nat) (h : l ≤ 4080) :
    hkdfAesSpec E info l = some ((full E info).take l) := by
  unfold hkdfAesSpec hkdfExpand
  have a : ¬ l > 255 * 16 := by omega
  simp only [a, if_false]
  have hb' := hb_eq_take E info hE ((l + 16 - 1) / 16) (by omega)
  show some (List.take l (hb E info ((l + 16 - 1) / 16)).1) = _
  rw [hb', List.take_take, Nat.min_eq_left (by omega)]

end Cose.Key
