import Cose.Key.Families
/-!
# Implementation objects (`key.MACer`, `key.Encryptor`) for the symmetric families

An implementation keeps the key *by reference*: every call re-reads `key_ops` from the key as it is
**now**.  The model makes that explicit: operations take the current `key_ops` value as an argument
(`cur`), the object itself holds what was fixed at construction.
-/
namespace Cose.Key
open Cose.Go Cose.Gen

inductive SymFamily | hmac | aesmac | aesgcm | aesccm | chacha
deriving Repr, DecidableEq

def famOfPkg : String → Option SymFamily
  | "key/hmac" => some .hmac
  | "key/aesmac" => some .aesmac
  | "key/aesgcm" => some .aesgcm
  | "key/aesccm" => some .aesccm
  | "key/chacha20poly1305" => some .chacha
  | _ => none

def SymFamily.check : SymFamily → Key → Bool
  | .hmac => checkHmac | .aesmac => checkAesmac | .aesgcm => checkAesgcm | .aesccm => checkAesccm | .chacha => checkChacha

/-- what a symmetric implementation object fixed at construction -/
structure SymImpl where
  fam : SymFamily
  key : Key           -- the key as it was when the object was made (alg, k, kid, Base IV are taken from here)
deriving Repr

/-- `Key.MACer()` / `Key.Encryptor()`: nil key, registry dispatch on (kty, alg, crv), then the factory's CheckKey -/
def newSym (kind : String) (k : Option Key) : Res SymImpl :=
  match k with
  | none => .err "nil-key"
  | some k =>
    match registered kind (tripleKey k) with
    | none => .err "not-registered"
    | some pkg =>
      match famOfPkg pkg with
      | none => .err "not-registered"
      | some fam => if fam.check k then .ok ⟨fam, k⟩ else .err "key-invalid"

def opMacCreate : Int := Iana.KeyOperationMacCreate
def opMacVerify : Int := Iana.KeyOperationMacVerify
def opEncrypt : Int := Iana.KeyOperationEncrypt
def opDecrypt : Int := Iana.KeyOperationDecrypt

/-- `MACCreate(data)` with the key's *current* key_ops `cur` -/
def SymImpl.macCreate (m : SymImpl) (cur : Option (List Int)) (data : Bytes) : Res Bytes :=
  if !opsEmptyOrHas cur opMacCreate then .err "key-ops"
  else match m.fam with
    | .hmac => (match hmacCreate (alg m.key) (symKeyBytes m.key) data with | some t => .ok t | none => .err "hash")
    | .aesmac => aesmacCreate (alg m.key) (symKeyBytes m.key) data
    | _ => .err "not-a-macer"

/-- `MACVerify(data, mac)` -/
def SymImpl.macVerify (m : SymImpl) (cur : Option (List Int)) (data mac : Bytes) : Res Unit :=
  if !opsEmptyOrHas cur opMacVerify then .err "key-ops"
  else match m.fam with
    | .hmac => (match hmacCreate (alg m.key) (symKeyBytes m.key) data with
        | some t => if Cose.Key.macVerify t mac then .ok () else .err "auth"
        | none => .err "hash")
    | .aesmac => (match aesmacCreate (alg m.key) (symKeyBytes m.key) data with
        | .ok t => if Cose.Key.macVerify t mac then .ok () else .err "auth"
        | .err e => .err e
        | .panic s => .panic s)
    | _ => .err "not-a-macer"

def SymImpl.nonceSize (m : SymImpl) : Nat :=
  match m.fam with
  | .aesgcm => gcmNonceSize
  | .aesccm => ccmNonceSize (alg m.key)
  | .chacha => chachaNonceSize
  | _ => 0

def SymImpl.encrypt (m : SymImpl) (cur : Option (List Int)) (iv pt aad : Bytes) : Res Bytes :=
  if !opsEmptyOrHas cur opEncrypt then .err "key-ops"
  else match m.fam with
    | .aesgcm => gcmEncrypt (symKeyBytes m.key) iv pt aad
    | .aesccm => ccmEncrypt (alg m.key) (symKeyBytes m.key) iv pt aad
    | .chacha => chachaEncrypt (symKeyBytes m.key) iv pt aad
    | _ => .err "not-an-encryptor"

def SymImpl.decrypt (m : SymImpl) (cur : Option (List Int)) (iv ct aad : Bytes) : Res Bytes :=
  if !opsEmptyOrHas cur opDecrypt then .err "key-ops"
  else match m.fam with
    | .aesgcm => gcmDecrypt (symKeyBytes m.key) iv ct aad
    | .aesccm => ccmDecrypt (alg m.key) (symKeyBytes m.key) iv ct aad
    | .chacha => chachaDecrypt (symKeyBytes m.key) iv ct aad
    | _ => .err "not-an-encryptor"

end Cose.Key
