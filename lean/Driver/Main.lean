import Cose.Driver.Cwt
import Cose.Driver.CborOps
import Cose.Driver.MapOps
import Cose.Driver.PrimOps
import Cose.Driver.KeyOps
import Cose.Driver.SigOps
import Cose.Driver.EcdhOps
import Cose.Driver.MsgOps
import Cose.Driver.DecOps
import Cose.Driver.IanaOps
import Cose.Driver.ApiOps
/-!
Line-protocol driver: one operation per input line, one answer per output line.
`<family>.<op> arg…` → answer.  Unknown operations answer `unknown-op` (never a default value).
-/
open Cose.Driver

/-- tokens after the last `;;` -/
def lastSegment (ts : List String) : List String :=
  ts.foldl (fun acc t => if t == ";;" then [] else acc ++ [t]) []

def answerToks : List String → String
  | [] => ""
  | op :: args =>
    match (Cwt.dispatch op args <|> CborOps.dispatch op args <|> MapOps.dispatch op args <|> PrimOps.dispatch op args <|> KeyOps.dispatch op args <|> SigOps.dispatch op args <|> EcdhOps.dispatch op args <|> MsgOps.dispatch op args <|> DecOps.dispatch op args <|> IanaOps.dispatch op args <|> ApiOps.dispatch op args) with
    | some r => r
    | none => "unknown-op"

/-- `seq <op A> ;; <op B> …`: the library executes the operations one after the other *on the same key objects*
    and answers the last one; the model is history-free — the answer is that of the last operation alone. -/
def answer (line : String) : String :=
  match tokens (line.trimAscii.toString) with
  | "seq" :: rest => answerToks (lastSegment rest)
  | ts => answerToks ts

partial def loop (h : IO.FS.Stream) (out : IO.FS.Stream) : IO Unit := do
  let line ← h.getLine
  if line.isEmpty then return ()
  out.putStrLn (answer line)
  loop h out

def main : IO Unit := do
  let out ← IO.getStdout
  loop (← IO.getStdin) out
  out.flush
