// Command nolinksig checks that the signature algorithms do not depend on the *application* having linked the hash
// implementations: this program imports no hash package and none of the library's MAC packages (key/hmac links SHA-2
// itself since 69f9a82, which would mask the dependency).
package main

import (
	"fmt"
	"os"

	"github.com/ldclabs/cose/iana"
	"github.com/ldclabs/cose/key"
	"github.com/ldclabs/cose/key/ecdsa"
	"github.com/ldclabs/cose/key/ed25519"
)

// a generated key signs, and the verifier of the derived public key accepts that signature and no other message
func try(alg int) (res string) {
	defer func() {
		if r := recover(); r != nil {
			res = fmt.Sprint("panic ", r)
		}
	}()
	var k key.Key
	var err error
	if alg == iana.AlgorithmEdDSA {
		k, err = ed25519.GenerateKey()
	} else {
		k, err = ecdsa.GenerateKey(alg)
	}
	if err != nil {
		return "err " + err.Error()
	}
	s, err := k.Signer()
	if err != nil {
		return "err " + err.Error()
	}
	sig, err := s.Sign([]byte("data"))
	if err != nil {
		return "err " + err.Error()
	}
	v, err := k.Verifier()
	if err != nil {
		return "err " + err.Error()
	}
	if err := v.Verify([]byte("data"), sig); err != nil {
		return "err " + err.Error()
	}
	if err := v.Verify([]byte("dat4"), sig); err == nil {
		return "err altered message accepted"
	}
	return "ok"
}

func main() {
	bad := 0
	for _, alg := range []int{iana.AlgorithmES256, iana.AlgorithmES384, iana.AlgorithmES512, iana.AlgorithmEdDSA} {
		r := try(alg)
		fmt.Printf("sig alg=%d %s\n", alg, r)
		if r != "ok" {
			bad++
		}
	}
	if bad > 0 {
		fmt.Println("MISMATCH: signature algorithm unusable without the application linking SHA-2")
		os.Exit(1)
	}
}
