package main

import (
	"fmt"
	"math/rand"
	"sort"
	"strconv"
	"strings"

	"github.com/ldclabs/cose/iana"
	"github.com/ldclabs/cose/key"
	_ "github.com/ldclabs/cose/key/aesccm"
	_ "github.com/ldclabs/cose/key/aesgcm"
	_ "github.com/ldclabs/cose/key/aesmac"
	_ "github.com/ldclabs/cose/key/chacha20poly1305"
	_ "github.com/ldclabs/cose/key/ecdsa"
	_ "github.com/ldclabs/cose/key/ed25519"
	_ "github.com/ldclabs/cose/key/hmac"
)

func init() {
	register(&family{name: "key", gen: genKeyOps, exec: execKey})
	register(&family{name: "impl", gen: genImplOps, exec: execImpl})
	subGens["impl:C16"] = func(r *rand.Rand, n int) []string { return genImplOpsX(r, n, true) }
	propFamilies["C16"] = []string{"impl:C16", "key"}
	propFamilies["C17"] = []string{"key", "impl"}
}

func splitBar(a []string) ([]string, []string) {
	for i, t := range a {
		if t == "|" {
			return a[:i], a[i+1:]
		}
	}
	return a, nil
}

func keyFromToks(toks []string) key.Key {
	if len(toks) == 1 && toks[0] == "nilkey" {
		return nil
	}
	if sharedKeys != nil {
		id := strings.Join(toks, " ")
		if k, ok := sharedKeys[id]; ok {
			trackKey(k.(key.Key))
			return k.(key.Key)
		}
		v, _ := parseVal(toks, 0)
		k := key.Key(v.(key.CoseMap))
		sharedKeys[id] = k
		trackKey(k)
		return k
	}
	v, _ := parseVal(toks, 0)
	k := key.Key(v.(key.CoseMap))
	trackKey(k)
	return k
}

func opsStr(o key.Ops) string {
	if o == nil {
		return "nil"
	}
	s := make([]string, len(o))
	for i, x := range o {
		s[i] = strconv.Itoa(x)
	}
	return "[" + strings.Join(s, ",") + "]"
}

func execKey(op string, a []string) string {
	switch op {
	case "key.info":
		k := keyFromToks(a)
		biv, err := k.GetBytes(iana.KeyParameterBaseIV)
		b := "err"
		if err == nil {
			b = hxOpt(biv)
		}
		// the convenience accessors agree with the generic ones
		if k != nil {
			if err == nil && string(k.BaseIV()) != string(biv) || err != nil && k.BaseIV() != nil {
				return "ACCESSOR-DISAGREES BaseIV"
			}
			enc, e1 := key.MarshalCBOR(k)
			if e1 == nil && string(k.Bytesify()) != string(enc) || e1 != nil && k.Bytesify() != nil {
				return "ACCESSOR-DISAGREES Bytesify"
			}
		}
		return fmt.Sprintf("ok kty=%d alg=%d ops=%s kid=%s baseiv=%s", k.Kty(), k.Alg(), opsStr(k.Ops()), hxOpt(k.Kid()), b)
	case "key.factory":
		// key.factory <kind> <key…> : does the registry hand out an implementation?
		k := keyFromToks(a[1:])
		var err error
		switch a[0] {
		case "MACer":
			_, err = k.MACer()
		case "Encryptor":
			_, err = k.Encryptor()
		case "Signer":
			_, err = k.Signer()
		case "Verifier":
			_, err = k.Verifier()
		}
		if err != nil {
			if strings.Contains(err.Error(), "is not registered") {
				return "err not-registered"
			}
			if strings.Contains(err.Error(), "nil key") {
				return "err nil-key"
			}
			return "err key-invalid"
		}
		return "ok"
	}
	return "unknown-op"
}

// fullMacOfKey: the untruncated MAC of the key's family over data (nil when the key is unusable)
func fullMacOfKey(k key.Key, data []byte) []byte {
	kb, err := k.GetBytes(iana.SymmetricKeyParameterK)
	if err != nil {
		return nil
	}
	defer func() { recover() }()
	return fullMac(int(k.Alg()), kb, data)
}

func applyOpsAfter(k key.Key, after []string) {
	switch {
	case len(after) == 0 || after[0] == "same":
	case after[0] == "del":
		delete(k, iana.KeyParameterKeyOps)
	default:
		v, _ := parseVal(after, 0)
		k[iana.KeyParameterKeyOps] = v
	}
	resnapKeys()
}

func execImpl(op string, a []string) string {
	switch op {
	case "impl.mac":
		// impl.mac <data> <key…> | <opsAfter…>
		data := unhx(a[0])
		kt, after := splitBar(a[1:])
		k := keyFromToks(kt)
		m, err := k.MACer()
		if err != nil {
			return "new:err"
		}
		applyOpsAfter(k, after)
		tag, err := m.MACCreate(data)
		c := "err"
		if err == nil {
			c = "ok:" + hx(tag)
		}
		// verification of the genuine tag (computed with an unrestricted copy of the key)
		k2 := key.Key{}
		for kk, vv := range k {
			if kk != iana.KeyParameterKeyOps {
				k2[kk] = vv
			}
		}
		v := "err"
		if m2, err := k2.MACer(); err == nil {
			if t2, err := m2.MACCreate(data); err == nil {
				if m.MACVerify(data, t2) == nil {
					v = "ok"
					// the MACer realises its own algorithm's tag length only: the tag with more octets behind it, and the
					// sibling algorithm's longer tag over the same key octets, are other tags
					for _, longer := range [][]byte{append(append([]byte{}, t2...), 0), append(append([]byte{}, t2...), t2...), fullMacOfKey(k2, data)} {
						if len(longer) > len(t2) && m.MACVerify(data, longer) == nil {
							return "OVERLONG-TAG-ACCEPTED " + hx(longer)
						}
					}
				}
			}
		}
		return fmt.Sprintf("new:ok create:%s verify:%s", c, v)
	case "impl.malformed":
		// spec op (C16): a key whose key_ops cannot be interpreted as a list of integers must not be usable for anything
		k := keyFromToks(a)
		if m, err := k.MACer(); err == nil {
			if _, err := m.MACCreate([]byte{1}); err == nil {
				return "usable mac-create"
			}
		}
		if e, err := k.Encryptor(); err == nil {
			if _, err := e.Encrypt(make([]byte, e.NonceSize()), []byte{1}, nil); err == nil {
				return "usable encrypt"
			}
		}
		return "unusable"
	case "impl.aead":
		// impl.aead <iv> <pt> <aad> <key…> | <opsAfter…>
		iv, pt, aad := unhx(a[0]), unhx(a[1]), unhx(a[2])
		kt, after := splitBar(a[3:])
		k := keyFromToks(kt)
		e, err := k.Encryptor()
		if err != nil {
			return "new:err"
		}
		applyOpsAfter(k, after)
		ct, err := e.Encrypt(iv, pt, aad)
		c := "err"
		if err == nil {
			c = "ok:" + hx(ct)
		}
		k2 := key.Key{}
		for kk, vv := range k {
			if kk != iana.KeyParameterKeyOps {
				k2[kk] = vv
			}
		}
		d := "err"
		if e2, err := k2.Encryptor(); err == nil {
			if ct2, err := e2.Encrypt(iv, pt, aad); err == nil {
				if p2, err := e.Decrypt(iv, ct2, aad); err == nil {
					d = "ok:" + hx(p2)
				}
			}
		}
		return fmt.Sprintf("new:ok noncesize:%d enc:%s dec:%s", e.NonceSize(), c, d)
	}
	return "unknown-op"
}

// ---- generators

var symAlgs = append(append(append(append([]int{}, hmacAlgs...), aesmacAlgs...), gcmAlgs...), append(ccmAlgs, iana.AlgorithmChaCha20Poly1305)...)

func opsToken(r *rand.Rand, ops []int) string {
	strs := make([]string, len(ops))
	for i, o := range ops {
		strs[i] = strconv.Itoa(o)
	}
	switch r.Intn(4) {
	case 0:
		return "ops[ " + strings.Join(append(strs, "]"), " ")
	case 1:
		return "ints[ " + strings.Join(append(strs, "]"), " ")
	default:
		parts := []string{"["}
		for _, o := range ops {
			parts = append(parts, uintToken(r.Intn, uint64(o)))
		}
		return strings.Join(append(parts, "]"), " ")
	}
}

func randSubset(r *rand.Rand) []int {
	var s []int
	switch r.Intn(4) {
	case 0: // small subsets of the family-relevant ops
		for _, o := range []int{1, 2, 3, 4, 9, 10} {
			if r.Intn(3) == 0 {
				s = append(s, o)
			}
		}
	case 1: // any subset of 1..10
		for o := 1; o <= 10; o++ {
			if r.Intn(2) == 0 {
				s = append(s, o)
			}
		}
	case 2: // a single op
		s = []int{1 + r.Intn(10)}
	default: // pair
		s = []int{[]int{9, 10, 3, 4, 1, 2}[r.Intn(6)], []int{9, 10, 3, 4, 1, 2}[r.Intn(6)]}
	}
	r.Shuffle(len(s), func(i, j int) { s[i], s[j] = s[j], s[i] })
	return s
}

var malformedOps = []string{"t:7369676e", "[ t:78 ]", "[ int:9 nil ]", "[ int:9 t:3130 ]", "int:9", "nil", "b:09", "[ f:9 ]", "[ [ int:9 ] ]", "{ int:1 int:9 }", "[ i64:4294967296 ]", "[ int:-1 ]", "[ int:0 ]"}

func genOpsValue(r *rand.Rand) string {
	if r.Intn(8) == 0 {
		return malformedOps[r.Intn(len(malformedOps))]
	}
	return opsToken(r, randSubset(r))
}

// genSymKey returns the tokens of a symmetric key for alg, with optional / broken members
func genSymKey(r *rand.Rand, alg int, mostlyValid bool) string {
	parts := []string{"{"}
	bad := func(p int) bool { return !mostlyValid && r.Intn(p) == 0 }
	kty := "int:4"
	if bad(12) {
		kty = []string{"int:1", "int:2", "i64:4", "u64:4", "t:34", "nil", "int:0"}[r.Intn(7)]
	}
	if !bad(20) {
		parts = append(parts, "int:1", kty)
	}
	ks := keySizeOf(alg)
	if bad(10) {
		ks = []int{0, 15, 16, 17, 31, 32, 33, 48, 64}[r.Intn(9)]
	}
	kv := []string{"b:", "b:", "b:", "bs:", "bx:"}[r.Intn(5)] + hx(randBytes(r, ks))
	if bad(15) {
		kv = []string{"bs:" + hx(randBytes(r, ks)), "bnil", "t:6b", "int:5", "nil", "[ int:1 ]"}[r.Intn(6)]
	}
	if !bad(25) {
		parts = append(parts, "int:-1", kv)
	}
	switch r.Intn(6) {
	case 0: // alg absent
	case 1:
		parts = append(parts, "int:3", intToken(r, int64(alg)))
	case 2:
		if !mostlyValid {
			parts = append(parts, "int:3", []string{"t:31", "nil", "int:0", fmt.Sprintf("int:%d", symAlgs[r.Intn(len(symAlgs))]), "int:-7", "i64:2147483648"}[r.Intn(6)])
		} else {
			parts = append(parts, "int:3", fmt.Sprintf("alg:%d", alg))
		}
	default:
		parts = append(parts, "int:3", fmt.Sprintf("%s:%d", []string{"int", "alg", "i64", "i8"}[r.Intn(4)], alg))
	}
	if r.Intn(2) == 0 {
		kid := []string{"b:", "b:", "bs:", "bx:"}[r.Intn(4)] + hx(randBytes(r, 1+r.Intn(8)))
		if bad(6) {
			kid = []string{"b:-", "bnil", "t:6b", "int:1", "nil", "bs:0102"}[r.Intn(6)]
		}
		parts = append(parts, "int:2", kid)
	}
	if r.Intn(3) == 0 {
		parts = append(parts, "int:4", genOpsValue(r))
	}
	if r.Intn(6) == 0 {
		// Base IV: an optional member, held as []byte, key.ByteStr (what Key.BaseIV() hands out) or another byte-slice type
		parts = append(parts, "int:5", []string{"b:", "bs:", "bx:"}[r.Intn(3)]+hx(randBytes(r, nonceSizeOf(alg))))
	}
	if bad(12) {
		parts = append(parts, []string{"int:6", "int:-2", "t:78", "int:100"}[r.Intn(4)], "int:1")
	}
	// shuffle pairs
	pairs := [][2]string{}
	for i := 1; i+1 < len(parts)+1 && i+1 <= len(parts)-0; i += 2 {
		if i+1 >= len(parts)+1 {
			break
		}
		if i+1 > len(parts)-1+1 {
			break
		}
		if i+1 <= len(parts)-1 {
			pairs = append(pairs, [2]string{parts[i], parts[i+1]})
		}
	}
	r.Shuffle(len(pairs), func(i, j int) { pairs[i], pairs[j] = pairs[j], pairs[i] })
	out := []string{"{"}
	seen := map[string]bool{}
	for _, p := range pairs {
		if seen[p[0]] {
			continue
		}
		seen[p[0]] = true
		out = append(out, p[0], p[1])
	}
	return strings.Join(append(out, "}"), " ")
}

func genKeyOps(r *rand.Rand, n int) []string {
	var out []string
	for i := 0; i < n; i++ {
		alg := symAlgs[r.Intn(len(symAlgs))]
		k := genSymKey(r, alg, r.Intn(2) == 0)
		if r.Intn(40) == 0 {
			k = "nilkey"
		}
		if k != "nilkey" {
			out = append(out, "key.info "+k)
		}
		out = append(out, "key.factory "+[]string{"MACer", "Encryptor", "MACer", "Encryptor", "Signer", "Verifier"}[r.Intn(6)]+" "+k)
	}
	return out
}

func genImplOps(r *rand.Rand, n int) []string { return genImplOpsX(r, n, false) }

func genImplOpsX(r *rand.Rand, n int, withMalformed bool) []string {
	var out, extra []string // extra: appended after the rest, the other cases keep their positions
	for i := 0; i < n; i++ {
		alg := symAlgs[r.Intn(len(symAlgs))]
		k := genSymKey(r, alg, r.Intn(5) != 0)
		after := "same"
		switch r.Intn(5) {
		case 0:
			after = "del"
		case 1, 2:
			after = genOpsValue(r)
		}
		isMac := isIn(alg, hmacAlgs) || isIn(alg, aesmacAlgs)
		if withMalformed && i%25 == 0 {
			bad := []string{"t:7369676e", "[ t:78 ]", "[ int:9 t:3130 ]", "int:9", "b:09", "[ f:9 ]", "[ [ int:9 ] ]", "{ int:1 int:9 }", "[ i64:4294967296 ]", "T"}
			out = append(out, "impl.malformed "+symKeyTok(alg, randBytes(r, keySizeOf(alg)), "int:4", bad[r.Intn(len(bad))]))
		}
		if i%10 == 3 {
			// fixed slots, every symmetric algorithm in turn: a key whose key_ops is in the form a decoder leaves it in
			// ([]any of uint64) or a caller's []any of int, naming both operations of the family; narrowed to one of them,
			// in each representation, after the implementation was obtained — the gate is evaluated at every call
			r2 := rand.New(rand.NewSource(int64(i)*104729 + 7))
			a2 := symAlgs[(i/10)%len(symAlgs)]
			mac2 := isIn(a2, hmacAlgs) || isIn(a2, aesmacAlgs)
			o1, o2 := 3, 4
			if mac2 {
				o1, o2 = 9, 10
			}
			rot := (i / 10 / len(symAlgs)) % 8
			init := []string{fmt.Sprintf("[ u64:%d u64:%d ]", o1, o2), fmt.Sprintf("[ int:%d int:%d ]", o2, o1)}[rot%2]
			aft := []string{fmt.Sprintf("[ u64:%d ]", o1), fmt.Sprintf("[ u64:%d ]", o2), fmt.Sprintf("ops[ %d ]", o1), fmt.Sprintf("ints[ %d ]", o2)}[(rot/2)%4]
			k2 := symKeyTok(a2, randBytes(r2, keySizeOf(a2)), "int:4", init)
			if mac2 {
				extra = append(extra, fmt.Sprintf("impl.mac %s %s | %s", hx(randBytes(r2, 1+r2.Intn(40))), k2, aft))
			} else {
				extra = append(extra, fmt.Sprintf("impl.aead %s %s %s %s | %s", hx(randBytes(r2, nonceSizeOf(a2))), hx(randBytes(r2, r2.Intn(40))), hx(randBytes(r2, r2.Intn(20))), k2, aft))
			}
		}
		if isMac {
			out = append(out, fmt.Sprintf("impl.mac %s %s | %s", hx(randBytes(r, 1+r.Intn(40))), k, after))
		} else {
			ivn := nonceSizeOf(alg)
			if r.Intn(10) == 0 {
				ivn += r.Intn(3) - 1
			}
			out = append(out, fmt.Sprintf("impl.aead %s %s %s %s | %s", hx(randBytes(r, ivn)), hx(randBytes(r, r.Intn(40))), hx(randBytes(r, r.Intn(20))), k, after))
		}
	}
	sort.SliceStable(out, func(i, j int) bool { return false })
	return append(out, extra...)
}
