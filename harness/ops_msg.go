package main

import (
	"bytes"
	"fmt"
	"math/rand"
	"reflect"
	"strings"

	"github.com/fxamacker/cbor/v2"
	"github.com/ldclabs/cose/cose"
	"github.com/ldclabs/cose/iana"
	"github.com/ldclabs/cose/key"
	"strconv"
)

func init() {
	register(&family{name: "msg", gen: genMsgOps, exec: execMsg})
	for _, p := range []string{"C01", "C02", "C03", "C04", "C05", "C06", "C09"} {
		propFamilies[p] = []string{"msg:" + p}
	}
	subGens["msg:C01"] = func(r *rand.Rand, n int) []string { return genMsg(r, n, "roundtrip") }
	subGens["msg:C02"] = func(r *rand.Rand, n int) []string { return genMsg(r, n, "tamper-auth") }
	subGens["msg:C03"] = func(r *rand.Rand, n int) []string { return genMsg(r, n, "tamper-enc") }
	subGens["msg:C04"] = func(r *rand.Rand, n int) []string {
		return append(genMsgForeign(r, n), genMsg(r, n/2, "roundtrip")...)
	}
	subGens["msg:C05"] = genMsgAlg
	subGens["msg:C06"] = genMsgNonce
	// C08: whatever encoding a message arrived in, what the library emits for it is the deterministic one
	subGens["msg:C08"] = func(r *rand.Rand, n int) []string {
		var out []string
		for _, l := range genMsgForeign(r, n/20+60) {
			if strings.HasPrefix(l, "msg.reencode ") {
				out = append(out, l)
			}
		}
		return out
	}
	subGens["msg:C09"] = func(r *rand.Rand, n int) []string {
		return append(genMsg(r, n, "reencode"), genMsgForeign(r, n/2)...)
	}
}

// ---- recording wrappers: expose the bytes handed to the primitives without any hook in the library

type recSigner struct {
	key.Signer
	seen [][]byte
}

func (r *recSigner) Sign(data []byte) ([]byte, error) {
	r.seen = append(r.seen, append([]byte{}, data...))
	return r.Signer.Sign(data)
}

// noAlgSigner: a signer whose Key() names no algorithm (only the kid) — what an application's own key.Signer (an HSM
// handle, a remote signer) may report; the library then has nothing to put into the signature's protected bucket
type noAlgSigner struct{ key.Signer }

func (n *noAlgSigner) Key() key.Key {
	out := key.Key{}
	if kid := n.Signer.Key().Kid(); len(kid) > 0 {
		out[iana.KeyParameterKid] = []byte(kid)
	}
	return out
}

// failSigner / failMacer: primitives that refuse (an HSM that is offline, a revoked key)
type failSigner struct{ key.Signer }

func (failSigner) Sign([]byte) ([]byte, error) { return nil, fmt.Errorf("signer unavailable") }

type failMacer struct{ key.MACer }

func (failMacer) MACCreate([]byte) ([]byte, error) { return nil, fmt.Errorf("macer unavailable") }

type recVerifier struct {
	key.Verifier
	log *[][]byte
}

func (r *recVerifier) Verify(data, sig []byte) error {
	*r.log = append(*r.log, append([]byte{}, data...))
	return r.Verifier.Verify(data, sig)
}

type recMacer struct {
	key.MACer
	seen [][]byte
}

func (r *recMacer) MACCreate(data []byte) ([]byte, error) {
	r.seen = append(r.seen, append([]byte{}, data...))
	return r.MACer.MACCreate(data)
}
func (r *recMacer) MACVerify(data, mac []byte) error {
	r.seen = append(r.seen, append([]byte{}, data...))
	return r.MACer.MACVerify(data, mac)
}

type recEncryptor struct {
	key.Encryptor
	aads, nonces [][]byte
}

func (r *recEncryptor) Encrypt(iv, pt, aad []byte) ([]byte, error) {
	r.aads = append(r.aads, append([]byte{}, aad...))
	r.nonces = append(r.nonces, append([]byte{}, iv...))
	return r.Encryptor.Encrypt(iv, pt, aad)
}
func (r *recEncryptor) Decrypt(iv, ct, aad []byte) ([]byte, error) {
	r.aads = append(r.aads, append([]byte{}, aad...))
	r.nonces = append(r.nonces, append([]byte{}, iv...))
	return r.Encryptor.Decrypt(iv, ct, aad)
}

func joinHex(bs [][]byte) string {
	if len(bs) == 0 {
		return "none"
	}
	s := make([]string, len(bs))
	for i, b := range bs {
		s[i] = hx(b)
	}
	return strings.Join(s, ",")
}

// ---- argument parsing: fields separated by "|"

func splitAll(a []string) [][]string {
	var out [][]string
	cur := []string{}
	for _, t := range a {
		if t == "|" {
			out = append(out, cur)
			cur = []string{}
		} else {
			cur = append(cur, t)
		}
	}
	return append(out, cur)
}

func hdrFromToks(t []string) cose.Headers {
	if len(t) == 1 && t[0] == "nil" {
		return nil
	}
	v, _ := parseVal(t, 0)
	return cose.Headers(v.(key.CoseMap))
}

func hdrDump(h cose.Headers) string {
	if h == nil {
		return "nil"
	}
	b, err := h.MarshalCBOR()
	if err != nil {
		return "unencodable"
	}
	return hx(b)
}

// deterministic recipients for Mac / Encrypt messages: spec "r<n>" or "r<n>s" (first one has a nested recipient)
func mkRecipients(spec string) []*cose.Recipient {
	n := int(spec[1] - '0')
	// "r2k:<hex>": the last recipient is addressed by the kid <hex> (the content key's own kid, say)
	var lastKid []byte
	if j := strings.Index(spec, "k:"); j >= 0 {
		lastKid = unhx(spec[j+2:])
		spec = spec[:j]
	}
	var out []*cose.Recipient
	for i := 0; i < n; i++ {
		rc := &cose.Recipient{
			Protected:   cose.Headers{iana.HeaderParameterAlg: iana.AlgorithmDirect},
			Unprotected: cose.Headers{iana.HeaderParameterKid: []byte{byte(0x30 + i)}},
			Ciphertext:  []byte{},
		}
		if i == 1 {
			rc.Protected = cose.Headers{}
			rc.Ciphertext = []byte{1, 2, 3}
		}
		if i == n-1 && lastKid != nil {
			rc.Unprotected = cose.Headers{iana.HeaderParameterKid: append([]byte{}, lastKid...)}
		}
		if strings.HasSuffix(spec, "n") { // unprotected buckets left nil (the encoder must still write an empty map)
			rc.Unprotected = nil
		}
		if i == 0 && (strings.HasSuffix(spec, "s") || strings.HasSuffix(spec, "n")) {
			sub := &cose.Recipient{Protected: cose.Headers{iana.HeaderParameterAlg: iana.AlgorithmA128KW},
				Unprotected: cose.Headers{"x": "y"}, Ciphertext: []byte{9}}
			if strings.HasSuffix(spec, "n") {
				sub.Unprotected = nil
			}
			if err := rc.AddRecipient(sub); err != nil {
				panic(err)
			}
		}
		out = append(out, rc)
	}
	return out
}

func recipsDump(rs []*cose.Recipient) string {
	var parts []string
	for _, r := range rs {
		b, err := r.MarshalCBOR()
		if err != nil {
			parts = append(parts, "err")
		} else {
			parts = append(parts, hx(b))
		}
	}
	if len(parts) == 0 {
		return "none"
	}
	return strings.Join(parts, ",")
}

func errClass(err error) string {
	m := err.Error()
	switch {
	case strings.Contains(m, "alg mismatch"):
		return "err alg-mismatch"
	}
	return "err"
}

// ---- generic drivers over the payload type T

type payloadCodec[T any] struct {
	mk   func(tok []string) T
	dump func(T) string
}

var rawCodec = payloadCodec[[]byte]{
	mk:   func(t []string) []byte { return unhxOpt(t[0]) },
	dump: func(b []byte) string { return hxOpt(b) },
}
var rawMsgCodec = payloadCodec[cbor.RawMessage]{
	mk:   func(t []string) cbor.RawMessage { return cbor.RawMessage(unhxOpt(t[0])) },
	dump: func(b cbor.RawMessage) string { return hxOpt(b) },
}

// a payload type that is a *named* byte-slice type (key.ByteStr; an application's `type Blob []byte`): not []byte, not
// cbor.RawMessage, so it travels as a CBOR byte string inside the payload member
var namedCodec = payloadCodec[key.ByteStr]{
	mk:   func(t []string) key.ByteStr { return key.ByteStr(unhxOpt(t[0])) },
	dump: func(b key.ByteStr) string { return hxOpt(b) },
}
var typedCodec = payloadCodec[key.CoseMap]{
	mk: func(t []string) key.CoseMap {
		if len(t) == 1 && t[0] == "nil" {
			return nil
		}
		v, _ := parseVal(t, 0)
		return v.(key.CoseMap)
	},
	dump: func(m key.CoseMap) string {
		if m == nil {
			return "nil"
		}
		b, err := m.MarshalCBOR()
		if err != nil {
			return "unencodable"
		}
		return hx(b)
	},
}

// a payload of a plain Go map type (no MarshalCBOR of its own): the library's encoder options alone decide its bytes
var goMapCodec = payloadCodec[map[any]any]{
	mk: func(t []string) map[any]any {
		if len(t) == 1 && t[0] == "nil" {
			return nil
		}
		v, _ := parseVal(t, 0)
		return map[any]any(v.(key.CoseMap))
	},
	dump: func(m map[any]any) string {
		if m == nil {
			return "nil"
		}
		b, err := key.MarshalCBOR(m)
		if err != nil {
			return "unencodable"
		}
		return hx(b)
	},
}

type msgArgs struct {
	kind, mode string
	ext        []byte
	recips     string
	fields     [][]string    // payload | prot | unprot | key… (produce)   or   keys… (consume)
	data       []byte        // consume / reencode
	isRandom   bool          // set by produce when the result depends on randomness
	viewNow    func() string // consume: payload and headers of the verified object, as they read now
	warm       bool          // msg.produce2: the message object has been through one produce with nil headers before
}

func keysOf(fields [][]string) []key.Key {
	var ks []key.Key
	for _, f := range fields {
		ks = append(ks, keyFromToks(f))
	}
	return ks
}

func isEcdsaKey(k key.Key) bool {
	a := int(k.Alg())
	return a == iana.AlgorithmES256 || a == iana.AlgorithmES384 || a == iana.AlgorithmES512
}

func produceT[T any](c payloadCodec[T], a *msgArgs) string {
	payload := c.mk(a.fields[0])
	prot, unprot := hdrFromToks(a.fields[1]), hdrFromToks(a.fields[2])
	ks := keysOf(a.fields[3:])
	var out []byte
	var err error
	extra := ""
	// the read accessors of the produced message object (Bytesify, Signature / Tag, Signatures, Recipients) must agree
	// with what was emitted; set by each branch, evaluated after a successful produce
	var accessors func() bool
	// a later encode on the same message object (other external data, hence other octets) must leave the bytes already
	// handed out alone; set by each branch, run last
	var again func()
	ext2 := append(append([]byte{}, a.ext...), "/again"...)
	authAgrees := func(auth []byte) bool {
		_, spans := topMembers(out)
		return len(spans) >= 4 && bytes.Equal(out[spans[3][0]:spans[3][1]], bstrItem(auth))
	}
	switch a.kind {
	case "sign1":
		s, e := ks[0].Signer()
		if e != nil {
			return "err key"
		}
		rs := &recSigner{Signer: s}
		m := &cose.Sign1Message[T]{Protected: prot, Unprotected: unprot, Payload: payload}
		if a.warm {
			m.Protected, m.Unprotected = nil, nil
			m.WithSign(rs, []byte("warm-up"))
			rs.seen = nil
			m.Protected, m.Unprotected = prot, unprot
		}
		out, err = m.SignAndEncode(rs, a.ext)
		accessors = func() bool { return bytes.Equal(m.Bytesify(), out) && authAgrees(m.Signature()) }
		again = func() { m.SignAndEncode(s, ext2) }
		a.isRandom = isEcdsaKey(ks[0])
		extra = " tobe=" + joinHex(rs.seen)
		if err == nil {
			extra += " prot=" + hdrDump(m.Protected) + " unprot=" + hdrDump(m.Unprotected)
		}
	case "sign":
		var ss key.Signers
		var recs []*recSigner
		for _, k := range ks {
			s, e := k.Signer()
			if e != nil {
				return "err key"
			}
			r := &recSigner{Signer: s}
			recs = append(recs, r)
			ss = append(ss, r)
			a.isRandom = a.isRandom || isEcdsaKey(k)
		}
		if a.recips == "noalg" {
			for i := range ss {
				ss[i] = &noAlgSigner{Signer: ss[i]}
			}
		}
		m := &cose.SignMessage[T]{Protected: prot, Unprotected: unprot, Payload: payload}
		if a.warm {
			m.Protected, m.Unprotected = nil, nil
			m.WithSign(ss, []byte("warm-up"))
			for _, r := range recs {
				r.seen = nil
			}
			m.Protected, m.Unprotected = prot, unprot
		}
		out, err = m.SignAndEncode(ss, a.ext)
		accessors = func() bool { return bytes.Equal(m.Bytesify(), out) && len(m.Signatures()) == len(ks) }
		again = func() { m.SignAndEncode(ss, ext2) }
		var all [][]byte
		for _, r := range recs {
			all = append(all, r.seen...)
		}
		extra = " tobe=" + joinHex(all)
	case "mac0", "mac":
		mc, e := ks[0].MACer()
		if e != nil {
			return "err key"
		}
		rm := &recMacer{MACer: mc}
		if a.kind == "mac0" {
			m := &cose.Mac0Message[T]{Protected: prot, Unprotected: unprot, Payload: payload}
			if a.warm {
				m.Protected, m.Unprotected = nil, nil
				m.Compute(rm, []byte("warm-up"))
				rm.seen = nil
				m.Protected, m.Unprotected = prot, unprot
			}
			out, err = m.ComputeAndEncode(rm, a.ext)
			accessors = func() bool { return bytes.Equal(m.Bytesify(), out) && authAgrees(m.Tag()) }
			again = func() { m.ComputeAndEncode(mc, ext2) }
			if err == nil {
				extra = " prot=" + hdrDump(m.Protected) + " unprot=" + hdrDump(m.Unprotected)
			}
		} else {
			m := &cose.MacMessage[T]{Protected: prot, Unprotected: unprot, Payload: payload}
			for _, rc := range mkRecipients(a.recips) {
				if e := m.AddRecipient(rc); e != nil {
					return "err recipient"
				}
			}
			if a.warm {
				m.Protected, m.Unprotected = nil, nil
				m.Compute(rm, []byte("warm-up"))
				rm.seen = nil
				m.Protected, m.Unprotected = prot, unprot
			}
			out, err = m.ComputeAndEncode(rm, a.ext)
			accessors = func() bool {
				return bytes.Equal(m.Bytesify(), out) && authAgrees(m.Tag()) && len(m.Recipients()) == len(mkRecipients(a.recips))
			}
			again = func() { m.ComputeAndEncode(mc, ext2) }
		}
		extra = " tobe=" + joinHex(rm.seen) + extra
	case "encrypt0", "encrypt":
		en, e := ks[0].Encryptor()
		if e != nil {
			return "err key"
		}
		re := &recEncryptor{Encryptor: en}
		var up cose.Headers
		// random nonce iff the caller gave neither IV nor Partial IV (looked at before the call: the library
		// writes the IV it draws into the caller's map)
		given := false
		if unprot != nil {
			iv, _ := unprot.GetBytes(iana.HeaderParameterIV)
			piv, _ := unprot.GetBytes(iana.HeaderParameterPartialIV)
			given = len(iv) > 0 || len(piv) > 0
		}
		if a.kind == "encrypt0" {
			m := &cose.Encrypt0Message[T]{Protected: prot, Unprotected: unprot, Payload: payload}
			if a.warm { // a first encryption for which the library chose the nonce
				m.Protected, m.Unprotected = nil, nil
				m.Encrypt(re, []byte("warm-up"))
				re.aads, re.nonces = nil, nil
				m.Protected, m.Unprotected = prot, unprot
			}
			out, err = m.EncryptAndEncode(re, a.ext)
			accessors = func() bool { return bytes.Equal(m.Bytesify(), out) }
			up = m.Unprotected
			again = func() { m.EncryptAndEncode(en, ext2) }
		} else {
			m := &cose.EncryptMessage[T]{Protected: prot, Unprotected: unprot, Payload: payload}
			for _, rc := range mkRecipients(a.recips) {
				if e := m.AddRecipient(rc); e != nil {
					return "err recipient"
				}
			}
			if a.warm {
				m.Protected, m.Unprotected = nil, nil
				m.Encrypt(re, []byte("warm-up"))
				re.aads, re.nonces = nil, nil
				m.Protected, m.Unprotected = prot, unprot
			}
			out, err = m.EncryptAndEncode(re, a.ext)
			accessors = func() bool {
				return bytes.Equal(m.Bytesify(), out) && len(m.Recipients()) == len(mkRecipients(a.recips))
			}
			up = m.Unprotected
			again = func() { m.EncryptAndEncode(en, ext2) }
		}
		a.isRandom = !given
		extra = " aad=" + joinHex(re.aads)
		if a.isRandom {
			// the nonce used must be the published one and have the algorithm's length
			pub := "missing"
			if err == nil && up != nil {
				iv, e := up.GetBytes(iana.HeaderParameterIV)
				if e == nil && len(re.nonces) == 1 && string(iv) == string(re.nonces[0]) && len(iv) == en.NonceSize() {
					pub = "published"
				} else {
					pub = "NOT-PUBLISHED"
				}
			}
			extra += " nonce=random:" + pub
		} else {
			extra += " nonce=" + joinHex(re.nonces)
		}
	default:
		return "bad-op"
	}
	if err != nil {
		return errClass(err)
	}
	if accessors != nil && !accessors() {
		return "ACCESSOR-DISAGREES " + hx(out)
	}
	if again != nil {
		keep := append([]byte{}, out...)
		func() {
			defer func() { recover() }()
			again()
		}()
		if !bytes.Equal(out, keep) {
			return "LATER-ENCODE-REWROTE-THE-BYTES-HANDED-OUT-EARLIER " + hx(keep)
		}
	}
	if a.isRandom {
		a.data = out
		return "ok msg=nondet" + extra
	}
	a.data = out
	return "ok msg=" + hx(out) + extra
}

// consumeT: consumeInner on a private copy of the input; afterwards the copy is overwritten — what a caller does with its
// receive buffer — and the verified object must still show the payload and headers it showed before
func consumeT[T any](c payloadCodec[T], a *msgArgs) string {
	orig := a.data
	a.data = append([]byte{}, orig...)
	defer func() { a.data = orig }()
	a.viewNow = nil
	res := consumeInner(c, a)
	if a.viewNow != nil && strings.HasPrefix(res, "ok ") {
		before := a.viewNow()
		for i := range a.data {
			a.data[i] ^= 0xa5
		}
		if a.viewNow() != before {
			return "VERIFIED-OBJECT-FOLLOWS-ITS-INPUT-BUFFER"
		}
	}
	return res
}

func consumeInner[T any](c payloadCodec[T], a *msgArgs) string {
	ks := keysOf(a.fields)
	switch a.kind {
	case "sign1":
		v, e := ks[0].Verifier()
		if e != nil {
			return "err key"
		}
		var log [][]byte
		m, err := cose.VerifySign1Message[T](&recVerifier{Verifier: v, log: &log}, a.data, a.ext)
		if err != nil {
			return errClass(err)
		}
		a.viewNow = func() string { return c.dump(m.Payload) + hdrDump(m.Protected) + hdrDump(m.Unprotected) }
		return fmt.Sprintf("ok payload=%s prot=%s unprot=%s tobe=%s", c.dump(m.Payload), hdrDump(m.Protected), hdrDump(m.Unprotected), joinHex(log))
	case "sign":
		var vs key.Verifiers
		var log [][]byte
		for _, k := range ks {
			v, e := k.Verifier()
			if e != nil {
				return "err key"
			}
			vs = append(vs, &recVerifier{Verifier: v, log: &log})
		}
		m, err := cose.VerifySignMessage[T](vs, a.data, a.ext)
		if err != nil {
			return errClass(err)
		}
		// what is verified is the received octets, not the decoded views: a caller that annotates the views of a decoded
		// message (body and signer buckets) before Verify gets the same verdict over the same Sig_structures
		if m2 := (&cose.SignMessage[T]{}); m2.UnmarshalCBOR(append([]byte{}, a.data...)) == nil {
			var log2 [][]byte
			var vs2 key.Verifiers
			for _, v := range vs {
				vs2 = append(vs2, &recVerifier{Verifier: v.(*recVerifier).Verifier, log: &log2})
			}
			if m2.Protected != nil {
				m2.Protected["x-seen-by"] = "gateway-7"
			}
			for _, sg := range m2.Signatures() {
				if len(sg.Protected) > 0 {
					sg.Protected["x-seen-by"] = "gateway-7"
				}
			}
			if err2 := m2.Verify(vs2, a.ext); err2 != nil || joinHex(log2) != joinHex(log) {
				return "ANNOTATED-VIEWS-CHANGED-WHAT-IS-VERIFIED " + joinHex(log2)
			}
		}
		a.viewNow = func() string { return c.dump(m.Payload) + hdrDump(m.Protected) + hdrDump(m.Unprotected) }
		return fmt.Sprintf("ok payload=%s prot=%s unprot=%s tobe=%s", c.dump(m.Payload), hdrDump(m.Protected), hdrDump(m.Unprotected), joinHex(log))
	case "mac0", "mac":
		mc, e := ks[0].MACer()
		if e != nil {
			return "err key"
		}
		rm := &recMacer{MACer: mc}
		if a.kind == "mac0" {
			m, err := cose.VerifyMac0Message[T](rm, a.data, a.ext)
			if err != nil {
				return errClass(err)
			}
			a.viewNow = func() string { return c.dump(m.Payload) + hdrDump(m.Protected) + hdrDump(m.Unprotected) }
			return fmt.Sprintf("ok payload=%s prot=%s unprot=%s tobe=%s", c.dump(m.Payload), hdrDump(m.Protected), hdrDump(m.Unprotected), joinHex(rm.seen))
		}
		m, err := cose.VerifyMacMessage[T](rm, a.data, a.ext)
		if err != nil {
			return errClass(err)
		}
		a.viewNow = func() string { return c.dump(m.Payload) + hdrDump(m.Protected) + hdrDump(m.Unprotected) }
		return fmt.Sprintf("ok payload=%s prot=%s unprot=%s tobe=%s recips=%s", c.dump(m.Payload), hdrDump(m.Protected), hdrDump(m.Unprotected), joinHex(rm.seen), recipsDump(m.Recipients()))
	case "encrypt0":
		en, e := ks[0].Encryptor()
		if e != nil {
			return "err key"
		}
		re := &recEncryptor{Encryptor: en}
		// the one-call entry point must answer like UnmarshalCBOR + Decrypt (which lets the payload be inspected after a failure)
		hm, herr := cose.DecryptEncrypt0Message[T](en, a.data, a.ext)
		m := &cose.Encrypt0Message[T]{}
		if err := m.UnmarshalCBOR(a.data); err != nil {
			if herr == nil {
				return "HELPER-DISAGREES"
			}
			return errClass(err)
		}
		if err := m.Decrypt(re, a.ext); err != nil {
			var zero T
			if len(re.nonces) > 1 { // a message has one nonce: a refused message is not tried again under another
				return "err SEVERAL-NONCES-TRIED:" + joinHex(re.nonces)
			}
			if c.dump(m.Payload) != c.dump(zero) {
				return "err PAYLOAD-LEAKED:" + c.dump(m.Payload)
			}
			if herr == nil {
				return "HELPER-DISAGREES"
			}
			return errClass(err)
		}
		if herr != nil || c.dump(hm.Payload) != c.dump(m.Payload) || string(hm.Bytesify()) != string(m.Bytesify()) {
			return "HELPER-DISAGREES"
		}
		a.viewNow = func() string { return c.dump(m.Payload) + hdrDump(m.Protected) + hdrDump(m.Unprotected) }
		return fmt.Sprintf("ok payload=%s prot=%s unprot=%s aad=%s nonce=%s", c.dump(m.Payload), hdrDump(m.Protected), hdrDump(m.Unprotected), joinHex(re.aads), joinHex(re.nonces))
	case "encrypt":
		en, e := ks[0].Encryptor()
		if e != nil {
			return "err key"
		}
		re := &recEncryptor{Encryptor: en}
		hm, herr := cose.DecryptEncryptMessage[T](en, a.data, a.ext)
		m := &cose.EncryptMessage[T]{}
		if err := m.UnmarshalCBOR(a.data); err != nil {
			if herr == nil {
				return "HELPER-DISAGREES"
			}
			return errClass(err)
		}
		if err := m.Decrypt(re, a.ext); err != nil {
			var zero T
			if len(re.nonces) > 1 { // a message has one nonce: a refused message is not tried again under another
				return "err SEVERAL-NONCES-TRIED:" + joinHex(re.nonces)
			}
			if c.dump(m.Payload) != c.dump(zero) {
				return "err PAYLOAD-LEAKED:" + c.dump(m.Payload)
			}
			if herr == nil {
				return "HELPER-DISAGREES"
			}
			return errClass(err)
		}
		if herr != nil || c.dump(hm.Payload) != c.dump(m.Payload) || string(hm.Bytesify()) != string(m.Bytesify()) {
			return "HELPER-DISAGREES"
		}
		a.viewNow = func() string { return c.dump(m.Payload) + hdrDump(m.Protected) + hdrDump(m.Unprotected) }
		return fmt.Sprintf("ok payload=%s prot=%s unprot=%s aad=%s nonce=%s recips=%s", c.dump(m.Payload), hdrDump(m.Protected), hdrDump(m.Unprotected), joinHex(re.aads), joinHex(re.nonces), recipsDump(m.Recipients()))
	}
	return "bad-op"
}

// reencode: decode -> encode.  The decoded object owns what it holds: the input buffer is overwritten afterwards (a
// receive buffer is reused, a secret is wiped) and the object must still encode to the same bytes, also through Bytesify.
func reencode(kind string, data []byte) string {
	type codec interface {
		UnmarshalCBOR([]byte) error
		MarshalCBOR() ([]byte, error)
		Bytesify() []byte
	}
	fresh := func() codec {
		switch kind {
		case "sign1":
			return &cose.Sign1Message[[]byte]{}
		case "sign":
			return &cose.SignMessage[[]byte]{}
		case "mac0":
			return &cose.Mac0Message[[]byte]{}
		case "mac":
			return &cose.MacMessage[[]byte]{}
		case "encrypt0":
			return &cose.Encrypt0Message[[]byte]{}
		case "encrypt":
			return &cose.EncryptMessage[[]byte]{}
		}
		return nil
	}
	m := fresh()
	if m == nil {
		return "bad-op"
	}
	buf := append(make([]byte, 0, len(data)+8), data...)
	if err := m.UnmarshalCBOR(buf); err != nil {
		return "err"
	}
	out, err := m.MarshalCBOR()
	if err != nil {
		return "err"
	}
	for i := range buf {
		buf[i] ^= 0x5a
	}
	out2, err2 := m.MarshalCBOR()
	if err2 != nil || string(out2) != string(out) || string(m.Bytesify()) != string(out) {
		return "ok " + hx(out) + " DECODED-OBJECT-FOLLOWS-ITS-INPUT-BUFFER"
	}
	// two objects decoded from the same octets share nothing: editing the header maps of one leaves the other alone
	m2 := fresh()
	if m2.UnmarshalCBOR(append([]byte{}, data...)) != nil {
		return "ok " + hx(out) + " SECOND-DECODE-FAILED"
	}
	for _, f := range []string{"Protected", "Unprotected"} {
		if h, ok := reflect.ValueOf(m).Elem().FieldByName(f).Interface().(cose.Headers); ok && h != nil {
			h[-70001] = "edited"
			h[iana.HeaderParameterAlg] = -70002
		}
	}
	for _, f := range []string{"Protected", "Unprotected"} {
		if h, ok := reflect.ValueOf(m2).Elem().FieldByName(f).Interface().(cose.Headers); ok && h != nil {
			if h.Has(-70001) {
				return "ok " + hx(out) + " DECODED-OBJECTS-SHARE-A-HEADER-MAP"
			}
			if a, _ := h.GetInt(iana.HeaderParameterAlg); a == -70002 {
				return "ok " + hx(out) + " DECODED-OBJECTS-SHARE-A-HEADER-MAP"
			}
		}
	}
	if string(m2.Bytesify()) != string(out) {
		return "ok " + hx(out) + " DECODED-OBJECTS-SHARE-STATE"
	}
	return "ok " + hx(out)
}

func dispatchMode(a *msgArgs, produce bool) string {
	switch a.mode {
	case "raw":
		if produce {
			return produceT(rawCodec, a)
		}
		return consumeT(rawCodec, a)
	case "rawmsg":
		if produce {
			return produceT(rawMsgCodec, a)
		}
		return consumeT(rawMsgCodec, a)
	case "typed":
		if produce {
			return produceT(typedCodec, a)
		}
		return consumeT(typedCodec, a)
	case "named":
		if produce {
			return produceT(namedCodec, a)
		}
		return consumeT(namedCodec, a)
	case "gomap":
		if !produce {
			return consumeT(typedCodec, a)
		}
		// Go's map iteration order is random: encode several times, every encoding must be the same
		first := produceT(goMapCodec, a)
		if a.isRandom || !strings.HasPrefix(first, "ok") {
			return first
		}
		for i := 0; i < 7; i++ {
			b := *a
			if again := produceT(goMapCodec, &b); again != first {
				return "NONDETERMINISTIC " + first + " VERSUS " + again
			}
		}
		return first
	}
	return "bad-op"
}

// msg.produce <kind> <mode> <ext> <recips> | <payload> | <prot> | <unprot> | <key> [| <key>…]
// msg.produce2 …  the same arguments; the message object went through one produce with nil headers before
// msg.consume <kind> <mode> <ext> <msg> | <key> [| <key>…]
// msg.reencode <kind> <msg>
// msg.untag <msg>
func execMsg(op string, a []string) string {
	switch op {
	case "msg.produce":
		f := splitAll(a)
		h := f[0]
		args := &msgArgs{kind: h[0], mode: h[1], ext: unhxOpt(h[2]), recips: h[3], fields: f[1:]}
		return dispatchMode(args, true)
	case "msg.produce2": // the same, on a message object that has been produced once before with nil headers (history freedom)
		f := splitAll(a)
		h := f[0]
		args := &msgArgs{kind: h[0], mode: h[1], ext: unhxOpt(h[2]), recips: h[3], fields: f[1:], warm: true}
		return dispatchMode(args, true)
	case "msg.huge":
		// msg.huge <kind> <n> <pattern> | <key>: a payload of n octets (several hundred KiB) goes through the one-call
		// producing helper and the one-call consuming helper.  Specification (C01 / C04): what the library produced the
		// library accepts, whatever the size, and the payload comes back octet for octet.
		f := splitAll(a)
		kind := f[0][0]
		n, _ := strconv.Atoi(f[0][1])
		which, _ := strconv.Atoi(f[0][2])
		if n <= 0 || n > 1<<21 {
			return "bad-op"
		}
		payload := patterned(n, which)
		k := keyFromToks(f[1])
		ext := []byte("huge")
		var got []byte
		var out []byte
		var err error
		switch kind {
		case "sign1":
			sg, e1 := k.Signer()
			v, e2 := k.Verifier()
			if e1 != nil || e2 != nil {
				return "err key"
			}
			if out, err = (&cose.Sign1Message[[]byte]{Payload: payload}).SignAndEncode(sg, ext); err != nil {
				return "HUGE-MESSAGE-NOT-PRODUCED " + err.Error()
			}
			m, e := cose.VerifySign1Message[[]byte](v, out, ext)
			if e != nil {
				return "HUGE-MESSAGE-REFUSED " + e.Error()
			}
			got = m.Payload
		case "mac0":
			mc, e1 := k.MACer()
			if e1 != nil {
				return "err key"
			}
			if out, err = (&cose.Mac0Message[[]byte]{Payload: payload}).ComputeAndEncode(mc, ext); err != nil {
				return "HUGE-MESSAGE-NOT-PRODUCED " + err.Error()
			}
			m, e := cose.VerifyMac0Message[[]byte](mc, out, ext)
			if e != nil {
				return "HUGE-MESSAGE-REFUSED " + e.Error()
			}
			got = m.Payload
		case "encrypt0":
			en, e1 := k.Encryptor()
			if e1 != nil {
				return "err key"
			}
			if out, err = (&cose.Encrypt0Message[[]byte]{Payload: payload}).EncryptAndEncode(en, ext); err != nil {
				return "HUGE-MESSAGE-NOT-PRODUCED " + err.Error()
			}
			m, e := cose.DecryptEncrypt0Message[[]byte](en, out, ext)
			if e != nil {
				return "HUGE-MESSAGE-REFUSED " + e.Error()
			}
			got = m.Payload
		default:
			return "bad-op"
		}
		if !bytes.Equal(got, payload) {
			return "HUGE-PAYLOAD-ALTERED"
		}
		return "ok"
	case "msg.failsign":
		// msg.failsign <kind> <ext> | <payload1> | <payload2> | <key>: a message object that holds a good message gets another
		// payload and is signed / MACed again by a primitive that fails.  Specification: the failed call does not leave a
		// message behind that nobody authenticated — what the object emits afterwards (if anything) still verifies.
		f := splitAll(a)
		kind, ext := f[0][0], unhxOpt(f[0][1])
		p1, p2 := unhxOpt(f[1][0]), unhxOpt(f[2][0])
		k := keyFromToks(f[3])
		switch kind {
		case "sign1":
			sg, e1 := k.Signer()
			v, e2 := k.Verifier()
			if e1 != nil || e2 != nil {
				return "err key"
			}
			m := &cose.Sign1Message[[]byte]{Payload: p1}
			out1, err := m.SignAndEncode(sg, ext)
			if err != nil {
				return "err"
			}
			m.Payload = p2
			if m.WithSign(&failSigner{Signer: sg}, ext) == nil {
				return "FAILING-SIGNER-IGNORED"
			}
			if out2, err := m.MarshalCBOR(); err == nil && !bytes.Equal(out2, out1) {
				if _, err := cose.VerifySign1Message[[]byte](v, out2, ext); err != nil {
					return "EMITS-A-MESSAGE-NOBODY-SIGNED " + hx(out2)
				}
			}
			return "ok"
		case "mac0":
			mc, e1 := k.MACer()
			if e1 != nil {
				return "err key"
			}
			m := &cose.Mac0Message[[]byte]{Payload: p1}
			out1, err := m.ComputeAndEncode(mc, ext)
			if err != nil {
				return "err"
			}
			m.Payload = p2
			if m.Compute(&failMacer{MACer: mc}, ext) == nil {
				return "FAILING-MACER-IGNORED"
			}
			if out2, err := m.MarshalCBOR(); err == nil && !bytes.Equal(out2, out1) {
				if _, err := cose.VerifyMac0Message[[]byte](mc, out2, ext); err != nil {
					return "EMITS-A-MESSAGE-NOBODY-AUTHENTICATED " + hx(out2)
				}
			}
			return "ok"
		}
		return "bad-op"
	case "msg.resign":
		// msg.resign <ext> <msg> | <key> [| <key>…]: a COSE_Sign that was decoded is signed again by its signers and
		// encoded.  Specification (C04): every Sig_structure the signers were handed is the RFC 9052 structure of the
		// bytes that then go on the wire (body protected, that signature's protected bucket, external data, payload),
		// and the re-signed message verifies.
		f := splitAll(a)
		ext := unhxOpt(f[0][0])
		m := &cose.SignMessage[[]byte]{}
		if err := m.UnmarshalCBOR(unhx(f[0][1])); err != nil {
			return "err"
		}
		ks := keysOf(f[1:])
		var ss key.Signers
		var vs key.Verifiers
		var recs []*recSigner
		for _, k := range ks {
			sg, e := k.Signer()
			if e != nil {
				return "err key"
			}
			v, e := k.Verifier()
			if e != nil {
				return "err key"
			}
			rs := &recSigner{Signer: sg}
			recs = append(recs, rs)
			ss = append(ss, rs)
			vs = append(vs, v)
		}
		if err := m.WithSign(ss, ext); err != nil {
			return "err sign"
		}
		out, err := m.MarshalCBOR()
		if err != nil {
			return "err encode"
		}
		_, spans := topMembers(out)
		if len(spans) != 4 {
			return "RESIGNED-MESSAGE-MALFORMED " + hx(out)
		}
		sigs, ok := arrayElems(out[spans[3][0]:spans[3][1]])
		if !ok || len(sigs) != len(recs) {
			return "RESIGNED-MESSAGE-SIGNATURE-COUNT " + hx(out)
		}
		e := ext
		if e == nil {
			e = []byte{}
		}
		for i, sg := range sigs {
			parts, ok := arrayElems(sg)
			if !ok || len(parts) != 3 || len(recs[i].seen) != 1 {
				return "RESIGNED-MESSAGE-MALFORMED " + hx(out)
			}
			// the structure's members are the message's own items (the library's output is deterministically encoded;
			// a nil payload is null in both places)
			want := append([]byte{0x85, 0x69}, "Signature"...)
			want = append(want, out[spans[0][0]:spans[0][1]]...)
			want = append(want, parts[0]...)
			want = append(want, bstrItem(e)...)
			want = append(want, out[spans[2][0]:spans[2][1]]...)
			if string(want) != string(recs[i].seen[0]) {
				return fmt.Sprintf("SIGNED-STRUCTURE-DIFFERS-FROM-WIRE signature=%d signed=%s wire=%s", i, hx(recs[i].seen[0]), hx(want))
			}
		}
		if _, err := cose.VerifySignMessage[[]byte](vs, out, ext); err != nil {
			return "RESIGNED-MESSAGE-REFUSED " + hx(out)
		}
		return "ok"
	case "msg.consume":
		f := splitAll(a)
		h := f[0]
		args := &msgArgs{kind: h[0], mode: h[1], ext: unhxOpt(h[2]), data: unhx(h[3]), fields: f[1:]}
		return dispatchMode(args, false)
	case "msg.reuse":
		return execReuse(a)
	case "msg.otherkey":
		return execOtherKey(a)
	case "msg.noncehistory":
		return execNonceHistory(a)
	case "msg.reencode":
		return reencode(a[0], unhx(a[1]))
	case "msg.untag":
		return "ok " + hx(cose.RemoveCBORTag(unhx(a[0])))
	}
	return "unknown-op"
}

func init() {
	register(&family{name: "wire", gen: genWrongType, exec: execWrongType})
	// cbor.encdup is answered by the wrongtype executor
	old := families["cbor"].exec
	families["cbor"].exec = func(op string, a []string) string {
		if op == "cbor.encdup" {
			return execWrongType(op, a)
		}
		return old(op, a)
	}
}

func unusedMsg() string {
	return ""
}

func genMsgOps(r *rand.Rand, n int) []string { return genMsg(r, n, "roundtrip") }
