// Command nolink checks that the MAC / signature entry points do not depend on the *application* having linked
// the hash implementations (crypto.Hash.New panics for an unlinked hash): this program imports no hash package.
package main

import (
	"fmt"
	"os"

	"github.com/ldclabs/cose/iana"
	"github.com/ldclabs/cose/key/hmac"
)

func try(alg int) (res string) {
	defer func() {
		if r := recover(); r != nil {
			res = fmt.Sprint("panic ", r)
		}
	}()
	k, err := hmac.GenerateKey(alg)
	if err != nil {
		return "err " + err.Error()
	}
	m, err := hmac.New(k)
	if err != nil {
		return "err " + err.Error()
	}
	t, err := m.MACCreate([]byte("data"))
	if err != nil {
		return "err " + err.Error()
	}
	if err := m.MACVerify([]byte("data"), t); err != nil {
		return "err " + err.Error()
	}
	return "ok"
}

func main() {
	bad := 0
	for _, alg := range []int{iana.AlgorithmHMAC_256_64, iana.AlgorithmHMAC_256_256, iana.AlgorithmHMAC_384_384, iana.AlgorithmHMAC_512_512} {
		r := try(alg)
		fmt.Printf("hmac alg=%d %s\n", alg, r)
		if r != "ok" {
			bad++
		}
	}
	if bad > 0 {
		fmt.Println("MISMATCH: HMAC unusable without the application linking SHA-2")
		os.Exit(1)
	}
}
