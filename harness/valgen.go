package main

import (
	"fmt"
	"math"
	"math/rand"
	"strings"
)

// generators of value-token strings (see goval.go for the syntax)

func intToken(r *rand.Rand, v int64) string {
	kinds := []string{"i64", "int"}
	if v >= math.MinInt32 && v <= math.MaxInt32 {
		kinds = append(kinds, "i32")
	}
	if v >= math.MinInt16 && v <= math.MaxInt16 {
		kinds = append(kinds, "i16")
	}
	if v >= math.MinInt8 && v <= math.MaxInt8 {
		kinds = append(kinds, "i8")
	}
	if v >= 0 {
		return uintToken(r.Intn, uint64(v))
	}
	return fmt.Sprintf("%s:%d", kinds[r.Intn(len(kinds))], v)
}

var boundaryInts = []int64{0, 1, -1, 23, 24, -24, -25, 255, 256, -256, -257, 65535, 65536, -65536, -65537,
	math.MaxInt32, math.MinInt32, math.MaxInt32 + 1, math.MinInt32 - 1, 1<<32 - 1, 1 << 32, -(1 << 32), -(1<<32 + 1), math.MaxInt64, math.MinInt64}

func genIntTok(r *rand.Rand) string {
	switch r.Intn(4) {
	case 0:
		return intToken(r, int64(r.Intn(60)-30))
	case 1:
		return intToken(r, boundaryInts[r.Intn(len(boundaryInts))])
	case 2:
		return uintToken(r.Intn, genUint(r))
	default:
		return intToken(r, r.Int63()>>uint(r.Intn(63))*int64(1-2*r.Intn(2)))
	}
}

func genBytesTok(r *rand.Rand) string {
	switch r.Intn(8) {
	case 0:
		return "bnil"
	case 1:
		return "bs:" + hx(randBytes(r, r.Intn(20)))
	default:
		n := lenClasses[r.Intn(len(lenClasses))]
		if r.Intn(2) == 0 {
			n = r.Intn(33)
		}
		return "b:" + hx(randBytes(r, n))
	}
}

func genTextTok(r *rand.Rand) string {
	return "t:" + hx(textSamples[r.Intn(len(textSamples))])
}

// genLabelTok: map label, int32 range or text, in a random Go kind
func genLabelTok(r *rand.Rand) string {
	switch r.Intn(10) {
	case 0, 1, 2:
		return genTextTok(r)
	case 3:
		b := []int64{math.MaxInt32, math.MinInt32, 65535, 65536, -65537, 256, -257, 24, -25}
		return intToken(r, b[r.Intn(len(b))])
	default:
		return intToken(r, int64(r.Intn(80)-40))
	}
}

func genValTok(r *rand.Rand, depth int) string {
	k := r.Intn(14)
	if depth <= 0 && k >= 9 {
		k = r.Intn(9)
	}
	switch k {
	case 0, 1, 2:
		return genIntTok(r)
	case 3, 4:
		return genBytesTok(r)
	case 5:
		return genTextTok(r)
	case 6:
		return []string{"T", "F"}[r.Intn(2)]
	case 7:
		return "nil"
	case 8:
		return fmt.Sprintf("alg:%d", r.Intn(80)-40)
	case 9:
		n := r.Intn(5)
		parts := []string{"["}
		for i := 0; i < n; i++ {
			parts = append(parts, genValTok(r, depth-1))
		}
		return strings.Join(append(parts, "]"), " ")
	case 10:
		n := r.Intn(5)
		parts := []string{[]string{"ints[", "ops["}[r.Intn(2)]}
		for i := 0; i < n; i++ {
			parts = append(parts, fmt.Sprint(r.Intn(40)-20))
		}
		return strings.Join(append(parts, "]"), " ")
	default:
		return genMapTok(r, depth-1, r.Intn(7))
	}
}

// genMapTok: a CoseMap with n entries, labels distinct after normalisation
func genMapTok(r *rand.Rand, depth, n int) string {
	parts := []string{"{"}
	seen := map[string]bool{}
	for i := 0; i < n; i++ {
		l := genLabelTok(r)
		norm := l[strings.IndexByte(l, ':')+1:]
		if l[0] == 't' {
			norm = "t" + norm
		}
		if seen[norm] {
			continue
		}
		seen[norm] = true
		parts = append(parts, l, genValTok(r, depth))
		// now and then the text label that prints like this integer label (a different CBOR key)
		if l[0] != 't' && r.Intn(12) == 0 && !seen["t"+hx([]byte(norm))] {
			seen["t"+hx([]byte(norm))] = true
			parts = append(parts, "t:"+hx([]byte(norm)), genValTok(r, depth))
		}
	}
	return strings.Join(append(parts, "}"), " ")
}
