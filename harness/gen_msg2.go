package main

import (
	"fmt"
	"math/rand"
	"regexp"
	"strings"

	"github.com/ldclabs/cose/iana"
	"github.com/ldclabs/cose/key"
)

func symKeyTok(alg int, k []byte, extra ...string) string {
	parts := []string{"{", "int:1", "int:4", "int:-1", "b:" + hx(k), "int:3", fmt.Sprintf("int:%d", alg)}
	parts = append(parts, extra...)
	return strings.Join(append(parts, "}"), " ")
}

// algorithms that can share key bytes (same family, same key size)
func sharingAlgs(alg int) []int {
	var fam []int
	switch {
	case isIn(alg, hmacAlgs):
		fam = hmacAlgs
	case isIn(alg, aesmacAlgs):
		fam = aesmacAlgs
	case isIn(alg, gcmAlgs):
		fam = gcmAlgs
	case isIn(alg, ccmAlgs):
		fam = ccmAlgs
	default:
		return nil
	}
	var out []int
	for _, a := range fam {
		if a != alg && keySizeOf(a) == keySizeOf(alg) {
			out = append(out, a)
		}
	}
	return out
}

var allRegisteredAlgs = append(append(append([]int{}, sigAlgs...), macAlgs...), aeadAlgs...)

// C05: the protected algorithm identifier binds the key
func genMsgAlg(r *rand.Rand, n int) []string {
	var out, more []string // more: appended after the rest, the fixed slots keep their positions
	for i := 0; i < n; i++ {
		kind := kindsAll[r.Intn(len(kindsAll))]
		algs := algsForKind(kind)
		alg := algs[r.Intn(len(algs))]
		mode := []string{"raw", "typed"}[r.Intn(2)]
		k := genMsgKey(r, alg, false)
		kb := randBytes(r, keySizeOf(alg))
		if !isIn(alg, sigAlgs) {
			k = msgKey{alg: alg, priv: symKeyTok(alg, kb), pub: symKeyTok(alg, kb)}
		}
		other := allRegisteredAlgs[r.Intn(len(allRegisteredAlgs))]
		if sh := sharingAlgs(alg); len(sh) > 0 && r.Intn(2) == 0 {
			other = sh[r.Intn(len(sh))]
		}
		// (a) caller-supplied protected alg in every representation
		var av string
		switch r.Intn(10) {
		case 0:
			av = fmt.Sprintf("int:%d", alg)
		case 1:
			av = fmt.Sprintf("i64:%d", alg)
		case 2:
			av = fmt.Sprintf("alg:%d", alg)
		case 3:
			av = intToken(r, int64(alg))
		case 4, 5:
			av = fmt.Sprintf("%s:%d", []string{"int", "i64", "alg", "i16"}[r.Intn(4)], other)
		case 6:
			av = []string{"t:2d37", "nil", "b:07", "T", "f:-7"}[r.Intn(5)]
		case 7:
			av = []string{"i64:4294967296", "i64:-2147483649", "u64:18446744073709551615", "int:0"}[r.Intn(4)]
		case 8: // values that equal the key's algorithm only after a 64- or 32-bit wrap-around
			av = []string{
				fmt.Sprintf("u64:%d", uint64(int64(alg))),
				fmt.Sprintf("i64:%d", int64(alg)+(1<<32)),
				fmt.Sprintf("i64:%d", int64(alg)-(1<<32)),
				fmt.Sprintf("u64:%d", uint64(int64(alg))+(1<<32)),
			}[r.Intn(4)]
			if alg >= 0 && r.Intn(2) == 0 {
				av = fmt.Sprintf("u64:%d", uint64(1<<63)+uint64(alg))
			}
		default:
			av = fmt.Sprintf("int:%d", alg)
		}
		prot := "{ int:1 " + av + " }"
		if kind == "sign" {
			prot = genHdrTok(r, 2)
		}
		keys := []msgKey{k}
		p := buildProduce(r, kind, mode, payloadTok(r, mode, false), prot, genHdrTok(r, 2), extTok(r), keys)
		out = append(out, p.line)
		if i%3 == 1 && strings.HasPrefix(p.line, "msg.produce ") { // the same on a message object that was produced once before
			out = append(out, "msg.produce2 "+strings.TrimPrefix(p.line, "msg.produce "))
		}
		// (b') defaults with a key that has a kid (and, for COSE_Mac / COSE_Encrypt, often a recipient addressed by that kid)
		if i%2 == 0 {
			kk := genMsgKey(r, alg, false)
			for len(kk.kid) == 0 {
				kk = genMsgKey(r, alg, false)
			}
			pk := buildProduce(r, kind, mode, payloadTok(r, mode, false), "nil", "nil", extTok(r), []msgKey{kk})
			out = append(out, pk.line)
			if pk.ok && pk.data != nil {
				out = append(out, pk.consumeLine(pk.data, pk.ext, pk.pubKeys()))
			}
		}
		// (b) defaults: nil headers record the key's alg and kid
		p2 := buildProduce(r, kind, mode, payloadTok(r, mode, false), "nil", "nil", extTok(r), keys)
		out = append(out, p2.line)
		if !p2.ok || p2.data == nil {
			continue
		}
		out = append(out, p2.consumeLine(p2.data, p2.ext, p2.pubKeys()))
		// (c) consume with a key of another algorithm, sharing the key bytes when the family allows
		otherKey := ""
		if !isIn(alg, sigAlgs) && keySizeOf(other) == keySizeOf(alg) && !isIn(other, sigAlgs) {
			otherKey = symKeyTok(other, kb)
		} else {
			otherKey = genMsgKey(r, other, false).pub
		}
		out = append(out, p2.consumeLine(p2.data, p2.ext, []string{otherKey}))
		// (c') the same decoded object asked twice: first under the right key, then under the other one, and the other way
		// round — the answer is that of a fresh object under the second key (no algorithm check is remembered)
		if kind != "sign" && len(p2.pubKeys()) == 1 {
			right := p2.pubKeys()[0]
			more = append(more, fmt.Sprintf("msg.otherkey %s %s %s %s | %s | %s", p2.kind, p2.mode, p2.ext, hx(p2.data), right, otherKey),
				fmt.Sprintf("msg.otherkey %s %s %s %s | %s | %s", p2.kind, p2.mode, p2.ext, hx(p2.data), otherKey, right))
		}
		// (e) fixed slots, every (kind, algorithm) pair in turn: a hand-built message labelled with an identifier that is not
		// the key's — a sibling of it, or one the library does not implement — and authenticated by the key: refused
		if i%3 == 2 {
			type pair struct {
				kind string
				alg  int
			}
			var pairs []pair
			for _, kd := range []string{"sign", "sign1", "mac0", "encrypt0"} {
				for _, a2 := range algsForKind(kd) {
					pairs = append(pairs, pair{kd, a2})
				}
			}
			pr := pairs[labelPairSeq%len(pairs)]
			labelPairSeq++
			labels := append(append([]int{}, confusableAlgs[pr.alg]...), unimplementedAlgs...)
			label := labels[labelSeq[pr.alg]%len(labels)]
			labelSeq[pr.alg]++
			k2 := genMsgKey(r, pr.alg, false)
			if !isIn(pr.alg, sigAlgs) {
				kb2 := randBytes(r, keySizeOf(pr.alg))
				k2 = msgKey{alg: pr.alg, priv: symKeyTok(pr.alg, kb2), pub: symKeyTok(pr.alg, kb2)}
			}
			if lp, ok := labelledMsg(r, pr.kind, k2, label); ok {
				out = append(out, lp.consumeLine(lp.data, lp.ext, lp.pubKeys()))
			}
		}
		// (d) a message without a protected alg: the key's algorithm alone decides
		p3 := buildProduce(r, kind, mode, payloadTok(r, mode, false), "{ }", "{ }", p2.ext, keys)
		out = append(out, p3.line)
		if p3.ok && p3.data != nil && !isIn(alg, sigAlgs) && keySizeOf(other) == keySizeOf(alg) && !isIn(other, sigAlgs) {
			out = append(out, p3.consumeLine(p3.data, p3.ext, []string{symKeyTok(other, kb)}))
		}
	}
	return append(out, more...)
}

// labelledMsg: a one-layer message (or a COSE_Sign with one signature) whose protected bucket names `label`, an algorithm
// identifier the key does not have, authenticated by the key over exactly that bucket — the primitive would accept it
func labelledMsg(r *rand.Rand, kind string, k msgKey, label int) (*producedMsg, bool) {
	kk := keyFromToks(strings.Fields(k.priv))
	payload := randBytes(r, 1+r.Intn(40))
	bucket := (&cnode{mt: 5, kids: []*cnode{{mt: 0, n: 1}, intNode(int64(label))}}).emit(nil, r, nil)
	uk := []*cnode{}
	if len(k.kid) > 0 {
		uk = append(uk, &cnode{mt: 0, n: 4}, &cnode{mt: 2, b: k.kid})
	}
	var members []*cnode
	switch kind {
	case "sign1", "sign":
		s, err := kk.Signer()
		if err != nil {
			return nil, false
		}
		if kind == "sign1" {
			sig, _ := s.Sign(encStructure("Signature1", bucket, []byte{}, payload))
			members = []*cnode{{mt: 2, b: bucket}, {mt: 5, kids: uk}, {mt: 2, b: payload}, {mt: 2, b: sig}}
		} else {
			sig, _ := s.Sign(encStructure("Signature", []byte{}, bucket, []byte{}, payload))
			members = []*cnode{{mt: 2, b: []byte{}}, {mt: 5}, {mt: 2, b: payload},
				{mt: 4, kids: []*cnode{{mt: 4, kids: []*cnode{{mt: 2, b: bucket}, {mt: 5, kids: uk}, {mt: 2, b: sig}}}}}}
		}
	case "mac0":
		m, err := kk.MACer()
		if err != nil {
			return nil, false
		}
		tag, _ := m.MACCreate(encStructure("MAC0", bucket, []byte{}, payload))
		members = []*cnode{{mt: 2, b: bucket}, {mt: 5, kids: uk}, {mt: 2, b: payload}, {mt: 2, b: tag}}
	case "encrypt0":
		e, err := kk.Encryptor()
		if err != nil {
			return nil, false
		}
		iv := randBytes(r, e.NonceSize())
		ct, err := e.Encrypt(iv, payload, encStructure("Encrypt0", bucket, []byte{}))
		if err != nil {
			return nil, false
		}
		uk = append(uk, &cnode{mt: 0, n: 5}, &cnode{mt: 2, b: iv})
		members = []*cnode{{mt: 2, b: bucket}, {mt: 5, kids: uk}, {mt: 2, b: ct}}
	default:
		return nil, false
	}
	msg := append(append([]byte{}, kindPrefix[kind]...), (&cnode{mt: 4, kids: members}).emit(nil, r, nil)...)
	return &producedMsg{kind: kind, mode: "raw", ext: hxOpt(nil), keys: []msgKey{k}, data: msg, ok: true}, true
}

// identifiers a reader might confuse with the key's algorithm: the fully-specified and sibling identifiers of each
// signature algorithm (RFC 9864, Ed448, secp256k1), then identifiers the library does not implement at all
var confusableAlgs = map[int][]int{
	iana.AlgorithmEdDSA: {-53, -19}, iana.AlgorithmES256: {-9, -47}, iana.AlgorithmES384: {-51}, iana.AlgorithmES512: {-52},
}
var unimplementedAlgs = []int{-257, -39, -65535, 0, 35, -46, 8, -3}
var labelSeq = map[int]int{}
var labelPairSeq int

var ivLenSeq int

// C06: IV / Partial IV / Base IV presences and lengths
func genMsgNonce(r *rand.Rand, n int) []string {
	var out []string
	// histories of library-chosen nonces under one key, every AEAD algorithm
	hist := 100 * n
	if hist > 1000000 {
		hist = 1000000 // the property's quantifier: histories of 10^5..10^6 encryptions under one key
	}
	for _, alg := range aeadAlgs {
		out = append(out, fmt.Sprintf("msg.noncehistory %d %d", alg, hist))
	}
	for i := 0; i < n; i++ {
		if i%6 == 0 { // a caller's IV / kid / alg under another Go integer kind than the library's own label
			out = append(out, genMsgDup(r))
		}
		kind := kindsAll[4+r.Intn(2)]
		alg := aeadAlgs[r.Intn(len(aeadAlgs))]
		ns := nonceSizeOf(alg)
		kb := randBytes(r, keySizeOf(alg))
		var extra []string
		switch r.Intn(6) {
		case 0: // no Base IV
		case 1:
			extra = []string{"int:5", "b:" + hx(randBytes(r, []int{0, 1, ns - 1, ns + 1, 2 * ns}[r.Intn(5)]))}
		case 2:
			extra = []string{"int:5", []string{"t:6976", "int:5", "nil", "bnil"}[r.Intn(4)]}
		default:
			extra = []string{"int:5", []string{"b:", "b:", "bs:", "bx:"}[r.Intn(4)] + hx(randBytes(r, ns))}
		}
		k := msgKey{alg: alg, priv: symKeyTok(alg, kb, extra...), pub: symKeyTok(alg, kb, extra...)}
		var u []string
		switch r.Intn(8) {
		case 0:
		case 1, 2: // caller IV of length around the nonce size
			ivLenSeq++ // (lengths taken in turn: the nonce sizes of the sibling constructions are reached whatever the seed)
			u = append(u, "int:5", "b:"+hx(randBytes(r, []int{ns, 24, ns, 8, ns - 1, ns + 1, 1, 0, 7, 12, 13, 16}[ivLenSeq%12])))
		case 3, 4, 5: // partial IV of length 0 .. ns+2
			u = append(u, "int:6", "b:"+hx(randBytes(r, r.Intn(ns+3))))
		case 6: // both
			u = append(u, "int:5", "b:"+hx(randBytes(r, ns)), "int:6", "b:"+hx(randBytes(r, 1+r.Intn(ns-1))))
		default: // ill-typed
			u = append(u, []string{"int:5", "int:6"}[r.Intn(2)], []string{"t:6976", "int:7", "nil", "bnil", "bs:" + hx(randBytes(r, ns))}[r.Intn(5)])
		}
		unprot := "{ " + strings.Join(u, " ") + " }"
		if len(u) == 0 {
			unprot = []string{"nil", "{ }"}[r.Intn(2)]
		}
		mode := "raw"
		prot := "nil"
		switch i % 9 {
		case 2: // the IV / Partial IV labels in the *protected* bucket: they are not looked at there, on either side
			prot = fmt.Sprintf("{ int:1 int:%d int:5 b:%s }", alg, hx(randBytes(r, ns)))
		case 5:
			prot = fmt.Sprintf("{ int:1 int:%d int:6 b:%s }", alg, hx(randBytes(r, 1+r.Intn(ns-1))))
		case 7: // a caller IV of zero octets only: used verbatim like any other
			unprot = "{ int:5 b:" + hx(make([]byte, ns)) + " }"
		case 1: // a caller IV that begins with zero octets (a counter in the low-order octets)
			iv0 := randBytes(r, ns)
			for j := 0; j < ns/2; j++ {
				iv0[j] = 0
			}
			unprot = "{ int:5 b:" + hx(iv0) + " }"
		case 8: // a Partial IV under a key whose Base IV is shorter than the nonce (lengths in turn); tampered with below
			unprot = "{ int:6 b:" + hx(randBytes(r, 1+(i/9)%3)) + " }"
			extra = []string{"int:5", "b:" + hx(randBytes(r, []int{ns - 1, 1, ns - 4, 4}[(i/9)%4]))}
			k = msgKey{alg: alg, priv: symKeyTok(alg, kb, extra...), pub: symKeyTok(alg, kb, extra...)}
		case 4: // the first message of a counter: an all-zero Partial IV under a key with a Base IV (nonce = Base IV)
			unprot = "{ int:6 b:" + hx(make([]byte, 1+(i/9)%2)) + " }"
			extra = []string{"int:5", "b:" + hx(randBytes(r, ns))}
			k = msgKey{alg: alg, priv: symKeyTok(alg, kb, extra...), pub: symKeyTok(alg, kb, extra...)}
		}
		p := buildProduce(r, kind, mode, payloadTok(r, mode, false), prot, unprot, extTok(r), []msgKey{k})
		out = append(out, p.line)
		if i%3 == 1 && strings.HasPrefix(p.line, "msg.produce ") { // the same on a message object that was produced once before
			out = append(out, "msg.produce2 "+strings.TrimPrefix(p.line, "msg.produce "))
		}
		if !p.ok || p.data == nil {
			continue
		}
		out = append(out, p.consumeLine(p.data, p.ext, p.pubKeys()))
		// decrypt with another Base IV / without: must fail when a Partial IV was used
		k2 := symKeyTok(alg, kb, "int:5", "b:"+hx(randBytes(r, ns)))
		if r.Intn(2) == 0 {
			k2 = symKeyTok(alg, kb)
		}
		out = append(out, p.consumeLine(p.data, p.ext, []string{k2}))
		for j := 0; j < 2; j++ {
			out = append(out, tamper(r, p))
		}
		// the nonce material taken out of the unprotected bucket, emptied, moved under another label, or shadowed
		for _, label := range []byte{5, 6} {
			for _, d := range unprotTampers(r, p.data, label) {
				out = append(out, p.consumeLine(d, p.ext, p.pubKeys()))
			}
		}
		// history on one key object: a second encryption (other Partial IV / IV), and decryption after encryption —
		// each must derive its nonce as if the key had never been used
		if i%2 == 0 {
			var u2 []string
			switch r.Intn(3) {
			case 0:
				u2 = append(u2, "int:6", "b:"+hx(randBytes(r, 1+r.Intn(ns-1))))
			case 1:
				u2 = append(u2, "int:6", "b:"+hx([]byte{byte(1 + r.Intn(9))}))
			default:
				u2 = append(u2, "int:5", "b:"+hx(randBytes(r, ns)))
			}
			p2 := buildProduce(r, kind, mode, payloadTok(r, mode, false), "nil", "{ "+strings.Join(u2, " ")+" }", extTok(r), []msgKey{k})
			out = append(out, "seq "+p.line+" ;; "+p2.line)
			out = append(out, "seq "+p.line+" ;; "+p2.line+" ;; "+p.consumeLine(p.data, p.ext, p.pubKeys()))
			if p2.ok && p2.data != nil {
				out = append(out, "seq "+p.consumeLine(p.data, p.ext, p.pubKeys())+" ;; "+p2.consumeLine(p2.data, p2.ext, p2.pubKeys())+" ;; "+p.consumeLine(p.data, p.ext, p.pubKeys()))
			}
		}
	}
	return out
}

// independent canonical encoding of the RFC 9052 structures (not through the library)
func encStructure(ctx string, parts ...[]byte) []byte {
	c := &cnode{mt: 4, kids: []*cnode{{mt: 3, b: []byte(ctx)}}}
	for _, p := range parts {
		c.kids = append(c.kids, &cnode{mt: 2, b: p})
	}
	return c.emit(nil, nil, nil)
}

// a protected bucket encoded validly but not canonically
func foreignBucket(r *rand.Rand, alg int, withAlg bool) []byte {
	m := &cnode{mt: 5}
	if withAlg {
		m.kids = append(m.kids, &cnode{mt: 0, n: 1}, intNode(int64(alg)))
	}
	for i := r.Intn(3); i > 0; i-- {
		m.kids = append(m.kids, &cnode{mt: 0, n: uint64(20 + i)}, &cnode{mt: 2, b: randBytes(r, r.Intn(5))})
	}
	if r.Intn(2) == 0 { // reverse entry order
		for i, j := 0, len(m.kids)/2-1; i < j; i, j = i+1, j-1 {
			m.kids[2*i], m.kids[2*j] = m.kids[2*j], m.kids[2*i]
			m.kids[2*i+1], m.kids[2*j+1] = m.kids[2*j+1], m.kids[2*i+1]
		}
	}
	if len(m.kids) == 0 && r.Intn(2) == 0 {
		return []byte{} // the conformant zero-length string
	}
	return m.emit(nil, r, &emitOpts{nonShortest: 0.5})
}

func intNode(v int64) *cnode {
	if v >= 0 {
		return &cnode{mt: 0, n: uint64(v)}
	}
	return &cnode{mt: 1, n: uint64(-1 - v)}
}

// C04 / C09: messages a peer encoded validly but differently must verify verbatim and survive re-encoding
func genMsgForeign(r *rand.Rand, n int) []string {
	var out []string
	for i := 0; i < n; i++ {
		kind := kindsAll[i%len(kindsAll)] // every kind in turn, so that the fixed slots below reach each of them
		algs := algsForKind(kind)
		alg := algs[r.Intn(len(algs))]
		round := i / len(kindsAll)
		if round%2 == 0 { // every other round: the kind's algorithms in turn (these rounds also carry the history ops below)
			alg = algs[(round/2)%len(algs)]
		}
		k := genMsgKey(r, alg, false)
		// fixed slot (COSE_Sign): the key has a kid but the signature entry carries none and names another algorithm — there
		// is no verifier "for" it, it is not to be tried against the others
		twoKeysOneKid := kind == "sign" && round%6 == 3 && (round/6)%2 == 0
		if twoKeysOneKid {
			alg = iana.AlgorithmES256
		}
		kidlessSig := kind == "sign" && round%6 == 0 && (round/6)%2 == 1
		for (kidlessSig || twoKeysOneKid) && len(k.kid) == 0 {
			k = genMsgKey(r, alg, false)
		}
		kk := keyFromToks(strings.Fields(k.priv))
		ext := unhxOpt(extTok(r))
		extOrEmpty := ext
		if extOrEmpty == nil {
			extOrEmpty = []byte{}
		}
		payload := randBytes(r, []int{0, 1, 23, 24, 255, 256, 300}[r.Intn(7)])
		algInUnprot := false
		bodyProt := foreignBucket(r, alg, kind != "sign" && r.Intn(4) != 0) // a quarter carry no alg: the bucket may be h'a0' or h''
		switch round % 6 {                                                  // fixed slots: the three encodings of an empty protected bucket, for every kind
		case 1:
			bodyProt = []byte{0xa0}
		case 3:
			bodyProt = []byte{}
		case 5:
			bodyProt = []byte{0xb8, 0x00}
		}
		if kind != "sign" && round%2 == 1 && r.Intn(3) == 0 { // (odd rounds only: the even ones keep one genuine message per kind and algorithm)
			// the header names another algorithm than the key's, while signature / tag / ciphertext are made with the key
			// (for MACs and AEADs the other algorithm often shares the key octets): refused whatever the primitive says
			other := allRegisteredAlgs[r.Intn(len(allRegisteredAlgs))]
			if sh := sharingAlgs(alg); len(sh) > 0 && r.Intn(3) != 0 {
				other = sh[r.Intn(len(sh))]
			}
			bodyProt = foreignBucket(r, other, true)
			algInUnprot = r.Intn(2) == 0
		}
		unprotKids := []*cnode{}
		if algInUnprot { // … while the unprotected bucket names the key's own algorithm: the protected one decides
			unprotKids = append(unprotKids, &cnode{mt: 0, n: 1}, intNode(int64(alg)))
		}
		if len(k.kid) > 0 && kind != "sign" {
			unprotKids = append(unprotKids, &cnode{mt: 0, n: 4}, &cnode{mt: 2, b: k.kid})
		}
		var members []*cnode
		foreignKeys := []msgKey{k}
		o := &emitOpts{nonShortest: 0.3}
		switch kind {
		case "sign1", "mac0", "mac":
			ctx := map[string]string{"sign1": "Signature1", "mac0": "MAC0", "mac": "MAC"}[kind]
			tobe := encStructure(ctx, bodyProt, extOrEmpty, payload)
			var auth []byte
			if kind == "sign1" {
				s, err := kk.Signer()
				if err != nil {
					continue
				}
				auth, _ = s.Sign(tobe)
			} else {
				m, err := kk.MACer()
				if err != nil {
					continue
				}
				auth, _ = m.MACCreate(tobe)
			}
			members = []*cnode{{mt: 2, b: bodyProt}, {mt: 5, kids: unprotKids}, {mt: 2, b: payload}, {mt: 2, b: auth}}
			if kind == "mac" {
				members = append(members, &cnode{mt: 4, kids: []*cnode{{mt: 4, kids: []*cnode{{mt: 2, b: foreignBucket(r, -6, true)}, {mt: 5}, {mt: 2, b: []byte{}}}}}})
			}
		case "sign":
			// 1..3 signatures, all of one algorithm, each over its own (differently encoded / differently filled) protected
			// bucket; further signatures come from the same key or from another key of that algorithm
			var sigs []*cnode
			nSig := 1
			if r.Intn(3) == 0 {
				nSig = 2 + r.Intn(2)
			}
			twoUnderOneKid := round%6 == 2 || round%6 == 4 // fixed slots: two signatures under one key (kid), the second naming another algorithm
			if twoUnderOneKid {
				nSig = 2
				if round%6 == 4 { // … while the body's protected bucket names the key's algorithm: each signature's own bucket decides
					bodyProt = foreignBucket(r, alg, true)
				}
			}
			skeys := []msgKey{k}
			bad := false
			if twoKeysOneKid {
				// the verifier list holds an ES256 key and, under the same kid, a key of another algorithm; the one signature
				// names ES256 but was made by the other key: the verifier found for the kid (the first) decides, alone
				nSig = 1
			}
			for j := 0; j < nSig; j++ {
				sk := k
				if j > 0 && r.Intn(2) == 0 && len(k.kid) > 0 && !twoUnderOneKid {
					for {
						sk = genMsgKey(r, alg, false)
						fresh := len(sk.kid) > 0
						for _, o := range skeys {
							if string(o.kid) == string(sk.kid) {
								fresh = false
							}
						}
						if fresh {
							break
						}
					}
					skeys = append(skeys, sk)
				}
				signProt := foreignBucket(r, alg, r.Intn(4) != 0) // a quarter without alg: h'a0' or h''
				if (j > 0 && (r.Intn(3) == 0 || twoUnderOneKid)) || (kidlessSig && j == nSig-1) {
					// a later signature names another algorithm than its key's (made with the key over its own bucket, so
					// the primitive accepts it): the algorithm check is per signature, not per kid
					oa := sigAlgs[r.Intn(len(sigAlgs))]
					for (twoUnderOneKid || kidlessSig) && oa == alg {
						oa = sigAlgs[r.Intn(len(sigAlgs))]
					}
					signProt = foreignBucket(r, oa, true)
				}
				if twoKeysOneKid {
					signProt = foreignBucket(r, alg, true)
					other := genMsgKey(r, []int{iana.AlgorithmEdDSA, iana.AlgorithmES384}[(round/12)%2], false)
					re := regexp.MustCompile(`int:2 (b|bs|bx):[0-9a-f]+`)
					kidTok := "int:2 b:" + hx(k.kid)
					for _, f := range []*string{&other.priv, &other.pub} {
						if re.MatchString(*f) {
							*f = re.ReplaceAllString(*f, kidTok)
						} else {
							*f = strings.Replace(*f, "{ ", "{ "+kidTok+" ", 1)
						}
					}
					other.kid = k.kid
					skeys = append(skeys, other)
					sk = other
				}
				tobe := encStructure("Signature", bodyProt, signProt, extOrEmpty, payload)
				s, err := keyFromToks(strings.Fields(sk.priv)).Signer()
				if err != nil {
					bad = true
					break
				}
				sig, _ := s.Sign(tobe)
				su := []*cnode{}
				if len(sk.kid) > 0 && !(kidlessSig && j == nSig-1) {
					su = append(su, &cnode{mt: 0, n: 4}, &cnode{mt: 2, b: sk.kid})
				}
				sigs = append(sigs, &cnode{mt: 4, kids: []*cnode{{mt: 2, b: signProt}, {mt: 5, kids: su}, {mt: 2, b: sig}}})
			}
			if bad {
				continue
			}
			foreignKeys = skeys
			members = []*cnode{{mt: 2, b: bodyProt}, {mt: 5, kids: unprotKids}, {mt: 2, b: payload}, {mt: 4, kids: sigs}}
		default:
			ctx := map[string]string{"encrypt0": "Encrypt0", "encrypt": "Encrypt"}[kind]
			aad := encStructure(ctx, bodyProt, extOrEmpty)
			e, err := kk.Encryptor()
			if err != nil {
				continue
			}
			iv := randBytes(r, e.NonceSize())
			ct, err := e.Encrypt(iv, payload, aad)
			if err != nil {
				continue
			}
			unprotKids = append(unprotKids, &cnode{mt: 0, n: 5}, &cnode{mt: 2, b: iv})
			members = []*cnode{{mt: 2, b: bodyProt}, {mt: 5, kids: unprotKids}, {mt: 2, b: ct}}
			if kind == "encrypt" {
				members = append(members, &cnode{mt: 4, kids: []*cnode{{mt: 4, kids: []*cnode{{mt: 2, b: []byte{}}, {mt: 5}, {mt: 2, b: []byte{1}}}}}})
			}
		}
		msg := (&cnode{mt: 4, kids: members}).emit(nil, r, o)
		switch r.Intn(3) {
		case 0:
			msg = append(append([]byte{}, kindPrefix[kind]...), msg...)
		case 1:
			msg = append([]byte{0xd8, 0x3d}, append(append([]byte{}, kindPrefix[kind]...), msg...)...)
		}
		p := &producedMsg{kind: kind, mode: "raw", ext: hxOpt(ext), keys: foreignKeys, data: msg, ok: true}
		out = append(out, p.consumeLine(msg, p.ext, p.pubKeys()), "msg.reencode "+kind+" "+hx(msg))
		if round%2 == 0 { // the same message object and verifier over two foreign messages / two external data (every kind, every algorithm)
			out = append(out, history(r, p)[:3]...)
		}
		if kind == "sign" { // the decoded message signed again by the same signers (private keys)
			var pk []string
			for _, sk := range foreignKeys {
				pk = append(pk, sk.priv)
			}
			if len(foreignKeys) == 1 { // (one entry per signer: only messages with one signature per key are re-signed like-for-like)
				out = append(out, fmt.Sprintf("msg.resign %s %s | %s", hxOpt(ext), hx(msg), strings.Join(pk, " | ")))
			}
		}
		if (kind == "sign1" || kind == "mac0") && round%2 == 0 { // the same kind of object, re-used with a primitive that fails
			out = append(out, fmt.Sprintf("msg.failsign %s %s | %s | %s | %s", kind, hxOpt(ext), hxOpt(payload), hx(randBytes(r, 1+r.Intn(20))), k.priv))
		}
		// chain: decode -> encode -> decode -> verify, on the library
		if re := reencode(kind, msg); strings.HasPrefix(re, "ok ") {
			out = append(out, p.consumeLine(unhx(re[3:]), p.ext, p.pubKeys()))
		}
		_ = key.Key{}
		_ = iana.AlgorithmDirect
	}
	return out
}
