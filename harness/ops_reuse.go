package main

import (
	"fmt"
	"strconv"

	"github.com/ldclabs/cose/cose"
	"github.com/ldclabs/cose/iana"
	"github.com/ldclabs/cose/key"
)

// msg.reuse <kind> <mode> <ext1> <msg1> <ext2> <msg2|=> | <key> [| <key>…]
//
// One message object and one set of verifier / MACer / encryptor objects live through two uses:
//
//	UnmarshalCBOR(msg1); Verify|Decrypt(ext1)            (result ignored)
//	UnmarshalCBOR(msg2)   — skipped when msg2 is "="     (same decoded object, second call)
//	Verify|Decrypt(ext2)                                  (answered exactly like msg.consume)
//
// Specification (history freedom): the answer is that of `msg.consume <kind> <mode> <ext2> <msg2>` on fresh objects.
func reuseT[T any](c payloadCodec[T], a *msgArgs, ext1, data1 []byte, same bool, firstKey key.Key) string {
	ks := keysOf(a.fields)
	// msg.otherkey: the first use is made under `firstKey`, through the same recording wrapper; swap installs its
	// implementation and returns the undo (nil when the kind has no single key or the key gives no implementation)
	var swap func(k key.Key) func()
	type msgI interface {
		UnmarshalCBOR([]byte) error
		MarshalCBOR() ([]byte, error)
	}
	var step func(ext []byte) (string, error)
	var m msgI
	switch a.kind {
	case "sign1":
		v, e := ks[0].Verifier()
		if e != nil {
			return "err key"
		}
		var log [][]byte
		rv := &recVerifier{Verifier: v, log: &log}
		mm := &cose.Sign1Message[T]{}
		m = mm
		swap = func(k key.Key) func() {
			v1, e := k.Verifier()
			if e != nil {
				return nil
			}
			rv.Verifier = v1
			return func() { rv.Verifier = v }
		}
		step = func(ext []byte) (string, error) {
			log = nil
			if err := mm.Verify(rv, ext); err != nil {
				return "", err
			}
			return fmt.Sprintf("ok payload=%s prot=%s unprot=%s tobe=%s", c.dump(mm.Payload), hdrDump(mm.Protected), hdrDump(mm.Unprotected), joinHex(log)), nil
		}
	case "sign":
		var vs key.Verifiers
		var log [][]byte
		for _, k := range ks {
			v, e := k.Verifier()
			if e != nil {
				return "err key"
			}
			vs = append(vs, &recVerifier{Verifier: v, log: &log})
		}
		mm := &cose.SignMessage[T]{}
		m = mm
		step = func(ext []byte) (string, error) {
			log = nil
			if err := mm.Verify(vs, ext); err != nil {
				return "", err
			}
			return fmt.Sprintf("ok payload=%s prot=%s unprot=%s tobe=%s", c.dump(mm.Payload), hdrDump(mm.Protected), hdrDump(mm.Unprotected), joinHex(log)), nil
		}
	case "mac0":
		mc, e := ks[0].MACer()
		if e != nil {
			return "err key"
		}
		rm := &recMacer{MACer: mc}
		mm := &cose.Mac0Message[T]{}
		m = mm
		swap = func(k key.Key) func() {
			m1, e := k.MACer()
			if e != nil {
				return nil
			}
			rm.MACer = m1
			return func() { rm.MACer = mc }
		}
		step = func(ext []byte) (string, error) {
			rm.seen = nil
			if err := mm.Verify(rm, ext); err != nil {
				return "", err
			}
			return fmt.Sprintf("ok payload=%s prot=%s unprot=%s tobe=%s", c.dump(mm.Payload), hdrDump(mm.Protected), hdrDump(mm.Unprotected), joinHex(rm.seen)), nil
		}
	case "mac":
		mc, e := ks[0].MACer()
		if e != nil {
			return "err key"
		}
		rm := &recMacer{MACer: mc}
		mm := &cose.MacMessage[T]{}
		m = mm
		swap = func(k key.Key) func() {
			m1, e := k.MACer()
			if e != nil {
				return nil
			}
			rm.MACer = m1
			return func() { rm.MACer = mc }
		}
		step = func(ext []byte) (string, error) {
			rm.seen = nil
			if err := mm.Verify(rm, ext); err != nil {
				return "", err
			}
			return fmt.Sprintf("ok payload=%s prot=%s unprot=%s tobe=%s recips=%s", c.dump(mm.Payload), hdrDump(mm.Protected), hdrDump(mm.Unprotected), joinHex(rm.seen), recipsDump(mm.Recipients())), nil
		}
	case "encrypt0":
		en, e := ks[0].Encryptor()
		if e != nil {
			return "err key"
		}
		re := &recEncryptor{Encryptor: en}
		mm := &cose.Encrypt0Message[T]{}
		m = mm
		swap = func(k key.Key) func() {
			e1, e := k.Encryptor()
			if e != nil {
				return nil
			}
			re.Encryptor = e1
			return func() { re.Encryptor = en }
		}
		step = func(ext []byte) (string, error) {
			re.aads, re.nonces = nil, nil
			if err := mm.Decrypt(re, ext); err != nil {
				return "", err
			}
			return fmt.Sprintf("ok payload=%s prot=%s unprot=%s aad=%s nonce=%s", c.dump(mm.Payload), hdrDump(mm.Protected), hdrDump(mm.Unprotected), joinHex(re.aads), joinHex(re.nonces)), nil
		}
	case "encrypt":
		en, e := ks[0].Encryptor()
		if e != nil {
			return "err key"
		}
		re := &recEncryptor{Encryptor: en}
		mm := &cose.EncryptMessage[T]{}
		m = mm
		swap = func(k key.Key) func() {
			e1, e := k.Encryptor()
			if e != nil {
				return nil
			}
			re.Encryptor = e1
			return func() { re.Encryptor = en }
		}
		step = func(ext []byte) (string, error) {
			re.aads, re.nonces = nil, nil
			if err := mm.Decrypt(re, ext); err != nil {
				return "", err
			}
			return fmt.Sprintf("ok payload=%s prot=%s unprot=%s aad=%s nonce=%s recips=%s", c.dump(mm.Payload), hdrDump(mm.Protected), hdrDump(mm.Unprotected), joinHex(re.aads), joinHex(re.nonces), recipsDump(mm.Recipients())), nil
		}
	default:
		return "bad-op"
	}
	if err := m.UnmarshalCBOR(data1); err == nil {
		var undo func()
		if firstKey != nil && swap != nil {
			undo = swap(firstKey)
		}
		step(ext1)
		if undo != nil {
			undo()
		}
	} else if same {
		return errClass(err)
	}
	if !same {
		if err := m.UnmarshalCBOR(a.data); err != nil {
			return errClass(err)
		}
	}
	// a use (successful or refused) leaves the decoded message as it was: it re-encodes to the same octets before and after
	before, berr := m.MarshalCBOR()
	out, err := step(a.ext)
	if after, aerr := m.MarshalCBOR(); berr == nil && (aerr != nil || string(after) != string(before)) {
		return "USE-CHANGED-THE-MESSAGE " + hx(before) + " -> " + hx(after)
	}
	if err != nil {
		return errClass(err)
	}
	return out
}

// msg.noncehistory <alg> <count>: <count> freshly constructed COSE_Encrypt0 messages (no IV, no Partial IV) under one
// key and one Encryptor; every library-chosen nonce has the algorithm's length, is the published IV, and none repeats.
func execNonceHistory(a []string) string {
	alg, _ := strconv.Atoi(a[0])
	count, _ := strconv.Atoi(a[1])
	kb := make([]byte, keySizeOf(alg))
	for i := range kb {
		kb[i] = byte(i*7 + alg)
	}
	en, err := encryptorFor(alg, kb)
	if err != nil {
		return "err key"
	}
	re := &recEncryptor{Encryptor: en}
	seen := make(map[string]int, count)
	// the two-step API: a message is encrypted now and encoded later, after many further messages were encrypted (a batch);
	// the last 1024 message objects are held and looked at again when they leave the window
	type held struct {
		m     *cose.Encrypt0Message[[]byte]
		nonce []byte
		i     int
	}
	const window = 1024
	ring := make([]held, 0, window)
	later := func(h held) string {
		iv, _ := h.m.Unprotected.GetBytes(iana.HeaderParameterIV)
		if string(iv) != string(h.nonce) {
			return fmt.Sprintf("PUBLISHED-IV-CHANGED-AFTER-ENCRYPT message #%d: sealed under %x, now publishes %x", h.i, h.nonce, iv)
		}
		if h.i%64 == 0 {
			out, err := h.m.MarshalCBOR()
			if err != nil {
				return fmt.Sprintf("LATER-ENCODE-FAILED message #%d", h.i)
			}
			if back, err := cose.DecryptEncrypt0Message[[]byte](en, out, nil); err != nil || len(back.Payload) != 1 || back.Payload[0] != byte(h.i) {
				return fmt.Sprintf("ENCODED-LATER-NOT-DECRYPTABLE message #%d", h.i)
			}
		}
		return ""
	}
	for i := 0; i < count; i++ {
		m := &cose.Encrypt0Message[[]byte]{Payload: []byte{byte(i)}}
		re.nonces, re.aads = re.nonces[:0], re.aads[:0]
		if err := m.Encrypt(re, nil); err != nil {
			return "err encrypt"
		}
		if len(re.nonces) != 1 || len(re.nonces[0]) != en.NonceSize() {
			return fmt.Sprintf("BAD-NONCE-LENGTH at %d", i)
		}
		iv, _ := m.Unprotected.GetBytes(iana.HeaderParameterIV)
		if string(iv) != string(re.nonces[0]) {
			return fmt.Sprintf("NOT-PUBLISHED at %d", i)
		}
		if j, dup := seen[string(iv)]; dup {
			return fmt.Sprintf("REPEATED nonce %x for fresh messages #%d and #%d", iv, j, i)
		}
		seen[string(iv)] = i
		h := held{m: m, nonce: append([]byte{}, re.nonces[0]...), i: i}
		if len(ring) < window {
			ring = append(ring, h)
		} else {
			if bad := later(ring[i%window]); bad != "" {
				return bad
			}
			ring[i%window] = h
		}
	}
	for _, h := range ring {
		if bad := later(h); bad != "" {
			return bad
		}
	}
	// the other consumer of the random source: 32-bit draws (used for kids / counters by callers); over `count` draws the
	// number of distinct values must be what a uniform source gives (birthday bound with a wide margin), never a constant
	distinct := map[uint32]bool{}
	for i := 0; i < count && i < 100000; i++ {
		distinct[key.GetRandomUint32()] = true
	}
	n := count
	if n > 100000 {
		n = 100000
	}
	if n >= 100 && len(distinct) < n-n/20-5 {
		return fmt.Sprintf("RANDOM-UINT32 only %d distinct of %d", len(distinct), n)
	}
	return "ok distinct"
}

// msg.otherkey <kind> <mode> <ext> <msg> | <first key> | <key>…
//
// One decoded message object: Verify|Decrypt under <first key> (result ignored), then under <key>: answered exactly like
// `msg.consume <kind> <mode> <ext> <msg> | <key>…` on fresh objects — no check made for one key is remembered for another.
func execOtherKey(a []string) string {
	f := splitAll(a)
	h := f[0]
	if len(f) < 3 || len(h) < 4 {
		return "bad-op"
	}
	args := &msgArgs{kind: h[0], mode: h[1], ext: unhxOpt(h[2]), data: unhx(h[3]), fields: f[2:]}
	fk := keyFromToks(f[1])
	switch args.mode {
	case "raw":
		return reuseT(rawCodec, args, args.ext, args.data, true, fk)
	case "rawmsg":
		return reuseT(rawMsgCodec, args, args.ext, args.data, true, fk)
	case "typed", "gomap":
		return reuseT(typedCodec, args, args.ext, args.data, true, fk)
	case "named":
		return reuseT(namedCodec, args, args.ext, args.data, true, fk)
	}
	return "bad-op"
}

func execReuse(a []string) string {
	f := splitAll(a)
	h := f[0]
	args := &msgArgs{kind: h[0], mode: h[1], ext: unhxOpt(h[4]), fields: f[1:]}
	data1 := unhx(h[3])
	same := h[5] == "="
	if same {
		args.data = data1
	} else {
		args.data = unhx(h[5])
	}
	switch args.mode {
	case "raw":
		return reuseT(rawCodec, args, unhxOpt(h[2]), data1, same, nil)
	case "rawmsg":
		return reuseT(rawMsgCodec, args, unhxOpt(h[2]), data1, same, nil)
	case "typed", "gomap":
		return reuseT(typedCodec, args, unhxOpt(h[2]), data1, same, nil)
	case "named":
		return reuseT(namedCodec, args, unhxOpt(h[2]), data1, same, nil)
	}
	return "bad-op"
}
