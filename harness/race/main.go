// Command race exercises one shared instance of every implementation from many goroutines under the Go race
// detector and compares every result with the one obtained sequentially (C19 search support).
package main

import (
	"bytes"
	"flag"
	"fmt"
	"math/rand"
	"os"
	"runtime"
	"strings"
	"sync"
	"time"

	"github.com/ldclabs/cose/cose"
	"github.com/ldclabs/cose/cwt"
	"github.com/ldclabs/cose/iana"
	"github.com/ldclabs/cose/key"
	"github.com/ldclabs/cose/key/aesccm"
	"github.com/ldclabs/cose/key/aesgcm"
	"github.com/ldclabs/cose/key/aesmac"
	"github.com/ldclabs/cose/key/chacha20poly1305"
	"github.com/ldclabs/cose/key/ecdh"
	"github.com/ldclabs/cose/key/ecdsa"
	"github.com/ldclabs/cose/key/ed25519"
	"github.com/ldclabs/cose/key/hmac"
)

type task struct {
	name string
	// run performs the operation for input i and returns a canonical result (deterministic part)
	run func(i int) []byte
}

func must[T any](v T, err error) T {
	if err != nil {
		panic(err)
	}
	return v
}

func main() {
	seed := flag.Int64("seed", 1, "seed")
	G := flag.Int("g", 16, "goroutines")
	N := flag.Int("n", 200, "operations per goroutine and task")
	onlyFlag := flag.String("only", "", "comma-separated substrings: keep only the tasks / sections whose name contains one of them")
	flag.Parse()
	if *onlyFlag == "" {
		*onlyFlag = os.Getenv("RACE_ONLY")
	}
	selected := func(name string) bool {
		if *onlyFlag == "" {
			return true
		}
		for _, o := range strings.Split(*onlyFlag, ",") {
			if o != "" && strings.Contains(name, o) {
				return true
			}
		}
		return false
	}
	r := rand.New(rand.NewSource(*seed))
	inputs := make([][]byte, 64)
	for i := range inputs {
		inputs[i] = make([]byte, 1+r.Intn(200))
		r.Read(inputs[i])
	}
	in := func(i int) []byte { return inputs[i%len(inputs)] }
	var tasks []task

	for _, alg := range []int{iana.AlgorithmHMAC_256_64, iana.AlgorithmHMAC_256_256, iana.AlgorithmHMAC_384_384, iana.AlgorithmHMAC_512_512} {
		m := must(hmac.New(must(hmac.GenerateKey(alg))))
		tasks = append(tasks, task{fmt.Sprintf("hmac/%d", alg), func(i int) []byte {
			t := must(m.MACCreate(in(i)))
			if m.MACVerify(in(i), t) != nil {
				return []byte("FAIL: verify-failed")
			}
			return t
		}})
	}
	for _, alg := range []int{iana.AlgorithmAES_MAC_128_64, iana.AlgorithmAES_MAC_256_64, iana.AlgorithmAES_MAC_128_128, iana.AlgorithmAES_MAC_256_128} {
		m := must(aesmac.New(must(aesmac.GenerateKey(alg))))
		tasks = append(tasks, task{fmt.Sprintf("aesmac/%d", alg), func(i int) []byte {
			t := must(m.MACCreate(in(i)))
			if m.MACVerify(in(i), t) != nil {
				return []byte("FAIL: verify-failed")
			}
			return t
		}})
	}
	aead := func(name string, e key.Encryptor) {
		nonce := make([]byte, e.NonceSize())
		tasks = append(tasks, task{name, func(i int) []byte {
			nn := append([]byte{}, nonce...)
			nn[0] = byte(i)
			ct := must(e.Encrypt(nn, in(i), in(i+1)))
			pt, err := e.Decrypt(nn, ct, in(i+1))
			if err != nil || !bytes.Equal(pt, in(i)) {
				return []byte("FAIL: decrypt-failed")
			}
			return ct
		}})
	}
	for _, alg := range []int{iana.AlgorithmA128GCM, iana.AlgorithmA192GCM, iana.AlgorithmA256GCM} {
		aead(fmt.Sprintf("aesgcm/%d", alg), must(aesgcm.New(must(aesgcm.GenerateKey(alg)))))
	}
	for _, alg := range []int{10, 11, 12, 13, 30, 31, 32, 33} {
		aead(fmt.Sprintf("aesccm/%d", alg), must(aesccm.New(must(aesccm.GenerateKey(alg)))))
	}
	aead("chacha", must(chacha20poly1305.New(must(chacha20poly1305.GenerateKey()))))

	// signatures: Ed25519 deterministic; ECDSA randomised (result = "verified")
	{
		k := must(ed25519.GenerateKey())
		s := must(ed25519.NewSigner(k))
		v := must(ed25519.NewVerifier(k))
		tasks = append(tasks, task{"ed25519", func(i int) []byte {
			sig := must(s.Sign(in(i)))
			if i%3 == 0 { // a refused input first (wrong length, altered): the shared object goes on working afterwards
				if v.Verify(in(i), sig[:len(sig)-1]) == nil || v.Verify(in(i), nil) == nil {
					return []byte("FAIL: wrong-length-accepted")
				}
			}
			if v.Verify(in(i), sig) != nil {
				return []byte("FAIL: verify-failed")
			}
			return sig
		}})
	}
	for _, alg := range []int{iana.AlgorithmES256, iana.AlgorithmES384, iana.AlgorithmES512} {
		k := must(ecdsa.GenerateKey(alg))
		s := must(ecdsa.NewSigner(k))
		v := must(ecdsa.NewVerifier(k))
		tasks = append(tasks, task{fmt.Sprintf("ecdsa/%d", alg), func(i int) []byte {
			sig := must(s.Sign(in(i)))
			if i%3 == 0 { // a refused input first (wrong length, empty, altered): the shared object goes on working afterwards
				bad := append([]byte{}, sig...)
				bad[len(bad)-1] ^= 1
				if v.Verify(in(i), sig[:len(sig)-1]) == nil || v.Verify(in(i), nil) == nil || v.Verify(in(i), append(bad, 0)) == nil || v.Verify(in(i), bad) == nil {
					return []byte("FAIL: bad-signature-accepted")
				}
			}
			if v.Verify(in(i), sig) != nil {
				return []byte("FAIL: verify-failed")
			}
			return []byte("verified")
		}})
	}
	for _, crv := range []int{iana.EllipticCurveP_256, iana.EllipticCurveP_384, iana.EllipticCurveP_521, iana.EllipticCurveX25519} {
		a, b := must(ecdh.GenerateKey(crv)), must(ecdh.GenerateKey(crv))
		e := must(ecdh.NewECDHer(a))
		pb := must(ecdh.ToPublicKey(b))
		tasks = append(tasks, task{fmt.Sprintf("ecdh/%d", crv), func(i int) []byte { return must(e.ECDH(pb)) }})
	}
	// the factories on one shared key
	{
		k := must(hmac.GenerateKey(iana.AlgorithmHMAC_256_256))
		tasks = append(tasks, task{"Key.MACer", func(i int) []byte {
			m := must(k.MACer())
			return must(m.MACCreate(in(i)))
		}})
		ke := must(aesgcm.GenerateKey(iana.AlgorithmA128GCM))
		tasks = append(tasks, task{"Key.Encryptor", func(i int) []byte {
			e := must(ke.Encryptor())
			return must(e.Encrypt(make([]byte, 12), in(i), nil))
		}})
		ks := must(ed25519.GenerateKey())
		tasks = append(tasks, task{"Key.Signer+Verifier", func(i int) []byte {
			s := must(ks.Signer())
			v := must(ks.Verifier())
			sig := must(s.Sign(in(i)))
			if v.Verify(in(i), sig) != nil {
				return []byte("FAIL: verify-failed")
			}
			return sig
		}})
	}
	// one validator
	{
		v := must(cwt.NewValidator(&cwt.ValidatorOpts{ExpectedIssuer: "iss", ClockSkew: time.Minute, FixedNow: time.Unix(1700000000, 0)}))
		tasks = append(tasks, task{"cwt.Validator", func(i int) []byte {
			c := &cwt.Claims{Issuer: "iss", Expiration: uint64(1700000000 + int64(i%200) - 100), NotBefore: uint64(1699999000 + int64(i%3000))}
			err := v.Validate(c)
			err2 := v.ValidateMap(cwt.ClaimsMap{iana.CWTClaimIss: "iss", iana.CWTClaimExp: c.Expiration, iana.CWTClaimNbf: c.NotBefore})
			return []byte(fmt.Sprint(err == nil, err2 == nil))
		}})
	}

	// cold start: keys as they come off the wire (key_ops is a []any, nothing has touched the map yet), fresh per
	// round, hit by all goroutines at once through the factories before any sequential call
	coldBad := 0
	// cold start of an ECDHer: a fresh object per round, all goroutines at once, four different remote keys — every
	// answer must be the secret for the remote it was asked about (computed on another fresh object)
	if selected("ecdh-cold") {
		bad := 0
		for _, crv := range []int{iana.EllipticCurveP_256, iana.EllipticCurveP_384, iana.EllipticCurveP_521, iana.EllipticCurveX25519} {
			local := must(ecdh.GenerateKey(crv))
			var remotes []key.Key
			var want [][]byte
			ref := must(ecdh.NewECDHer(local))
			for j := 0; j < 4; j++ {
				pk := must(ecdh.ToPublicKey(must(ecdh.GenerateKey(crv))))
				remotes = append(remotes, pk)
				want = append(want, must(ref.ECDH(pk)))
			}
			rounds := *N / 4
			if rounds < 10 {
				rounds = 10
			}
			for rd := 0; rd < rounds; rd++ {
				e := must(ecdh.NewECDHer(local))
				var wg sync.WaitGroup
				var mu sync.Mutex
				start := make(chan struct{})
				for g := 0; g < *G; g++ {
					wg.Add(1)
					go func(g int) {
						defer wg.Done()
						<-start
						for j := 0; j < 4; j++ {
							i := (g + j) % 4
							got, err := e.ECDH(remotes[i])
							if err != nil || !bytes.Equal(got, want[i]) {
								mu.Lock()
								bad++
								mu.Unlock()
							}
						}
					}(g)
				}
				close(start)
				wg.Wait()
			}
		}
		if bad > 0 {
			fmt.Printf("MISMATCH task=ecdh-cold count=%d\n", bad)
			coldBad += bad
		}
	}
	if selected("cold-factories") {
		kh := must(hmac.GenerateKey(iana.AlgorithmHMAC_256_256))
		kh.SetOps(iana.KeyOperationMacCreate, iana.KeyOperationMacVerify)
		kg := must(aesgcm.GenerateKey(iana.AlgorithmA128GCM))
		kg.SetOps(iana.KeyOperationEncrypt, iana.KeyOperationDecrypt)
		ks := must(ed25519.GenerateKey())
		ks.SetOps(iana.KeyOperationSign, iana.KeyOperationVerify)
		kc := must(ecdsa.GenerateKey(iana.AlgorithmES256))
		kc.SetOps(iana.KeyOperationSign, iana.KeyOperationVerify)
		// the signature keys come without the optional alg member (as keys from other implementations do): the registry
		// look-up infers the algorithm from the curve on every call
		delete(ks, iana.KeyParameterAlg)
		delete(kc, iana.KeyParameterAlg)
		wire := [][]byte{must(key.MarshalCBOR(kh)), must(key.MarshalCBOR(kg)), must(key.MarshalCBOR(ks)), must(key.MarshalCBOR(kc))}
		decode := func() []key.Key {
			out := make([]key.Key, len(wire))
			for i, w := range wire {
				if err := key.UnmarshalCBOR(w, &out[i]); err != nil {
					panic(err)
				}
			}
			return out
		}
		use := func(ks []key.Key, i int) []byte {
			m := must(ks[0].MACer())
			t := must(m.MACCreate(in(i)))
			e := must(ks[1].Encryptor())
			ct := must(e.Encrypt(make([]byte, 12), in(i), nil))
			s := must(ks[2].Signer())
			v := must(ks[2].Verifier())
			sig := must(s.Sign(in(i)))
			if v.Verify(in(i), sig) != nil {
				return []byte("FAIL: verify-failed")
			}
			s2 := must(ks[3].Signer())
			v2 := must(ks[3].Verifier())
			if v2.Verify(in(i), must(s2.Sign(in(i)))) != nil {
				return []byte("FAIL: verify-failed")
			}
			return append(append(t, ct...), sig...)
		}
		rounds := *N / 2
		if rounds < 20 {
			rounds = 20
		}
		for rd := 0; rd < rounds; rd++ {
			shared := decode()
			var wg sync.WaitGroup
			var mu sync.Mutex
			var got [][]byte
			start := make(chan struct{})
			for g := 0; g < *G; g++ {
				wg.Add(1)
				go func() {
					defer wg.Done()
					<-start
					res := use(shared, rd)
					mu.Lock()
					got = append(got, res)
					mu.Unlock()
				}()
			}
			close(start)
			wg.Wait()
			// the sequential reference comes last: in the first round nothing in this process has looked these kinds of
			// key up before the goroutines do (a look-up that writes on first use is only then a concurrent write)
			ref := use(decode(), rd)
			for _, res := range got {
				if !bytes.Equal(res, ref) {
					coldBad++
				}
			}
		}
		if coldBad > 0 {
			fmt.Printf("MISMATCH task=cold-factories count=%d\n", coldBad)
		}
	}

	// message level, library-chosen nonces (7, 12 and 13 bytes) through one shared Encryptor; each result is decrypted
	// again and the nonces one goroutine draws must all differ
	for _, alg := range []int{iana.AlgorithmA128GCM, iana.AlgorithmAES_CCM_16_64_128, iana.AlgorithmAES_CCM_64_64_128, iana.AlgorithmChaCha20Poly1305} {
		var k key.Key
		switch alg {
		case iana.AlgorithmA128GCM:
			k = must(aesgcm.GenerateKey(alg))
		case iana.AlgorithmChaCha20Poly1305:
			k = must(chacha20poly1305.GenerateKey())
		default:
			k = must(aesccm.GenerateKey(alg))
		}
		e := must(k.Encryptor())
		tasks = append(tasks, task{fmt.Sprintf("Encrypt0/random-nonce/%d", alg), func(i int) []byte {
			seen := map[string]bool{}
			for j := 0; j < 4; j++ {
				data := must((&cose.Encrypt0Message[[]byte]{Payload: in(i)}).EncryptAndEncode(e, nil))
				m, err := cose.DecryptEncrypt0Message[[]byte](e, data, nil)
				if err != nil || !bytes.Equal(m.Payload, in(i)) {
					return []byte("FAIL: decrypt-failed")
				}
				iv, _ := m.Unprotected.GetBytes(iana.HeaderParameterIV)
				if len(iv) != e.NonceSize() || seen[string(iv)] {
					return []byte("FAIL: nonce-repeated-or-missized")
				}
				seen[string(iv)] = true
			}
			return []byte("ok")
		}})
	}
	// message level through one shared implementation object: COSE_Mac0 (each MAC family) and COSE_Sign1 produced and
	// verified by all goroutines at once
	for _, alg := range []int{iana.AlgorithmHMAC_256_64, iana.AlgorithmAES_MAC_128_64, iana.AlgorithmAES_MAC_256_128} {
		var k key.Key
		if alg == iana.AlgorithmHMAC_256_64 {
			k = must(hmac.GenerateKey(alg))
		} else {
			k = must(aesmac.GenerateKey(alg))
		}
		mc := must(k.MACer())
		tasks = append(tasks, task{fmt.Sprintf("Mac0/shared-macer/%d", alg), func(i int) []byte {
			data := must((&cose.Mac0Message[[]byte]{Payload: in(i)}).ComputeAndEncode(mc, in(i+1)))
			m, err := cose.VerifyMac0Message[[]byte](mc, data, in(i+1))
			if err != nil || !bytes.Equal(m.Payload, in(i)) {
				return []byte("FAIL: verify-failed")
			}
			return data
		}})
	}
	{
		ks := must(ed25519.GenerateKey())
		sg, vf := must(ks.Signer()), must(ks.Verifier())
		tasks = append(tasks, task{"Sign1/shared-signer", func(i int) []byte {
			data := must((&cose.Sign1Message[[]byte]{Payload: in(i)}).SignAndEncode(sg, nil))
			if _, err := cose.VerifySign1Message[[]byte](vf, data, nil); err != nil {
				return []byte("FAIL: verify-failed")
			}
			return data
		}})
	}
	// arguments are read only: one ciphertext / one tag decrypted / verified by all goroutines from the same slices
	for _, alg := range []int{iana.AlgorithmA128GCM, iana.AlgorithmAES_CCM_16_64_128, iana.AlgorithmChaCha20Poly1305} {
		var k key.Key
		switch alg {
		case iana.AlgorithmA128GCM:
			k = must(aesgcm.GenerateKey(alg))
		case iana.AlgorithmChaCha20Poly1305:
			k = must(chacha20poly1305.GenerateKey())
		default:
			k = must(aesccm.GenerateKey(alg))
		}
		e := must(k.Encryptor())
		nonce := make([]byte, e.NonceSize())
		cts := make([][]byte, len(inputs))
		for i := range inputs {
			cts[i] = must(e.Encrypt(nonce, inputs[i], nil))
		}
		tasks = append(tasks, task{fmt.Sprintf("decrypt-shared-input/%d", alg), func(i int) []byte {
			pt, err := e.Decrypt(nonce, cts[i%len(cts)], nil)
			if err != nil || !bytes.Equal(pt, in(i)) {
				return []byte("FAIL: decrypt-failed")
			}
			return []byte("ok")
		}})
	}
	// key generation and random bytes of every length class from all goroutines
	tasks = append(tasks, task{"GenerateKey+GetRandomBytes", func(i int) []byte {
		a := key.GetRandomBytes(uint16(1 + i%40))
		b := key.GetRandomBytes(uint16(1 + i%40))
		if len(a) != 1+i%40 || (len(a) >= 8 && bytes.Equal(a, b)) {
			return []byte("FAIL: random-bytes-wrong")
		}
		k1, k2 := must(aesgcm.GenerateKey(iana.AlgorithmA128GCM)), must(hmac.GenerateKey(iana.AlgorithmHMAC_256_64))
		if len(k1.Kid()) != 20 || len(k2.Kid()) != 20 {
			return []byte("FAIL: generated-key-wrong")
		}
		return []byte("ok")
	}})

	// the Validator owns its options: the caller goes on using (rewriting) the ValidatorOpts value it was built from while
	// other goroutines validate
	if selected("validator-opts") {
		opts := &cwt.ValidatorOpts{ExpectedIssuer: "iss", ExpectedAudience: "aud-0", ClockSkew: time.Minute, FixedNow: time.Unix(1700000000, 0)}
		v := must(cwt.NewValidator(opts))
		good := &cwt.Claims{Issuer: "iss", Audience: "aud-0", Expiration: 1700003600}
		other := &cwt.Claims{Issuer: "iss", Audience: "aud-1", Expiration: 1700003600}
		var wg sync.WaitGroup
		var mu sync.Mutex
		bad := 0
		stop := make(chan struct{})
		for g := 0; g < *G; g++ {
			wg.Add(1)
			go func() {
				defer wg.Done()
				for i := 0; i < *N*20; i++ {
					if v.Validate(good) != nil || v.Validate(other) == nil {
						mu.Lock()
						bad++
						mu.Unlock()
					}
				}
			}()
		}
		go func() {
			for i := 0; ; i++ {
				select {
				case <-stop:
					return
				default:
				}
				opts.ExpectedAudience = fmt.Sprintf("aud-%d", i%3)
				opts.ClockSkew = time.Duration(i%5) * time.Second
				cwt.NewValidator(opts)
			}
		}()
		wg.Wait()
		close(stop)
		if bad > 0 {
			fmt.Printf("MISMATCH task=validator-opts count=%d\n", bad)
			coldBad += bad
		}
	}

	// a validator without FixedNow (the production configuration): it reads the clock on every call; claims far from
	// "now" on either side so that the verdicts do not depend on when the run happens
	{
		v := must(cwt.NewValidator(&cwt.ValidatorOpts{ExpectedIssuer: "iss", ClockSkew: time.Minute}))
		now := uint64(time.Now().Unix())
		tasks = append(tasks, task{"cwt.Validator/wall-clock", func(i int) []byte {
			exp := now + 86400
			if i%3 == 0 {
				exp = now - 86400
			}
			nbf := now - 86400
			if i%5 == 0 {
				nbf = now + 86400
			}
			c := &cwt.Claims{Issuer: "iss", Expiration: exp, NotBefore: nbf}
			err := v.Validate(c)
			err2 := v.ValidateMap(cwt.ClaimsMap{iana.CWTClaimIss: "iss", iana.CWTClaimExp: exp, iana.CWTClaimNbf: nbf})
			return []byte(fmt.Sprint(err == nil, err2 == nil))
		}})
	}

	// look up, use once, forget — under memory pressure: the implementation object is garbage as soon as the call is
	// under way; nothing it owns may be reclaimed or wiped before the call returns (large messages, collections forced)
	{
		k := must(ed25519.GenerateKey())
		keep := must(k.Signer())
		big := make([]byte, 256<<10)
		for i := range big {
			big[i] = byte(i * 7)
		}
		want := must(keep.Sign(big))
		km := must(hmac.GenerateKey(iana.AlgorithmHMAC_256_64))
		wantTag := must(must(km.MACer()).MACCreate(big))
		tasks = append(tasks, task{"Ephemeral/sign-and-forget", func(i int) []byte {
			go runtime.GC()
			sig := must(must(k.Signer()).Sign(big))
			if !bytes.Equal(sig, want) {
				return []byte("FAIL: an Ed25519 signature differs from the deterministic one")
			}
			tag := must(must(km.MACer()).MACCreate(big))
			if !bytes.Equal(tag, wantTag) {
				return []byte("FAIL: an HMAC tag differs")
			}
			return []byte("ok")
		}})
	}

	// different keys under one kid (and without kid), their implementations obtained by all goroutines at overlapping
	// times: each gets the object of the key it asked with
	for _, alg := range []int{iana.AlgorithmES256, iana.AlgorithmES384, iana.AlgorithmEdDSA} {
		for _, withKid := range []bool{true, false} {
			var ks []key.Key
			var xs [][]byte
			for j := 0; j < 8; j++ {
				var k key.Key
				if alg == iana.AlgorithmEdDSA {
					k = must(ed25519.GenerateKey())
				} else {
					k = must(ecdsa.GenerateKey(alg))
				}
				if withKid {
					k.SetKid([]byte("one kid for all"))
				} else {
					delete(k, iana.KeyParameterKid)
				}
				ks = append(ks, k)
				var pub key.Key
				if alg == iana.AlgorithmEdDSA {
					pub = must(ed25519.ToPublicKey(k))
				} else {
					pub = must(ecdsa.ToPublicKey(k))
				}
				x, _ := pub.GetBytes(iana.OKPKeyParameterX)
				xs = append(xs, x)
			}
			tasks = append(tasks, task{fmt.Sprintf("Factories/same-kid-%v/%d", withKid, alg), func(i int) []byte {
				k := ks[i%len(ks)]
				want := xs[i%len(ks)]
				for rep := 0; rep < 8; rep++ { // many look-ups in a row, so that look-ups of different goroutines overlap
					v := must(k.Verifier())
					if got, _ := v.Key().GetBytes(iana.OKPKeyParameterX); !bytes.Equal(got, want) {
						return []byte(fmt.Sprintf("FAIL: verifier of another key for key %d", i%len(ks)))
					}
					must(k.Signer())
				}
				sg, v := must(k.Signer()), must(k.Verifier())
				sig := must(sg.Sign(in(i)))
				if v.Verify(in(i), sig) != nil {
					return []byte(fmt.Sprintf("FAIL: own signature refused for key %d", i%len(ks)))
				}
				return []byte("ok")
			}})
		}
	}

	// look-ups in lists longer than any small-list fast path (24 keys), by all goroutines at once: Verifiers, Signers and
	// KeySet are plain slices shared by reference; a look-up reads them and returns the entry for exactly that kid
	{
		var ks key.KeySet
		kid := func(i int) []byte { return []byte{byte(i), 0x77, byte(i * 3)} }
		for i := 0; i < 24; i++ {
			k := must(ed25519.GenerateKey())
			k.SetKid(kid(i))
			ks = append(ks, k)
		}
		vs, ss := must(ks.Verifiers()), must(ks.Signers())
		msg := []byte("looked up")
		var sigs [][]byte
		for i := range ss {
			sigs = append(sigs, must(ss[i].Sign(msg)))
		}
		signed := must((&cose.SignMessage[[]byte]{Payload: msg}).SignAndEncode(ss[16:], nil))
		tasks = append(tasks, task{"Lookup/24-keys", func(i int) []byte {
			idx := (i*5 + 7) % 24
			v, sg, k := vs.Lookup(kid(idx)), ss.Lookup(kid(idx)), ks.Lookup(kid(idx))
			if v == nil || sg == nil || k == nil {
				return []byte(fmt.Sprintf("FAIL: nil for kid %d", idx))
			}
			if v.Verify(msg, sigs[idx]) != nil || !bytes.Equal(sg.Key().Kid(), kid(idx)) || !bytes.Equal(k.Kid(), kid(idx)) {
				return []byte(fmt.Sprintf("FAIL: another key's entry for kid %d", idx))
			}
			if vs.Lookup([]byte{0xee}) != nil || ss.Lookup([]byte{0xee}) != nil || ks.Lookup([]byte{0xee}) != nil {
				return []byte("FAIL: entry for an unknown kid")
			}
			if i%4 == 0 { // a COSE_Sign by the last eight keys, verified against the whole list
				if _, err := cose.VerifySignMessage[[]byte](vs, signed, nil); err != nil {
					return []byte("FAIL: sign-verify: " + err.Error())
				}
			}
			return []byte("ok")
		}})
	}

	{
		// key look-ups that fail: keys whose (kty, alg, crv) has no registered implementation.  Each call gets an error of
		// its own that names *its* key and operation, and keeps saying so while other look-ups fail elsewhere.
		unreg := []key.Key{
			{iana.KeyParameterKty: iana.KeyTypeOKP, iana.OKPKeyParameterCrv: iana.EllipticCurveEd448, iana.KeyParameterKid: []byte("ed448")},
			{iana.KeyParameterKty: iana.KeyTypeEC2, iana.EC2KeyParameterCrv: iana.EllipticCurveSecp256k1, iana.KeyParameterKid: []byte("k256")},
			{iana.KeyParameterKty: iana.KeyTypeSymmetric, iana.KeyParameterAlg: -70000, iana.KeyParameterKid: []byte("private-use")},
			{iana.KeyParameterKty: iana.KeyTypeRSA, iana.KeyParameterAlg: iana.AlgorithmPS256, iana.KeyParameterKid: []byte("rsa")},
		}
		lookup := func(k key.Key, op int) error {
			var err error
			switch op {
			case 0:
				_, err = k.Signer()
			case 1:
				_, err = k.Verifier()
			case 2:
				_, err = k.MACer()
			default:
				_, err = k.Encryptor()
			}
			return err
		}
		var want [4][4]string
		for ki, k := range unreg {
			for op := 0; op < 4; op++ {
				e := lookup(k, op)
				if e == nil {
					fmt.Printf("MISMATCH task=Lookup/unregistered setup: an implementation for key %d op %d\n", ki, op)
					os.Exit(1)
				}
				want[ki][op] = e.Error()
			}
		}
		for ki := range unreg {
			for op := 0; op < 4; op++ {
				if e := lookup(unreg[ki], op); e == nil || e.Error() != want[ki][op] {
					fmt.Printf("MISMATCH task=Lookup/unregistered setup: the error of a failed look-up is not a function of key and operation (key %d op %d)\n", ki, op)
					os.Exit(1)
				}
			}
		}
		tasks = append(tasks, task{"Lookup/unregistered", func(i int) []byte {
			ki, op := i%4, (i/4)%4
			e1 := lookup(unreg[ki], op)
			if e1 == nil {
				return []byte("FAIL: implementation for an unregistered key")
			}
			first := e1.Error()
			e2 := lookup(unreg[(ki+1)%4], (op+1)%4) // another failing look-up while the first error is still held
			if e2 == nil {
				return []byte("FAIL: implementation for an unregistered key")
			}
			if first != want[ki][op] || e1.Error() != want[ki][op] || e2.Error() != want[(ki+1)%4][(op+1)%4] {
				return []byte(fmt.Sprintf("FAIL: error of look-up (key %d, op %d) reads %q / %q, alone it reads %q", ki, op, first, e1.Error(), want[ki][op]))
			}
			return []byte("ok")
		}})
	}

	if *onlyFlag != "" {
		var keep []task
		for _, t := range tasks {
			if selected(t.name) {
				keep = append(keep, t)
			}
		}
		tasks = keep
	}

	// concurrent run first, on the instances as constructed (nothing has used them yet: lazily filled fields are filled by
	// the goroutines, not by a warm-up), one shared instance at a time: all goroutines hammer the same task together
	// (accesses to one object stay close in time, which is what the race detector's bounded history needs), every
	// goroutine walking the inputs from its own offset.  The sequential reference is computed afterwards.
	// a call that never returns is told from a slow one by a bound that grows with the work asked for: two minutes plus a
	// fifth of a second per input of each goroutine (P-521 signatures under the race detector on a loaded machine take tens of ms each)
	watchdog := 2*time.Minute + time.Duration(*N)*200*time.Millisecond
	got := make([][][][]byte, len(tasks)) // [task][goroutine][input]
	for t := range tasks {
		got[t] = make([][][]byte, *G)
		var wg sync.WaitGroup
		start := make(chan struct{})
		for g := 0; g < *G; g++ {
			got[t][g] = make([][]byte, *N)
			wg.Add(1)
			go func(g int) {
				defer wg.Done()
				<-start
				for i := 0; i < *N; i++ {
					j := (i + g*7) % *N
					got[t][g][j] = tasks[t].run(j)
				}
			}(g)
		}
		close(start)
		done := make(chan struct{})
		go func() { wg.Wait(); close(done) }()
		select {
		case <-done:
		case <-time.After(watchdog):
			fmt.Printf("MISMATCH task=%s BLOCKED: the goroutines did not return within %v (a call on the shared object never returns)\n", tasks[t].name, watchdog)
			os.Exit(1)
		}
	}
	bad := 0
	for t := range tasks {
		for j := 0; j < *N; j++ {
			want := tasks[t].run(j)
			if bytes.HasPrefix(want, []byte("FAIL: ")) { // a self-check of the task fails even without concurrency
				bad++
				if bad < 5 {
					fmt.Printf("MISMATCH task=%s input=%d sequential run: %s\n", tasks[t].name, j, want)
				}
			}
			for g := 0; g < *G; g++ {
				if !bytes.Equal(got[t][g][j], want) {
					bad++
					if bad < 5 {
						fmt.Printf("MISMATCH task=%s input=%d\n", tasks[t].name, j)
					}
				}
			}
		}
	}
	fmt.Printf("tasks=%d goroutines=%d ops_per_goroutine=%d total_ops=%d mismatches=%d\n", len(tasks), *G, *N*len(tasks), *G**N*len(tasks), bad)
	if bad+coldBad > 0 {
		os.Exit(1)
	}
}
